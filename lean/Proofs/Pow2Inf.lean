/-
  `pow2` beyond the exponent range: for `2^33 + 63 ≤ n < 2^70` (in particular every int64 exponent above
  8589934655, e.g. 9223372036854775807) the square-and-multiply loop overflows: the repeated square
  `f = 2^(2^i)` exceeds `10^MaxExp` at `i = 33`, becomes +Inf, and every later product is +Inf.
  (`pow2 P n` is finite up to `n ≈ 7.1337·10^9`: Proofs/Pow2Err.lean covers `n ≤ 7·10^9`.)
-/
import Proofs.Pow2Err

namespace Decimal
open Spec

/-! ### `Spec.round` outside the range -/

theorem round_form_inf (mode : Mode) (p : Nat) (neg : Bool) (q : ℚ) (k : Int)
    (h : MaxExp < decExp q + k) : (Spec.round mode p neg q k).form = .inf := by
  rw [round_eq_tail _ _ _ _ _ (by rw [MinExp_eq]; rw [MaxExp_eq] at h; omega)]
  unfold roundIntTail
  simp only
  generalize (if (!_ && _) = true then _ + 1 else _) = c
  have h1 : decExp q + k + 1 > MaxExp := by omega
  have h2 : decExp q + k > MaxExp := by omega
  by_cases hc : (c == 10 ^ p) = true
  · simp only [hc, if_true, h1]
  · simp only [hc, Bool.false_eq_true, if_false, h2, if_true]

theorem round_form_ne_zero_p2 (mode : Mode) (p : Nat) (neg : Bool) (q : ℚ) (k : Int)
    (h : MinExp ≤ decExp q + k) : (Spec.round mode p neg q k).form ≠ .zero := by
  rw [round_eq_tail _ _ _ _ _ (by omega)]
  exact roundIntTail_form_ne_zero _ _ _ _ _ _

/-- a product whose exact value is at least `10^E`, `E ≥ MaxExp`, overflows to an infinity. -/
theorem mul_form_inf_of_big (z x y : Dec) (hx : FinCanon x) (hy : FinCanon y) (E : Int) (hE : MaxExp ≤ E)
    (hbig : (10 : ℚ) ^ E ≤ decMag x 0 * decMag y 0) : (mul z x y).1.form = .inf := by
  obtain ⟨hag, -, -, -⟩ := mul_correct z x y hx hy
  have h10 : (10 : ℚ) ≠ 0 := by norm_num
  have h1lt : (1 : ℚ) < 10 := by norm_num
  have hxq : (0 : ℚ) < (x.mant : ℚ) := by exact_mod_cast hx.mant_pos
  have hyq : (0 : ℚ) < (y.mant : ℚ) := by exact_mod_cast hy.mant_pos
  have hqpos : 0 < (x.mant : ℚ) * (y.mant : ℚ) := mul_pos hxq hyq
  have hkpos : (0 : ℚ) < (10 : ℚ) ^ (intExp x + intExp y) := zpow_pos (by norm_num) _
  have hv : decMag x 0 * decMag y 0 = (x.mant : ℚ) * (y.mant : ℚ) * (10 : ℚ) ^ (intExp x + intExp y) := by
    rw [decMag_zero, decMag_zero, zpow_add₀ h10]; ring
  rw [hv] at hbig
  obtain ⟨_, b2⟩ := decExp_bounds hqpos
  have hlt : (10 : ℚ) ^ E < (10 : ℚ) ^ (decExp ((x.mant : ℚ) * (y.mant : ℚ)) + (intExp x + intExp y)) := by
    rw [zpow_add₀ h10]
    exact lt_of_le_of_lt hbig (mul_lt_mul_of_pos_right b2 hkpos)
  have := (zpow_lt_zpow_iff_right₀ h1lt).mp hlt
  rw [form_of_agrees hag]
  exact round_form_inf _ _ _ _ _ (by omega)

/-- One product rounded to nearest whose exact value is at least `1/10`: an infinity, or a finite
    canonical result not more than `relU` below the exact product. -/
theorem mul_nearest_or_inf (z x y : Dec) (hx : FinCanon x) (hy : FinCanon y) (hz0 : z.prec ≠ 0)
    (hzP : z.prec ≤ MaxPrec) (hmode : z.mode = .ToNearestEven)
    (hlo : (1 : ℚ) / 10 ≤ decMag x 0 * decMag y 0) :
    (mul z x y).1.form = .inf ∨
      (FinCanon (mul z x y).1 ∧ (mul z x y).1.prec = z.prec ∧ (mul z x y).1.mode = z.mode ∧
        decMag x 0 * decMag y 0 * (1 - relU z.prec) ≤ decMag (mul z x y).1 0) := by
  have hE := effPrec2_of_ne z x y hz0
  obtain ⟨hag, -, hpr, hmo⟩ := mul_correct z x y hx hy
  rw [hE] at hag hpr
  have h10 : (10 : ℚ) ≠ 0 := by norm_num
  have h1lt : (1 : ℚ) < 10 := by norm_num
  have hxq : (0 : ℚ) < (x.mant : ℚ) := by exact_mod_cast hx.mant_pos
  have hyq : (0 : ℚ) < (y.mant : ℚ) := by exact_mod_cast hy.mant_pos
  set q : ℚ := (x.mant : ℚ) * (y.mant : ℚ) with hq
  set k : Int := intExp x + intExp y with hk
  have hqpos : 0 < q := mul_pos hxq hyq
  have hkpos : (0 : ℚ) < (10 : ℚ) ^ k := zpow_pos (by norm_num) _
  have hv : decMag x 0 * decMag y 0 = q * (10 : ℚ) ^ k := by
    rw [decMag_zero, decMag_zero, hk, zpow_add₀ h10]; ring
  rw [hv] at hlo ⊢
  obtain ⟨b1, b2⟩ := decExp_bounds hqpos
  have hge : 0 ≤ decExp q + k := by
    have : (10 : ℚ) ^ (-1 : Int) < (10 : ℚ) ^ (decExp q + k) := by
      rw [zpow_add₀ h10]
      have e : (10 : ℚ) ^ (-1 : Int) = 1 / 10 := by norm_num
      rw [e]
      exact lt_of_le_of_lt hlo (mul_lt_mul_of_pos_right b2 hkpos)
    have := (zpow_lt_zpow_iff_right₀ h1lt).mp this
    omega
  have hp1 : 1 ≤ z.prec := by omega
  have hnz := round_form_ne_zero_p2 z.mode z.prec (x.neg != y.neg) q k (by rw [MinExp_eq]; omega)
  by_cases hfin : (Spec.round z.mode z.prec (x.neg != y.neg) q k).form = .finite
  · right
    have hnd := round_coef_digits z.mode z.prec (x.neg != y.neg) q k hqpos hp1 hfin
    have hmag := decMag_of_agrees (mul z x y).1 _ k z.prec hag hfin hnd
    have hform : (mul z x y).1.form = .finite := by rw [form_of_agrees hag, hfin]
    have hc : (mul z x y).1.Canonical := by
      rw [mul_fst_eq_umul z x y hx.form_eq hy.form_eq]
      exact umul_canonical _ x y hx.mant_pos hy.mant_pos (by simp only [hE]; omega) (by simp only [hE]; exact hzP)
    have hnear := round_nearest z.mode z.prec (x.neg != y.neg) q k hqpos hp1 hfin (Or.inl hmode)
    rw [← hmag] at hnear
    have hulp : ulpOf q z.prec / 2 ≤ q * relU z.prec := by
      unfold ulpOf relU
      have e : decExp q - (z.prec : Int) = (decExp q - 1) + (1 - (z.prec : Int)) := by ring
      rw [e, zpow_add₀ h10]
      have hpp : (0 : ℚ) < (10 : ℚ) ^ (1 - (z.prec : Int)) := zpow_pos (by norm_num) _
      have := mul_le_mul_of_nonneg_right b1 hpp.le
      linarith
    refine ⟨finCanon_of_canonical hc hform, hpr, hmo, ?_⟩
    have hsc : decMag (mul z x y).1 0 = decMag (mul z x y).1 k * (10 : ℚ) ^ k := by
      unfold decMag
      rw [mul_assoc, ← zpow_add₀ h10]
      congr 2; ring
    have hl : q * (1 - relU z.prec) ≤ decMag (mul z x y).1 k := by
      have := (abs_le.mp (le_trans hnear hulp)).1
      linarith
    rw [hsc]
    calc q * (10 : ℚ) ^ k * (1 - relU z.prec) = (q * (1 - relU z.prec)) * (10 : ℚ) ^ k := by ring
      _ ≤ _ := mul_le_mul_of_nonneg_right hl hkpos.le
  · left
    rw [form_of_agrees hag]
    cases hf : (Spec.round z.mode z.prec (x.neg != y.neg) q k).form with
    | zero => exact absurd hf hnz
    | finite => exact absurd hf hfin
    | inf => rfl

/-! ### products with an infinite operand (the model's `Mul` on special values) -/

theorem mul_recv_inf (z f : Dec) (hz : z.form ≠ .zero) (hf : f.form = .inf) :
    (mul z z f true false).1.form = .inf := by
  unfold mul opnd
  cases hzf : z.form with
  | zero => exact absurd hzf hz
  | finite => by_cases hp : z.prec = 0 <;> simp [hp, hzf, hf]
  | inf => by_cases hp : z.prec = 0 <;> simp [hp, hzf, hf]

theorem mul_self_inf (f : Dec) (hf : f.form = .inf) : (mul f f f true true).1.form = .inf := by
  unfold mul opnd
  by_cases hp : f.prec = 0 <;> simp [hp, hf]

theorem mul_inf_recv_fin (z f : Dec) (hz : z.form = .inf) (hf : f.form = .finite) :
    (mul z z f true false).1.form = .inf := by
  unfold mul opnd
  by_cases hp : z.prec = 0 <;> simp [hp, hz, hf]

/-- once the repeated square is +Inf, the loop returns +Inf (if it still has a product to do). -/
theorem pow2_loop_inf_of_f :
    ∀ (fuel k : Nat) (z f : Dec), f.form = .inf → z.form ≠ .zero → 1 ≤ k → k < 2 ^ fuel →
      (pow2.loop fuel k z f).form = .inf := by
  intro fuel
  induction fuel with
  | zero => intro k z f _ _ h1 hk; simp at hk; omega
  | succ fuel ih =>
    intro k z f hf hz h1 hk
    rw [pow2_loop_succ, if_neg (by omega)]
    have hh : k / 2 < 2 ^ fuel := by rw [Nat.pow_succ] at hk; omega
    have hff : (mul f f f true true).1.form = .inf := mul_self_inf f hf
    by_cases hodd : k % 2 = 1
    · have hz' : (mul z z f true false).1.form = .inf := mul_recv_inf z f hz hf
      simp only [hodd, if_true, true_and]
      by_cases hk1 : k = 1
      · rw [if_pos hk1]; exact hz'
      · rw [if_neg hk1]
        exact ih (k / 2) _ _ hff (by rw [hz']; simp) (by omega) hh
    · simp only [hodd, if_false, false_and]
      exact ih (k / 2) _ _ hff hz (by omega) hh

/-! ### the accumulator while the repeated square is still finite -/

/-- the accumulator is +Inf, or finite and at least `(1−u)^j` (so: never a zero). -/
def ZLow (P : Nat) (z : Dec) (j : Nat) : Prop :=
  z.form = .inf ∨ (FinCanon z ∧ z.prec = P ∧ z.mode = .ToNearestEven ∧ (1 - relU P) ^ j ≤ decMag z 0)

theorem ZLow.form_ne_zero {P : Nat} {z : Dec} {j : Nat} (h : ZLow P z j) : z.form ≠ .zero := by
  rcases h with h | ⟨c, _⟩
  · rw [h]; simp
  · rw [c.form_eq]; simp

theorem ZLow.mono {P : Nat} {z : Dec} {j : Nat} (h : ZLow P z j) (hu : relU P ≤ 1) : ZLow P z (j + 1) := by
  rcases h with h | ⟨c, p, m, lo⟩
  · exact Or.inl h
  · refine Or.inr ⟨c, p, m, le_trans ?_ lo⟩
    have h0 := relU_pos P
    exact pow_le_pow_of_le_one (by linarith) (by linarith) (by omega)

theorem FInv.ge_one {P N J : Nat} {E : Int} (pp : Pow2Params P N J E) {f : Dec} {b : Nat} (hf : FInv P f b)
    (hb : b ≤ N) : 1 ≤ decMag f 0 ∧ (2 : ℚ) ^ b / 2 ≤ decMag f 0 := by
  obtain ⟨_, _, _, _, hb1, flo, _⟩ := hf
  have hl := pp.lo (b - 1) 0 (by omega) (by omega)
  rw [pow_zero, mul_one] at hl
  have h2b : (2 : ℚ) ≤ (2 : ℚ) ^ b := by
    calc (2 : ℚ) = (2 : ℚ) ^ 1 := by norm_num
      _ ≤ (2 : ℚ) ^ b := pow_le_pow_right₀ (by norm_num) hb1
  have hpos : (0 : ℚ) < (2 : ℚ) ^ b := by positivity
  have h1 : (2 : ℚ) ^ b * (1 / 2) ≤ decMag f 0 :=
    le_trans (mul_le_mul_of_nonneg_left hl hpos.le) flo
  constructor
  · calc (1 : ℚ) = 2 * (1 / 2) := by norm_num
      _ ≤ (2 : ℚ) ^ b * (1 / 2) := mul_le_mul_of_nonneg_right h2b (by norm_num)
      _ ≤ _ := h1
  · calc (2 : ℚ) ^ b / 2 = (2 : ℚ) ^ b * (1 / 2) := by ring
      _ ≤ _ := h1

theorem zlow_step {P N J : Nat} {E : Int} (pp : Pow2Params P N J E) (z f : Dec) (b j : Nat)
    (hz : ZLow P z j) (hf : FInv P f b) (hb : b ≤ N) (hj : j + 1 ≤ J) :
    ZLow P (mul z z f true false).1 (j + 1) := by
  have hf1 := (hf.ge_one pp hb).1
  have fc := hf.1
  rcases hz with hz | ⟨zc, zp, zm, zlo⟩
  · exact Or.inl (mul_inf_recv_fin z f hz fc.form_eq)
  · have hz0 : z.prec ≠ 0 := by rw [zp]; have := pp.hP; omega
    have hzP : z.prec ≤ MaxPrec := by rw [zp]; have := pp.hPm; omega
    rw [mul_self_recv z f hz0]
    have hu := relU_pos P
    have hu1 := pp.u_le
    have hhalf := pp.lo 0 j (by omega) (by omega)
    rw [pow_zero, one_mul] at hhalf
    have hzpos := decMag_pos zc
    have hv : (1 - relU P) ^ j ≤ decMag z 0 * decMag f 0 := by
      calc (1 - relU P) ^ j = (1 - relU P) ^ j * 1 := (mul_one _).symm
        _ ≤ decMag z 0 * decMag f 0 := mul_le_mul zlo hf1 (by norm_num) hzpos.le
    rcases mul_nearest_or_inf z z f zc fc hz0 hzP zm (by linarith) with h | ⟨rc, rp, rm, rlo⟩
    · exact Or.inl h
    · refine Or.inr ⟨rc, by rw [rp, zp], by rw [rm, zm], ?_⟩
      rw [zp] at rlo
      calc (1 - relU P) ^ (j + 1) = (1 - relU P) ^ j * (1 - relU P) := pow_succ _ _
        _ ≤ decMag z 0 * decMag f 0 * (1 - relU P) := mul_le_mul_of_nonneg_right hv (by linarith)
        _ ≤ _ := rlo

/-- `10^(3q) ≤ 2^n` when `10·q ≤ n` (because `10^3 < 2^10`). -/
theorem ten_pow_le_two_pow (n q : Nat) (h : 10 * q ≤ n) : (10 : ℚ) ^ (3 * q) ≤ (2 : ℚ) ^ n := by
  have h10 : (10 : ℚ) ^ 3 ≤ (2 : ℚ) ^ 10 := by norm_num
  calc (10 : ℚ) ^ (3 * q) = ((10 : ℚ) ^ 3) ^ q := by rw [pow_mul]
    _ ≤ ((2 : ℚ) ^ 10) ^ q := pow_le_pow_left₀ (by positivity) h10 q
    _ = (2 : ℚ) ^ (10 * q) := by rw [pow_mul]
    _ ≤ (2 : ℚ) ^ n := pow_le_pow_right₀ (by norm_num) h

/-- The loop overflows: while `f = 2^(2^i)` is finite (`i ≤ T`) the accumulator is +Inf or finite non-zero;
    squaring `2^(2^T)` (`2·2^T − 2 ≥ 10·q`, `3·q ≥ MaxExp`) gives +Inf, and at least one more product follows
    because `(k+1)·2^i > 2·2^T`. -/
theorem pow2_loop_overflow {P N J : Nat} {E : Int} (pp : Pow2Params P N J E) (T q : Nat)
    (hTN : 2 ^ T ≤ N) (hq1 : MaxExp ≤ ((3 * q : Nat) : Int)) (hq2 : 10 * q + 2 ≤ 2 ^ T + 2 ^ T) :
    ∀ (fuel k i j : Nat) (z f : Dec), FInv P f (2 ^ i) → ZLow P z j → i ≤ T →
      2 ^ T + 2 ^ T < (k + 1) * 2 ^ i → k < 2 ^ fuel → j + fuel ≤ J →
      (pow2.loop fuel k z f).form = .inf := by
  intro fuel
  induction fuel with
  | zero =>
    intro k i j z f _ _ hi hk hkf _
    have hk0 : k = 0 := by simpa using hkf
    subst hk0
    have : 2 ^ i ≤ 2 ^ T := Nat.pow_le_pow_right (by omega) hi
    omega
  | succ fuel ih =>
    intro k i j z f hf hz hi hk hkf hjf
    have hiT : 2 ^ i ≤ 2 ^ T := Nat.pow_le_pow_right (by omega) hi
    have hk2 : 2 ≤ k := by
      by_contra hlt
      have hk1 : k + 1 ≤ 2 := by omega
      have : (k + 1) * 2 ^ i ≤ 2 * 2 ^ T := Nat.mul_le_mul hk1 hiT
      omega
    rw [pow2_loop_succ, if_neg (by omega)]
    have hh : k / 2 < 2 ^ fuel := by rw [Nat.pow_succ] at hkf; omega
    have hne1 : ¬ (k % 2 = 1 ∧ k = 1) := by omega
    -- the accumulator after the (possible) product
    have hz' : ZLow P (if k % 2 = 1 then (mul z z f true false).1 else z) (j + 1) := by
      by_cases hodd : k % 2 = 1
      · rw [if_pos hodd]; exact zlow_step pp z f (2 ^ i) j hz hf (le_trans hiT hTN) (by omega)
      · rw [if_neg hodd]; exact hz.mono pp.u_le
    simp only [hne1, if_false]
    have hfp : f.prec ≠ 0 := by rw [hf.2.2.1]; omega
    by_cases hi32 : i = T
    · -- the square overflows
      have hff : (mul f f f true true).1.form = .inf := by
        rw [mul_self_all f hfp]
        obtain ⟨_, hge⟩ := hf.ge_one pp (le_trans hiT hTN)
        have hfpos := decMag_pos hf.1
        have h2pos : (0 : ℚ) < (2 : ℚ) ^ (2 ^ i) / 2 := by positivity
        have hsq : ((2 : ℚ) ^ (2 ^ i) / 2) * ((2 : ℚ) ^ (2 ^ i) / 2) ≤ decMag f 0 * decMag f 0 :=
          mul_le_mul hge hge h2pos.le hfpos.le
        have hexp : 2 ^ i + 2 ^ i = (2 ^ i + 2 ^ i - 2) + 2 := by
          have : 1 ≤ 2 ^ i := Nat.one_le_two_pow
          omega
        have he : ((2 : ℚ) ^ (2 ^ i) / 2) * ((2 : ℚ) ^ (2 ^ i) / 2) = (2 : ℚ) ^ (2 ^ i + 2 ^ i - 2) := by
          have : (2 : ℚ) ^ (2 ^ i) * (2 : ℚ) ^ (2 ^ i) = (2 : ℚ) ^ (2 ^ i + 2 ^ i - 2) * 4 := by
            rw [← pow_add]
            conv_lhs => rw [hexp]
            rw [pow_add]; norm_num
          calc ((2 : ℚ) ^ (2 ^ i) / 2) * ((2 : ℚ) ^ (2 ^ i) / 2)
              = ((2 : ℚ) ^ (2 ^ i) * (2 : ℚ) ^ (2 ^ i)) / 4 := by ring
            _ = _ := by rw [this]; ring
        have hbig : (10 : ℚ) ^ (((3 * q : Nat)) : Int) ≤ decMag f 0 * decMag f 0 := by
          rw [zpow_natCast]
          calc (10 : ℚ) ^ (3 * q) ≤ (2 : ℚ) ^ (2 ^ i + 2 ^ i - 2) :=
                ten_pow_le_two_pow _ q (by rw [hi32]; omega)
            _ = _ := he.symm
            _ ≤ _ := hsq
        exact mul_form_inf_of_big f f f hf.1 hf.1 _ hq1 hbig
      exact pow2_loop_inf_of_f fuel (k / 2) _ _ hff hz'.form_ne_zero (by omega) hh
    · have hlt : i < T := by omega
      have hbb : 2 ^ i + 2 ^ i ≤ N := by
        have : 2 ^ (i + 1) ≤ 2 ^ T := Nat.pow_le_pow_right (by omega) hlt
        rw [Nat.pow_succ] at this
        omega
      have hf' : FInv P (mul f f f true true).1 (2 ^ (i + 1)) := by
        rw [mul_self_all f hfp]
        have := step_sq pp f (2 ^ i) hf hbb
        have e : 2 ^ (i + 1) = 2 ^ i + 2 ^ i := by rw [Nat.pow_succ]; omega
        rw [e]; exact this
      apply ih (k / 2) (i + 1) (j + 1) _ _ hf' hz' (by omega) _ hh (by omega)
      have e : 2 ^ (i + 1) = 2 * 2 ^ i := by rw [Nat.pow_succ]; omega
      rw [e]
      have h1 : k + 1 ≤ (k / 2 + 1) * 2 := by omega
      calc 2 ^ T + 2 ^ T < (k + 1) * 2 ^ i := hk
        _ ≤ ((k / 2 + 1) * 2) * 2 ^ i := Nat.mul_le_mul_right _ h1
        _ = (k / 2 + 1) * (2 * 2 ^ i) := by rw [Nat.mul_assoc]

/-- **`pow2` overflows** for every exponent `2^33 + 63 ≤ n < 2^70` (in particular for every int64 above
    8589934655): the result is +Inf. -/
theorem pow2_inf (P n : Nat) (hP : 20 ≤ P) (hPm : P + 19 ≤ 2147483647) (hn1 : 8589934655 ≤ n)
    (hn2 : n < 1180591620717411303424) : (pow2 P n).form = .inf := by
  obtain ⟨E, pp⟩ := pow2Params_exists P 7000000000 hP (by rw [MaxPrec_eq]; omega) (le_refl _)
  have h19 : ndigits (2 ^ 63) ≤ P := by
    have : ndigits (2 ^ 63) ≤ 19 := by rw [ndigits_le_iff]; norm_num
    omega
  have hz := setBits64_pow2 P 63 (by omega) (by omega) h19
  have hf := setBits64_pow2 (P + 19) 1 (by omega) (by omega)
    (by have : ndigits (2 ^ 1) ≤ 19 := by rw [ndigits_le_iff]; norm_num
        omega)
  have hzm : (setBits64 { prec := P } false (2 ^ 63) 0).mode = .ToNearestEven := setBits64_mode _ _ _ _
  have hfm : (setBits64 { prec := P + 19 } false (2 ^ 1) 0).mode = .ToNearestEven := setBits64_mode _ _ _ _
  have hZ : ZLow P (setBits64 { prec := P } false (2 ^ 63) 0) 0 := by
    obtain ⟨c, _, _, v, p, _⟩ := hz
    refine Or.inr ⟨c, p, hzm, ?_⟩
    rw [v, pow_zero]
    exact one_le_pow₀ (by norm_num)
  have hF : FInv P (setBits64 { prec := P + 19 } false (2 ^ 1) 0) (2 ^ 0) := isPow2_FInv hf hfm
  have hpe : pow2 P n = pow2.loop 70 (n - 63) (setBits64 { prec := P } false (2 ^ 63) 0)
      (setBits64 { prec := P + 19 } false (2 ^ 1) 0) := by
    unfold pow2
    have h64 : ¬ n < 64 := by omega
    simp only [h64, if_false, DW_eq]
    rfl
  rw [hpe]
  have h32 : (2 : Nat) ^ 32 = 4294967296 := by norm_num
  exact pow2_loop_overflow pp 32 715827883 (by rw [h32]; omega) (by rw [MaxExp_eq]; norm_num) (by rw [h32]; omega)
    70 (n - 63) 0 0 _ _ hF hZ (by omega) (by rw [h32]; omega) (by omega) (by omega)

end Decimal
