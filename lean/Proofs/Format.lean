/-
  Text output with an explicit precision and `Format` (C13).

  1. the structure of `format` (sign / padding / body) and of `append` (sign, rounded copy, layout);
  2. special values (±Inf, ±0);
  3. `roundBelowQuantum`: the rounding decision in integers;
  4. the digits written by `fmtE` / `fmtF` for a canonical finite value;
  5. the `%e` / `%f` choice of `%g`.
-/
import Proofs.TextRT
import Proofs.ArithOps
import Proofs.RoundProps
import Proofs.Conv

namespace Decimal
open Spec

/-! ## 1. Structure of `Format` -/

/-- The verbs `Format` accepts. -/
def okVerb (verb : Char) : Bool :=
  verb == 'e' || verb == 'E' || verb == 'f' || verb == 'b' || verb == 'p' || verb == 'F' || verb == 's' ||
    verb == 'v' || verb == 'g' || verb == 'G'

/-- The format character and precision `Format` hands to `Append`. -/
def fmtArgs (fl : FmtFlags) (verb : Char) : Char × Int :=
  let prec0 : Int := match fl.prec with | some p => p | none => 6
  if verb == 'F' then ('f', prec0)
  else if verb == 's' then ('g', match fl.prec with | some p => (p : Int) | none => 10)
  else if verb == 'v' || verb == 'g' then ('g', match fl.prec with | some p => (p : Int) | none => -1)
  else if verb == 'G' then ('G', match fl.prec with | some p => (p : Int) | none => -1)
  else (verb, prec0)

/-- `Format` takes the sign off the text of `Append` and replaces it according to the flags. -/
def fmtSplit (fl : FmtFlags) (buf : List Char) : List Char × List Char :=
  match buf with
  | '-' :: rest => (['-'], rest)
  | '+' :: rest => ((if fl.space && !fl.plus then [' '] else ['+']), rest)
  | _ => ((if fl.plus then ['+'] else if fl.space then [' '] else []), buf)

def fmtPad (fl : FmtFlags) (sign body : List Char) : Nat :=
  match fl.width with
  | some w => if w > sign.length + body.length then w - sign.length - body.length else 0
  | none => 0

/-- The three layouts. -/
def fmtLayout (x : Dec) (fl : FmtFlags) (sign body : List Char) : List Char :=
  let padding := fmtPad fl sign body
  if fl.zero && !fl.minus && x.form != .inf then sign ++ repeatChar '0' padding ++ body
  else if fl.minus then sign ++ body ++ repeatChar ' ' padding
  else repeatChar ' ' padding ++ sign ++ body

theorem format_unfold (x : Dec) (fl : FmtFlags) (verb : Char) (hv : okVerb verb = true) :
    format x fl verb =
      fmtLayout x fl (fmtSplit fl (append x (fmtArgs fl verb).1 (fmtArgs fl verb).2)).1
        (fmtSplit fl (append x (fmtArgs fl verb).1 (fmtArgs fl verb).2)).2 := by
  unfold okVerb at hv
  unfold format
  simp only [hv, Bool.not_true, Bool.false_eq_true, if_false]
  rfl

theorem format_badVerb (x : Dec) (fl : FmtFlags) (verb : Char) (hv : okVerb verb = false) :
    format x fl verb = "%!".toList ++ [verb] ++ "(*decimal.Decimal=".toList ++ append x 'g' 10 ++ [')'] := by
  unfold okVerb at hv
  unfold format
  simp only [hv, Bool.not_false, if_true]

theorem fmtPad_eq (fl : FmtFlags) (sign body : List Char) :
    fmtPad fl sign body = match fl.width with
      | some w => w - (sign.length + body.length)
      | none => 0 := by
  unfold fmtPad
  cases fl.width with
  | none => rfl
  | some w => simp only; split; all_goals omega

theorem fmtLayout_length (x : Dec) (fl : FmtFlags) (sign body : List Char) :
    (fmtLayout x fl sign body).length = sign.length + body.length + fmtPad fl sign body := by
  unfold fmtLayout repeatChar
  simp only
  split
  · simp only [List.length_append, List.length_replicate]; omega
  · split <;> (simp only [List.length_append, List.length_replicate]; try omega)

theorem fmtLayout_width (x : Dec) (fl : FmtFlags) (sign body : List Char) (w : Nat) (hw : fl.width = some w) :
    w ≤ (fmtLayout x fl sign body).length := by
  rw [fmtLayout_length, fmtPad_eq, hw]
  simp only
  omega

theorem fmtLayout_noWidth (x : Dec) (fl : FmtFlags) (sign body : List Char) (hw : fl.width = none) :
    fmtLayout x fl sign body = sign ++ body := by
  have hp : fmtPad fl sign body = 0 := by rw [fmtPad_eq, hw]
  unfold fmtLayout repeatChar
  simp only [hp, List.replicate_zero, List.append_nil, List.nil_append]
  split
  · rfl
  · split <;> rfl

/-- The format character handed to `Append` is one `Append` knows. -/
def fmtKnown (f : Char) : Bool :=
  f == 'e' || f == 'E' || f == 'f' || f == 'g' || f == 'G' || f == 'b' || f == 'p'

theorem fmtArgs_known (fl : FmtFlags) (verb : Char) (hv : okVerb verb = true) :
    fmtKnown (fmtArgs fl verb).1 = true := by
  simp only [okVerb, Bool.or_eq_true, beq_iff_eq] at hv
  rcases hv with ((((((((h | h) | h) | h) | h) | h) | h) | h) | h) | h <;> subst h <;> rfl

/-! ## 2. Structure of `Append` -/

def signChars (x : Dec) : List Char := if x.neg then ['-'] else []

/-- `x.MantExp(nil)` as used by `Append`: 0 for a zero. -/
def ex0 (d : Dec) : Int := if d.form == .finite then d.exp else 0

/-- Step 1 of `Append` for the formats `e E f g G`: the (possibly rounded) copy, its digit count,
    and the precision used by step 2. -/
def appendRound (x : Dec) (fmtc : Char) (prec : Int) : Dec × Int × Int :=
  let digits0 : Int := minPrec x
  if prec < 0 then
    let prec : Int :=
      if fmtc == 'e' || fmtc == 'E' then digits0 - 1
      else if fmtc == 'f' then max (digits0 - ex0 x) 0
      else digits0
    (x, digits0, prec)
  else
    let prec : Int := if (fmtc == 'g' || fmtc == 'G') && prec == 0 then 1 else prec
    let rnd : Int :=
      if fmtc == 'e' || fmtc == 'E' then 1 + prec
      else if fmtc == 'f' then ex0 x + prec
      else prec
    if fmtc == 'f' && x.form == .finite && rnd ≤ 0 then
      let y := roundBelowQuantum x prec
      (y, minPrec y, prec)
    else if rnd < digits0 then
      let y := set { mode := x.mode, prec := rnd.toNat } x
      (y, minPrec y, prec)
    else (x, digits0, prec)

/-- Step 2 for `g G`: the `%e` / `%f` choice. -/
def appendG (y : Dec) (digits prec : Int) (shortest : Prop) [Decidable shortest] (fmtc : Char) : List Char :=
  let eprec : Int := if prec > digits && digits ≥ ex0 y then digits else prec
  let eprec : Int := if shortest then 6 else eprec
  let exp : Int := ex0 y - 1
  if exp < -4 || exp ≥ eprec then
    let prec := if prec > digits then digits else prec
    fmtE y (if fmtc == 'g' then 'e' else 'E') (prec - 1)
  else
    let prec := if prec > ex0 y then digits else prec
    fmtF y (max (prec - ex0 y) 0)

def isEFG (fmtc : Char) : Bool := fmtc == 'e' || fmtc == 'E' || fmtc == 'f' || fmtc == 'g' || fmtc == 'G'

theorem isEFG_ne (fmtc c : Char) (hf : isEFG fmtc = true) (hc : isEFG c = false) : (fmtc == c) = false := by
  by_contra h
  simp only [Bool.not_eq_false] at h
  have := eq_of_beq h
  subst this
  rw [hf] at hc
  cases hc

theorem append_inf (x : Dec) (fmtc : Char) (prec : Int) (hinf : x.form = .inf) :
    append x fmtc prec = if x.neg then "-Inf".toList else "+Inf".toList := by
  unfold append
  simp only [hinf, beq_self_eq_true, if_true]
  cases x.neg <;> rfl

theorem append_b (x : Dec) (prec : Int) (hinf : x.form ≠ .inf) :
    append x 'b' prec = signChars x ++ fmtB x := by
  have hi : (x.form == .inf) = false := by simp [hinf]
  unfold append signChars
  simp only [hi, Bool.false_eq_true, if_false, beq_self_eq_true, if_true]

theorem append_p (x : Dec) (prec : Int) (hinf : x.form ≠ .inf) :
    append x 'p' prec = signChars x ++ fmtP x := by
  have hi : (x.form == .inf) = false := by simp [hinf]
  have hb : ('p' == 'b') = false := by decide
  unfold append signChars
  simp only [hi, hb, Bool.false_eq_true, if_false, beq_self_eq_true, if_true]

theorem append_unknown (x : Dec) (fmtc : Char) (prec : Int) (hinf : x.form ≠ .inf)
    (hf : fmtKnown fmtc = false) : append x fmtc prec = ['%', fmtc] := by
  have hi : (x.form == .inf) = false := by simp [hinf]
  unfold fmtKnown at hf
  simp only [Bool.or_eq_false_iff] at hf
  obtain ⟨⟨⟨⟨⟨⟨h1, h2⟩, h3⟩, h4⟩, h5⟩, h6⟩, h7⟩ := hf
  unfold append
  simp only [hi, h1, h2, h3, h4, h5, h6, h7, Bool.false_eq_true, if_false, Bool.or_self, Bool.not_false,
    if_true]

/-- `Append` for `e E f g G` on a value that is not an infinity: sign, then the layout of the rounded copy. -/
theorem append_unfold (x : Dec) (fmtc : Char) (prec : Int) (hinf : x.form ≠ .inf) (hf : isEFG fmtc = true) :
    append x fmtc prec = signChars x ++
      (if fmtc == 'e' || fmtc == 'E' then fmtE (appendRound x fmtc prec).1 fmtc (appendRound x fmtc prec).2.2
       else if fmtc == 'f' then fmtF (appendRound x fmtc prec).1 (appendRound x fmtc prec).2.2
       else appendG (appendRound x fmtc prec).1 (appendRound x fmtc prec).2.1 (appendRound x fmtc prec).2.2
          (prec < 0) fmtc) := by
  have hb : (fmtc == 'b') = false := isEFG_ne fmtc 'b' hf (by decide)
  have hp : (fmtc == 'p') = false := isEFG_ne fmtc 'p' hf (by decide)
  unfold isEFG at hf
  unfold append appendRound appendG signChars ex0
  have hi : (x.form == .inf) = false := by simp [hinf]
  simp only [hi, hb, hp, hf, Bool.false_eq_true, if_false, Bool.not_true]
  by_cases h1 : (fmtc == 'e' || fmtc == 'E') = true
  · simp only [h1, if_true]
  · simp only [h1, Bool.false_eq_true, if_false]
    by_cases h2 : (fmtc == 'f') = true
    · simp only [h2, if_true]
    · simp only [h2, Bool.false_eq_true, if_false]
      exact (apply_ite (fun t => (if x.neg = true then ['-'] else []) ++ t) _ _ _).symm

/-! ## 3. The text of `Append` is a sign followed by a body that does not start with a sign -/

def NotSign (c : Char) : Prop := c ≠ '-' ∧ c ≠ '+'

def HeadNotSign (l : List Char) : Prop := ∀ c rest, l = c :: rest → NotSign c

theorem isDigit_notSign {c : Char} (h : c.isDigit = true) : NotSign c := by
  constructor <;> rintro rfl <;> exact absurd h (by decide)

theorem headNotSign_cons {c : Char} (l : List Char) (h : NotSign c) : HeadNotSign (c :: l) := by
  intro d rest e
  injection e with e1 _
  rw [← e1]; exact h

theorem headNotSign_append {a b : List Char} (ha : ∀ c ∈ a, NotSign c) (hb : HeadNotSign b) :
    HeadNotSign (a ++ b) := by
  cases a with
  | nil => exact hb
  | cons c t => exact headNotSign_cons _ (ha c (List.mem_cons_self))

theorem mem_natDigits_isDigit {n : Nat} {c : Char} (h : c ∈ natDigits n) : c.isDigit = true := by
  rw [natDigits_eq] at h
  exact Nat.isDigit_of_mem_toDigits (by decide) (by decide) h

theorem mem_toa_isDigit {x : Dec} {c : Char} (h : c ∈ (toa x).1) : c.isDigit = true := by
  unfold toa at h
  split at h
  · cases h
  · exact mem_natDigits_isDigit h

theorem mem_trimRightZeros {l : List Char} {c : Char} (h : c ∈ trimRightZeros l) : c ∈ l := by
  unfold trimRightZeros at h
  rw [List.mem_reverse] at h
  exact List.mem_reverse.mp ((List.dropWhile_sublist _).subset h)

theorem mem_repeatChar {c d : Char} {n : Nat} (h : c ∈ repeatChar d n) : c = d := by
  unfold repeatChar at h
  exact (List.mem_replicate.mp h).2

/-- `fmtE` in one piece. -/
theorem fmtE_eq (x : Dec) (fmtc : Char) (prec : Int) :
    fmtE x fmtc prec =
      let mant := trimRightZeros (toa x).1
      let exp : Int := if mant.length > 0 then (toa x).2 - 1 else 0
      [mant.headD '0'] ++
        (if prec > 0 then
          '.' :: ((mant.take (min mant.length (prec.toNat + 1))).drop 1 ++
            repeatChar '0' (prec.toNat - ((mant.take (min mant.length (prec.toNat + 1))).drop 1).length))
         else []) ++
        [fmtc, if exp < 0 then '-' else '+'] ++ (if exp.natAbs < 10 then ['0'] else []) ++
        natDigits exp.natAbs := by
  unfold fmtE
  rcases toa x with ⟨m0, e0⟩
  simp only
  have hint : ∀ k : Nat, intToChars (k : Int) = natDigits k := fun k => rfl
  generalize (if (trimRightZeros m0).length > 0 then e0 - 1 else 0) = E
  by_cases hE : E < 0
  · have h3 : intToChars (-E) = natDigits E.natAbs := by
      rw [← hint]; congr 1; omega
    have h4 : (-E < 10) = (E.natAbs < 10) := propext (by omega)
    simp only [hE, if_true, h3, h4]
  · have h3 : intToChars E = natDigits E.natAbs := by
      rw [← hint]; congr 1; omega
    have h4 : (E < 10) = (E.natAbs < 10) := propext (by omega)
    simp only [hE, if_false, h3, h4]

theorem fmtE_head (x : Dec) (fmtc : Char) (prec : Int) : HeadNotSign (fmtE x fmtc prec) := by
  rw [fmtE_eq]
  simp only [List.append_assoc, List.singleton_append]
  apply headNotSign_cons
  apply isDigit_notSign
  cases h : trimRightZeros (toa x).1 with
  | nil => rfl
  | cons c t =>
    have : c ∈ trimRightZeros (toa x).1 := by rw [h]; exact List.mem_cons_self
    exact mem_toa_isDigit (mem_trimRightZeros this)

/-- `fmtF` in one piece. -/
theorem fmtF_eq (x : Dec) (prec : Int) :
    fmtF x prec =
      (if (toa x).2 > 0 then
        (toa x).1.take (min (minPrec x) (toa x).2.toNat) ++
          repeatChar '0' ((toa x).2.toNat - min (minPrec x) (toa x).2.toNat)
       else ['0']) ++
      (if prec > 0 then
        '.' :: (List.range prec.toNat).map (fun (i : Nat) =>
          if 0 ≤ (toa x).2 + (i : Int) ∧ (toa x).2 + (i : Int) < (toa x).1.length then
            (toa x).1.getD ((toa x).2 + (i : Int)).toNat '0' else '0')
       else []) := by
  unfold fmtF
  rcases toa x with ⟨m0, e0⟩
  rfl

theorem fmtF_head (x : Dec) (prec : Int) : HeadNotSign (fmtF x prec) := by
  rw [fmtF_eq]
  apply headNotSign_append
  · intro c hc
    split at hc
    · rcases List.mem_append.mp hc with h | h
      · exact isDigit_notSign (mem_toa_isDigit (List.mem_of_mem_take h))
      · rw [mem_repeatChar h]; exact isDigit_notSign (by decide)
    · rw [List.mem_singleton.mp hc]; exact isDigit_notSign (by decide)
  · split
    · exact headNotSign_cons _ (by constructor <;> decide)
    · intro c rest e; cases e

theorem fmtB_head (x : Dec) : HeadNotSign (fmtB x) := by
  unfold fmtB
  split
  · exact headNotSign_cons _ (by constructor <;> decide)
  · have hm : ∀ c ∈ (toa x).1, NotSign c := fun c hc => isDigit_notSign (mem_toa_isDigit hc)
    generalize toa x = t at hm
    rcases t with ⟨m0, e0⟩
    simp only [List.append_assoc] at hm ⊢
    apply headNotSign_append
    · intro c hc
      split at hc
      · exact hm c (List.mem_of_mem_take hc)
      · exact hm c hc
    · apply headNotSign_append
      · intro c hc
        rw [mem_repeatChar hc]; exact isDigit_notSign (by decide)
      · exact headNotSign_cons _ (by constructor <;> decide)

theorem fmtP_head (x : Dec) : HeadNotSign (fmtP x) := by
  unfold fmtP
  split
  · exact headNotSign_cons _ (by constructor <;> decide)
  · rcases toa x with ⟨m0, e0⟩
    exact headNotSign_cons _ (by constructor <;> decide)

theorem headNotSign_ite {c : Prop} [Decidable c] {a b : List Char} (ha : HeadNotSign a) (hb : HeadNotSign b) :
    HeadNotSign (if c then a else b) := by
  split <;> assumption

theorem appendG_head (y : Dec) (digits prec : Int) (shortest : Prop) [Decidable shortest] (fmtc : Char) :
    HeadNotSign (appendG y digits prec shortest fmtc) := by
  unfold appendG
  exact headNotSign_ite (fmtE_head _ _ _) (fmtF_head _ _)

/-- The sign `Append` writes. -/
def appendSign (x : Dec) : List Char := if x.neg then ['-'] else if x.form == .inf then ['+'] else []

/-- **Sign and body.** For a format `Append` knows, the text is the sign (`-`, or `+` for `+Inf`)
    followed by a body whose first character is not a sign. -/
theorem append_sign_body (x : Dec) (fmtc : Char) (prec : Int) (hf : fmtKnown fmtc = true) :
    ∃ body, append x fmtc prec = appendSign x ++ body ∧ HeadNotSign body := by
  by_cases hinf : x.form = .inf
  · refine ⟨"Inf".toList, ?_, headNotSign_cons _ (by constructor <;> decide)⟩
    rw [append_inf x fmtc prec hinf]
    unfold appendSign
    cases x.neg <;> simp [hinf]
  · have hi : (x.form == .inf) = false := by simp [hinf]
    have hs : appendSign x = signChars x := by
      unfold appendSign signChars; simp only [hi, Bool.false_eq_true, if_false]
    rw [hs]
    by_cases hefg : isEFG fmtc = true
    · rw [append_unfold x fmtc prec hinf hefg]
      refine ⟨_, rfl, ?_⟩
      split
      · exact fmtE_head _ _ _
      · split
        · exact fmtF_head _ _
        · exact appendG_head _ _ _ _ _
    · have hbp : fmtc = 'b' ∨ fmtc = 'p' := by
        unfold fmtKnown at hf
        unfold isEFG at hefg
        simp only [Bool.or_eq_true, beq_iff_eq] at hf hefg
        tauto
      rcases hbp with rfl | rfl
      · exact ⟨_, append_b x prec hinf, fmtB_head x⟩
      · exact ⟨_, append_p x prec hinf, fmtP_head x⟩

theorem fmtSplit_of_headNotSign (fl : FmtFlags) (l : List Char) (h : HeadNotSign l) :
    fmtSplit fl l = ((if fl.plus then ['+'] else if fl.space then [' '] else []), l) := by
  unfold fmtSplit
  split
  · exact absurd rfl (h _ _ rfl).1
  · exact absurd rfl (h _ _ rfl).2
  · rfl

/-- The sign `Format` writes. -/
def fmtSignChars (x : Dec) (fl : FmtFlags) : List Char :=
  if x.neg then ['-']
  else if x.form == .inf then (if fl.space && !fl.plus then [' '] else ['+'])
  else if fl.plus then ['+'] else if fl.space then [' '] else []

/-- The text of `Append` without its sign. -/
def appendBody (x : Dec) (fmtc : Char) (prec : Int) : List Char :=
  (append x fmtc prec).drop (appendSign x).length

theorem append_eq_sign_body (x : Dec) (fmtc : Char) (prec : Int) (hf : fmtKnown fmtc = true) :
    append x fmtc prec = appendSign x ++ appendBody x fmtc prec ∧ HeadNotSign (appendBody x fmtc prec) := by
  obtain ⟨body, h1, h2⟩ := append_sign_body x fmtc prec hf
  have : appendBody x fmtc prec = body := by
    unfold appendBody; rw [h1, List.drop_left]
  rw [this]; exact ⟨h1, h2⟩

theorem fmtSplit_append (x : Dec) (fl : FmtFlags) (fmtc : Char) (prec : Int) (hf : fmtKnown fmtc = true) :
    fmtSplit fl (append x fmtc prec) = (fmtSignChars x fl, appendBody x fmtc prec) := by
  obtain ⟨h1, h2⟩ := append_eq_sign_body x fmtc prec hf
  rw [h1]
  unfold appendSign fmtSignChars
  by_cases hn : x.neg = true
  · simp only [hn, if_true]; rfl
  · simp only [hn, Bool.false_eq_true, if_false]
    by_cases hi : (x.form == .inf) = true
    · simp only [hi, if_true]; rfl
    · simp only [hi, Bool.false_eq_true, if_false, List.nil_append]
      exact fmtSplit_of_headNotSign fl _ h2

/-- **`Format` = layout of sign and body.** -/
theorem format_eq (x : Dec) (fl : FmtFlags) (verb : Char) (hv : okVerb verb = true) :
    format x fl verb =
      fmtLayout x fl (fmtSignChars x fl) (appendBody x (fmtArgs fl verb).1 (fmtArgs fl verb).2) := by
  rw [format_unfold x fl verb hv, fmtSplit_append x fl _ _ (fmtArgs_known fl verb hv)]

/-! ## 4. The rounded copy; special values -/

theorem toa_nonfinite (x : Dec) (h : x.form ≠ .finite) : toa x = ([], 0) := by
  unfold toa; simp [h]

theorem minPrec_nonfinite (x : Dec) (h : x.form ≠ .finite) : minPrec x = 0 := by
  unfold minPrec; simp [h]

theorem ex0_nonfinite (x : Dec) (h : x.form ≠ .finite) : ex0 x = 0 := by
  unfold ex0; simp [h]

theorem ex0_finite (x : Dec) (h : x.form = .finite) : ex0 x = x.exp := by
  unfold ex0; simp [h]

/-- The precision after `if prec == 0 { prec = 1 }` for `g G`. -/
def gPrec (fmtc : Char) (prec : Int) : Int := if (fmtc == 'g' || fmtc == 'G') && prec == 0 then 1 else prec

/-- The number of significant digits to round to. -/
def rndDigits (x : Dec) (fmtc : Char) (prec : Int) : Int :=
  if fmtc == 'e' || fmtc == 'E' then 1 + gPrec fmtc prec
  else if fmtc == 'f' then ex0 x + gPrec fmtc prec
  else gPrec fmtc prec

theorem appendRound_shortest (x : Dec) (fmtc : Char) (prec : Int) (h : prec < 0) :
    appendRound x fmtc prec = (x, (minPrec x : Int),
      if fmtc == 'e' || fmtc == 'E' then (minPrec x : Int) - 1
      else if fmtc == 'f' then max ((minPrec x : Int) - ex0 x) 0
      else (minPrec x : Int)) := by
  unfold appendRound
  simp only [h, if_true]

theorem appendRound_explicit (x : Dec) (fmtc : Char) (prec : Int) (h : 0 ≤ prec) :
    appendRound x fmtc prec =
      if fmtc == 'f' && x.form == .finite && rndDigits x fmtc prec ≤ 0 then
        (roundBelowQuantum x (gPrec fmtc prec), (minPrec (roundBelowQuantum x (gPrec fmtc prec)) : Int), gPrec fmtc prec)
      else if rndDigits x fmtc prec < minPrec x then
        (set { mode := x.mode, prec := (rndDigits x fmtc prec).toNat } x,
          (minPrec (set { mode := x.mode, prec := (rndDigits x fmtc prec).toNat } x) : Int), gPrec fmtc prec)
      else (x, (minPrec x : Int), gPrec fmtc prec) := by
  have h' : ¬ prec < 0 := by omega
  unfold appendRound rndDigits gPrec
  simp only [h', if_false]

theorem gPrec_nonneg (fmtc : Char) (prec : Int) (h : 0 ≤ prec) : 0 ≤ gPrec fmtc prec := by
  unfold gPrec; split <;> omega

/-- a zero is never rounded. -/
theorem appendRound_zero (x : Dec) (fmtc : Char) (prec : Int) (hz : x.form = .zero) :
    appendRound x fmtc prec = (x, 0,
      if prec < 0 then (if fmtc == 'e' || fmtc == 'E' then -1 else 0) else gPrec fmtc prec) := by
  have hnf : x.form ≠ .finite := by rw [hz]; decide
  have hff : (x.form == Form.finite) = false := by rw [hz]; rfl
  have hm := minPrec_nonfinite x hnf
  have he := ex0_nonfinite x hnf
  by_cases h : prec < 0
  · rw [appendRound_shortest x fmtc prec h, hm, he]
    simp only [h, if_true]
    split
    · rfl
    · split <;> rfl
  · rw [appendRound_explicit x fmtc prec (by omega), hm]
    have hg := gPrec_nonneg fmtc prec (by omega)
    have hr : ¬ rndDigits x fmtc prec < ((0 : Nat) : Int) := by
      unfold rndDigits; rw [he]; split
      · omega
      · split <;> omega
    simp only [hff, Bool.and_false, Bool.false_and, Bool.false_eq_true, if_false, hr, h]
    rfl

theorem trimRightZeros_nil : trimRightZeros [] = [] := rfl

theorem fmtE_nonfinite (x : Dec) (hnf : x.form ≠ .finite) (c : Char) (p : Int) :
    fmtE x c p = ['0'] ++ (if p > 0 then '.' :: repeatChar '0' p.toNat else []) ++ [c, '+', '0', '0'] := by
  rw [fmtE_eq, toa_nonfinite x hnf]
  simp only [trimRightZeros_nil, List.length_nil, gt_iff_lt, Nat.lt_irrefl, if_false, List.headD_nil,
    List.take_nil, List.drop_nil, List.nil_append, Nat.sub_zero, Int.natAbs_zero]
  have h1 : ¬ ((0 : Int) < 0) := by omega
  have h2 : (0 : Nat) < 10 := by omega
  have h3 : natDigits 0 = ['0'] := by decide
  simp only [h1, h2, if_true, if_false, h3, List.append_assoc, List.cons_append, List.nil_append]

theorem fmtF_nonfinite (x : Dec) (hnf : x.form ≠ .finite) (p : Int) :
    fmtF x p = ['0'] ++ (if p > 0 then '.' :: repeatChar '0' p.toNat else []) := by
  rw [fmtF_eq, toa_nonfinite x hnf]
  have h1 : ¬ ((0 : Int) > 0) := by omega
  simp only [h1, if_false, List.length_nil]
  congr 1
  split
  · congr 1
    have : ∀ i : Nat, ¬ (0 ≤ (0 : Int) + (i : Int) ∧ (0 : Int) + (i : Int) < ((0 : Nat) : Int)) := by
      intro i; omega
    simp only [this, if_false]
    rw [List.map_const', List.length_range]; rfl
  · rfl

theorem zero_not_inf {x : Dec} (hz : x.form = .zero) : x.form ≠ .inf := by rw [hz]; decide
theorem zero_not_finite {x : Dec} (hz : x.form = .zero) : x.form ≠ .finite := by rw [hz]; decide

theorem append_zero_e (x : Dec) (c : Char) (p : Int) (hz : x.form = .zero) (hc : c = 'e' ∨ c = 'E') :
    append x c p = signChars x ++ (['0'] ++ (if p > 0 then '.' :: repeatChar '0' p.toNat else []) ++
      [c, '+', '0', '0']) := by
  have hefg : isEFG c = true := by rcases hc with rfl | rfl <;> rfl
  have he : (c == 'e' || c == 'E') = true := by rcases hc with rfl | rfl <;> rfl
  have hg : (c == 'g' || c == 'G') = false := by rcases hc with rfl | rfl <;> rfl
  rw [append_unfold x c p (zero_not_inf hz) hefg, appendRound_zero x c p hz]
  simp only [he, if_true]
  rw [fmtE_nonfinite x (zero_not_finite hz)]
  congr 3
  unfold gPrec
  simp only [hg, Bool.false_and, Bool.false_eq_true, if_false]
  by_cases h : p < 0
  · have h1 : ¬ ((-1 : Int) > 0) := by omega
    have h2 : ¬ (p > 0) := by omega
    simp only [h, if_true, h1, h2, if_false]
  · simp only [h, if_false]

theorem append_zero_f (x : Dec) (p : Int) (hz : x.form = .zero) :
    append x 'f' p = signChars x ++ (['0'] ++ (if p > 0 then '.' :: repeatChar '0' p.toNat else [])) := by
  rw [append_unfold x 'f' p (zero_not_inf hz) rfl, appendRound_zero x 'f' p hz]
  have he : ('f' == 'e' || 'f' == 'E') = false := rfl
  have hf : ('f' == 'f') = true := rfl
  simp only [he, hf, Bool.false_eq_true, if_false, if_true]
  rw [fmtF_nonfinite x (zero_not_finite hz)]
  congr 2
  have hg : gPrec 'f' p = p := rfl
  rw [hg]
  by_cases h : p < 0
  · have h1 : ¬ ((0 : Int) > 0) := by omega
    have h2 : ¬ (p > 0) := by omega
    simp only [h, if_true, h1, h2, if_false]
  · simp only [h, if_false]

theorem append_zero_g (x : Dec) (c : Char) (p : Int) (hz : x.form = .zero) (hc : c = 'g' ∨ c = 'G') :
    append x c p = signChars x ++ ['0'] := by
  have hefg : isEFG c = true := by rcases hc with rfl | rfl <;> rfl
  have he : (c == 'e' || c == 'E') = false := by rcases hc with rfl | rfl <;> rfl
  have hf : (c == 'f') = false := by rcases hc with rfl | rfl <;> rfl
  have hg : (c == 'g' || c == 'G') = true := by rcases hc with rfl | rfl <;> rfl
  rw [append_unfold x c p (zero_not_inf hz) hefg, appendRound_zero x c p hz]
  simp only [he, hf, Bool.false_eq_true, if_false]
  congr 1
  unfold appendG
  rw [ex0_nonfinite x (zero_not_finite hz)]
  have hF : fmtF x 0 = ['0'] := by
    rw [fmtF_nonfinite x (zero_not_finite hz)]; rfl
  by_cases h : p < 0
  · simp only [h, if_true]
    exact hF
  · have hP : 1 ≤ gPrec c p := by
      unfold gPrec; simp only [hg, Bool.true_and]
      split
      · omega
      · rename_i h0; simp only [beq_iff_eq] at h0; omega
    generalize gPrec c p = P at hP
    have h1 : P > 0 := by omega
    simp only [h, if_false, h1, if_true]
    exact hF


/-! ## 5. `roundBelowQuantum` -/

set_option linter.unusedSimpArgs false

/-- Does rounding `m × 10^-D` quanta (`0 < m < 10^D`) to a whole number of quanta go up? -/
def upDecision (mode : Mode) (neg : Bool) (m D : Nat) : Bool :=
  match mode with
  | .ToZero => false
  | .AwayFromZero => true
  | .ToNegativeInf => neg
  | .ToPositiveInf => !neg
  | .ToNearestEven => decide (2 * m > 10 ^ D)
  | .ToNearestAway => decide (2 * m ≥ 10 ^ D)

theorem incrInt_two (mode : Mode) (neg : Bool) (m D : Nat) (hD : 1 ≤ D) :
    incrInt mode neg 2 m D false = upDecision mode neg m D := by
  obtain ⟨d, rfl⟩ : ∃ d, D = d + 1 := ⟨D - 1, by omega⟩
  unfold incrInt upDecision
  have hp : 10 ^ (d + 1) = 10 * 10 ^ d := by rw [Nat.pow_succ, Nat.mul_comm]
  simp only [Nat.add_sub_cancel, hp]
  generalize 10 ^ d = P
  cases mode <;> simp only [Bool.false_or, Nat.reduceMod, Nat.reduceBEq, Bool.and_false, Bool.or_false,
    Bool.false_eq_true, decide_eq_decide] <;> omega

theorem roundInt_two_plus (mode : Mode) (neg : Bool) (D m : Nat) (k : Int) (hD : 1 ≤ D)
    (hm0 : 0 < m) (hm : m < 10 ^ D)
    (hmin : ¬ (((D + 1 : Nat) : Int) + k < MinExp)) (hmax : ¬ (((D + 1 : Nat) : Int) + k > MaxExp)) :
    roundInt mode 1 neg (2 * 10 ^ D + m) k false =
      { form := .finite, neg := neg, coef := if upDecision mode neg m D then 3 else 2,
        exp := ((D + 1 : Nat) : Int) + k, acc := makeAcc (upDecision mode neg m D != neg) } := by
  have hP := pow_pos10 D
  have hnd : ndigits (2 * 10 ^ D + m) = D + 1 := by
    apply ndigits_unique
    · rw [Nat.add_sub_cancel]; omega
    · rw [Nat.pow_succ]; omega
    · omega
  have hdiv : (2 * 10 ^ D + m) / 10 ^ D = 2 := by
    apply Nat.div_eq_of_lt_le <;> omega
  have hmod : (2 * 10 ^ D + m) % 10 ^ D = m := by
    rw [Nat.add_comm, Nat.mul_comm, Nat.add_mul_mod_self_left, Nat.mod_eq_of_lt hm]
  rw [roundInt_eq_tail mode 1 neg _ k false (by rw [hnd]; exact hmin) (by rw [hnd]; omega)]
  simp only [hnd, Nat.add_sub_cancel, hdiv, hmod, incrInt_two mode neg m D hD]
  have hm' : (m == 0) = false := by simp; omega
  unfold roundIntTail
  simp only [hm', Bool.false_and, Bool.not_false, Bool.true_and, Bool.false_eq_true, if_false]
  cases upDecision mode neg m D
  · simp only [Bool.false_eq_true, if_false]
    have : ((2 : Nat) == 10 ^ 1) = false := by decide
    simp only [this, Bool.false_eq_true, if_false, hmax]
  · simp only [if_true]
    have : ((2 + 1 : Nat) == 10 ^ 1) = false := by decide
    simp only [this, Bool.false_eq_true, if_false, hmax]


/-- The two quanta `2 × 10^-prec` added by `roundBelowQuantum`. -/
def twoQuanta (x : Dec) (prec : Int) : Dec :=
  { form := .finite, neg := x.neg, mant := 2 * 10 ^ 18, len := 1, exp := 1 - prec, prec := DefaultPrec }

theorem ndigits_two_e18 : ndigits (2 * 10 ^ 18) = 19 := by
  have h2 : ndigits 2 = 1 := ndigits_unique (by decide) (by decide) (by decide)
  rw [ndigits_mul_pow (by decide), h2]

theorem twoQuanta_finCanon (x : Dec) (prec : Int) (hx : FinCanon x) (hp : 0 ≤ prec) (hq : x.exp + prec ≤ 0) :
    FinCanon (twoQuanta x prec) := by
  have h1 := hx.exp_ge
  have hMin : MinExp = -2147483648 := rfl
  have hMax : MaxExp = 2147483647 := rfl
  refine ⟨rfl, (by decide : 0 < 1), ndigits_two_e18, (by decide : 1 ≤ 34), ?_, ?_⟩
  · show MinExp ≤ 1 - prec; omega
  · show 1 - prec ≤ MaxExp; omega

/-- The exponent of the quantum relative to `x`'s leading digit: `|x| < 10^x.exp ≤ 10^-prec`. -/
def quantumGap (x : Dec) (prec : Int) : Nat := (-(x.exp + prec)).toNat

/-- The rounding decision of `roundBelowQuantum`, over integers:
    `|x| = mant × 10^(exp − 19·len)` against half a quantum `10^-prec / 2`. -/
def quantumUp (x : Dec) (prec : Int) : Bool :=
  upDecision x.mode x.neg x.mant (quantumGap x prec + 19 * x.len)

theorem roundBelowQuantum_sum (x : Dec) (prec : Int) (hx : FinCanon x) (hp : 0 ≤ prec)
    (hq : x.exp + prec ≤ 0) :
    let z := (add { mode := x.mode, prec := 1 } (twoQuanta x prec) x).1
    agrees z { form := .finite, neg := x.neg, coef := if quantumUp x prec then 3 else 2,
               exp := 1 - prec, acc := makeAcc (quantumUp x prec != x.neg) } = true := by
  intro z
  have hqc := twoQuanta_finCanon x prec hx hp hq
  obtain ⟨hag, _, _, _⟩ := Decimal.add_correct { mode := x.mode, prec := 1 } (twoQuanta x prec) x hqc hx
  have hep : effPrec2 { mode := x.mode, prec := 1 } (twoQuanta x prec) x = 1 := rfl
  rw [hep] at hag
  have hneg : (twoQuanta x prec).neg = x.neg := rfl
  rw [hneg, addExact_same _ _ _ _ _ _ _ (sum_pos hqc x)] at hag
  -- the exact sum as an integer
  have hie : intExp (twoQuanta x prec) - intExp x = ((quantumGap x prec + 19 * (x.len - 1) + 1 : Nat) : Int) := by
    have := hx.len_pos
    unfold quantumGap
    rw [intExp_eq, intExp_eq]
    show (1 - prec - ((1 * 19 : Nat) : Int)) - (x.exp - ((x.len * 19 : Nat) : Int)) = _
    omega
  have hA : alignL (twoQuanta x prec) x = 2 * 10 ^ (quantumGap x prec + 19 * x.len) := by
    unfold alignL
    rw [hie, Int.toNat_natCast]
    show 2 * 10 ^ 18 * 10 ^ _ = _
    rw [Nat.mul_assoc, ← Nat.pow_add]
    have := hx.len_pos
    congr 2; omega
  have hB : alignL x (twoQuanta x prec) = x.mant := by
    unfold alignL
    have : (intExp x - intExp (twoQuanta x prec)).toNat = 0 := by omega
    rw [this, Nat.pow_zero, Nat.mul_one]
  have hv : (SQ.mk ((twoQuanta x prec).mant : ℚ) (intExp (twoQuanta x prec))).add ⟨(x.mant : ℚ), intExp x⟩
      = ⟨((2 * 10 ^ (quantumGap x prec + 19 * x.len) + x.mant : Nat) : ℚ), intExp x⟩ := by
    rw [SQ_add_eq, ← alignL_cast, ← alignL_cast, ← Nat.cast_add, hA, hB]
    congr 1; omega
  rw [hv] at hag
  simp only at hag
  have hm0 := hx.mant_pos
  have hmlt : x.mant < 10 ^ (quantumGap x prec + 19 * x.len) := by
    have h1 := ndigits_lt_pow x.mant
    rw [hx.nd] at h1
    have h2 : 10 ^ (x.len * 19) ≤ 10 ^ (quantumGap x prec + 19 * x.len) :=
      Nat.pow_le_pow_right (by omega) (by omega)
    omega
  have hD : 1 ≤ quantumGap x prec + 19 * x.len := by have := hx.len_pos; omega
  have hE : (((quantumGap x prec + 19 * x.len + 1 : Nat) : Int)) + intExp x = 1 - prec := by
    rw [intExp_eq]; unfold quantumGap; omega
  have hMin : MinExp = -2147483648 := rfl
  have hMax : MaxExp = 2147483647 := rfl
  have h1 := hx.exp_ge
  rw [← roundInt_eq_round x.mode 1 x.neg (2 * 10 ^ (quantumGap x prec + 19 * x.len) + x.mant) (intExp x) false _
      (Nat.add_pos_right _ hm0) (by omega) (by intro h; cases h) (by simp),
    roundInt_two_plus x.mode x.neg _ x.mant (intExp x) hD hm0 hmlt (by rw [hE]; omega) (by rw [hE]; omega), hE] at hag
  exact hag


/-- `±10^-prec`, as `roundBelowQuantum` returns it. -/
def quantumDec (x : Dec) (prec : Int) : Dec :=
  { form := .finite, neg := x.neg, mant := 10 ^ 18, len := 1, exp := 1 - prec, prec := DefaultPrec, mode := x.mode }

/-- a zero of `x`'s sign, as `roundBelowQuantum` returns it. -/
def zeroDec (x : Dec) : Dec := { form := .zero, neg := x.neg, prec := DefaultPrec, mode := x.mode }

theorem roundBelowQuantum_unfold (x : Dec) (prec : Int) :
    roundBelowQuantum x prec =
      let z := (add { mode := x.mode, prec := 1 } (twoQuanta x prec) x).1
      if z.form == .finite && z.mant / 10 ^ (z.len * DW - 1) == 3 then quantumDec x prec else zeroDec x := rfl

theorem roundBelowQuantum_eq (x : Dec) (prec : Int) (hx : FinCanon x) (hp : 0 ≤ prec)
    (hq : x.exp + prec ≤ 0) :
    roundBelowQuantum x prec = if quantumUp x prec then quantumDec x prec else zeroDec x := by
  have hag := roundBelowQuantum_sum x prec hx hp hq
  rw [roundBelowQuantum_unfold]
  simp only at hag ⊢
  generalize (add { mode := x.mode, prec := 1 } (twoQuanta x prec) x).1 = z at hag
  rw [agrees_iff] at hag
  obtain ⟨hf, _, _, hfin⟩ := hag
  simp only at hf
  obtain ⟨_, hm⟩ := hfin hf
  simp only at hm
  have hc1 : ndigits (if quantumUp x prec = true then 3 else 2) = 1 := by
    split <;> exact ndigits_unique (by decide) (by decide) (by decide)
  rw [hc1] at hm
  have hlen : 1 ≤ z.len := by
    by_contra h
    have h0 : z.len = 0 := by omega
    rw [h0] at hm
    simp only [Nat.zero_mul, Nat.sub_zero, Nat.pow_one, Nat.zero_sub, Nat.pow_zero, Nat.mul_one] at hm
    split at hm <;> omega
  have h1 : 1 - z.len * 19 = 0 := by omega
  rw [h1, Nat.pow_zero, Nat.mul_one] at hm
  have hd : z.mant / 10 ^ (z.len * DW - 1) = if quantumUp x prec = true then 3 else 2 := by
    rw [hm, DW_eq, Nat.mul_div_cancel _ (pow_pos10 _)]
  rw [hd, hf]
  cases quantumUp x prec <;> simp


/-! ## 6. The rounded copy is `x` rounded once -/

theorem oddPart_mul_tz {M : Nat} (h : 0 < M) : oddPart M * 10 ^ trailingZeros M = M :=
  (trailingZeros_spec h).1

/-- A mantissa of `len` words that equals the `n`-digit coefficient `C` after alignment is normalised,
    has at most `n` significant digits, and its digits (without the trailing zeros) padded to `n` are `C`. -/
theorem coef_of_mant (M len n C : Nat) (hC : ndigits C = n) (hn : 1 ≤ n)
    (h : M * 10 ^ (n - len * 19) = C * 10 ^ (len * 19 - n)) :
    0 < M ∧ ndigits M = 19 * len ∧ len * 19 - trailingZeros M ≤ n ∧
      oddPart M * 10 ^ (n - (len * 19 - trailingZeros M)) = C := by
  have hCpos : 0 < C := by
    rcases Nat.eq_zero_or_pos C with h0 | h0
    · rw [h0, ndigits_zero] at hC; omega
    · exact h0
  have hMpos : 0 < M := by
    rcases Nat.eq_zero_or_pos M with h0 | h0
    · rw [h0, Nat.zero_mul] at h
      have := Nat.mul_pos hCpos (pow_pos10 (len * 19 - n)); omega
    · exact h0
  by_cases hcase : len * 19 ≤ n
  · have h0 : len * 19 - n = 0 := by omega
    rw [h0, Nat.pow_zero, Nat.mul_one] at h
    have hnd : ndigits M = 19 * len := by
      have := ndigits_mul_pow hMpos (n - len * 19)
      rw [h, hC] at this; omega
    have htz := trailingZeros_lt_ndigits hMpos
    refine ⟨hMpos, hnd, by omega, ?_⟩
    have e : n - (len * 19 - trailingZeros M) = trailingZeros M + (n - len * 19) := by omega
    rw [e, Nat.pow_add, ← Nat.mul_assoc, oddPart_mul_tz hMpos, h]
  · have h0 : n - len * 19 = 0 := by omega
    rw [h0, Nat.pow_zero, Nat.mul_one] at h
    have hnd : ndigits M = 19 * len := by
      rw [h, ndigits_mul_pow hCpos, hC]; omega
    have htz : trailingZeros M = trailingZeros C + (len * 19 - n) := by
      rw [h, trailingZeros_mul_pow hCpos]
    have htc := trailingZeros_lt_ndigits hCpos
    refine ⟨hMpos, hnd, by omega, ?_⟩
    have e : n - (len * 19 - trailingZeros M) = trailingZeros C := by omega
    rw [e, h, oddPart_mul_pow hCpos, oddPart_mul_tz hCpos]

/-- The copy `Append` formats when it rounds to `n` significant digits. -/
def roundedCopy (x : Dec) (n : Int) : Dec :=
  if n < minPrec x then set { mode := x.mode, prec := n.toNat } x else x

theorem roundSV_ofDec_finite (x : Dec) (hf : x.form = .finite) (mode : Mode) (n : Nat) :
    roundSV mode n (ofDec x) = Spec.round mode n x.neg (x.mant : ℚ) (intExp x) := by
  unfold ofDec; rw [hf]; rfl

/-- **The rounded copy is `x` rounded once.** With `r` the specification's rounding of `x` to `n` digits
    under `x`'s mode (assumed finite: no overflow past `MaxExp`), the copy is finite and normalised, has
    `r`'s sign and exponent and at most `n` significant digits, which padded to `n` digits are `r.coef`. -/
theorem roundedCopy_spec (x : Dec) (hx : Canon x) (n : Nat) (hn : 1 ≤ n)
    (hfin : (roundSV x.mode n (ofDec x)).form = .finite) :
    let y := roundedCopy x n
    let r := roundSV x.mode n (ofDec x)
    y.form = .finite ∧ y.neg = x.neg ∧ r.neg = x.neg ∧ y.exp = r.exp ∧ 0 < y.mant ∧ ndigits y.mant = 19 * y.len ∧
      minPrec y ≤ n ∧ oddPart y.mant * 10 ^ (n - minPrec y) = r.coef ∧ ndigits r.coef = n := by
  intro y r
  obtain ⟨hf, hlen, hnd, hxp, hmin, hmax⟩ := hx.1
  have hrr : r = Spec.round x.mode n x.neg (x.mant : ℚ) (intExp x) := roundSV_ofDec_finite x hf x.mode n
  have hq : (0 : ℚ) < (x.mant : ℚ) := by exact_mod_cast hx.1.mant_pos
  have hfin' : (Spec.round x.mode n x.neg (x.mant : ℚ) (intExp x)).form = .finite := by rw [← hrr]; exact hfin
  have hcd : ndigits r.coef = n := by rw [hrr]; exact round_coef_digits _ _ _ _ _ hq hn hfin'
  have hrn : r.neg = x.neg := by rw [hrr]; exact round_neg_n _ _ _ _ _ hq hn hfin'
  -- the value part of `agrees`
  have key : y.form = .finite ∧ y.neg = x.neg ∧ y.exp = r.exp ∧
      y.mant * 10 ^ (n - y.len * 19) = r.coef * 10 ^ (y.len * 19 - n) := by
    by_cases hlt : (n : Int) < minPrec x
    · have hy : y = set { mode := x.mode, prec := n } x := by
        show roundedCopy x n = _
        unfold roundedCopy; rw [if_pos hlt, Int.toNat_natCast]
      have hep : effPrec1 { mode := x.mode, prec := n } x = n := by
        unfold effPrec1; have : (n == 0) = false := by simp; omega
        simp only [this, Bool.false_eq_true, if_false]
      obtain ⟨hag, _, _⟩ := Decimal.set_correct { mode := x.mode, prec := n } x hx
      rw [hep, ← hy] at hag
      simp only at hag
      rw [← hrr, agrees_iff] at hag
      obtain ⟨h1, h2, _, h4⟩ := hag
      have hyf : y.form = .finite := by rw [h1]; exact hfin
      obtain ⟨h5, h6⟩ := h4 hyf
      rw [hcd] at h6
      exact ⟨hyf, by rw [h2, hrn], h5, h6⟩
    · have hy : y = x := by
        show roundedCopy x n = _
        unfold roundedCopy; rw [if_neg hlt]
      have hmp : minPrec x ≤ n := by omega
      have hdvd : 10 ^ (x.len * 19 - n) ∣ x.mant := by
        rw [Nat.dvd_iff_mod_eq_zero]
        exact (minPrec_le_iff x hf hx.1.mant_pos n).mp hmp
      have hag := exact_agrees ⟨.finite, x.neg, x.mant, x.len, x.exp, x.prec, x.mode, Exact⟩ x.mode n
        rfl hlen hnd hn hmin hmax rfl hdvd
      have hie : intExp ⟨.finite, x.neg, x.mant, x.len, x.exp, x.prec, x.mode, Exact⟩ = intExp x := rfl
      simp only [hie] at hag
      rw [← hrr, agrees_iff] at hag
      obtain ⟨_, _, _, h4⟩ := hag
      obtain ⟨h5, h6⟩ := h4 rfl
      simp only at h5 h6
      rw [hcd] at h6
      rw [hy]
      exact ⟨hf, rfl, h5, h6⟩
  obtain ⟨k1, k2, k3, k4⟩ := key
  obtain ⟨c1, c2, c3, c4⟩ := coef_of_mant y.mant y.len n r.coef hcd hn k4
  have hmp : minPrec y = y.len * 19 - trailingZeros y.mant := minPrec_finite y k1
  rw [← hmp] at c3 c4
  exact ⟨k1, k2, hrn, k3, c1, c2, c3, c4, hcd⟩


/-! ## 7. `%e`: digits and exponent -/

/-- `d[.ddd]e±XX` laid out from a digit string and the exponent of its first digit. -/
def sciText (D : List Char) (c : Char) (e : Int) : List Char :=
  [D.headD '0'] ++ (if 1 < D.length then '.' :: D.tail else []) ++ [c, if e < 0 then '-' else '+'] ++
    (if e.natAbs < 10 then ['0'] else []) ++ natDigits e.natAbs

theorem natDigits_mul_pow {c : Nat} (hc : 0 < c) (t : Nat) :
    natDigits (c * 10 ^ t) = natDigits c ++ List.replicate t '0' := by
  rw [natDigits_eq, natDigits_eq, toDigits_mul_pow hc]

theorem fmtE_sci (y : Dec) (c : Char) (p : Int) (hf : y.form = .finite) (hM : 0 < y.mant)
    (hc : ndigits y.mant = 19 * y.len) (hp : 0 ≤ p) (hmp : (minPrec y : Int) ≤ p + 1) :
    fmtE y c p = sciText (natDigits (oddPart y.mant * 10 ^ (p.toNat + 1 - minPrec y))) c (y.exp - 1) ∧
      (natDigits (oddPart y.mant * 10 ^ (p.toNat + 1 - minPrec y))).length = p.toNat + 1 := by
  have hcp := oddPart_pos hM
  obtain ⟨h1, h2⟩ := toa_trim y hf hM
  have hlen : (natDigits (oddPart y.mant)).length = minPrec y := by
    rw [natDigits_length hcp, ndigits_oddPart y hf hc]
  have hpos : 0 < minPrec y := by rw [← ndigits_oddPart y hf hc]; exact ndigits_pos hcp
  have hDlen : (natDigits (oddPart y.mant * 10 ^ (p.toNat + 1 - minPrec y))).length = p.toNat + 1 := by
    rw [natDigits_mul_pow hcp, List.length_append, hlen, List.length_replicate]; omega
  refine ⟨?_, hDlen⟩
  rw [fmtE_eq]
  simp only [h1, h2]
  unfold sciText
  rw [hDlen, natDigits_mul_pow hcp]
  generalize hO : natDigits (oddPart y.mant) = O at hlen
  cases O with
  | nil => simp at hlen; omega
  | cons d tl =>
    simp only [List.length_cons] at hlen
    have hgt : (0 < tl.length + 1) := by omega
    have hmin : min (tl.length + 1) (p.toNat + 1) = tl.length + 1 := by omega
    simp only [List.length_cons, gt_iff_lt, hgt, if_true, hmin, List.take_succ_cons, List.drop_succ_cons,
      List.drop_zero, List.headD_cons, List.cons_append, List.tail_cons]
    rw [List.take_of_length_le (Nat.le_refl _)]
    have e1 : (1 < p.toNat + 1) = (0 < p) := propext (by omega)
    have e2 : p.toNat - tl.length = p.toNat + 1 - minPrec y := by omega
    simp only [e1, e2, repeatChar]


/-- Outside the below-quantum case of `'f'`, step 1 of `Append` yields `roundedCopy`. -/
theorem appendRound_roundedCopy (x : Dec) (fmtc : Char) (prec : Int) (h : 0 ≤ prec)
    (hnb : (fmtc == 'f' && x.form == .finite && decide (rndDigits x fmtc prec ≤ 0)) = false) :
    appendRound x fmtc prec =
      (roundedCopy x (rndDigits x fmtc prec), (minPrec (roundedCopy x (rndDigits x fmtc prec)) : Int),
        gPrec fmtc prec) := by
  rw [appendRound_explicit x fmtc prec h]
  simp only [hnb, Bool.false_eq_true, if_false]
  unfold roundedCopy
  split <;> rfl

theorem append_e_text (x : Dec) (hx : Canon x) (c : Char) (hc : c = 'e' ∨ c = 'E') (p : Nat)
    (hfin : (roundSV x.mode (p + 1) (ofDec x)).form = .finite) :
    append x c p = signChars x ++
        sciText (natDigits (roundSV x.mode (p + 1) (ofDec x)).coef) c ((roundSV x.mode (p + 1) (ofDec x)).exp - 1) ∧
      (natDigits (roundSV x.mode (p + 1) (ofDec x)).coef).length = p + 1 := by
  have hefg : isEFG c = true := by rcases hc with rfl | rfl <;> rfl
  have he : (c == 'e' || c == 'E') = true := by rcases hc with rfl | rfl <;> rfl
  have hf' : (c == 'f') = false := by rcases hc with rfl | rfl <;> rfl
  have hg : (c == 'g' || c == 'G') = false := by rcases hc with rfl | rfl <;> rfl
  have hinf : x.form ≠ .inf := by rw [hx.1.form_eq]; decide
  have hgp : gPrec c (p : Int) = p := by
    unfold gPrec; simp only [hg, Bool.false_and, Bool.false_eq_true, if_false]
  have hrd : rndDigits x c (p : Int) = ((p + 1 : Nat) : Int) := by
    unfold rndDigits; simp only [he, if_true, hgp]; omega
  rw [append_unfold x c p hinf hefg,
    appendRound_roundedCopy x c p (by omega) (by simp only [hf', Bool.false_and]), hrd, hgp]
  simp only [he, if_true]
  obtain ⟨k1, _, _, k3, k4, k5, k6, k7, _⟩ := roundedCopy_spec x hx (p + 1) (by omega) hfin
  obtain ⟨t1, t2⟩ := fmtE_sci (roundedCopy x ((p + 1 : Nat) : Int)) c p k1 k4 k5 (by omega) (by omega)
  rw [Int.toNat_natCast, k7, k3] at t1
  rw [Int.toNat_natCast, k7] at t2
  exact ⟨by rw [t1], t2⟩


/-- The literal `[-]d[.ddd]e±XX` whose digits are those of `C` and whose first digit has exponent `e`. -/
def sciLit (neg : Bool) (C : Nat) (e : Int) : Lit10 :=
  let ds := decDigits C
  { neg := if neg then some true else none,
    ip := [ds.headD 0],
    fp := if 1 < ds.length then some ds.tail else none,
    ex := some (some (decide (e < 0)), (if e.natAbs < 10 then [0] else []) ++ decDigits e.natAbs) }

set_option linter.unusedSimpArgs false in
theorem sciText_bytes (neg : Bool) (C : Nat) (e : Int) :
    ((if neg then ['-'] else []) ++ sciText (natDigits C) 'e' e).map Char.toNat = (sciLit neg C e).render := by
  have hb := natDigits_bytes C
  have hl : (natDigits C).length = (decDigits C).length := by
    rw [natDigits_eq, decDigits, List.length_map]
  unfold sciLit sciText
  simp only [Lit10.render, renderMant, renderExp]
  cases hm : natDigits C with
  | nil =>
    have := decDigits_ne_nil C
    rw [hm] at hl
    exact absurd (List.length_eq_zero_iff.mp hl.symm) this
  | cons f rest =>
    cases hd : decDigits C with
    | nil => exact absurd hd (decDigits_ne_nil _)
    | cons d0 tl =>
      rw [hm, hd, List.map_cons, bytesOf_cons] at hb
      injection hb with hb1 hb2
      rw [hm, hd] at hl
      simp only [List.length_cons] at hl
      have hnd := natDigits_bytes e.natAbs
      have hz : Char.toNat '0' = 48 := rfl
      have he : Char.toNat 'e' = 101 := rfl
      have hmi : Char.toNat '-' = 45 := rfl
      have hpl : Char.toNat '+' = 43 := rfl
      have hdt : Char.toNat '.' = 46 := rfl
      have hlt : (1 < rest.length + 1) = (1 < tl.length + 1) := by rw [hl]
      cases neg <;> by_cases hq : 1 < tl.length + 1 <;> by_cases hE : e < 0 <;>
        by_cases hk : e.natAbs < 10 <;>
        simp [hlt, hq, hE, hk, signBytes, bytesOf_cons, bytesOf_append, bytesOf_nil, hnd, hb1, hb2, hz, he, hmi, hpl, hdt]

theorem sciLit_digits (neg : Bool) (C : Nat) (e : Int) :
    (sciLit neg C e).ip ++ (sciLit neg C e).frac = decDigits C :=
  headD_cons_tail _ (decDigits_ne_nil _)

theorem sciLit_coef (neg : Bool) (C : Nat) (e : Int) : (sciLit neg C e).coef = C := by
  rw [Lit10.coef, sciLit_digits, ofDigits_decDigits]

theorem sciLit_sign (neg : Bool) (C : Nat) (e : Int) : (sciLit neg C e).sign = neg := by
  simp only [Lit10.sign, sciLit]
  cases neg <;> rfl

theorem sciLit_expVal (neg : Bool) (C : Nat) (e : Int) : expVal (sciLit neg C e).ex = e := by
  simp only [sciLit, expVal, signVal, ofDigits_pad]
  by_cases h : e < 0
  · have h' : ((e.natAbs : Nat) : Int) = -e := by omega
    simp only [h, decide_true, if_true, h']; omega
  · have h' : ((e.natAbs : Nat) : Int) = e := by omega
    simp only [h, decide_false, h']; simp

/-- The literal denotes `C × 10^(e − (ndigits C − 1))`. -/
theorem sciLit_exp10 (neg : Bool) (C : Nat) (e : Int) (hC : 0 < C) :
    (sciLit neg C e).exp10 = e - ((ndigits C : Int) - 1) := by
  have h := congrArg List.length (sciLit_digits neg C e)
  rw [List.length_append, decDigits_length hC] at h
  have h1 : (sciLit neg C e).ip.length = 1 := rfl
  rw [Lit10.exp10, sciLit_expVal]
  omega

theorem sciLit_wf (neg : Bool) (C : Nat) (e : Int) (hlo : -9223372036854775808 ≤ e)
    (hhi : e ≤ 9223372036854775807) : (sciLit neg C e).WF := by
  have hds := decDigits_isDigits C
  have hdig := sciLit_digits neg C e
  refine ⟨?_, ?_, ?_, ?_⟩
  · have : IsDigits ((sciLit neg C e).ip ++ (sciLit neg C e).frac) := by rw [hdig]; exact hds
    exact (IsDigits_append.mp this).1
  · have : IsDigits ((sciLit neg C e).ip ++ (sciLit neg C e).frac) := by rw [hdig]; exact hds
    exact (IsDigits_append.mp this).2
  · rw [hdig]; exact decDigits_ne_nil _
  · show ExpOk (some (some (decide (e < 0)), (if e.natAbs < 10 then [0] else []) ++ decDigits e.natAbs))
    unfold ExpOk
    refine ⟨?_, ?_, ?_⟩
    · rw [IsDigits_append]
      refine ⟨?_, decDigits_isDigits _⟩
      split
      · intro d hd; simp at hd; omega
      · exact IsDigits_nil
    · intro h
      have := (List.append_eq_nil_iff.mp h).2
      exact decDigits_ne_nil _ this
    · rw [ofDigits_pad]
      have h1 : e.natAbs ≤ 9223372036854775808 := by omega
      have h2 : ¬ e < 0 → e.natAbs ≤ 9223372036854775807 := by omega
      by_cases h : e < 0
      · simp only [signVal, h, decide_true, if_true]; exact h1
      · simp only [signVal, h, decide_false, Bool.false_eq_true, if_false]; exact h2 h

/-! ## 8. `%f`: layout -/

/-- The digit at position `j` of `0.d₀d₁d₂… × 10^e` (positions outside the digit string are zeros). -/
def digitAtPos (D : List Char) (j : Int) : Char := if 0 ≤ j then D.getD j.toNat '0' else '0'

/-- `ddd.ddd` laid out from a digit string `D` read as `0.D × 10^e`: the integer part is the digits at
    positions `0 … e−1` (or `0`), the fraction the `p` digits at positions `e … e+p−1`. -/
def fixText (D : List Char) (e p : Int) : List Char :=
  (if e > 0 then (List.range e.toNat).map (fun i => D.getD i '0') else ['0']) ++
  (if p > 0 then '.' :: (List.range p.toNat).map (fun (i : Nat) => digitAtPos D (e + (i : Int))) else [])

theorem getD_append_zeros (D : List Char) (k j : Nat) :
    (D ++ List.replicate k '0').getD j '0' = D.getD j '0' := by
  rw [List.getD_eq_getElem?_getD, List.getD_eq_getElem?_getD]
  by_cases h : j < D.length
  · rw [List.getElem?_append_left h]
  · rw [List.getElem?_append_right (by omega), List.getElem?_replicate,
      List.getElem?_eq_none (by omega)]
    split <;> rfl

theorem digitAtPos_append_zeros (D : List Char) (k : Nat) (j : Int) :
    digitAtPos (D ++ List.replicate k '0') j = digitAtPos D j := by
  unfold digitAtPos; split
  · exact getD_append_zeros D k _
  · rfl

/-- Trailing zeros of the digit string do not change the layout. -/
theorem fixText_append_zeros (D : List Char) (k : Nat) (e p : Int) :
    fixText (D ++ List.replicate k '0') e p = fixText D e p := by
  unfold fixText
  simp only [getD_append_zeros, digitAtPos_append_zeros]

theorem range_map_getD (l : List Char) (d : Char) (n : Nat) :
    (List.range n).map (fun i => l.getD i d) = l.take n ++ List.replicate (n - l.length) d := by
  induction l generalizing n with
  | nil => simp [List.map_const']
  | cons a t ih =>
    cases n with
    | zero => simp
    | succ n =>
      rw [List.range_succ_eq_map, List.map_cons, List.map_map]
      have : ((fun i => (a :: t).getD i d) ∘ Nat.succ) = fun i => t.getD i d := by
        funext i; simp
      rw [this, ih n]
      simp


theorem getD_of_length_le (l : List Char) (j : Nat) (h : l.length ≤ j) : l.getD j '0' = '0' := by
  rw [List.getD_eq_getElem?_getD, List.getElem?_eq_none h]; rfl

/-- the digit string of `toa` is the shortest digit string followed by zeros. -/
theorem toa_digits (y : Dec) (hf : y.form = .finite) (hM : 0 < y.mant) :
    ∃ k, (toa y).1 = natDigits (oddPart y.mant) ++ List.replicate k '0' ∧ (toa y).2 = y.exp := by
  rw [toa_finite y hf]
  obtain ⟨t, ht, hp⟩ := strip_spec y.len y.mant hM
  have ho : oddPart y.mant = oddPart (toa.strip y.len y.mant) := by
    have := oddPart_mul_pow hp t
    rw [ht] at this; exact this
  refine ⟨trailingZeros (toa.strip y.len y.mant), ?_, rfl⟩
  show natDigits (toa.strip y.len y.mant) = _
  rw [ho, ← natDigits_mul_pow (oddPart_pos hp), oddPart_mul_tz hp]

/-- **`%f` layout of a canonical finite value**: the digits are the shortest digit string of the mantissa. -/
theorem fmtF_fix (y : Dec) (p : Int) (hf : y.form = .finite) (hM : 0 < y.mant)
    (hc : ndigits y.mant = 19 * y.len) :
    fmtF y p = fixText (natDigits (oddPart y.mant)) y.exp p := by
  obtain ⟨k, h1, h2⟩ := toa_digits y hf hM
  have hlen : (natDigits (oddPart y.mant)).length = minPrec y := by
    rw [natDigits_length (oddPart_pos hM), ndigits_oddPart y hf hc]
  rw [fmtF_eq, h1, h2]
  generalize natDigits (oddPart y.mant) = O at hlen
  unfold fixText
  congr 1
  · split
    · rw [range_map_getD, List.take_append_of_le_length (by omega), hlen]
      have e1 : List.take (min (minPrec y) y.exp.toNat) O = List.take y.exp.toNat O := by
        rw [List.take_eq_take_min (i := y.exp.toNat), hlen, Nat.min_comm]
      have e2 : y.exp.toNat - min (minPrec y) y.exp.toNat = y.exp.toNat - minPrec y := by omega
      rw [e1, e2]; rfl
    · rfl
  · split
    · congr 1
      apply List.map_congr_left
      intro i _
      unfold digitAtPos
      by_cases h0 : 0 ≤ y.exp + (i : Int)
      · simp only [h0, true_and, if_true]
        split
        · exact getD_append_zeros O k _
        · rename_i hge
          rw [getD_of_length_le O _ ?_]
          have : ((O ++ List.replicate k '0').length : Int) ≤ y.exp + (i : Int) := by omega
          rw [List.length_append] at this
          omega
      · simp only [h0, false_and, if_false]
    · rfl


theorem oddPart_one : oddPart 1 = 1 := by
  unfold oddPart; rw [trailingZeros_of_mod_ne (by decide)]; rfl

theorem oddPart_pow18 : oddPart (10 ^ 18) = 1 := by
  have := oddPart_mul_pow (S := 1) (by decide) 18
  rw [Nat.one_mul] at this; rw [this, oddPart_one]

theorem fmtF_quantumDec (x : Dec) (prec p : Int) : fmtF (quantumDec x prec) p = fixText ['1'] (1 - prec) p := by
  have h := fmtF_fix (quantumDec x prec) p rfl (by show 0 < 10 ^ 18; exact pow_pos10 18)
    (by show ndigits (10 ^ 18) = 19 * 1; rw [ndigits_pow])
  have hm : (quantumDec x prec).mant = 10 ^ 18 := rfl
  have he : (quantumDec x prec).exp = 1 - prec := rfl
  rw [hm, oddPart_pow18, he] at h
  exact h

/-- `1`, or `0.0…01` with `p` digits after the point. -/
theorem fixText_quantum (p : Nat) :
    fixText ['1'] (1 - (p : Int)) p =
      if p = 0 then ['1'] else ['0', '.'] ++ List.replicate (p - 1) '0' ++ ['1'] := by
  unfold fixText
  by_cases hp : p = 0
  · subst hp; rfl
  · obtain ⟨q, rfl⟩ : ∃ q, p = q + 1 := ⟨p - 1, by omega⟩
    have h1 : ¬ (1 - ((q + 1 : Nat) : Int) > 0) := by omega
    have h2 : ((q + 1 : Nat) : Int) > 0 := by omega
    simp only [h1, h2, hp, if_true, if_false, Int.toNat_natCast, Nat.add_sub_cancel]
    rw [List.range_succ, List.map_append]
    have e1 : (List.range q).map (fun (i : Nat) => digitAtPos ['1'] (1 - ((q + 1 : Nat) : Int) + (i : Int)))
        = List.replicate q '0' := by
      have hrep : List.replicate q '0' = (List.range q).map (fun _ => '0') := by
        rw [List.map_const', List.length_range]
      rw [hrep]
      apply List.map_congr_left
      intro i hi
      have := List.mem_range.mp hi
      unfold digitAtPos
      rw [if_neg (by omega)]
    have e2 : digitAtPos ['1'] (1 - ((q + 1 : Nat) : Int) + (q : Int)) = '1' := by
      have : 1 - ((q + 1 : Nat) : Int) + (q : Int) = 0 := by omega
      rw [this]; rfl
    rw [e1]
    simp only [List.map_cons, List.map_nil, e2, List.cons_append, List.nil_append]

theorem fmtF_zeroDec (x : Dec) (p : Int) :
    fmtF (zeroDec x) p = ['0'] ++ (if p > 0 then '.' :: repeatChar '0' p.toNat else []) :=
  fmtF_nonfinite (zeroDec x) (by show Form.zero ≠ Form.finite; decide) p

theorem rndDigits_f (x : Dec) (p : Int) (hf : x.form = .finite) : rndDigits x 'f' p = x.exp + p := by
  unfold rndDigits
  have he : ('f' == 'e' || 'f' == 'E') = false := rfl
  have hf' : ('f' == 'f') = true := rfl
  have hgp : gPrec 'f' p = p := rfl
  simp only [he, hf', Bool.false_eq_true, if_false, if_true, hgp, ex0_finite x hf]

theorem appendRound_below (x : Dec) (p : Int) (hf : x.form = .finite) (hp : 0 ≤ p) (hq : x.exp + p ≤ 0) :
    appendRound x 'f' p = (roundBelowQuantum x p, (minPrec (roundBelowQuantum x p) : Int), p) := by
  have hff : (x.form == .finite) = true := by rw [hf]; rfl
  rw [appendRound_explicit x 'f' p hp, rndDigits_f x p hf]
  have hgp : gPrec 'f' p = p := rfl
  have hf' : ('f' == 'f') = true := rfl
  simp only [hgp, hf', hff, hq, decide_true, Bool.and_true, if_true]

/-- **`%.pf` below the quantum** (`|x| < 10^-p`): the text is `0.00…0` or `0.0…01` (`1` when `p = 0`),
    the latter exactly when rounding `x` to a multiple of `10^-p` under `x`'s mode goes up. -/
theorem append_f_below (x : Dec) (hx : FinCanon x) (p : Nat) (hq : x.exp + (p : Int) ≤ 0) :
    append x 'f' p = signChars x ++
      (if quantumUp x p then (if p = 0 then ['1'] else ['0', '.'] ++ List.replicate (p - 1) '0' ++ ['1'])
       else ['0'] ++ (if p > 0 then '.' :: List.replicate p '0' else [])) := by
  have hinf : x.form ≠ .inf := by rw [hx.form_eq]; decide
  rw [append_unfold x 'f' p hinf rfl, appendRound_below x p hx.form_eq (by omega) hq]
  have he : ('f' == 'e' || 'f' == 'E') = false := rfl
  have hf : ('f' == 'f') = true := rfl
  simp only [he, hf, Bool.false_eq_true, if_false, if_true]
  rw [roundBelowQuantum_eq x p hx (by omega) hq]
  congr 1
  cases quantumUp x p
  · simp only [Bool.false_eq_true, if_false]
    rw [fmtF_zeroDec]
    have e1 : ((p : Int) > 0) = (p > 0) := propext (by omega)
    simp only [e1, Int.toNat_natCast, repeatChar]
  · simp only [if_true]
    rw [fmtF_quantumDec, fixText_quantum]


/-- **`%.pf` at or above the quantum** (`x.exp + p ≥ 1` digits are kept): the text is the fixed-point layout
    of the digits of `x` rounded once to `x.exp + p` significant digits under `x`'s mode. -/
theorem append_f_text (x : Dec) (hx : Canon x) (p n : Nat) (hn : x.exp + (p : Int) = n) (hn1 : 1 ≤ n)
    (hfin : (roundSV x.mode n (ofDec x)).form = .finite) :
    append x 'f' p = signChars x ++
      fixText (natDigits (roundSV x.mode n (ofDec x)).coef) (roundSV x.mode n (ofDec x)).exp p := by
  have hf := hx.1.form_eq
  have hinf : x.form ≠ .inf := by rw [hf]; decide
  have hrd := rndDigits_f x p hf
  have hgp : gPrec 'f' (p : Int) = p := rfl
  rw [append_unfold x 'f' p hinf rfl,
    appendRound_roundedCopy x 'f' p (by omega)
      (by rw [hrd]; have : ¬ (x.exp + (p : Int) ≤ 0) := by omega
          simp only [this, decide_false, Bool.and_false]), hrd, hgp, hn]
  have he : ('f' == 'e' || 'f' == 'E') = false := rfl
  have hf' : ('f' == 'f') = true := rfl
  simp only [he, hf', Bool.false_eq_true, if_false, if_true]
  obtain ⟨k1, _, _, k3, k4, k5, k6, k7, _⟩ := roundedCopy_spec x hx n hn1 hfin
  rw [fmtF_fix _ p k1 k4 k5, ← k7, natDigits_mul_pow (oddPart_pos k4), fixText_append_zeros, k3]

/-! ## 9. `%g`: the `%e` / `%f` choice -/

/-- strconv's `%g` rule: `%e` is used iff the exponent `X` of the first digit is `< −4` or `≥ eprec`. -/
def gUsesE (X eprec : Int) : Bool := decide (X < -4) || decide (X ≥ eprec)

/-- The text of `%g`, from the shortest digit string `O` (`digits` of them) of the value `0.O × 10^e`,
    the requested number of digits `P` and the threshold `eprec`. -/
def gText (O : List Char) (e P eprec : Int) (c : Char) : List Char :=
  if gUsesE (e - 1) eprec then sciText O (if c == 'g' then 'e' else 'E') (e - 1)
  else fixText O e (max ((if P > e then (O.length : Int) else P) - e) 0)

theorem appendG_finite (y : Dec) (P : Int) (shortest : Prop) [Decidable shortest] (c : Char)
    (hf : y.form = .finite) (hM : 0 < y.mant) (hc : ndigits y.mant = 19 * y.len)
    (hP : (minPrec y : Int) ≤ P) :
    appendG y (minPrec y) P shortest c =
      gText (natDigits (oddPart y.mant)) y.exp P
        (if shortest then 6 else if P > (minPrec y : Int) ∧ (minPrec y : Int) ≥ y.exp then (minPrec y : Int) else P) c := by
  have hcp := oddPart_pos hM
  have hlen : (natDigits (oddPart y.mant)).length = minPrec y := by
    rw [natDigits_length hcp, ndigits_oddPart y hf hc]
  have hpos : 0 < minPrec y := by rw [← ndigits_oddPart y hf hc]; exact ndigits_pos hcp
  unfold appendG gText gUsesE
  rw [ex0_finite y hf, hlen]
  have hE : fmtE y (if (c == 'g') = true then 'e' else 'E')
      ((if P > (minPrec y : Int) then (minPrec y : Int) else P) - 1) =
      sciText (natDigits (oddPart y.mant)) (if (c == 'g') = true then 'e' else 'E') (y.exp - 1) := by
    have hpe : (if P > (minPrec y : Int) then (minPrec y : Int) else P) = (minPrec y : Int) := by
      split <;> omega
    rw [hpe]
    obtain ⟨t1, _⟩ := fmtE_sci y (if (c == 'g') = true then 'e' else 'E') ((minPrec y : Int) - 1) hf hM hc
      (by omega) (by omega)
    have e0 : ((minPrec y : Int) - 1).toNat + 1 - minPrec y = 0 := by omega
    rw [e0, Nat.pow_zero, Nat.mul_one] at t1
    exact t1
  rw [hE, fmtF_fix y _ hf hM hc]
  have hcond : (if shortest then (6 : Int) else
        if (decide (P > (minPrec y : Int)) && decide ((minPrec y : Int) ≥ y.exp)) = true then (minPrec y : Int) else P)
      = (if shortest then 6 else if P > (minPrec y : Int) ∧ (minPrec y : Int) ≥ y.exp then (minPrec y : Int) else P) := by
    split
    · rfl
    · simp only [Bool.and_eq_true, decide_eq_true_eq]
  simp only [hcond]


theorem isEFG_g {c : Char} (hc : c = 'g' ∨ c = 'G') :
    isEFG c = true ∧ (c == 'e' || c == 'E') = false ∧ (c == 'f') = false ∧ (c == 'g' || c == 'G') = true := by
  rcases hc with rfl | rfl <;> exact ⟨rfl, rfl, rfl, rfl⟩

/-- **`%g` with an explicit precision.** With `P = max p 1` digits requested, `r` = `x` rounded once to `P`
    digits under `x`'s mode, `sig` its coefficient without trailing zeros (`digits` digits), and
    `X = r.exp − 1` the exponent of the first digit of the ROUNDED value: `%e` is used iff
    `X < −4 ∨ X ≥ eprec`, `eprec = digits` when `P > digits ∧ digits ≥ r.exp`, else `P`; the digits are
    those of `sig` in both layouts. -/
theorem append_g_text (x : Dec) (hx : Canon x) (c : Char) (hc : c = 'g' ∨ c = 'G') (p : Nat)
    (hfin : (roundSV x.mode (if p = 0 then 1 else p) (ofDec x)).form = .finite) :
    let P : Nat := if p = 0 then 1 else p
    let r := roundSV x.mode P (ofDec x)
    let sig := oddPart r.coef
    let digits : Int := ndigits sig
    append x c p = signChars x ++
      gText (natDigits sig) r.exp P (if (P : Int) > digits ∧ digits ≥ r.exp then digits else P) c := by
  intro P r sig digits
  obtain ⟨hefg, he, hf', hg⟩ := isEFG_g hc
  have hf := hx.1.form_eq
  have hinf : x.form ≠ .inf := by rw [hf]; decide
  have hP1 : 1 ≤ P := by show 1 ≤ (if p = 0 then 1 else p); split <;> omega
  have hgp : gPrec c (p : Int) = (P : Int) := by
    unfold gPrec
    show _ = (((if p = 0 then 1 else p) : Nat) : Int)
    simp only [hg, Bool.true_and, beq_iff_eq]
    by_cases h0 : p = 0
    · subst h0; rfl
    · have : ¬ ((p : Int) = 0) := by omega
      simp only [h0, this, if_false]
  have hrd : rndDigits x c (p : Int) = (P : Int) := by
    unfold rndDigits; simp only [he, hf', Bool.false_eq_true, if_false, hgp]
  rw [append_unfold x c p hinf hefg,
    appendRound_roundedCopy x c p (by omega) (by simp only [hf', Bool.false_and]), hrd, hgp]
  simp only [he, hf', Bool.false_eq_true, if_false]
  obtain ⟨k1, _, _, k3, k4, k5, k6, k7, _⟩ := roundedCopy_spec x hx P hP1 hfin
  have hnot : ¬ ((p : Int) < 0) := by omega
  rw [appendG_finite _ (P : Int) _ c k1 k4 k5 (by exact_mod_cast k6)]
  have hsig : sig = oddPart (roundedCopy x (P : Int)).mant := by
    show oddPart r.coef = _
    rw [← k7, oddPart_mul_pow (oddPart_pos k4)]
    unfold oddPart
    rw [trailingZeros_of_mod_ne (trailingZeros_spec k4).2, Nat.pow_zero, Nat.div_one]
  have hdig : digits = (minPrec (roundedCopy x (P : Int)) : Int) := by
    show ((ndigits sig : Nat) : Int) = _
    rw [hsig, ndigits_oddPart _ k1 k5]
  simp only [hnot, if_false]
  rw [← hsig, ← hdig, k3]

/-- **`%g` with the shortest precision** (`p < 0`): no rounding; `eprec = 6`. -/
theorem append_g_shortest (x : Dec) (hf : x.form = .finite) (hM : 0 < x.mant)
    (hnd : ndigits x.mant = 19 * x.len) (c : Char) (hc : c = 'g' ∨ c = 'G') (p : Int) (hp : p < 0) :
    append x c p = signChars x ++ gText (natDigits (oddPart x.mant)) x.exp (minPrec x) 6 c := by
  obtain ⟨hefg, he, hf', hg⟩ := isEFG_g hc
  have hinf : x.form ≠ .inf := by rw [hf]; decide
  rw [append_unfold x c p hinf hefg, appendRound_shortest x c p hp]
  simp only [he, hf', Bool.false_eq_true, if_false]
  rw [appendG_finite x (minPrec x : Int) _ c hf hM hnd (by omega)]
  simp only [hp, if_true]


/-! ## 10. The rational reading of the below-quantum decision -/

/-- `x` is below the quantum: `|x| = mant × 10^intExp < 10^-prec`. -/
theorem below_quantum (x : Dec) (prec : Int) (hx : FinCanon x) (hq : x.exp + prec ≤ 0) :
    (x.mant : ℚ) * (10 : ℚ) ^ (intExp x) < (10 : ℚ) ^ (-prec) := by
  have ht : (0 : ℚ) < (10 : ℚ) ^ (intExp x) := zpow_pos (by norm_num) _
  have hlt : (x.mant : ℚ) < (10 : ℚ) ^ ((x.len * 19 : Nat) : Int) := by
    have := ndigits_lt_pow x.mant
    rw [hx.nd] at this
    rw [zpow_natCast]; exact_mod_cast this
  have h1 : (x.mant : ℚ) * (10 : ℚ) ^ (intExp x) < (10 : ℚ) ^ ((x.len * 19 : Nat) : Int) * (10 : ℚ) ^ (intExp x) :=
    mul_lt_mul_of_pos_right hlt ht
  rw [← zpow_add₀ (by norm_num : (10 : ℚ) ≠ 0)] at h1
  have h2 : (10 : ℚ) ^ (((x.len * 19 : Nat) : Int) + intExp x) ≤ (10 : ℚ) ^ (-prec) := by
    apply zpow_le_zpow_right₀ (by norm_num)
    rw [intExp_eq]; omega
  linarith

/-- The integer comparison of `roundBelowQuantum` is `|x|` against half a quantum `10^-prec / 2`. -/
theorem half_quantum_cmp (x : Dec) (prec : Int) (hq : x.exp + prec ≤ 0) :
    (2 * x.mant > 10 ^ (quantumGap x prec + 19 * x.len) ↔
        (x.mant : ℚ) * (10 : ℚ) ^ (intExp x) > (10 : ℚ) ^ (-prec) / 2) ∧
    (2 * x.mant ≥ 10 ^ (quantumGap x prec + 19 * x.len) ↔
        (x.mant : ℚ) * (10 : ℚ) ^ (intExp x) ≥ (10 : ℚ) ^ (-prec) / 2) := by
  have ht : (0 : ℚ) < (10 : ℚ) ^ (intExp x) := zpow_pos (by norm_num) _
  have e : (10 : ℚ) ^ (-prec) = ((10 ^ (quantumGap x prec + 19 * x.len) : Nat) : ℚ) * (10 : ℚ) ^ (intExp x) := by
    rw [Nat.cast_pow, ← zpow_natCast, Nat.cast_ofNat, ← zpow_add₀ (by norm_num : (10 : ℚ) ≠ 0)]
    congr 1
    rw [intExp_eq]; unfold quantumGap; push_cast; omega
  rw [e]
  generalize 10 ^ (quantumGap x prec + 19 * x.len) = N
  generalize (10 : ℚ) ^ (intExp x) = t at ht
  have e2 : (N : ℚ) * t / 2 = ((N : ℚ) / 2) * t := by ring
  rw [e2]
  constructor
  · rw [gt_iff_lt, gt_iff_lt, mul_lt_mul_iff_of_pos_right ht, div_lt_iff₀ (by norm_num : (0 : ℚ) < 2)]
    constructor
    · intro h; have : ((N : Nat) : ℚ) < ((2 * x.mant : Nat) : ℚ) := by exact_mod_cast h
      push_cast at this; linarith
    · intro h; have : ((N : Nat) : ℚ) < ((2 * x.mant : Nat) : ℚ) := by push_cast; linarith
      exact_mod_cast this
  · rw [ge_iff_le, ge_iff_le, mul_le_mul_iff_of_pos_right ht, div_le_iff₀ (by norm_num : (0 : ℚ) < 2)]
    constructor
    · intro h; have : ((N : Nat) : ℚ) ≤ ((2 * x.mant : Nat) : ℚ) := by exact_mod_cast h
      push_cast at this; linarith
    · intro h; have : ((N : Nat) : ℚ) ≤ ((2 * x.mant : Nat) : ℚ) := by push_cast; linarith
      exact_mod_cast this


/-! ## 11. No overflow below `MaxExp` -/

theorem roundIntTail_finite (p : Nat) (neg : Bool) (lo : Nat) (e : Int) (E I : Bool) (he : e < MaxExp) :
    (roundIntTail p neg lo e E I).form = .finite := by
  unfold roundIntTail
  simp only
  generalize (if (!E && I) = true then lo + 1 else lo) = c
  by_cases hc : (c == 10 ^ p) = true
  · simp only [hc, if_true]
    rw [if_neg (by omega)]
  · simp only [hc, Bool.false_eq_true, if_false]
    rw [if_neg (by omega)]

/-- Rounding a finite value whose exponent is below `MaxExp` cannot overflow. -/
theorem roundSV_finite_of_exp_lt (x : Dec) (hx : FinCanon x) (n : Nat) (hn : 1 ≤ n) (hlt : x.exp < MaxExp) :
    (roundSV x.mode n (ofDec x)).form = .finite := by
  rw [roundSV_ofDec_finite x hx.form_eq,
    ← roundInt_eq_round x.mode n x.neg x.mant (intExp x) false _ hx.mant_pos hn (by intro h; cases h) (by simp)]
  have he : ((ndigits x.mant : Nat) : Int) + intExp x = x.exp := by rw [hx.nd, intExp_eq]; omega
  have hmin := hx.exp_ge
  by_cases hfit : ndigits x.mant ≤ n
  · rw [roundInt_fit x.mode n x.neg x.mant _ hfit (by rw [he]; omega) (by rw [he]; omega)]
  · rw [roundInt_eq_tail x.mode n x.neg x.mant _ false (by rw [he]; omega) (by omega)]
    simp only [he]
    exact roundIntTail_finite _ _ _ _ _ _ hlt



theorem roundIntTail_exp_range (p : Nat) (neg : Bool) (lo : Nat) (e : Int) (E I : Bool)
    (hfin : (roundIntTail p neg lo e E I).form = .finite) :
    e ≤ (roundIntTail p neg lo e E I).exp ∧ (roundIntTail p neg lo e E I).exp ≤ MaxExp := by
  unfold roundIntTail at hfin ⊢
  simp only at hfin ⊢
  generalize (if (!E && I) = true then lo + 1 else lo) = c at hfin ⊢
  by_cases hc : (c == 10 ^ p) = true
  · simp only [hc, if_true] at hfin ⊢
    by_cases h : e + 1 > MaxExp
    · rw [if_pos h] at hfin; cases hfin
    · rw [if_neg h]; simp only; omega
  · simp only [hc, Bool.false_eq_true, if_false] at hfin ⊢
    by_cases h : e > MaxExp
    · rw [if_pos h] at hfin; cases hfin
    · rw [if_neg h]; simp only; omega

/-- A finite result of `Spec.round` has its exponent in range. -/
theorem round_exp_range (mode : Mode) (p : Nat) (neg : Bool) (q : ℚ) (k : Int)
    (hfin : (Spec.round mode p neg q k).form = .finite) :
    MinExp ≤ (Spec.round mode p neg q k).exp ∧ (Spec.round mode p neg q k).exp ≤ MaxExp := by
  by_cases hmin : decExp q + k < MinExp
  · rw [round_underflow _ _ _ _ _ hmin] at hfin; cases hfin
  · rw [round_eq_tail _ _ _ _ _ hmin] at hfin ⊢
    have := roundIntTail_exp_range _ _ _ _ _ _ hfin
    simp only at this ⊢
    omega


end Decimal
