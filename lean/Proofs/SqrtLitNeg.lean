/-
  The correction loops of the literal `sqrtInverse` started from a NEGATIVE or INFINITE `s = x·t`
  (a Newton result `t` that is negative or infinite: only possible with an absurd seed): they never
  exit.  Hence `sqrtLit` returns `none` for every fuel in these cases, and the comparison with the
  abstract model holds vacuously.
-/
import Proofs.SqrtLitLoops

namespace Decimal
open Spec

/-- `s` is a NEGATIVE finite canonical Decimal of precision `p1`, mode ToZero, of magnitude the
    `p1`-digit float `c × 10^(e − p1)`. -/
structure NRep (p1 : Nat) (s : Dec) (c : Nat) (e : Int) : Prop where
  fin : FinCanon s
  neg : s.neg = true
  prec : s.prec = p1
  mode : s.mode = .ToZero
  exp : s.exp = e
  val : magVal s = qval c (e - p1)
  lo : 10 ^ (p1 - 1) ≤ c
  hi : c < 10 ^ p1

theorem NRep.cpos {p1 : Nat} {s : Dec} {c : Nat} {e : Int} (h : NRep p1 s c e) : 0 < c :=
  Nat.lt_of_lt_of_le (ten_pow_pos _) h.lo

theorem NRep.congr {p1 : Nat} {s : Dec} {c c' : Nat} {e e' : Int} (h : NRep p1 s c e) (hc : c = c') (he : e = e') :
    NRep p1 s c' e' := by subst hc he; exact h

theorem nrep_after_snr {p1 : Nat} (z : Dec) (M N : Nat) (k k' : Int) (hM : 0 < M) (hN : 0 < N)
    (hv : qval M k = qval N k') (hzp : z.prec = p1) (hzm : z.mode = .ToZero) (hzn : z.neg = true)
    (hp1 : 1 ≤ p1) (hp2 : p1 ≤ MaxPrec) (hfit : ndigits N ≤ p1)
    (hmin : MinExp ≤ (ndigits N : Int) + k') (hmax : (ndigits N : Int) + k' ≤ MaxExp) :
    NRep p1 (setNormAndRound z M k false) (N * 10 ^ (p1 - ndigits N)) ((ndigits N : Int) + k') := by
  obtain ⟨h1, h2, -, h4, h5, h6, h7⟩ := snr_exact z M N k k' hM hN hv (by omega) (by omega) (by omega) hmin hmax
  have hnd : ndigits (N * 10 ^ (p1 - ndigits N)) = p1 := by
    rw [ndigits_mul_pow hN]; omega
  have hpos : 0 < N * 10 ^ (p1 - ndigits N) := Nat.mul_pos hN (ten_pow_pos _)
  refine ⟨h1, by rw [h2, hzn], by rw [h5, hzp], by rw [h6, hzm], h4, ?_, ?_, ?_⟩
  · rw [h7]; symm; apply qval_scale'; omega
  · have := pow_le_of_ndigits hpos; rwa [hnd] at this
  · have := ndigits_lt_pow (N * 10 ^ (p1 - ndigits N)); rwa [hnd] at this

theorem cmp_nrep {p1 : Nat} (sq s x : Dec) (c : Nat) (e : Int) (hx : WorkX x) (hR : NRep p1 s c e)
    (hP1 : 2 * p1 + 1 ≤ sq.prec) (hP2 : sq.prec ≤ MaxPrec) :
    (mul sq s s).2 = .ok ∧ (mul sq s s).1.prec = sq.prec ∧
    (cmp (mul sq s s).1 x > 0 ↔ ¬ sqLE p1 x c e) := by
  have hfit : ndigits (c * c) ≤ sq.prec := le_trans (ndigits_sq_le (le_of_lt hR.hi)) hP1
  obtain ⟨h1, h2, -⟩ := mul_sq_spec sq s c (e - p1) hR.fin hR.cpos hR.val (by omega) hP2 hfit
  obtain ⟨h3, -⟩ := cmp_sq_spec sq s x c (e - p1) hx hR.fin hR.cpos hR.val (by omega) hP2 hfit
  rw [qval_sq] at h3
  refine ⟨h1, h2, ?_⟩
  rw [h3]; unfold sqLE fval; exact not_le.symm

theorem zeroSignFix_toZero {z : Dec} (h : z.mode = .ToZero) : zeroSignFix z = z := by
  simp [zeroSignFix, h]

theorem set_copy (z s : Dec) (hsf : s.form = .finite) (hz : z.prec ≠ 0) (hlt : ¬ (z.prec < s.prec)) :
    set z s = { z with acc := Exact, form := s.form, neg := s.neg, exp := s.exp, mant := s.mant, len := s.len } := by
  have hp0 : (z.prec == 0) = false := by simp; omega
  simp only [set, Bool.false_eq_true, if_false, hsf, beq_self_eq_true, if_true, hp0, hlt]

theorem set_nrep {p1 : Nat} (z s : Dec) (c : Nat) (e : Int) (hR : NRep p1 s c e) (hzp : z.prec = p1)
    (hzm : z.mode = .ToZero) (hp1 : 1 ≤ p1) : NRep p1 (set z s) c e := by
  have hlt : ¬ (z.prec < s.prec) := by rw [hzp, hR.prec]; omega
  obtain ⟨f1, f2, f3, f4, f5, f6⟩ := hR.fin
  rw [set_copy z s f1 (by omega) hlt]
  exact ⟨⟨f1, f2, f3, by simp only; omega, f5, f6⟩, hR.neg, hzp, hzm, hR.exp, hR.val, hR.lo, hR.hi⟩

/-- `s.Sub(s, ulp)` for a negative `s`: the magnitude does not decrease (or `s` becomes `−∞`). -/
theorem nsub_ulp {p1 : Nat} (s ulp0 : Dec) (c : Nat) (e : Int) (hR : NRep p1 s c e) (hp1 : 1 ≤ p1)
    (hpM : p1 ≤ MaxPrec) :
    (sub s s (litUlp ulp0 s) true false).2 = .ok ∧
      (((sub s s (litUlp ulp0 s) true false).1.form = .inf ∧ (sub s s (litUlp ulp0 s) true false).1.neg = true ∧
          (sub s s (litUlp ulp0 s) true false).1.prec = p1) ∨
       ∃ c' e', NRep p1 (sub s s (litUlp ulp0 s) true false).1 c' e' ∧ fval p1 c e ≤ fval p1 c' e') := by
  have hMin : MinExp = -2147483648 := rfl
  have hMax : MaxExp = 2147483647 := rfl
  have hemax := hR.fin.exp_le
  have hemin := hR.fin.exp_ge
  have hse := hR.exp
  have hsp := hR.prec
  have hp0 : (s.prec == 0) = false := by simp; omega
  by_cases hund : 1 + (s.exp - (s.prec : Int)) < MinExp
  · -- ulp underflows: s − 0
    have hz := litUlp_under ulp0 s hund
    have : sub s s (litUlp ulp0 s) true false = ({ s with acc := Exact }, .ok) := by
      simp [sub, opnd, hp0, hR.fin.form_eq, hz, set]
    rw [this]
    refine ⟨rfl, Or.inr ⟨c, e, ?_, le_refl _⟩⟩
    obtain ⟨f1, f2, f3, f4, f5, f6⟩ := hR.fin
    exact ⟨⟨f1, f2, f3, f4, f5, f6⟩, hR.neg, hR.prec, hR.mode, hR.exp, hR.val, hR.lo, hR.hi⟩
  · have hE : 1 + (s.exp - (s.prec : Int)) = 1 + e - p1 := by rw [hse, hsp]; omega
    have hulp := litUlp_eq ulp0 s (by omega) (by omega)
    rw [hE] at hulp hund
    have hyf : FinCanon (litUlp ulp0 s) := by
      rw [hulp]; exact finCanon_digit 1 (by omega) (by omega) _ (by omega) (by omega)
    have hyv : magVal (litUlp ulp0 s) = qval 1 (e - p1) := by
      rw [hulp, magVal_digit]; congr 1; omega
    have hyn : (litUlp ulp0 s).neg = false := by rw [hulp]
    have hsub : sub s s (litUlp ulp0 s) true false =
        (zeroSignFix (setNormAndRound s (alignL s (litUlp ulp0 s) + alignL (litUlp ulp0 s) s)
          (min (intExp s) (intExp (litUlp ulp0 s))) false), .ok) := by
      have hsf := hR.fin.form_eq
      have hsn := hR.neg
      obtain ⟨form, neg, mant, len, exp, prec, mode, acc⟩ := s
      simp only at hsn hsf hp0
      subst hsn hsf
      have hb : (true != false) = true := by decide
      simp only [sub, opnd, hp0, Bool.false_eq_true, if_false, if_true, hyf.form_eq, beq_self_eq_true,
        Bool.and_self, hyn, uadd_eq, hb]
    rw [hsub]
    simp only
    have hM : 0 < alignL s (litUlp ulp0 s) + alignL (litUlp ulp0 s) s := Nat.add_pos_left (alignL_pos hR.fin _) _
    have hv : qval (alignL s (litUlp ulp0 s) + alignL (litUlp ulp0 s) s)
        (min (intExp s) (intExp (litUlp ulp0 s))) = qval (c + 1) (e - p1) := by
      rw [qval_add, magVal_alignL, min_comm, magVal_alignL, hR.val, hyv, qval_add]
    have hmono : fval p1 c e ≤ fval p1 (c + 1) e := by
      unfold fval qval
      apply mul_le_mul_of_nonneg_right _ (le_of_lt (ten_zpow_pos _))
      exact_mod_cast Nat.le_succ c
    obtain ⟨hag, hprec, hmode, hneg'⟩ := setNormAndRound_eq_roundInt s _ (min (intExp s) (intExp (litUlp ulp0 s))) false
      hM (by omega) (by intro h; cases h)
    rw [zeroSignFix_toZero (by rw [hmode, hR.mode])]
    refine ⟨trivial, ?_⟩
    by_cases hcl : c + 1 < 10 ^ p1
    · right
      have hnd : ndigits (c + 1) = p1 := ndigits_eq_of_coef (by have := hR.lo; omega) hcl
      have hrep := nrep_after_snr (p1 := p1) s _ (c + 1) _ (e - p1) hM (by omega) hv hsp hR.mode hR.neg
        hp1 hpM (by omega) (by omega) (by omega)
      exact ⟨_, _, hrep, by rw [hnd]; simpa using hmono⟩
    · have hceq : c + 1 = 10 ^ p1 := by have := hR.hi; omega
      have hv' : qval (alignL s (litUlp ulp0 s) + alignL (litUlp ulp0 s) s)
          (min (intExp s) (intExp (litUlp ulp0 s))) = qval 1 e := by
        rw [hv, hceq]
        have := qval_scale' 1 p1 (e - p1) e (by omega)
        rw [Nat.one_mul] at this
        exact this
      by_cases hov : e < MaxExp
      · right
        have hrep := nrep_after_snr (p1 := p1) s _ 1 _ e hM (by omega) hv' hsp hR.mode hR.neg
          hp1 hpM (by rw [ndigits_one]; omega) (by rw [ndigits_one]; omega) (by rw [ndigits_one]; omega)
        refine ⟨_, _, hrep, ?_⟩
        have h2 : fval p1 (1 * 10 ^ (p1 - ndigits 1)) ((ndigits 1 : Int) + e) = fval p1 (c + 1) e := by
          rw [ndigits_one, Nat.one_mul, hceq]
          unfold fval
          have h1 := qval_scale' 1 (p1 - 1) (((1 : Nat) : Int) + e - (p1 : Int)) e (by omega)
          have h2 := qval_scale' 1 p1 (e - (p1 : Int)) e (by omega)
          rw [Nat.one_mul] at h1 h2
          rw [h1, h2]
        rw [h2]; exact hmono
      · left
        have hbig : (ndigits 1 : Int) + e > MaxExp := by rw [ndigits_one]; omega
        rw [roundInt_congr_val _ _ _ _ _ _ _ hM (by omega : 0 < 1) hv', roundInt_inf _ _ _ _ _ _ hbig, agrees_iff] at hag
        exact ⟨hag.1, by rw [hneg', hR.neg], by rw [hprec, hsp]⟩

/-- `u.Add(s, ulp)` for a negative `s` (`p1 ≥ 2`): a negative float of smaller or equal magnitude. -/
theorem nadd_ulp {p1 : Nat} (u s ulp0 : Dec) (c : Nat) (e : Int) (hR : NRep p1 s c e) (hup : u.prec = p1)
    (hum : u.mode = .ToZero) (hp1 : 2 ≤ p1) (hpM : p1 ≤ MaxPrec) :
    (add u s (litUlp ulp0 s)).2 = .ok ∧
      ∃ c' e', NRep p1 (add u s (litUlp ulp0 s)).1 c' e' ∧ fval p1 c' e' ≤ fval p1 c e := by
  have hMin : MinExp = -2147483648 := rfl
  have hMax : MaxExp = 2147483647 := rfl
  have hemax := hR.fin.exp_le
  have hse := hR.exp
  have hsp := hR.prec
  have hp0 : (u.prec == 0) = false := by simp; omega
  by_cases hund : 1 + (s.exp - (s.prec : Int)) < MinExp
  · have hz := litUlp_under ulp0 s hund
    have : add u s (litUlp ulp0 s) = (set u s, .ok) := by
      simp [add, opnd, hp0, hR.fin.form_eq, hz]
    rw [this]
    exact ⟨rfl, c, e, set_nrep u s c e hR hup hum (by omega), le_refl _⟩
  · have hE : 1 + (s.exp - (s.prec : Int)) = 1 + e - p1 := by rw [hse, hsp]; omega
    have hulp := litUlp_eq ulp0 s (by omega) (by omega)
    rw [hE] at hulp hund
    have hyf : FinCanon (litUlp ulp0 s) := by
      rw [hulp]; exact finCanon_digit 1 (by omega) (by omega) _ (by omega) (by omega)
    have hyv : magVal (litUlp ulp0 s) = qval 1 (e - p1) := by
      rw [hulp, magVal_digit]; congr 1; omega
    have hyn : (litUlp ulp0 s).neg = false := by rw [hulp]
    have h10 : 10 ≤ 10 ^ (p1 - 1) := by
      calc 10 = 10 ^ 1 := by norm_num
        _ ≤ 10 ^ (p1 - 1) := Nat.pow_le_pow_right (by omega) (by omega)
    have hc10 : 10 ≤ c := le_trans h10 hR.lo
    have hgt : magVal (litUlp ulp0 s) < magVal s := by
      rw [hyv, hR.val]
      unfold qval
      apply mul_lt_mul_of_pos_right _ (ten_zpow_pos _)
      exact_mod_cast (by omega : 1 < c)
    have hu : ucmp s (litUlp ulp0 s) > 0 := (ucmp_pos_iff_val hR.fin hyf).mpr hgt
    have hal : alignL (litUlp ulp0 s) s < alignL s (litUlp ulp0 s) := (alignL_lt_iff _ _).mpr hgt
    have hne : ¬ (alignL s (litUlp ulp0 s) - alignL (litUlp ulp0 s) s = 0) := by omega
    have hadd : add u s (litUlp ulp0 s) =
        (zeroSignFix (setNormAndRound { u with neg := true } (alignL s (litUlp ulp0 s) - alignL (litUlp ulp0 s) s)
          (min (intExp s) (intExp (litUlp ulp0 s))) false), .ok) := by
      simp only [add, opnd, hp0, Bool.false_eq_true, if_false, if_true, hR.fin.form_eq, hyf.form_eq,
        beq_self_eq_true, Bool.and_self, hR.neg, hyn, hu, usub_eq, if_neg hne]
      rfl
    rw [hadd]
    simp only
    have hM : 0 < alignL s (litUlp ulp0 s) - alignL (litUlp ulp0 s) s := by omega
    have hv : qval (alignL s (litUlp ulp0 s) - alignL (litUlp ulp0 s) s)
        (min (intExp s) (intExp (litUlp ulp0 s))) = qval (c - 1) (e - p1) := by
      rw [qval_sub (le_of_lt hal), magVal_alignL, min_comm, magVal_alignL, hR.val, hyv, qval_sub (by omega)]
    have hfit : ndigits (c - 1) ≤ p1 := by
      rw [ndigits_le_iff]; have := hR.hi; omega
    have hndlo : p1 - 1 ≤ ndigits (c - 1) := by
      by_contra hcon
      have : ndigits (c - 1) ≤ p1 - 2 := by omega
      rw [ndigits_le_iff] at this
      have h2 : 10 ^ (p1 - 2) * 10 = 10 ^ (p1 - 1) := by
        rw [← Nat.pow_succ]; congr 1; omega
      have := hR.lo
      omega
    have hrep := nrep_after_snr (p1 := p1) { u with neg := true } _ (c - 1) _ (e - p1) hM (by omega) hv hup hum rfl
      (by omega) hpM hfit (by omega) (by omega)
    rw [zeroSignFix_finite hrep.fin.form_eq]
    refine ⟨trivial, _, _, hrep, ?_⟩
    have hval : fval p1 ((c - 1) * 10 ^ (p1 - ndigits (c - 1))) ((ndigits (c - 1) : Int) + (e - p1)) = fval p1 (c - 1) e := by
      unfold fval
      apply qval_scale'
      omega
    rw [hval]
    unfold fval qval
    apply mul_le_mul_of_nonneg_right _ (le_of_lt (ten_zpow_pos _))
    exact_mod_cast Nat.sub_le c 1

/-! ### The loops never exit from these states -/

theorem litUlp_neg (ulp0 s : Dec) : (litUlp ulp0 s).neg = false := by
  unfold litUlp setMantExp
  rw [litOne_eq]
  simp only [copy, Bool.false_eq_true, if_false, beq_self_eq_true, if_true, bne_self_eq_false]
  rw [setExpAndRound_neg]

/-- The `ulp` is infinite only when its exponent overflows. -/
theorem litUlp_inf (ulp0 s : Dec) (h : (litUlp ulp0 s).form = .inf) : MaxExp < 1 + (s.exp - (s.prec : Int)) := by
  by_contra hcon
  by_cases hmin : 1 + (s.exp - (s.prec : Int)) < MinExp
  · rw [litUlp_under ulp0 s hmin] at h; cases h
  · rw [litUlp_eq ulp0 s (by omega) (by omega)] at h; cases h

theorem sub_inf_self (s y : Dec) (hs : s.form = .inf) (hp : s.prec ≠ 0) (h : ¬ (y.form = .inf ∧ y.neg = s.neg)) :
    sub s s y true false = ({ s with acc := Exact }, .ok) := by
  have hp0 : (s.prec == 0) = false := by simp; omega
  cases hy : y.form
  · simp [sub, opnd, hp0, hs, hy, set]
  · simp [sub, opnd, hp0, hs, hy, set]
  · have : ¬ (s.neg = y.neg) := fun e => h ⟨hy, e.symm⟩
    simp [sub, opnd, hp0, hs, hy, set, this]

theorem mul_inf_cmp (sq s x : Dec) (hs : s.form = .inf) (hx : WorkX x) (hP : 1 ≤ sq.prec) :
    (mul sq s s).2 = .ok ∧ (mul sq s s).1.prec = sq.prec ∧ cmp (mul sq s s).1 x = 1 := by
  have hp0 : (sq.prec == 0) = false := by simp; omega
  have : mul sq s s = ({ sq with neg := false, acc := Exact, form := .inf }, .ok) := by
    simp [mul, opnd, hp0, hs]
  rw [this]
  refine ⟨rfl, rfl, ?_⟩
  simp [cmp, ord, hx.fin.form_eq, hx.neg]

/-- States of `s` from which loop 1 never exits: `±∞`, or a negative float with `s² > x`. -/
def Bad1 (p1 : Nat) (x s : Dec) : Prop :=
  (s.form = .inf ∧ s.prec = p1 ∧ (s.neg = false → 1 + (s.exp - (s.prec : Int)) ≤ MaxExp)) ∨
    ∃ c e, NRep p1 s c e ∧ ¬ sqLE p1 x c e

theorem sqLE_mono {p1 : Nat} {x : Dec} {c c' : Nat} {e e' : Int} (h : fval p1 c e ≤ fval p1 c' e')
    (hle : sqLE p1 x c' e') : sqLE p1 x c e := by
  unfold sqLE at *
  exact le_trans (mul_le_mul h h (qval_nonneg _ _) (qval_nonneg _ _)) hle

theorem corrLoop1_bad_none {p1 P : Nat} (x : Dec) (hx : WorkX x) (hp1 : 1 ≤ p1) (hpM : p1 ≤ 2147483647)
    (hP1 : 2 * p1 + 1 ≤ P) (hP2 : P ≤ MaxPrec) :
    ∀ (fuel : Nat) (s sq ulp : Dec), Bad1 p1 x s → sq.prec = P → corrLoop1 x fuel s sq ulp = none := by
  have hMP : MaxPrec = 4294967295 := rfl
  have hMax : MaxExp = 2147483647 := rfl
  intro fuel
  induction fuel with
  | zero =>
    intro s sq ulp hB hsq
    rw [corrLoop1_zero]
    rcases hB with ⟨hi, _, _⟩ | ⟨c, e, hR, hgt⟩
    · obtain ⟨h1, -, h3⟩ := mul_inf_cmp sq s x hi hx (by omega)
      simp [h1, h3]
    · obtain ⟨h1, -, h3⟩ := cmp_nrep sq s x c e hx hR (by omega) (by omega)
      have := h3.mpr hgt
      simp [h1, this]
  | succ f ih =>
    intro s sq ulp hB hsq
    rw [corrLoop1_succ]
    rcases hB with ⟨hi, hp, hu⟩ | ⟨c, e, hR, hgt⟩
    · obtain ⟨h1, h2, h3⟩ := mul_inf_cmp sq s x hi hx (by omega)
      have hnotinf : ¬ ((litUlp ulp s).form = .inf ∧ (litUlp ulp s).neg = s.neg) := by
        rintro ⟨hf, hn⟩
        rw [litUlp_neg] at hn
        have hle := hu hn.symm
        have := litUlp_inf ulp s hf
        omega
      have hsub := sub_inf_self s (litUlp ulp s) hi (by omega) hnotinf
      have hgt : cmp (mul sq s s).1 x > 0 := by rw [h3]; omega
      simp only [h1, bne_self_eq_false, Bool.false_eq_true, if_false, hgt, if_true, hsub]
      exact ih _ _ _ (Or.inl ⟨hi, hp, hu⟩) (by rw [h2, hsq])
    · obtain ⟨h1, h2, h3⟩ := cmp_nrep sq s x c e hx hR (by omega) (by omega)
      have hcg := h3.mpr hgt
      obtain ⟨g1, g2⟩ := nsub_ulp s ulp c e hR hp1 (by omega)
      simp only [h1, bne_self_eq_false, Bool.false_eq_true, if_false, hcg, if_true, g1]
      rcases g2 with ⟨k1, k2, k3⟩ | ⟨c', e', k1, k2⟩
      · exact ih _ _ _ (Or.inl ⟨k1, k3, fun h => by rw [k2] at h; cases h⟩) (by rw [h2, hsq])
      · exact ih _ _ _ (Or.inr ⟨c', e', k1, fun h => hgt (sqLE_mono k2 h)⟩) (by rw [h2, hsq])


/-- Loop 1 from a negative float with `s² ≤ x` exits at once, leaving `s` unchanged. -/
theorem corrLoop1_neg_exit {p1 P : Nat} (x : Dec) (hx : WorkX x) (hP1 : 2 * p1 + 1 ≤ P) (hP2 : P ≤ MaxPrec)
    (fuel : Nat) (s sq ulp : Dec) (c : Nat) (e : Int) (hR : NRep p1 s c e) (hle : sqLE p1 x c e) (hsq : sq.prec = P) :
    corrLoop1 x fuel s sq ulp = some ((s, (mul sq s s).1, ulp), .ok) ∧ (mul sq s s).1.prec = P := by
  obtain ⟨h1, h2, h3⟩ := cmp_nrep sq s x c e hx hR (by omega) (by omega)
  have hng : ¬ (cmp (mul sq s s).1 x > 0) := by rw [h3]; exact not_not.mpr hle
  refine ⟨?_, by rw [h2, hsq]⟩
  cases fuel with
  | zero => rw [corrLoop1_zero]; simp [h1, hng]
  | succ f => rw [corrLoop1_succ]; simp [h1, hng]

/-- Loop 2 from a negative float with `s² ≤ x` never exits: `s` moves towards zero by shrinking
    `ulp`s and never gets there. -/
theorem corrLoop2_neg_none {p1 P : Nat} (x : Dec) (hx : WorkX x) (hp1 : 2 ≤ p1) (hpM : p1 ≤ 2147483647)
    (hP1 : 2 * p1 + 1 ≤ P) (hP2 : P ≤ MaxPrec) :
    ∀ (fuel : Nat) (s u sq ulp : Dec) (c : Nat) (e : Int), NRep p1 s c e → sqLE p1 x c e → sq.prec = P →
      corrLoop2 x fuel s u sq ulp = none := by
  have hMP : MaxPrec = 4294967295 := rfl
  intro fuel
  induction fuel with
  | zero => intro s u sq ulp c e _ _ _; rw [corrLoop2]
  | succ f ih =>
    intro s u sq ulp c e hR hle hsq
    rw [corrLoop2_succ]
    simp only
    obtain ⟨hup, hum⟩ := setPrec_setMode_attr u p1 (by omega) (by omega)
    rw [hR.prec]
    generalize setMode (setPrec u p1) .ToZero = u0 at hup hum
    obtain ⟨g1, c', e', g2, g3⟩ := nadd_ulp u0 s ulp c e hR hup hum hp1 (by omega)
    have hle' : sqLE p1 x c' e' := sqLE_mono g3 hle
    obtain ⟨h1, h2, h3⟩ := cmp_nrep sq _ x c' e' hx g2 (by omega) (by omega)
    have hng : ¬ (cmp (mul sq (add u0 s (litUlp ulp s)).1 (add u0 s (litUlp ulp s)).1).1 x > 0) := by
      rw [h3]; exact not_not.mpr hle'
    simp only [g1, h1, bne_self_eq_false, Bool.false_eq_true, if_false, hng]
    exact ih _ _ _ _ c' e' (set_nrep s _ c' e' g2 hR.prec hR.mode (by omega)) hle' (by rw [h2, hsq])

/-- States of `s = x·t` from which `sqrtInverse` does not return. -/
def BadS (p1 : Nat) (s : Dec) : Prop :=
  (s.form = .inf ∧ s.prec = p1 ∧ (s.neg = false → 1 + (s.exp - (s.prec : Int)) ≤ MaxExp)) ∨ ∃ c e, NRep p1 s c e

/-- From a bad `s` the two loops together never exit. -/
theorem loops_bad_none {p1 P : Nat} (x : Dec) (hx : WorkX x) (hp1 : 2 ≤ p1) (hpM : p1 ≤ 2147483647)
    (hP1 : 2 * p1 + 1 ≤ P) (hP2 : P ≤ MaxPrec) (fuel : Nat) (s u sq ulp : Dec) (hB : BadS p1 s) (hsq : sq.prec = P) :
    corrLoop1 x fuel s sq ulp = none ∨
      ∃ sq1, corrLoop1 x fuel s sq ulp = some ((s, sq1, ulp), .ok) ∧ corrLoop2 x fuel s u sq1 ulp = none := by
  rcases hB with hinf | ⟨c, e, hR⟩
  · exact Or.inl (corrLoop1_bad_none x hx (by omega) hpM hP1 hP2 fuel s sq ulp (Or.inl hinf) hsq)
  · by_cases hle : sqLE p1 x c e
    · right
      obtain ⟨k1, k2⟩ := corrLoop1_neg_exit x hx hP1 hP2 fuel s sq ulp c e hR hle hsq
      exact ⟨_, k1, corrLoop2_neg_none x hx hp1 hpM hP1 hP2 fuel s u _ ulp c e hR hle k2⟩
    · exact Or.inl (corrLoop1_bad_none x hx (by omega) hpM hP1 hP2 fuel s sq ulp (Or.inr ⟨c, e, hR, hle⟩) hsq)


end Decimal
