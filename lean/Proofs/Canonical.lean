/-
  Canonical finite Decimals, and the aligned-integer reading of `uadd` / `usub` / `ucmp`.
-/
import Proofs.Basic
import DecimalModel.Arith

namespace Decimal

/-- A finite Decimal with a normalised, non-empty mantissa (`19·len` digits), a non-zero
    precision and an exponent in range. Nothing is assumed about the digits beyond `prec`. -/
def FinCanon (x : Dec) : Prop :=
  x.form = .finite ∧ 0 < x.len ∧ ndigits x.mant = x.len * 19 ∧ 1 ≤ x.prec ∧
    MinExp ≤ x.exp ∧ x.exp ≤ MaxExp

/-- Canonical: moreover the digits beyond the precision are zero (what every operation of the
    library leaves in its receiver); needed only where a value is *copied* without rounding. -/
def Canon (x : Dec) : Prop := FinCanon x ∧ 10 ^ (x.len * 19 - x.prec) ∣ x.mant

namespace FinCanon
variable {x : Dec}
theorem form_eq (h : FinCanon x) : x.form = .finite := h.1
theorem len_pos (h : FinCanon x) : 0 < x.len := h.2.1
theorem nd (h : FinCanon x) : ndigits x.mant = x.len * 19 := h.2.2.1
theorem prec_pos (h : FinCanon x) : 1 ≤ x.prec := h.2.2.2.1
theorem exp_ge (h : FinCanon x) : MinExp ≤ x.exp := h.2.2.2.2.1
theorem exp_le (h : FinCanon x) : x.exp ≤ MaxExp := h.2.2.2.2.2

theorem mant_pos (h : FinCanon x) : 0 < x.mant := by
  rcases Nat.eq_zero_or_pos x.mant with h0 | h0
  · have := h.nd; rw [h0, ndigits_zero] at this; have := h.len_pos; omega
  · exact h0

theorem nwords_eq (h : FinCanon x) : nwords x.mant = x.len := by
  rw [nwords_def, h.nd]; omega

theorem dnormShift_eq (h : FinCanon x) : dnormShift x.mant (nwords x.mant) = 0 := by
  rw [dnormShift_def, h.nwords_eq, h.nd]; omega
end FinCanon

theorem intExp_eq (x : Dec) : intExp x = x.exp - ((x.len * 19 : Nat) : Int) := rfl

/-- `x`'s mantissa aligned with `y`'s: scaled up by the (non-negative part of the) difference
    of the integer exponents. -/
def alignL (x y : Dec) : Nat := x.mant * 10 ^ (intExp x - intExp y).toNat

theorem pow_pos10 (k : Nat) : 0 < 10 ^ k := Nat.pow_pos (by omega)

theorem alignL_pos {x : Dec} (h : FinCanon x) (y : Dec) : 0 < alignL x y :=
  Nat.mul_pos h.mant_pos (pow_pos10 _)

theorem ndigits_alignL {x : Dec} (h : FinCanon x) (y : Dec) :
    ndigits (alignL x y) = x.len * 19 + (intExp x - intExp y).toNat := by
  unfold alignL
  rw [ndigits_mul_pow h.mant_pos, h.nd]

/-! ### `uadd`, `usub`, `usubGuard` on aligned mantissas -/

theorem uadd_eq (z x y : Dec) :
    uadd z x y = setNormAndRound z (alignL x y + alignL y x) (min (intExp x) (intExp y)) false := by
  unfold uadd alignL
  simp only
  by_cases h1 : intExp x < intExp y
  · have a : (intExp x - intExp y).toNat = 0 := by omega
    have b : min (intExp x) (intExp y) = intExp x := by omega
    simp only [h1, if_true, a, b, Nat.pow_zero, Nat.mul_one]
  · by_cases h2 : intExp x > intExp y
    · have a : (intExp y - intExp x).toNat = 0 := by omega
      have b : min (intExp x) (intExp y) = intExp y := by omega
      simp only [h1, h2, if_true, if_false, a, b, Nat.pow_zero, Nat.mul_one]
    · have a : (intExp y - intExp x).toNat = 0 := by omega
      have a' : (intExp x - intExp y).toNat = 0 := by omega
      have b : min (intExp x) (intExp y) = intExp x := by omega
      simp only [h1, h2, if_false, a, a', b, Nat.pow_zero, Nat.mul_one]

theorem usub_eq (z x y : Dec) :
    usub z x y =
      if alignL x y - alignL y x = 0 then { z with acc := Exact, form := .zero, neg := false }
      else setNormAndRound z (alignL x y - alignL y x) (min (intExp x) (intExp y)) false := by
  unfold usub alignL
  simp only
  by_cases h1 : intExp x < intExp y
  · have a : (intExp x - intExp y).toNat = 0 := by omega
    have b : min (intExp x) (intExp y) = intExp x := by omega
    simp only [h1, if_true, a, b, Nat.pow_zero, Nat.mul_one, beq_iff_eq]
  · by_cases h2 : intExp x > intExp y
    · have a : (intExp y - intExp x).toNat = 0 := by omega
      have b : min (intExp x) (intExp y) = intExp y := by omega
      simp only [h1, h2, if_true, if_false, a, b, Nat.pow_zero, Nat.mul_one, beq_iff_eq]
    · have a : (intExp y - intExp x).toNat = 0 := by omega
      have a' : (intExp x - intExp y).toNat = 0 := by omega
      have b : min (intExp x) (intExp y) = intExp x := by omega
      simp only [h1, h2, if_false, a, a', b, Nat.pow_zero, Nat.mul_one, beq_iff_eq]

theorem usubGuard_eq (x y : Dec) : usubGuard x y = decide (alignL y x ≤ alignL x y) := by
  unfold usubGuard alignL
  simp only
  by_cases h1 : intExp x < intExp y
  · have a : (intExp x - intExp y).toNat = 0 := by omega
    simp only [h1, if_true, a, Nat.pow_zero, Nat.mul_one]
  · by_cases h2 : intExp x > intExp y
    · have a : (intExp y - intExp x).toNat = 0 := by omega
      simp only [h1, h2, if_true, if_false, a, Nat.pow_zero, Nat.mul_one]
    · have a : (intExp y - intExp x).toNat = 0 := by omega
      have a' : (intExp x - intExp y).toNat = 0 := by omega
      simp only [h1, h2, if_false, a, a', Nat.pow_zero, Nat.mul_one]

/-! ### `ucmp` compares the aligned mantissas -/

/-- Fewer digits, smaller number. -/
theorem lt_of_ndigits_lt {a b : Nat} (h : ndigits a < ndigits b) : a < b := by
  rcases Nat.lt_or_ge a b with hlt | hge
  · exact hlt
  · have := ndigits_mono hge
    omega

theorem ucmp_spec_a {x y : Dec} (hx : FinCanon x) (hy : FinCanon y) :
    (ucmp x y = 1 ∧ alignL y x < alignL x y) ∨
    (ucmp x y = -1 ∧ alignL x y < alignL y x) ∨
    (ucmp x y = 0 ∧ alignL x y = alignL y x) := by
  have nx := ndigits_alignL hx y
  have ny := ndigits_alignL hy x
  have ex := intExp_eq x
  have ey := intExp_eq y
  unfold ucmp
  by_cases h1 : x.exp < y.exp
  · right; left
    refine ⟨by simp only [h1, if_true], lt_of_ndigits_lt ?_⟩
    omega
  by_cases h2 : x.exp > y.exp
  · left
    refine ⟨by simp only [h1, h2, if_true, if_false], lt_of_ndigits_lt ?_⟩
    omega
  -- equal exponents: the padded-word comparison is the aligned comparison
  have hX : alignL x y = x.mant * B ^ (y.len - x.len) := by
    unfold alignL; rw [B_pow]; congr 2; omega
  have hY : alignL y x = y.mant * B ^ (x.len - y.len) := by
    unfold alignL; rw [B_pow]; congr 2; omega
  simp only [h1, h2, if_false, ← hX, ← hY]
  rcases Nat.lt_trichotomy (alignL x y) (alignL y x) with h | h | h
  · right; left; exact ⟨by simp only [h, if_true], h⟩
  · right; right
    refine ⟨?_, h⟩
    have a : ¬ alignL x y < alignL y x := by omega
    have b : ¬ alignL x y > alignL y x := by omega
    simp only [a, b, if_false]
  · left
    have a : ¬ alignL x y < alignL y x := by omega
    exact ⟨by simp only [a, h, if_true, if_false], h⟩

theorem ucmp_pos_iff {x y : Dec} (hx : FinCanon x) (hy : FinCanon y) :
    ucmp x y > 0 ↔ alignL y x < alignL x y := by
  rcases ucmp_spec_a hx hy with ⟨h, h'⟩ | ⟨h, h'⟩ | ⟨h, h'⟩ <;> rw [h] <;> omega

theorem ucmp_neg_iff {x y : Dec} (hx : FinCanon x) (hy : FinCanon y) :
    ucmp x y < 0 ↔ alignL x y < alignL y x := by
  rcases ucmp_spec_a hx hy with ⟨h, h'⟩ | ⟨h, h'⟩ | ⟨h, h'⟩ <;> rw [h] <;> omega

theorem ucmp_zero_iff {x y : Dec} (hx : FinCanon x) (hy : FinCanon y) :
    ucmp x y = 0 ↔ alignL x y = alignL y x := by
  rcases ucmp_spec_a hx hy with ⟨h, h'⟩ | ⟨h, h'⟩ | ⟨h, h'⟩ <;> rw [h] <;> omega

/-- `dec.sub` cannot panic in `Add`/`Sub`: the operands are ordered by `ucmp` first. -/
theorem usubGuard_of_ucmp_pos {x y : Dec} (hx : FinCanon x) (hy : FinCanon y)
    (h : ucmp x y > 0) : usubGuard x y = true := by
  rw [usubGuard_eq, decide_eq_true_eq]
  exact Nat.le_of_lt ((ucmp_pos_iff hx hy).mp h)

theorem usubGuard_of_ucmp_not_pos {x y : Dec} (hx : FinCanon x) (hy : FinCanon y)
    (h : ¬ ucmp x y > 0) : usubGuard y x = true := by
  rw [usubGuard_eq, decide_eq_true_eq]
  have := ucmp_pos_iff hx hy
  omega

end Decimal
