/-
  C07, assembly side, Tier B: block lemmas for the loop routines of dec_arith_amd64.s, stated over
  the blocks REGENERATED from the assembly (`DecimalModel/Gen/Asm.lean`).

  For every loop body: the block maps (carry encoding in a register, words loaded from memory) to
  (word stored, carry encoding) exactly as the corresponding regenerated Go word step does
  (`add10WWW_g`, `sub10WWW_g`, `div10W_g ∘ mulAddWWW_g`, `div10WW_g`, `magic_div`), for all word
  values below 10^19; the 4×-unrolled bodies equal four steps.  Each lemma also gives the loop
  bookkeeping (index, count, successor block) and the frame (registers and memory left alone),
  which is what the whole-routine inductions of Proofs/AsmLoops.lean consume.
-/
import Proofs.AsmLemmas
import DecimalModel.Gen.Asm

namespace Decimal.Asm

open Decimal.Gen (W W_eq add10WWW_g sub10WWW_g land_allones Magic magic_div)
open Decimal.Gen.Asm

/-! ## add10VV -/

/-- entry: loads the arguments, clears carry and index, and enters the unrolled loop iff `n ≥ 4` -/
theorem blk_add10VV_entry_spec (s : St) (n : Nat) (hn : s.frame.rd 8 = n) (hn63 : n < 9223372036854775808) :
    (blk_add10VV_entry s).1.cx = mask 0 ∧ (blk_add10VV_entry s).1.dx = 9999999999999999999 ∧
    (blk_add10VV_entry s).1.si = 0 ∧ (blk_add10VV_entry s).1.r8 = s.frame.rd 24 ∧
    (blk_add10VV_entry s).1.r9 = s.frame.rd 48 ∧ (blk_add10VV_entry s).1.r10 = s.frame.rd 0 ∧
    (blk_add10VV_entry s).1.mem = s.mem ∧ (blk_add10VV_entry s).1.frame = s.frame ∧
    (blk_add10VV_entry s).1.trap = s.trap ∧
    (blk_add10VV_entry s).1.di = (if n < 4 then 18446744073709551616 - 4 + n else n - 4) ∧
    (blk_add10VV_entry s).2 = (if n < 4 then Next.goto Lbl.add10VV_V1 else Next.goto Lbl.add10VV_U1) := by
  have hr : (W - 4 + n) % W < 18446744073709551616 ∧
      ((W - 4 + n) % W + 4 = n ∨ (W - 4 + n) % W + 4 = n + 18446744073709551616) := by
    simp only [W_eq]; omega
  refine ⟨?_, ?_, ?_, ?_, ?_, ?_, ?_, ?_, ?_, ?_, ?_⟩
  all_goals simp only [blk_add10VV_entry, hn, mask_zero]
  · simp only [W_eq]; split <;> omega
  · rw [jl_sub n 4 _ hn63 (by omega) hr]
    simp only [decide_eq_true_eq]

/-- V1: `n += 4`; the remaining count `m < 4` decides between the single-step loop and the exit -/
theorem blk_add10VV_V1_spec (s : St) (m : Nat) (hm : m < 4) (hdi : s.di = 18446744073709551616 - 4 + m) :
    (blk_add10VV_V1 s).1.cx = s.cx ∧ (blk_add10VV_V1 s).1.dx = s.dx ∧
    (blk_add10VV_V1 s).1.si = s.si ∧ (blk_add10VV_V1 s).1.r8 = s.r8 ∧
    (blk_add10VV_V1 s).1.r9 = s.r9 ∧ (blk_add10VV_V1 s).1.r10 = s.r10 ∧
    (blk_add10VV_V1 s).1.mem = s.mem ∧ (blk_add10VV_V1 s).1.frame = s.frame ∧
    (blk_add10VV_V1 s).1.trap = s.trap ∧ (blk_add10VV_V1 s).1.di = m ∧
    (blk_add10VV_V1 s).2 = (if m = 0 then Next.goto Lbl.add10VV_E1 else Next.goto Lbl.add10VV_L1) := by
  refine ⟨?_, ?_, ?_, ?_, ?_, ?_, ?_, ?_, ?_, ?_, ?_⟩
  all_goals simp only [blk_add10VV_V1, hdi]
  · simp only [W_eq]; omega
  · rw [jle_add_neg _ 4 _ (by omega) (by omega) (by omega) (by simp only [W_eq]; omega)]
    simp only [decide_eq_true_eq]
    by_cases h0 : m = 0
    · simp only [h0, if_true]; rfl
    · rw [if_neg (by omega), if_neg h0]

/-- L1, the single-step loop body: one `add10WWW_g` step on the words at index `si`, carry kept as a
    mask in CX. -/
theorem blk_add10VV_L1_spec (s : St) (c x y : Nat) (hc : c ≤ 1) (hcx : s.cx = mask c)
    (hdx : s.dx = 9999999999999999999)
    (hx : s.mem.rd ((s.r8 + 8 * s.si) % W) = x) (hy : s.mem.rd ((s.r9 + 8 * s.si) % W) = y)
    (hxb : x < 10000000000000000000) (hyb : y < 10000000000000000000)
    (hdi0 : 0 < s.di) (hdi : s.di < 9223372036854775808) (hsi : s.si < 9223372036854775808) :
    (blk_add10VV_L1 s).1.cx = mask (add10WWW_g x y c).2 ∧
    (blk_add10VV_L1 s).1.mem = s.mem.wr ((s.r10 + 8 * s.si) % W) (add10WWW_g x y c).1 ∧
    (blk_add10VV_L1 s).1.dx = s.dx ∧ (blk_add10VV_L1 s).1.si = s.si + 1 ∧
    (blk_add10VV_L1 s).1.di = s.di - 1 ∧ (blk_add10VV_L1 s).1.r8 = s.r8 ∧
    (blk_add10VV_L1 s).1.r9 = s.r9 ∧ (blk_add10VV_L1 s).1.r10 = s.r10 ∧
    (blk_add10VV_L1 s).1.frame = s.frame ∧ (blk_add10VV_L1 s).1.trap = s.trap ∧
    (blk_add10VV_L1 s).2 = (if 1 < s.di then Next.goto Lbl.add10VV_L1 else Next.goto Lbl.add10VV_E1) := by
  have hstep := addStep_spec s.bx x y c hc hxb hyb
  rw [add10WWW_g_eq x y c hxb hyb hc]
  have e1 : (blk_add10VV_L1 s).1.cx =
      (addStep s.dx s.cx s.bx (s.mem.rd ((s.r8 + 8 * s.si) % W)) (s.mem.rd ((s.r9 + 8 * s.si) % W))).2.1 := by
    simp only [blk_add10VV_L1, addStep]
  have e2 : (blk_add10VV_L1 s).1.mem = s.mem.wr ((s.r10 + 8 * s.si) % W)
      (addStep s.dx s.cx s.bx (s.mem.rd ((s.r8 + 8 * s.si) % W)) (s.mem.rd ((s.r9 + 8 * s.si) % W))).1 := by
    simp only [blk_add10VV_L1, addStep]
  refine ⟨?_, ?_, ?_, ?_, ?_, ?_, ?_, ?_, ?_, ?_, ?_⟩
  · rw [e1, hx, hy, hcx, hdx, hstep.2]
  · rw [e2, hx, hy, hcx, hdx, hstep.1]
  all_goals simp only [blk_add10VV_L1]
  · simp only [W_eq]; omega
  · simp only [W_eq]; omega
  · rw [jg_sub s.di 1 _ hdi (by omega) (by simp only [W_eq]; omega)]
    simp only [decide_eq_true_eq]

/-- E1: the carry mask is turned into 0/1 and returned -/
theorem blk_add10VV_E1_spec (s : St) (c : Nat) (hc : c ≤ 1) (hcx : s.cx = mask c) :
    (blk_add10VV_E1 s).1.frame = s.frame.wr 72 c ∧ (blk_add10VV_E1 s).1.mem = s.mem ∧
    (blk_add10VV_E1 s).1.trap = s.trap ∧ (blk_add10VV_E1 s).2 = Next.ret := by
  refine ⟨?_, ?_, ?_, ?_⟩
  all_goals simp only [blk_add10VV_E1, hcx]
  have hcc : c = 0 ∨ c = 1 := by omega
  rcases hcc with rfl | rfl
  · rfl
  · rfl

/-- U1 is four `addStep`s chained through CX (and BX), reading all `x` words first -/
theorem blk_add10VV_U1_steps (s : St) :
    let a0 := addStep s.dx s.cx s.bx (s.mem.rd ((s.r8 + 8 * s.si) % W)) (s.mem.rd ((s.r9 + 8 * s.si) % W))
    let a1 := addStep s.dx a0.2.1 a0.2.2 (s.mem.rd ((s.r8 + 8 * s.si + 8) % W)) (s.mem.rd ((s.r9 + 8 * s.si + 8) % W))
    let a2 := addStep s.dx a1.2.1 a1.2.2 (s.mem.rd ((s.r8 + 8 * s.si + 16) % W)) (s.mem.rd ((s.r9 + 8 * s.si + 16) % W))
    let a3 := addStep s.dx a2.2.1 a2.2.2 (s.mem.rd ((s.r8 + 8 * s.si + 24) % W)) (s.mem.rd ((s.r9 + 8 * s.si + 24) % W))
    (blk_add10VV_U1 s).1.cx = a3.2.1 ∧
    (blk_add10VV_U1 s).1.mem =
      (((s.mem.wr ((s.r10 + 8 * s.si) % W) a0.1).wr ((s.r10 + 8 * s.si + 8) % W) a1.1).wr
        ((s.r10 + 8 * s.si + 16) % W) a2.1).wr ((s.r10 + 8 * s.si + 24) % W) a3.1 := by
  intro a0 a1 a2 a3
  constructor
  · simp only [blk_add10VV_U1, a3, a2, a1, a0, addStep] <;> rfl
  · simp only [blk_add10VV_U1, a3, a2, a1, a0, addStep] <;> rfl

/-- U1, the 4×-unrolled loop body: four `add10WWW_g` steps on the words at `si … si+3` -/
theorem blk_add10VV_U1_spec (s : St) (c x0 x1 x2 x3 y0 y1 y2 y3 : Nat) (hc : c ≤ 1) (hcx : s.cx = mask c)
    (hdx : s.dx = 9999999999999999999)
    (hx0 : s.mem.rd ((s.r8 + 8 * s.si) % W) = x0) (hy0 : s.mem.rd ((s.r9 + 8 * s.si) % W) = y0)
    (hx1 : s.mem.rd ((s.r8 + 8 * s.si + 8) % W) = x1) (hy1 : s.mem.rd ((s.r9 + 8 * s.si + 8) % W) = y1)
    (hx2 : s.mem.rd ((s.r8 + 8 * s.si + 16) % W) = x2) (hy2 : s.mem.rd ((s.r9 + 8 * s.si + 16) % W) = y2)
    (hx3 : s.mem.rd ((s.r8 + 8 * s.si + 24) % W) = x3) (hy3 : s.mem.rd ((s.r9 + 8 * s.si + 24) % W) = y3)
    (bx0 : x0 < 10000000000000000000) (by0 : y0 < 10000000000000000000)
    (bx1 : x1 < 10000000000000000000) (by1 : y1 < 10000000000000000000)
    (bx2 : x2 < 10000000000000000000) (by2 : y2 < 10000000000000000000)
    (bx3 : x3 < 10000000000000000000) (by3 : y3 < 10000000000000000000)
    (hdi : s.di < 9223372036854775808) (hsi : s.si < 9223372036854775808) :
    let r0 := add10WWW_g x0 y0 c
    let r1 := add10WWW_g x1 y1 r0.2
    let r2 := add10WWW_g x2 y2 r1.2
    let r3 := add10WWW_g x3 y3 r2.2
    (blk_add10VV_U1 s).1.cx = mask r3.2 ∧
    (blk_add10VV_U1 s).1.mem =
      (((s.mem.wr ((s.r10 + 8 * s.si) % W) r0.1).wr ((s.r10 + 8 * s.si + 8) % W) r1.1).wr
        ((s.r10 + 8 * s.si + 16) % W) r2.1).wr ((s.r10 + 8 * s.si + 24) % W) r3.1 ∧
    (blk_add10VV_U1 s).1.dx = s.dx ∧ (blk_add10VV_U1 s).1.si = s.si + 4 ∧
    (blk_add10VV_U1 s).1.di = (if 4 ≤ s.di then s.di - 4 else 18446744073709551616 - 4 + s.di) ∧
    (blk_add10VV_U1 s).1.r8 = s.r8 ∧ (blk_add10VV_U1 s).1.r9 = s.r9 ∧ (blk_add10VV_U1 s).1.r10 = s.r10 ∧
    (blk_add10VV_U1 s).1.frame = s.frame ∧ (blk_add10VV_U1 s).1.trap = s.trap ∧
    (blk_add10VV_U1 s).2 = (if 4 ≤ s.di then Next.goto Lbl.add10VV_U1 else Next.goto Lbl.add10VV_V1) := by
  intro r0 r1 r2 r3
  have hsteps := blk_add10VV_U1_steps s
  simp only [hx0, hx1, hx2, hx3, hy0, hy1, hy2, hy3, hcx, hdx] at hsteps
  -- carries stay 0/1 and the Go steps are the mathematical ones
  have q0 : r0 = ((x0 + y0 + c) % 10000000000000000000, (x0 + y0 + c) / 10000000000000000000) :=
    add10WWW_g_eq x0 y0 c bx0 by0 hc
  have c0 : r0.2 ≤ 1 := by rw [q0]; show (x0 + y0 + c) / 10000000000000000000 ≤ 1; omega
  have q1 : r1 = ((x1 + y1 + r0.2) % 10000000000000000000, (x1 + y1 + r0.2) / 10000000000000000000) :=
    add10WWW_g_eq x1 y1 r0.2 bx1 by1 c0
  have c1 : r1.2 ≤ 1 := by rw [q1]; show (x1 + y1 + r0.2) / 10000000000000000000 ≤ 1; omega
  have q2 : r2 = ((x2 + y2 + r1.2) % 10000000000000000000, (x2 + y2 + r1.2) / 10000000000000000000) :=
    add10WWW_g_eq x2 y2 r1.2 bx2 by2 c1
  have c2 : r2.2 ≤ 1 := by rw [q2]; show (x2 + y2 + r1.2) / 10000000000000000000 ≤ 1; omega
  have q3 : r3 = ((x3 + y3 + r2.2) % 10000000000000000000, (x3 + y3 + r2.2) / 10000000000000000000) :=
    add10WWW_g_eq x3 y3 r2.2 bx3 by3 c2
  -- the four assembly steps
  have s0 := addStep_spec s.bx x0 y0 c hc bx0 by0
  have e0a : r0.1 = (x0 + y0 + c) % 10000000000000000000 := congrArg Prod.fst q0
  have e0b : r0.2 = (x0 + y0 + c) / 10000000000000000000 := congrArg Prod.snd q0
  rw [← e0a, ← e0b] at s0
  generalize addStep 9999999999999999999 (mask c) s.bx x0 y0 = a0 at hsteps s0
  have s1 := addStep_spec a0.2.2 x1 y1 r0.2 c0 bx1 by1
  have e1a : r1.1 = (x1 + y1 + r0.2) % 10000000000000000000 := congrArg Prod.fst q1
  have e1b : r1.2 = (x1 + y1 + r0.2) / 10000000000000000000 := congrArg Prod.snd q1
  rw [← e1a, ← e1b, ← s0.2] at s1
  generalize addStep 9999999999999999999 a0.2.1 a0.2.2 x1 y1 = a1 at hsteps s1
  have s2 := addStep_spec a1.2.2 x2 y2 r1.2 c1 bx2 by2
  have e2a : r2.1 = (x2 + y2 + r1.2) % 10000000000000000000 := congrArg Prod.fst q2
  have e2b : r2.2 = (x2 + y2 + r1.2) / 10000000000000000000 := congrArg Prod.snd q2
  rw [← e2a, ← e2b, ← s1.2] at s2
  generalize addStep 9999999999999999999 a1.2.1 a1.2.2 x2 y2 = a2 at hsteps s2
  have s3 := addStep_spec a2.2.2 x3 y3 r2.2 c2 bx3 by3
  have e3a : r3.1 = (x3 + y3 + r2.2) % 10000000000000000000 := congrArg Prod.fst q3
  have e3b : r3.2 = (x3 + y3 + r2.2) / 10000000000000000000 := congrArg Prod.snd q3
  rw [← e3a, ← e3b, ← s2.2] at s3
  generalize addStep 9999999999999999999 a2.2.1 a2.2.2 x3 y3 = a3 at hsteps s3
  refine ⟨?_, ?_, ?_, ?_, ?_, ?_, ?_, ?_, ?_, ?_, ?_⟩
  · rw [hsteps.1, s3.2]
  · rw [hsteps.2, s0.1, s1.1, s2.1, s3.1]
  all_goals simp only [blk_add10VV_U1]
  · simp only [W_eq]; omega
  · simp only [W_eq]; split <;> omega
  · rw [jge_sub s.di 4 _ hdi (by omega) (by simp only [W_eq]; omega)]
    simp only [decide_eq_true_eq]

/-! ## sub10VV -/

theorem blk_sub10VV_entry_spec (s : St) (n : Nat) (hn : s.frame.rd 8 = n) (hn63 : n < 9223372036854775808) :
    (blk_sub10VV_entry s).1.cx = mask 0 ∧ (blk_sub10VV_entry s).1.dx = 10000000000000000000 ∧
    (blk_sub10VV_entry s).1.si = 0 ∧ (blk_sub10VV_entry s).1.r8 = s.frame.rd 24 ∧
    (blk_sub10VV_entry s).1.r9 = s.frame.rd 48 ∧ (blk_sub10VV_entry s).1.r10 = s.frame.rd 0 ∧
    (blk_sub10VV_entry s).1.mem = s.mem ∧ (blk_sub10VV_entry s).1.frame = s.frame ∧
    (blk_sub10VV_entry s).1.trap = s.trap ∧
    (blk_sub10VV_entry s).1.di = (if n < 4 then 18446744073709551616 - 4 + n else n - 4) ∧
    (blk_sub10VV_entry s).2 = (if n < 4 then Next.goto Lbl.sub10VV_V2 else Next.goto Lbl.sub10VV_U2) := by
  have hr : (W - 4 + n) % W < 18446744073709551616 ∧
      ((W - 4 + n) % W + 4 = n ∨ (W - 4 + n) % W + 4 = n + 18446744073709551616) := by
    simp only [W_eq]; omega
  refine ⟨?_, ?_, ?_, ?_, ?_, ?_, ?_, ?_, ?_, ?_, ?_⟩
  all_goals simp only [blk_sub10VV_entry, hn, mask_zero]
  · simp only [W_eq]; split <;> omega
  · rw [jl_sub n 4 _ hn63 (by omega) hr]
    simp only [decide_eq_true_eq]

theorem blk_sub10VV_V2_spec (s : St) (m : Nat) (hm : m < 4) (hdi : s.di = 18446744073709551616 - 4 + m) :
    (blk_sub10VV_V2 s).1.cx = s.cx ∧ (blk_sub10VV_V2 s).1.dx = s.dx ∧
    (blk_sub10VV_V2 s).1.si = s.si ∧ (blk_sub10VV_V2 s).1.r8 = s.r8 ∧
    (blk_sub10VV_V2 s).1.r9 = s.r9 ∧ (blk_sub10VV_V2 s).1.r10 = s.r10 ∧
    (blk_sub10VV_V2 s).1.mem = s.mem ∧ (blk_sub10VV_V2 s).1.frame = s.frame ∧
    (blk_sub10VV_V2 s).1.trap = s.trap ∧ (blk_sub10VV_V2 s).1.di = m ∧
    (blk_sub10VV_V2 s).2 = (if m = 0 then Next.goto Lbl.sub10VV_E2 else Next.goto Lbl.sub10VV_L2) := by
  refine ⟨?_, ?_, ?_, ?_, ?_, ?_, ?_, ?_, ?_, ?_, ?_⟩
  all_goals simp only [blk_sub10VV_V2, hdi]
  · simp only [W_eq]; omega
  · rw [jle_add_neg _ 4 _ (by omega) (by omega) (by omega) (by simp only [W_eq]; omega)]
    simp only [decide_eq_true_eq]
    by_cases h0 : m = 0
    · simp only [h0, if_true]; rfl
    · rw [if_neg (by omega), if_neg h0]

/-- L2, the single-step loop body: one `sub10WWW_g` step, borrow kept as a mask in CX -/
theorem blk_sub10VV_L2_spec (s : St) (b x y : Nat) (hb : b ≤ 1) (hcx : s.cx = mask b)
    (hdx : s.dx = 10000000000000000000)
    (hx : s.mem.rd ((s.r8 + 8 * s.si) % W) = x) (hy : s.mem.rd ((s.r9 + 8 * s.si) % W) = y)
    (hxb : x < 10000000000000000000) (hyb : y < 10000000000000000000)
    (hdi0 : 0 < s.di) (hdi : s.di < 9223372036854775808) (hsi : s.si < 9223372036854775808) :
    (blk_sub10VV_L2 s).1.cx = mask (sub10WWW_g x y b).2 ∧
    (blk_sub10VV_L2 s).1.mem = s.mem.wr ((s.r10 + 8 * s.si) % W) (sub10WWW_g x y b).1 ∧
    (blk_sub10VV_L2 s).1.dx = s.dx ∧ (blk_sub10VV_L2 s).1.si = s.si + 1 ∧
    (blk_sub10VV_L2 s).1.di = s.di - 1 ∧ (blk_sub10VV_L2 s).1.r8 = s.r8 ∧
    (blk_sub10VV_L2 s).1.r9 = s.r9 ∧ (blk_sub10VV_L2 s).1.r10 = s.r10 ∧
    (blk_sub10VV_L2 s).1.frame = s.frame ∧ (blk_sub10VV_L2 s).1.trap = s.trap ∧
    (blk_sub10VV_L2 s).2 = (if 1 < s.di then Next.goto Lbl.sub10VV_L2 else Next.goto Lbl.sub10VV_E2) := by
  have hstep := subStep_spec x y b hb hxb hyb
  rw [sub10WWW_g_eq x y b hxb hyb hb]
  have e1 : (blk_sub10VV_L2 s).1.cx =
      (subStep s.dx s.cx (s.mem.rd ((s.r8 + 8 * s.si) % W)) (s.mem.rd ((s.r9 + 8 * s.si) % W))).2 := by
    simp only [blk_sub10VV_L2, subStep]
  have e2 : (blk_sub10VV_L2 s).1.mem = s.mem.wr ((s.r10 + 8 * s.si) % W)
      (subStep s.dx s.cx (s.mem.rd ((s.r8 + 8 * s.si) % W)) (s.mem.rd ((s.r9 + 8 * s.si) % W))).1 := by
    simp only [blk_sub10VV_L2, subStep]
  refine ⟨?_, ?_, ?_, ?_, ?_, ?_, ?_, ?_, ?_, ?_, ?_⟩
  · rw [e1, hx, hy, hcx, hdx, hstep]
  · rw [e2, hx, hy, hcx, hdx, hstep]
  all_goals simp only [blk_sub10VV_L2]
  · simp only [W_eq]; omega
  · simp only [W_eq]; omega
  · rw [jg_sub s.di 1 _ hdi (by omega) (by simp only [W_eq]; omega)]
    simp only [decide_eq_true_eq]

theorem blk_sub10VV_E2_spec (s : St) (c : Nat) (hc : c ≤ 1) (hcx : s.cx = mask c) :
    (blk_sub10VV_E2 s).1.frame = s.frame.wr 72 c ∧ (blk_sub10VV_E2 s).1.mem = s.mem ∧
    (blk_sub10VV_E2 s).1.trap = s.trap ∧ (blk_sub10VV_E2 s).2 = Next.ret := by
  refine ⟨?_, ?_, ?_, ?_⟩
  all_goals simp only [blk_sub10VV_E2, hcx]
  have hcc : c = 0 ∨ c = 1 := by omega
  rcases hcc with rfl | rfl
  · rfl
  · rfl

/-- U2 is four `subStep`s chained through CX, reading all `x` words first -/
theorem blk_sub10VV_U2_steps (s : St) :
    let a0 := subStep s.dx s.cx (s.mem.rd ((s.r8 + 8 * s.si) % W)) (s.mem.rd ((s.r9 + 8 * s.si) % W))
    let a1 := subStep s.dx a0.2 (s.mem.rd ((s.r8 + 8 * s.si + 8) % W)) (s.mem.rd ((s.r9 + 8 * s.si + 8) % W))
    let a2 := subStep s.dx a1.2 (s.mem.rd ((s.r8 + 8 * s.si + 16) % W)) (s.mem.rd ((s.r9 + 8 * s.si + 16) % W))
    let a3 := subStep s.dx a2.2 (s.mem.rd ((s.r8 + 8 * s.si + 24) % W)) (s.mem.rd ((s.r9 + 8 * s.si + 24) % W))
    (blk_sub10VV_U2 s).1.cx = a3.2 ∧
    (blk_sub10VV_U2 s).1.mem =
      (((s.mem.wr ((s.r10 + 8 * s.si) % W) a0.1).wr ((s.r10 + 8 * s.si + 8) % W) a1.1).wr
        ((s.r10 + 8 * s.si + 16) % W) a2.1).wr ((s.r10 + 8 * s.si + 24) % W) a3.1 := by
  intro a0 a1 a2 a3
  constructor
  · simp only [blk_sub10VV_U2, a3, a2, a1, a0, subStep] <;> rfl
  · simp only [blk_sub10VV_U2, a3, a2, a1, a0, subStep] <;> rfl

/-- U2, the 4×-unrolled loop body: four `sub10WWW_g` steps on the words at `si … si+3` -/
theorem blk_sub10VV_U2_spec (s : St) (b x0 x1 x2 x3 y0 y1 y2 y3 : Nat) (hb : b ≤ 1) (hcx : s.cx = mask b)
    (hdx : s.dx = 10000000000000000000)
    (hx0 : s.mem.rd ((s.r8 + 8 * s.si) % W) = x0) (hy0 : s.mem.rd ((s.r9 + 8 * s.si) % W) = y0)
    (hx1 : s.mem.rd ((s.r8 + 8 * s.si + 8) % W) = x1) (hy1 : s.mem.rd ((s.r9 + 8 * s.si + 8) % W) = y1)
    (hx2 : s.mem.rd ((s.r8 + 8 * s.si + 16) % W) = x2) (hy2 : s.mem.rd ((s.r9 + 8 * s.si + 16) % W) = y2)
    (hx3 : s.mem.rd ((s.r8 + 8 * s.si + 24) % W) = x3) (hy3 : s.mem.rd ((s.r9 + 8 * s.si + 24) % W) = y3)
    (bx0 : x0 < 10000000000000000000) (by0 : y0 < 10000000000000000000)
    (bx1 : x1 < 10000000000000000000) (by1 : y1 < 10000000000000000000)
    (bx2 : x2 < 10000000000000000000) (by2 : y2 < 10000000000000000000)
    (bx3 : x3 < 10000000000000000000) (by3 : y3 < 10000000000000000000)
    (hdi : s.di < 9223372036854775808) (hsi : s.si < 9223372036854775808) :
    let r0 := sub10WWW_g x0 y0 b
    let r1 := sub10WWW_g x1 y1 r0.2
    let r2 := sub10WWW_g x2 y2 r1.2
    let r3 := sub10WWW_g x3 y3 r2.2
    (blk_sub10VV_U2 s).1.cx = mask r3.2 ∧
    (blk_sub10VV_U2 s).1.mem =
      (((s.mem.wr ((s.r10 + 8 * s.si) % W) r0.1).wr ((s.r10 + 8 * s.si + 8) % W) r1.1).wr
        ((s.r10 + 8 * s.si + 16) % W) r2.1).wr ((s.r10 + 8 * s.si + 24) % W) r3.1 ∧
    (blk_sub10VV_U2 s).1.dx = s.dx ∧ (blk_sub10VV_U2 s).1.si = s.si + 4 ∧
    (blk_sub10VV_U2 s).1.di = (if 4 ≤ s.di then s.di - 4 else 18446744073709551616 - 4 + s.di) ∧
    (blk_sub10VV_U2 s).1.r8 = s.r8 ∧ (blk_sub10VV_U2 s).1.r9 = s.r9 ∧ (blk_sub10VV_U2 s).1.r10 = s.r10 ∧
    (blk_sub10VV_U2 s).1.frame = s.frame ∧ (blk_sub10VV_U2 s).1.trap = s.trap ∧
    (blk_sub10VV_U2 s).2 = (if 4 ≤ s.di then Next.goto Lbl.sub10VV_U2 else Next.goto Lbl.sub10VV_V2) := by
  intro r0 r1 r2 r3
  have hsteps := blk_sub10VV_U2_steps s
  simp only [hx0, hx1, hx2, hx3, hy0, hy1, hy2, hy3, hcx, hdx] at hsteps
  have q0 : r0 = _ := sub10WWW_g_eq x0 y0 b bx0 by0 hb
  have c0 : r0.2 ≤ 1 := by rw [q0]; show (if x0 < y0 + b then 1 else 0) ≤ 1; split <;> omega
  have q1 : r1 = _ := sub10WWW_g_eq x1 y1 r0.2 bx1 by1 c0
  have c1 : r1.2 ≤ 1 := by rw [q1]; show (if x1 < y1 + r0.2 then 1 else 0) ≤ 1; split <;> omega
  have q2 : r2 = _ := sub10WWW_g_eq x2 y2 r1.2 bx2 by2 c1
  have c2 : r2.2 ≤ 1 := by rw [q2]; show (if x2 < y2 + r1.2 then 1 else 0) ≤ 1; split <;> omega
  have q3 : r3 = _ := sub10WWW_g_eq x3 y3 r2.2 bx3 by3 c2
  have s0 := subStep_spec x0 y0 b hb bx0 by0
  have e0a : r0.1 = (if x0 < y0 + b then x0 + 10000000000000000000 - y0 - b else x0 - y0 - b) := congrArg Prod.fst q0
  have e0b : r0.2 = (if x0 < y0 + b then 1 else 0) := congrArg Prod.snd q0
  rw [← e0a, ← e0b] at s0
  have s1 := subStep_spec x1 y1 r0.2 c0 bx1 by1
  have e1a : r1.1 = (if x1 < y1 + r0.2 then x1 + 10000000000000000000 - y1 - r0.2 else x1 - y1 - r0.2) := congrArg Prod.fst q1
  have e1b : r1.2 = (if x1 < y1 + r0.2 then 1 else 0) := congrArg Prod.snd q1
  rw [← e1a, ← e1b] at s1
  have s2 := subStep_spec x2 y2 r1.2 c1 bx2 by2
  have e2a : r2.1 = (if x2 < y2 + r1.2 then x2 + 10000000000000000000 - y2 - r1.2 else x2 - y2 - r1.2) := congrArg Prod.fst q2
  have e2b : r2.2 = (if x2 < y2 + r1.2 then 1 else 0) := congrArg Prod.snd q2
  rw [← e2a, ← e2b] at s2
  have s3 := subStep_spec x3 y3 r2.2 c2 bx3 by3
  have e3a : r3.1 = (if x3 < y3 + r2.2 then x3 + 10000000000000000000 - y3 - r2.2 else x3 - y3 - r2.2) := congrArg Prod.fst q3
  have e3b : r3.2 = (if x3 < y3 + r2.2 then 1 else 0) := congrArg Prod.snd q3
  rw [← e3a, ← e3b] at s3
  rw [s0] at hsteps
  simp only [] at hsteps
  rw [s1] at hsteps
  simp only [] at hsteps
  rw [s2] at hsteps
  simp only [] at hsteps
  rw [s3] at hsteps
  simp only [] at hsteps
  clear_value r3 r2 r1 r0
  refine ⟨hsteps.1, hsteps.2, ?_, ?_, ?_, ?_, ?_, ?_, ?_, ?_, ?_⟩
  all_goals simp only [blk_sub10VV_U2]
  · simp only [W_eq]; omega
  · simp only [W_eq]; split <;> omega
  · rw [jge_sub s.di 4 _ hdi (by omega) (by simp only [W_eq]; omega)]
    simp only [decide_eq_true_eq]

/-! ## mulAdd10VWW -/

open Decimal.Gen (mulAddWWW_g div10W_g mulAddWWW_g_eq div10W_g_spec div10WW_g div10WW_g_spec) in
/-- the Go word step of `mulAdd10VWW_g`/`addMul10VVW_g`: `div10W_g(mulAddWWW_g(x, y, c))` is
    `(x*y+c) divmod 10^19` -/
theorem go_mulAdd_step (x y c : Nat) (hx : x < 10000000000000000000) (hy : y < 10000000000000000000)
    (hc : c < 18446744073709551616) (hn : x * y + c < 10000000000000000000 * 10000000000000000000) :
    div10W_g (mulAddWWW_g x y c).1 (mulAddWWW_g x y c).2 =
      ((x * y + c) / 10000000000000000000, (x * y + c) % 10000000000000000000) := by
  rw [mulAddWWW_g_eq x y c (by simp only [W_eq]; omega) (by simp only [W_eq]; omega) (by simp only [W_eq]; omega)]
  simp only []
  have h1 : (x * y + c) / W < 10000000000000000000 := by
    simp only [W_eq]; generalize x * y = p at *; omega
  rw [div10W_g_spec _ _ h1 (by simp only [W_eq]; omega)]
  have : (x * y + c) / W * W + (x * y + c) % W = x * y + c := Nat.div_add_mod' _ _
  rw [this]

theorem blk_mulAdd10VWW_entry_spec (s : St) (n : Nat) (hn : s.frame.rd 8 = n) (hn63 : n < 9223372036854775808) :
    (blk_mulAdd10VWW_entry s).1.si = 0 ∧ (blk_mulAdd10VWW_entry s).1.di = n ∧
    (blk_mulAdd10VWW_entry s).1.r8 = s.frame.rd 24 ∧ (blk_mulAdd10VWW_entry s).1.r9 = s.frame.rd 48 ∧
    (blk_mulAdd10VWW_entry s).1.r10 = s.frame.rd 0 ∧ (blk_mulAdd10VWW_entry s).1.r11 = s.frame.rd 56 ∧
    (blk_mulAdd10VWW_entry s).1.mem = s.mem ∧ (blk_mulAdd10VWW_entry s).1.frame = s.frame ∧
    (blk_mulAdd10VWW_entry s).1.trap = s.trap ∧
    (blk_mulAdd10VWW_entry s).2 = (if n = 0 then Next.goto Lbl.mulAdd10VWW_E10 else Next.goto Lbl.mulAdd10VWW_L10) := by
  refine ⟨?_, ?_, ?_, ?_, ?_, ?_, ?_, ?_, ?_, ?_⟩
  all_goals simp only [blk_mulAdd10VWW_entry, hn]
  rw [jge_sub 0 n _ (by omega) hn63 (by simp only [W_eq]; omega)]
  simp only [decide_eq_true_eq]
  by_cases h0 : n = 0
  · rw [if_pos (by omega), if_pos h0]
  · rw [if_neg (by omega), if_neg h0]

/-- L10, the loop body: `c, z[i] = div10W_g(mulAddWWW_g(x[i], y, c))`, carry word in R11 -/
theorem blk_mulAdd10VWW_L10_spec (s : St) (x : Nat) (hx : s.mem.rd ((s.r8 + 8 * s.si) % W) = x)
    (hxb : x < 10000000000000000000) (hy : s.r9 < 10000000000000000000) (hc : s.r11 < 10000000000000000000)
    (hsi : s.si < s.di) (hdi : s.di < 9223372036854775808) :
    (blk_mulAdd10VWW_L10 s).1.r11 =
      (Decimal.Gen.div10W_g (Decimal.Gen.mulAddWWW_g x s.r9 s.r11).1 (Decimal.Gen.mulAddWWW_g x s.r9 s.r11).2).1 ∧
    (blk_mulAdd10VWW_L10 s).1.mem = s.mem.wr ((s.r10 + 8 * s.si) % W)
      (Decimal.Gen.div10W_g (Decimal.Gen.mulAddWWW_g x s.r9 s.r11).1 (Decimal.Gen.mulAddWWW_g x s.r9 s.r11).2).2 ∧
    (blk_mulAdd10VWW_L10 s).1.si = s.si + 1 ∧ (blk_mulAdd10VWW_L10 s).1.di = s.di ∧
    (blk_mulAdd10VWW_L10 s).1.r8 = s.r8 ∧ (blk_mulAdd10VWW_L10 s).1.r9 = s.r9 ∧
    (blk_mulAdd10VWW_L10 s).1.r10 = s.r10 ∧
    (blk_mulAdd10VWW_L10 s).1.frame = s.frame ∧ (blk_mulAdd10VWW_L10 s).1.trap = s.trap ∧
    (blk_mulAdd10VWW_L10 s).2 =
      (if s.si + 1 < s.di then Next.goto Lbl.mulAdd10VWW_L10 else Next.goto Lbl.mulAdd10VWW_E10) := by
  have hp : x * s.r9 ≤ 9999999999999999999 * 9999999999999999999 := Nat.mul_le_mul (by omega) (by omega)
  rw [go_mulAdd_step x s.r9 s.r11 hxb hy (by omega) (by generalize x * s.r9 = p at *; omega)]
  -- the double word handed to the inlined div10W
  have hn1 : (0 + x * s.r9 / W + (x * s.r9 % W + s.r11) / W) % W = (x * s.r9 + s.r11) / W := by
    simp only [W_eq]; generalize x * s.r9 = p at *; omega
  have hn0 : (x * s.r9 % W + s.r11) % W = (x * s.r9 + s.r11) % W := by
    simp only [W_eq]; generalize x * s.r9 = p at *; omega
  have hg := gmSeq_spec ((x * s.r9 + s.r11) / W) ((x * s.r9 + s.r11) % W)
    (by simp only [W_eq]; generalize x * s.r9 = p at *; omega) (by simp only [W_eq]; omega)
  have hdm : (x * s.r9 + s.r11) / W * W + (x * s.r9 + s.r11) % W = x * s.r9 + s.r11 := Nat.div_add_mod' _ _
  rw [hdm] at hg
  have e1 : (blk_mulAdd10VWW_L10 s).1.r11 =
      (gmSeq ((0 + s.mem.rd ((s.r8 + 8 * s.si) % W) * s.r9 / W + (s.mem.rd ((s.r8 + 8 * s.si) % W) * s.r9 % W + s.r11) / W) % W)
        ((s.mem.rd ((s.r8 + 8 * s.si) % W) * s.r9 % W + s.r11) % W)).1 := by
    simp only [blk_mulAdd10VWW_L10, gmSeq] <;> rfl
  have e2 : (blk_mulAdd10VWW_L10 s).1.mem = s.mem.wr ((s.r10 + 8 * s.si) % W)
      (gmSeq ((0 + s.mem.rd ((s.r8 + 8 * s.si) % W) * s.r9 / W + (s.mem.rd ((s.r8 + 8 * s.si) % W) * s.r9 % W + s.r11) / W) % W)
        ((s.mem.rd ((s.r8 + 8 * s.si) % W) * s.r9 % W + s.r11) % W)).2 := by
    simp only [blk_mulAdd10VWW_L10, gmSeq] <;> rfl
  refine ⟨?_, ?_, ?_, ?_, ?_, ?_, ?_, ?_, ?_, ?_⟩
  · rw [e1, hx, hn1, hn0, hg]
  · rw [e2, hx, hn1, hn0, hg]
  all_goals simp only [blk_mulAdd10VWW_L10]
  · simp only [W_eq]; omega
  · have h1 : (1 + s.si) % W = s.si + 1 := by simp only [W_eq]; omega
    rw [h1, jl_sub (s.si + 1) s.di _ (by omega) hdi (by simp only [W_eq]; omega)]
    simp only [decide_eq_true_eq]

theorem blk_mulAdd10VWW_E10_spec (s : St) :
    (blk_mulAdd10VWW_E10 s).1.frame = s.frame.wr 64 s.r11 ∧ (blk_mulAdd10VWW_E10 s).1.mem = s.mem ∧
    (blk_mulAdd10VWW_E10 s).1.trap = s.trap ∧ (blk_mulAdd10VWW_E10 s).2 = Next.ret := by
  refine ⟨?_, ?_, ?_, ?_⟩
  all_goals simp only [blk_mulAdd10VWW_E10]

/-! ## addMul10VVW -/

/-- the Go word step of `addMul10VVW_g` (dec_arith.go): `hi, z0 := mulAddWWW_g(x, y, z);
    lo, cc := bits.Add(z0, c, 0); c, z = div10W_g(hi+cc, lo)` -/
def goAddMulStep (x y z c : Nat) : Nat × Nat :=
  let hz := Decimal.Gen.mulAddWWW_g x y z
  let lo := (hz.2 + c) % W
  let cc := (hz.2 + c) / W
  Decimal.Gen.div10W_g ((hz.1 + cc) % W) lo

theorem goAddMulStep_eq (x y z c : Nat) (hx : x < 10000000000000000000) (hy : y < 10000000000000000000)
    (hz : z < 10000000000000000000) (hc : c < 10000000000000000000) :
    goAddMulStep x y z c = ((x * y + z + c) / 10000000000000000000, (x * y + z + c) % 10000000000000000000) := by
  have hp : x * y ≤ 9999999999999999999 * 9999999999999999999 := Nat.mul_le_mul (by omega) (by omega)
  unfold goAddMulStep
  rw [Decimal.Gen.mulAddWWW_g_eq x y z (by simp only [W_eq]; omega) (by simp only [W_eq]; omega) (by simp only [W_eq]; omega)]
  simp only []
  have h1 : ((x * y + z) / W + ((x * y + z) % W + c) / W) % W = (x * y + z + c) / W := by
    simp only [W_eq]; generalize x * y = p at *; omega
  have h0 : ((x * y + z) % W + c) % W = (x * y + z + c) % W := by
    simp only [W_eq]; generalize x * y = p at *; omega
  rw [h1, h0, Decimal.Gen.div10W_g_spec _ _ (by simp only [W_eq]; generalize x * y = p at *; omega)
    (by simp only [W_eq]; omega)]
  have : (x * y + z + c) / W * W + (x * y + z + c) % W = x * y + z + c := Nat.div_add_mod' _ _
  rw [this]

theorem blk_addMul10VVW_entry_spec (s : St) (n : Nat) (hn : s.frame.rd 8 = n) (hn63 : n < 9223372036854775808) :
    (blk_addMul10VVW_entry s).1.si = 0 ∧ (blk_addMul10VVW_entry s).1.di = n ∧
    (blk_addMul10VVW_entry s).1.r8 = s.frame.rd 24 ∧ (blk_addMul10VVW_entry s).1.r9 = s.frame.rd 48 ∧
    (blk_addMul10VVW_entry s).1.r10 = s.frame.rd 0 ∧ (blk_addMul10VVW_entry s).1.r11 = 0 ∧
    (blk_addMul10VVW_entry s).1.mem = s.mem ∧ (blk_addMul10VVW_entry s).1.frame = s.frame ∧
    (blk_addMul10VVW_entry s).1.trap = s.trap ∧
    (blk_addMul10VVW_entry s).2 = (if n = 0 then Next.goto Lbl.addMul10VVW_E11 else Next.goto Lbl.addMul10VVW_L11) := by
  refine ⟨?_, ?_, ?_, ?_, ?_, ?_, ?_, ?_, ?_, ?_⟩
  all_goals simp only [blk_addMul10VVW_entry, hn, xor_self]
  rw [jge_sub 0 n _ (by omega) hn63 (by simp only [W_eq]; omega)]
  simp only [decide_eq_true_eq]
  by_cases h0 : n = 0
  · rw [if_pos (by omega), if_pos h0]
  · rw [if_neg (by omega), if_neg h0]

/-- L11, the loop body: `c, z[i] = (x[i]*y + z[i] + c) divmod 10^19`, as the Go step does -/
theorem blk_addMul10VVW_L11_spec (s : St) (x z : Nat) (hx : s.mem.rd ((s.r8 + 8 * s.si) % W) = x)
    (hz : s.mem.rd ((s.r10 + 8 * s.si) % W) = z)
    (hxb : x < 10000000000000000000) (hzb : z < 10000000000000000000)
    (hy : s.r9 < 10000000000000000000) (hc : s.r11 < 10000000000000000000)
    (hsi : s.si < s.di) (hdi : s.di < 9223372036854775808) :
    (blk_addMul10VVW_L11 s).1.r11 = (goAddMulStep x s.r9 z s.r11).1 ∧
    (blk_addMul10VVW_L11 s).1.mem = s.mem.wr ((s.r10 + 8 * s.si) % W) (goAddMulStep x s.r9 z s.r11).2 ∧
    (blk_addMul10VVW_L11 s).1.si = s.si + 1 ∧ (blk_addMul10VVW_L11 s).1.di = s.di ∧
    (blk_addMul10VVW_L11 s).1.r8 = s.r8 ∧ (blk_addMul10VVW_L11 s).1.r9 = s.r9 ∧
    (blk_addMul10VVW_L11 s).1.r10 = s.r10 ∧
    (blk_addMul10VVW_L11 s).1.frame = s.frame ∧ (blk_addMul10VVW_L11 s).1.trap = s.trap ∧
    (blk_addMul10VVW_L11 s).2 =
      (if s.si + 1 < s.di then Next.goto Lbl.addMul10VVW_L11 else Next.goto Lbl.addMul10VVW_E11) := by
  have hp : x * s.r9 ≤ 9999999999999999999 * 9999999999999999999 := Nat.mul_le_mul (by omega) (by omega)
  rw [goAddMulStep_eq x s.r9 z s.r11 hxb hy hzb hc]
  have hn1 : (0 + (0 + x * s.r9 / W + (x * s.r9 % W + z) / W) % W + ((x * s.r9 % W + z) % W + s.r11) / W) % W
      = (x * s.r9 + z + s.r11) / W := by
    simp only [W_eq]; generalize x * s.r9 = p at *; omega
  have hn0 : ((x * s.r9 % W + z) % W + s.r11) % W = (x * s.r9 + z + s.r11) % W := by
    simp only [W_eq]; generalize x * s.r9 = p at *; omega
  have hg := gmSeq_spec ((x * s.r9 + z + s.r11) / W) ((x * s.r9 + z + s.r11) % W)
    (by simp only [W_eq]; generalize x * s.r9 = p at *; omega) (by simp only [W_eq]; omega)
  have hdm : (x * s.r9 + z + s.r11) / W * W + (x * s.r9 + z + s.r11) % W = x * s.r9 + z + s.r11 :=
    Nat.div_add_mod' _ _
  rw [hdm] at hg
  have e1 : (blk_addMul10VVW_L11 s).1.r11 =
      (gmSeq ((0 + (0 + s.mem.rd ((s.r8 + 8 * s.si) % W) * s.r9 / W +
            (s.mem.rd ((s.r8 + 8 * s.si) % W) * s.r9 % W + s.mem.rd ((s.r10 + 8 * s.si) % W)) / W) % W +
          ((s.mem.rd ((s.r8 + 8 * s.si) % W) * s.r9 % W + s.mem.rd ((s.r10 + 8 * s.si) % W)) % W + s.r11) / W) % W)
        (((s.mem.rd ((s.r8 + 8 * s.si) % W) * s.r9 % W + s.mem.rd ((s.r10 + 8 * s.si) % W)) % W + s.r11) % W)).1 := by
    simp only [blk_addMul10VVW_L11, gmSeq] <;> rfl
  have e2 : (blk_addMul10VVW_L11 s).1.mem = s.mem.wr ((s.r10 + 8 * s.si) % W)
      (gmSeq ((0 + (0 + s.mem.rd ((s.r8 + 8 * s.si) % W) * s.r9 / W +
            (s.mem.rd ((s.r8 + 8 * s.si) % W) * s.r9 % W + s.mem.rd ((s.r10 + 8 * s.si) % W)) / W) % W +
          ((s.mem.rd ((s.r8 + 8 * s.si) % W) * s.r9 % W + s.mem.rd ((s.r10 + 8 * s.si) % W)) % W + s.r11) / W) % W)
        (((s.mem.rd ((s.r8 + 8 * s.si) % W) * s.r9 % W + s.mem.rd ((s.r10 + 8 * s.si) % W)) % W + s.r11) % W)).2 := by
    simp only [blk_addMul10VVW_L11, gmSeq] <;> rfl
  refine ⟨?_, ?_, ?_, ?_, ?_, ?_, ?_, ?_, ?_, ?_⟩
  · rw [e1, hx, hz, hn1, hn0, hg]
  · rw [e2, hx, hz, hn1, hn0, hg]
  all_goals simp only [blk_addMul10VVW_L11]
  · simp only [W_eq]; omega
  · have h1 : (1 + s.si) % W = s.si + 1 := by simp only [W_eq]; omega
    rw [h1, jl_sub (s.si + 1) s.di _ (by omega) hdi (by simp only [W_eq]; omega)]
    simp only [decide_eq_true_eq]

theorem blk_addMul10VVW_E11_spec (s : St) :
    (blk_addMul10VVW_E11 s).1.frame = s.frame.wr 56 s.r11 ∧ (blk_addMul10VVW_E11 s).1.mem = s.mem ∧
    (blk_addMul10VVW_E11 s).1.trap = s.trap ∧ (blk_addMul10VVW_E11 s).2 = Next.ret := by
  refine ⟨?_, ?_, ?_, ?_⟩
  all_goals simp only [blk_addMul10VVW_E11]

/-! ## div10VWW -/

theorem blk_div10VWW_entry_spec (s : St) :
    (blk_div10VWW_entry s).1.cx = 10000000000000000000 ∧ (blk_div10VWW_entry s).1.dx = s.frame.rd 56 ∧
    (blk_div10VWW_entry s).1.si = s.frame.rd 8 ∧
    (blk_div10VWW_entry s).1.r8 = s.frame.rd 24 ∧ (blk_div10VWW_entry s).1.r9 = s.frame.rd 48 ∧
    (blk_div10VWW_entry s).1.r10 = s.frame.rd 0 ∧
    (blk_div10VWW_entry s).1.mem = s.mem ∧ (blk_div10VWW_entry s).1.frame = s.frame ∧
    (blk_div10VWW_entry s).1.trap = s.trap ∧
    (blk_div10VWW_entry s).2 = Next.goto Lbl.div10VWW_E7 := by
  refine ⟨?_, ?_, ?_, ?_, ?_, ?_, ?_, ?_, ?_, ?_⟩
  all_goals simp only [blk_div10VWW_entry]

/-- L7, the loop body: `z[i], r = div10WW_g(r, x[i], y)`, running remainder in DX; DIVQ does not trap -/
theorem blk_div10VWW_L7_spec (s : St) (x : Nat) (hx : s.mem.rd ((s.r8 + 8 * s.si) % W) = x)
    (hcx : s.cx = 10000000000000000000) (hxb : x < 10000000000000000000)
    (hr : s.dx < s.r9) (hy : s.r9 ≤ 10000000000000000000) :
    (blk_div10VWW_L7 s).1.dx = (Decimal.Gen.div10WW_g s.dx x s.r9).2 ∧
    (blk_div10VWW_L7 s).1.mem = s.mem.wr ((s.r10 + 8 * s.si) % W) (Decimal.Gen.div10WW_g s.dx x s.r9).1 ∧
    (blk_div10VWW_L7 s).1.cx = s.cx ∧ (blk_div10VWW_L7 s).1.si = s.si ∧
    (blk_div10VWW_L7 s).1.r8 = s.r8 ∧ (blk_div10VWW_L7 s).1.r9 = s.r9 ∧ (blk_div10VWW_L7 s).1.r10 = s.r10 ∧
    (blk_div10VWW_L7 s).1.frame = s.frame ∧ (blk_div10VWW_L7 s).1.trap = s.trap ∧
    (blk_div10VWW_L7 s).2 = Next.goto Lbl.div10VWW_E7 := by
  rw [Decimal.Gen.div10WW_g_spec s.dx x s.r9 hr hxb hy]
  have hc : s.dx * s.cx = 10000000000000000000 * s.dx := by rw [hcx, Nat.mul_comm]
  have hn : W * ((0 + 10000000000000000000 * s.dx / W + (10000000000000000000 * s.dx % W + x) / W) % W)
      + (10000000000000000000 * s.dx % W + x) % W = s.dx * 10000000000000000000 + x := by
    simp only [W_eq]; omega
  have hhi : (0 + 10000000000000000000 * s.dx / W + (10000000000000000000 * s.dx % W + x) / W) % W < s.r9 := by
    have h1 : 0 + 10000000000000000000 * s.dx / W + (10000000000000000000 * s.dx % W + x) / W
        = (10000000000000000000 * s.dx + x) / W := by simp only [W_eq]; omega
    have h2 : (10000000000000000000 * s.dx + x) / W < s.r9 := by
      apply Nat.div_lt_of_lt_mul
      simp only [W_eq]; omega
    rw [h1]
    exact Nat.lt_of_le_of_lt (Nat.mod_le _ _) h2
  have hq : (s.dx * 10000000000000000000 + x) / s.r9 < W := by
    apply Nat.div_lt_of_lt_mul
    have : s.r9 * W = W * s.r9 := Nat.mul_comm _ _
    simp only [W_eq] at *
    omega
  refine ⟨?_, ?_, ?_, ?_, ?_, ?_, ?_, ?_, ?_, ?_⟩
  · simp only [blk_div10VWW_L7, hc, hx, hn]
  · simp only [blk_div10VWW_L7, hc, hx, hn, Nat.mod_eq_of_lt hq]
  all_goals simp only [blk_div10VWW_L7]
  · simp only [hc, hx]
    have h1 : ¬ s.r9 = 0 := by omega
    have h2 : ¬ (0 + 10000000000000000000 * s.dx / W + (10000000000000000000 * s.dx % W + x) / W) % W ≥ s.r9 := by
      omega
    simp only [h1, h2, or_self, decide_false, Bool.or_false]

/-- E7: `i--`, continue while `i ≥ 0` -/
theorem blk_div10VWW_E7_spec (s : St) (hsi : s.si < 9223372036854775808) :
    (blk_div10VWW_E7 s).1.si = (if 1 ≤ s.si then s.si - 1 else 18446744073709551615) ∧
    (blk_div10VWW_E7 s).1.dx = s.dx ∧ (blk_div10VWW_E7 s).1.cx = s.cx ∧
    (blk_div10VWW_E7 s).1.r8 = s.r8 ∧ (blk_div10VWW_E7 s).1.r9 = s.r9 ∧ (blk_div10VWW_E7 s).1.r10 = s.r10 ∧
    (blk_div10VWW_E7 s).1.mem = s.mem ∧ (blk_div10VWW_E7 s).1.frame = s.frame ∧
    (blk_div10VWW_E7 s).1.trap = s.trap ∧
    (blk_div10VWW_E7 s).2 = (if 1 ≤ s.si then Next.goto Lbl.div10VWW_L7 else Next.goto Lbl.div10VWW_E7_1) := by
  refine ⟨?_, ?_, ?_, ?_, ?_, ?_, ?_, ?_, ?_, ?_⟩
  all_goals simp only [blk_div10VWW_E7]
  · simp only [W_eq]; split <;> omega
  · rw [jge_sub s.si 1 _ hsi (by omega) (by simp only [W_eq]; omega)]
    simp only [decide_eq_true_eq]

theorem blk_div10VWW_E7_1_spec (s : St) :
    (blk_div10VWW_E7_1 s).1.frame = s.frame.wr 64 s.dx ∧ (blk_div10VWW_E7_1 s).1.mem = s.mem ∧
    (blk_div10VWW_E7_1 s).1.trap = s.trap ∧ (blk_div10VWW_E7_1 s).2 = Next.ret := by
  refine ⟨?_, ?_, ?_, ?_⟩
  all_goals simp only [blk_div10VWW_E7_1]

/-! ## add10VW -/

theorem wr_congr (m : Mem) (a v1 v2 : Nat) (h : v1 = v2) : m.wr a v1 = m.wr a v2 := by rw [h]

theorem jeq_ptr (a b : Nat) (ha : a < 18446744073709551616) (hb : b < 18446744073709551616) :
    decide ((W + a - b) % W = 0) = decide (a = b) := by
  by_cases h : a = b
  · rw [decide_eq_true h, decide_eq_true (by simp only [W_eq]; omega)]
  · rw [decide_eq_false h, decide_eq_false (by simp only [W_eq]; omega)]

theorem blk_add10VW_entry_spec (s : St) (n : Nat) (hn : s.frame.rd 8 = n) (hn63 : n < 9223372036854775808) :
    (blk_add10VW_entry s).1.cx = s.frame.rd 48 ∧ (blk_add10VW_entry s).1.dx = 10000000000000000000 ∧
    (blk_add10VW_entry s).1.si = 0 ∧ (blk_add10VW_entry s).1.r8 = s.frame.rd 24 ∧
    (blk_add10VW_entry s).1.r10 = s.frame.rd 0 ∧
    (blk_add10VW_entry s).1.mem = s.mem ∧ (blk_add10VW_entry s).1.frame = s.frame ∧
    (blk_add10VW_entry s).1.trap = s.trap ∧
    (blk_add10VW_entry s).1.di = (if n < 1 then 18446744073709551615 else n - 1) ∧
    (blk_add10VW_entry s).2 = (if n < 1 then Next.goto Lbl.add10VW_E3 else Next.goto Lbl.add10VW_entry_1) := by
  refine ⟨?_, ?_, ?_, ?_, ?_, ?_, ?_, ?_, ?_, ?_⟩
  all_goals simp only [blk_add10VW_entry, hn]
  · simp only [W_eq]; split <;> omega
  · rw [jl_sub n 1 _ hn63 (by omega) (by simp only [W_eq]; omega)]
    simp only [decide_eq_true_eq]

/-- first element: `z[0], c = add10WWW_g(x[0], y, 0)` (the only place where the 64-bit addition can
    carry out; the hardware carry is folded in with SBBQ/ORQ) -/
theorem blk_add10VW_entry_1_spec (s : St) (x : Nat) (hx : s.mem.rd ((s.r8 + 8 * s.si) % W) = x)
    (hdx : s.dx = 10000000000000000000) (hxb : x < 10000000000000000000) (hy : s.cx < 10000000000000000000)
    (hdi : s.di < 9223372036854775808) (hsi : s.si < 9223372036854775808) :
    (blk_add10VW_entry_1 s).1.cx = (add10WWW_g x s.cx 0).2 ∧
    (blk_add10VW_entry_1 s).1.mem = s.mem.wr ((s.r10 + 8 * s.si) % W) (add10WWW_g x s.cx 0).1 ∧
    (blk_add10VW_entry_1 s).1.dx = s.dx ∧ (blk_add10VW_entry_1 s).1.si = s.si + 1 ∧
    (blk_add10VW_entry_1 s).1.di = (if s.di < 4 then 18446744073709551616 - 4 + s.di else s.di - 4) ∧
    (blk_add10VW_entry_1 s).1.r8 = s.r8 ∧ (blk_add10VW_entry_1 s).1.r10 = s.r10 ∧
    (blk_add10VW_entry_1 s).1.frame = s.frame ∧ (blk_add10VW_entry_1 s).1.trap = s.trap ∧
    (blk_add10VW_entry_1 s).2 = (if s.di < 4 then Next.goto Lbl.add10VW_V3 else Next.goto Lbl.add10VW_entry_2) := by
  rw [add10WWW_g_eq x s.cx 0 hxb hy (by omega)]
  have hW : W + s.bx - s.bx = W := by omega
  have hW' : ∀ t, W + t - t = W := by intro t; omega
  have e0 : (W - 1 + 10000000000000000000) % W = 9999999999999999999 := by decide
  have e7 : (18446744073709551616 - 1) % 18446744073709551616 = 18446744073709551615 := by decide
  have e8 : (18446744073709551616 - 0) % 18446744073709551616 = 0 := by decide
  have e9 : (18446744073709551616 - 18446744073709551615) % 18446744073709551616 = 1 := by decide
  -- the stored word and the carry, by the three cases of x + y
  have key : (blk_add10VW_entry_1 s).1.cx = (x + s.cx + 0) / 10000000000000000000 ∧
      (blk_add10VW_entry_1 s).1.mem =
        s.mem.wr ((s.r10 + 8 * s.si) % W) ((x + s.cx + 0) % 10000000000000000000) := by
    simp only [blk_add10VW_entry_1, hx, hdx, hW, hW', e0]
    simp only [W_eq]
    clear hW hW' e0
    by_cases hw : 18446744073709551616 ≤ s.cx + x
    · have e2 : (s.cx + x) / 18446744073709551616 = 1 := by omega
      have e3 : ¬ 9999999999999999999 < (s.cx + x) % 18446744073709551616 := by omega
      have e6 : (x + s.cx + 0) / 10000000000000000000 = 1 := by omega
      simp only [e2, e3, if_false, e6, e7, e8, e9, lor_zero_right, land_allones 10000000000000000000 (by omega)]
      refine ⟨trivial, wr_congr _ _ _ _ ?_⟩
      clear e7 e8 e9
      omega
    · have e2 : (s.cx + x) / 18446744073709551616 = 0 := by omega
      have e2' : (s.cx + x) % 18446744073709551616 = s.cx + x := by omega
      simp only [e2, e2', e8, lor_zero_left]
      by_cases h : 9999999999999999999 < s.cx + x
      · have e6 : (x + s.cx + 0) / 10000000000000000000 = 1 := by omega
        simp only [h, if_true, e6, e7, e9, land_allones 10000000000000000000 (by omega)]
        refine ⟨trivial, wr_congr _ _ _ _ ?_⟩
        clear e7 e8 e9
        omega
      · have e6 : (x + s.cx + 0) / 10000000000000000000 = 0 := by omega
        simp only [h, if_false, e6, e8, land_zero_right]
        refine ⟨trivial, wr_congr _ _ _ _ ?_⟩
        clear e7 e8 e9
        omega
  refine ⟨key.1, key.2, ?_, ?_, ?_, ?_, ?_, ?_, ?_, ?_⟩
  all_goals simp only [blk_add10VW_entry_1]
  · simp only [W_eq]; omega
  · simp only [W_eq]; split <;> omega
  · rw [jl_sub s.di 4 _ hdi (by omega) (by simp only [W_eq]; omega)]
    simp only [decide_eq_true_eq]

/-- entry_2: with at least 4 more words, propagate in the unrolled loop only if the carry is set -/
theorem blk_add10VW_entry_2_spec (s : St) :
    (blk_add10VW_entry_2 s).1.cx = s.cx ∧ (blk_add10VW_entry_2 s).1.dx = s.dx ∧
    (blk_add10VW_entry_2 s).1.si = s.si ∧ (blk_add10VW_entry_2 s).1.di = s.di ∧
    (blk_add10VW_entry_2 s).1.r8 = s.r8 ∧ (blk_add10VW_entry_2 s).1.r10 = s.r10 ∧
    (blk_add10VW_entry_2 s).1.mem = s.mem ∧ (blk_add10VW_entry_2 s).1.frame = s.frame ∧
    (blk_add10VW_entry_2 s).1.trap = s.trap ∧
    (blk_add10VW_entry_2 s).2 = (if s.cx = 0 then Next.goto Lbl.add10VW_entry_3 else Next.goto Lbl.add10VW_U3) := by
  refine ⟨?_, ?_, ?_, ?_, ?_, ?_, ?_, ?_, ?_, ?_⟩
  all_goals simp only [blk_add10VW_entry_2, land_self]
  by_cases h : s.cx = 0
  · simp only [h, decide_true, Bool.not_true, Bool.false_eq_true, if_false, if_true]
  · simp only [h, decide_false, Bool.not_false, if_true, if_false]

/-- entry_3 / C3: no carry left; nothing to copy when the operation is in place -/
theorem blk_add10VW_entry_3_spec (s : St) (h8 : s.r8 < 18446744073709551616) (h10 : s.r10 < 18446744073709551616) :
    (blk_add10VW_entry_3 s).1.cx = s.cx ∧ (blk_add10VW_entry_3 s).1.dx = s.dx ∧
    (blk_add10VW_entry_3 s).1.si = s.si ∧ (blk_add10VW_entry_3 s).1.di = s.di ∧
    (blk_add10VW_entry_3 s).1.r8 = s.r8 ∧ (blk_add10VW_entry_3 s).1.r10 = s.r10 ∧
    (blk_add10VW_entry_3 s).1.mem = s.mem ∧ (blk_add10VW_entry_3 s).1.frame = s.frame ∧
    (blk_add10VW_entry_3 s).1.trap = s.trap ∧
    (blk_add10VW_entry_3 s).2 = (if s.r8 = s.r10 then Next.goto Lbl.add10VW_E3 else Next.goto Lbl.add10VW_entry_4) := by
  refine ⟨?_, ?_, ?_, ?_, ?_, ?_, ?_, ?_, ?_, ?_⟩
  all_goals simp only [blk_add10VW_entry_3]
  rw [jeq_ptr s.r8 s.r10 h8 h10]
  simp only [decide_eq_true_eq]

theorem blk_add10VW_C3_spec (s : St) (h8 : s.r8 < 18446744073709551616) (h10 : s.r10 < 18446744073709551616) :
    (blk_add10VW_C3 s).1.cx = s.cx ∧ (blk_add10VW_C3 s).1.dx = s.dx ∧
    (blk_add10VW_C3 s).1.si = s.si ∧ (blk_add10VW_C3 s).1.di = s.di ∧
    (blk_add10VW_C3 s).1.r8 = s.r8 ∧ (blk_add10VW_C3 s).1.r10 = s.r10 ∧
    (blk_add10VW_C3 s).1.mem = s.mem ∧ (blk_add10VW_C3 s).1.frame = s.frame ∧
    (blk_add10VW_C3 s).1.trap = s.trap ∧
    (blk_add10VW_C3 s).2 = (if s.r8 = s.r10 then Next.goto Lbl.add10VW_E3 else Next.goto Lbl.add10VW_C3_1) := by
  refine ⟨?_, ?_, ?_, ?_, ?_, ?_, ?_, ?_, ?_, ?_⟩
  all_goals simp only [blk_add10VW_C3]
  rw [jeq_ptr s.r8 s.r10 h8 h10]
  simp only [decide_eq_true_eq]

/-- entry_4: hand the remaining `m` words (`DI = m - 4` here) to `decCpy`, result `c = CX` -/
theorem blk_add10VW_entry_4_spec (s : St) (m : Nat) (hm : 4 ≤ m) (hm63 : m < 9223372036854775808)
    (hdi : s.di = m - 4) :
    (blk_add10VW_entry_4 s).1.di = m ∧ (blk_add10VW_entry_4 s).1.si = s.si ∧
    (blk_add10VW_entry_4 s).1.r8 = s.r8 ∧ (blk_add10VW_entry_4 s).1.r10 = s.r10 ∧
    (blk_add10VW_entry_4 s).1.mem = s.mem ∧ (blk_add10VW_entry_4 s).1.frame = s.frame.wr 56 s.cx ∧
    (blk_add10VW_entry_4 s).1.trap = s.trap ∧
    (blk_add10VW_entry_4 s).2 = Next.goto Lbl.decCpy_entry := by
  refine ⟨?_, ?_, ?_, ?_, ?_, ?_, ?_, ?_⟩
  all_goals simp only [blk_add10VW_entry_4, hdi]
  simp only [W_eq]; omega

theorem blk_add10VW_C3_1_spec (s : St) :
    (blk_add10VW_C3_1 s).1.di = s.di ∧ (blk_add10VW_C3_1 s).1.si = s.si ∧
    (blk_add10VW_C3_1 s).1.r8 = s.r8 ∧ (blk_add10VW_C3_1 s).1.r10 = s.r10 ∧
    (blk_add10VW_C3_1 s).1.mem = s.mem ∧ (blk_add10VW_C3_1 s).1.frame = s.frame.wr 56 s.cx ∧
    (blk_add10VW_C3_1 s).1.trap = s.trap ∧
    (blk_add10VW_C3_1 s).2 = Next.goto Lbl.decCpy_entry := by
  refine ⟨?_, ?_, ?_, ?_, ?_, ?_, ?_, ?_⟩
  all_goals simp only [blk_add10VW_C3_1]

theorem blk_add10VW_E3_spec (s : St) :
    (blk_add10VW_E3 s).1.frame = s.frame.wr 56 s.cx ∧ (blk_add10VW_E3 s).1.mem = s.mem ∧
    (blk_add10VW_E3 s).1.trap = s.trap ∧ (blk_add10VW_E3 s).2 = Next.ret := by
  refine ⟨?_, ?_, ?_, ?_⟩
  all_goals simp only [blk_add10VW_E3]

theorem blk_add10VW_U3_1_spec (s : St) (hdi : s.di < 9223372036854775808) :
    (blk_add10VW_U3_1 s).1.cx = s.cx ∧ (blk_add10VW_U3_1 s).1.dx = s.dx ∧
    (blk_add10VW_U3_1 s).1.si = s.si ∧
    (blk_add10VW_U3_1 s).1.di = (if 4 ≤ s.di then s.di - 4 else 18446744073709551616 - 4 + s.di) ∧
    (blk_add10VW_U3_1 s).1.r8 = s.r8 ∧ (blk_add10VW_U3_1 s).1.r10 = s.r10 ∧
    (blk_add10VW_U3_1 s).1.mem = s.mem ∧ (blk_add10VW_U3_1 s).1.frame = s.frame ∧
    (blk_add10VW_U3_1 s).1.trap = s.trap ∧
    (blk_add10VW_U3_1 s).2 = (if 4 ≤ s.di then Next.goto Lbl.add10VW_U3 else Next.goto Lbl.add10VW_V3) := by
  refine ⟨?_, ?_, ?_, ?_, ?_, ?_, ?_, ?_, ?_, ?_⟩
  all_goals simp only [blk_add10VW_U3_1]
  · simp only [W_eq]; split <;> omega
  · rw [jge_sub s.di 4 _ hdi (by omega) (by simp only [W_eq]; omega)]
    simp only [decide_eq_true_eq]

theorem blk_add10VW_V3_spec (s : St) (m : Nat) (hm : m < 4) (hdi : s.di = 18446744073709551616 - 4 + m) :
    (blk_add10VW_V3 s).1.cx = s.cx ∧ (blk_add10VW_V3 s).1.dx = s.dx ∧
    (blk_add10VW_V3 s).1.si = s.si ∧ (blk_add10VW_V3 s).1.r8 = s.r8 ∧ (blk_add10VW_V3 s).1.r10 = s.r10 ∧
    (blk_add10VW_V3 s).1.mem = s.mem ∧ (blk_add10VW_V3 s).1.frame = s.frame ∧
    (blk_add10VW_V3 s).1.trap = s.trap ∧ (blk_add10VW_V3 s).1.di = m ∧
    (blk_add10VW_V3 s).2 = (if m = 0 then Next.goto Lbl.add10VW_E3 else Next.goto Lbl.add10VW_L3) := by
  refine ⟨?_, ?_, ?_, ?_, ?_, ?_, ?_, ?_, ?_, ?_⟩
  all_goals simp only [blk_add10VW_V3, hdi]
  · simp only [W_eq]; omega
  · rw [jle_add_neg _ 4 _ (by omega) (by omega) (by omega) (by simp only [W_eq]; omega)]
    simp only [decide_eq_true_eq]
    by_cases h0 : m = 0
    · simp only [h0, if_true]; rfl
    · rw [if_neg (by omega), if_neg h0]

/-- L3, the single-step loop body: `z[i] = (x[i] + c) mod 10^19`, `c = (x[i] + c) / 10^19`
    (the Go loop: `s := x[i] + c; if s < _DB { z[i] = s; c = 0 … } else { z[i] = 0 }`) -/
theorem blk_add10VW_L3_spec (s : St) (x : Nat) (hx : s.mem.rd ((s.r8 + 8 * s.si) % W) = x)
    (hdx : s.dx = 10000000000000000000) (hxb : x < 10000000000000000000) (hc : s.cx ≤ 1)
    (hdi0 : 0 < s.di) (hdi : s.di < 9223372036854775808) (hsi : s.si < 9223372036854775808) :
    (blk_add10VW_L3 s).1.cx = (x + s.cx) / 10000000000000000000 ∧
    (blk_add10VW_L3 s).1.mem = s.mem.wr ((s.r10 + 8 * s.si) % W) ((x + s.cx) % 10000000000000000000) ∧
    (blk_add10VW_L3 s).1.dx = s.dx ∧ (blk_add10VW_L3 s).1.si = s.si + 1 ∧
    (blk_add10VW_L3 s).1.di = s.di - 1 ∧ (blk_add10VW_L3 s).1.r8 = s.r8 ∧ (blk_add10VW_L3 s).1.r10 = s.r10 ∧
    (blk_add10VW_L3 s).1.frame = s.frame ∧ (blk_add10VW_L3 s).1.trap = s.trap ∧
    (blk_add10VW_L3 s).2 = (if 1 < s.di then Next.goto Lbl.add10VW_L3 else Next.goto Lbl.add10VW_E3) := by
  have hstep := vwAddStep_spec s.bx x s.cx hc hxb
  have e1 : (blk_add10VW_L3 s).1.cx = (vwAddStep s.dx s.cx s.bx (s.mem.rd ((s.r8 + 8 * s.si) % W))).2.1 := by
    simp only [blk_add10VW_L3, vwAddStep]
  have e2 : (blk_add10VW_L3 s).1.mem = s.mem.wr ((s.r10 + 8 * s.si) % W)
      (vwAddStep s.dx s.cx s.bx (s.mem.rd ((s.r8 + 8 * s.si) % W))).1 := by
    simp only [blk_add10VW_L3, vwAddStep]
  refine ⟨?_, ?_, ?_, ?_, ?_, ?_, ?_, ?_, ?_, ?_⟩
  · rw [e1, hx, hdx, hstep]
  · rw [e2, hx, hdx, hstep]
  all_goals simp only [blk_add10VW_L3]
  · simp only [W_eq]; omega
  · simp only [W_eq]; omega
  · rw [jg_sub s.di 1 _ hdi (by omega) (by simp only [W_eq]; omega)]
    simp only [decide_eq_true_eq]

/-- U3 is four `vwAddStep`s; every load reads the memory as left by the preceding stores -/
theorem blk_add10VW_U3_steps (s : St) :
    let a0 := vwAddStep s.dx s.cx s.bx (s.mem.rd ((s.r8 + 8 * s.si) % W))
    let m1 := s.mem.wr ((s.r10 + 8 * s.si) % W) a0.1
    let a1 := vwAddStep s.dx a0.2.1 a0.2.2 (m1.rd ((s.r8 + 8 * s.si + 8) % W))
    let m2 := m1.wr ((s.r10 + 8 * s.si + 8) % W) a1.1
    let a2 := vwAddStep s.dx a1.2.1 a1.2.2 (m2.rd ((s.r8 + 8 * s.si + 16) % W))
    let m3 := m2.wr ((s.r10 + 8 * s.si + 16) % W) a2.1
    let a3 := vwAddStep s.dx a2.2.1 a2.2.2 (m3.rd ((s.r8 + 8 * s.si + 24) % W))
    let m4 := m3.wr ((s.r10 + 8 * s.si + 24) % W) a3.1
    (blk_add10VW_U3 s).1.cx = a3.2.1 ∧ (blk_add10VW_U3 s).1.mem = m4 ∧
    (blk_add10VW_U3 s).2 = (if (msb (Nat.land a3.2.2 a3.2.2) != false) then Next.goto Lbl.add10VW_C3
      else Next.goto Lbl.add10VW_U3_1) := by
  intro a0 m1 a1 m2 a2 m3 a3 m4
  refine ⟨?_, ?_, ?_⟩
  · simp only [blk_add10VW_U3, a3, m3, a2, m2, a1, m1, a0, vwAddStep] <;> rfl
  · simp only [blk_add10VW_U3, m4, a3, m3, a2, m2, a1, m1, a0, vwAddStep] <;> rfl
  · simp only [blk_add10VW_U3, a3, m3, a2, m2, a1, m1, a0, vwAddStep] <;> rfl

/-- U3, the 4×-unrolled loop body: four single steps, provided no store of this block hits a word
    that is loaded later in the block (true for `z = x` and for disjoint `z`, `x`) -/
theorem blk_add10VW_U3_spec (s : St) (x0 x1 x2 x3 : Nat) (hc : s.cx ≤ 1) (hdx : s.dx = 10000000000000000000)
    (hx0 : s.mem.rd ((s.r8 + 8 * s.si) % W) = x0) (hx1 : s.mem.rd ((s.r8 + 8 * s.si + 8) % W) = x1)
    (hx2 : s.mem.rd ((s.r8 + 8 * s.si + 16) % W) = x2) (hx3 : s.mem.rd ((s.r8 + 8 * s.si + 24) % W) = x3)
    (bx0 : x0 < 10000000000000000000) (bx1 : x1 < 10000000000000000000)
    (bx2 : x2 < 10000000000000000000) (bx3 : x3 < 10000000000000000000)
    (h01 : (s.r8 + 8 * s.si + 8) % W ≠ (s.r10 + 8 * s.si) % W)
    (h02 : (s.r8 + 8 * s.si + 16) % W ≠ (s.r10 + 8 * s.si) % W)
    (h03 : (s.r8 + 8 * s.si + 24) % W ≠ (s.r10 + 8 * s.si) % W)
    (h12 : (s.r8 + 8 * s.si + 16) % W ≠ (s.r10 + 8 * s.si + 8) % W)
    (h13 : (s.r8 + 8 * s.si + 24) % W ≠ (s.r10 + 8 * s.si + 8) % W)
    (h23 : (s.r8 + 8 * s.si + 24) % W ≠ (s.r10 + 8 * s.si + 16) % W)
    (hsi : s.si < 9223372036854775808) :
    let c1 := (x0 + s.cx) / 10000000000000000000
    let c2 := (x1 + c1) / 10000000000000000000
    let c3 := (x2 + c2) / 10000000000000000000
    let c4 := (x3 + c3) / 10000000000000000000
    (blk_add10VW_U3 s).1.cx = c4 ∧
    (blk_add10VW_U3 s).1.mem =
      (((s.mem.wr ((s.r10 + 8 * s.si) % W) ((x0 + s.cx) % 10000000000000000000)).wr
          ((s.r10 + 8 * s.si + 8) % W) ((x1 + c1) % 10000000000000000000)).wr
          ((s.r10 + 8 * s.si + 16) % W) ((x2 + c2) % 10000000000000000000)).wr
          ((s.r10 + 8 * s.si + 24) % W) ((x3 + c3) % 10000000000000000000) ∧
    (blk_add10VW_U3 s).1.dx = s.dx ∧ (blk_add10VW_U3 s).1.si = s.si + 4 ∧ (blk_add10VW_U3 s).1.di = s.di ∧
    (blk_add10VW_U3 s).1.r8 = s.r8 ∧ (blk_add10VW_U3 s).1.r10 = s.r10 ∧
    (blk_add10VW_U3 s).1.frame = s.frame ∧ (blk_add10VW_U3 s).1.trap = s.trap ∧
    (blk_add10VW_U3 s).2 = (if c4 = 0 then Next.goto Lbl.add10VW_C3 else Next.goto Lbl.add10VW_U3_1) := by
  intro c1 c2 c3 c4
  have hc1 : c1 ≤ 1 := by show (x0 + s.cx) / 10000000000000000000 ≤ 1; omega
  have hc2 : c2 ≤ 1 := by show (x1 + c1) / 10000000000000000000 ≤ 1; omega
  have hc3 : c3 ≤ 1 := by show (x2 + c2) / 10000000000000000000 ≤ 1; omega
  have hc4 : c4 ≤ 1 := by show (x3 + c3) / 10000000000000000000 ≤ 1; omega
  have hsteps := blk_add10VW_U3_steps s
  simp only [Mem.rd_wr_ne _ _ _ _ h01, Mem.rd_wr_ne _ _ _ _ h02, Mem.rd_wr_ne _ _ _ _ h03,
    Mem.rd_wr_ne _ _ _ _ h12, Mem.rd_wr_ne _ _ _ _ h13, Mem.rd_wr_ne _ _ _ _ h23,
    hx0, hx1, hx2, hx3, hdx] at hsteps
  rw [vwAddStep_spec s.bx x0 s.cx hc bx0] at hsteps
  simp only [] at hsteps
  rw [vwAddStep_spec _ x1 c1 hc1 bx1] at hsteps
  simp only [] at hsteps
  rw [vwAddStep_spec _ x2 c2 hc2 bx2] at hsteps
  simp only [] at hsteps
  rw [vwAddStep_spec _ x3 c3 hc3 bx3] at hsteps
  simp only [] at hsteps
  have e4 : (x3 + c3) / 10000000000000000000 = c4 := rfl
  rw [e4] at hsteps
  clear_value c4 c3 c2 c1
  refine ⟨hsteps.1, hsteps.2.1, ?_, ?_, ?_, ?_, ?_, ?_, ?_, ?_⟩
  · simp only [blk_add10VW_U3]
  · simp only [blk_add10VW_U3]; simp only [W_eq]; omega
  · simp only [blk_add10VW_U3]
  · simp only [blk_add10VW_U3]
  · simp only [blk_add10VW_U3]
  · simp only [blk_add10VW_U3]
  · simp only [blk_add10VW_U3]
  · rw [hsteps.2.2]
    have hcc : c4 = 0 ∨ c4 = 1 := by omega
    rcases hcc with h | h
    · subst h
      have : msb (mask (1 - 0)) = true := by decide
      simp only [land_self, this, if_true]; rfl
    · subst h
      have : msb (mask (1 - 1)) = false := by decide
      simp only [land_self, this]; rfl

/-! ## sub10VW -/

theorem blk_sub10VW_entry_spec (s : St) (n : Nat) (hn : s.frame.rd 8 = n) (hn63 : n < 9223372036854775808) :
    (blk_sub10VW_entry s).1.cx = s.frame.rd 48 ∧ (blk_sub10VW_entry s).1.dx = 10000000000000000000 ∧
    (blk_sub10VW_entry s).1.si = 0 ∧ (blk_sub10VW_entry s).1.r8 = s.frame.rd 24 ∧
    (blk_sub10VW_entry s).1.r10 = s.frame.rd 0 ∧
    (blk_sub10VW_entry s).1.mem = s.mem ∧ (blk_sub10VW_entry s).1.frame = s.frame ∧
    (blk_sub10VW_entry s).1.trap = s.trap ∧
    (blk_sub10VW_entry s).1.di = (if n < 4 then 18446744073709551616 - 4 + n else n - 4) ∧
    (blk_sub10VW_entry s).2 = (if n < 4 then Next.goto Lbl.sub10VW_V4 else Next.goto Lbl.sub10VW_U4) := by
  refine ⟨?_, ?_, ?_, ?_, ?_, ?_, ?_, ?_, ?_, ?_⟩
  all_goals simp only [blk_sub10VW_entry, hn, xor_self]
  · simp only [W_eq]; split <;> omega
  · rw [jl_sub n 4 _ hn63 (by omega) (by simp only [W_eq]; omega)]
    simp only [decide_eq_true_eq]

theorem blk_sub10VW_U4_1_spec (s : St) (hdi : s.di < 9223372036854775808) :
    (blk_sub10VW_U4_1 s).1.cx = s.cx ∧ (blk_sub10VW_U4_1 s).1.dx = s.dx ∧
    (blk_sub10VW_U4_1 s).1.si = s.si ∧
    (blk_sub10VW_U4_1 s).1.di = (if 4 ≤ s.di then s.di - 4 else 18446744073709551616 - 4 + s.di) ∧
    (blk_sub10VW_U4_1 s).1.r8 = s.r8 ∧ (blk_sub10VW_U4_1 s).1.r10 = s.r10 ∧
    (blk_sub10VW_U4_1 s).1.mem = s.mem ∧ (blk_sub10VW_U4_1 s).1.frame = s.frame ∧
    (blk_sub10VW_U4_1 s).1.trap = s.trap ∧
    (blk_sub10VW_U4_1 s).2 = (if 4 ≤ s.di then Next.goto Lbl.sub10VW_U4 else Next.goto Lbl.sub10VW_V4) := by
  refine ⟨?_, ?_, ?_, ?_, ?_, ?_, ?_, ?_, ?_, ?_⟩
  all_goals simp only [blk_sub10VW_U4_1]
  · simp only [W_eq]; split <;> omega
  · rw [jge_sub s.di 4 _ hdi (by omega) (by simp only [W_eq]; omega)]
    simp only [decide_eq_true_eq]

theorem blk_sub10VW_V4_spec (s : St) (m : Nat) (hm : m < 4) (hdi : s.di = 18446744073709551616 - 4 + m) :
    (blk_sub10VW_V4 s).1.cx = s.cx ∧ (blk_sub10VW_V4 s).1.dx = s.dx ∧
    (blk_sub10VW_V4 s).1.si = s.si ∧ (blk_sub10VW_V4 s).1.r8 = s.r8 ∧ (blk_sub10VW_V4 s).1.r10 = s.r10 ∧
    (blk_sub10VW_V4 s).1.mem = s.mem ∧ (blk_sub10VW_V4 s).1.frame = s.frame ∧
    (blk_sub10VW_V4 s).1.trap = s.trap ∧ (blk_sub10VW_V4 s).1.di = m ∧
    (blk_sub10VW_V4 s).2 = (if m = 0 then Next.goto Lbl.sub10VW_E4 else Next.goto Lbl.sub10VW_L4) := by
  refine ⟨?_, ?_, ?_, ?_, ?_, ?_, ?_, ?_, ?_, ?_⟩
  all_goals simp only [blk_sub10VW_V4, hdi]
  · simp only [W_eq]; omega
  · rw [jle_add_neg _ 4 _ (by omega) (by omega) (by omega) (by simp only [W_eq]; omega)]
    simp only [decide_eq_true_eq]
    by_cases h0 : m = 0
    · simp only [h0, if_true]; rfl
    · rw [if_neg (by omega), if_neg h0]

/-- L4, the single-step loop body: `z[i] = x[i] - c (+ 10^19 on borrow)`, `c = borrow`
    (the Go loop: `zi, cc := bits.Sub(x[i], c, 0); c = cc; z[i] = zi (+ _DB if c != 0)`) -/
theorem blk_sub10VW_L4_spec (s : St) (x : Nat) (hx : s.mem.rd ((s.r8 + 8 * s.si) % W) = x)
    (hdx : s.dx = 10000000000000000000) (hxb : x < 10000000000000000000) (hc : s.cx < 10000000000000000000)
    (hdi0 : 0 < s.di) (hdi : s.di < 9223372036854775808) (hsi : s.si < 9223372036854775808) :
    (blk_sub10VW_L4 s).1.cx = (if x < s.cx then 1 else 0) ∧
    (blk_sub10VW_L4 s).1.mem = s.mem.wr ((s.r10 + 8 * s.si) % W)
      (if x < s.cx then x + 10000000000000000000 - s.cx else x - s.cx) ∧
    (blk_sub10VW_L4 s).1.dx = s.dx ∧ (blk_sub10VW_L4 s).1.si = s.si + 1 ∧
    (blk_sub10VW_L4 s).1.di = s.di - 1 ∧ (blk_sub10VW_L4 s).1.r8 = s.r8 ∧ (blk_sub10VW_L4 s).1.r10 = s.r10 ∧
    (blk_sub10VW_L4 s).1.frame = s.frame ∧ (blk_sub10VW_L4 s).1.trap = s.trap ∧
    (blk_sub10VW_L4 s).2 = (if 1 < s.di then Next.goto Lbl.sub10VW_L4 else Next.goto Lbl.sub10VW_E4) := by
  have hstep := vwSubStep_spec x s.cx hc hxb
  have e1 : (blk_sub10VW_L4 s).1.cx = (vwSubStep s.dx s.cx (s.mem.rd ((s.r8 + 8 * s.si) % W))).2.1 := by
    simp only [blk_sub10VW_L4, vwSubStep]
  have e2 : (blk_sub10VW_L4 s).1.mem = s.mem.wr ((s.r10 + 8 * s.si) % W)
      (vwSubStep s.dx s.cx (s.mem.rd ((s.r8 + 8 * s.si) % W))).1 := by
    simp only [blk_sub10VW_L4, vwSubStep]
  refine ⟨?_, ?_, ?_, ?_, ?_, ?_, ?_, ?_, ?_, ?_⟩
  · rw [e1, hx, hdx, hstep]
  · rw [e2, hx, hdx, hstep]
  all_goals simp only [blk_sub10VW_L4]
  · simp only [W_eq]; omega
  · simp only [W_eq]; omega
  · rw [jg_sub s.di 1 _ hdi (by omega) (by simp only [W_eq]; omega)]
    simp only [decide_eq_true_eq]

theorem blk_sub10VW_E4_spec (s : St) :
    (blk_sub10VW_E4 s).1.frame = s.frame.wr 56 s.cx ∧ (blk_sub10VW_E4 s).1.mem = s.mem ∧
    (blk_sub10VW_E4 s).1.trap = s.trap ∧ (blk_sub10VW_E4 s).2 = Next.ret := by
  refine ⟨?_, ?_, ?_, ?_⟩
  all_goals simp only [blk_sub10VW_E4]

theorem blk_sub10VW_C4_spec (s : St) (h8 : s.r8 < 18446744073709551616) (h10 : s.r10 < 18446744073709551616) :
    (blk_sub10VW_C4 s).1.cx = s.cx ∧ (blk_sub10VW_C4 s).1.dx = s.dx ∧
    (blk_sub10VW_C4 s).1.si = s.si ∧ (blk_sub10VW_C4 s).1.di = s.di ∧
    (blk_sub10VW_C4 s).1.r8 = s.r8 ∧ (blk_sub10VW_C4 s).1.r10 = s.r10 ∧
    (blk_sub10VW_C4 s).1.mem = s.mem ∧ (blk_sub10VW_C4 s).1.frame = s.frame ∧
    (blk_sub10VW_C4 s).1.trap = s.trap ∧
    (blk_sub10VW_C4 s).2 = (if s.r8 = s.r10 then Next.goto Lbl.sub10VW_E4 else Next.goto Lbl.sub10VW_C4_1) := by
  refine ⟨?_, ?_, ?_, ?_, ?_, ?_, ?_, ?_, ?_, ?_⟩
  all_goals simp only [blk_sub10VW_C4]
  rw [jeq_ptr s.r8 s.r10 h8 h10]
  simp only [decide_eq_true_eq]

theorem blk_sub10VW_C4_1_spec (s : St) :
    (blk_sub10VW_C4_1 s).1.di = s.di ∧ (blk_sub10VW_C4_1 s).1.si = s.si ∧
    (blk_sub10VW_C4_1 s).1.r8 = s.r8 ∧ (blk_sub10VW_C4_1 s).1.r10 = s.r10 ∧
    (blk_sub10VW_C4_1 s).1.mem = s.mem ∧ (blk_sub10VW_C4_1 s).1.frame = s.frame.wr 56 s.cx ∧
    (blk_sub10VW_C4_1 s).1.trap = s.trap ∧
    (blk_sub10VW_C4_1 s).2 = Next.goto Lbl.decCpy_entry := by
  refine ⟨?_, ?_, ?_, ?_, ?_, ?_, ?_, ?_⟩
  all_goals simp only [blk_sub10VW_C4_1]

/-- U4 is four `vwSubStep`s; every load reads the memory as left by the preceding stores -/
theorem blk_sub10VW_U4_steps (s : St) :
    let a0 := vwSubStep s.dx s.cx (s.mem.rd ((s.r8 + 8 * s.si) % W))
    let m1 := s.mem.wr ((s.r10 + 8 * s.si) % W) a0.1
    let a1 := vwSubStep s.dx a0.2.1 (m1.rd ((s.r8 + 8 * s.si + 8) % W))
    let m2 := m1.wr ((s.r10 + 8 * s.si + 8) % W) a1.1
    let a2 := vwSubStep s.dx a1.2.1 (m2.rd ((s.r8 + 8 * s.si + 16) % W))
    let m3 := m2.wr ((s.r10 + 8 * s.si + 16) % W) a2.1
    let a3 := vwSubStep s.dx a2.2.1 (m3.rd ((s.r8 + 8 * s.si + 24) % W))
    let m4 := m3.wr ((s.r10 + 8 * s.si + 24) % W) a3.1
    (blk_sub10VW_U4 s).1.cx = a3.2.1 ∧ (blk_sub10VW_U4 s).1.mem = m4 ∧
    (blk_sub10VW_U4 s).2 = (if decide ((if a3.2.2 = 0 then 0 else 1) = 0) then Next.goto Lbl.sub10VW_C4
      else Next.goto Lbl.sub10VW_U4_1) := by
  intro a0 m1 a1 m2 a2 m3 a3 m4
  refine ⟨?_, ?_, ?_⟩
  · simp only [blk_sub10VW_U4, a3, m3, a2, m2, a1, m1, a0, vwSubStep] <;> rfl
  · simp only [blk_sub10VW_U4, m4, a3, m3, a2, m2, a1, m1, a0, vwSubStep] <;> rfl
  · simp only [blk_sub10VW_U4, a3, m3, a2, m2, a1, m1, a0, vwSubStep] <;> rfl

/-- U4, the 4×-unrolled loop body: four single steps, provided no store of this block hits a word
    that is loaded later in the block (true for `z = x` and for disjoint `z`, `x`) -/
theorem blk_sub10VW_U4_spec (s : St) (x0 x1 x2 x3 : Nat) (hc : s.cx < 10000000000000000000)
    (hdx : s.dx = 10000000000000000000)
    (hx0 : s.mem.rd ((s.r8 + 8 * s.si) % W) = x0) (hx1 : s.mem.rd ((s.r8 + 8 * s.si + 8) % W) = x1)
    (hx2 : s.mem.rd ((s.r8 + 8 * s.si + 16) % W) = x2) (hx3 : s.mem.rd ((s.r8 + 8 * s.si + 24) % W) = x3)
    (bx0 : x0 < 10000000000000000000) (bx1 : x1 < 10000000000000000000)
    (bx2 : x2 < 10000000000000000000) (bx3 : x3 < 10000000000000000000)
    (h01 : (s.r8 + 8 * s.si + 8) % W ≠ (s.r10 + 8 * s.si) % W)
    (h02 : (s.r8 + 8 * s.si + 16) % W ≠ (s.r10 + 8 * s.si) % W)
    (h03 : (s.r8 + 8 * s.si + 24) % W ≠ (s.r10 + 8 * s.si) % W)
    (h12 : (s.r8 + 8 * s.si + 16) % W ≠ (s.r10 + 8 * s.si + 8) % W)
    (h13 : (s.r8 + 8 * s.si + 24) % W ≠ (s.r10 + 8 * s.si + 8) % W)
    (h23 : (s.r8 + 8 * s.si + 24) % W ≠ (s.r10 + 8 * s.si + 16) % W)
    (hsi : s.si < 9223372036854775808) :
    let c1 := if x0 < s.cx then 1 else 0
    let c2 := if x1 < c1 then 1 else 0
    let c3 := if x2 < c2 then 1 else 0
    let c4 := if x3 < c3 then 1 else 0
    (blk_sub10VW_U4 s).1.cx = c4 ∧
    (blk_sub10VW_U4 s).1.mem =
      (((s.mem.wr ((s.r10 + 8 * s.si) % W) (if x0 < s.cx then x0 + 10000000000000000000 - s.cx else x0 - s.cx)).wr
          ((s.r10 + 8 * s.si + 8) % W) (if x1 < c1 then x1 + 10000000000000000000 - c1 else x1 - c1)).wr
          ((s.r10 + 8 * s.si + 16) % W) (if x2 < c2 then x2 + 10000000000000000000 - c2 else x2 - c2)).wr
          ((s.r10 + 8 * s.si + 24) % W) (if x3 < c3 then x3 + 10000000000000000000 - c3 else x3 - c3) ∧
    (blk_sub10VW_U4 s).1.dx = s.dx ∧ (blk_sub10VW_U4 s).1.si = s.si + 4 ∧ (blk_sub10VW_U4 s).1.di = s.di ∧
    (blk_sub10VW_U4 s).1.r8 = s.r8 ∧ (blk_sub10VW_U4 s).1.r10 = s.r10 ∧
    (blk_sub10VW_U4 s).1.frame = s.frame ∧ (blk_sub10VW_U4 s).1.trap = s.trap ∧
    (blk_sub10VW_U4 s).2 = (if c4 = 0 then Next.goto Lbl.sub10VW_C4 else Next.goto Lbl.sub10VW_U4_1) := by
  intro c1 c2 c3 c4
  have hc1 : c1 < 10000000000000000000 := by show (if x0 < s.cx then 1 else 0) < 10000000000000000000; split <;> omega
  have hc2 : c2 < 10000000000000000000 := by show (if x1 < c1 then 1 else 0) < 10000000000000000000; split <;> omega
  have hc3 : c3 < 10000000000000000000 := by show (if x2 < c2 then 1 else 0) < 10000000000000000000; split <;> omega
  have hc4 : c4 = 0 ∨ c4 = 1 := by show (if x3 < c3 then 1 else 0) = 0 ∨ (if x3 < c3 then 1 else 0) = 1; split <;> omega
  have hsteps := blk_sub10VW_U4_steps s
  simp only [Mem.rd_wr_ne _ _ _ _ h01, Mem.rd_wr_ne _ _ _ _ h02, Mem.rd_wr_ne _ _ _ _ h03,
    Mem.rd_wr_ne _ _ _ _ h12, Mem.rd_wr_ne _ _ _ _ h13, Mem.rd_wr_ne _ _ _ _ h23,
    hx0, hx1, hx2, hx3, hdx] at hsteps
  rw [vwSubStep_spec x0 s.cx hc bx0] at hsteps
  simp only [] at hsteps
  have e1 : (if x0 < s.cx then 1 else 0) = c1 := rfl
  rw [e1, vwSubStep_spec x1 c1 hc1 bx1] at hsteps
  simp only [] at hsteps
  have e2 : (if x1 < c1 then 1 else 0) = c2 := rfl
  rw [e2, vwSubStep_spec x2 c2 hc2 bx2] at hsteps
  simp only [] at hsteps
  have e3 : (if x2 < c2 then 1 else 0) = c3 := rfl
  rw [e3, vwSubStep_spec x3 c3 hc3 bx3] at hsteps
  simp only [] at hsteps
  have e4 : (if x3 < c3 then 1 else 0) = c4 := rfl
  rw [e4] at hsteps
  clear_value c4 c3 c2 c1
  refine ⟨hsteps.1, hsteps.2.1, ?_, ?_, ?_, ?_, ?_, ?_, ?_, ?_⟩
  · simp only [blk_sub10VW_U4]
  · simp only [blk_sub10VW_U4]; simp only [W_eq]; omega
  · simp only [blk_sub10VW_U4]
  · simp only [blk_sub10VW_U4]
  · simp only [blk_sub10VW_U4]
  · simp only [blk_sub10VW_U4]
  · simp only [blk_sub10VW_U4]
  · rw [hsteps.2.2]
    rcases hc4 with h | h
    · subst h; rfl
    · subst h; rfl

/-! ## decCpy (copy `n = DI` words from `R8[SI…]` to `R10[SI…]`, ascending) -/

theorem blk_decCpy_entry_spec (s : St) (hdi : s.di < 9223372036854775808) :
    (blk_decCpy_entry s).1.di = (if s.di < 4 then 18446744073709551616 - 4 + s.di else s.di - 4) ∧
    (blk_decCpy_entry s).1.si = s.si ∧ (blk_decCpy_entry s).1.r8 = s.r8 ∧ (blk_decCpy_entry s).1.r10 = s.r10 ∧
    (blk_decCpy_entry s).1.mem = s.mem ∧ (blk_decCpy_entry s).1.frame = s.frame ∧
    (blk_decCpy_entry s).1.trap = s.trap ∧
    (blk_decCpy_entry s).2 = (if s.di < 4 then Next.goto Lbl.decCpy_CV else Next.goto Lbl.decCpy_CU) := by
  refine ⟨?_, ?_, ?_, ?_, ?_, ?_, ?_, ?_⟩
  all_goals simp only [blk_decCpy_entry]
  · simp only [W_eq]; split <;> omega
  · rw [jl_sub s.di 4 _ hdi (by omega) (by simp only [W_eq]; omega)]
    simp only [decide_eq_true_eq]

/-- CU: four words are loaded, then stored -/
theorem blk_decCpy_CU_spec (s : St) (hdi : s.di < 9223372036854775808) (hsi : s.si < 9223372036854775808) :
    (blk_decCpy_CU s).1.mem =
      (((s.mem.wr ((s.r10 + 8 * s.si) % W) (s.mem.rd ((s.r8 + 8 * s.si) % W))).wr
          ((s.r10 + 8 * s.si + 8) % W) (s.mem.rd ((s.r8 + 8 * s.si + 8) % W))).wr
          ((s.r10 + 8 * s.si + 16) % W) (s.mem.rd ((s.r8 + 8 * s.si + 16) % W))).wr
          ((s.r10 + 8 * s.si + 24) % W) (s.mem.rd ((s.r8 + 8 * s.si + 24) % W)) ∧
    (blk_decCpy_CU s).1.si = s.si + 4 ∧
    (blk_decCpy_CU s).1.di = (if 4 ≤ s.di then s.di - 4 else 18446744073709551616 - 4 + s.di) ∧
    (blk_decCpy_CU s).1.r8 = s.r8 ∧ (blk_decCpy_CU s).1.r10 = s.r10 ∧
    (blk_decCpy_CU s).1.frame = s.frame ∧ (blk_decCpy_CU s).1.trap = s.trap ∧
    (blk_decCpy_CU s).2 = (if 4 ≤ s.di then Next.goto Lbl.decCpy_CU else Next.goto Lbl.decCpy_CV) := by
  refine ⟨?_, ?_, ?_, ?_, ?_, ?_, ?_, ?_⟩
  all_goals simp only [blk_decCpy_CU]
  · simp only [W_eq]; omega
  · simp only [W_eq]; split <;> omega
  · rw [jge_sub s.di 4 _ hdi (by omega) (by simp only [W_eq]; omega)]
    simp only [decide_eq_true_eq]

theorem blk_decCpy_CV_spec (s : St) (m : Nat) (hm : m < 4) (hdi : s.di = 18446744073709551616 - 4 + m) :
    (blk_decCpy_CV s).1.di = m ∧ (blk_decCpy_CV s).1.si = s.si ∧
    (blk_decCpy_CV s).1.r8 = s.r8 ∧ (blk_decCpy_CV s).1.r10 = s.r10 ∧
    (blk_decCpy_CV s).1.mem = s.mem ∧ (blk_decCpy_CV s).1.frame = s.frame ∧
    (blk_decCpy_CV s).1.trap = s.trap ∧
    (blk_decCpy_CV s).2 = (if m = 0 then Next.goto Lbl.decCpy_CE else Next.goto Lbl.decCpy_CLoop) := by
  refine ⟨?_, ?_, ?_, ?_, ?_, ?_, ?_, ?_⟩
  all_goals simp only [blk_decCpy_CV, hdi]
  · simp only [W_eq]; omega
  · rw [jle_add_neg _ 4 _ (by omega) (by omega) (by omega) (by simp only [W_eq]; omega)]
    simp only [decide_eq_true_eq]
    by_cases h0 : m = 0
    · simp only [h0, if_true]; rfl
    · rw [if_neg (by omega), if_neg h0]

theorem blk_decCpy_CLoop_spec (s : St) (hdi0 : 0 < s.di) (hdi : s.di < 9223372036854775808)
    (hsi : s.si < 9223372036854775808) :
    (blk_decCpy_CLoop s).1.mem = s.mem.wr ((s.r10 + 8 * s.si) % W) (s.mem.rd ((s.r8 + 8 * s.si) % W)) ∧
    (blk_decCpy_CLoop s).1.si = s.si + 1 ∧ (blk_decCpy_CLoop s).1.di = s.di - 1 ∧
    (blk_decCpy_CLoop s).1.r8 = s.r8 ∧ (blk_decCpy_CLoop s).1.r10 = s.r10 ∧
    (blk_decCpy_CLoop s).1.frame = s.frame ∧ (blk_decCpy_CLoop s).1.trap = s.trap ∧
    (blk_decCpy_CLoop s).2 = (if 1 < s.di then Next.goto Lbl.decCpy_CLoop else Next.goto Lbl.decCpy_CE) := by
  refine ⟨?_, ?_, ?_, ?_, ?_, ?_, ?_, ?_⟩
  all_goals simp only [blk_decCpy_CLoop]
  · simp only [W_eq]; omega
  · simp only [W_eq]; omega
  · rw [jg_sub s.di 1 _ hdi (by omega) (by simp only [W_eq]; omega)]
    simp only [decide_eq_true_eq]

theorem blk_decCpy_CE_spec (s : St) : blk_decCpy_CE s = (s, Next.ret) := rfl

/-! ## decCpyInv (copy `n = SI` words from `R8` to `R10`, from high to low addresses) -/

theorem blk_decCpyInv_entry_spec (s : St) (hsi : s.si < 9223372036854775808) :
    (blk_decCpyInv_entry s).1.si = (if s.si < 4 then 18446744073709551616 - 4 + s.si else s.si - 4) ∧
    (blk_decCpyInv_entry s).1.r8 = s.r8 ∧ (blk_decCpyInv_entry s).1.r10 = s.r10 ∧
    (blk_decCpyInv_entry s).1.mem = s.mem ∧ (blk_decCpyInv_entry s).1.frame = s.frame ∧
    (blk_decCpyInv_entry s).1.trap = s.trap ∧
    (blk_decCpyInv_entry s).2 = (if s.si < 4 then Next.goto Lbl.decCpyInv_CV else Next.goto Lbl.decCpyInv_CU) := by
  refine ⟨?_, ?_, ?_, ?_, ?_, ?_, ?_⟩
  all_goals simp only [blk_decCpyInv_entry]
  · simp only [W_eq]; split <;> omega
  · rw [jl_sub s.si 4 _ hsi (by omega) (by simp only [W_eq]; omega)]
    simp only [decide_eq_true_eq]

/-- CU: the four words at `SI … SI+3` are loaded, then stored; `SI -= 4` -/
theorem blk_decCpyInv_CU_spec (s : St) (hsi : s.si < 9223372036854775808) :
    (blk_decCpyInv_CU s).1.mem =
      (((s.mem.wr ((s.r10 + 8 * s.si) % W) (s.mem.rd ((s.r8 + 8 * s.si) % W))).wr
          ((s.r10 + 8 * s.si + 8) % W) (s.mem.rd ((s.r8 + 8 * s.si + 8) % W))).wr
          ((s.r10 + 8 * s.si + 16) % W) (s.mem.rd ((s.r8 + 8 * s.si + 16) % W))).wr
          ((s.r10 + 8 * s.si + 24) % W) (s.mem.rd ((s.r8 + 8 * s.si + 24) % W)) ∧
    (blk_decCpyInv_CU s).1.si = (if 4 ≤ s.si then s.si - 4 else 18446744073709551616 - 4 + s.si) ∧
    (blk_decCpyInv_CU s).1.r8 = s.r8 ∧ (blk_decCpyInv_CU s).1.r10 = s.r10 ∧
    (blk_decCpyInv_CU s).1.frame = s.frame ∧ (blk_decCpyInv_CU s).1.trap = s.trap ∧
    (blk_decCpyInv_CU s).2 = (if 4 ≤ s.si then Next.goto Lbl.decCpyInv_CU else Next.goto Lbl.decCpyInv_CV) := by
  refine ⟨?_, ?_, ?_, ?_, ?_, ?_, ?_⟩
  all_goals simp only [blk_decCpyInv_CU]
  · simp only [W_eq]; split <;> omega
  · rw [jge_sub s.si 4 _ hsi (by omega) (by simp only [W_eq]; omega)]
    simp only [decide_eq_true_eq]

/-- CV: `SI = m - 4` with `m < 4` words left; `SI += 3` gives the index of the highest one -/
theorem blk_decCpyInv_CV_spec (s : St) (m : Nat) (hm : m < 4) (hsi : s.si = 18446744073709551616 - 4 + m) :
    (blk_decCpyInv_CV s).1.si = (if m = 0 then 18446744073709551615 else m - 1) ∧
    (blk_decCpyInv_CV s).1.r8 = s.r8 ∧ (blk_decCpyInv_CV s).1.r10 = s.r10 ∧
    (blk_decCpyInv_CV s).1.mem = s.mem ∧ (blk_decCpyInv_CV s).1.frame = s.frame ∧
    (blk_decCpyInv_CV s).1.trap = s.trap ∧
    (blk_decCpyInv_CV s).2 = (if m = 0 then Next.goto Lbl.decCpyInv_CE else Next.goto Lbl.decCpyInv_CLoop) := by
  refine ⟨?_, ?_, ?_, ?_, ?_, ?_, ?_⟩
  all_goals simp only [blk_decCpyInv_CV, hsi]
  · simp only [W_eq]; split <;> omega
  · rw [jl_add_neg _ 3 _ (by omega) (by omega) (by omega) (by simp only [W_eq]; omega)]
    simp only [decide_eq_true_eq]
    by_cases h0 : m = 0
    · simp only [h0, if_true]; rfl
    · rw [if_neg (by omega), if_neg h0]

theorem blk_decCpyInv_CLoop_spec (s : St) (hsi : s.si < 9223372036854775808) :
    (blk_decCpyInv_CLoop s).1.mem = s.mem.wr ((s.r10 + 8 * s.si) % W) (s.mem.rd ((s.r8 + 8 * s.si) % W)) ∧
    (blk_decCpyInv_CLoop s).1.si = (if 1 ≤ s.si then s.si - 1 else 18446744073709551615) ∧
    (blk_decCpyInv_CLoop s).1.r8 = s.r8 ∧ (blk_decCpyInv_CLoop s).1.r10 = s.r10 ∧
    (blk_decCpyInv_CLoop s).1.frame = s.frame ∧ (blk_decCpyInv_CLoop s).1.trap = s.trap ∧
    (blk_decCpyInv_CLoop s).2 = (if 1 ≤ s.si then Next.goto Lbl.decCpyInv_CLoop else Next.goto Lbl.decCpyInv_CE) := by
  refine ⟨?_, ?_, ?_, ?_, ?_, ?_, ?_⟩
  all_goals simp only [blk_decCpyInv_CLoop]
  · simp only [W_eq]; split <;> omega
  · rw [jge_sub s.si 1 _ hsi (by omega) (by simp only [W_eq]; omega)]
    simp only [decide_eq_true_eq]

theorem blk_decCpyInv_CE_spec (s : St) : blk_decCpyInv_CE s = (s, Next.ret) := rfl

/-! ## shl10VU -/

theorem blk_shl10VU_entry_spec (s : St) (n : Nat) (hn : s.frame.rd 8 = n) (hn63 : n < 9223372036854775808) :
    (blk_shl10VU_entry s).1.si = (if n < 1 then 18446744073709551615 else n - 1) ∧
    (blk_shl10VU_entry s).1.mem = s.mem ∧ (blk_shl10VU_entry s).1.frame = s.frame ∧
    (blk_shl10VU_entry s).1.trap = s.trap ∧
    (blk_shl10VU_entry s).2 = (if n < 1 then Next.goto Lbl.shl10VU_X8b else Next.goto Lbl.shl10VU_entry_1) := by
  refine ⟨?_, ?_, ?_, ?_, ?_⟩
  all_goals simp only [blk_shl10VU_entry, hn]
  · simp only [W_eq]; split <;> omega
  · rw [jl_sub n 1 _ hn63 (by omega) (by simp only [W_eq]; omega)]
    simp only [decide_eq_true_eq]

theorem blk_shl10VU_entry_1_spec (s : St) :
    (blk_shl10VU_entry_1 s).1.bx = s.frame.rd 48 ∧ (blk_shl10VU_entry_1 s).1.r8 = s.frame.rd 24 ∧
    (blk_shl10VU_entry_1 s).1.r10 = s.frame.rd 0 ∧ (blk_shl10VU_entry_1 s).1.si = s.si ∧
    (blk_shl10VU_entry_1 s).1.mem = s.mem ∧ (blk_shl10VU_entry_1 s).1.frame = s.frame ∧
    (blk_shl10VU_entry_1 s).1.trap = s.trap ∧
    (blk_shl10VU_entry_1 s).2 =
      (if s.frame.rd 48 = 0 then Next.goto Lbl.shl10VU_X8c else Next.goto Lbl.shl10VU_entry_2) := by
  refine ⟨?_, ?_, ?_, ?_, ?_, ?_, ?_, ?_⟩
  all_goals simp only [blk_shl10VU_entry_1, land_self]
  simp only [decide_eq_true_eq]

/-- entry_2: fetches `m = 10^s` (row `s-1`), the divisor `10^(19-s)` (row `18-s`: `d`, `m'`, and the
    two shift bytes with one 16-bit load), and performs the first division `r, l = d.div(x[n-1])` -/
theorem blk_shl10VU_entry_2_spec (s : St) (sh x : Nat) (hsh : s.bx = sh) (hsh1 : 1 ≤ sh) (hsh18 : sh ≤ 18)
    (htab : TabAt s.mem (s.sym "pow10DivTab64")) (hbase : s.sym "pow10DivTab64" + 432 < 18446744073709551616)
    (hx : s.mem.rd ((s.r8 + 8 * s.si) % W) = x) :
    (blk_shl10VU_entry_2 s).1.r11 = (tabRow (sh - 1)).d ∧
    (blk_shl10VU_entry_2 s).1.r12 = (tabRow (18 - sh)).d ∧
    (blk_shl10VU_entry_2 s).1.r13 = (tabRow (18 - sh)).m ∧
    (blk_shl10VU_entry_2 s).1.cx = (tabRow (18 - sh)).post + 256 * (tabRow (18 - sh)).pre ∧
    (blk_shl10VU_entry_2 s).1.ax = (magic_div (tabRow (18 - sh)) x).2 ∧
    (blk_shl10VU_entry_2 s).1.frame = s.frame.wr 56 (magic_div (tabRow (18 - sh)) x).1 ∧
    (blk_shl10VU_entry_2 s).1.si = s.si ∧ (blk_shl10VU_entry_2 s).1.r8 = s.r8 ∧
    (blk_shl10VU_entry_2 s).1.r10 = s.r10 ∧ (blk_shl10VU_entry_2 s).1.mem = s.mem ∧
    (blk_shl10VU_entry_2 s).1.trap = s.trap ∧
    (blk_shl10VU_entry_2 s).2 = (if s.si = 0 then Next.goto Lbl.shl10VU_X8a else Next.goto Lbl.shl10VU_L8) := by
  obtain ⟨hd1, -, -⟩ := htab (sh - 1) (by omega)
  obtain ⟨hd2, hm2, hp2⟩ := htab (18 - sh) (by omega)
  obtain ⟨hpre, hpost⟩ := tabRow_shifts (18 - sh) (by omega)
  generalize tabRow (sh - 1) = row1 at *
  generalize tabRow (18 - sh) = row2 at *
  generalize hb : s.sym "pow10DivTab64" = base at *
  -- the four table addresses
  have a1 : (base % W + 8 * ((W - 3 + sh + 2 * sh) % W)) % W = base + 24 * (sh - 1) := by
    simp only [W_eq]; omega
  have a2 : (base % W + 8 * ((W - 3 + (W + 19 - sh) % W + 2 * ((W + 19 - sh) % W)) % W)) % W
      = base + 24 * (18 - sh) := by
    simp only [W_eq]; omega
  have a3 : (base % W + 8 * ((W - 3 + (W + 19 - sh) % W + 2 * ((W + 19 - sh) % W)) % W) + 8) % W
      = base + 24 * (18 - sh) + 8 := by
    simp only [W_eq]; omega
  have a4 : (base % W + 8 * ((W - 3 + (W + 19 - sh) % W + 2 * ((W + 19 - sh) % W)) % W) + 16) % W
      = base + 24 * (18 - sh) + 16 := by
    simp only [W_eq]; omega
  have f1 := rorw8 row2.pre row2.post (by omega) (by omega)
  have f3 := cl_of row2.pre row2.post hpre
  have f4 := cl_of row2.post row2.pre hpost
  refine ⟨?_, ?_, ?_, ?_, ?_, ?_, ?_, ?_, ?_, ?_, ?_, ?_⟩
  all_goals simp only [blk_shl10VU_entry_2, hsh, hb, a1, a2, a3, a4, hd1, hd2, hm2, hp2, hx]
  · simp only [f1]
  · simp only [f1, f3, f4, magic_div]
    rw [Nat.add_comm x W]
  · simp only [f1, f3, f4, magic_div]
  · simp only [land_self, decide_eq_true_eq]

/-- L8, the loop body of `shl10VU`: `h, l = d.div(x[i-1]); z[i] = t*m + h` with `t = AX`, `m = R11`,
    the divisor `d` (a row of `pow10DivTab64`) in R12/R13/CX -/
theorem blk_shl10VU_L8_spec (s : St) (m : Magic) (x : Nat)
    (hx : s.mem.rd ((W - 8 + s.r8 + 8 * s.si) % W) = x)
    (hr12 : s.r12 = m.d) (hr13 : s.r13 = m.m) (hcx : s.cx = m.post + 256 * m.pre)
    (hpre : m.pre < 64) (hpost : m.post < 64)
    (hsi0 : 0 < s.si) (hsi : s.si < 9223372036854775808) :
    (blk_shl10VU_L8 s).1.ax = (magic_div m x).2 ∧
    (blk_shl10VU_L8 s).1.mem = s.mem.wr ((s.r10 + 8 * s.si) % W) ((s.ax * s.r11 % W + (magic_div m x).1) % W) ∧
    (blk_shl10VU_L8 s).1.cx = s.cx ∧ (blk_shl10VU_L8 s).1.si = s.si - 1 ∧
    (blk_shl10VU_L8 s).1.r8 = s.r8 ∧ (blk_shl10VU_L8 s).1.r10 = s.r10 ∧ (blk_shl10VU_L8 s).1.r11 = s.r11 ∧
    (blk_shl10VU_L8 s).1.r12 = s.r12 ∧ (blk_shl10VU_L8 s).1.r13 = s.r13 ∧
    (blk_shl10VU_L8 s).1.frame = s.frame ∧ (blk_shl10VU_L8 s).1.trap = s.trap ∧
    (blk_shl10VU_L8 s).2 = (if 1 < s.si then Next.goto Lbl.shl10VU_L8 else Next.goto Lbl.shl10VU_X8a) := by
  have f1 := rorw8 m.post m.pre (by omega) (by omega)
  have f2 := rorw8 m.pre m.post (by omega) (by omega)
  have f3 := cl_of m.pre m.post hpre
  have f4 := cl_of m.post m.pre hpost
  refine ⟨?_, ?_, ?_, ?_, ?_, ?_, ?_, ?_, ?_, ?_, ?_, ?_⟩
  all_goals simp only [blk_shl10VU_L8, hx, hr12, hr13, hcx]
  · simp only [f1, f2, f3, f4, magic_div]
    rw [Nat.add_comm x W]
  · simp only [f1, f2, f3, f4, magic_div]
  · simp only [f1, f2]
  · simp only [W_eq]; omega
  · rw [jg_sub s.si 1 _ hsi (by omega) (by simp only [W_eq]; omega)]
    simp only [decide_eq_true_eq]

/-- X8a: the lowest word `z[0] = l*m` -/
theorem blk_shl10VU_X8a_spec (s : St) :
    (blk_shl10VU_X8a s).1.mem = s.mem.wr ((s.r10 + 8 * s.si) % W) (s.ax * s.r11 % W) ∧
    (blk_shl10VU_X8a s).1.frame = s.frame ∧ (blk_shl10VU_X8a s).1.trap = s.trap ∧
    (blk_shl10VU_X8a s).2 = Next.ret := by
  refine ⟨?_, ?_, ?_, ?_⟩
  all_goals simp only [blk_shl10VU_X8a]

theorem blk_shl10VU_X8b_spec (s : St) :
    (blk_shl10VU_X8b s).1.mem = s.mem ∧ (blk_shl10VU_X8b s).1.frame = s.frame.wr 56 0 ∧
    (blk_shl10VU_X8b s).1.trap = s.trap ∧ (blk_shl10VU_X8b s).2 = Next.ret := by
  refine ⟨?_, ?_, ?_, ?_⟩
  all_goals simp only [blk_shl10VU_X8b]

theorem blk_shl10VU_X8c_spec (s : St) (h8 : s.r8 < 18446744073709551616) (h10 : s.r10 < 18446744073709551616) :
    (blk_shl10VU_X8c s).1.si = s.si ∧ (blk_shl10VU_X8c s).1.r8 = s.r8 ∧ (blk_shl10VU_X8c s).1.r10 = s.r10 ∧
    (blk_shl10VU_X8c s).1.mem = s.mem ∧ (blk_shl10VU_X8c s).1.frame = s.frame ∧
    (blk_shl10VU_X8c s).1.trap = s.trap ∧
    (blk_shl10VU_X8c s).2 = (if s.r10 = s.r8 then Next.goto Lbl.shl10VU_X8b else Next.goto Lbl.shl10VU_X8c_1) := by
  refine ⟨?_, ?_, ?_, ?_, ?_, ?_, ?_⟩
  all_goals simp only [blk_shl10VU_X8c]
  rw [jeq_ptr s.r10 s.r8 h10 h8]
  simp only [decide_eq_true_eq]

/-- X8c_1: `s = 0`, not in place: copy all `n = SI + 1` words with `decCpyInv`, result 0 -/
theorem blk_shl10VU_X8c_1_spec (s : St) (hsi : s.si < 9223372036854775808) :
    (blk_shl10VU_X8c_1 s).1.si = s.si + 1 ∧ (blk_shl10VU_X8c_1 s).1.r8 = s.r8 ∧
    (blk_shl10VU_X8c_1 s).1.r10 = s.r10 ∧ (blk_shl10VU_X8c_1 s).1.mem = s.mem ∧
    (blk_shl10VU_X8c_1 s).1.frame = s.frame.wr 56 0 ∧ (blk_shl10VU_X8c_1 s).1.trap = s.trap ∧
    (blk_shl10VU_X8c_1 s).2 = Next.goto Lbl.decCpyInv_entry := by
  refine ⟨?_, ?_, ?_, ?_, ?_, ?_, ?_⟩
  all_goals simp only [blk_shl10VU_X8c_1]
  simp only [W_eq]; omega

/-! ## shr10VU -/

theorem blk_shr10VU_entry_spec (s : St) (n : Nat) (hn : s.frame.rd 8 = n) (hn63 : n < 9223372036854775808) :
    (blk_shr10VU_entry s).1.di = (if n < 1 then 18446744073709551615 else n - 1) ∧
    (blk_shr10VU_entry s).1.mem = s.mem ∧ (blk_shr10VU_entry s).1.frame = s.frame ∧
    (blk_shr10VU_entry s).1.trap = s.trap ∧
    (blk_shr10VU_entry s).2 = (if n < 1 then Next.goto Lbl.shr10VU_X9b else Next.goto Lbl.shr10VU_entry_1) := by
  refine ⟨?_, ?_, ?_, ?_, ?_⟩
  all_goals simp only [blk_shr10VU_entry, hn]
  · simp only [W_eq]; split <;> omega
  · rw [jl_sub n 1 _ hn63 (by omega) (by simp only [W_eq]; omega)]
    simp only [decide_eq_true_eq]

theorem blk_shr10VU_entry_1_spec (s : St) :
    (blk_shr10VU_entry_1 s).1.bx = s.frame.rd 48 ∧ (blk_shr10VU_entry_1 s).1.r8 = s.frame.rd 24 ∧
    (blk_shr10VU_entry_1 s).1.r10 = s.frame.rd 0 ∧ (blk_shr10VU_entry_1 s).1.di = s.di ∧
    (blk_shr10VU_entry_1 s).1.mem = s.mem ∧ (blk_shr10VU_entry_1 s).1.frame = s.frame ∧
    (blk_shr10VU_entry_1 s).1.trap = s.trap ∧
    (blk_shr10VU_entry_1 s).2 =
      (if s.frame.rd 48 = 0 then Next.goto Lbl.shr10VU_X9c else Next.goto Lbl.shr10VU_entry_2) := by
  refine ⟨?_, ?_, ?_, ?_, ?_, ?_, ?_, ?_⟩
  all_goals simp only [blk_shr10VU_entry_1, land_self]
  simp only [decide_eq_true_eq]

/-- entry_2: fetches `m = 10^(19-s)` (row `18-s`), the divisor `10^s` (row `s-1`), and performs the
    first division `h, r = d.div(x[0])`; the result `r*m` is stored -/
theorem blk_shr10VU_entry_2_spec (s : St) (sh x : Nat) (hsh : s.bx = sh) (hsh1 : 1 ≤ sh) (hsh18 : sh ≤ 18)
    (htab : TabAt s.mem (s.sym "pow10DivTab64")) (hbase : s.sym "pow10DivTab64" + 432 < 18446744073709551616)
    (hx : s.mem.rd (s.r8 % W) = x) (hdi : s.di < 9223372036854775808) :
    (blk_shr10VU_entry_2 s).1.r11 = (tabRow (18 - sh)).d ∧
    (blk_shr10VU_entry_2 s).1.r12 = (tabRow (sh - 1)).d ∧
    (blk_shr10VU_entry_2 s).1.r13 = (tabRow (sh - 1)).m ∧
    (blk_shr10VU_entry_2 s).1.cx = (tabRow (sh - 1)).post + 256 * (tabRow (sh - 1)).pre ∧
    (blk_shr10VU_entry_2 s).1.bx = (magic_div (tabRow (sh - 1)) x).1 ∧
    (blk_shr10VU_entry_2 s).1.frame =
      s.frame.wr 56 ((tabRow (18 - sh)).d * (magic_div (tabRow (sh - 1)) x).2 % W) ∧
    (blk_shr10VU_entry_2 s).1.si = 0 ∧ (blk_shr10VU_entry_2 s).1.di = s.di ∧
    (blk_shr10VU_entry_2 s).1.r8 = s.r8 ∧
    (blk_shr10VU_entry_2 s).1.r10 = s.r10 ∧ (blk_shr10VU_entry_2 s).1.mem = s.mem ∧
    (blk_shr10VU_entry_2 s).1.trap = s.trap ∧
    (blk_shr10VU_entry_2 s).2 = (if s.di = 0 then Next.goto Lbl.shr10VU_X9a else Next.goto Lbl.shr10VU_L9) := by
  obtain ⟨hd1, hm1, hp1⟩ := htab (sh - 1) (by omega)
  obtain ⟨hd2, -, -⟩ := htab (18 - sh) (by omega)
  obtain ⟨hpre, hpost⟩ := tabRow_shifts (sh - 1) (by omega)
  generalize tabRow (sh - 1) = row1 at *
  generalize tabRow (18 - sh) = row2 at *
  generalize hb : s.sym "pow10DivTab64" = base at *
  have a1 : (base % W + 8 * ((W - 3 + (W + 19 - sh) % W + 2 * ((W + 19 - sh) % W)) % W)) % W
      = base + 24 * (18 - sh) := by
    simp only [W_eq]; omega
  have a2 : (base % W + 8 * ((W - 3 + sh + 2 * sh) % W)) % W = base + 24 * (sh - 1) := by
    simp only [W_eq]; omega
  have a3 : (base % W + 8 * ((W - 3 + sh + 2 * sh) % W) + 8) % W = base + 24 * (sh - 1) + 8 := by
    simp only [W_eq]; omega
  have a4 : (base % W + 8 * ((W - 3 + sh + 2 * sh) % W) + 16) % W = base + 24 * (sh - 1) + 16 := by
    simp only [W_eq]; omega
  have f1 := rorw8 row1.pre row1.post (by omega) (by omega)
  have f3 := cl_of row1.pre row1.post hpre
  have f4 := cl_of row1.post row1.pre hpost
  refine ⟨?_, ?_, ?_, ?_, ?_, ?_, ?_, ?_, ?_, ?_, ?_, ?_, ?_⟩
  all_goals simp only [blk_shr10VU_entry_2, hsh, hb, a1, a2, a3, a4, hd1, hd2, hm1, hp1, hx]
  · simp only [f1]
  · simp only [f1, f3, f4, magic_div]
  · simp only [f1, f3, f4, magic_div]
    rw [Nat.add_comm x W, Nat.mul_comm row1.d]
  · rw [jge_sub 0 s.di _ (by omega) hdi (by simp only [W_eq]; omega)]
    simp only [decide_eq_true_eq]
    by_cases h0 : s.di = 0
    · rw [if_pos (by omega), if_pos h0]
    · rw [if_neg (by omega), if_neg h0]

/-- L9, the loop body of `shr10VU`: `t := h; h, l = d.div(x[i+1]); z[i] = t + l*m` with `t = BX`,
    `m = R11`, the divisor `d` in R12/R13/CX -/
theorem blk_shr10VU_L9_spec (s : St) (m : Magic) (x : Nat)
    (hx : s.mem.rd ((s.r8 + 8 * s.si + 8) % W) = x)
    (hr12 : s.r12 = m.d) (hr13 : s.r13 = m.m) (hcx : s.cx = m.post + 256 * m.pre)
    (hpre : m.pre < 64) (hpost : m.post < 64)
    (hsi : s.si < s.di) (hdi : s.di < 9223372036854775808) :
    (blk_shr10VU_L9 s).1.bx = (magic_div m x).1 ∧
    (blk_shr10VU_L9 s).1.mem = s.mem.wr ((s.r10 + 8 * s.si) % W) ((s.bx + s.r11 * (magic_div m x).2 % W) % W) ∧
    (blk_shr10VU_L9 s).1.cx = s.cx ∧ (blk_shr10VU_L9 s).1.si = s.si + 1 ∧ (blk_shr10VU_L9 s).1.di = s.di ∧
    (blk_shr10VU_L9 s).1.r8 = s.r8 ∧ (blk_shr10VU_L9 s).1.r10 = s.r10 ∧ (blk_shr10VU_L9 s).1.r11 = s.r11 ∧
    (blk_shr10VU_L9 s).1.r12 = s.r12 ∧ (blk_shr10VU_L9 s).1.r13 = s.r13 ∧
    (blk_shr10VU_L9 s).1.frame = s.frame ∧ (blk_shr10VU_L9 s).1.trap = s.trap ∧
    (blk_shr10VU_L9 s).2 = (if s.si + 1 < s.di then Next.goto Lbl.shr10VU_L9 else Next.goto Lbl.shr10VU_X9a) := by
  have f1 := rorw8 m.post m.pre (by omega) (by omega)
  have f2 := rorw8 m.pre m.post (by omega) (by omega)
  have f3 := cl_of m.pre m.post hpre
  have f4 := cl_of m.post m.pre hpost
  refine ⟨?_, ?_, ?_, ?_, ?_, ?_, ?_, ?_, ?_, ?_, ?_, ?_, ?_⟩
  all_goals simp only [blk_shr10VU_L9, hx, hr12, hr13, hcx]
  · simp only [f1, f2, f3, f4, magic_div]
  · simp only [f1, f2, f3, f4, magic_div]
    rw [Nat.add_comm x W, Nat.mul_comm m.d]
  · simp only [f1, f2]
  · simp only [W_eq]; omega
  · have h1 : (1 + s.si) % W = s.si + 1 := by simp only [W_eq]; omega
    rw [h1, jl_sub (s.si + 1) s.di _ (by omega) hdi (by simp only [W_eq]; omega)]
    simp only [decide_eq_true_eq]

/-- X9a: the highest word `z[n-1] = h` -/
theorem blk_shr10VU_X9a_spec (s : St) :
    (blk_shr10VU_X9a s).1.mem = s.mem.wr ((s.r10 + 8 * s.si) % W) s.bx ∧
    (blk_shr10VU_X9a s).1.frame = s.frame ∧ (blk_shr10VU_X9a s).1.trap = s.trap ∧
    (blk_shr10VU_X9a s).2 = Next.ret := by
  refine ⟨?_, ?_, ?_, ?_⟩
  all_goals simp only [blk_shr10VU_X9a]

theorem blk_shr10VU_X9b_spec (s : St) :
    (blk_shr10VU_X9b s).1.mem = s.mem ∧ (blk_shr10VU_X9b s).1.frame = s.frame.wr 56 0 ∧
    (blk_shr10VU_X9b s).1.trap = s.trap ∧ (blk_shr10VU_X9b s).2 = Next.ret := by
  refine ⟨?_, ?_, ?_, ?_⟩
  all_goals simp only [blk_shr10VU_X9b]

theorem blk_shr10VU_X9c_spec (s : St) (h8 : s.r8 < 18446744073709551616) (h10 : s.r10 < 18446744073709551616) :
    (blk_shr10VU_X9c s).1.di = s.di ∧ (blk_shr10VU_X9c s).1.r8 = s.r8 ∧ (blk_shr10VU_X9c s).1.r10 = s.r10 ∧
    (blk_shr10VU_X9c s).1.mem = s.mem ∧ (blk_shr10VU_X9c s).1.frame = s.frame ∧
    (blk_shr10VU_X9c s).1.trap = s.trap ∧
    (blk_shr10VU_X9c s).2 = (if s.r10 = s.r8 then Next.goto Lbl.shr10VU_X9b else Next.goto Lbl.shr10VU_X9c_1) := by
  refine ⟨?_, ?_, ?_, ?_, ?_, ?_, ?_⟩
  all_goals simp only [blk_shr10VU_X9c]
  rw [jeq_ptr s.r10 s.r8 h10 h8]
  simp only [decide_eq_true_eq]

/-- X9c_1: `s = 0`, not in place: copy all `n = DI + 1` words with `decCpy` from index 0, result 0 -/
theorem blk_shr10VU_X9c_1_spec (s : St) (hdi : s.di < 9223372036854775808) :
    (blk_shr10VU_X9c_1 s).1.di = s.di + 1 ∧ (blk_shr10VU_X9c_1 s).1.si = 0 ∧
    (blk_shr10VU_X9c_1 s).1.r8 = s.r8 ∧
    (blk_shr10VU_X9c_1 s).1.r10 = s.r10 ∧ (blk_shr10VU_X9c_1 s).1.mem = s.mem ∧
    (blk_shr10VU_X9c_1 s).1.frame = s.frame.wr 56 0 ∧ (blk_shr10VU_X9c_1 s).1.trap = s.trap ∧
    (blk_shr10VU_X9c_1 s).2 = Next.goto Lbl.decCpy_entry := by
  refine ⟨?_, ?_, ?_, ?_, ?_, ?_, ?_, ?_⟩
  all_goals simp only [blk_shr10VU_X9c_1, xor_self]
  simp only [W_eq]; omega

end Decimal.Asm
