/-
  `SetFloat64` (DecimalModel/Float.lean) and `pow2` (DecimalModel/Parse.lean).

  * the special inputs (±0, ±Inf, NaN) and the attribute prologue;
  * `round_of_fits`: a coefficient that fits the precision is returned unchanged, `acc = Exact`;
    `round_value_eq`: `Spec.round` depends only on the magnitude `q × 10^k`;
  * `mul_exact`, `quo_exact`: an L1 product / quotient whose exact value `N × 10^j` fits the
    receiver's precision is stored exactly;
  * `pow2_exact`: `pow2 800 n` holds exactly `2^n` for `n ≤ 1126` (full square-and-multiply loop);
  * `setFloat64_correct`: the exact value of the float rounded once.

  The magnitude stored in a finite Decimal is `decMag z 0 = mant × 10^(exp − 19·len)`
  (`Proofs/Accuracy.lean`).
-/
import Proofs.Accuracy
import Proofs.CanonInv
import Proofs.Binary
import DecimalModel.Float

namespace Decimal
open Spec

/-! ### The bit fields and the structure of `setFloat64` -/

/-- Precision of the receiver after the prologue: 17 when it was 0. -/
def f64Prec (z : Dec) : Nat := if z.prec == 0 then 17 else z.prec
def f64Neg (bits : Nat) : Bool := (bits / 2 ^ 63 % 2 : Nat) == 1
def f64E (bits : Nat) : Nat := bits / 2 ^ 52 % 2048
def f64F (bits : Nat) : Nat := bits % 2 ^ 52

/-- The 53-bit significand and the binary exponent, as `SetFloat64` extracts them
    (`math.Frexp` normalisation: subnormals are shifted up to 53 bits). -/
def f64ME (bits : Nat) : Nat × Int :=
  if f64E bits != 0 then (2 ^ 52 + f64F bits, (f64E bits : Int) - 1075)
  else (f64F bits * 2 ^ (53 - (Nat.log2 (f64F bits) + 1)),
        -1074 - ((53 - (Nat.log2 (f64F bits) + 1) : Nat) : Int))

/-- The receiver after the significand has been stored (before scaling). -/
def f64Load (z : Dec) (bits : Nat) : Dec :=
  let m := (f64ME bits).1
  { z with prec := f64Prec z, acc := Exact, neg := f64Neg bits, form := .finite,
           mant := m * 10 ^ dnormShift m (nwords m), len := nwords m, exp := (ndigits m : Int) }

/-- Scaling by `2^e2` at 800 digits; the receiver's precision is restored afterwards. -/
def f64Scale (z : Dec) (e2 : Int) : Dec :=
  if e2 != 0 then
    let z1 : Dec := { z with prec := 800 }
    let t := pow2 800 e2.natAbs
    let z2 := if e2 < 0 then (quo z1 z1 t true false).1 else (mul z1 z1 t true false).1
    { z2 with prec := z.prec }
  else z

theorem f64_prologue (z : Dec) :
    (if z.prec == 0 then { z with prec := 17 } else z) = { z with prec := f64Prec z } := by
  unfold f64Prec
  by_cases h : z.prec = 0 <;> simp [h]

theorem f64Prec_pos (z : Dec) : 1 ≤ f64Prec z := by
  unfold f64Prec
  by_cases h : z.prec = 0
  · simp [h]
  · simp only [beq_iff_eq, h, if_false]; omega

/-! ### Special inputs -/

/-- NaN: `ErrNaN`; only the precision prologue has touched the receiver. -/
theorem setFloat64_nan (z : Dec) (bits : Nat) (hE : f64E bits = 2047) (hF : f64F bits ≠ 0) :
    setFloat64 z bits = ({ z with prec := f64Prec z }, .errNaN) := by
  unfold f64E at hE; unfold f64F at hF
  simp only [setFloat64, f64_prologue, hE, beq_self_eq_true, Bool.true_and, bne_iff_ne, ne_eq, hF,
    not_false_eq_true, if_true]

/-- ±0 ↦ ±0 with the sign bit. -/
theorem setFloat64_zero (z : Dec) (bits : Nat) (hE : f64E bits = 0) (hF : f64F bits = 0) :
    setFloat64 z bits =
      ({ z with prec := f64Prec z, acc := Exact, neg := f64Neg bits, form := .zero }, .ok) := by
  unfold f64E at hE; unfold f64F at hF
  simp only [setFloat64, f64_prologue, hE, hF, f64Neg]
  simp

/-- ±Inf ↦ ±Inf with the sign bit. -/
theorem setFloat64_inf (z : Dec) (bits : Nat) (hE : f64E bits = 2047) (hF : f64F bits = 0) :
    setFloat64 z bits =
      ({ z with prec := f64Prec z, acc := Exact, neg := f64Neg bits, form := .inf }, .ok) := by
  unfold f64E at hE; unfold f64F at hF
  simp only [setFloat64, f64_prologue, hE, hF, f64Neg]
  simp

/-- Finite non-zero input: load the significand, scale, round once. -/
theorem setFloat64_finite (z : Dec) (bits : Nat) (hE : f64E bits ≠ 2047)
    (hnz : ¬ (f64E bits = 0 ∧ f64F bits = 0)) :
    setFloat64 z bits = (round (f64Scale (f64Load z bits) (f64ME bits).2) false, .ok) := by
  have h1 : (f64E bits == 2047) = false := by simp [hE]
  have h2 : (f64E bits == 0 && f64F bits == 0) = false := by
    simp only [Bool.and_eq_false_iff, beq_eq_false_iff_ne, ne_eq]
    by_cases h : f64E bits = 0
    · exact Or.inr (fun h' => hnz ⟨h, h'⟩)
    · exact Or.inl h
  unfold f64E at h1 h2; unfold f64F at h2
  simp only [setFloat64, f64_prologue, h1, h2, Bool.false_and, Bool.false_eq_true, if_false]
  rfl

theorem f64Scale_prec (z : Dec) (e2 : Int) : (f64Scale z e2).prec = z.prec := by
  unfold f64Scale; split <;> rfl

theorem f64Scale_mode (z : Dec) (e2 : Int) : (f64Scale z e2).mode = z.mode := by
  unfold f64Scale
  split
  · simp only; split
    · exact quo_mode _ _ _ _ _
    · exact mul_mode _ _ _ _ _
  · rfl

/-- Precision 17 iff it was 0, mode unchanged: every input, NaN included. -/
theorem setFloat64_prec_mode (z : Dec) (bits : Nat) :
    (setFloat64 z bits).1.prec = f64Prec z ∧ (setFloat64 z bits).1.mode = z.mode := by
  by_cases hE : f64E bits = 2047
  · by_cases hF : f64F bits = 0
    · rw [setFloat64_inf z bits hE hF]; exact ⟨rfl, rfl⟩
    · rw [setFloat64_nan z bits hE hF]; exact ⟨rfl, rfl⟩
  · by_cases hz : f64E bits = 0 ∧ f64F bits = 0
    · rw [setFloat64_zero z bits hz.1 hz.2]; exact ⟨rfl, rfl⟩
    · rw [setFloat64_finite z bits hE hz]
      simp only [round_prec, round_mode, f64Scale_prec, f64Scale_mode]
      exact ⟨rfl, rfl⟩

/-! ### "fits ⇒ exact" and value-invariance of `Spec.round` -/

/-- A coefficient with at most `p` digits is returned unchanged (padded to `p` digits), exactly. -/
theorem round_of_fits (mode : Mode) (p : Nat) (neg : Bool) (N : Nat) (k : Int) (hN : 0 < N)
    (hp : 1 ≤ p) (hfit : ndigits N ≤ p) (h1 : MinExp ≤ (ndigits N : Int) + k)
    (h2 : (ndigits N : Int) + k ≤ MaxExp) :
    Spec.round mode p neg (N : ℚ) k =
      { form := .finite, neg := neg, coef := N * 10 ^ (p - ndigits N),
        exp := (ndigits N : Int) + k, acc := Exact } := by
  rw [← roundInt_eq_round mode p neg N k false (N : ℚ) hN hp (by intro h; cases h) (by simp)]
  exact roundInt_fit mode p neg N k hfit (by omega) (by omega)

theorem round_value_eq_aux (mode : Mode) (p : Nat) (neg : Bool) (q q' : ℚ) (k k' : Int)
    (hq : 0 < q) (hle : k' ≤ k) (h : q * (10 : ℚ) ^ k = q' * (10 : ℚ) ^ k') :
    Spec.round mode p neg q k = Spec.round mode p neg q' k' := by
  have h10 : (10 : ℚ) ≠ 0 := by norm_num
  obtain ⟨s, hs⟩ := Int.eq_ofNat_of_zero_le (show 0 ≤ k - k' by omega)
  have hq' : q' = q * ((10 ^ s : Nat) : ℚ) := by
    have e : (10 : ℚ) ^ k = (10 : ℚ) ^ k' * (10 : ℚ) ^ (s : Int) := by
      rw [← zpow_add₀ h10]; congr 1; omega
    rw [e, ← mul_assoc, mul_comm q, mul_assoc, mul_comm] at h
    have := mul_right_cancel₀ (zpow_ne_zero k' h10) h
    rw [← this, zpow_natCast]; push_cast; ring
  have hk' : k' = k - (s : Int) := by omega
  rw [hq', hk', round_scale mode p neg q k s hq]

/-- `Spec.round` only depends on the magnitude `q × 10^k`. -/
theorem round_value_eq (mode : Mode) (p : Nat) (neg : Bool) (q q' : ℚ) (k k' : Int)
    (hq : 0 < q) (hq' : 0 < q') (h : q * (10 : ℚ) ^ k = q' * (10 : ℚ) ^ k') :
    Spec.round mode p neg q k = Spec.round mode p neg q' k' := by
  by_cases hle : k' ≤ k
  · exact round_value_eq_aux mode p neg q q' k k' hq hle h
  · exact (round_value_eq_aux mode p neg q' q k' k hq' (by omega) h.symm).symm

theorem decMag_zero (z : Dec) : decMag z 0 = (z.mant : ℚ) * (10 : ℚ) ^ intExp z := by
  unfold decMag; rw [intExp_eq]; congr 2; ring

theorem decMag_pos {z : Dec} (h : FinCanon z) : 0 < decMag z 0 := by
  rw [decMag_zero]
  exact mul_pos (by exact_mod_cast h.mant_pos) (zpow_pos (by norm_num) _)

/-- A state that agrees with the rounding of a magnitude `N × 10^j` whose coefficient fits the
    precision holds that magnitude exactly. -/
theorem exact_of_agrees (z : Dec) (mode : Mode) (P : Nat) (neg : Bool) (q : ℚ) (k : Int)
    (N : Nat) (j : Int) (hq : 0 < q) (hN : 0 < N) (hP : 1 ≤ P)
    (hval : q * (10 : ℚ) ^ k = (N : ℚ) * (10 : ℚ) ^ j) (hfit : ndigits N ≤ P)
    (h1 : MinExp ≤ (ndigits N : Int) + j) (h2 : (ndigits N : Int) + j ≤ MaxExp)
    (h : agrees z (Spec.round mode P neg q k) = true) :
    z.form = .finite ∧ z.neg = neg ∧ z.acc = Exact ∧ z.exp = (ndigits N : Int) + j ∧
      decMag z 0 = (N : ℚ) * (10 : ℚ) ^ j := by
  have hNq : (0 : ℚ) < (N : ℚ) := by exact_mod_cast hN
  rw [round_value_eq mode P neg q (N : ℚ) k j hq hNq hval,
    round_of_fits mode P neg N j hN hP hfit h1 h2] at h
  have hag := (agrees_iff _ _).mp h
  have hnd : ndigits (N * 10 ^ (P - ndigits N)) = P := by
    rw [ndigits_mul_pow hN]; omega
  have hm := decMag_of_agrees z _ 0 P h rfl hnd
  refine ⟨hag.1, hag.2.1, hag.2.2.1, (hag.2.2.2 hag.1).1, ?_⟩
  rw [hm]
  unfold resMag
  simp only
  have h10 : (10 : ℚ) ≠ 0 := by norm_num
  push_cast
  rw [mul_assoc, ← zpow_natCast, ← zpow_add₀ h10]
  congr 2
  omega

/-! ### Exact products and quotients -/

/-- The receiver as its own first operand: nothing changes once its precision is non-zero. -/
theorem mul_self_recv (z y : Dec) (h : z.prec ≠ 0) : mul z z y true false = mul z z y false false := by
  have hb : (z.prec == 0) = false := by simp [h]
  simp only [mul, opnd, hb, Bool.false_eq_true, if_false, if_true]

theorem mul_self_all (z : Dec) (h : z.prec ≠ 0) : mul z z z true true = mul z z z false false := by
  have hb : (z.prec == 0) = false := by simp [h]
  simp only [mul, opnd, hb, Bool.false_eq_true, if_false, if_true]

theorem quo_self_recv (z y : Dec) (h : z.prec ≠ 0) : quo z z y true false = quo z z y false false := by
  have hb : (z.prec == 0) = false := by simp [h]
  simp only [quo, opnd, hb, Bool.false_eq_true, if_false, if_true]

theorem effPrec2_of_ne (z x y : Dec) (h : z.prec ≠ 0) : effPrec2 z x y = z.prec := by
  unfold effPrec2
  simp only [beq_iff_eq, h, if_false]

theorem mul_fst_eq_umul (z x y : Dec) (hx : x.form = .finite) (hy : y.form = .finite) :
    (mul z x y).1 = umul { z with prec := effPrec2 z x y, neg := x.neg != y.neg } x y := by
  unfold mul
  simp only [prologue2_eq, opnd, Bool.false_eq_true, if_false, hx, hy,
    beq_self_eq_true, Bool.and_self, if_true]

theorem quo_fst_eq_uquo (z x y : Dec) (hx : x.form = .finite) (hy : y.form = .finite) :
    (quo z x y).1 = uquo { z with prec := effPrec2 z x y, neg := x.neg != y.neg } x y := by
  unfold quo
  simp only [prologue2_eq, opnd, Bool.false_eq_true, if_false, hx, hy,
    beq_self_eq_true, Bool.and_self, if_true]

theorem finCanon_of_canonical {r : Dec} (hc : r.Canonical) (hf : r.form = .finite) : FinCanon r := by
  obtain ⟨a, b, c, d, e, -, -, -⟩ := hc.fin hf
  exact ⟨hf, a, b, e, c, d⟩

/-- A product whose exact value `N × 10^j` has at most `z.prec` digits is stored exactly. -/
theorem mul_exact (z x y : Dec) (hx : FinCanon x) (hy : FinCanon y) (hz0 : z.prec ≠ 0)
    (hzP : z.prec ≤ MaxPrec) (N : Nat) (j : Int) (hN : 0 < N)
    (hval : decMag x 0 * decMag y 0 = (N : ℚ) * (10 : ℚ) ^ j) (hfit : ndigits N ≤ z.prec)
    (h1 : MinExp ≤ (ndigits N : Int) + j) (h2 : (ndigits N : Int) + j ≤ MaxExp) :
    FinCanon (mul z x y).1 ∧ (mul z x y).1.neg = (x.neg != y.neg) ∧ (mul z x y).1.acc = Exact ∧
      decMag (mul z x y).1 0 = (N : ℚ) * (10 : ℚ) ^ j ∧ (mul z x y).1.prec = z.prec ∧
      (mul z x y).1.mode = z.mode ∧ (mul z x y).1.Canonical := by
  have hE := effPrec2_of_ne z x y hz0
  obtain ⟨hag, -, hpr, hmo⟩ := mul_correct z x y hx hy
  rw [hE] at hag hpr
  have h10 : (10 : ℚ) ≠ 0 := by norm_num
  have hxq : (0 : ℚ) < (x.mant : ℚ) := by exact_mod_cast hx.mant_pos
  have hyq : (0 : ℚ) < (y.mant : ℚ) := by exact_mod_cast hy.mant_pos
  have hv : (x.mant : ℚ) * (y.mant : ℚ) * (10 : ℚ) ^ (intExp x + intExp y) = (N : ℚ) * (10 : ℚ) ^ j := by
    rw [← hval, decMag_zero, decMag_zero, zpow_add₀ h10]; ring
  obtain ⟨ef, en, ea, -, em⟩ := exact_of_agrees _ z.mode z.prec _ _ _ N j (mul_pos hxq hyq) hN
    (by omega) hv hfit h1 h2 hag
  have hc : (mul z x y).1.Canonical := by
    rw [mul_fst_eq_umul z x y hx.form_eq hy.form_eq]
    exact umul_canonical _ x y hx.mant_pos hy.mant_pos (by simp only [hE]; omega) (by simp only [hE]; exact hzP)
  exact ⟨finCanon_of_canonical hc ef, en, ea, em, hpr, hmo, hc⟩

/-- A quotient whose exact value `N × 10^j` has at most `z.prec` digits is stored exactly. -/
theorem quo_exact (z x y : Dec) (hx : FinCanon x) (hy : FinCanon y) (hz0 : z.prec ≠ 0)
    (hzP : z.prec ≤ MaxPrec) (N : Nat) (j : Int) (hN : 0 < N)
    (hval : decMag x 0 / decMag y 0 = (N : ℚ) * (10 : ℚ) ^ j) (hfit : ndigits N ≤ z.prec)
    (h1 : MinExp ≤ (ndigits N : Int) + j) (h2 : (ndigits N : Int) + j ≤ MaxExp) :
    FinCanon (quo z x y).1 ∧ (quo z x y).1.neg = (x.neg != y.neg) ∧ (quo z x y).1.acc = Exact ∧
      decMag (quo z x y).1 0 = (N : ℚ) * (10 : ℚ) ^ j ∧ (quo z x y).1.prec = z.prec ∧
      (quo z x y).1.mode = z.mode ∧ (quo z x y).1.Canonical := by
  have hE := effPrec2_of_ne z x y hz0
  obtain ⟨hag, -, hpr, hmo⟩ := quo_correct z x y hx hy
  rw [hE] at hag hpr
  have h10 : (10 : ℚ) ≠ 0 := by norm_num
  have hxq : (0 : ℚ) < (x.mant : ℚ) := by exact_mod_cast hx.mant_pos
  have hyq : (0 : ℚ) < (y.mant : ℚ) := by exact_mod_cast hy.mant_pos
  have hv : (x.mant : ℚ) / (y.mant : ℚ) * (10 : ℚ) ^ (intExp x - intExp y) = (N : ℚ) * (10 : ℚ) ^ j := by
    rw [← hval, decMag_zero, decMag_zero, zpow_sub₀ h10]
    field_simp
  obtain ⟨ef, en, ea, -, em⟩ := exact_of_agrees _ z.mode z.prec _ _ _ N j (div_pos hxq hyq) hN
    (by omega) hv hfit h1 h2 hag
  have hc : (quo z x y).1.Canonical := by
    rw [quo_fst_eq_uquo z x y hx.form_eq hy.form_eq]
    exact uquo_canonical _ x y hx.len_pos hx.nd hx.mant_pos hy.len_pos hy.nd hy.mant_pos
      (by simp only [hE]; omega) (by simp only [hE]; exact hzP)
  exact ⟨finCanon_of_canonical hc ef, en, ea, em, hpr, hmo, hc⟩

/-! ### `pow2` -/

/-- `z` is the positive canonical Decimal holding exactly `2^a`, flagged `Exact`, at precision `P`. -/
def IsPow2 (z : Dec) (P a : Nat) : Prop :=
  FinCanon z ∧ z.neg = false ∧ z.acc = Exact ∧ decMag z 0 = (2 : ℚ) ^ a ∧ z.prec = P ∧ z.Canonical

theorem two_pow_cast (a : Nat) : (2 : ℚ) ^ a = ((2 ^ a : Nat) : ℚ) * (10 : ℚ) ^ (0 : Int) := by
  push_cast; simp

theorem setBits64_pow2 (P a : Nat) (hP : 1 ≤ P) (hPm : P ≤ 2147483647) (hfit : ndigits (2 ^ a) ≤ P) :
    IsPow2 (setBits64 { prec := P } false (2 ^ a) 0) P a := by
  have hpos : 0 < 2 ^ a := Nat.pow_pos (by omega)
  have hb : ((P == 0) = false) := by simp; omega
  obtain ⟨hag, hpr, -⟩ := setBits64_correct { prec := P } false (2 ^ a) 0 hpos
  simp only [hb, Bool.false_eq_true, if_false] at hag hpr
  obtain ⟨ef, en, ea, -, em⟩ := exact_of_agrees _ _ P false _ 0 (2 ^ a) 0
    (by exact_mod_cast hpos) hpos hP rfl hfit (by rw [MinExp_eq]; omega) (by rw [MaxExp_eq]; omega) hag
  have hc : (setBits64 { prec := P } false (2 ^ a) 0).Canonical :=
    setBits64_canonical _ _ _ _
      (canonical_nonfinite (by show P ≤ MaxPrec; rw [MaxPrec_eq]; omega) accOK_exact (by simp))
  exact ⟨finCanon_of_canonical hc ef, en, ea, by rw [em, two_pow_cast], hpr, hc⟩

theorem mul_pow2 (z x y : Dec) (P Px Py a b : Nat) (hx : IsPow2 x Px a) (hy : IsPow2 y Py b)
    (hz : z.prec = P) (hP : 1 ≤ P) (hPm : P ≤ 2147483647) (hfit : ndigits (2 ^ (a + b)) ≤ P) :
    IsPow2 (mul z x y).1 P (a + b) := by
  have hpos : 0 < 2 ^ (a + b) := Nat.pow_pos (by omega)
  obtain ⟨fx, nx, -, vx, -, -⟩ := hx
  obtain ⟨fy, ny, -, vy, -, -⟩ := hy
  obtain ⟨c, n, ac, v, pr, -, can⟩ := mul_exact z x y fx fy (by omega) (by rw [MaxPrec_eq]; omega)
    (2 ^ (a + b)) 0 hpos (by rw [vx, vy, ← two_pow_cast, pow_add]) (by omega)
    (by rw [MinExp_eq]; omega) (by rw [MaxExp_eq]; omega)
  refine ⟨c, ?_, ac, by rw [v, ← two_pow_cast], by omega, can⟩
  rw [n, nx, ny]; rfl

theorem pow2_loop_zero (k : Nat) (z f : Dec) : pow2.loop 0 k z f = z := rfl

theorem pow2_loop_succ (fuel k : Nat) (z f : Dec) :
    pow2.loop (fuel + 1) k z f =
      if k = 0 then z else
        let z' := if k % 2 = 1 then (mul z z f true false).1 else z
        if k % 2 = 1 ∧ k = 1 then z' else pow2.loop fuel (k / 2) z' (mul f f f true true).1 := rfl

/-- The square-and-multiply loop: from `z = 2^a`, `f = 2^b` it returns `2^(a + k·b)`, provided every
    power of two up to that exponent fits the working precision `P` (so every product is exact). -/
theorem pow2_loop_exact (P D : Nat) (hP : 1 ≤ P) (hPm : P + 19 ≤ 2147483647)
    (hD : ∀ e, e ≤ D → ndigits (2 ^ e) ≤ P) :
    ∀ (fuel k a b : Nat) (z f : Dec), IsPow2 z P a → IsPow2 f (P + 19) b → k < 2 ^ fuel →
      a + k * b ≤ D → IsPow2 (pow2.loop fuel k z f) P (a + k * b) := by
  intro fuel
  induction fuel with
  | zero =>
    intro k a b z f hz _ hk _
    have : k = 0 := by simpa using hk
    subst this
    rw [pow2_loop_zero]; simpa using hz
  | succ fuel ih =>
    intro k a b z f hz hf hk hle
    rw [pow2_loop_succ]
    by_cases hk0 : k = 0
    · subst hk0; rw [if_pos rfl]; simpa using hz
    rw [if_neg hk0]
    have hzp : z.prec ≠ 0 := by rw [hz.2.2.2.2.1]; omega
    have hfp : f.prec ≠ 0 := by rw [hf.2.2.2.2.1]; omega
    rw [mul_self_recv z f hzp, mul_self_all f hfp]
    have hdm : k = 2 * (k / 2) + k % 2 := (Nat.div_add_mod k 2).symm
    have hkb : k * b = (k / 2) * (b + b) + (k % 2) * b := by
      conv_lhs => rw [hdm]
      ring
    have hh : k / 2 < 2 ^ fuel := by
      rw [Nat.pow_succ] at hk; omega
    by_cases hodd : k % 2 = 1
    · -- multiply step
      have hab : a + b ≤ D := by
        rw [hkb, hodd] at hle; omega
      have hz' : IsPow2 (mul z z f).1 P (a + b) :=
        mul_pow2 z z f P P (P + 19) a b hz hf hz.2.2.2.2.1 hP (by omega) (hD _ hab)
      simp only [hodd, if_true, true_and]
      by_cases hk1 : k = 1
      · subst hk1; rw [if_pos rfl]; simpa using hz'
      · rw [if_neg hk1]
        have hh1 : 1 ≤ k / 2 := by omega
        have hbb : b + b ≤ D := by
          have : 1 * (b + b) ≤ (k / 2) * (b + b) := Nat.mul_le_mul_right _ hh1
          rw [hkb] at hle; omega
        have hf' : IsPow2 (mul f f f).1 (P + 19) (b + b) :=
          mul_pow2 f f f (P + 19) (P + 19) (P + 19) b b hf hf hf.2.2.2.2.1 (by omega) hPm
            (by have := hD _ hbb; omega)
        have := ih (k / 2) (a + b) (b + b) _ _ hz' hf' hh (by rw [hkb, hodd] at hle; omega)
        have e : a + k * b = a + b + k / 2 * (b + b) := by rw [hkb, hodd]; omega
        rw [e]; exact this
    · have hev : k % 2 = 0 := by omega
      have hne : ¬ (k % 2 = 1 ∧ k = 1) := fun h => hodd h.1
      simp only [hodd, if_false, false_and]
      have hh1 : 1 ≤ k / 2 := by omega
      have hbb : b + b ≤ D := by
        have : 1 * (b + b) ≤ (k / 2) * (b + b) := Nat.mul_le_mul_right _ hh1
        rw [hkb] at hle; omega
      have hf' : IsPow2 (mul f f f).1 (P + 19) (b + b) :=
        mul_pow2 f f f (P + 19) (P + 19) (P + 19) b b hf hf hf.2.2.2.2.1 (by omega) hPm
          (by have := hD _ hbb; omega)
      have := ih (k / 2) a (b + b) _ _ hz hf' hh (by rw [hkb, hev] at hle; omega)
      have e : a + k * b = a + k / 2 * (b + b) := by rw [hkb, hev]; omega
      rw [e]; exact this

set_option exponentiation.threshold 2000 in
/-- every power of two up to `2^1126` has at most 339 digits -/
theorem ndigits_two_pow_le {e : Nat} (h : e ≤ 1126) : ndigits (2 ^ e) ≤ 339 := by
  rw [ndigits_le_iff]
  calc 2 ^ e ≤ 2 ^ 1126 := Nat.pow_le_pow_right (by omega) h
    _ < 10 ^ 339 := by norm_num

/-- `pow2 800 n` is exactly `2^n` for every exponent `SetFloat64` can ask for. -/
theorem pow2_isPow2 (n : Nat) (hn : n ≤ 1126) : IsPow2 (pow2 800 n) 800 n := by
  have hD : ∀ e, e ≤ 1126 → ndigits (2 ^ e) ≤ 800 := fun e he => by
    have := ndigits_two_pow_le he; omega
  unfold pow2
  simp only
  by_cases h64 : n < 64
  · rw [if_pos h64]
    exact setBits64_pow2 800 n (by omega) (by omega) (hD n hn)
  · rw [if_neg h64]
    have hz := setBits64_pow2 800 63 (by omega) (by omega) (hD 63 (by omega))
    have hf := setBits64_pow2 (800 + DW) 1 (by decide) (by decide)
      (by have := hD 1 (by omega); rw [DW_eq]; omega)
    have := pow2_loop_exact 800 1126 (by omega) (by omega) hD 70 (n - 63) 63 1 _ _ hz
      hf
      (by calc n - 63 ≤ 1126 := by omega
            _ < 2 ^ 70 := by norm_num)
      (by omega)
    have e : 63 + (n - 63) * 1 = n := by omega
    rw [e] at this
    simpa using this

/-! ### The exact value of a float64 -/

/-- Magnitude of the finite float64 with the given bit pattern: `F × 2^-1074` for a subnormal,
    `(2^52 + F) × 2^(E − 1075)` for a normal number. -/
def float64Mag (bits : Nat) : ℚ :=
  if f64E bits = 0 then (f64F bits : ℚ) * pow2Rat (-1074)
  else ((2 ^ 52 + f64F bits : Nat) : ℚ) * pow2Rat ((f64E bits : Int) - 1075)

theorem f64E_lt (bits : Nat) : f64E bits < 2048 := Nat.mod_lt _ (by omega)
theorem f64F_lt (bits : Nat) : f64F bits < 2 ^ 52 := Nat.mod_lt _ (by omega)

set_option exponentiation.threshold 2000 in
/-- Every value `M × 2^e` with `M < 2^53`, `−1074 ≤ e ≤ 971` is a decimal `N × 10^j` with at most
    767 significant digits. -/
theorem binary_decimal_expansion (M : Nat) (e : Int) (hM : 0 < M) (hM2 : M < 2 ^ 53)
    (he1 : -1074 ≤ e) (he2 : e ≤ 971) :
    ∃ (N : Nat) (j : Int), 0 < N ∧ ndigits N ≤ 767 ∧ -1074 ≤ j ∧ j ≤ 0 ∧
      (M : ℚ) * (2 : ℚ) ^ e = (N : ℚ) * (10 : ℚ) ^ j := by
  by_cases hneg : e < 0
  · obtain ⟨k, hk⟩ := Int.eq_ofNat_of_zero_le (show 0 ≤ -e by omega)
    have hk' : e = -(k : Int) := by omega
    have hk2 : k ≤ 1074 := by omega
    refine ⟨M * 5 ^ k, -(k : Int), Nat.mul_pos hM (Nat.pow_pos (by omega)), ?_, by omega, by omega, ?_⟩
    · rw [ndigits_le_iff]
      calc M * 5 ^ k < 2 ^ 53 * 5 ^ k := Nat.mul_lt_mul_of_pos_right hM2 (Nat.pow_pos (by omega))
        _ ≤ 2 ^ 53 * 5 ^ 1074 := Nat.mul_le_mul_left _ (Nat.pow_le_pow_right (by omega) hk2)
        _ ≤ 10 ^ 767 := by norm_num
    · rw [hk', zpow_neg, zpow_neg, zpow_natCast, zpow_natCast]
      have h10 : (10 : ℚ) ^ k = (2 : ℚ) ^ k * (5 : ℚ) ^ k := by rw [← mul_pow]; norm_num
      rw [h10]
      push_cast
      field_simp
  · obtain ⟨k, hk⟩ := Int.eq_ofNat_of_zero_le (show 0 ≤ e by omega)
    have hk2 : k ≤ 971 := by omega
    refine ⟨M * 2 ^ k, 0, Nat.mul_pos hM (Nat.pow_pos (by omega)), ?_, by omega, by omega, ?_⟩
    · rw [ndigits_le_iff]
      calc M * 2 ^ k < 2 ^ 53 * 2 ^ k := Nat.mul_lt_mul_of_pos_right hM2 (Nat.pow_pos (by omega))
        _ ≤ 2 ^ 53 * 2 ^ 971 := Nat.mul_le_mul_left _ (Nat.pow_le_pow_right (by omega) hk2)
        _ ≤ 10 ^ 767 := by norm_num
    · rw [hk, zpow_natCast, zpow_zero, mul_one]; push_cast; ring

set_option exponentiation.threshold 2000 in
/-- What `SetFloat64` extracts: a positive 53-bit significand `m`, an exponent with
    `|e2| ≤ 1126`, and `m × 2^e2` is the float's magnitude. -/
theorem f64ME_facts (bits : Nat) (hnz : ¬ (f64E bits = 0 ∧ f64F bits = 0)) :
    0 < (f64ME bits).1 ∧ (f64ME bits).1 < 2 ^ 53 ∧ (f64ME bits).2.natAbs ≤ 1126 ∧
      ((f64ME bits).1 : ℚ) * (2 : ℚ) ^ (f64ME bits).2 = float64Mag bits := by
  have hEl := f64E_lt bits
  have hFl := f64F_lt bits
  by_cases h0 : f64E bits = 0
  · have hF : f64F bits ≠ 0 := fun h => hnz ⟨h0, h⟩
    have hme : f64ME bits = (f64F bits * 2 ^ (53 - (Nat.log2 (f64F bits) + 1)),
        -1074 - ((53 - (Nat.log2 (f64F bits) + 1) : Nat) : Int)) := by
      unfold f64ME; simp [h0]
    have hmag : float64Mag bits = (f64F bits : ℚ) * (2 : ℚ) ^ (-1074 : Int) := by
      unfold float64Mag; rw [if_pos h0, pow2Rat_eq_zpow]
    rw [hme, hmag]
    simp only
    have hlog : f64F bits < 2 ^ (Nat.log2 (f64F bits) + 1) := Nat.lt_log2_self
    have hl : Nat.log2 (f64F bits) + 1 ≤ 52 := by
      have : Nat.log2 (f64F bits) < 52 := (Nat.log2_lt hF).mpr hFl
      omega
    have hl1 : 1 ≤ Nat.log2 (f64F bits) + 1 := by omega
    generalize Nat.log2 (f64F bits) + 1 = l at *
    refine ⟨Nat.mul_pos (by omega) (Nat.pow_pos (by omega)), ?_, ?_, ?_⟩
    · calc f64F bits * 2 ^ (53 - l) < 2 ^ l * 2 ^ (53 - l) :=
            Nat.mul_lt_mul_of_pos_right hlog (Nat.pow_pos (by omega))
        _ = 2 ^ 53 := by rw [← Nat.pow_add]; congr 1; omega
    · omega
    · have h2 : (2 : ℚ) ≠ 0 := by norm_num
      push_cast
      rw [mul_assoc, ← zpow_natCast, ← zpow_add₀ h2]
      congr 2
      omega
  · have hme : f64ME bits = (2 ^ 52 + f64F bits, (f64E bits : Int) - 1075) := by
      unfold f64ME; simp [h0]
    have hmag : float64Mag bits =
        ((2 ^ 52 + f64F bits : Nat) : ℚ) * (2 : ℚ) ^ ((f64E bits : Int) - 1075) := by
      unfold float64Mag; rw [if_neg h0, pow2Rat_eq_zpow]
    rw [hme, hmag]
    simp only
    exact ⟨by omega, by omega, by omega, trivial⟩

/-- The float's magnitude has a decimal expansion of at most 767 digits. -/
theorem float64Mag_expansion (bits : Nat) (hE : f64E bits ≠ 2047)
    (hnz : ¬ (f64E bits = 0 ∧ f64F bits = 0)) :
    ∃ (N : Nat) (j : Int), 0 < N ∧ ndigits N ≤ 767 ∧ -1074 ≤ j ∧ j ≤ 0 ∧
      float64Mag bits = (N : ℚ) * (10 : ℚ) ^ j := by
  have hEl := f64E_lt bits
  have hFl := f64F_lt bits
  unfold float64Mag
  by_cases h0 : f64E bits = 0
  · have hF : f64F bits ≠ 0 := fun h => hnz ⟨h0, h⟩
    simp only [h0, if_true, pow2Rat_eq_zpow]
    exact binary_decimal_expansion _ _ (by omega) (by omega) (by omega) (by omega)
  · simp only [h0, if_false, pow2Rat_eq_zpow]
    exact binary_decimal_expansion _ _ (by omega) (by omega) (by omega) (by omega)

theorem float64Mag_pos (bits : Nat) (hE : f64E bits ≠ 2047)
    (hnz : ¬ (f64E bits = 0 ∧ f64F bits = 0)) : 0 < float64Mag bits := by
  obtain ⟨N, j, hN, -, -, -, h⟩ := float64Mag_expansion bits hE hnz
  rw [h]
  exact mul_pos (by exact_mod_cast hN) (zpow_pos (by norm_num) _)

/-! ### `SetFloat64` of a finite non-zero float -/

/-- Rounding a canonical finite state whose stored magnitude is `q`. -/
theorem round_of_value (z : Dec) (hz : FinCanon z) (q : ℚ) (hq : 0 < q) (hv : decMag z 0 = q) :
    agrees (round z false) (Spec.round z.mode z.prec z.neg q 0) = true
      ∧ (round z false).prec = z.prec ∧ (round z false).mode = z.mode := by
  obtain ⟨h, hp, hm, -⟩ := round_correct' z hz.form_eq hz.len_pos hz.nd hz.prec_pos hz.exp_ge hz.exp_le
  have hmq : (0 : ℚ) < (z.mant : ℚ) := by exact_mod_cast hz.mant_pos
  rw [round_value_eq z.mode z.prec z.neg (z.mant : ℚ) q (intExp z) 0 hmq hq
    (by rw [← decMag_zero, hv, zpow_zero, mul_one])] at h
  exact ⟨h, hp, hm⟩

/-- The loaded significand: canonical at any non-zero precision, magnitude `m`. -/
theorem f64Load_facts (z : Dec) (bits : Nat) (hm : 0 < (f64ME bits).1) (hm2 : (f64ME bits).1 < 2 ^ 53)
    (P : Nat) (hP : 1 ≤ P) :
    FinCanon { f64Load z bits with prec := P } ∧
      decMag { f64Load z bits with prec := P } 0 = ((f64ME bits).1 : ℚ) := by
  have hnd : ndigits (f64ME bits).1 ≤ 16 := by
    rw [ndigits_le_iff]; omega
  have hndp := ndigits_pos hm
  refine ⟨⟨rfl, nwords_pos hm, ndigits_dnorm hm, hP, ?_, ?_⟩, ?_⟩
  · show MinExp ≤ ((ndigits (f64ME bits).1 : Nat) : Int)
    rw [MinExp_eq]; omega
  · show ((ndigits (f64ME bits).1 : Nat) : Int) ≤ MaxExp
    rw [MaxExp_eq]; omega
  · have h10 : (10 : ℚ) ≠ 0 := by norm_num
    unfold decMag
    show (((f64ME bits).1 * 10 ^ dnormShift (f64ME bits).1 (nwords (f64ME bits).1) : Nat) : ℚ) *
        (10 : ℚ) ^ (((ndigits (f64ME bits).1 : Nat) : Int) - 0 - ((nwords (f64ME bits).1 * 19 : Nat) : Int))
        = ((f64ME bits).1 : ℚ)
    have := ndigits_add_dnormShift (f64ME bits).1
    push_cast
    rw [mul_assoc, ← zpow_natCast, ← zpow_add₀ h10]
    have e : ((dnormShift (f64ME bits).1 (nwords (f64ME bits).1) : Nat) : Int) +
        (((ndigits (f64ME bits).1 : Nat) : Int) - 0 - ((nwords (f64ME bits).1 : Nat) : Int) * 19) = 0 := by
      omega
    rw [e, zpow_zero, mul_one]

/-- The state after scaling: canonical, same sign and mode, precision restored, and its stored
    magnitude is exactly the float's. Depends on `pow2` only through `hpow`. -/
theorem f64Scale_exact (hpow : ∀ n, n ≤ 1126 → IsPow2 (pow2 800 n) 800 n)
    (z : Dec) (bits : Nat) (hE : f64E bits ≠ 2047) (hnz : ¬ (f64E bits = 0 ∧ f64F bits = 0)) :
    let s := f64Scale (f64Load z bits) (f64ME bits).2
    FinCanon s ∧ s.neg = f64Neg bits ∧ s.mode = z.mode ∧ s.prec = f64Prec z ∧
      decMag s 0 = float64Mag bits := by
  intro s
  obtain ⟨hm, hm2, he, hval⟩ := f64ME_facts bits hnz
  obtain ⟨N, j, hN, hNd, hj1, hj2, hexp⟩ := float64Mag_expansion bits hE hnz
  have hpp := f64Prec_pos z
  by_cases he0 : (f64ME bits).2 = 0
  · -- no scaling
    have hs : s = { f64Load z bits with prec := f64Prec z } := by
      show f64Scale _ _ = _
      unfold f64Scale; rw [he0]; rfl
    obtain ⟨c, v⟩ := f64Load_facts z bits hm hm2 (f64Prec z) hpp
    rw [hs]
    refine ⟨c, rfl, rfl, rfl, ?_⟩
    rw [v, ← hval, he0, zpow_zero, mul_one]
  · obtain ⟨c1, v1⟩ := f64Load_facts z bits hm hm2 800 (by omega)
    obtain ⟨ct, nt, -, vt, -, -⟩ := hpow _ he
    have hb : ((f64ME bits).2 != 0) = true := by simp [he0]
    have h2 : (2 : ℚ) ≠ 0 := by norm_num
    have hz0 : ({ f64Load z bits with prec := 800 } : Dec).prec ≠ 0 := by show (800 : Nat) ≠ 0; omega
    have hzP : ({ f64Load z bits with prec := 800 } : Dec).prec ≤ MaxPrec := by
      show (800 : Nat) ≤ MaxPrec; rw [MaxPrec_eq]; omega
    have hfit : ndigits N ≤ ({ f64Load z bits with prec := 800 } : Dec).prec := by
      show ndigits N ≤ 800; omega
    by_cases hneg : (f64ME bits).2 < 0
    · have hs : s = { (quo { f64Load z bits with prec := 800 } { f64Load z bits with prec := 800 }
          (pow2 800 (f64ME bits).2.natAbs)).1 with prec := f64Prec z } := by
        show f64Scale _ _ = _
        unfold f64Scale
        simp only [hb, if_true, hneg]
        rw [quo_self_recv _ _ hz0]
        rfl
      have hv : decMag { f64Load z bits with prec := 800 } 0 / decMag (pow2 800 (f64ME bits).2.natAbs) 0
          = (N : ℚ) * (10 : ℚ) ^ j := by
        rw [v1, vt, ← hexp, ← hval]
        have : (f64ME bits).2 = -((f64ME bits).2.natAbs : Int) := by omega
        conv_rhs => rw [this]
        rw [zpow_neg, zpow_natCast]; rfl
      obtain ⟨c, n, -, v, -, mo, -⟩ := quo_exact _ _ _ c1 ct hz0 hzP N j hN hv hfit
        (by rw [MinExp_eq]; omega) (by rw [MaxExp_eq]; omega)
      rw [hs]
      refine ⟨?_, ?_, mo, rfl, ?_⟩
      · exact ⟨c.form_eq, c.len_pos, c.nd, hpp, c.exp_ge, c.exp_le⟩
      · show (quo _ _ _).1.neg = _
        rw [n, nt]; show (f64Neg bits != false) = _; cases f64Neg bits <;> rfl
      · rw [hexp, ← v]; rfl
    · have hs : s = { (mul { f64Load z bits with prec := 800 } { f64Load z bits with prec := 800 }
          (pow2 800 (f64ME bits).2.natAbs)).1 with prec := f64Prec z } := by
        show f64Scale _ _ = _
        unfold f64Scale
        simp only [hb, if_true, hneg, if_false]
        rw [mul_self_recv _ _ hz0]
        rfl
      have hv : decMag { f64Load z bits with prec := 800 } 0 * decMag (pow2 800 (f64ME bits).2.natAbs) 0
          = (N : ℚ) * (10 : ℚ) ^ j := by
        rw [v1, vt, ← hexp, ← hval]
        have : (f64ME bits).2 = ((f64ME bits).2.natAbs : Int) := by omega
        conv_rhs => rw [this]
        rw [zpow_natCast]
      obtain ⟨c, n, -, v, -, mo, -⟩ := mul_exact _ _ _ c1 ct hz0 hzP N j hN hv hfit
        (by rw [MinExp_eq]; omega) (by rw [MaxExp_eq]; omega)
      rw [hs]
      refine ⟨?_, ?_, mo, rfl, ?_⟩
      · exact ⟨c.form_eq, c.len_pos, c.nd, hpp, c.exp_ge, c.exp_le⟩
      · show (mul _ _ _).1.neg = _
        rw [n, nt]; show (f64Neg bits != false) = _; cases f64Neg bits <;> rfl
      · rw [hexp, ← v]; rfl

/-- `SetFloat64` of a finite non-zero float, relative to the exactness of `pow2`. -/
theorem setFloat64_correct_of_pow2 (hpow : ∀ n, n ≤ 1126 → IsPow2 (pow2 800 n) 800 n)
    (z : Dec) (bits : Nat) (hE : f64E bits ≠ 2047) (hnz : ¬ (f64E bits = 0 ∧ f64F bits = 0)) :
    agrees (setFloat64 z bits).1
        (Spec.round z.mode (f64Prec z) (f64Neg bits) (float64Mag bits) 0) = true
      ∧ (setFloat64 z bits).2 = .ok ∧ (setFloat64 z bits).1.prec = f64Prec z
      ∧ (setFloat64 z bits).1.mode = z.mode := by
  obtain ⟨c, n, mo, pr, v⟩ := f64Scale_exact hpow z bits hE hnz
  obtain ⟨h, hp, hm⟩ := round_of_value _ c _ (float64Mag_pos bits hE hnz) v
  rw [setFloat64_finite z bits hE hnz]
  rw [n, mo, pr] at h
  exact ⟨h, rfl, by rw [hp, pr], by rw [hm, mo]⟩

/-- The exact binary value, rounded once to the receiver's precision under its mode. -/
theorem setFloat64_correct (z : Dec) (bits : Nat) (hE : f64E bits ≠ 2047)
    (hnz : ¬ (f64E bits = 0 ∧ f64F bits = 0)) :
    agrees (setFloat64 z bits).1
        (Spec.round z.mode (f64Prec z) (f64Neg bits) (float64Mag bits) 0) = true
      ∧ (setFloat64 z bits).2 = .ok ∧ (setFloat64 z bits).1.prec = f64Prec z
      ∧ (setFloat64 z bits).1.mode = z.mode :=
  setFloat64_correct_of_pow2 pow2_isPow2 z bits hE hnz

/-- Decimal exponent range of a float64 written as `N × 10^j`. -/
theorem float64Mag_exp_range (bits : Nat) (hE : f64E bits ≠ 2047)
    (hnz : ¬ (f64E bits = 0 ∧ f64F bits = 0)) (N : Nat) (j : Int) (hN : 0 < N)
    (hv : float64Mag bits = (N : ℚ) * (10 : ℚ) ^ j) :
    -1074 < (ndigits N : Int) + j ∧ (ndigits N : Int) + j ≤ 767 := by
  obtain ⟨N0, j0, hN0, hNd0, hj1, hj2, hexp⟩ := float64Mag_expansion bits hE hnz
  obtain ⟨a1, a2⟩ := ndigits_cast_bounds hN
  obtain ⟨b1, b2⟩ := ndigits_cast_bounds hN0
  have h10 : (10 : ℚ) ≠ 0 := by norm_num
  have h1 : (1 : ℚ) < 10 := by norm_num
  have hp : ∀ e : Int, (0 : ℚ) < (10 : ℚ) ^ e := fun e => zpow_pos (by norm_num) e
  have hndp := ndigits_pos hN
  -- lower: 10^j0 ≤ v < 10^(nd + j)
  have lo : (10 : ℚ) ^ j0 < (10 : ℚ) ^ ((ndigits N : Int) + j) := by
    have l1 : (10 : ℚ) ^ j0 ≤ float64Mag bits := by
      rw [hexp]
      have : (1 : ℚ) ≤ (N0 : ℚ) := by exact_mod_cast hN0
      calc (10 : ℚ) ^ j0 = 1 * (10 : ℚ) ^ j0 := by ring
        _ ≤ (N0 : ℚ) * (10 : ℚ) ^ j0 := mul_le_mul_of_nonneg_right this (le_of_lt (hp _))
    have l2 : float64Mag bits < (10 : ℚ) ^ ((ndigits N : Int) + j) := by
      rw [hv, zpow_add₀ h10, zpow_natCast]
      exact mul_lt_mul_of_pos_right a2 (hp _)
    exact lt_of_le_of_lt l1 l2
  have up : (10 : ℚ) ^ ((ndigits N : Int) + j - 1) < (10 : ℚ) ^ ((ndigits N0 : Int) + j0) := by
    have u1 : (10 : ℚ) ^ ((ndigits N : Int) + j - 1) ≤ float64Mag bits := by
      have e : (ndigits N : Int) + j - 1 = ((ndigits N - 1 : Nat) : Int) + j := by omega
      rw [hv, e, zpow_add₀ h10, zpow_natCast]
      exact mul_le_mul_of_nonneg_right a1 (le_of_lt (hp _))
    have u2 : float64Mag bits < (10 : ℚ) ^ ((ndigits N0 : Int) + j0) := by
      rw [hexp, zpow_add₀ h10, zpow_natCast]
      exact mul_lt_mul_of_pos_right b2 (hp _)
    exact lt_of_le_of_lt u1 u2
  have c1 := (zpow_lt_zpow_iff_right₀ h1).mp lo
  have c2 := (zpow_lt_zpow_iff_right₀ h1).mp up
  constructor <;> omega

/-- If the float's decimal expansion `N × 10^j` fits the precision, it is stored exactly. -/
theorem setFloat64_exact_when_fits (z : Dec) (bits : Nat) (hE : f64E bits ≠ 2047)
    (hnz : ¬ (f64E bits = 0 ∧ f64F bits = 0)) (N : Nat) (j : Int) (hN : 0 < N)
    (hv : float64Mag bits = (N : ℚ) * (10 : ℚ) ^ j) (hfit : ndigits N ≤ f64Prec z) :
    (setFloat64 z bits).1.form = .finite ∧ (setFloat64 z bits).1.neg = f64Neg bits ∧
      (setFloat64 z bits).1.acc = Exact ∧ decMag (setFloat64 z bits).1 0 = float64Mag bits := by
  obtain ⟨h, -, -, -⟩ := setFloat64_correct z bits hE hnz
  obtain ⟨r1, r2⟩ := float64Mag_exp_range bits hE hnz N j hN hv
  obtain ⟨a, b, c, -, d⟩ := exact_of_agrees _ z.mode (f64Prec z) (f64Neg bits) (float64Mag bits) 0 N j
    (float64Mag_pos bits hE hnz) hN (f64Prec_pos z) (by rw [zpow_zero, mul_one]; exact hv) hfit
    (by rw [MinExp_eq]; omega) (by rw [MaxExp_eq]; omega) h
  exact ⟨a, b, c, by rw [d, hv]⟩

theorem f64Prec_le {z : Dec} (hz : z.prec ≤ MaxPrec) : f64Prec z ≤ MaxPrec := by
  unfold f64Prec
  split
  · rw [MaxPrec_eq]; omega
  · exact hz

/-- `SetFloat64` keeps the receiver canonical (every input, NaN included). -/
theorem setFloat64_canonical (z : Dec) (bits : Nat) (hz : z.Canonical) :
    (setFloat64 z bits).1.Canonical := by
  have hpl := f64Prec_le hz.1
  by_cases hE : f64E bits = 2047
  · by_cases hF : f64F bits = 0
    · rw [setFloat64_inf z bits hE hF]
      exact canonical_nonfinite hpl accOK_exact (by simp)
    · rw [setFloat64_nan z bits hE hF]
      by_cases h0 : z.prec = 0
      · refine canonical_nonfinite hpl hz.2.1 ?_
        intro hf
        have := (hz.fin hf).2.2.2.2.1
        omega
      · have : f64Prec z = z.prec := by
          unfold f64Prec; simp only [beq_iff_eq, h0, if_false]
        rw [this]; exact hz
  · by_cases hzz : f64E bits = 0 ∧ f64F bits = 0
    · rw [setFloat64_zero z bits hzz.1 hzz.2]
      exact canonical_nonfinite hpl accOK_exact (by simp)
    · rw [setFloat64_finite z bits hE hzz]
      obtain ⟨c, -, -, pr, -⟩ := f64Scale_exact pow2_isPow2 z bits hE hzz
      exact round_canonical _ false c.form_eq c.len_pos c.nd c.prec_pos (by rw [pr]; exact hpl)
        c.exp_ge c.exp_le

end Decimal
