/-
  Final forms of the statements about the literal `sqrtInverse` / `Sqrt` (see Properties/C05Lit.lean):
  the two correction loops against `sqrtCandidate`, and the literal `Sqrt` against the specification.
-/
import Proofs.SqrtLitTerm

namespace Decimal
open Spec

/-- The candidate of the abstract model is the root float. -/
theorem rootF_candidate {p1 : Nat} {x : Dec} (hx : WorkX x) (hp1 : 1 ≤ p1) :
    RootF p1 x (sqrtCandidate x.mant x.len x.exp p1).1 (sqrtCandidate x.mant x.len x.exp p1).2.1 := by
  obtain ⟨k1, k2, k3, k4, -⟩ := sqrtCandidate_bracket x.mant x.len x.exp p1 hp1 hx.fin.len_pos hx.fin.nd
    (by have := hx.exp; omega)
  generalize sqrtCandidate x.mant x.len x.exp p1 = cand at *
  obtain ⟨c0, se, inex⟩ := cand
  simp only at k1 k2 k3 k4 ⊢
  rw [← k1] at k3 k4
  have hc0pos : 0 < c0 := by
    rcases Nat.eq_zero_or_pos c0 with h0 | h0
    · rw [h0, ndigits_zero] at k2; omega
    · exact h0
  refine ⟨?_, ?_, ?_, ?_⟩
  · have := pow_le_of_ndigits hc0pos; rwa [k2] at this
  · have := ndigits_lt_pow c0; rwa [k2] at this
  · rw [sqLE_iff_nat]; exact k3
  · rw [sqLE_iff_nat]; exact Nat.not_le.mpr k4

/-- (a) Partial correctness of the two correction loops, from any start: if both exit, `s` is the
    `p1`-digit float with `s² ≤ x < (s+ulp)²`, i.e. the candidate of `sqrtCandidate`. -/
theorem loops_partial_correct {p1 P : Nat} (x : Dec) (hx : WorkX x) (hp1 : 2 ≤ p1) (hpM : p1 ≤ 2147483647)
    (hP1 : 2 * p1 + 1 ≤ P) (hP2 : P ≤ MaxPrec) (f1 f2 : Nat) (s sq ulp u : Dec) (hs : Inv1 p1 s)
    (hsq : sq.prec = P) (s1 sq1 ulp1 : Dec) (o1 : Outcome)
    (h1 : corrLoop1 x f1 s sq ulp = some ((s1, sq1, ulp1), o1))
    (s2 u2 sq2 ulp2 : Dec) (o2 : Outcome)
    (h2 : corrLoop2 x f2 s1 u sq1 ulp1 = some ((s2, u2, sq2, ulp2), o2)) :
    o1 = .ok ∧ o2 = .ok ∧
      ∃ c e, Rep p1 s2 c e ∧ sqLE p1 x c e ∧ ¬ sqLE p1 x (c + 1) e ∧
        c = (sqrtCandidate x.mant x.len x.exp p1).1 ∧ e = (sqrtCandidate x.mant x.len x.exp p1).2.1 := by
  obtain ⟨a1, a2, a3, -, -⟩ := corrLoop1_spec x hx hp1 hpM hP1 hP2 f1 s sq ulp (s1, sq1, ulp1) o1 hs hsq h1
  obtain ⟨b1, -, c, e, b3, b4, b5⟩ := corrLoop2_spec x hx hp1 hpM hP1 hP2 f2 s1 u sq1 ulp1 (s2, u2, sq2, ulp2) o2 a2 a3 h2
  have hroot := rootF_candidate (p1 := p1) hx (by omega)
  obtain ⟨hc, he⟩ := bracket_unique (by omega) b3.lo b3.hi hroot.lo hroot.hi b4 b5 hroot.le hroot.gt
  exact ⟨a1, b1, c, e, b3, b4, b5, hc, he⟩

/-- `agreesValue` does not see low zero words. -/
theorem agreesValue_of_equiv {a b : Dec} {r : SRes} (h : DecEquiv a b) (hb : agreesValue b r = true) :
    agreesValue a r = true := by
  unfold agreesValue at hb ⊢
  rw [agrees_iff] at hb ⊢
  obtain ⟨h1, h2, -, -, -, h6⟩ := h
  obtain ⟨b1, b2, -, b4⟩ := hb
  simp only at b1 b2 b4 ⊢
  refine ⟨by rw [h1, b1], by rw [h2, b2], trivial, fun hf => ?_⟩
  have hfb : b.form = .finite := by rw [← h1, hf]
  obtain ⟨he, hm⟩ := h6 hf
  obtain ⟨be, bm⟩ := b4 hfb
  refine ⟨by rw [he, be], ?_⟩
  have q1 := (mant_rel_iff a.mant a.len b.mant b.len 0).mp hm
  have q2 : qval b.mant (0 - ((b.len * 19 : Nat) : Int)) = qval r.coef (0 - (ndigits r.coef : Int)) := by
    rw [qval_eq_iff]
    have e1 : (0 - ((b.len * 19 : Nat) : Int) - (0 - (ndigits r.coef : Int))).toNat = ndigits r.coef - b.len * 19 := by omega
    have e2 : (0 - (ndigits r.coef : Int) - (0 - ((b.len * 19 : Nat) : Int))).toNat = b.len * 19 - ndigits r.coef := by omega
    rw [e1, e2]; exact bm
  have q3 := q1.trans q2
  rw [qval_eq_iff] at q3
  have e1 : (0 - ((a.len * 19 : Nat) : Int) - (0 - (ndigits r.coef : Int))).toNat = ndigits r.coef - a.len * 19 := by omega
  have e2 : (0 - (ndigits r.coef : Int) - (0 - ((a.len * 19 : Nat) : Int))).toNat = a.len * 19 - ndigits r.coef := by omega
  rw [e1, e2] at q3
  exact q3

end Decimal
