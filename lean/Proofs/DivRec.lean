/-
  L0 recursive division (DecimalModel/DivRec.lean): `divRecursiveStep` (Burnikel–Ziegler style blocks
  of `B = n/2` words with shift `s = B-1`), `divRecursive`, `divLargeRec`, `divFull`.
-/
import Proofs.DivRecLeaf
import Proofs.DivRecArith

set_option linter.unusedVariables false
set_option linter.unusedSimpArgs false
namespace Decimal.L0
open Decimal Decimal.Gen

/-! ### small facts -/

theorem natOf_padTo (x : List Nat) (n : Nat) : natOf (padTo x n) = natOf x := by
  unfold padTo; rw [natOf_append, natOf_zeros]; simp

theorem WF_padTo {x : List Nat} (hx : WF x) (n : Nat) : WF (padTo x n) :=
  WF_append.mpr ⟨hx, WF_zeros _⟩

theorem length_padTo (x : List Nat) (n : Nat) (h : x.length ≤ n) : (padTo x n).length = n := by
  unfold padTo; rw [List.length_append, length_zeros]; omega

/-- a value below `B^k` lives in the low `k` words. -/
theorem natOf_take_of_lt (x : List Nat) (k : Nat) (h : natOf x < B ^ k) : natOf (x.take k) = natOf x := by
  rcases Nat.lt_or_ge x.length k with hk | hk
  · rw [List.take_of_length_le (by omega)]
  · have h1 := natOf_take_drop x k hk
    have h2 : natOf (x.drop k) = 0 := by
      by_contra hne
      have : B ^ k * 1 ≤ B ^ k * natOf (x.drop k) := Nat.mul_le_mul_left _ (by omega)
      omega
    rw [h2] at h1; omega

theorem natOf_drop_eq_zero (x : List Nat) (k : Nat) (hk : k ≤ x.length) (h : natOf x < B ^ k) :
    natOf (x.drop k) = 0 := by
  have h1 := natOf_take_drop x k hk
  by_contra hne
  have : B ^ k * 1 ≤ B ^ k * natOf (x.drop k) := Nat.mul_le_mul_left _ (by omega)
  omega

/-- `cmp` with a possibly un-normalised left operand that is not longer than the (normalised) right. -/
theorem cmp_unnorm (x y : List Nat) (hx : WF x) (hy : WF y) (hny : Normalized y)
    (hl : x.length ≤ y.length) :
    cmp x y = if natOf x < natOf y then -1 else if natOf x > natOf y then 1 else 0 := by
  unfold cmp
  simp only []
  by_cases h : x.length ≠ y.length ∨ x.length = 0
  · rw [if_pos h]
    by_cases h1 : x.length < y.length
    · have := natOf_lt_of_length_lt hx hny h1
      rw [if_pos h1, if_pos this]
    · have h0 : x.length = 0 := by omega
      have hx0 : x = [] := List.eq_nil_of_length_eq_zero h0
      have hy0 : y = [] := List.eq_nil_of_length_eq_zero (by omega)
      subst hx0 hy0
      simp [natOf]
  · rw [if_neg h]
    have hl : x.length = y.length := by omega
    have := cmp_go_spec x.reverse y.reverse (by simp [hl]) (WF_reverse.mpr hx) (WF_reverse.mpr hy)
    rw [List.reverse_reverse, List.reverse_reverse] at this
    exact this

theorem cmp_gt_iff (x y : List Nat) (hx : WF x) (hy : WF y) (hny : Normalized y)
    (hl : x.length ≤ y.length) : cmp x y > 0 ↔ natOf x > natOf y := by
  rw [cmp_unnorm x y hx hy hny hl]
  by_cases h1 : natOf x < natOf y
  · rw [if_pos h1]; constructor
    · intro h; exact absurd h (by decide)
    · intro h; omega
  · rw [if_neg h1]
    by_cases h2 : natOf x > natOf y
    · rw [if_pos h2]; constructor
      · intro _; exact h2
      · intro _; decide
    · rw [if_neg h2]; constructor
      · intro h; exact absurd h (by decide)
      · intro h; omega

/-- a passed test `¬ (qhatv.cmp(uu.norm()) > 0)` is sound whatever the shape of the left operand. -/
theorem cmp_not_gt_sound (x y : List Nat) (hx : WF x) (hy : WF y) (hny : Normalized y)
    (h : ¬ cmp x y > 0) : natOf x ≤ natOf y ∧ x.length ≤ y.length := by
  by_cases hl : x.length ≤ y.length
  · rw [cmp_gt_iff x y hx hy hny hl] at h
    exact ⟨by omega, hl⟩
  · exfalso
    apply h
    unfold cmp
    simp only []
    rw [if_pos (Or.inl (by omega)), if_neg (by omega), if_pos (by omega)]
    decide

theorem addAtChk_ok (z x : List Nat) (i : Nat) (h : i + x.length ≤ z.length) :
    addAtChk z x i = .ok (addAt z x i) := by
  unfold addAtChk
  rw [if_neg (by omega)]

/-! ### one correction -/

theorem corrStep_spec (s : Nat) (v qh qv uu : List Nat) (hv : WF v) (hs : s < v.length)
    (hqh : WF qh) (hqv : WF qv) (huu : WF uu) (hq1 : 1 ≤ natOf qh)
    (hqvv : natOf qv = natOf qh * natOf (v.take s)) (hlen : v.length ≤ uu.length)
    (hfit : natOf uu + B ^ s * natOf (v.drop s) < B ^ uu.length) :
    ∃ qh' qv' uu', corrStep s v qh qv uu = .ok (qh', qv', uu')
      ∧ natOf qh' + 1 = natOf qh ∧ natOf qv' = natOf qh' * natOf (v.take s)
      ∧ natOf uu' = natOf uu + B ^ s * natOf (v.drop s)
      ∧ WF qh' ∧ WF qv' ∧ WF uu' ∧ qh'.length = qh.length ∧ qv'.length = qv.length
      ∧ uu'.length = uu.length := by
  unfold corrStep
  simp only []
  have hvdl : (v.drop s).length = v.length - s := List.length_drop
  have hudl : (uu.drop s).length = uu.length - s := List.length_drop
  rw [addAtChk_ok _ _ 0 (by rw [hvdl, hudl]; omega)]
  simp only []
  -- q̂ - 1
  obtain ⟨q1, q2, q3, q4, q5⟩ := sub10VW_spec qh 1 hqh (by omega)
  have hqlt := natOf_lt hqh
  have hq'lt := natOf_lt q2
  rw [q3] at hq'lt
  have hqne : qh ≠ [] := by intro h; rw [h] at hq1; simp [natOf] at hq1
  have hb0 : (sub10VW qh 1).2 = 0 := by
    have := q5 hqne
    by_contra h
    have h1 : (sub10VW qh 1).2 = 1 := by omega
    rw [h1] at q1; omega
  simp only [hb0, Nat.zero_mul, Nat.add_zero] at q1
  -- the window
  have hsplit := natOf_take_drop uu s (by omega)
  have hpow : B ^ uu.length = B ^ s * B ^ (uu.length - s) := by
    rw [← pow_add]; congr 1; omega
  have hfit' : natOf (uu.drop s) + B ^ 0 * natOf (v.drop s) < B ^ (uu.drop s).length := by
    rw [hudl, pow_zero, Nat.one_mul]
    have : B ^ s * (natOf (uu.drop s) + natOf (v.drop s)) < B ^ s * B ^ (uu.length - s) := by
      rw [Nat.mul_add, ← hpow]; omega
    exact Nat.lt_of_mul_lt_mul_left this
  obtain ⟨a1, a2, a3⟩ := addAt_spec (uu.drop s) (v.drop s) 0 (WF_drop huu _) (WF_drop hv _)
    (by rw [hvdl, hudl]; omega) hfit'
  rw [pow_zero, Nat.one_mul] at a1
  have htl : (uu.take s).length = s := by rw [List.length_take]; omega
  -- q̂·v_l - v_l
  have hvtl : (v.take s).length = s := by rw [List.length_take]; omega
  have hqtl : (qv.take s).length ≤ s := by rw [List.length_take]; omega
  have hpl : (padTo (qv.take s) s).length = s := length_padTo _ _ hqtl
  obtain ⟨b1, b2, b3, b4⟩ := sub10VV_spec (padTo (qv.take s) s) (v.take s) 0
    (WF_padTo (WF_take hqv _) _) (WF_take hv _) (by rw [hpl, hvtl]) (by omega)
  rw [natOf_padTo, hpl, Nat.add_zero] at b1
  rw [hpl] at b3
  have hqvlt := natOf_lt hqv
  have hvle : natOf (v.take s) ≤ natOf qv := by
    rw [hqvv]; exact Nat.le_mul_of_pos_left _ (by omega)
  have hqv' : natOf qv = (natOf (sub10VW qh 1).1 + 1) * natOf (v.take s) := by rw [q1, hqvv]
  have hlolt := natOf_lt b2
  rw [b3] at hlolt
  generalize hlo : sub10VV (padTo (qv.take s) s) (v.take s) 0 = lo at *
  refine ⟨_, _, _, rfl, q1, ?_, ?_, q2, ?_, ?_, q3, ?_, ?_⟩
  · -- value of the new q̂v
    by_cases hgt : qv.length > s
    · rw [if_pos hgt]
      obtain ⟨c1, c2, c3, c4, c5⟩ := sub10VW_spec (qv.drop s) lo.2 (WF_drop hqv _) (by omega)
      have hdl : (qv.drop s).length = qv.length - s := List.length_drop
      have hdne : qv.drop s ≠ [] := by
        intro h; rw [h] at hdl; simp at hdl; omega
      have c5' := c5 hdne
      have hqsplit := natOf_take_drop qv s (by omega)
      have hpq : B ^ qv.length = B ^ s * B ^ (qv.length - s) := by
        rw [← pow_add]; congr 1; omega
      rw [hdl] at c1 c3
      have hrlt := natOf_lt c2
      rw [c3] at hrlt
      have hE : natOf lo.1 + B ^ s * natOf (sub10VW (qv.drop s) lo.2).1 + natOf (v.take s)
          = natOf qv + (sub10VW (qv.drop s) lo.2).2 * B ^ qv.length := by
        rw [hpq]
        linear_combination b1 + B ^ s * c1 + hqsplit
      have hres : natOf (lo.1 ++ (sub10VW (qv.drop s) lo.2).1)
          = natOf lo.1 + B ^ s * natOf (sub10VW (qv.drop s) lo.2).1 := by rw [natOf_append, b3]
      have hreslt : natOf lo.1 + B ^ s * natOf (sub10VW (qv.drop s) lo.2).1 < B ^ qv.length := by
        rw [hpq]
        have : B ^ s * (natOf (sub10VW (qv.drop s) lo.2).1 + 1) ≤ B ^ s * B ^ (qv.length - s) :=
          Nat.mul_le_mul_left _ (by omega)
        rw [Nat.mul_add] at this
        omega
      have hc0 : (sub10VW (qv.drop s) lo.2).2 = 0 := by
        by_contra h
        have h1 : (sub10VW (qv.drop s) lo.2).2 = 1 := by omega
        rw [h1] at hE; omega
      rw [hc0] at hE
      rw [hres]
      have : (natOf (sub10VW qh 1).1 + 1) * natOf (v.take s)
          = natOf (sub10VW qh 1).1 * natOf (v.take s) + natOf (v.take s) := by ring
      omega
    · rw [if_neg hgt]
      have hts : qv.take s = qv := List.take_of_length_le (by omega)
      rw [hts] at b1
      have hps : B ^ qv.length ≤ B ^ s := Nat.pow_le_pow_right B_pos (by omega)
      have hc0 : lo.2 = 0 := by
        by_contra h
        have h1 : lo.2 = 1 := by omega
        rw [h1] at b1; omega
      rw [hc0] at b1
      rw [natOf_take_of_lt lo.1 qv.length (by omega)]
      have : (natOf (sub10VW qh 1).1 + 1) * natOf (v.take s)
          = natOf (sub10VW qh 1).1 * natOf (v.take s) + natOf (v.take s) := by ring
      omega
  · rw [natOf_append, htl, a1, ← hsplit]; ring
  · by_cases hgt : qv.length > s
    · rw [if_pos hgt]
      exact WF_append.mpr ⟨b2, (sub10VW_spec (qv.drop s) lo.2 (WF_drop hqv _) (by omega)).2.1⟩
    · rw [if_neg hgt]; exact WF_take b2 _
  · exact WF_append.mpr ⟨WF_take huu _, a2⟩
  · by_cases hgt : qv.length > s
    · rw [if_pos hgt, List.length_append, b3,
        (sub10VW_spec (qv.drop s) lo.2 (WF_drop hqv _) (by omega)).2.2.1, List.length_drop]
      omega
    · rw [if_neg hgt, List.length_take, b3]; omega
  · rw [List.length_append, htl, a3, hudl]; omega

/-! ### the subtraction of `q̂·v_l` -/

theorem subBlock_spec (qv uu : List Nat) (hqv : WF qv) (huu : WF uu) (hl : qv.length ≤ uu.length)
    (hle : natOf qv ≤ natOf uu) :
    natOf (subBlock qv uu).1 + natOf qv = natOf uu ∧ WF (subBlock qv uu).1
      ∧ (subBlock qv uu).1.length = uu.length ∧ (subBlock qv uu).2 = 0 := by
  unfold subBlock
  simp only []
  have htl : (uu.take qv.length).length = qv.length := by rw [List.length_take]; omega
  have hdl : (uu.drop qv.length).length = uu.length - qv.length := List.length_drop
  obtain ⟨a1, a2, a3, a4⟩ := sub10VV_spec (uu.take qv.length) qv 0 (WF_take huu _) hqv htl (by omega)
  rw [htl, Nat.add_zero] at a1
  rw [htl] at a3
  have hsplit := natOf_take_drop uu qv.length hl
  have hpow : B ^ uu.length = B ^ qv.length * B ^ (uu.length - qv.length) := by
    rw [← pow_add]; congr 1; omega
  have hdlt := natOf_lt a2
  rw [a3] at hdlt
  generalize sub10VV (uu.take qv.length) qv 0 = sb at *
  by_cases hc : sb.2 > 0
  · rw [if_pos hc]
    simp only []
    have hc1 : sb.2 = 1 := by omega
    obtain ⟨c1, c2, c3, c4, c5⟩ := sub10VW_spec (uu.drop qv.length) sb.2 (WF_drop huu _) (by omega)
    rw [hdl] at c1 c3
    have hrlt := natOf_lt c2
    rw [c3] at hrlt
    have hE : natOf sb.1 + B ^ qv.length * natOf (sub10VW (uu.drop qv.length) sb.2).1 + natOf qv
        = natOf uu + (sub10VW (uu.drop qv.length) sb.2).2 * B ^ uu.length := by
      rw [hpow]
      linear_combination a1 + B ^ qv.length * c1 + hsplit
    have hreslt : natOf sb.1 + B ^ qv.length * natOf (sub10VW (uu.drop qv.length) sb.2).1 < B ^ uu.length := by
      rw [hpow]
      have : B ^ qv.length * (natOf (sub10VW (uu.drop qv.length) sb.2).1 + 1)
          ≤ B ^ qv.length * B ^ (uu.length - qv.length) := Nat.mul_le_mul_left _ (by omega)
      rw [Nat.mul_add] at this
      omega
    have hc0 : (sub10VW (uu.drop qv.length) sb.2).2 = 0 := by
      by_contra h
      have : 1 * B ^ uu.length ≤ (sub10VW (uu.drop qv.length) sb.2).2 * B ^ uu.length :=
        Nat.mul_le_mul_right _ (by omega)
      omega
    rw [hc0] at hE
    refine ⟨?_, WF_append.mpr ⟨a2, c2⟩, ?_, hc0⟩
    · rw [natOf_append, a3]; omega
    · rw [List.length_append, a3, c3]; omega
  · rw [if_neg hc]
    simp only []
    have hc0 : sb.2 = 0 := by omega
    rw [hc0] at a1
    refine ⟨?_, WF_append.mpr ⟨a2, WF_drop huu _⟩, ?_, trivial⟩
    · rw [natOf_append, a3]; omega
    · rw [List.length_append, a3, hdl]; omega

/-! ### the correction loop

  `BlockInv`: with `U` the value of the window before the block, `q̂` the current estimate:
  `q̂v = q̂·v_l`, `uu = U - q̂·v_h·B^s`, and `q̂` is not below the true quotient. -/

def BlockInv (s : Nat) (v : List Nat) (U : Nat) (qh qv uu : List Nat) : Prop :=
  WF qh ∧ WF qv ∧ WF uu ∧ natOf qv = natOf qh * natOf (v.take s)
    ∧ natOf uu + natOf qh * (B ^ s * natOf (v.drop s)) = U ∧ U < (natOf qh + 1) * natOf v

theorem corr_once (s : Nat) (v : List Nat) (U : Nat) (qh qv uu : List Nat) (hv : WF v) (hs : s < v.length)
    (hlen : v.length ≤ uu.length) (hU : U < B ^ uu.length) (hI : BlockInv s v U qh qv uu)
    (hgt : natOf qv > natOf uu) :
    ∃ qh' qv' uu', corrStep s v qh qv uu = .ok (qh', qv', uu') ∧ BlockInv s v U qh' qv' uu'
      ∧ natOf qh' + 1 = natOf qh ∧ qh'.length = qh.length ∧ qv'.length = qv.length
      ∧ uu'.length = uu.length ∧ B ^ s * natOf (v.drop s) ≤ natOf uu' := by
  obtain ⟨i1, i2, i3, i4, i5, i6⟩ := hI
  have hq1 : 1 ≤ natOf qh := by
    rcases Nat.eq_zero_or_pos (natOf qh) with h | h
    · rw [h, Nat.zero_mul] at i4; omega
    · exact h
  have hle : B ^ s * natOf (v.drop s) ≤ natOf qh * (B ^ s * natOf (v.drop s)) :=
    Nat.le_mul_of_pos_left _ hq1
  obtain ⟨qh', qv', uu', c1, c2, c3, c4, c5, c6, c7, c8, c9, c10⟩ :=
    corrStep_spec s v qh qv uu hv hs i1 i2 i3 hq1 i4 hlen (by omega)
  have hV := natOf_take_drop v s (by omega)
  refine ⟨qh', qv', uu', c1, ⟨c5, c6, c7, c3, ?_, ?_⟩, c2, c8, c9, c10, by omega⟩
  · rw [c4, ← i5, ← c2]; ring
  · rw [c2]
    have : natOf qh * natOf v = natOf qh * natOf (v.take s) + natOf qh * (B ^ s * natOf (v.drop s)) := by
      rw [← hV]; ring
    omega

theorem length_ge_of_natOf_ge {y : List Nat} (hy : WF y) (n : Nat) (h : B ^ (n - 1) ≤ natOf y)
    (hn : 1 ≤ n) : n ≤ y.length := by
  by_contra hc
  have h1 := natOf_lt hy
  have h2 : B ^ y.length ≤ B ^ (n - 1) := Nat.pow_le_pow_right B_pos (by omega)
  omega

theorem corr2_spec (s : Nat) (v : List Nat) (U : Nat) (qh qv uu : List Nat) (hv : WF v) (hs : s < v.length)
    (hlen : v.length ≤ uu.length) (hU : U < B ^ uu.length) (hI : BlockInv s v U qh qv uu)
    (hnq : Normalized qv) (hql : qv.length ≤ v.length)
    (hvh : B ^ (v.length - 1) ≤ B ^ s * natOf (v.drop s)) :
    ∃ qh' qv' uu', corr2 s v qh qv uu = .ok (qh', qv', uu') ∧ BlockInv s v U qh' qv' uu'
      ∧ qh'.length = qh.length ∧ uu'.length = uu.length
      ∧ ((natOf qh' + 2 = natOf qh ∧ qv'.length ≤ (norm uu').length) ∨ ¬ cmp qv' (norm uu') > 0) := by
  unfold corr2
  have hn1 : 1 ≤ v.length := by omega
  by_cases t1 : cmp qv (norm uu) > 0
  · rw [if_pos t1]
    have hgt : natOf qv > natOf uu := by
      have hc := cmp_spec qv (norm uu) hI.2.1 (WF_norm hI.2.2.1) hnq (Normalized_norm _)
      rw [natOf_norm] at hc
      by_contra hle
      rw [hc] at t1
      by_cases h1 : natOf qv < natOf uu
      · rw [if_pos h1] at t1; exact absurd t1 (by decide)
      · rw [if_neg h1, if_neg hle] at t1; exact absurd t1 (by decide)
    obtain ⟨qh1, qv1, uu1, c1, c2, c3, c4, c5, c6, c7⟩ := corr_once s v U qh qv uu hv hs hlen hU hI hgt
    rw [c1]
    simp only []
    have hl1 : qv1.length ≤ (norm uu1).length := by
      have := length_ge_of_natOf_ge (WF_norm c2.2.2.1) v.length (by rw [natOf_norm]; omega) hn1
      omega
    by_cases t2 : cmp qv1 (norm uu1) > 0
    · rw [if_pos t2]
      have hgt2 : natOf qv1 > natOf uu1 := by
        have := (cmp_gt_iff qv1 (norm uu1) c2.2.1 (WF_norm c2.2.2.1) (Normalized_norm _) hl1).mp t2
        rw [natOf_norm] at this; exact this
      obtain ⟨qh2, qv2, uu2, d1, d2, d3, d4, d5, d6, d7⟩ :=
        corr_once s v U qh1 qv1 uu1 hv hs (by omega) (by rw [c6]; exact hU) c2 hgt2
      refine ⟨qh2, qv2, uu2, d1, d2, by omega, by omega, Or.inl ⟨by omega, ?_⟩⟩
      have := length_ge_of_natOf_ge (WF_norm d2.2.2.1) v.length (by rw [natOf_norm]; omega) hn1
      omega
    · rw [if_neg t2]
      exact ⟨qh1, qv1, uu1, rfl, c2, c4, c6, Or.inr t2⟩
  · rw [if_neg t1]
    exact ⟨qh, qv, uu, rfl, hI, rfl, rfl, Or.inr t1⟩

/-! ### one block -/

/-- what a (recursive) call of the step function is required to deliver on one particular call. -/
def CallOK (f : Nat → Nat → List Nat → List Nat → Except String (List Nat × List Nat × Nat))
    (k ql : Nat) (hi vhi : List Nat) : Prop :=
  ∃ qz r k', f k ql hi vhi = .ok (qz, r, k') ∧ natOf hi = natOf qz * natOf vhi + natOf r
    ∧ natOf r < natOf vhi ∧ WF qz ∧ WF r ∧ r.length = hi.length

theorem divBlock_spec (rec : Nat → Nat → List Nat → List Nat → Except String (List Nat × List Nat × Nat))
    (kthr s ql k hiLen : Nat) (uu v : List Nat) (hk : 1 ≤ kthr) (hv : WF v) (huu : WF uu)
    (hsn : 2 * s + 2 ≤ v.length)
    (hvh : B ^ (v.length - 1) ≤ B ^ s * natOf (v.drop s))
    (hvh2 : B ^ (v.length - s) ≤ 2 * natOf (v.drop s))
    (hhi : s + hiLen ≤ uu.length) (hlen : v.length ≤ uu.length)
    (htop : natOf (uu.drop (s + hiLen)) = 0) (hsize : natOf uu < B ^ (v.length + s + 1))
    (hrec : CallOK rec k ql ((uu.drop s).take hiLen) (v.drop s)) :
    ∃ qh uu' k' c, divBlock rec kthr s ql k hiLen uu v = .ok (qh, uu', k', c) ∧ c = 0
      ∧ natOf uu = natOf qh * natOf v + natOf uu' ∧ natOf uu' < natOf v ∧ WF qh ∧ WF uu'
      ∧ uu'.length = uu.length
      ∧ (∀ L, natOf ((uu.drop s).take hiLen) < natOf (v.drop s) * B ^ L → qh.length ≤ L) := by
  obtain ⟨qz, r, k', r1, r2, r3, r4, r5, r6⟩ := hrec
  unfold divBlock
  rw [r1]
  simp only []
  have hV := natOf_take_drop v s (by omega)
  have hvtl : (v.take s).length = s := by rw [List.length_take]; omega
  have hsp := natOf_split3 uu s hiLen hhi
  rw [htop, Nat.mul_zero, Nat.add_zero] at hsp
  have hUl := natOf_lt (WF_take huu s)
  have hutl : (uu.take s).length = s := by rw [List.length_take]; omega
  rw [hutl] at hUl
  have hhil : ((uu.drop s).take hiLen).length = hiLen := by
    rw [List.length_take, List.length_drop]; omega
  rw [hhil] at r6
  generalize hhidef : (uu.drop s).take hiLen = hi at *
  have hvhpos : 0 < natOf (v.drop s) := by
    have := Bpow_pos (v.length - s); omega
  -- the window after the recursive call
  have hu1w : WF (uu.take s ++ r ++ uu.drop (s + hiLen)) :=
    WF_append.mpr ⟨WF_append.mpr ⟨WF_take huu _, r5⟩, WF_drop huu _⟩
  have hu1l : (uu.take s ++ r ++ uu.drop (s + hiLen)).length = uu.length := by
    simp only [List.length_append, hutl, r6, List.length_drop]; omega
  have hu1v : natOf (uu.take s ++ r ++ uu.drop (s + hiLen)) = natOf (uu.take s) + B ^ s * natOf r := by
    rw [natOf_join3, hutl, htop]; ring
  generalize uu.take s ++ r ++ uu.drop (s + hiLen) = uu1 at *
  -- q̂ and q̂·v_l
  have hq0v : natOf (norm qz) = natOf qz := natOf_norm _
  have hq0w : WF (norm qz) := WF_norm r4
  have hq0n : Normalized (norm qz) := Normalized_norm _
  generalize norm qz = q0 at *
  obtain ⟨m1, m2, m3⟩ := mul_spec kthr hk (q0.length + s + 1) q0 (v.take s) hq0w (WF_take hv _)
    (by rw [hvtl]; omega)
  have hml := MulSpec_length ⟨m1, m2, m3⟩ hq0w (WF_take hv _)
  rw [hvtl] at hml
  generalize mul kthr (q0.length + s + 1) q0 (v.take s) = qv0 at *
  -- size of q̂
  have hUh : natOf hi < B ^ (v.length + 1) := by
    have h1 : B ^ (v.length + s + 1) = B ^ s * B ^ (v.length + 1) := by
      rw [← pow_add]; congr 1; omega
    have h2 : B ^ s * natOf hi < B ^ s * B ^ (v.length + 1) := by omega
    exact Nat.lt_of_mul_lt_mul_left h2
  have hqvh : natOf q0 * natOf (v.drop s) ≤ natOf hi := by rw [hq0v]; omega
  have hvhge : B ^ (v.length - 1 - s) ≤ natOf (v.drop s) := by
    have h1 : B ^ (v.length - 1) = B ^ s * B ^ (v.length - 1 - s) := by
      rw [← pow_add]; congr 1; omega
    rw [h1] at hvh
    exact Nat.le_of_mul_le_mul_left hvh (Bpow_pos s)
  have hq0lt : natOf q0 < B ^ (s + 2) := by
    have h1 : B ^ (v.length + 1) = B ^ (s + 2) * B ^ (v.length - 1 - s) := by
      rw [← pow_add]; congr 1; omega
    have h2 : natOf q0 * B ^ (v.length - 1 - s) ≤ natOf q0 * natOf (v.drop s) := Nat.mul_le_mul_left _ hvhge
    have h3 : natOf q0 * B ^ (v.length - 1 - s) < B ^ (s + 2) * B ^ (v.length - 1 - s) := by omega
    exact Nat.lt_of_mul_lt_mul_right h3
  have hq0len : q0.length ≤ s + 2 := length_le_of_natOf_lt hq0n _ hq0lt
  -- the invariant before the corrections
  have hI : BlockInv s v (natOf uu) q0 qv0 uu1 := by
    refine ⟨hq0w, m2, hu1w, m1, ?_, ?_⟩
    · rw [hu1v, hsp, r2, hq0v]; ring
    · have := bz_lt (B ^ s) (natOf (v.drop s)) (natOf (v.take s)) (natOf hi) (natOf (uu.take s))
        (natOf q0) (natOf r) hUl (by rw [hq0v]; exact r2) r3
      rw [hsp, ← hV]
      have e1 : natOf hi * B ^ s + natOf (uu.take s) = natOf (uu.take s) + B ^ s * natOf hi := by ring
      have e2 : natOf (v.drop s) * B ^ s + natOf (v.take s) = natOf (v.take s) + B ^ s * natOf (v.drop s) := by
        ring
      rw [e1, e2] at this
      exact this
  obtain ⟨qh', qv', uu2, c1, c2, c3, c4, c5⟩ := corr2_spec s v (natOf uu) q0 qv0 uu1 hv (by omega)
    (by omega) (by rw [hu1l]; exact natOf_lt huu) hI m3 (by omega) hvh
  rw [c1]
  simp only []
  obtain ⟨i1, i2, i3, i4, i5, i6⟩ := c2
  have hqV : natOf qh' * natOf v = natOf qh' * natOf (v.take s) + natOf qh' * (B ^ s * natOf (v.drop s)) := by
    rw [← hV]; ring
  have hpass : ¬ cmp qv' (norm uu2) > 0 := by
    rcases c5 with ⟨h2, hl⟩ | h
    · intro hgt
      have hgt' := (cmp_gt_iff qv' (norm uu2) i2 (WF_norm i3) (Normalized_norm _) hl).mp hgt
      rw [natOf_norm] at hgt'
      -- two corrections were made: (q̂-2)·v ≤ U by Lemma 2
      have hk2 : natOf qh' ≤ 2 * natOf (v.drop s) := by
        have h1 : B ^ (s + 2) ≤ B ^ (v.length - s) := Nat.pow_le_pow_right B_pos (by omega)
        omega
      have := bz_two (B ^ s) (natOf (v.drop s)) (natOf (v.take s)) (natOf hi) (natOf (uu.take s))
        (natOf qh') (natOf r) (by have := natOf_lt (WF_take hv s); rw [hvtl] at this; exact this)
        (by rw [h2, hq0v]; exact r2) hk2
      have e1 : natOf hi * B ^ s + natOf (uu.take s) = natOf uu := by rw [hsp]; ring
      have e2 : natOf (v.drop s) * B ^ s + natOf (v.take s) = natOf v := by rw [← hV]; ring
      rw [e1, e2] at this
      omega
    · exact h
  rw [if_neg hpass]
  obtain ⟨p1, p2⟩ := cmp_not_gt_sound qv' (norm uu2) i2 (WF_norm i3) (Normalized_norm _) hpass
  rw [natOf_norm] at p1
  have hnl := length_norm_le uu2
  obtain ⟨b1, b2, b3, b4⟩ := subBlock_spec qv' uu2 i2 i3 (by omega) p1
  refine ⟨qh', (subBlock qv' uu2).1, k', (subBlock qv' uu2).2, rfl, b4, by omega, ?_, i1, b2, by omega, ?_⟩
  · have : (natOf qh' + 1) * natOf v = natOf qh' * natOf v + natOf v := by ring
    omega
  · intro L hL
    rw [c3]
    apply length_le_of_natOf_lt hq0n
    have h1 : natOf q0 * natOf (v.drop s) < B ^ L * natOf (v.drop s) := by
      rw [Nat.mul_comm (B ^ L)]; omega
    exact Nat.lt_of_mul_lt_mul_right h1

/-! ### the main loop -/

/-- static facts about the divisor and the block size used by every block of one call. -/
def BlockCtx (kthr s Bk : Nat) (v : List Nat) : Prop :=
  1 ≤ kthr ∧ WF v ∧ s + 1 = Bk ∧ 2 * Bk ≤ v.length
    ∧ B ^ (v.length - 1) ≤ B ^ s * natOf (v.drop s) ∧ B ^ (v.length - s) ≤ 2 * natOf (v.drop s)

theorem divRecLoop_spec (rec : Nat → Nat → List Nat → List Nat → Except String (List Nat × List Nat × Nat))
    (kthr s Bk ql zlen Lu U0 : Nat) (v : List Nat) (hctx : BlockCtx kthr s Bk v)
    (hrec : ∀ k hi, WF hi → natOf hi < B ^ (v.length + 1) → CallOK rec k ql hi (v.drop s))
    (hU0 : U0 < natOf v * B ^ zlen) :
    ∀ (f j : Nat) (z u : List Nat) (k : Nat), j ≤ f → WF u → u.length = Lu → v.length + j ≤ Lu →
      WF z → z.length = zlen → natOf u < B ^ (v.length + j) → U0 = natOf z * natOf v + natOf u →
      j ≤ zlen → (j < zlen ∨ ∃ w, w * B ^ (v.length - 1) ≤ natOf v ∧ natOf u < w * B ^ (v.length - 1 + zlen)) →
      ∃ z' u' k', divRecLoop (fun k uu => divBlock rec kthr s ql k (v.length + 1) uu v) Bk f j z u k
          = .ok (z', u', k')
        ∧ WF z' ∧ z'.length = zlen ∧ WF u' ∧ u'.length = Lu ∧ U0 = natOf z' * natOf v + natOf u'
        ∧ natOf u' < B ^ (v.length + Bk) := by
  obtain ⟨hk, hv, hsB, h2B, hvh, hvh2⟩ := hctx
  have hVlt := natOf_lt hv
  have hvhge : B ^ (v.length - 1 - s) ≤ natOf (v.drop s) := by
    have h1 : B ^ (v.length - 1) = B ^ s * B ^ (v.length - 1 - s) := by
      rw [← pow_add]; congr 1; omega
    rw [h1] at hvh
    exact Nat.le_of_mul_le_mul_left hvh (Bpow_pos s)
  have hV := natOf_take_drop v s (by omega)
  have hvllt : natOf (v.take s) < B ^ s := by
    have := natOf_lt (WF_take hv s)
    rw [List.length_take, Nat.min_eq_left (by omega)] at this; exact this
  intro f
  induction f with
  | zero =>
    intro j z u k hjf hu hul hjl hz hzl hsz hid hjz hq
    have hj0 : j = 0 := by omega
    subst hj0
    simp only [divRecLoop]
    rw [if_neg (by omega)]
    refine ⟨z, u, k, rfl, hz, hzl, hu, hul, hid, ?_⟩
    have : B ^ (v.length + 0) ≤ B ^ (v.length + Bk) := Nat.pow_le_pow_right B_pos (by omega)
    omega
  | succ f ih =>
    intro j z u k hjf hu hul hjl hz hzl hsz hid hjz hq
    simp only [divRecLoop]
    by_cases hjB : j > Bk
    · rw [if_pos hjB]
      -- the window
      have huul : (u.drop (j - Bk)).length = Lu - (j - Bk) := by rw [List.length_drop, hul]
      have huuw : WF (u.drop (j - Bk)) := WF_drop hu _
      have hsplit := natOf_take_drop u (j - Bk) (by omega)
      have hlolt : natOf (u.take (j - Bk)) < B ^ (j - Bk) := by
        have := natOf_lt (WF_take hu (j - Bk))
        rw [List.length_take, Nat.min_eq_left (by omega)] at this; exact this
      have htop : natOf ((u.drop (j - Bk)).drop (s + (v.length + 1))) = 0 := by
        rw [List.drop_drop]
        have : j - Bk + (s + (v.length + 1)) = v.length + j := by omega
        rw [this]
        exact natOf_drop_eq_zero u _ (by omega) hsz
      have hsize : natOf (u.drop (j - Bk)) < B ^ (v.length + s + 1) := by
        have h1 : B ^ (v.length + j) = B ^ (j - Bk) * B ^ (v.length + s + 1) := by
          rw [← pow_add]; congr 1; omega
        have h2 : B ^ (j - Bk) * natOf (u.drop (j - Bk)) < B ^ (j - Bk) * B ^ (v.length + s + 1) := by omega
        exact Nat.lt_of_mul_lt_mul_left h2
      have hhiw : WF (((u.drop (j - Bk)).drop s).take (v.length + 1)) := WF_take (WF_drop huuw _) _
      have hhil : (((u.drop (j - Bk)).drop s).take (v.length + 1)).length = v.length + 1 := by
        rw [List.length_take, List.length_drop, huul]; omega
      have hhilt : natOf (((u.drop (j - Bk)).drop s).take (v.length + 1)) < B ^ (v.length + 1) := by
        have := natOf_lt hhiw; rw [hhil] at this; exact this
      obtain ⟨qh, uu', k', c, b1, b2, b3, b4, b5, b6, b7, b8⟩ := divBlock_spec rec kthr s ql k (v.length + 1)
        (u.drop (j - Bk)) v hk hv huuw (by omega) hvh hvh2 (by rw [huul]; omega) (by rw [huul]; omega)
        htop hsize (hrec k _ hhiw hhilt)
      rw [b1]
      simp only []
      -- the length of q̂
      have hqlen : (j - Bk) + qh.length ≤ zlen := by
        rcases hq with hlt | ⟨w, w1, w2⟩
        · have : qh.length ≤ Bk + 1 := by
            apply b8
            have h1 : B ^ (v.length + 1) = B ^ (v.length - 1 - s) * B ^ (Bk + 1) := by
              rw [← pow_add]; congr 1; omega
            have h2 : B ^ (v.length - 1 - s) * B ^ (Bk + 1) ≤ natOf (v.drop s) * B ^ (Bk + 1) :=
              Nat.mul_le_mul_right _ hvhge
            omega
          omega
        · rcases Nat.lt_or_ge j zlen with hlt | hge
          · have : qh.length ≤ Bk + 1 := by
              apply b8
              have h1 : B ^ (v.length + 1) = B ^ (v.length - 1 - s) * B ^ (Bk + 1) := by
                rw [← pow_add]; congr 1; omega
              have h2 : B ^ (v.length - 1 - s) * B ^ (Bk + 1) ≤ natOf (v.drop s) * B ^ (Bk + 1) :=
                Nat.mul_le_mul_right _ hvhge
              omega
            omega
          · have hjz' : j = zlen := by omega
            have : qh.length ≤ Bk := by
              apply b8
              -- the high part is below w·B^n, and v_h ≥ w·B^(n-1-s)
              have h0 : natOf (((u.drop (j - Bk)).drop s).take (v.length + 1)) ≤ natOf (u.drop (j - 1)) := by
                have := natOf_take_le ((u.drop (j - Bk)).drop s) (v.length + 1)
                have e : (u.drop (j - Bk)).drop s = u.drop (j - 1) := by
                  rw [List.drop_drop]; congr 1; omega
                rw [e] at this ⊢; exact this
              have h1 : natOf (u.drop (j - 1)) < w * B ^ v.length := by
                rw [natOf_drop u (j - 1) hu (by omega)]
                apply Nat.div_lt_of_lt_mul
                have : B ^ (j - 1) * (w * B ^ v.length) = w * B ^ (v.length - 1 + zlen) := by
                  have : B ^ (v.length - 1 + zlen) = B ^ (j - 1) * B ^ v.length := by
                    rw [← pow_add]; congr 1; omega
                  rw [this]; ring
                rw [this]; exact w2
              have h2 : w * B ^ (v.length - 1 - s) ≤ natOf (v.drop s) := by
                have e1 : B ^ (v.length - 1) = B ^ s * B ^ (v.length - 1 - s) := by
                  rw [← pow_add]; congr 1; omega
                have h3 : B ^ s * (w * B ^ (v.length - 1 - s)) < B ^ s * (natOf (v.drop s) + 1) := by
                  have : B ^ s * (w * B ^ (v.length - 1 - s)) = w * B ^ (v.length - 1) := by rw [e1]; ring
                  rw [this, Nat.mul_add]
                  omega
                have := Nat.lt_of_mul_lt_mul_left h3
                omega
              have h4 : w * B ^ v.length = (w * B ^ (v.length - 1 - s)) * B ^ Bk := by
                have : B ^ v.length = B ^ (v.length - 1 - s) * B ^ Bk := by
                  rw [← pow_add]; congr 1; omega
                rw [this]; ring
              have h5 : (w * B ^ (v.length - 1 - s)) * B ^ Bk ≤ natOf (v.drop s) * B ^ Bk :=
                Nat.mul_le_mul_right _ h2
              omega
            omega
      rw [addAtChk_ok z qh (j - Bk) (by omega)]
      simp only []
      -- the accumulated quotient fits
      have hid2 : U0 = (natOf z + B ^ (j - Bk) * natOf qh) * natOf v
          + (natOf (u.take (j - Bk)) + B ^ (j - Bk) * natOf uu') := by
        rw [hid, ← hsplit, b3]; ring
      have hfit : natOf z + B ^ (j - Bk) * natOf qh < B ^ z.length := by
        rw [hzl]
        have h1 : (natOf z + B ^ (j - Bk) * natOf qh) * natOf v < B ^ zlen * natOf v := by
          rw [Nat.mul_comm (B ^ zlen)]; omega
        exact Nat.lt_of_mul_lt_mul_right h1
      obtain ⟨a1, a2, a3⟩ := addAt_spec z qh (j - Bk) hz b5 (by omega) hfit
      have htl : (u.take (j - Bk)).length = j - Bk := by rw [List.length_take]; omega
      have hu'v : natOf (u.take (j - Bk) ++ uu') = natOf (u.take (j - Bk)) + B ^ (j - Bk) * natOf uu' := by
        rw [natOf_append, htl]
      have hu'sz : natOf (u.take (j - Bk) ++ uu') < B ^ (v.length + (j - Bk)) := by
        rw [hu'v]
        have h1 : B ^ (v.length + (j - Bk)) = B ^ (j - Bk) * B ^ v.length := by
          rw [← pow_add]; congr 1; omega
        have h2 : B ^ (j - Bk) * (natOf uu' + 1) ≤ B ^ (j - Bk) * B ^ v.length :=
          Nat.mul_le_mul_left _ (by omega)
        rw [Nat.mul_add] at h2
        omega
      exact ih (j - Bk) (addAt z qh (j - Bk)) (u.take (j - Bk) ++ uu') k' (by omega)
        (WF_append.mpr ⟨WF_take hu _, b6⟩) (by rw [List.length_append, htl, b7, huul]; omega) (by omega)
        a2 (by rw [a3, hzl]) hu'sz (by rw [a1, hu'v]; exact hid2) (by omega) (Or.inl (by omega))
    · rw [if_neg hjB]
      refine ⟨z, u, k, rfl, hz, hzl, hu, hul, hid, ?_⟩
      have : B ^ (v.length + j) ≤ B ^ (v.length + Bk) := Nat.pow_le_pow_right B_pos (by omega)
      omega

/-! ### divRecursiveStep -/

theorem Normalized_drop {v : List Nat} (hn : Normalized v) (k : Nat) (hk : k < v.length) :
    Normalized (v.drop k) := by
  unfold Normalized at *
  rw [List.getLast?_drop, if_neg (by omega)]
  exact hn

/-- facts about a normalised divisor with top word ≥ B/2 and its high part `v[s:]`. -/
theorem divisor_facts (v : List Nat) (s : Nat) (hv : WF v) (hnv : Normalized v) (hs : s + 2 ≤ v.length)
    (hnorm : 10000000000000000000 ≤ 2 * v.getD (v.length - 1) 0) :
    B ^ (v.length - 1) ≤ B ^ s * natOf (v.drop s) ∧ B ^ (v.length - s) ≤ 2 * natOf (v.drop s)
      ∧ Normalized (v.drop s) ∧ (v.drop s).length = v.length - s
      ∧ (v.drop s).getD ((v.drop s).length - 1) 0 = v.getD (v.length - 1) 0
      ∧ B ^ (v.length - 1) ≤ natOf v := by
  have hdl : (v.drop s).length = v.length - s := List.length_drop
  have hnd := Normalized_drop hnv s (by omega)
  have hne : v.drop s ≠ [] := by intro h; rw [h] at hdl; simp at hdl; omega
  have hge := natOf_ge_of_Normalized hnd hne
  rw [hdl] at hge
  have hgd : (v.drop s).getD ((v.drop s).length - 1) 0 = v.getD (v.length - 1) 0 := by
    rw [getD_drop', hdl]; congr 1; omega
  obtain ⟨t1, t2⟩ := natOf_top (v.drop s) (v.length - s) (by omega) hdl (WF_drop hv _)
  rw [hdl] at hgd
  rw [hgd] at t1
  have hvne : v ≠ [] := by intro h; rw [h] at hs; simp at hs
  refine ⟨?_, ?_, hnd, hdl, by rw [hdl]; exact hgd, natOf_ge_of_Normalized hnv hvne⟩
  · have h1 : B ^ (v.length - 1) = B ^ s * B ^ (v.length - s - 1) := by
      rw [← pow_add]; congr 1; omega
    rw [h1]; exact Nat.mul_le_mul_left _ hge
  · have h1 : B ^ (v.length - s) = B ^ (v.length - s - 1) * 10000000000000000000 := by
      have : v.length - s = (v.length - s - 1) + 1 := by omega
      rw [this, pow_succ, B_eq]; simp
    have h2 : B ^ (v.length - s - 1) * 10000000000000000000
        ≤ B ^ (v.length - s - 1) * (2 * v.getD (v.length - 1) 0) := Nat.mul_le_mul_left _ hnorm
    have h3 : B ^ (v.length - s - 1) * (2 * v.getD (v.length - 1) 0)
        = 2 * (B ^ (v.length - s - 1) * v.getD (v.length - 1) 0) := by ring
    omega

/-- `divRecursiveStep` (the code as it is now, final shift `B-1`): TOTAL correctness. For a divisor
    whose normal form has at least two words and top word ≥ B/2, a destination that can hold the
    quotient (`∃ w, w·B^(n-1) ≤ v ∧ u < w·B^(n-1+zlen)`; at the top level `w` is `divLarge`'s scaling
    factor), enough fuel and enough `temps` entries, the step returns the quotient and the remainder;
    in particular none of the three "impossible" panics, no slice/index panic. -/
theorem divRecStepG_total (thr kthr rd : Nat) (hthr : 4 ≤ thr) (hk : 1 ≤ kthr) :
    ∀ (fuel depth k zlen : Nat) (u0 v0 : List Nat), WF u0 → WF v0 → 2 ≤ (norm v0).length →
      10000000000000000000 ≤ 2 * (norm v0).getD ((norm v0).length - 1) 0 →
      (∃ w, w * B ^ ((norm v0).length - 1) ≤ natOf v0
        ∧ natOf u0 < w * B ^ ((norm v0).length - 1 + zlen)) →
      (norm v0).length < fuel → ((norm v0).length - 3) * 2 ^ depth < 2 ^ rd →
      ∃ z u' k', divRecStepG (fun B => B - 1) thr kthr rd fuel depth k zlen u0 v0 = .ok (z, u', k')
        ∧ natOf u0 = natOf z * natOf v0 + natOf u' ∧ natOf u' < natOf v0 ∧ WF z ∧ WF u'
        ∧ z.length = zlen ∧ u'.length = u0.length := by
  intro fuel
  induction fuel with
  | zero => intro depth k zlen u0 v0 _ _ _ _ _ h; omega
  | succ fuel ih =>
    intro depth k zlen u0 v0 hu0 hv0 hn hnorm hfits hfuel hdepth
    simp only [divRecStepG]
    have hUv : natOf (norm u0) = natOf u0 := natOf_norm _
    have hVv : natOf (norm v0) = natOf v0 := natOf_norm _
    have hul0 := length_norm_le u0
    have huw : WF (norm u0) := WF_norm hu0
    have hvw : WF (norm v0) := WF_norm hv0
    have hun : Normalized (norm u0) := Normalized_norm _
    have hvn : Normalized (norm v0) := Normalized_norm _
    generalize norm u0 = u at *
    generalize norm v0 = v at *
    rw [← hUv, ← hVv]
    rw [← hVv, ← hUv] at hfits
    obtain ⟨w, w1, w2⟩ := hfits
    have hvne : v ≠ [] := by intro h; rw [h] at hn; simp at hn
    have hVge := natOf_ge_of_Normalized hvn hvne
    have hVpos : 0 < natOf v := by have := Bpow_pos (v.length - 1); omega
    have hfit : natOf u < natOf v * B ^ zlen := by
      have h1 : w * B ^ (v.length - 1 + zlen) = (w * B ^ (v.length - 1)) * B ^ zlen := by
        rw [pow_add]; ring
      have h2 : (w * B ^ (v.length - 1)) * B ^ zlen ≤ natOf v * B ^ zlen := Nat.mul_le_mul_right _ w1
      omega
    by_cases hu0l : u.length = 0
    · rw [if_pos hu0l]
      have : u = [] := List.eq_nil_of_length_eq_zero hu0l
      have hU0 : natOf u = 0 := by rw [this]; rfl
      rw [hU0] at hUv
      exact ⟨zeros zlen, u0, k, rfl, by rw [natOf_zeros, ← hUv, hU0]; simp, by omega,
        WF_zeros _, hu0, length_zeros _, rfl⟩
    · rw [if_neg hu0l]
      by_cases hleaf : v.length < thr
      · rw [if_pos hleaf]
        obtain ⟨q, r, l1, l2, l3, l4, l5, l6, l7⟩ := divBasicLeaf_spec u v zlen huw hvw hun hn hnorm hfit
        rw [l1]
        simp only []
        exact ⟨q, padTo r u0.length, k, rfl, by rw [natOf_padTo]; exact l2, by rw [natOf_padTo]; exact l3,
          l4, WF_padTo l5 _, l6, length_padTo _ _ (by omega)⟩
      · rw [if_neg hleaf]
        by_cases hshort : u.length < v.length
        · rw [if_pos hshort]
          have := natOf_lt_of_length_lt huw hvn hshort
          exact ⟨zeros zlen, u0, k, rfl, by rw [natOf_zeros, hUv]; simp, by omega,
            WF_zeros _, hu0, length_zeros _, rfl⟩
        · rw [if_neg hshort]
          have hn4 : 4 ≤ v.length := by omega
          have hd : depth < rd := by
            have h1 : 1 * 2 ^ depth ≤ (v.length - 3) * 2 ^ depth := Nat.mul_le_mul_right _ (by omega)
            have h2 : 2 ^ depth < 2 ^ rd := by omega
            exact (Nat.pow_lt_pow_iff_right (by omega)).mp h2
          rw [if_neg (by omega)]
          have hB2 : 2 ≤ v.length / 2 := by omega
          rw [if_neg (by omega)]
          -- block size and shift
          obtain ⟨Bk, hBk⟩ : ∃ Bk, v.length / 2 = Bk := ⟨_, rfl⟩
          rw [hBk] at hB2 ⊢
          obtain ⟨s, hs⟩ : ∃ s, Bk - 1 = s := ⟨_, rfl⟩
          rw [hs]
          have hsB : s + 1 = Bk := by omega
          have h2B : 2 * Bk ≤ v.length := by omega
          have h2B' : v.length ≤ 2 * Bk + 1 := by omega
          obtain ⟨f1, f2, f3, f4, f5, f6⟩ := divisor_facts v s hvw hvn (by omega) hnorm
          have hctx : BlockCtx kthr s Bk v := ⟨hk, hvw, hsB, h2B, f1, f2⟩
          obtain ⟨ql, hql⟩ : ∃ ql, (if k ≤ depth then v.length else Bk + 1) = ql := ⟨_, rfl⟩
          rw [hql]
          have hqlge : s + 2 ≤ ql := by
            rw [← hql]; split <;> omega
          generalize max k (depth + 1) = k0
          -- the recursive calls
          have hvhge : B ^ (v.length - s - 1) ≤ natOf (v.drop s) := by
            have hne : v.drop s ≠ [] := by intro h; rw [h] at f4; simp at f4; omega
            have := natOf_ge_of_Normalized f3 hne
            rw [f4] at this; exact this
          have hrec : ∀ k hi, WF hi → natOf hi < B ^ (v.length + 1) →
              CallOK (divRecStepG (fun B => B - 1) thr kthr rd fuel (depth + 1)) k ql hi (v.drop s) := by
            intro k1 hi hhiw hhilt
            have hnd : norm (v.drop s) = v.drop s := norm_of_Normalized f3
            obtain ⟨z, r, k', e1, e2, e3, e4, e5, e6, e7⟩ := ih (depth + 1) k1 ql hi (v.drop s) hhiw
              (WF_drop hvw _) (by rw [hnd, f4]; omega) (by rw [hnd, f5]; exact hnorm)
              ⟨1, by rw [hnd, f4, Nat.one_mul]; exact hvhge, by
                rw [hnd, f4, Nat.one_mul]
                have : B ^ (v.length + 1) ≤ B ^ (v.length - s - 1 + ql) := Nat.pow_le_pow_right B_pos (by omega)
                omega⟩
              (by rw [hnd, f4]; omega)
              (by
                rw [hnd, f4, pow_succ]
                have h1 : (v.length - s - 3) * (2 ^ depth * 2) = (2 * (v.length - s - 3)) * 2 ^ depth := by ring
                have h2 : (2 * (v.length - s - 3)) * 2 ^ depth ≤ (v.length - 3) * 2 ^ depth :=
                  Nat.mul_le_mul_right _ (by omega)
                omega)
            exact ⟨z, r, k', e1, e2, e3, e4, e5, e7⟩
          -- the main loop
          have hmz : u.length - v.length ≤ zlen := by
            have hVlt := natOf_lt hvw
            have hlen : u.length ≤ v.length + zlen := by
              apply length_le_of_natOf_lt hun
              rw [pow_add]
              have : natOf v * B ^ zlen ≤ B ^ v.length * B ^ zlen := Nat.mul_le_mul_right _ (by omega)
              omega
            omega
          have hult := natOf_lt huw
          obtain ⟨z1, u1, k1, g1, g2, g3, g4, g5, g6, g7⟩ := divRecLoop_spec
            (divRecStepG (fun B => B - 1) thr kthr rd fuel (depth + 1)) kthr s Bk ql zlen u.length (natOf u) v
            hctx hrec hfit (u.length - v.length) (u.length - v.length) (zeros zlen) u k0 (Nat.le_refl _)
            huw rfl (by omega) (WF_zeros _) (length_zeros _)
            (by have : v.length + (u.length - v.length) = u.length := by omega
                rw [this]; exact hult)
            (by rw [natOf_zeros]; simp) hmz (Or.inr ⟨w, w1, w2⟩)
          rw [g1]
          simp only []
          -- the final block
          have hu1s := natOf_take_drop u1 s (by omega)
          have hhiw : WF ((u1.drop s).take (u1.length - s)) := WF_take (WF_drop g4 _) _
          have hhilt : natOf ((u1.drop s).take (u1.length - s)) < B ^ (v.length + 1) := by
            have h0 := natOf_take_le (u1.drop s) (u1.length - s)
            have h1 : B ^ (v.length + Bk) = B ^ s * B ^ (v.length + 1) := by
              rw [← pow_add]; congr 1; omega
            have h2 : B ^ s * natOf (u1.drop s) < B ^ s * B ^ (v.length + 1) := by omega
            have := Nat.lt_of_mul_lt_mul_left h2
            omega
          obtain ⟨qh, u2, k2, c, b1, b2, b3, b4, b5, b6, b7, b8⟩ := divBlock_spec
            (divRecStepG (fun B => B - 1) thr kthr rd fuel (depth + 1)) kthr s ql k1 (u1.length - s) u1 v
            hk hvw g4 (by omega) f1 f2 (by omega) (by omega)
            (by rw [List.drop_eq_nil_of_le (by omega)]; rfl)
            (by have : v.length + s + 1 = v.length + Bk := by omega
                rw [this]; exact g7)
            (hrec k1 _ hhiw hhilt)
          rw [b1]
          simp only []
          rw [if_neg (by omega)]
          -- the accumulated quotient
          have hid : natOf u = (natOf z1 + natOf qh) * natOf v + natOf u2 := by
            rw [g6, b3]; ring
          have hsum : natOf z1 + natOf qh < B ^ zlen := by
            have h1 : (natOf z1 + natOf qh) * natOf v < B ^ zlen * natOf v := by
              rw [Nat.mul_comm (B ^ zlen)]; omega
            exact Nat.lt_of_mul_lt_mul_right h1
          have hnql : (norm qh).length ≤ zlen :=
            length_le_of_natOf_lt (Normalized_norm _) _ (by rw [natOf_norm]; omega)
          rw [addAtChk_ok z1 (norm qh) 0 (by omega)]
          simp only []
          obtain ⟨a1, a2, a3⟩ := addAt_spec z1 (norm qh) 0 g2 (WF_norm b5) (by omega)
            (by rw [pow_zero, Nat.one_mul, natOf_norm, g3]; exact hsum)
          rw [pow_zero, Nat.one_mul, natOf_norm] at a1
          exact ⟨_, _, k2, rfl, by rw [a1, natOf_padTo]; exact hid, by rw [natOf_padTo]; exact b4, a2,
            WF_padTo b6 _, by rw [a3, g3], length_padTo _ _ (by omega)⟩

theorem divRecStep_total (thr kthr rd : Nat) (hthr : 4 ≤ thr) (hk : 1 ≤ kthr)
    (fuel depth k zlen : Nat) (u0 v0 : List Nat) (hu : WF u0) (hv : WF v0) (hn : 2 ≤ (norm v0).length)
    (hnorm : 10000000000000000000 ≤ 2 * (norm v0).getD ((norm v0).length - 1) 0)
    (hfits : ∃ w, w * B ^ ((norm v0).length - 1) ≤ natOf v0
      ∧ natOf u0 < w * B ^ ((norm v0).length - 1 + zlen))
    (hfuel : (norm v0).length < fuel) (hdepth : ((norm v0).length - 3) * 2 ^ depth < 2 ^ rd) :
    ∃ z u' k', divRecStep thr kthr rd fuel depth k zlen u0 v0 = .ok (z, u', k')
      ∧ natOf u0 = natOf z * natOf v0 + natOf u' ∧ natOf u' < natOf v0 ∧ WF z ∧ WF u'
      ∧ z.length = zlen ∧ u'.length = u0.length :=
  divRecStepG_total thr kthr rd hthr hk fuel depth k zlen u0 v0 hu hv hn hnorm hfits hfuel hdepth

/-- partial-correctness form: IF the step returns `.ok (z, u', k')` THEN `u = z·v + u'`, `u' < v`. -/
theorem divRecStep_spec (thr kthr rd : Nat) (hthr : 4 ≤ thr) (hk : 1 ≤ kthr)
    (fuel depth k zlen : Nat) (u0 v0 z u' : List Nat) (k' : Nat) (hu : WF u0) (hv : WF v0)
    (hn : 2 ≤ (norm v0).length)
    (hnorm : 10000000000000000000 ≤ 2 * (norm v0).getD ((norm v0).length - 1) 0)
    (hfits : ∃ w, w * B ^ ((norm v0).length - 1) ≤ natOf v0
      ∧ natOf u0 < w * B ^ ((norm v0).length - 1 + zlen))
    (hfuel : (norm v0).length < fuel) (hdepth : ((norm v0).length - 3) * 2 ^ depth < 2 ^ rd)
    (h : divRecStep thr kthr rd fuel depth k zlen u0 v0 = .ok (z, u', k')) :
    natOf u0 = natOf z * natOf v0 + natOf u' ∧ natOf u' < natOf v0 ∧ WF z ∧ WF u'
      ∧ z.length = zlen ∧ u'.length = u0.length := by
  obtain ⟨z1, u1, k1, e1, e2⟩ :=
    divRecStep_total thr kthr rd hthr hk fuel depth k zlen u0 v0 hu hv hn hnorm hfits hfuel hdepth
  rw [e1] at h
  injection h with h
  injection h with h1 h2
  injection h2 with h2 h3
  subst h1 h2 h3
  exact e2

/-- none of the three `panic("impossible")` (nor any other failure) is reachable. -/
theorem divRecStep_no_error (thr kthr rd : Nat) (hthr : 4 ≤ thr) (hk : 1 ≤ kthr)
    (fuel depth k zlen : Nat) (u0 v0 : List Nat) (hu : WF u0) (hv : WF v0)
    (hn : 2 ≤ (norm v0).length)
    (hnorm : 10000000000000000000 ≤ 2 * (norm v0).getD ((norm v0).length - 1) 0)
    (hfits : ∃ w, w * B ^ ((norm v0).length - 1) ≤ natOf v0
      ∧ natOf u0 < w * B ^ ((norm v0).length - 1 + zlen))
    (hfuel : (norm v0).length < fuel) (hdepth : ((norm v0).length - 3) * 2 ^ depth < 2 ^ rd) (e : String) :
    divRecStep thr kthr rd fuel depth k zlen u0 v0 ≠ .error e := by
  obtain ⟨z1, u1, k1, e1, _⟩ :=
    divRecStep_total thr kthr rd hthr hk fuel depth k zlen u0 v0 hu hv hn hnorm hfits hfuel hdepth
  rw [e1]; intro h; cases h

/-! ### divRecursive -/

theorem lt_two_pow_bitsLen (n : Nat) : n < 2 ^ bitsLen n := by
  unfold bitsLen
  by_cases h : n = 0
  · rw [if_pos h, h]; simp
  · rw [if_neg h]; exact Nat.lt_log2_self

theorem Normalized_of_top {v : List Nat} (hl : 1 ≤ v.length) (ht : v.getD (v.length - 1) 0 ≠ 0) :
    Normalized v := by
  unfold Normalized
  rw [List.getLast?_eq_getElem?]
  rw [List.getD_eq_getElem?_getD] at ht
  have hlt : v.length - 1 < v.length := by omega
  rw [List.getElem?_eq_getElem hlt] at ht ⊢
  intro h
  rw [h] at ht
  exact ht rfl

/-- `z.divRecursive(u, v)` for a normalised divisor (top word ≥ B/2, at least two words) and a
    destination of `zlen` words that can hold the quotient: quotient and remainder, no panic. -/
theorem divRecursive_total (thr kthr zlen : Nat) (hthr : 4 ≤ thr) (hk : 1 ≤ kthr) (u v : List Nat)
    (hu : WF u) (hv : WF v) (hn : 2 ≤ v.length)
    (hnorm : 10000000000000000000 ≤ 2 * v.getD (v.length - 1) 0)
    (hfits : ∃ w, w * B ^ (v.length - 1) ≤ natOf v ∧ natOf u < w * B ^ (v.length - 1 + zlen)) :
    ∃ z r, divRecursive thr kthr zlen u v = .ok (z, r)
      ∧ natOf u = natOf z * natOf v + natOf r ∧ natOf r < natOf v ∧ WF z ∧ WF r
      ∧ z.length = zlen ∧ r.length = u.length := by
  have hvn : Normalized v := Normalized_of_top (by omega) (by omega)
  have hnv : norm v = v := norm_of_Normalized hvn
  unfold divRecursive divRecursiveG
  obtain ⟨z, r, k', e1, e2, e3, e4, e5, e6, e7⟩ := divRecStepG_total thr kthr (2 * bitsLen v.length) hthr hk
    (v.length + 1) 0 0 zlen u v hu hv (by rw [hnv]; exact hn) (by rw [hnv]; exact hnorm)
    (by rw [hnv]; exact hfits) (by rw [hnv]; omega) (by
      rw [hnv, pow_zero, Nat.mul_one]
      have h1 := lt_two_pow_bitsLen v.length
      have h2 : 2 ^ bitsLen v.length ≤ 2 ^ (2 * bitsLen v.length) :=
        Nat.pow_le_pow_right (by omega) (by omega)
      omega)
  rw [e1]
  exact ⟨z, r, rfl, e2, e3, e4, e5, e6, e7⟩

/-! ### divLargeRec, divFull -/

theorem divLargeRecG_lt (sF : Nat → Nat) (thr kthr : Nat) (uIn vIn : List Nat) (h : vIn.length < thr) :
    divLargeRecG sF thr kthr uIn vIn = divLarge uIn vIn := by
  unfold divLargeRecG divLarge
  simp only []
  rw [if_pos h]
  rfl

/-- step D1 of `divLarge`: the scaled operands. -/
theorem scale_facts (uIn vIn : List Nat) (hu : WF uIn) (hv : WF vIn) (hnv : Normalized vIn)
    (hn : 2 ≤ vIn.length) (d : Nat) (hd : 10000000000000000000 / (vIn.getD (vIn.length - 1) 0 + 1) = d) :
    1 ≤ d ∧ d < 10000000000000000000
      ∧ WF (mulAdd10VWW vIn d 0).1 ∧ (mulAdd10VWW vIn d 0).1.length = vIn.length
      ∧ natOf (mulAdd10VWW vIn d 0).1 = natOf vIn * d
      ∧ 10000000000000000000 ≤ 2 * (mulAdd10VWW vIn d 0).1.getD (vIn.length - 1) 0
      ∧ WF ((mulAdd10VWW uIn d 0).1 ++ [(mulAdd10VWW uIn d 0).2])
      ∧ ((mulAdd10VWW uIn d 0).1 ++ [(mulAdd10VWW uIn d 0).2]).length = uIn.length + 1
      ∧ natOf ((mulAdd10VWW uIn d 0).1 ++ [(mulAdd10VWW uIn d 0).2]) = natOf uIn * d
      ∧ B ^ (vIn.length - 1) ≤ natOf vIn := by
  have hne : vIn ≠ [] := by intro h; rw [h] at hn; simp at hn
  have hvt0 := getD_last_ne_zero hnv hne
  have hvtlt := getD_lt vIn hv (vIn.length - 1)
  obtain ⟨hd1, hdlt, hdv, hdn⟩ := norm_factor (vIn.getD (vIn.length - 1) 0) (by omega) hvtlt
  rw [hd] at hd1 hdlt hdv hdn
  generalize hvt : vIn.getD (vIn.length - 1) 0 = vt at *
  generalize hnn : vIn.length = n at *
  obtain ⟨v1, v2, v3, v4⟩ := mulAdd10VWW_spec vIn d 0 hv hdlt (by omega)
  rw [hnn] at v3
  rw [hnn, Nat.add_zero] at v1
  obtain ⟨vt1, vt2⟩ := natOf_top vIn n (by omega) hnn hv
  rw [hvt] at vt1
  have hpow : B ^ n = B * B ^ (n - 1) := by
    have : n = (n - 1) + 1 := by omega
    rw [this, pow_succ, Nat.mul_comm]; simp
  have hVd : natOf vIn * d < B ^ n := by
    have h1 : natOf vIn + 1 ≤ (vt + 1) * B ^ (n - 1) := by
      rw [vt1]
      have : (vt + 1) * B ^ (n - 1) = B ^ (n - 1) * vt + B ^ (n - 1) := by ring
      omega
    have h2 : (natOf vIn + 1) * d ≤ (vt + 1) * B ^ (n - 1) * d := Nat.mul_le_mul_right _ h1
    have h3 : (vt + 1) * B ^ (n - 1) * d = ((vt + 1) * d) * B ^ (n - 1) := by ring
    have h4 : ((vt + 1) * d) * B ^ (n - 1) ≤ B * B ^ (n - 1) :=
      Nat.mul_le_mul_right _ (by rw [B_eq]; exact hdv)
    have h5 : (natOf vIn + 1) * d = natOf vIn * d + d := by ring
    omega
  have hvlt := natOf_lt v2
  rw [v3] at hvlt
  have hvc : (mulAdd10VWW vIn d 0).2 = 0 := by
    by_contra h
    have : 1 * B ^ n ≤ (mulAdd10VWW vIn d 0).2 * B ^ n := Nat.mul_le_mul_right _ (by omega)
    omega
  rw [hvc, Nat.zero_mul, Nat.add_zero] at v1
  obtain ⟨w1, w2⟩ := natOf_top (mulAdd10VWW vIn d 0).1 n (by omega) v3 v2
  have hnormv : 10000000000000000000 ≤ 2 * (mulAdd10VWW vIn d 0).1.getD (n - 1) 0 := by
    have h1 : B ^ (n - 1) * (vt * d) ≤ natOf vIn * d := by
      rw [vt1]
      have : (natOf (vIn.take (n - 1)) + B ^ (n - 1) * vt) * d
          = natOf (vIn.take (n - 1)) * d + B ^ (n - 1) * (vt * d) := by ring
      omega
    have h2 : B ^ (n - 1) * 10000000000000000000 ≤ B ^ (n - 1) * (2 * (vt * d)) :=
      Nat.mul_le_mul_left _ hdn
    by_contra hc
    have h3 : 2 * (mulAdd10VWW vIn d 0).1.getD (n - 1) 0 + 2 ≤ 10000000000000000000 := by omega
    have h4 : B ^ (n - 1) * (2 * (mulAdd10VWW vIn d 0).1.getD (n - 1) 0 + 2)
        ≤ B ^ (n - 1) * 10000000000000000000 := Nat.mul_le_mul_left _ h3
    have h5 : B ^ (n - 1) * (2 * (mulAdd10VWW vIn d 0).1.getD (n - 1) 0 + 2)
        = 2 * (B ^ (n - 1) * (mulAdd10VWW vIn d 0).1.getD (n - 1) 0) + 2 * B ^ (n - 1) := by ring
    have h6 : B ^ (n - 1) * (2 * (vt * d)) = 2 * (B ^ (n - 1) * (vt * d)) := by ring
    omega
  obtain ⟨u1, u2, u3, u4⟩ := mulAdd10VWW_spec uIn d 0 hu hdlt (by omega)
  rw [Nat.add_zero] at u1
  have hvge : B ^ (n - 1) ≤ natOf vIn := by
    have := natOf_ge_of_Normalized hnv hne
    rw [hnn] at this; exact this
  refine ⟨hd1, hdlt, v2, v3, v1, hnormv, WF_append.mpr ⟨u2, WF_single.mpr u4⟩, ?_, ?_, hvge⟩
  · rw [List.length_append, u3]; simp
  · rw [natOf_append, natOf_single, u3, ← u1]; ring

/-- `divLargeRec` (both paths): for `len v ≥ 2`, `len u ≥ len v`, `v` normalised, `thr ≥ 4`: never
    fails, returns the normalised quotient and remainder. -/
theorem divLargeRec_total (thr kthr : Nat) (hthr : 4 ≤ thr) (hk : 1 ≤ kthr) (uIn vIn : List Nat)
    (hu : WF uIn) (hv : WF vIn) (hnv : Normalized vIn) (hn : 2 ≤ vIn.length)
    (hmn : vIn.length ≤ uIn.length) :
    ∃ q r, divLargeRec thr kthr uIn vIn = .ok (q, r) ∧ natOf uIn = natOf q * natOf vIn + natOf r
      ∧ natOf r < natOf vIn ∧ WF q ∧ WF r ∧ Normalized q ∧ Normalized r := by
  unfold divLargeRec
  by_cases hlt : vIn.length < thr
  · rw [divLargeRecG_lt _ thr kthr uIn vIn hlt]
    exact divLarge_spec uIn vIn hu hv hnv hn hmn
  · unfold divLargeRecG
    simp only []
    rw [if_neg hlt]
    have hcdb : c_DB = 10000000000000000000 := rfl
    rw [hcdb]
    obtain ⟨d, hd⟩ : ∃ d, 10000000000000000000 / (vIn.getD (vIn.length - 1) 0 + 1) = d := ⟨_, rfl⟩
    rw [hd]
    obtain ⟨hd1, hdlt, s1, s2, s3, s4, s5, s6, s7, s8⟩ := scale_facts uIn vIn hu hv hnv hn d hd
    have hult := natOf_lt hu
    generalize (mulAdd10VWW uIn d 0).1 ++ [(mulAdd10VWW uIn d 0).2] = u at *
    generalize (mulAdd10VWW vIn d 0).1 = v at *
    obtain ⟨z, r, e1, e2, e3, e4, e5, e6, e7⟩ := divRecursive_total thr kthr (uIn.length - vIn.length + 1)
      hthr hk u v s5 s1 (by omega) (by rw [s2]; exact s4)
      ⟨d, by rw [s2, s3, Nat.mul_comm]; exact Nat.mul_le_mul_right _ s8, by
        rw [s2, s7, Nat.mul_comm]
        have : vIn.length - 1 + (uIn.length - vIn.length + 1) = uIn.length := by omega
        rw [this]
        exact Nat.mul_lt_mul_of_pos_left hult (by omega)⟩
    have e1' : divRecursiveG (fun B => B - 1) thr kthr (uIn.length - vIn.length + 1) u v = .ok (z, r) := e1
    rw [e1']
    simp only []
    obtain ⟨rr, rem, c1, c2, c3, c4, _⟩ := divW_spec r d e5 (by omega) hdlt
    rw [c1]
    simp only []
    refine ⟨norm z, norm rr, rfl, ?_, ?_, WF_norm e4, WF_norm c4, Normalized_norm _, Normalized_norm _⟩
    · rw [natOf_norm, natOf_norm]
      have hE : natOf uIn * d = (natOf z * natOf vIn + natOf rr) * d + rem := by
        rw [← s7, e2, s3, ← c2]; ring
      have hmod : (natOf uIn * d) % d = 0 := Nat.mul_mod_left _ _
      rw [hE, Nat.mul_comm _ d, Nat.mul_add_mod, Nat.mod_eq_of_lt c3] at hmod
      rw [hmod, Nat.add_zero] at hE
      exact Nat.eq_of_mul_eq_mul_right (by omega) hE
    · rw [natOf_norm]
      have : natOf rr * d < natOf vIn * d := by rw [← s3]; omega
      exact Nat.lt_of_mul_lt_mul_right this

theorem divLargeRec_spec (thr kthr : Nat) (hthr : 4 ≤ thr) (hk : 1 ≤ kthr) (uIn vIn q r : List Nat)
    (hu : WF uIn) (hv : WF vIn) (hnv : Normalized vIn) (hn : 2 ≤ vIn.length)
    (hmn : vIn.length ≤ uIn.length) (h : divLargeRec thr kthr uIn vIn = .ok (q, r)) :
    natOf uIn = natOf q * natOf vIn + natOf r ∧ natOf r < natOf vIn ∧ WF q ∧ WF r ∧ Normalized q
      ∧ Normalized r := by
  obtain ⟨q', r', h1, h2⟩ := divLargeRec_total thr kthr hthr hk uIn vIn hu hv hnv hn hmn
  rw [h1] at h
  injection h with h
  injection h with hq hr
  subst hq hr
  exact h2

/-- `divFull` (= `dec.div` with the recursive path for `len v ≥ thr`): total correctness for every
    `thr ≥ 4` and every Karatsuba threshold `kthr ≥ 1`. -/
theorem divFull_total (thr kthr : Nat) (hthr : 4 ≤ thr) (hk : 1 ≤ kthr) (u v : List Nat)
    (hu : WF u) (hv : WF v) (hnu : Normalized u) (hnv : Normalized v) (hne : v ≠ []) :
    ∃ q r, divFull thr kthr u v = .ok (q, r) ∧ natOf u = natOf q * natOf v + natOf r ∧ natOf r < natOf v
      ∧ WF q ∧ WF r ∧ Normalized q ∧ Normalized r := by
  unfold divFull divFullG
  have hvl : v.length ≠ 0 := fun h => hne (List.eq_nil_of_length_eq_zero h)
  rw [if_neg hvl]
  have hcmp := cmp_spec u v hu hv hnu hnv
  by_cases hlt : natOf u < natOf v
  · rw [if_pos hlt] at hcmp
    rw [hcmp, if_pos (by decide)]
    exact ⟨[], u, rfl, by simp [natOf], hlt, WF_nil, hu, Normalized_nil, hnu⟩
  · have hge : ¬ (cmp u v < 0) := by
      rw [hcmp, if_neg hlt]
      by_cases hgt : natOf u > natOf v
      · rw [if_pos hgt]; decide
      · rw [if_neg hgt]; decide
    rw [if_neg hge]
    by_cases h1 : v.length = 1
    · rw [if_pos h1]
      cases v with
      | nil => simp at h1
      | cons v0 vs =>
        have hvs : vs = [] := List.eq_nil_of_length_eq_zero (by simpa using h1)
        subst hvs
        have hv0 := WF_single.mp hv
        have hv00 : v0 ≠ 0 := (Normalized_snoc [] v0).mp hnv
        rw [List.headD_cons]
        obtain ⟨q, r, c1, c2, c3, c4, c5⟩ := divW_spec u v0 hu (by omega) hv0
        rw [c1]
        simp only []
        refine ⟨q, setWord r, rfl, ?_, ?_, c4, WF_setWord (by omega), c5 hnu, Normalized_setWord r⟩
        · rw [natOf_setWord, natOf_single]; omega
        · rw [natOf_setWord, natOf_single]; exact c3
    · rw [if_neg h1]
      have hlen : v.length ≤ u.length := by
        by_contra h
        have := natOf_lt_of_length_lt hu hnv (by omega)
        omega
      exact divLargeRec_total thr kthr hthr hk u v hu hv hnv (by omega) hlen

/-- partial-correctness form. -/
theorem divFull_spec (thr kthr : Nat) (hthr : 4 ≤ thr) (hk : 1 ≤ kthr) (u v q r : List Nat)
    (hu : WF u) (hv : WF v) (hnu : Normalized u) (hnv : Normalized v) (hne : v ≠ [])
    (h : divFull thr kthr u v = .ok (q, r)) :
    natOf u = natOf q * natOf v + natOf r ∧ natOf r < natOf v ∧ WF q ∧ WF r ∧ Normalized q
      ∧ Normalized r := by
  obtain ⟨q', r', h1, h2⟩ := divFull_total thr kthr hthr hk u v hu hv hnu hnv hne
  rw [h1] at h
  injection h with h
  injection h with hq hr
  subst hq hr
  exact h2

theorem divFull_no_error (thr kthr : Nat) (hthr : 4 ≤ thr) (hk : 1 ≤ kthr) (u v : List Nat)
    (hu : WF u) (hv : WF v) (hnu : Normalized u) (hnv : Normalized v) (hne : v ≠ []) (e : String) :
    divFull thr kthr u v ≠ .error e := by
  obtain ⟨q', r', h1, _⟩ := divFull_total thr kthr hthr hk u v hu hv hnu hnv hne
  rw [h1]; intro h; cases h

/-- the result does not depend on the thresholds, and equals the basic path `div`. -/
theorem divFull_eq_div (thr kthr : Nat) (hthr : 4 ≤ thr) (hk : 1 ≤ kthr) (u v : List Nat)
    (hu : WF u) (hv : WF v) (hnu : Normalized u) (hnv : Normalized v) (hne : v ≠ []) :
    divFull thr kthr u v = div u v := by
  obtain ⟨q, r, h1, h2, h3, h4, h5, h6, h7⟩ := divFull_total thr kthr hthr hk u v hu hv hnu hnv hne
  obtain ⟨q', r', g1, g2, g3, g4, g5, g6, g7⟩ := div_total u v hu hv hnu hnv hne
  rw [h1, g1]
  have hpos : 0 < natOf v := by omega
  have hq : natOf q = natOf q' := by
    have e1 : natOf q = natOf u / natOf v := by
      rw [h2, Nat.mul_comm, Nat.mul_add_div hpos, Nat.div_eq_of_lt h3]; rfl
    have e2 : natOf q' = natOf u / natOf v := by
      rw [g2, Nat.mul_comm, Nat.mul_add_div hpos, Nat.div_eq_of_lt g3]; rfl
    rw [e1, e2]
  have hr : natOf r = natOf r' := by rw [hq] at h2; omega
  rw [natOf_inj q q' h4 g4 h6 g6 hq, natOf_inj r r' h5 g5 h7 g7 hr]

end Decimal.L0
