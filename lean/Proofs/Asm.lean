/-
  C07, assembly side, Tier A: the three straight-line routines of dec_arith_amd64.s
  (`mul10WW`, `div10WW`, `div10W`) compute their mathematical specification for ALL inputs
  satisfying the kernel's precondition.  The theorems are about the blocks REGENERATED from the
  assembly source (`DecimalModel/Gen/Asm.lean`) and about the Go-signature wrappers of
  `DecimalModel/AsmRoutines.lean` that run them through the generic CFG runner.

  Proof recipe (robust against register renaming and re-ordering of independent instructions):
  `simp only [blk_…]` unfolds the block and substitutes the SSA lets, which leaves an expression
  that depends only on the data flow; the inlined `div10W` sequence is recognised syntactically
  as `gmSeq` (Proofs/AsmLemmas.lean), everything else is closed by `omega`.
-/
import Proofs.AsmLemmas
import DecimalModel.AsmRoutines

namespace Decimal.Asm

open Decimal.Gen (W W_eq)
open Decimal.Gen.Asm

/-! ### Block theorems -/

/-- `·div10W`: `q, r = (n1·2^64 + n0) divmod 10^19`, for `n1 < 10^19` (the quotient fits a word). -/
theorem blk_div10W_entry_spec (s : St) (n1 n0 : Nat) (h0 : s.frame.rd 0 = n1) (h8 : s.frame.rd 8 = n0)
    (h1 : n1 < 10000000000000000000) (h2 : n0 < W) :
    (blk_div10W_entry s).2 = Next.ret ∧ (blk_div10W_entry s).1.trap = s.trap ∧
    (blk_div10W_entry s).1.mem = s.mem ∧
    (blk_div10W_entry s).1.frame =
      (s.frame.wr 16 ((n1 * W + n0) / 10000000000000000000)).wr 24 ((n1 * W + n0) % 10000000000000000000) := by
  have hg := gmSeq_spec n1 n0 h1 h2
  have hf : (blk_div10W_entry s).1.frame =
      (s.frame.wr 16 (gmSeq (s.frame.rd 0) (s.frame.rd 8)).1).wr 24 (gmSeq (s.frame.rd 0) (s.frame.rd 8)).2 := by
    simp only [blk_div10W_entry, gmSeq]
  refine ⟨?_, ?_, ?_, ?_⟩
  · simp only [blk_div10W_entry]
  · simp only [blk_div10W_entry]
  · simp only [blk_div10W_entry]
  · rw [hf, h0, h8, hg]

/-- `·mul10WW`: `z1, z0 = x·y divmod 10^19`, for `x, y < 10^19`. -/
theorem blk_mul10WW_entry_spec (s : St) (x y : Nat) (h0 : s.frame.rd 0 = x) (h8 : s.frame.rd 8 = y)
    (hx : x < 10000000000000000000) (hy : y < 10000000000000000000) :
    (blk_mul10WW_entry s).2 = Next.ret ∧ (blk_mul10WW_entry s).1.trap = s.trap ∧
    (blk_mul10WW_entry s).1.mem = s.mem ∧
    (blk_mul10WW_entry s).1.frame =
      (s.frame.wr 16 (x * y / 10000000000000000000)).wr 24 (x * y % 10000000000000000000) := by
  have hxy : x * y ≤ 9999999999999999999 * 9999999999999999999 := Nat.mul_le_mul (by omega) (by omega)
  have hg := gmSeq_spec (x * y / W) (x * y % W) (by simp only [W_eq]; omega) (by simp only [W_eq]; omega)
  have hdm : x * y / W * W + x * y % W = x * y := Nat.div_add_mod' _ _
  rw [hdm] at hg
  have hf : (blk_mul10WW_entry s).1.frame =
      (s.frame.wr 16 (gmSeq (s.frame.rd 0 * s.frame.rd 8 / W) (s.frame.rd 0 * s.frame.rd 8 % W)).1).wr 24
        (gmSeq (s.frame.rd 0 * s.frame.rd 8 / W) (s.frame.rd 0 * s.frame.rd 8 % W)).2 := by
    simp only [blk_mul10WW_entry, gmSeq]
  refine ⟨?_, ?_, ?_, ?_⟩
  · simp only [blk_mul10WW_entry]
  · simp only [blk_mul10WW_entry]
  · simp only [blk_mul10WW_entry]
  · rw [hf, h0, h8, hg]

/-- `·div10WW`: `q, r = (x1·10^19 + x0) divmod y`, for `x1 < y ≤ 10^19`, `x0 < 10^19`; no #DE. -/
theorem blk_div10WW_entry_spec (s : St) (x1 x0 y : Nat) (h0 : s.frame.rd 0 = x1) (h8 : s.frame.rd 8 = x0)
    (h16 : s.frame.rd 16 = y) (hx1 : x1 < y) (hx0 : x0 < 10000000000000000000) (hy : y ≤ 10000000000000000000) :
    (blk_div10WW_entry s).2 = Next.ret ∧ (blk_div10WW_entry s).1.trap = s.trap ∧
    (blk_div10WW_entry s).1.mem = s.mem ∧
    (blk_div10WW_entry s).1.frame =
      (s.frame.wr 24 ((x1 * 10000000000000000000 + x0) / y)).wr 32 ((x1 * 10000000000000000000 + x0) % y) := by
  -- the double word DX:AX before DIVQ is x1*10^19 + x0
  have hn : W * ((0 + 10000000000000000000 * x1 / W + (10000000000000000000 * x1 % W + x0) / W) % W)
      + (10000000000000000000 * x1 % W + x0) % W = x1 * 10000000000000000000 + x0 := by
    simp only [W_eq]; omega
  -- its high word is below the divisor: the quotient fits, DIVQ does not trap
  have hhi : (0 + 10000000000000000000 * x1 / W + (10000000000000000000 * x1 % W + x0) / W) % W < y := by
    have h1 : 0 + 10000000000000000000 * x1 / W + (10000000000000000000 * x1 % W + x0) / W
        = (10000000000000000000 * x1 + x0) / W := by simp only [W_eq]; omega
    have h2 : (10000000000000000000 * x1 + x0) / W < y := by
      apply Nat.div_lt_of_lt_mul
      simp only [W_eq]; omega
    rw [h1]
    exact Nat.lt_of_le_of_lt (Nat.mod_le _ _) h2
  have hq : (x1 * 10000000000000000000 + x0) / y < W := by
    apply Nat.div_lt_of_lt_mul
    have : y * W = W * y := Nat.mul_comm _ _
    simp only [W_eq] at *
    omega
  refine ⟨?_, ?_, ?_, ?_⟩
  · simp only [blk_div10WW_entry]
  · simp only [blk_div10WW_entry, h0, h8, h16]
    have h1 : ¬ y = 0 := by omega
    have h2 : ¬ (0 + 10000000000000000000 * x1 / W + (10000000000000000000 * x1 % W + x0) / W) % W ≥ y := by omega
    simp only [h1, h2, or_self, decide_false, Bool.or_false]
  · simp only [blk_div10WW_entry]
  · simp only [blk_div10WW_entry, h0, h8, h16, hn, Nat.mod_eq_of_lt hq]

/-! ### The runner on a single-block routine, and the wrappers -/

theorem readList_two (m : Mem) (b : Nat) : readList m b 2 = [m.rd (b + 8 * 0), m.rd (b + 8 * 1)] := rfl

theorem listMem_rd (base : Nat) (ws : List Nat) (d : Mem) (i : Nat) (hi : i < ws.length) :
    (listMem base ws d).rd (base + 8 * i) = ws.getD i 0 := by
  unfold listMem Mem.rd
  have h1 : base + 8 * i - base = 8 * i := by omega
  have h2 : 8 * i % 8 = 0 := by omega
  have h3 : 8 * i / 8 = i := by omega
  simp only [h1, h2, h3, Nat.le_add_right, hi, and_self, if_true]

private theorem frame2 (a b : Nat) (d : Mem) :
    (listMem 0 [a, b] d).rd 0 = a ∧ (listMem 0 [a, b] d).rd 8 = b := by
  have h0 := listMem_rd 0 [a, b] d 0 (by show 0 < 2; omega)
  have h1 := listMem_rd 0 [a, b] d 1 (by show 1 < 2; omega)
  exact ⟨h0, h1⟩

private theorem frame3 (a b c : Nat) (d : Mem) :
    (listMem 0 [a, b, c] d).rd 0 = a ∧ (listMem 0 [a, b, c] d).rd 8 = b ∧ (listMem 0 [a, b, c] d).rd 16 = c := by
  have h0 := listMem_rd 0 [a, b, c] d 0 (by show 0 < 3; omega)
  have h1 := listMem_rd 0 [a, b, c] d 1 (by show 1 < 3; omega)
  have h2 := listMem_rd 0 [a, b, c] d 2 (by show 2 < 3; omega)
  exact ⟨h0, h1, h2⟩

/-- A routine whose entry block returns: the runner needs one step. -/
theorem run_ret (fuel : Nat) (l : Lbl) (s : St) (h : (program l s).2 = Next.ret) :
    run program (fuel + 1) l s = some (program l s).1 := by
  rw [run_succ]
  generalize program l s = r at h
  obtain ⟨s', n⟩ := r
  simp only at h
  subst h
  rfl

/-- `mul10WW(x, y) = (x*y / 10^19, x*y % 10^19)` for `x, y < 10^19`: the assembly, run by the model. -/
theorem asm_mul10WW_spec (x y : Nat) (hx : x < 10000000000000000000) (hy : y < 10000000000000000000) :
    asm_mul10WW x y = some (x * y / 10000000000000000000, x * y % 10000000000000000000) := by
  have hfr := frame2 x y (fun _ => 0)
  have hb := blk_mul10WW_entry_spec (initState [.word x, .word y] []) x y hfr.1 hfr.2 hx hy
  obtain ⟨hret, htrap, -, hframe⟩ := hb
  unfold asm_mul10WW callKernel
  have hfuel : fuelFor [] = 63 + 1 := rfl
  have hp : program .mul10WW_entry = blk_mul10WW_entry := rfl
  rw [hfuel, run_ret 63 _ _ (by rw [hp]; exact hret), hp]
  have hini : (initState [.word x, .word y] []).trap = false := rfl
  have hl0 : 8 * (frameOf [.word x, .word y]).length + 8 * 0 = 16 := rfl
  have hl1 : 8 * (frameOf [.word x, .word y]).length + 8 * 1 = 24 := rfl
  simp only [htrap, hframe, hini, readList_two, Bool.false_eq_true, if_false, hl0, hl1]
  rw [Mem.rd_wr_ne _ _ _ _ (by decide), Mem.rd_wr_eq, Mem.rd_wr_eq]

/-- `div10W(n1, n0) = ((n1*2^64+n0) / 10^19, (n1*2^64+n0) % 10^19)` for `n1 < 10^19`. -/
theorem asm_div10W_spec (n1 n0 : Nat) (h1 : n1 < 10000000000000000000) (h0 : n0 < W) :
    asm_div10W n1 n0 = some ((n1 * W + n0) / 10000000000000000000, (n1 * W + n0) % 10000000000000000000) := by
  have hfr := frame2 n1 n0 (fun _ => 0)
  have hb := blk_div10W_entry_spec (initState [.word n1, .word n0] []) n1 n0 hfr.1 hfr.2 h1 h0
  obtain ⟨hret, htrap, -, hframe⟩ := hb
  unfold asm_div10W callKernel
  have hfuel : fuelFor [] = 63 + 1 := rfl
  have hp : program .div10W_entry = blk_div10W_entry := rfl
  rw [hfuel, run_ret 63 _ _ (by rw [hp]; exact hret), hp]
  have hini : (initState [.word n1, .word n0] []).trap = false := rfl
  have hl0 : 8 * (frameOf [.word n1, .word n0]).length + 8 * 0 = 16 := rfl
  have hl1 : 8 * (frameOf [.word n1, .word n0]).length + 8 * 1 = 24 := rfl
  simp only [htrap, hframe, hini, readList_two, Bool.false_eq_true, if_false, hl0, hl1]
  rw [Mem.rd_wr_ne _ _ _ _ (by decide), Mem.rd_wr_eq, Mem.rd_wr_eq]

/-- `div10WW(x1, x0, y) = ((x1*10^19+x0) / y, (x1*10^19+x0) % y)` for `x1 < y ≤ 10^19`, `x0 < 10^19`. -/
theorem asm_div10WW_spec (x1 x0 y : Nat) (hx1 : x1 < y) (hx0 : x0 < 10000000000000000000)
    (hy : y ≤ 10000000000000000000) :
    asm_div10WW x1 x0 y = some ((x1 * 10000000000000000000 + x0) / y, (x1 * 10000000000000000000 + x0) % y) := by
  have hfr := frame3 x1 x0 y (fun _ => 0)
  have hb := blk_div10WW_entry_spec (initState [.word x1, .word x0, .word y] []) x1 x0 y hfr.1 hfr.2.1 hfr.2.2 hx1 hx0 hy
  obtain ⟨hret, htrap, -, hframe⟩ := hb
  unfold asm_div10WW callKernel
  have hfuel : fuelFor [] = 63 + 1 := rfl
  have hp : program .div10WW_entry = blk_div10WW_entry := rfl
  rw [hfuel, run_ret 63 _ _ (by rw [hp]; exact hret), hp]
  have hini : (initState [.word x1, .word x0, .word y] []).trap = false := rfl
  have hl0 : 8 * (frameOf [.word x1, .word x0, .word y]).length + 8 * 0 = 24 := rfl
  have hl1 : 8 * (frameOf [.word x1, .word x0, .word y]).length + 8 * 1 = 32 := rfl
  simp only [htrap, hframe, hini, readList_two, Bool.false_eq_true, if_false, hl0, hl1]
  rw [Mem.rd_wr_ne _ _ _ _ (by decide), Mem.rd_wr_eq, Mem.rd_wr_eq]

/-! ### Agreement with the regenerated portable Go kernels -/

open Decimal.Gen in
/-- assembly `div10W` = Go `div10W_g` on the kernel's domain -/
theorem asm_div10W_eq_go (n1 n0 : Nat) (h1 : n1 < 10000000000000000000) (h0 : n0 < W) :
    asm_div10W n1 n0 = some (div10W_g n1 n0) := by
  rw [asm_div10W_spec n1 n0 h1 h0, div10W_g_spec n1 n0 h1 h0]

open Decimal.Gen in
/-- assembly `mul10WW` = Go `mul10WW_g` on the kernel's domain -/
theorem asm_mul10WW_eq_go (x y : Nat) (hx : x < 10000000000000000000) (hy : y < 10000000000000000000) :
    asm_mul10WW x y = some (mul10WW_g x y) := by
  rw [asm_mul10WW_spec x y hx hy, mul10WW_g_spec x y hx hy]

open Decimal.Gen in
/-- assembly `div10WW` = Go `div10WW_g` on the kernel's domain -/
theorem asm_div10WW_eq_go (x1 x0 y : Nat) (hx1 : x1 < y) (hx0 : x0 < 10000000000000000000)
    (hy : y ≤ 10000000000000000000) :
    asm_div10WW x1 x0 y = some (div10WW_g x1 x0 y) := by
  rw [asm_div10WW_spec x1 x0 y hx1 hx0 hy, div10WW_g_spec x1 x0 y hx1 hx0 hy]

end Decimal.Asm
