/-
  `FMA` of decimal.go REGENERATED (`Gen.Facts.FMAPre` = the state at the first opaque call / return / panic,
  `Gen.Facts.FMA` = the state at the final `z.Add(z0, u)` given what `umul` left) tied to the model
  (`Decimal.fma`, DecimalModel/Arith.lean): precision prologue over the three operands, the zero-addend
  shortcut into `Mul`, the choice of the scratch Decimal (`z0` is the receiver, or a fresh Decimal carrying the
  receiver's mode and precision when `u` is the receiver), the product sign, the scratch precision MaxPrec
  around `umul` and its restoration, the NaN case, the infinite / zero products, and the final `Add`.
-/
import DecimalModel.Gen.Facts
import DecimalModel.Arith
import Proofs.GenFacts

namespace Decimal.GenFma

open Decimal Decimal.GenFacts

/-- the scratch Decimal described by a generated record -/
def scratch (fresh : Bool) (z1 : Dec) (p : Nat) (m : Nat) (n : Bool) (a : Int) (f : Nat) : Dec :=
  if fresh then { prec := p, mode := modeOf m, neg := n, acc := a, form := formOf f } else z1

theorem fma_eq (z x y u : Dec) (su a : Bool) (ha : (su || a) = su) (hu : su = true → u = z) :
    let pre := Gen.Facts.FMAPre su a x.form.toNat x.neg x.prec y.form.toNat y.neg y.prec u.form.toNat u.prec
      z.prec z.mode.toNat z.neg z.acc z.form.toNat
    let z1 : Dec := { z with prec := pre.zPrec, neg := pre.zNeg, acc := pre.zAcc, form := formOf pre.zForm }
    let z0 : Dec := scratch pre.fresh z1 pre.z0_prec pre.z0_mode pre.z0_neg pre.z0_acc pre.z0_form
    let u' : Dec := if su then z1 else u
    let fin := fun (s : Dec) => if su then Decimal.add z1 s u' false true else Decimal.add s s u' true false
    Decimal.fma z x y u false false su =
      if pre.tail = 1 then Decimal.mul z1 x y
      else if pre.tail = 0 then (z1, outcomeOf pre.outcome)
      else if pre.tail = 2 then fin z0
      else
        let K := Decimal.umul z0 x y
        let g := Gen.Facts.FMA su a x.form.toNat x.neg x.prec y.form.toNat y.neg y.prec u.form.toNat u.prec
          K.form.toNat K.acc z.prec z.mode.toNat z.neg z.acc z.form.toNat
        fin { K with prec := if g.fresh then g.z0_prec else g.zPrec } := by
  cases su
  · have ha' : a = false := by simpa using ha
    subst ha'
    unfold Gen.Facts.FMAPre Gen.Facts.FMA Decimal.fma Decimal.opnd scratch
    cases hx : x.form <;> cases hy : y.form <;> cases hf : u.form <;> by_cases h0 : z.prec = 0 <;>
      simp [hx, hy, hf, h0, umax32_eq, outcomeOf, Decimal.Exact, Decimal.MaxPrec]
  · have hu' := hu rfl
    subst hu'
    rcases u with ⟨uf, un, um, ul, ue, up, umo, ua⟩
    unfold Gen.Facts.FMAPre Gen.Facts.FMA Decimal.fma Decimal.opnd scratch
    cases hx : x.form <;> cases hy : y.form <;> cases uf <;> by_cases h0 : up = 0 <;> cases a <;>
      simp [hx, hy, h0, umax32_eq, outcomeOf, Decimal.Exact, Decimal.MaxPrec]

end Decimal.GenFma
