/-
  Sanity theorems about the specification `Spec.round` itself: what the finite result is, in
  terms of the exact magnitude `q × 10^k`, and what its accuracy flag means.

  Values are compared after factoring `10^k` out: the result's magnitude is
  `coef × 10^(exp − p)`, the exact one `q × 10^k`; with `resMag r k p := coef × 10^(exp − k − p)`
  the comparison is between `resMag` and `q` (no huge power is ever formed).
-/
import Proofs.RoundSpec
import Mathlib.Algebra.Order.AbsoluteValue.Basic

namespace Decimal
open Spec

/-- Magnitude of a finite specification result, with `10^k` factored out. -/
noncomputable def resMag (r : SRes) (k : Int) (p : Nat) : ℚ := (r.coef : ℚ) * (10 : ℚ) ^ (r.exp - k - p)

/-- The scaled magnitude `t = q × 10^(p − e)` lies in `[10^(p−1), 10^p)`. -/
theorem scaled_bounds {q : ℚ} (hq : 0 < q) (p : Nat) (hp : 1 ≤ p) :
    ((10 ^ (p - 1) : Nat) : ℚ) ≤ q * pow10Rat ((p : Int) - decExp q) ∧
    q * pow10Rat ((p : Int) - decExp q) < ((10 ^ p : Nat) : ℚ) := by
  obtain ⟨b1, b2⟩ := decExp_bounds hq
  have h10 : (0 : ℚ) < 10 := by norm_num
  have hpos : (0 : ℚ) < (10 : ℚ) ^ ((p : Int) - decExp q) := zpow_pos h10 _
  rw [pow10Rat_eq_zpow]
  constructor
  · have : ((10 ^ (p - 1) : Nat) : ℚ) = (10 : ℚ) ^ (decExp q - 1) * (10 : ℚ) ^ ((p : Int) - decExp q) := by
      rw [← zpow_add₀ h10.ne']
      have : decExp q - 1 + ((p : Int) - decExp q) = ((p - 1 : Nat) : Int) := by omega
      rw [this, zpow_natCast]; push_cast; rfl
    rw [this]
    exact mul_le_mul_of_nonneg_right b1 (le_of_lt hpos)
  · have : ((10 ^ p : Nat) : ℚ) = (10 : ℚ) ^ (decExp q) * (10 : ℚ) ^ ((p : Int) - decExp q) := by
      rw [← zpow_add₀ h10.ne']
      have : decExp q + ((p : Int) - decExp q) = (p : Int) := by omega
      rw [this, zpow_natCast]; push_cast; rfl
    rw [this]
    exact mul_lt_mul_of_pos_right b2 hpos

/-- Floor of a non-negative rational as a natural number. -/
theorem floor_toNat_bounds {t : ℚ} (ht : 0 ≤ t) :
    ((t.floor.toNat : Nat) : ℚ) ≤ t ∧ t < ((t.floor.toNat : Nat) : ℚ) + 1 := by
  have h0 : 0 ≤ t.floor := Rat.le_floor_iff.mpr (by simpa using ht)
  have hc : ((t.floor.toNat : Nat) : ℚ) = ((t.floor : Int) : ℚ) := by
    have : ((t.floor.toNat : Nat) : Int) = t.floor := Int.toNat_of_nonneg h0
    exact_mod_cast congrArg (fun i : Int => (i : ℚ)) this
  rw [hc]
  constructor
  · exact Rat.floor_le t
  · have := Rat.lt_floor_add_one t
    push_cast at this
    exact this

/-- Everything about a finite result of `Spec.round`, in one statement:
    with `t = q·10^(p−e)`, `lo = ⌊t⌋`, `frac = t − lo`, the coefficient is `c = lo` or `lo + 1`
    (a carry to `10^p` being renormalised), the increment happens only for `frac ≠ 0` and is the
    mode's decision, and the accuracy is `Exact` iff `frac = 0`. -/
theorem round_finite_char (mode : Mode) (p : Nat) (neg : Bool) (q : ℚ) (k : Int)
    (hq : 0 < q) (hp : 1 ≤ p) (hfin : (Spec.round mode p neg q k).form = .finite) :
    let r := Spec.round mode p neg q k
    let t := q * pow10Rat ((p : Int) - decExp q)
    let lo := t.floor.toNat
    let frac := t - (lo : ℚ)
    let inc := !(frac == 0) && incr mode neg lo frac
    let c := if inc then lo + 1 else lo
    r.neg = neg ∧ ndigits r.coef = p ∧
    resMag r k p = (c : ℚ) * (10 : ℚ) ^ (decExp q - p) ∧
    q = t * (10 : ℚ) ^ (decExp q - p) ∧
    (lo : ℚ) ≤ t ∧ t < (lo : ℚ) + 1 ∧
    r.acc = (if frac = 0 then Exact else makeAcc (inc != neg)) := by
  intro r t lo frac inc c
  have h10 : (0 : ℚ) < 10 := by norm_num
  have hmin : ¬ (decExp q + k < MinExp) := by
    intro h
    have : r.form = .zero := by
      show (Spec.round mode p neg q k).form = .zero
      rw [round_underflow _ _ _ _ _ h]
    rw [this] at hfin; cases hfin
  obtain ⟨tb1, tb2⟩ := scaled_bounds hq p hp
  have ht0 : 0 ≤ t := le_trans (Nat.cast_nonneg _) tb1
  obtain ⟨fl1, fl2⟩ := floor_toNat_bounds ht0
  -- bounds on lo
  have hlo1 : 10 ^ (p - 1) ≤ lo := by
    have : ((10 ^ (p - 1) : Nat) : ℚ) < (lo : ℚ) + 1 := lt_of_le_of_lt tb1 fl2
    have : 10 ^ (p - 1) < lo + 1 := by exact_mod_cast this
    omega
  have hlo2 : lo < 10 ^ p := by
    have : (lo : ℚ) < ((10 ^ p : Nat) : ℚ) := lt_of_le_of_lt fl1 tb2
    exact_mod_cast this
  have hqt : q = t * (10 : ℚ) ^ (decExp q - p) := by
    show q = q * pow10Rat ((p : Int) - decExp q) * (10 : ℚ) ^ (decExp q - p)
    rw [pow10Rat_eq_zpow, mul_assoc, ← zpow_add₀ h10.ne']
    have : (p : Int) - decExp q + (decExp q - p) = 0 := by ring
    rw [this, zpow_zero, mul_one]
  have hr : r = roundIntTail p neg lo (decExp q + k) (frac == 0) (incr mode neg lo frac) := by
    show Spec.round mode p neg q k = _
    rw [round_eq_tail mode p neg q k hmin]
  have hc1 : 10 ^ (p - 1) ≤ c := by
    show 10 ^ (p - 1) ≤ (if inc then lo + 1 else lo)
    split <;> omega
  have hc2 : c ≤ 10 ^ p := by
    show (if inc then lo + 1 else lo) ≤ 10 ^ p
    split <;> omega
  have hfin' : (roundIntTail p neg lo (decExp q + k) (frac == 0) (incr mode neg lo frac)).form = .finite := by
    rw [← hr]; exact hfin
  have hpp : (10 : ℚ) ^ (p : Int) = (10 : ℚ) ^ ((p - 1 : Nat) : Int) * 10 := by
    have : (p : Int) = ((p - 1 : Nat) : Int) + 1 := by omega
    rw [this, zpow_add₀ h10.ne', zpow_one]
  rw [hr]
  unfold roundIntTail at hfin' ⊢
  simp only at hfin' ⊢
  unfold resMag
  by_cases hcarry : (c == 10 ^ p) = true
  · -- carry
    have hce : c = 10 ^ p := eq_of_beq hcarry
    have hcarry' : ((if (!(frac == 0) && incr mode neg lo frac) = true then lo + 1 else lo) == 10 ^ p) = true := hcarry
    simp only [hcarry', if_true] at hfin' ⊢
    by_cases hov : decExp q + k + 1 > MaxExp
    · simp only [hov, if_true] at hfin'; cases hfin'
    · simp only [hov, if_false]
      refine ⟨trivial, by rw [ndigits_pow]; omega, ?_, hqt, fl1, fl2, ?_⟩
      · rw [hce]
        have e1 : decExp q + k + 1 - k - (p : Int) = ((decExp q - p) : Int) + 1 := by ring
        rw [e1, zpow_add₀ h10.ne', zpow_one]
        push_cast
        rw [← zpow_natCast (10 : ℚ) p, ← zpow_natCast (10 : ℚ) (p - 1), hpp]
        ring
      · show (if (frac == 0) = true then Exact else makeAcc (inc != neg))
            = if frac = 0 then Exact else makeAcc (inc != neg)
        by_cases hf : frac = 0 <;> simp [hf]
  · have hcarry' : ((if (!(frac == 0) && incr mode neg lo frac) = true then lo + 1 else lo) == 10 ^ p) = false :=
      Bool.eq_false_iff.mpr hcarry
    have hclt : c < 10 ^ p := by
      have : c ≠ 10 ^ p := fun h => hcarry (by rw [h]; exact beq_self_eq_true _)
      omega
    simp only [hcarry', Bool.false_eq_true, if_false] at hfin' ⊢
    by_cases hov : decExp q + k > MaxExp
    · simp only [hov, if_true] at hfin'; cases hfin'
    · simp only [hov, if_false]
      refine ⟨trivial, ndigits_eq_of_coef hc1 hclt, ?_, hqt, fl1, fl2, ?_⟩
      · have e1 : decExp q + k - k - (p : Int) = decExp q - p := by ring
        rw [e1]
      · show (if (frac == 0) = true then Exact else makeAcc (inc != neg))
            = if frac = 0 then Exact else makeAcc (inc != neg)
        by_cases hf : frac = 0 <;> simp [hf]

/-- One unit in the last place of the `p`-digit decade of `q` (with `10^k` factored out). -/
noncomputable def ulpOf (q : ℚ) (p : Nat) : ℚ := (10 : ℚ) ^ (decExp q - p)

theorem ulpOf_pos (q : ℚ) (p : Nat) : 0 < ulpOf q p := zpow_pos (by norm_num) _

theorem makeAcc_ne_exact (b : Bool) : makeAcc b ≠ Exact := by
  cases b <;> simp [makeAcc, Above, Below, Exact]

theorem makeAcc_eq_above (b : Bool) : makeAcc b = Above ↔ b = true := by
  cases b <;> simp [makeAcc, Above, Below]

theorem makeAcc_eq_below (b : Bool) : makeAcc b = Below ↔ b = false := by
  cases b <;> simp [makeAcc, Above, Below]

/-- The difference between the rounded and the exact magnitude, in ulps, and what decides it. -/
theorem round_finite_diff (mode : Mode) (p : Nat) (neg : Bool) (q : ℚ) (k : Int)
    (hq : 0 < q) (hp : 1 ≤ p) (hfin : (Spec.round mode p neg q k).form = .finite) :
    ∃ (lo : Nat) (frac : ℚ) (inc : Bool),
      0 ≤ frac ∧ frac < 1 ∧ (inc = true → frac ≠ 0) ∧
      inc = (!(frac == 0) && incr mode neg lo frac) ∧
      resMag (Spec.round mode p neg q k) k p - q
        = (if inc then 1 - frac else -frac) * ulpOf q p ∧
      (Spec.round mode p neg q k).acc = (if frac = 0 then Exact else makeAcc (inc != neg)) := by
  obtain ⟨_, _, h3, h4, h5, h6, h7⟩ := round_finite_char mode p neg q k hq hp hfin
  unfold ulpOf
  generalize q * pow10Rat ((p : Int) - decExp q) = t at *
  generalize t.floor.toNat = lo at *
  generalize (10 : ℚ) ^ (decExp q - (p : Int)) = u at *
  refine ⟨lo, t - lo, _, sub_nonneg.mpr h5, by linarith, ?_, rfl, ?_, h7⟩
  · intro hinc
    simp only [Bool.and_eq_true, Bool.not_eq_true', beq_eq_false_iff_ne] at hinc
    exact hinc.1
  · rw [h3]
    split
    · push_cast; linarith
    · linarith


theorem mul_neg_iff_right' {d u : ℚ} (hu : 0 < u) : d * u < 0 ↔ d < 0 := by
  constructor
  · intro h
    by_contra hd
    have := mul_nonneg (not_lt.mp hd) hu.le
    linarith
  · intro h; exact mul_neg_of_neg_of_pos h hu

section
variable (mode : Mode) (p : Nat) (neg : Bool) (q : ℚ) (k : Int)
  (hq : 0 < q) (hp : 1 ≤ p) (hfin : (Spec.round mode p neg q k).form = .finite)
include hq hp hfin

/-- The coefficient has exactly `p` digits. -/
theorem round_coef_digits : ndigits (Spec.round mode p neg q k).coef = p :=
  (round_finite_char mode p neg q k hq hp hfin).2.1

theorem round_neg_n : (Spec.round mode p neg q k).neg = neg :=
  (round_finite_char mode p neg q k hq hp hfin).1

/-- `acc = Exact` iff the stored value is the exact value. -/
theorem round_acc_exact_iff :
    (Spec.round mode p neg q k).acc = Exact ↔ resMag (Spec.round mode p neg q k) k p = q := by
  obtain ⟨lo, frac, inc, f0, f1, hinc, _, hdiff, hacc⟩ := round_finite_diff mode p neg q k hq hp hfin
  have hu := ulpOf_pos q p
  have e : resMag (Spec.round mode p neg q k) k p = q ↔
      (if inc then 1 - frac else -frac) * ulpOf q p = 0 := by rw [← sub_eq_zero, hdiff]
  rw [hacc, e]
  by_cases hf : frac = 0
  · have hi : inc = false := by
      cases hi : inc
      · rfl
      · exact absurd hf (hinc hi)
    simp [hf, hi]
  · simp only [hf, if_false]
    constructor
    · intro h; exact absurd h (makeAcc_ne_exact _)
    · intro h
      rcases mul_eq_zero.mp h with h | h
      · exfalso
        cases hi : inc
        · simp only [hi, Bool.false_eq_true, if_false] at h; exact hf (by linarith)
        · simp only [hi, if_true] at h; linarith
      · exact absurd h hu.ne'

/-- `acc = Above` iff the stored *signed* value is above the exact one. -/
theorem round_acc_above_iff :
    (Spec.round mode p neg q k).acc = Above ↔
      (if neg then resMag (Spec.round mode p neg q k) k p < q
       else q < resMag (Spec.round mode p neg q k) k p) := by
  obtain ⟨lo, frac, inc, f0, f1, hinc, _, hdiff, hacc⟩ := round_finite_diff mode p neg q k hq hp hfin
  have hu := ulpOf_pos q p
  rw [hacc]
  have hlt : resMag (Spec.round mode p neg q k) k p < q ↔ (if inc then 1 - frac else -frac) < 0 := by
    rw [← sub_neg, hdiff]
    exact mul_neg_iff_right' hu
  have hgt : q < resMag (Spec.round mode p neg q k) k p ↔ 0 < (if inc then 1 - frac else -frac) := by
    rw [← sub_pos, hdiff]
    exact mul_pos_iff_of_pos_right hu
  rw [hlt, hgt]
  by_cases hf : frac = 0
  · have hi : inc = false := by
      cases hi : inc
      · rfl
      · exact absurd hf (hinc hi)
    cases neg <;> simp [hf, hi, Exact, Above]
  · have hfpos : 0 < frac := lt_of_le_of_ne f0 (Ne.symm hf)
    simp only [hf, if_false, makeAcc_eq_above]
    cases neg <;> cases inc <;> simp <;> linarith

/-- `acc = Below` iff the stored *signed* value is below the exact one. -/
theorem round_acc_below_iff :
    (Spec.round mode p neg q k).acc = Below ↔
      (if neg then q < resMag (Spec.round mode p neg q k) k p
       else resMag (Spec.round mode p neg q k) k p < q) := by
  obtain ⟨lo, frac, inc, f0, f1, hinc, _, hdiff, hacc⟩ := round_finite_diff mode p neg q k hq hp hfin
  have hu := ulpOf_pos q p
  rw [hacc]
  have hlt : resMag (Spec.round mode p neg q k) k p < q ↔ (if inc then 1 - frac else -frac) < 0 := by
    rw [← sub_neg, hdiff]
    exact mul_neg_iff_right' hu
  have hgt : q < resMag (Spec.round mode p neg q k) k p ↔ 0 < (if inc then 1 - frac else -frac) := by
    rw [← sub_pos, hdiff]
    exact mul_pos_iff_of_pos_right hu
  rw [hlt, hgt]
  by_cases hf : frac = 0
  · have hi : inc = false := by
      cases hi : inc
      · rfl
      · exact absurd hf (hinc hi)
    cases neg <;> simp [hf, hi, Exact, Below]
  · have hfpos : 0 < frac := lt_of_le_of_ne f0 (Ne.symm hf)
    simp only [hf, if_false, makeAcc_eq_below]
    cases neg <;> cases inc <;> simp <;> linarith

/-- Faithful rounding: the result is one of the two `p`-digit neighbours of the exact value. -/
theorem round_faithful :
    |resMag (Spec.round mode p neg q k) k p - q| < ulpOf q p := by
  obtain ⟨lo, frac, inc, f0, f1, hinc, _, hdiff, _⟩ := round_finite_diff mode p neg q k hq hp hfin
  have hu := ulpOf_pos q p
  rw [hdiff, abs_mul, abs_of_pos hu]
  have : |if inc then 1 - frac else -frac| < 1 := by
    rw [abs_lt]
    cases hi : inc
    · simp only [Bool.false_eq_true, if_false]; constructor <;> linarith
    · have hfpos : 0 < frac := lt_of_le_of_ne f0 (Ne.symm (hinc hi))
      simp only [if_true]; constructor <;> linarith
  calc _ < 1 * ulpOf q p := mul_lt_mul_of_pos_right this hu
    _ = ulpOf q p := one_mul _

/-- Directed modes pick the neighbour on the documented side. -/
theorem round_directed :
    (mode = .ToZero → resMag (Spec.round mode p neg q k) k p ≤ q) ∧
    (mode = .AwayFromZero → q ≤ resMag (Spec.round mode p neg q k) k p) ∧
    (mode = .ToNegativeInf →
      if neg then q ≤ resMag (Spec.round mode p neg q k) k p
      else resMag (Spec.round mode p neg q k) k p ≤ q) ∧
    (mode = .ToPositiveInf →
      if neg then resMag (Spec.round mode p neg q k) k p ≤ q
      else q ≤ resMag (Spec.round mode p neg q k) k p) := by
  obtain ⟨lo, frac, inc, f0, f1, hinc, hdef, hdiff, _⟩ := round_finite_diff mode p neg q k hq hp hfin
  have hu := ulpOf_pos q p
  have hle : inc = false → resMag (Spec.round mode p neg q k) k p ≤ q := by
    intro hi
    rw [← sub_nonpos, hdiff, hi]
    simp only [Bool.false_eq_true, if_false]
    exact mul_nonpos_of_nonpos_of_nonneg (by linarith) hu.le
  have hge : (frac ≠ 0 → inc = true) → q ≤ resMag (Spec.round mode p neg q k) k p := by
    intro h
    rw [← sub_nonneg, hdiff]
    by_cases hf : frac = 0
    · have hi : inc = false := by
        cases hi : inc
        · rfl
        · exact absurd hf (hinc hi)
      simp [hi, hf]
    · rw [h hf]
      simp only [if_true]
      exact mul_nonneg (by linarith) hu.le
  have hnz : frac ≠ 0 → (!(frac == 0)) = true := by intro h; simp [h]
  refine ⟨?_, ?_, ?_, ?_⟩
  · intro hm; subst hm
    apply hle; rw [hdef]; simp [incr]
  · intro hm; subst hm
    apply hge; intro hf; rw [hdef, hnz hf]; simp [incr]
  · intro hm; subst hm
    cases neg
    · simp only [Bool.false_eq_true, if_false]
      apply hle; rw [hdef]; simp [incr]
    · simp only [if_true]
      apply hge; intro hf; rw [hdef, hnz hf]; simp [incr]
  · intro hm; subst hm
    cases neg
    · simp only [Bool.false_eq_true, if_false]
      apply hge; intro hf; rw [hdef, hnz hf]; simp [incr]
    · simp only [if_true]
      apply hle; rw [hdef]; simp [incr]

/-- Nearest modes: the error is at most half an ulp. -/
theorem round_nearest (hm : mode = .ToNearestEven ∨ mode = .ToNearestAway) :
    |resMag (Spec.round mode p neg q k) k p - q| ≤ ulpOf q p / 2 := by
  obtain ⟨lo, frac, inc, f0, f1, hinc, hdef, hdiff, _⟩ := round_finite_diff mode p neg q k hq hp hfin
  have hu := ulpOf_pos q p
  rw [hdiff, abs_mul, abs_of_pos hu]
  have : |if inc then 1 - frac else -frac| ≤ 1 / 2 := by
    rw [abs_le]
    cases hi : inc
    · simp only [Bool.false_eq_true, if_false]
      have hfr : frac ≤ 1 / 2 := by
        by_contra hgt
        have hgt' : 1 / 2 < frac := not_le.mp hgt
        have hf : frac ≠ 0 := by intro h; rw [h] at hgt'; norm_num at hgt'
        have : inc = true := by
          rw [hdef]
          have h2 : (2 : ℚ)⁻¹ = 1 / 2 := by norm_num
          rcases hm with hm | hm <;> subst hm <;> simp [incr, hf]
          · left; rw [h2]; exact hgt'
          · rw [h2]; exact le_of_lt hgt'
        rw [hi] at this; cases this
      constructor <;> linarith
    · simp only [if_true]
      have hfr : 1 / 2 ≤ frac := by
        rw [hdef] at hi
        simp only [Bool.and_eq_true] at hi
        rcases hm with hm | hm <;> subst hm <;> simp [incr] at hi
        · rcases hi.2 with h | h
          · exact le_of_lt (by simpa using h)
          · exact le_of_eq (by simpa using h.1.symm)
        · simpa using hi.2
      constructor <;> linarith
  calc _ ≤ 1 / 2 * ulpOf q p := mul_le_mul_of_nonneg_right this hu.le
    _ = ulpOf q p / 2 := by ring

end

end Decimal
