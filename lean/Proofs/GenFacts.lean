/-
  Theorems tying the constants and decision functions REGENERATED from decimal.go / stdlib.go
  (`DecimalModel/Gen/Facts.lean`, written by tools/gen/facts.go on every run) to the hand-written
  model (`DecimalModel/Basic.lean`, `Round.lean`, `Arith.lean`, `SatInt.lean`) and to the codes of
  the driver's line protocol (`Driver/Proto.lean` uses `Form.toNat/ofNat?`, `Mode.toNat/ofNat?`
  and the integer accuracy). Each statement holds for ALL arguments, so a one-token change of the
  Go source (comparison operator, constant, enumeration order, swapped case) breaks this file.
-/
import DecimalModel.Gen.Facts
import DecimalModel.Gen.Tables
import DecimalModel.Gen.WordOps
import DecimalModel.SatInt
import Proofs.Attr
import Proofs.Basic

namespace Decimal.GenFacts

open Decimal

/-- Total decoding of a form code (`Form.ofNat?` of the protocol, `zero` for junk). -/
def formOf (n : Nat) : Form := (Form.ofNat? n).getD .zero

/-- Outcome code of a generated stateful method: 0 return, 1 `panic(ErrNaN{…})`, other: panic. -/
def outcomeOf (n : Nat) : Outcome :=
  match n with
  | 0 => .ok
  | 1 => .errNaN
  | _ => .panicOther "panic"

@[simp] theorem formOf_toNat (f : Form) : formOf f.toNat = f := by cases f <;> rfl
@[simp] theorem formOf_0 : formOf 0 = .zero := rfl
@[simp] theorem formOf_1 : formOf 1 = .finite := rfl
@[simp] theorem formOf_2 : formOf 2 = .inf := rfl
@[simp] theorem toNat_zero : Form.zero.toNat = 0 := rfl
@[simp] theorem toNat_finite : Form.finite.toNat = 1 := rfl
@[simp] theorem toNat_inf : Form.inf.toNat = 2 := rfl

/-! ### Constants -/

theorem maxExp_eq : Gen.Facts.MaxExp = Decimal.MaxExp := by decide
theorem minExp_eq : Gen.Facts.MinExp = Decimal.MinExp := by decide
theorem maxPrec_eq : Gen.Facts.MaxPrec = Decimal.MaxPrec := by decide
theorem defaultPrec_eq : Gen.Facts.DefaultDecimalPrec = Decimal.DefaultPrec := by decide
theorem dw_eq : Gen.Facts.DW = Decimal.DW := by decide
theorem db_eq : Gen.Facts.DB = Decimal.B := by decide
theorem dmax_eq : Gen.Facts.DMax = Decimal.B - 1 := by decide
theorem wordBits_eq : Gen.Facts.W = 64 := by decide
theorem digitsPerWord_eq : Gen.Facts.DigitsPerWord = Decimal.DW := by decide
theorem decimalBase_eq : Gen.Facts.DecimalBase = Decimal.B := by decide
theorem db_eq_pow : Gen.Facts.DB = 10 ^ Gen.Facts.DW := by decide
theorem maxInt64_eq : Decimal.MaxInt64 = 2 ^ 63 - 1 ∧ Decimal.MinInt64 = -(2 ^ 63) := by decide

/-- The two generators agree (Tables.lean is what the L0 model and the word proofs use). -/
theorem tables_consistent :
    (Gen.Facts.MaxExp = (Gen.c_MaxExp : Int)) ∧ Gen.Facts.MinExp = Gen.c_MinExp ∧
    Gen.Facts.MaxPrec = Gen.c_MaxPrec ∧ Gen.Facts.DefaultDecimalPrec = Gen.c_DefaultDecimalPrec ∧
    Gen.Facts.W = Gen.c_W ∧ Gen.Facts.DW = Gen.c_DW ∧ Gen.Facts.DB = Gen.c_DB ∧ Gen.Facts.DMax = Gen.c_DMax ∧
    Gen.Facts.divRecursiveThreshold = Gen.c_divRecursiveThreshold ∧
    Gen.Facts.decKaratsubaThreshold = Gen.v_decKaratsubaThreshold ∧
    Gen.Facts.decBasicSqrThreshold = Gen.v_decBasicSqrThreshold ∧
    Gen.Facts.decKaratsubaSqrThreshold = Gen.v_decKaratsubaSqrThreshold := by decide

/-- Thresholds: the orderings the algorithms rely on. -/
theorem thresholds_ok :
    2 ≤ Gen.Facts.decBasicSqrThreshold ∧ Gen.Facts.decBasicSqrThreshold ≤ Gen.Facts.decKaratsubaSqrThreshold ∧
    2 ≤ Gen.Facts.decKaratsubaThreshold ∧ 2 ≤ Gen.Facts.divRecursiveThreshold := by decide

/-! ### Enumerations: the Go values are the codes of the Lean inductive types -/

theorem modeCode_eq :
    Mode.toNat .ToNearestEven = Gen.Facts.ToNearestEven ∧ Mode.toNat .ToNearestAway = Gen.Facts.ToNearestAway ∧
    Mode.toNat .ToZero = Gen.Facts.ToZero ∧ Mode.toNat .AwayFromZero = Gen.Facts.AwayFromZero ∧
    Mode.toNat .ToNegativeInf = Gen.Facts.ToNegativeInf ∧ Mode.toNat .ToPositiveInf = Gen.Facts.ToPositiveInf := by
  decide

theorem modeDecode_eq :
    Mode.ofNat? Gen.Facts.ToNearestEven = some .ToNearestEven ∧ Mode.ofNat? Gen.Facts.ToNearestAway = some .ToNearestAway ∧
    Mode.ofNat? Gen.Facts.ToZero = some .ToZero ∧ Mode.ofNat? Gen.Facts.AwayFromZero = some .AwayFromZero ∧
    Mode.ofNat? Gen.Facts.ToNegativeInf = some .ToNegativeInf ∧ Mode.ofNat? Gen.Facts.ToPositiveInf = some .ToPositiveInf := by
  decide

theorem formCode_eq :
    Form.toNat .zero = Gen.Facts.zero ∧ Form.toNat .finite = Gen.Facts.finite ∧ Form.toNat .inf = Gen.Facts.inf := by
  decide

theorem formDecode_eq :
    Form.ofNat? Gen.Facts.zero = some .zero ∧ Form.ofNat? Gen.Facts.finite = some .finite ∧
    Form.ofNat? Gen.Facts.inf = some .inf := by decide

theorem accValues_eq :
    Gen.Facts.Below = Decimal.Below ∧ Gen.Facts.Exact = Decimal.Exact ∧ Gen.Facts.Above = Decimal.Above := by decide

/-- Declaration order in the source (the zero value of each type is the first / middle name). -/
theorem enumOrder_eq :
    Gen.Facts.roundingModeOrder =
      ["ToNearestEven", "ToNearestAway", "ToZero", "AwayFromZero", "ToNegativeInf", "ToPositiveInf"] ∧
    Gen.Facts.formOrder = ["zero", "finite", "inf"] ∧
    Gen.Facts.accuracyOrder = ["Below", "Exact", "Above"] := by decide

/-- The zero value of a Go `Decimal` is the model's default: +0, ToNearestEven, Exact. -/
theorem zeroValue_eq :
    (({} : Dec).form.toNat = 0) ∧ (({} : Dec).mode.toNat = 0) ∧ (({} : Dec).acc = 0) ∧
    Gen.Facts.zero = 0 ∧ Gen.Facts.ToNearestEven = 0 ∧ Gen.Facts.Exact = 0 := by decide

/-! ### Small pure functions -/

theorem makeAcc_eq (above : Bool) : Gen.Facts.makeAcc above = Decimal.makeAcc above := by
  cases above <;> rfl

/-- The older hand-specialised translation in WordOps.lean agrees too. -/
theorem makeAcc_eq_wordOps (above : Bool) : Gen.Facts.makeAcc above = Gen.makeAcc above := by
  cases above <;> rfl

theorem umax32_eq (x y : Nat) : Gen.Facts.umax32 x y = Decimal.umax x y := by
  unfold Gen.Facts.umax32 Decimal.umax
  by_cases h : x > y <;> simp [h]

theorem wrapI64_eq (n : Int) : Gen.Facts.wrapI64 n = Decimal.wrap64 n := by
  unfold Gen.Facts.wrapI64 Decimal.wrap64; omega

/-- `addExp` as generated is the model's `addExpSat`, for all integers. -/
theorem addExp_eq (a b : Int) : Gen.Facts.addExp a b = Decimal.addExpSat a b := by
  unfold Gen.Facts.addExp Decimal.addExpSat
  simp only [wrapI64_eq, Decimal.MaxInt64, Decimal.MinInt64]

/-- `ord`: the class ordering used by `Cmp`. -/
theorem ord_eq (x : Dec) : Gen.Facts.ord x.form.toNat x.neg = Decimal.ord x := by
  unfold Gen.Facts.ord Decimal.ord
  cases hf : x.form <;> cases hn : x.neg <;> decide

/-- `Cmp` with its two `ucmp` calls as parameters is the model's `cmp`. -/
theorem cmp_eq (x y : Dec) :
    Gen.Facts.Cmp x.form.toNat x.neg y.form.toNat y.neg (Decimal.ucmp x y) (Decimal.ucmp y x) = Decimal.cmp x y := by
  unfold Gen.Facts.Cmp Decimal.cmp
  simp only [ord_eq]
  generalize Decimal.ord x = mx
  generalize Decimal.ord y = my
  by_cases h1 : mx < my
  · simp [h1]
  · by_cases h2 : mx > my
    · simp [h1, h2]
    · by_cases h3 : mx = -1
      · simp [h3]
      · by_cases h4 : mx = 1
        · simp [h4]
        · simp [h1, h2, h3, h4]

/-- The value the driver's `sign` step expects (Driver/Ops2.lean, verbatim). -/
def signModel (x : Dec) : Int := match x.form with | .zero => 0 | _ => if x.neg then -1 else 1

theorem sign_eq (x : Dec) : Gen.Facts.Sign x.form.toNat x.neg = signModel x := by
  unfold Gen.Facts.Sign signModel
  cases hf : x.form <;> cases hn : x.neg <;> decide

/-- `Sign` is `Cmp` against zero. -/
theorem sign_eq_cmp_zero (x : Dec) : Gen.Facts.Sign x.form.toNat x.neg = Decimal.cmp x {} := by
  cases hf : x.form <;> cases hn : x.neg <;>
    simp [Gen.Facts.Sign, Decimal.cmp, Decimal.ord, hf, hn, Form.toNat]

theorem signbit_eq (x : Dec) : Gen.Facts.Signbit x.neg = x.neg := rfl

theorem isInf_eq (x : Dec) : Gen.Facts.IsInf x.form.toNat = (x.form == .inf) := by
  cases hf : x.form <;> decide

theorem isZero_eq (x : Dec) : Gen.Facts.IsZero x.form.toNat = (x.form == .zero) := by
  cases hf : x.form <;> decide

theorem acc_eq (x : Dec) : Gen.Facts.Acc x.acc = x.acc := rfl
theorem mode_eq (x : Dec) : Gen.Facts.Mode x.mode.toNat = x.mode.toNat := rfl
theorem prec_eq (x : Dec) : Gen.Facts.Prec x.prec = x.prec := rfl

/-- `IsInt` (with `x.MinPrec()` as a parameter) for fields in their Go ranges. -/
theorem isInt_eq (x : Dec) (he1 : Decimal.MinExp ≤ x.exp) (he2 : x.exp ≤ Decimal.MaxExp) :
    Gen.Facts.IsInt x.form.toNat x.exp x.prec (Decimal.minPrec x) = Decimal.isInt x := by
  unfold Decimal.MinExp at he1
  unfold Decimal.MaxExp at he2
  unfold Gen.Facts.IsInt Decimal.isInt
  cases hf : x.form
  · simp [Form.toNat]
  · simp only [Form.toNat]
    by_cases h0 : x.exp ≤ 0
    · simp [h0]
    · have e1 : Int.toNat (x.exp % 4294967296) = x.exp.toNat := by omega
      have e2 : Int.toNat (x.exp % 18446744073709551616) = x.exp.toNat := by omega
      have p1 : (x.prec ≤ x.exp.toNat) ↔ ((x.prec : Int) ≤ x.exp) := by omega
      have p2 : (Decimal.minPrec x ≤ x.exp.toNat) ↔ ((Decimal.minPrec x : Int) ≤ x.exp) := by omega
      simp [h0, e1, e2, p1, p2]
  · simp [Form.toNat]

/-! ### The decisions of `(*Decimal).round` -/

/-- The `switch z.mode` of `round` is the model's `roundInc` (never the `panic("unreachable")`
    default), for all arguments. The Go sticky bit is the word `sbit`, the model's is `sbit ≠ 0`. -/
theorem incDecision_eq (mode : Mode) (neg : Bool) (rdigit sbit : Nat) (odd : Bool) :
    Gen.Facts.incDecision mode.toNat neg rdigit sbit odd =
      some (Decimal.roundInc mode neg rdigit (sbit != 0) odd) := by
  cases mode <;> simp [Gen.Facts.incDecision, Decimal.roundInc, Mode.toNat]
  by_cases hs : sbit = 0 <;> by_cases hr : rdigit = 5 <;> simp [hs, hr]

/-- Exactly the six declared modes avoid the `panic("unreachable")` default. -/
theorem incDecision_none_iff (m : Nat) (neg : Bool) (rdigit sbit : Nat) (odd : Bool) :
    Gen.Facts.incDecision m neg rdigit sbit odd = none ↔ 6 ≤ m := by
  unfold Gen.Facts.incDecision
  constructor
  · intro h
    by_cases h4 : m = 4 <;> by_cases h2 : m = 2 <;> by_cases h0 : m = 0 <;> by_cases h1 : m = 1 <;>
      by_cases h3 : m = 3 <;> by_cases h5 : m = 5 <;> simp_all <;> omega
  · intro h
    have h4 : m ≠ 4 := by omega
    have h2 : m ≠ 2 := by omega
    have h0 : m ≠ 0 := by omega
    have h1 : m ≠ 1 := by omega
    have h3 : m ≠ 3 := by omega
    have h5 : m ≠ 5 := by omega
    simp [h0, h1, h2, h3, h4, h5]

/-- `rdigit|sbit != 0`: the result is inexact. -/
theorem roundInexact_eq (rdigit sbit : Nat) :
    Gen.Facts.roundInexact rdigit sbit = (rdigit != 0 || sbit != 0) := by
  unfold Gen.Facts.roundInexact
  by_cases hr : rdigit = 0 <;> by_cases hs : sbit = 0 <;> simp [hr, hs, Nat.or_eq_zero_iff]

theorem roundAccAbove_eq (inc neg : Bool) : Gen.Facts.roundAccAbove inc neg = (inc != neg) := rfl

/-- When `round` computes the sticky bit itself. -/
theorem roundNeedSticky_eq (sbit rdigit : Nat) (mode : Mode) :
    Gen.Facts.roundNeedSticky sbit rdigit mode.toNat =
      (!(sbit != 0) && (rdigit == 0 || mode == .ToNearestEven)) := by
  unfold Gen.Facts.roundNeedSticky
  by_cases hs : sbit = 0 <;> by_cases hr : rdigit = 0 <;> cases mode <;> simp [hs, hr, Mode.toNat]

theorem roundExpOverflow_eq (e : Int) : Gen.Facts.roundExpOverflow e = decide (e ≥ Decimal.MaxExp) := rfl

theorem roundEarlyOut_eq (f : Form) : Gen.Facts.roundEarlyOut f.toNat = (f != .finite) := by
  cases f <;> decide

theorem roundFits_eq (digits prec : Nat) : Gen.Facts.roundFits digits prec = decide (digits ≤ prec) := rfl

/-- The uint32 index arithmetic of `round` equals the model's unbounded arithmetic as long as the
    digit count `19·len` and `prec + 18` are below `2^32` (beyond: the recorded wrap finding). -/
theorem roundDigits_eq (m : Nat) (h : m * 19 < 4294967296) : Gen.Facts.roundDigits m = m * Decimal.DW := by
  unfold Gen.Facts.roundDigits Decimal.DW; omega

theorem roundR_eq (digits prec : Nat) (h1 : prec < digits) (h2 : digits < 4294967296) :
    Gen.Facts.roundR digits prec = digits - prec - 1 := by
  unfold Gen.Facts.roundR; omega

theorem roundN_eq (prec : Nat) (h : prec + 18 < 4294967296) :
    Gen.Facts.roundN prec = (prec + (Decimal.DW - 1)) / Decimal.DW := by
  unfold Gen.Facts.roundN Decimal.DW; omega

theorem roundNtz_eq (n prec : Nat) (h1 : n * 19 < 4294967296) (h2 : prec ≤ n * 19) :
    Gen.Facts.roundNtz n prec = n * Decimal.DW - prec := by
  unfold Gen.Facts.roundNtz Decimal.DW; omega

/-- The Go sticky word of a Boolean. -/
def sbN (b : Bool) : Nat := if b then 1 else 0

theorem sbN_ne (b : Bool) : (sbN b != 0) = b := by cases b <;> rfl

/-- `round` re-assembled from the generated decisions: the same skeleton as `Decimal.round` with
    every test, index and constant drawn from the regenerated code. -/
def roundG (z : Dec) (sbit : Bool) : Dec :=
  let z := { z with acc := Gen.Facts.Exact }
  if Gen.Facts.roundEarlyOut z.form.toNat then z else
  let m := z.len
  let digits := Gen.Facts.roundDigits m
  if Gen.Facts.roundFits digits z.prec then z else
  let r := Gen.Facts.roundR digits z.prec
  let rdigit := digitAt z.mant r
  let sbit := if Gen.Facts.roundNeedSticky (sbN sbit) rdigit z.mode.toNat then stickyBelow z.mant r else sbit
  let n := Gen.Facts.roundN z.prec
  let M1 := if m > n then z.mant / B ^ (m - n) else z.mant
  let ntz := Gen.Facts.roundNtz n z.prec
  let lsd := 10 ^ ntz
  if Gen.Facts.roundInexact rdigit (sbN sbit) then
    match Gen.Facts.incDecision z.mode.toNat z.neg rdigit (sbN sbit) (digitAt M1 ntz % 2 == 1) with
    | none => z
    | some inc =>
      let acc := Gen.Facts.makeAcc (Gen.Facts.roundAccAbove inc z.neg)
      if inc then
        let s := M1 + lsd
        if s / B ^ n != 0 then
          if Gen.Facts.roundExpOverflow z.exp then
            { z with form := formOf Gen.Facts.inf, acc := acc, mant := s % B ^ n, len := n }
          else
            let M2 := (s % B ^ n) % B ^ (n - 1) + (Gen.Facts.DB / 10) * B ^ (n - 1)
            { z with exp := z.exp + 1, acc := acc, mant := M2 - M2 % lsd, len := n }
        else
          { z with acc := acc, mant := s - s % lsd, len := n }
      else
        { z with acc := acc, mant := M1 - M1 % lsd, len := n }
  else
    { z with mant := M1 - M1 % lsd, len := n }

theorem exact_eq : Gen.Facts.Exact = Decimal.Exact := rfl
theorem formOf_inf : formOf Gen.Facts.inf = Form.inf := rfl
theorem db_div : Gen.Facts.DB / 10 = Decimal.B / 10 := rfl

/-- The model's `round` IS that re-assembly, whenever the uint32 digit counts do not wrap. -/
theorem round_eq_roundG (z : Dec) (sbit : Bool) (hlen : z.len * 19 < 4294967296)
    (hprec : z.prec + 18 < 4294967296) : Decimal.round z sbit = roundG z sbit := by
  unfold Decimal.round roundG
  by_cases hf : z.form = .finite
  · by_cases hfit : z.len * DW ≤ z.prec
    · simp [hf, hfit, roundFits_eq, roundDigits_eq _ hlen, exact_eq]
    · have hR : Gen.Facts.roundR (z.len * DW) z.prec = z.len * DW - z.prec - 1 :=
        roundR_eq _ _ (by omega) (by unfold DW; omega)
      have hNtz : Gen.Facts.roundNtz ((z.prec + (DW - 1)) / DW) z.prec = (z.prec + (DW - 1)) / DW * DW - z.prec :=
        roundNtz_eq _ _ (by unfold DW; omega) (by unfold DW; omega)
      simp only [roundEarlyOut_eq, roundFits_eq, roundDigits_eq _ hlen, roundN_eq _ hprec, hR, hNtz,
        roundInexact_eq, incDecision_eq, roundAccAbove_eq, makeAcc_eq, roundNeedSticky_eq,
        roundExpOverflow_eq, sbN_ne, exact_eq, formOf_inf, db_div, decide_eq_true_eq]
  · simp [hf, roundEarlyOut_eq, exact_eq]

/-! ### Stateful methods: scalar receiver fields in, scalar receiver fields out -/

/-- Total decoding of a mode code. -/
def modeOf (n : Nat) : Mode := (Mode.ofNat? n).getD .ToNearestEven

@[simp] theorem modeOf_toNat (m : Mode) : modeOf m.toNat = m := by cases m <;> rfl

theorem wrapI32_of_range (e : Int) (h1 : ¬ e < -2147483648) (h2 : ¬ e > 2147483647) :
    Gen.Facts.wrapI32 e = e := by
  unfold Gen.Facts.wrapI32; omega

/-- `setExpAndRound`: the underflow / overflow tests against MinExp / MaxExp, the accuracies and
    forms they leave, and the hand-over to `round`. -/
theorem setExpAndRound_eq (z : Dec) (e : Int) (sbit : Bool) :
    let g := Gen.Facts.setExpAndRound e z.neg z.acc z.form.toNat z.exp
    let z' : Dec := { z with acc := g.acc, form := formOf g.form, exp := g.exp }
    g.outcome = 0 ∧ Decimal.setExpAndRound z e sbit = if g.tail = 1 then Decimal.round z' sbit else z' := by
  unfold Gen.Facts.setExpAndRound Decimal.setExpAndRound Decimal.MinExp Decimal.MaxExp
  by_cases h1 : e < -2147483648
  · simp [h1, makeAcc_eq, formOf]
    rfl
  · by_cases h2 : e > 2147483647
    · simp [h1, h2, makeAcc_eq, formOf]
      rfl
    · simp [h1, h2, wrapI32_of_range e h1 h2, formOf]
      rfl

theorem setMode_eq (z : Dec) (m : Mode) :
    let g := Gen.Facts.SetMode m.toNat z.mode.toNat z.acc
    g.outcome = 0 ∧ g.tail = 0 ∧ Decimal.setMode z m = { z with mode := modeOf g.mode, acc := g.acc } := by
  simp [Gen.Facts.SetMode, Decimal.setMode, Decimal.Exact]

theorem setInf_eq (z : Dec) (signbit : Bool) :
    let g := Gen.Facts.SetInf signbit z.acc z.form.toNat z.neg
    g.outcome = 0 ∧ g.tail = 0 ∧
      Decimal.setInf z signbit = { z with acc := g.acc, form := formOf g.form, neg := g.neg } := by
  simp [Gen.Facts.SetInf, Decimal.setInf, Decimal.Exact, formOf, Form.ofNat?]

/-- `SetPrec` (the Go argument is a `uint`; the clamp to MaxPrec makes the `uint32` conversion exact). -/
theorem setPrec_eq (z : Dec) (p : Nat) :
    let g := Gen.Facts.SetPrec p z.neg z.acc z.prec z.form.toNat
    let z' : Dec := { z with acc := g.acc, prec := g.prec, form := formOf g.form }
    g.outcome = 0 ∧ Decimal.setPrec z p = if g.tail = 1 then Decimal.round z' false else z' := by
  unfold Gen.Facts.SetPrec Decimal.setPrec Decimal.MaxPrec
  by_cases hp : p = 0
  · cases hf : z.form <;> simp [hp, makeAcc_eq, Form.toNat, Decimal.Exact, formOf, Form.ofNat?]
  · by_cases hm : p > 4294967295
    · by_cases hlt : 4294967295 < z.prec <;> simp [hp, hm, hlt, Decimal.Exact]
    · have hmod : p % 4294967296 = p := by omega
      by_cases hlt : p < z.prec <;> simp [hp, hm, hlt, hmod, Decimal.Exact]

/-- `Set` (distinct variables): everything but the mantissa copy. -/
theorem set_eq (z x : Dec) :
    let g := Gen.Facts.Set true x.form.toNat x.neg x.exp x.prec z.acc z.form.toNat z.neg z.exp z.prec
    let z' : Dec := { z with acc := g.zAcc, form := formOf g.zForm, neg := g.zNeg, exp := g.zExp, prec := g.zPrec,
                             mant := if x.form == .finite then x.mant else z.mant,
                             len := if x.form == .finite then x.len else z.len }
    g.outcome = 0 ∧ Decimal.set z x false = if g.tail = 1 then Decimal.round z' false else z' := by
  unfold Gen.Facts.Set Decimal.set
  cases hf : x.form <;> by_cases h0 : z.prec = 0 <;> by_cases hlt : z.prec < x.prec <;>
    simp [h0, hlt, Decimal.Exact]

/-- `Set` on the receiver itself only resets the accuracy. -/
theorem set_same_eq (z x : Dec) :
    let g := Gen.Facts.Set false x.form.toNat x.neg x.exp x.prec z.acc z.form.toNat z.neg z.exp z.prec
    g.outcome = 0 ∧ g.tail = 0 ∧ Decimal.set z x true =
      { z with acc := g.zAcc, form := formOf g.zForm, neg := g.zNeg, exp := g.zExp, prec := g.zPrec } := by
  simp [Gen.Facts.Set, Decimal.set, Decimal.Exact]

/-- `Mul`: precision prologue, sign, special-value dispatch (NaN cases included) and the hand-over
    to `umul`, for all operands (receiver distinct from the operands). -/
theorem mul_eq (z x y : Dec) :
    let g := Gen.Facts.Mul x.form.toNat x.neg x.prec y.form.toNat y.neg y.prec z.prec z.neg z.acc z.form.toNat
    let z' : Dec := { z with prec := g.zPrec, neg := g.zNeg, acc := g.zAcc, form := formOf g.zForm }
    Decimal.mul z x y = if g.tail = 1 then (Decimal.umul z' x y, .ok) else (z', outcomeOf g.outcome) := by
  unfold Gen.Facts.Mul Decimal.mul Decimal.opnd
  cases hx : x.form <;> cases hy : y.form <;> by_cases h0 : z.prec = 0 <;>
    simp [hx, hy, h0, Decimal.Exact, umax32_eq, outcomeOf]

/-- `Quo`: the same for the quotient. -/
theorem quo_eq (z x y : Dec) :
    let g := Gen.Facts.Quo x.form.toNat x.neg x.prec y.form.toNat y.neg y.prec z.prec z.neg z.acc z.form.toNat
    let z' : Dec := { z with prec := g.zPrec, neg := g.zNeg, acc := g.zAcc, form := formOf g.zForm }
    Decimal.quo z x y = if g.tail = 1 then (Decimal.uquo z' x y, .ok) else (z', outcomeOf g.outcome) := by
  unfold Gen.Facts.Quo Decimal.quo Decimal.opnd
  cases hx : x.form <;> cases hy : y.form <;> by_cases h0 : z.prec = 0 <;>
    simp [hx, hy, h0, Decimal.Exact, umax32_eq, outcomeOf]

/-! ### `Add` and `Sub`: prologue, sign logic, kernel selection, NaN cases, exact-zero sign fix-up -/

/-- The kernel call designated by a `tail` code of `Add` / `Sub`. -/
def addKernel (tail : Nat) (z x y : Dec) : Dec :=
  match tail with
  | 1 => Decimal.uadd z x y
  | 2 => Decimal.usub z x y
  | 3 => Decimal.usub z y x
  | _ => z

theorem modeCode_four (m : Mode) : decide (m.toNat = 4) = (m == .ToNegativeInf) := by cases m <;> rfl
theorem formCode_zero (f : Form) : decide (f.toNat = 0) = (f == .zero) := by cases f <;> rfl

/-- The fix-up after the kernel (`if z.form == zero && z.mode == ToNegativeInf && z.acc == Exact`). -/
theorem zeroSignFix_eq (K : Dec) :
    Decimal.zeroSignFix K =
      { K with neg := if (decide (K.form.toNat = 0) && decide (K.mode.toNat = 4) && decide (K.acc = 0)) then true else K.neg } := by
  unfold Decimal.zeroSignFix
  rw [modeCode_four, formCode_zero]
  by_cases h : (K.form == Form.zero && K.mode == Mode.ToNegativeInf && K.acc == Decimal.Exact) = true
  · have h' := h
    simp only [Decimal.Exact, Bool.and_eq_true, beq_iff_eq] at h'
    rw [if_pos h, if_pos (by simp [h'.1.1, h'.1.2, h'.2])]
  · have h' := h
    simp only [Decimal.Exact, Bool.and_eq_true, beq_iff_eq] at h'
    rw [if_neg h, if_neg (by simpa using h')]

/-- What the generated `Add` returns on two finite operands, whatever the kernel left. -/
theorem Add_finite (mode xPrec yPrec kform zPrec zForm : Nat) (xNeg yNeg kneg zNeg : Bool) (u kacc zAcc : Int) :
    (Gen.Facts.Add mode 1 xNeg xPrec 1 yNeg yPrec u kform kacc kneg zPrec zNeg zAcc zForm).outcome = 0 ∧
    (Gen.Facts.Add mode 1 xNeg xPrec 1 yNeg yPrec u kform kacc kneg zPrec zNeg zAcc zForm).zForm = kform ∧
    (Gen.Facts.Add mode 1 xNeg xPrec 1 yNeg yPrec u kform kacc kneg zPrec zNeg zAcc zForm).zAcc = kacc ∧
    (Gen.Facts.Add mode 1 xNeg xPrec 1 yNeg yPrec u kform kacc kneg zPrec zNeg zAcc zForm).zNeg =
      (if (decide (kform = 0) && decide (mode = 4) && decide (kacc = 0)) then true else kneg) := by
  unfold Gen.Facts.Add
  by_cases hc : (kform = 0 ∧ mode = 4) ∧ kacc = 0 <;>
    by_cases h0 : zPrec = 0 <;> cases xNeg <;> cases yNeg <;> by_cases hu : u > 0 <;> simp [h0, hu, hc]

theorem Sub_finite (mode xPrec yPrec kform zPrec zForm : Nat) (ny xNeg yNeg kneg zNeg : Bool) (u kacc zAcc ye ze : Int) :
    (Gen.Facts.Sub mode ny 1 xNeg xPrec 1 yNeg yPrec ye u kform kacc kneg zPrec zNeg zAcc zForm ze).outcome = 0 ∧
    (Gen.Facts.Sub mode ny 1 xNeg xPrec 1 yNeg yPrec ye u kform kacc kneg zPrec zNeg zAcc zForm ze).zForm = kform ∧
    (Gen.Facts.Sub mode ny 1 xNeg xPrec 1 yNeg yPrec ye u kform kacc kneg zPrec zNeg zAcc zForm ze).zAcc = kacc ∧
    (Gen.Facts.Sub mode ny 1 xNeg xPrec 1 yNeg yPrec ye u kform kacc kneg zPrec zNeg zAcc zForm ze).zNeg =
      (if (decide (kform = 0) && decide (mode = 4) && decide (kacc = 0)) then true else kneg) := by
  unfold Gen.Facts.Sub
  by_cases hc : (kform = 0 ∧ mode = 4) ∧ kacc = 0 <;>
    by_cases h0 : zPrec = 0 <;> cases xNeg <;> cases yNeg <;> by_cases hu : u > 0 <;> simp [h0, hu, hc]

/-- `Add` for all operands (receiver distinct from the operands): `AddPre` gives the receiver at the
    kernel call / return / panic, `Add` the sign after the kernel. -/
theorem add_eq (z x y : Dec) :
    let pre := Gen.Facts.AddPre z.mode.toNat x.form.toNat x.neg x.prec y.form.toNat y.neg y.prec
      (Decimal.ucmp x y) z.prec z.neg z.acc z.form.toNat
    let z1 : Dec := { z with prec := pre.zPrec, neg := pre.zNeg, acc := pre.zAcc, form := formOf pre.zForm }
    Decimal.add z x y =
      if pre.tail = 0 then (z1, outcomeOf pre.outcome)
      else if pre.tail = 4 then (Decimal.set z1 x, .ok)
      else if pre.tail = 5 then (Decimal.set z1 y, .ok)
      else
        let K := addKernel pre.tail z1 x y
        let g := Gen.Facts.Add z.mode.toNat x.form.toNat x.neg x.prec y.form.toNat y.neg y.prec
          (Decimal.ucmp x y) K.form.toNat K.acc K.neg z.prec z.neg z.acc z.form.toNat
        ({ K with neg := g.zNeg }, outcomeOf g.outcome) := by
  cases hx : x.form <;> cases hy : y.form
  case finite.finite =>
    simp only [toNat_finite, Add_finite]
    unfold Gen.Facts.AddPre Decimal.add Decimal.opnd
    by_cases h0 : z.prec = 0 <;> cases hxn : x.neg <;> cases hyn : y.neg <;> by_cases hu : Decimal.ucmp x y > 0 <;>
      simp [hx, hy, h0, hu, hxn, hyn, addKernel, zeroSignFix_eq, umax32_eq, outcomeOf]
  all_goals
    unfold Gen.Facts.AddPre Decimal.add Decimal.opnd
    by_cases h0 : z.prec = 0 <;> cases hxn : x.neg <;> cases hyn : y.neg <;>
      simp [hx, hy, h0, hxn, hyn, umax32_eq, outcomeOf, Decimal.Exact, modeCode_four]

/-- `Sub` for all operands (receiver distinct from the operands). Tail 6 is the final
    `z.round(0)` of the `±0 − y`, `x − ±Inf` case: the receiver then holds `−y`. -/
theorem sub_eq (z x y : Dec) :
    let pre := Gen.Facts.SubPre z.mode.toNat true x.form.toNat x.neg x.prec y.form.toNat y.neg y.prec y.exp
      (Decimal.ucmp x y) z.prec z.neg z.acc z.form.toNat z.exp
    let z1 : Dec := { z with prec := pre.zPrec, neg := pre.zNeg, acc := pre.zAcc, form := formOf pre.zForm,
                             exp := pre.zExp }
    Decimal.sub z x y =
      if pre.tail = 0 then (z1, outcomeOf pre.outcome)
      else if pre.tail = 4 then (Decimal.set z1 x, .ok)
      else if pre.tail = 6 then
        (Decimal.round { z1 with mant := if y.form == .finite then y.mant else z.mant,
                                 len := if y.form == .finite then y.len else z.len } false, .ok)
      else
        let K := addKernel pre.tail z1 x y
        let g := Gen.Facts.Sub z.mode.toNat true x.form.toNat x.neg x.prec y.form.toNat y.neg y.prec y.exp
          (Decimal.ucmp x y) K.form.toNat K.acc K.neg z.prec z.neg z.acc z.form.toNat z.exp
        ({ K with neg := g.zNeg }, outcomeOf g.outcome) := by
  cases hx : x.form <;> cases hy : y.form
  case finite.finite =>
    simp only [toNat_finite, Sub_finite]
    unfold Gen.Facts.SubPre Decimal.sub Decimal.opnd
    by_cases h0 : z.prec = 0 <;> cases hxn : x.neg <;> cases hyn : y.neg <;> by_cases hu : Decimal.ucmp x y > 0 <;>
      simp [hx, hy, h0, hu, hxn, hyn, addKernel, zeroSignFix_eq, umax32_eq, outcomeOf]
  all_goals
    unfold Gen.Facts.SubPre Decimal.sub Decimal.opnd
    by_cases h0 : z.prec = 0 <;> cases hxn : x.neg <;> cases hyn : y.neg <;>
      simp [hx, hy, h0, hxn, hyn, umax32_eq, outcomeOf, Decimal.Exact, modeCode_four]

/-! ### `Copy`, `Neg` and the three `addExp` call sites (C20) -/

theorem copy_eq (z x : Dec) (same : Bool) :
    let g := Gen.Facts.Copy (!same) x.prec x.mode.toNat x.acc x.form.toNat x.neg x.exp
      z.prec z.mode.toNat z.acc z.form.toNat z.neg z.exp
    g.outcome = 0 ∧ g.tail = 0 ∧ Decimal.copy z x same =
      { z with prec := g.zPrec, mode := modeOf g.zMode, acc := g.zAcc, form := formOf g.zForm, neg := g.zNeg,
               exp := g.zExp,
               mant := if !same && x.form == .finite then x.mant else z.mant,
               len := if !same && x.form == .finite then x.len else z.len } := by
  unfold Gen.Facts.Copy Decimal.copy
  cases same <;> cases hf : x.form <;> simp

/-- `Neg`: the sign left by `Set` is flipped. -/
theorem neg_eq (z x : Dec) (same : Bool) :
    Decimal.neg z x same =
      { Decimal.set z x same with neg := (Gen.Facts.Neg (Decimal.set z x same).neg z.neg).zNeg } := by
  simp [Gen.Facts.Neg, Decimal.neg]

/-- `setBits64` (SetInt64, SetUint64, NewDecimal): prologue, zero test and the exponent
    `addExp(exp, int64(len(z.mant))*_DW - dnorm(z.mant))` handed to `setExpAndRound`. -/
theorem setBits64_eq (z : Dec) (neg : Bool) (x : Nat) (exp : Int) :
    let g := Gen.Facts.setBits64 neg x exp (nwords x : Nat) (dnormShift x (nwords x) : Nat)
      z.prec z.acc z.neg z.form.toNat
    let z' : Dec := { z with prec := g.zPrec, acc := g.zAcc, neg := g.zNeg, form := formOf g.zForm }
    g.outcome = 0 ∧ Decimal.setBits64Sat z neg x exp =
      if g.tail = 1 then
        Decimal.setExpAndRound { z' with mant := x * 10 ^ dnormShift x (nwords x), len := nwords x } g.arg false
      else z' := by
  unfold Gen.Facts.setBits64 Decimal.setBits64Sat
  by_cases h0 : z.prec = 0 <;> by_cases hx : x = 0 <;>
    simp [h0, hx, addExp_eq, wrapI64_eq, Decimal.Exact, Decimal.DefaultPrec, Decimal.DW]

/-- `SetMantExp`: after `z.Copy(mant)`, `addExp(int64(exp), int64(z.exp))`. -/
theorem setMantExp_eq (z mant : Dec) (exp : Int) (same : Bool) :
    let C := Decimal.copy z mant same
    let g := Gen.Facts.SetMantExp exp C.form.toNat C.exp z.form.toNat z.exp
    g.outcome = 0 ∧ g.zForm = C.form.toNat ∧ g.zExp = C.exp ∧
    Decimal.setMantExpSat z mant exp same =
      if g.tail = 1 then Decimal.setExpAndRound C g.arg false else C := by
  unfold Gen.Facts.SetMantExp Decimal.setMantExpSat
  cases hf : (Decimal.copy z mant same).form <;> simp [hf, addExp_eq]

theorem nwords_zero : nwords 0 = 0 := by
  rw [nwords_def, ndigits_eq_zero_iff.mpr rfl]

theorem nwords_pos_iff (M : Nat) : 0 < nwords M ↔ M ≠ 0 := by
  constructor
  · intro h hM; rw [hM, nwords_zero] at h; omega
  · intro h; exact nwords_pos (by omega)

/-- `SetBitsExp`: sign, the `prec == 0` prologue (digit count clamped to MaxPrec), the zero case and
    the exponent `addExp(exp, -dnorm(z.mant) - int64(len(mant)-len(z.mant))*_DW)`; `words` is the
    raw slice (its normalised length cannot exceed its length; sizes far below 2^63). -/
theorem setBitsExp_eq (z : Dec) (words : List Nat) (e : Int)
    (hlen : nwords (natOf words) ≤ words.length) (hsz : words.length * 19 < 4611686018427387904) :
    let M := natOf words
    let len := nwords M
    let sh := dnormShift M len
    let g := Gen.Facts.SetBitsExp e (len : Nat) (words.length : Nat) (sh : Nat) z.neg z.prec z.acc z.form.toNat z.exp
    let z' : Dec := { z with neg := g.zNeg, prec := g.zPrec, acc := g.zAcc, form := formOf g.zForm, exp := g.zExp }
    g.outcome = 0 ∧ Decimal.setBitsExpFullSat z words e =
      if g.tail = 1 then Decimal.setExpAndRound { z' with mant := M * 10 ^ sh, len := len } g.arg false
      else { z' with mant := 0, len := 0 } := by
  intro M len sh
  have hsh : sh < 19 := dnormShift_lt M
  have hlen' : len ≤ words.length := hlen
  unfold Gen.Facts.SetBitsExp Decimal.setBitsExpFullSat Decimal.setBitsExpSat
  by_cases hM : M = 0
  · have hl : len = 0 := by show nwords M = 0; rw [hM, nwords_zero]
    simp [M] at hM
    simp [hM, hl, len, M, Decimal.Exact]
  · have hl : 0 < len := (nwords_pos_iff M).mpr hM
    have hM' : ¬ (natOf words = 0) := hM
    have hw : Decimal.wrap64 ((words.length : Int) - (len : Int)) = ((words.length - len : Nat) : Int) := by
      unfold Decimal.wrap64; omega
    have hlenDef : nwords (natOf words) = len := rfl
    have hshDef : dnormShift (natOf words) len = sh := rfl
    have hwl : Decimal.wrap64 ((len : Int) * 19) = (len : Int) * 19 := by
      unfold Decimal.wrap64; omega
    by_cases h0 : z.prec = 0
    · by_cases hbig : (4294967295 : Int) < (len : Int) * 19
      · have hbig' : 4294967295 < len * 19 := by omega
        simp [hM', hl, h0, hw, hwl, hbig, hbig', hlenDef, hshDef, addExp_eq, wrapI64_eq, Decimal.DefaultPrec,
          Decimal.DW, umax32_eq, Decimal.MaxPrec]
        rfl
      · have hbig' : ¬ 4294967295 < len * 19 := by omega
        have ht : ((len : Int) * 19 % 4294967296).toNat = len * 19 := by omega
        simp [hM', hl, h0, hw, hwl, hbig, hbig', ht, hlenDef, hshDef, addExp_eq, wrapI64_eq, Decimal.DefaultPrec,
          Decimal.DW, umax32_eq, Decimal.MaxPrec]
        rfl
    · simp [hM', hl, h0, hw, hlenDef, hshDef, addExp_eq, wrapI64_eq, Decimal.DW]
      rfl

end Decimal.GenFacts
