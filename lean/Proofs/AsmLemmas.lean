/-
  Pure word-level lemmas used by the proofs over the regenerated assembly blocks
  (`DecimalModel/Gen/Asm.lean`).  Nothing here mentions a generated definition.
-/
import Proofs.GenWordOps
import DecimalModel.AsmSem

namespace Decimal.Asm

open Decimal.Gen (W W_eq signMask land_allones)

/-! ### masks -/

/-- the register encoding of a saved carry: 0 or all ones -/
def mask (c : Nat) : Nat := if c = 0 then 0 else 18446744073709551615

theorem mask_zero : mask 0 = 0 := rfl
theorem mask_one : mask 1 = 18446744073709551615 := rfl

theorem land_zero_right (x : Nat) : Nat.land x 0 = 0 := Nat.and_zero x
theorem land_zero_left (x : Nat) : Nat.land 0 x = 0 := Nat.zero_and x

theorem land_allones_left (d : Nat) (hd : d < 18446744073709551616) : Nat.land 18446744073709551615 d = d := by
  show 18446744073709551615 &&& d = d
  rw [Nat.and_comm]
  exact land_allones d hd

theorem lor_zero_right (x : Nat) : Nat.lor x 0 = x := Nat.or_zero x
theorem lor_zero_left (x : Nat) : Nat.lor 0 x = x := Nat.zero_or x
theorem lor_allones_allones : Nat.lor 18446744073709551615 18446744073709551615 = 18446744073709551615 := Nat.or_self _
theorem land_self (x : Nat) : Nat.land x x = x := Nat.and_self x
theorem xor_self (x : Nat) : Nat.xor x x = 0 := Nat.xor_self x

/-! ### the inlined `div10W` sequence (Granlund–Montgomery division by 10^19)

  The same 23 instructions occur in `mul10WW`, `div10W`, `mulAdd10VWW` and `addMul10VVW`.
  `gmSeq` is that sequence as a pure function, in the expression shape the translator emits. -/

def gmSeq (n1 n0 : Nat) : Nat × Nat :=
  let s := signMask n0
  let a := (W + n1 - s) % W
  let p := 15581492618384294730 * a
  let nadj := (Nat.land s 10000000000000000000 + n0) % W
  let cf1 := (p % W + nadj) / W
  let q1 := (p / W + n1 + cf1) % W
  let t := W - 1 - q1
  let p2 := 10000000000000000000 * t
  let lo2 := (p2 % W + n0) % W
  let cf2 := (p2 % W + n0) / W
  let hi2 := (p2 / W + n1 + cf2) % W
  let hi3 := (W - 10000000000000000000 + hi2) % W
  ((W + hi3 - t) % W, (lo2 + Nat.land 10000000000000000000 hi3) % W)

private theorem gm_key_lo (n1 n0 : Nat) (h1 : n1 < 10000000000000000000) (h0 : n0 < 9223372036854775808) :
    let i := (15581492618384294730 * n1 + n0) / 18446744073709551616
    (i + n1) * 10000000000000000000 ≤ n1 * 18446744073709551616 + n0 ∧
      n1 * 18446744073709551616 + n0 < (i + n1 + 2) * 10000000000000000000 := by
  intro i
  omega

private theorem gm_key_hi (n1 n0 : Nat) (h1 : n1 < 10000000000000000000)
    (h0 : 9223372036854775808 ≤ n0) (h0' : n0 < 18446744073709551616) :
    let i := (15581492618384294730 * (n1 + 1) + (n0 + 10000000000000000000 - 18446744073709551616)) / 18446744073709551616
    (i + n1) * 10000000000000000000 ≤ n1 * 18446744073709551616 + n0 ∧
      n1 * 18446744073709551616 + n0 < (i + n1 + 2) * 10000000000000000000 := by
  intro i
  omega

/-- from the estimate `q1` with `q1*d ≤ n < (q1+2)*d` to quotient and remainder -/
private theorem gm_tail (n1 n0 q1 : Nat) (h1 : n1 < 10000000000000000000) (h0 : n0 < 18446744073709551616)
    (hq : q1 * 10000000000000000000 ≤ n1 * 18446744073709551616 + n0)
    (hq' : n1 * 18446744073709551616 + n0 < (q1 + 2) * 10000000000000000000) :
    let t := 18446744073709551616 - 1 - q1
    let p2 := 10000000000000000000 * t
    let lo2 := (p2 % 18446744073709551616 + n0) % 18446744073709551616
    let cf2 := (p2 % 18446744073709551616 + n0) / 18446744073709551616
    let hi2 := (p2 / 18446744073709551616 + n1 + cf2) % 18446744073709551616
    let hi3 := (18446744073709551616 - 10000000000000000000 + hi2) % 18446744073709551616
    ((18446744073709551616 + hi3 - t) % 18446744073709551616,
      (lo2 + Nat.land 10000000000000000000 hi3) % 18446744073709551616)
      = ((n1 * 18446744073709551616 + n0) / 10000000000000000000,
         (n1 * 18446744073709551616 + n0) % 10000000000000000000) := by
  intro t p2 lo2 cf2 hi2 hi3
  have hq1 : q1 < 18446744073709551616 := by omega
  by_cases hge : (q1 + 1) * 10000000000000000000 ≤ n1 * 18446744073709551616 + n0
  · have hhi : hi3 = 0 := by
      show (_ - _ + (_ * t / _ + n1 + (_ * t % _ + n0) / _) % _) % _ = 0
      omega
    rw [hhi, land_zero_right]
    ext
    · show (_ + 0 - t) % _ = _
      omega
    · show ((_ * t % _ + n0) % _ + 0) % _ = _
      omega
  · have hhi : hi3 = 18446744073709551615 := by
      show (_ - _ + (_ * t / _ + n1 + (_ * t % _ + n0) / _) % _) % _ = _
      omega
    rw [hhi, land_allones _ (by omega)]
    ext
    · show (_ + 18446744073709551615 - t) % _ = _
      omega
    · show ((_ * t % _ + n0) % _ + 10000000000000000000) % _ = _
      omega

theorem gmSeq_spec (n1 n0 : Nat) (h1 : n1 < 10000000000000000000) (h0 : n0 < W) :
    gmSeq n1 n0 = ((n1 * W + n0) / 10000000000000000000, (n1 * W + n0) % 10000000000000000000) := by
  simp only [W_eq] at h0
  unfold gmSeq
  by_cases hlo : n0 < 9223372036854775808
  · have hs : signMask n0 = 0 := by unfold signMask; rw [if_neg (by omega)]
    simp only [hs, land_zero_left, W_eq]
    have ha : (18446744073709551616 + n1 - 0) % 18446744073709551616 = n1 := by omega
    have hb : (0 + n0) % 18446744073709551616 = n0 := by omega
    simp only [ha, hb]
    have key := gm_key_lo n1 n0 h1 hlo
    simp only [] at key
    have hq1 : (15581492618384294730 * n1 / 18446744073709551616 + n1 +
        (15581492618384294730 * n1 % 18446744073709551616 + n0) / 18446744073709551616) % 18446744073709551616
        = (15581492618384294730 * n1 + n0) / 18446744073709551616 + n1 := by omega
    rw [hq1]
    exact gm_tail n1 n0 _ h1 h0 key.1 (by omega)
  · have hs : signMask n0 = 18446744073709551615 := by unfold signMask; rw [if_pos (by omega)]
    simp only [hs, land_allones_left 10000000000000000000 (by omega), W_eq]
    have ha : (18446744073709551616 + n1 - 18446744073709551615) % 18446744073709551616 = n1 + 1 := by omega
    have hb : (10000000000000000000 + n0) % 18446744073709551616 = n0 + 10000000000000000000 - 18446744073709551616 := by omega
    simp only [ha, hb]
    have key := gm_key_hi n1 n0 h1 (by omega) h0
    simp only [] at key
    have hq1 : (15581492618384294730 * (n1 + 1) / 18446744073709551616 + n1 +
        (15581492618384294730 * (n1 + 1) % 18446744073709551616 + (n0 + 10000000000000000000 - 18446744073709551616)) / 18446744073709551616) % 18446744073709551616
        = (15581492618384294730 * (n1 + 1) + (n0 + 10000000000000000000 - 18446744073709551616)) / 18446744073709551616 + n1 := by omega
    rw [hq1]
    exact gm_tail n1 n0 _ h1 h0 key.1 (by omega)

/-! ### flags -/

theorem msb_lt (x : Nat) (h : x < 9223372036854775808) : msb x = false := by
  unfold msb; exact decide_eq_false (by omega)

theorem msb_ge (x : Nat) (h : 9223372036854775808 ≤ x) : msb x = true := by
  unfold msb; exact decide_eq_true h

/-- no signed overflow when subtracting two non-negative signed numbers -/
theorem subOF_pos (a b r : Nat) (ha : a < 9223372036854775808) (hb : b < 9223372036854775808) :
    subOF a b r = false := by
  unfold subOF; rw [msb_lt a ha, msb_lt b hb]; rfl

/-- no signed overflow when adding a non-negative to a negative signed number -/
theorem addOF_neg_pos (a b r : Nat) (ha : 9223372036854775808 ≤ a) (hb : b < 9223372036854775808) :
    addOF a b r = false := by
  unfold addOF; rw [msb_ge a ha, msb_lt b hb]; rfl

/-! ### decimal add / subtract steps, in the expression shape the translator emits -/

/-- `ADDQ CX,CX; ADCQ y,x; SBBQ CX,CX; CMPQ DX,x; SBBQ BX,BX; ORQ BX,CX; LEAQ 1(DX),AX; ANDQ CX,AX; SUBQ AX,x`
    (loop body of `add10VV`): result word, new carry mask in CX, new BX. -/
def addStep (dx cx bx x y : Nat) : Nat × Nat × Nat :=
  let cx_1 := (cx + cx) % W
  let cf_1 := (cx + cx) / W
  let r_2 := (x + y + cf_1) % W
  let cf_2 := (x + y + cf_1) / W
  let cx_2 := (W + cx_1 - cx_1 - cf_2) % W
  let cf_3 := if dx < r_2 then 1 else 0
  let bx_1 := (W + bx - bx - cf_3) % W
  let cx_3 := Nat.lor cx_2 bx_1
  let ax_2 := Nat.land ((dx + 1) % W) cx_3
  ((W + r_2 - ax_2) % W, cx_3, bx_1)

theorem addStep_spec (bx x y c : Nat) (hc : c ≤ 1) (hx : x < 10000000000000000000) (hy : y < 10000000000000000000) :
    (addStep 9999999999999999999 (mask c) bx x y).1 = (x + y + c) % 10000000000000000000 ∧
    (addStep 9999999999999999999 (mask c) bx x y).2.1 = mask ((x + y + c) / 10000000000000000000) := by
  have hcc : c = 0 ∨ c = 1 := by omega
  have hW : W + bx - bx = W := by omega
  unfold addStep
  simp only [hW]
  simp only [W_eq]
  have e1 : (mask c + mask c) / 18446744073709551616 = c := by
    rcases hcc with rfl | rfl <;> simp only [mask_zero, mask_one]
  have e4 : ∀ t u, (18446744073709551616 + t - t - u) % 18446744073709551616 = (18446744073709551616 - u) % 18446744073709551616 := by
    intro t u; omega
  have e5 : (9999999999999999999 + 1) % 18446744073709551616 = 10000000000000000000 := by decide
  have e7 : (18446744073709551616 - 1) % 18446744073709551616 = 18446744073709551615 := by decide
  have e8 : (18446744073709551616 - 0) % 18446744073709551616 = 0 := by decide
  simp only [e1, e4, e5]
  by_cases hw : 18446744073709551616 ≤ x + y + c
  · -- hardware carry out of the 64-bit addition
    have e2 : (x + y + c) / 18446744073709551616 = 1 := by omega
    have e3 : ¬ 9999999999999999999 < (x + y + c) % 18446744073709551616 := by omega
    have e6 : (x + y + c) / 10000000000000000000 = 1 := by omega
    simp only [e2, e3, if_false, e6, mask_one, e7, e8, lor_zero_right,
      land_allones 10000000000000000000 (by omega)]
    exact ⟨by omega, by first | trivial | rfl⟩
  · have e2 : (x + y + c) / 18446744073709551616 = 0 := by omega
    have e2' : (x + y + c) % 18446744073709551616 = x + y + c := by omega
    simp only [e2, e2', e8, lor_zero_left]
    by_cases h : 9999999999999999999 < x + y + c
    · have e6 : (x + y + c) / 10000000000000000000 = 1 := by omega
      simp only [h, if_true, e6, mask_one, e7, land_allones 10000000000000000000 (by omega)]
      exact ⟨by omega, by first | trivial | rfl⟩
    · have e6 : (x + y + c) / 10000000000000000000 = 0 := by omega
      simp only [h, if_false, e6, mask_zero, e8, land_zero_right]
      exact ⟨by omega, by first | trivial | rfl⟩

/-- `ADDQ CX,CX; SBBQ y,x; SBBQ CX,CX; MOVQ DX,AX; ANDQ CX,AX; ADDQ AX,x` (loop body of `sub10VV`):
    result word, new borrow mask in CX. -/
def subStep (dx cx x y : Nat) : Nat × Nat :=
  let cx_1 := (cx + cx) % W
  let cf_1 := (cx + cx) / W
  let r_2 := (W + x - y - cf_1) % W
  let cf_2 := if x < y + cf_1 then 1 else 0
  let cx_2 := (W + cx_1 - cx_1 - cf_2) % W
  let ax_2 := Nat.land dx cx_2
  ((r_2 + ax_2) % W, cx_2)

theorem subStep_spec (x y b : Nat) (hb : b ≤ 1) (hx : x < 10000000000000000000) (hy : y < 10000000000000000000) :
    subStep 10000000000000000000 (mask b) x y =
      (if x < y + b then x + 10000000000000000000 - y - b else x - y - b, mask (if x < y + b then 1 else 0)) := by
  have hbb : b = 0 ∨ b = 1 := by omega
  unfold subStep
  simp only [W_eq]
  have e1 : (mask b + mask b) / 18446744073709551616 = b := by
    rcases hbb with rfl | rfl <;> simp only [mask_zero, mask_one]
  have e4 : ∀ t u, (18446744073709551616 + t - t - u) % 18446744073709551616 = (18446744073709551616 - u) % 18446744073709551616 := by
    intro t u; omega
  simp only [e1, e4]
  by_cases h : x < y + b
  · simp only [h, if_true, mask_one]
    have e7 : (18446744073709551616 - 1) % 18446744073709551616 = 18446744073709551615 := by decide
    simp only [e7, land_allones 10000000000000000000 (by omega)]
    ext <;> simp only [] ; omega
  · simp only [h, if_false, mask_zero]
    have e7 : (18446744073709551616 - 0) % 18446744073709551616 = 0 := by decide
    simp only [e7, land_zero_right]
    ext <;> simp only [] ; omega

/-! ### conditional jumps after SUB/CMP of two non-negative signed numbers

  `r` is the 64-bit difference `a - b`; it is characterised modulo 2^64 so that the lemmas apply to
  every way the translator writes it (`(W - b + a) % W`, `(W + a - b) % W`). -/

theorem jl_sub (a b r : Nat) (ha : a < 9223372036854775808) (hb : b < 9223372036854775808)
    (hr : r < 18446744073709551616 ∧ (r + b = a ∨ r + b = a + 18446744073709551616)) :
    (msb r != subOF a b r) = decide (a < b) := by
  rw [subOF_pos a b r ha hb]
  by_cases h : a < b
  · rw [msb_ge r (by omega), decide_eq_true h]; rfl
  · rw [msb_lt r (by omega), decide_eq_false h]; rfl

theorem jge_sub (a b r : Nat) (ha : a < 9223372036854775808) (hb : b < 9223372036854775808)
    (hr : r < 18446744073709551616 ∧ (r + b = a ∨ r + b = a + 18446744073709551616)) :
    (msb r == subOF a b r) = decide (b ≤ a) := by
  rw [subOF_pos a b r ha hb]
  by_cases h : b ≤ a
  · rw [msb_lt r (by omega), decide_eq_true h]; rfl
  · rw [msb_ge r (by omega), decide_eq_false h]; rfl

theorem jg_sub (a b r : Nat) (ha : a < 9223372036854775808) (hb : b < 9223372036854775808)
    (hr : r < 18446744073709551616 ∧ (r + b = a ∨ r + b = a + 18446744073709551616)) :
    (!decide (r = 0) && (msb r == subOF a b r)) = decide (b < a) := by
  rw [subOF_pos a b r ha hb]
  by_cases h : b < a
  · rw [msb_lt r (by omega), decide_eq_true h, decide_eq_false (by omega : ¬ r = 0)]; rfl
  · rw [decide_eq_false h]
    by_cases h0 : r = 0
    · rw [decide_eq_true h0]; rfl
    · rw [msb_ge r (by omega), decide_eq_false h0]; rfl

theorem jle_sub (a b r : Nat) (ha : a < 9223372036854775808) (hb : b < 9223372036854775808)
    (hr : r < 18446744073709551616 ∧ (r + b = a ∨ r + b = a + 18446744073709551616)) :
    (decide (r = 0) || (msb r != subOF a b r)) = decide (a ≤ b) := by
  rw [subOF_pos a b r ha hb]
  by_cases h : a ≤ b
  · rw [decide_eq_true h]
    by_cases h0 : r = 0
    · rw [decide_eq_true h0]; rfl
    · rw [msb_ge r (by omega), decide_eq_false h0]; rfl
  · rw [msb_lt r (by omega), decide_eq_false h, decide_eq_false (by omega : ¬ r = 0)]; rfl

/-- `ADDQ $b, R; JLE` where `R` holds a negative count `a - 2^64`: taken iff the sum is ≤ 0 -/
theorem jle_add_neg (a b r : Nat) (ha : 9223372036854775808 ≤ a) (ha' : a < 18446744073709551616)
    (hb : b < 9223372036854775808) (hr : r = (a + b) % 18446744073709551616) :
    (decide (r = 0) || (msb r != addOF a b r)) = decide (a + b ≤ 18446744073709551616) := by
  rw [addOF_neg_pos a b r ha hb]
  by_cases h : a + b ≤ 18446744073709551616
  · rw [decide_eq_true h]
    by_cases h0 : r = 0
    · rw [decide_eq_true h0]; rfl
    · rw [msb_ge r (by omega), decide_eq_false h0]; rfl
  · rw [msb_lt r (by omega), decide_eq_false h, decide_eq_false (by omega : ¬ r = 0)]; rfl

/-- `ADDQ $b, R; JL` where `R` holds a negative count: taken iff the sum is < 0 -/
theorem jl_add_neg (a b r : Nat) (ha : 9223372036854775808 ≤ a) (ha' : a < 18446744073709551616)
    (hb : b < 9223372036854775808) (hr : r = (a + b) % 18446744073709551616) :
    (msb r != addOF a b r) = decide (a + b < 18446744073709551616) := by
  rw [addOF_neg_pos a b r ha hb]
  by_cases h : a + b < 18446744073709551616
  · rw [msb_ge r (by omega), decide_eq_true h]; rfl
  · rw [msb_lt r (by omega), decide_eq_false h]; rfl

theorem add10WWW_g_eq (x y c : Nat) (hx : x < 10000000000000000000) (hy : y < 10000000000000000000) (hc : c ≤ 1) :
    Decimal.Gen.add10WWW_g x y c = ((x + y + c) % 10000000000000000000, (x + y + c) / 10000000000000000000) := by
  have h := Decimal.Gen.add10WWW_g_spec x y c hx hy hc
  ext <;> simp only [] <;> omega

theorem sub10WWW_g_eq (x y b : Nat) (hx : x < 10000000000000000000) (hy : y < 10000000000000000000) (hb : b ≤ 1) :
    Decimal.Gen.sub10WWW_g x y b =
      (if x < y + b then x + 10000000000000000000 - y - b else x - y - b, if x < y + b then 1 else 0) := by
  have h := Decimal.Gen.sub10WWW_g_spec x y b hx hy hb
  by_cases hlt : x < y + b
  · simp only [hlt, if_true]; ext <;> simp only [] <;> omega
  · simp only [hlt, if_false]; ext <;> simp only [] <;> omega

/-! ### `add10VW` / `sub10VW` steps (carry kept as 0/1 in CX) -/

/-- `ADDQ x,CX; CMPQ CX,DX; SBBQ BX,BX; ANDQ BX,CX; (store CX); LEAQ 1(BX),CX`:
    stored word, new carry in CX, new BX (all ones iff no carry). -/
def vwAddStep (dx cx bx x : Nat) : Nat × Nat × Nat :=
  let cx_1 := (cx + x) % W
  let cf_1 := if cx_1 < dx then 1 else 0
  let bx_1 := (W + bx - bx - cf_1) % W
  (Nat.land cx_1 bx_1, (bx_1 + 1) % W, bx_1)

theorem vwAddStep_spec (bx x c : Nat) (hc : c ≤ 1) (hx : x < 10000000000000000000) :
    vwAddStep 10000000000000000000 c bx x =
      ((x + c) % 10000000000000000000, (x + c) / 10000000000000000000,
        mask (1 - (x + c) / 10000000000000000000)) := by
  have hW : W + bx - bx = W := by omega
  unfold vwAddStep
  simp only [hW]
  simp only [W_eq]
  have e1 : (c + x) % 18446744073709551616 = c + x := by omega
  simp only [e1]
  by_cases h : c + x < 10000000000000000000
  · have e2 : (x + c) / 10000000000000000000 = 0 := by omega
    have e3 : (18446744073709551616 - 1) % 18446744073709551616 = 18446744073709551615 := by decide
    have e4 : (18446744073709551615 + 1) % 18446744073709551616 = 0 := by decide
    simp only [h, if_true, e2, e3, e4, land_allones (c + x) (by omega)]
    ext
    · simp only []; omega
    · rfl
    · rfl
  · have e2 : (x + c) / 10000000000000000000 = 1 := by omega
    have e3 : (18446744073709551616 - 0) % 18446744073709551616 = 0 := by decide
    have e4 : (0 + 1) % 18446744073709551616 = 1 := by decide
    simp only [h, if_false, e2, e3, e4, land_zero_right]
    ext
    · simp only []; omega
    · rfl
    · rfl

/-- `MOVQ x,R; SUBQ CX,R; SBBQ CX,CX; MOVQ DX,AX; ANDQ CX,AX; ADDQ AX,R; (store R); NEGQ CX`:
    stored word, new borrow (0/1) in CX. -/
def vwSubStep (dx cx x : Nat) : Nat × Nat × Nat :=
  let r_1 := (W + x - cx) % W
  let cf_1 := if x < cx then 1 else 0
  let cx_1 := (W + cx - cx - cf_1) % W
  let ax_2 := Nat.land dx cx_1
  ((r_1 + ax_2) % W, (W - cx_1) % W, cx_1)

theorem vwSubStep_spec (x c : Nat) (hc : c < 10000000000000000000) (hx : x < 10000000000000000000) :
    vwSubStep 10000000000000000000 c x =
      (if x < c then x + 10000000000000000000 - c else x - c, if x < c then 1 else 0,
        mask (if x < c then 1 else 0)) := by
  have hW : W + c - c = W := by omega
  unfold vwSubStep
  simp only [hW]
  simp only [W_eq]
  by_cases h : x < c
  · have e3 : (18446744073709551616 - 1) % 18446744073709551616 = 18446744073709551615 := by decide
    have e4 : (18446744073709551616 - 18446744073709551615) % 18446744073709551616 = 1 := by decide
    simp only [h, if_true, e3, e4, land_allones 10000000000000000000 (by omega)]
    ext
    · simp only []; omega
    · rfl
    · rfl
  · have e3 : (18446744073709551616 - 0) % 18446744073709551616 = 0 := by decide
    simp only [h, if_false, e3, land_zero_right]
    ext
    · simp only []; omega
    · rfl
    · rfl

/-! ### `pow10DivTab64` in memory, byte swaps of CX -/

/-- row `k` of the regenerated Go table -/
def tabRow (k : Nat) : Decimal.Gen.Magic := Decimal.Gen.pow10DivTab64.getD k ⟨0, 0, 0, 0⟩

/-- the table is laid out at byte address `base` as the assembly expects:
    24-byte rows `{d uint64; m uint64; pre, post byte}` -/
def TabAt (mem : Mem) (base : Nat) : Prop :=
  ∀ k, k < 18 → mem.rd (base + 24 * k) = (tabRow k).d ∧ mem.rd (base + 24 * k + 8) = (tabRow k).m ∧
    mem.rd (base + 24 * k + 16) % 65536 = (tabRow k).pre + 256 * (tabRow k).post

/-- every row has shift counts below 64 (so `SHRQ CL` shifts by exactly `pre` / `post`) -/
theorem tabRow_shifts (k : Nat) (hk : k < 18) : (tabRow k).pre < 64 ∧ (tabRow k).post < 64 := by
  have h : ∀ k, k < 18 → (tabRow k).pre < 64 ∧ (tabRow k).post < 64 := by decide
  exact h k hk

/-- `RORW $8, CX` on a 16-bit value `lo + 256*hi` swaps the two bytes -/
theorem rorw8 (lo hi : Nat) (hlo : lo < 256) (hhi : hi < 256) :
    65536 * ((lo + 256 * hi) / 65536) + ((lo + 256 * hi) % 65536 / 256 + 256 * ((lo + 256 * hi) % 65536 % 256))
      = hi + 256 * lo := by
  have h1 : (lo + 256 * hi) / 65536 = 0 := by omega
  have h2 : (lo + 256 * hi) % 65536 = lo + 256 * hi := by omega
  have h3 : (lo + 256 * hi) / 256 = hi := by omega
  have h4 : (lo + 256 * hi) % 256 = lo := by omega
  rw [h2, h1, h3, h4]; omega

/-- the shift count taken from CL -/
theorem cl_of (lo hi : Nat) (hlo : lo < 64) : (lo + 256 * hi) % 64 = lo := by omega

end Decimal.Asm
