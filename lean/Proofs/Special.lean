/-
  Helper lemmas for C04: IEEE special values (±0, ±Inf operands) of Add Sub Mul Quo FMA against
  the specification `Spec.addSV …`.  Core Lean only.
-/
import Proofs.Alias
import DecimalModel.Spec.IEEE

namespace Decimal
open Spec

/-- The model result `r` realises the specification result `s?`: `none` = invalid operation
    (`ErrNaN` panic), `some s` = normal return with a state that `Spec.agrees` with `s`. -/
def specMatch (r : Dec × Outcome) : Option SRes → Prop
  | none => r.2 = .errNaN
  | some s => r.2 = .ok ∧ agrees r.1 s = true

theorem set_nonfinite (z x : Dec) (h : x.form ≠ .finite) :
    (set z x false).form = x.form ∧ (set z x false).neg = x.neg ∧ (set z x false).acc = 0 := by
  have hb : setBody z x = { z with acc := Exact, form := x.form, neg := x.neg } := by
    simp [setBody, h]
  rw [set_eq_body, hb]
  split
  · exact ⟨rfl, rfl, rfl⟩
  · split
    · rw [round_nonfinite _ _ (show ({ z with acc := Exact, form := x.form, neg := x.neg } : Dec).form ≠ .finite from h)]
      exact ⟨rfl, rfl, rfl⟩
    · exact ⟨rfl, rfl, rfl⟩

theorem agrees_special {w : Dec} {r : SRes} (hf : w.form = r.form) (hn : w.neg = r.neg)
    (ha : w.acc = r.acc) (hnf : w.form ≠ .finite) : agrees w r = true := by
  simp [agrees, hf, hn, ha]
  left; rw [← hf]; exact hnf


theorem add_special (z x y : Dec) (hnf : x.form ≠ .finite ∨ y.form ≠ .finite)
    (hX : x.form = .finite → y.form = .zero →
      agrees (set (prologue z (umax x.prec y.prec)) x false)
        (Spec.round z.mode (prologue z (umax x.prec y.prec)).prec x.neg (x.mant : Rat)
          (x.exp - (x.len * DW : Nat))) = true)
    (hY : x.form = .zero → y.form = .finite →
      agrees (set (prologue z (umax x.prec y.prec)) y false)
        (Spec.round z.mode (prologue z (umax x.prec y.prec)).prec y.neg (y.mant : Rat)
          (y.exp - (y.len * DW : Nat))) = true) :
    specMatch (add z x y)
      (addSV z.mode (prologue z (umax x.prec y.prec)).prec (ofDec x) (ofDec y)) := by
  rw [add_eq_addK]
  simp only [opnd, Bool.false_eq_true, if_false]
  have hmode := prologue_mode z (umax x.prec y.prec)
  generalize prologue z (umax x.prec y.prec) = z' at *
  cases hx : x.form <;> cases hy : y.form
  all_goals simp only [ofDec, hx, hy, addSV, specMatch, addK, roundSV]
  all_goals simp
  · -- zero zero
    refine agrees_special rfl ?_ rfl (by simp)
    simp only [zeroRes, zeroSumSign, hmode]
    cases x.neg <;> cases y.neg <;> simp
  · exact (by simpa using hY hx hy)
  · have h := set_nonfinite z' y (by simp [hy])
    exact agrees_special (by rw [h.1, hy]; rfl) h.2.1 h.2.2 (by rw [h.1, hy]; simp)
  · exact (by simpa using hX hx hy)
  · rcases hnf with h | h
    · exact absurd hx h
    · exact absurd hy h
  · have h := set_nonfinite z' y (by simp [hy])
    exact agrees_special (by rw [h.1, hy]; rfl) h.2.1 h.2.2 (by rw [h.1, hy]; simp)
  · have h := set_nonfinite z' x (by simp [hx])
    exact agrees_special (by rw [h.1, hx]; rfl) h.2.1 h.2.2 (by rw [h.1, hx]; simp)
  · have h := set_nonfinite z' x (by simp [hx])
    exact agrees_special (by rw [h.1, hx]; rfl) h.2.1 h.2.2 (by rw [h.1, hx]; simp)
  · by_cases hs : x.neg = y.neg
    · simp only [hs, if_true]
      have h := set_nonfinite z' x (by simp [hx])
      exact ⟨trivial, agrees_special (by rw [h.1, hx]; rfl) (by rw [h.2.1, hs]; rfl) h.2.2 (by rw [h.1, hx]; simp)⟩
    · simp only [hs, if_false]

theorem subTail_nonfinite (z y : Dec) (h : y.form ≠ .finite) :
    (subTail z y false).form = y.form ∧ (subTail z y false).neg = (!y.neg) ∧
      (subTail z y false).acc = 0 := by
  have hb : setBody z y = { z with acc := Exact, form := y.form, neg := y.neg } := by
    simp [setBody, h]
  rw [subTail_eq_body, hb,
    round_nonfinite _ _ (show ({ z with acc := Exact, form := y.form, neg := !y.neg } : Dec).form ≠ .finite from h)]
  exact ⟨rfl, rfl, rfl⟩

theorem subTail_finite (z y : Dec) (h : y.form = .finite) :
    subTail z y false =
      round { z with acc := Exact, form := .finite, neg := !y.neg, exp := y.exp, mant := y.mant, len := y.len } false := by
  rw [subTail_eq_body]
  simp [setBody, h]

theorem sub_special (z x y : Dec) (hnf : x.form ≠ .finite ∨ y.form ≠ .finite)
    (hX : x.form = .finite → y.form = .zero →
      agrees (set (prologue z (umax x.prec y.prec)) x false)
        (Spec.round z.mode (prologue z (umax x.prec y.prec)).prec x.neg (x.mant : Rat)
          (x.exp - (x.len * DW : Nat))) = true)
    (hY : x.form = .zero → y.form = .finite →
      agrees (round { prologue z (umax x.prec y.prec) with
          acc := Exact, form := .finite, neg := !y.neg, exp := y.exp, mant := y.mant, len := y.len } false)
        (Spec.round z.mode (prologue z (umax x.prec y.prec)).prec (!y.neg) (y.mant : Rat)
          (y.exp - (y.len * DW : Nat))) = true) :
    specMatch (sub z x y)
      (subSV z.mode (prologue z (umax x.prec y.prec)).prec (ofDec x) (ofDec y)) := by
  rw [sub_eq_subK]
  simp only [opnd, Bool.false_eq_true, if_false]
  have hmode := prologue_mode z (umax x.prec y.prec)
  generalize prologue z (umax x.prec y.prec) = z' at *
  cases hx : x.form <;> cases hy : y.form
  all_goals simp only [ofDec, hx, hy, subSV, negSV, addSV, specMatch, subK, roundSV]
  all_goals simp
  · -- zero zero
    refine agrees_special rfl ?_ rfl (by simp)
    simp only [zeroRes, zeroSumSign, hmode]
    cases x.neg <;> cases y.neg <;> simp
  · rw [subTail_finite _ _ hy]
    exact (by simpa using hY hx hy)
  · have h := subTail_nonfinite z' y (by simp [hy])
    exact agrees_special (by rw [h.1, hy]; rfl) h.2.1 h.2.2 (by rw [h.1, hy]; simp)
  · exact (by simpa using hX hx hy)
  · rcases hnf with h | h
    · exact absurd hx h
    · exact absurd hy h
  · have h := subTail_nonfinite z' y (by simp [hy])
    exact agrees_special (by rw [h.1, hy]; rfl) h.2.1 h.2.2 (by rw [h.1, hy]; simp)
  · have h := set_nonfinite z' x (by simp [hx])
    exact agrees_special (by rw [h.1, hx]; rfl) h.2.1 h.2.2 (by rw [h.1, hx]; simp)
  · have h := set_nonfinite z' x (by simp [hx])
    exact agrees_special (by rw [h.1, hx]; rfl) h.2.1 h.2.2 (by rw [h.1, hx]; simp)
  · by_cases hs : x.neg = y.neg
    · have hs' : ¬ x.neg = !y.neg := by rw [hs]; cases y.neg <;> simp
      simp only [if_pos hs, if_neg hs']
    · have hs' : x.neg = !y.neg := by revert hs; cases x.neg <;> cases y.neg <;> simp
      simp only [if_neg hs, if_pos hs']
      have h := set_nonfinite z' x (by simp [hx])
      exact ⟨trivial, agrees_special (by rw [h.1, hx]; rfl) (by rw [h.2.1]; rfl) h.2.2 (by rw [h.1, hx]; simp)⟩


theorem mul_special (z x y : Dec) (hnf : x.form ≠ .finite ∨ y.form ≠ .finite) :
    specMatch (mul z x y)
      (mulSV z.mode (prologue z (umax x.prec y.prec)).prec (ofDec x) (ofDec y)) := by
  rw [mul_eq_mulK]
  simp only [opnd, Bool.false_eq_true, if_false]
  generalize prologue z (umax x.prec y.prec) = z' at *
  cases hx : x.form <;> cases hy : y.form
  all_goals simp only [ofDec, hx, hy, mulSV, specMatch, mulK]
  all_goals simp
  all_goals first
    | exact agrees_special rfl rfl rfl (by simp)
    | (rcases hnf with h | h
       · exact absurd hx h
       · exact absurd hy h)

theorem quo_special (z x y : Dec) (hnf : x.form ≠ .finite ∨ y.form ≠ .finite) :
    specMatch (quo z x y)
      (quoSV z.mode (prologue z (umax x.prec y.prec)).prec (ofDec x) (ofDec y)) := by
  rw [quo_eq_quoK]
  simp only [opnd, Bool.false_eq_true, if_false]
  generalize prologue z (umax x.prec y.prec) = z' at *
  cases hx : x.form <;> cases hy : y.form
  all_goals simp only [ofDec, hx, hy, quoSV, specMatch, quoK]
  all_goals simp
  all_goals first
    | exact agrees_special rfl rfl rfl (by simp)
    | (rcases hnf with h | h
       · exact absurd hx h
       · exact absurd hy h)


theorem ofDec_zero {x : Dec} (h : x.form = .zero) : ofDec x = .zero x.neg := by simp [ofDec, h]
theorem ofDec_inf {x : Dec} (h : x.form = .inf) : ofDec x = .inf x.neg := by simp [ofDec, h]
theorem ofDec_finite {x : Dec} (h : x.form = .finite) :
    ofDec x = .fin x.neg (x.mant : Rat) (x.exp - (x.len * DW : Nat)) := by simp [ofDec, h]

theorem agrees_obsEq {a b : Dec} (r : SRes) (h : obsEq a b) : agrees a r = agrees b r := by
  obtain ⟨h1, h2, h3, h4, h5, h6⟩ := h
  by_cases hf : a.form = .finite
  · obtain ⟨a1, a2, a3⟩ := h6 hf
    simp only [agrees, ← h1, ← h2, ← h5, ← a1, ← a2, ← a3]
  · have hf2 : b.form ≠ .finite := h1 ▸ hf
    have e2 : (b.form != Form.finite) = true := by simp [hf2]
    simp only [agrees, e2, Bool.true_or, h1, h2, h5]

theorem fma_prologue_inner (z Z0 : Dec) (a b c : Nat)
    (h : Z0.prec = (prologue z (umax (umax a b) c)).prec) : prologue Z0 (umax Z0.prec c) = Z0 := by
  by_cases h0 : Z0.prec = 0
  · have hz : z.prec = 0 := prologue_prec_zero (h ▸ h0)
    rw [prologue_prec, if_pos hz, h0] at h
    have hc : c = 0 := (umax_eq_zero.mp h.symm).2
    rw [prologue_of_zero h0, h0, hc, umax_zero_left]
    exact eq_of_fields rfl rfl rfl rfl rfl h0.symm rfl rfl
  · exact prologue_of_nonzero h0

/-- The last step of FMA when the exact product is a zero or an infinity `Z0`. -/
theorem finish_special {z' u Z0 : Dec} (m : Mode) (hZ : Z0.form ≠ .finite) (hp : Z0.prec = z'.prec)
    (hm : Z0.mode = m) (hinner : prologue Z0 (umax Z0.prec u.prec) = Z0)
    (hU : Z0.form = .zero → u.form = .finite →
      agrees (set Z0 u false) (Spec.round m z'.prec u.neg (u.mant : Rat) (u.exp - (u.len * DW : Nat))) = true) :
    specMatch (finishF z' u false Z0) (addSV m z'.prec (ofDec Z0) (ofDec u)) := by
  have h := add_alias Z0 Z0 u true false
  simp only [opnd, if_true, Bool.false_eq_true, if_false] at h
  simp only [finishF, Bool.false_eq_true, if_false]
  rw [h]
  have := add_special Z0 Z0 u (Or.inl hZ) (fun h => absurd h hZ)
    (by rw [hinner, hm, hp]; exact hU)
  rw [hinner, hm, hp] at this
  exact this

/-- FMA with a zero or infinite factor.  The only sub-case that rounds is `(±0 product) + u`
    with `u` finite, which delegates to `Set`: `hU` assumes `Set` correct for that `u`. -/
theorem fma_special (z x y u : Dec) (hxy : x.form ≠ .finite ∨ y.form ≠ .finite)
    (hU : x.form ≠ .inf → y.form ≠ .inf → u.form = .finite →
      agrees (set (prologue z (umax (umax x.prec y.prec) u.prec)) u false)
        (Spec.round z.mode (prologue z (umax (umax x.prec y.prec) u.prec)).prec u.neg (u.mant : Rat)
          (u.exp - (u.len * DW : Nat))) = true) :
    specMatch (fma z x y u)
      (fmaSV z.mode (prologue z (umax (umax x.prec y.prec) u.prec)).prec (ofDec x) (ofDec y) (ofDec u)) := by
  rw [fma_eq_fmaK]
  simp only [opnd, Bool.false_eq_true, if_false]
  have hmode := prologue_mode z (umax (umax x.prec y.prec) u.prec)
  have hinner : ∀ Z0 : Dec, Z0.prec = (prologue z (umax (umax x.prec y.prec) u.prec)).prec →
      prologue Z0 (umax Z0.prec u.prec) = Z0 := fun Z0 h => fma_prologue_inner z Z0 _ _ _ h
  generalize prologue z (umax (umax x.prec y.prec) u.prec) = z' at *
  -- `Set` into the scratch product is `Set` into the receiver, observationally
  have hset : ∀ Z0 : Dec, Z0.prec = z'.prec → Z0.mode = z.mode → x.form ≠ .inf → y.form ≠ .inf →
      u.form = .finite →
      agrees (set Z0 u false)
        (Spec.round z.mode z'.prec u.neg (u.mant : Rat) (u.exp - (u.len * DW : Nat))) = true := by
    intro Z0 hp hm h1 h2 h3
    rw [agrees_obsEq _ (set_obs (z₁ := Z0) (z₂ := z') (x₁ := u) (x₂ := u) hp (hm.trans hmode.symm)
      (valEq.refl u) (fun _ => rfl) (by rw [hp]))]
    exact hU h1 h2 h3
  cases hx : x.form <;> cases hy : y.form
  all_goals
    first
      | rw [ofDec_zero hx] | rw [ofDec_inf hx] | rw [ofDec_finite hx]
    first
      | rw [ofDec_zero hy] | rw [ofDec_inf hy] | rw [ofDec_finite hy]
    simp only [fmaSV, mulExact, fmaK, hx, hy]
    simp
  · -- zero zero
    have := finish_special (z' := z') (u := u)
      (Z0 := { z' with neg := x.neg != y.neg, acc := Exact, form := .zero }) z.mode (by simp) rfl hmode
      (hinner _ rfl) (fun _ hu => hset _ rfl hmode (by simp [hx]) (by simp [hy]) hu)
    rw [ofDec_zero (x := { z' with neg := x.neg != y.neg, acc := Exact, form := .zero }) rfl] at this
    exact this
  · -- zero finite
    have := finish_special (z' := z') (u := u)
      (Z0 := { z' with neg := x.neg != y.neg, acc := Exact, form := .zero }) z.mode (by simp) rfl hmode
      (hinner _ rfl) (fun _ hu => hset _ rfl hmode (by simp [hx]) (by simp [hy]) hu)
    rw [ofDec_zero (x := { z' with neg := x.neg != y.neg, acc := Exact, form := .zero }) rfl] at this
    exact this
  · exact rfl
  · -- finite zero
    have := finish_special (z' := z') (u := u)
      (Z0 := { z' with neg := x.neg != y.neg, acc := Exact, form := .zero }) z.mode (by simp) rfl hmode
      (hinner _ rfl) (fun _ hu => hset _ rfl hmode (by simp [hx]) (by simp [hy]) hu)
    rw [ofDec_zero (x := { z' with neg := x.neg != y.neg, acc := Exact, form := .zero }) rfl] at this
    exact this
  · rcases hxy with h | h
    · exact absurd hx h
    · exact absurd hy h
  · -- finite inf
    have := finish_special (z' := z') (u := u)
      (Z0 := { z' with neg := x.neg != y.neg, acc := Exact, form := .inf }) z.mode (by simp) rfl hmode
      (hinner _ rfl) (fun h => by simp at h)
    rw [ofDec_inf (x := { z' with neg := x.neg != y.neg, acc := Exact, form := .inf }) rfl] at this
    exact this
  · exact rfl
  · -- inf finite
    have := finish_special (z' := z') (u := u)
      (Z0 := { z' with neg := x.neg != y.neg, acc := Exact, form := .inf }) z.mode (by simp) rfl hmode
      (hinner _ rfl) (fun h => by simp at h)
    rw [ofDec_inf (x := { z' with neg := x.neg != y.neg, acc := Exact, form := .inf }) rfl] at this
    exact this
  · -- inf inf
    have := finish_special (z' := z') (u := u)
      (Z0 := { z' with neg := x.neg != y.neg, acc := Exact, form := .inf }) z.mode (by simp) rfl hmode
      (hinner _ rfl) (fun h => by simp at h)
    rw [ofDec_inf (x := { z' with neg := x.neg != y.neg, acc := Exact, form := .inf }) rfl] at this
    exact this

/-- `x·y + (±0)` with finite factors is `Mul` (one rounding), in the model and in the
    specification. -/
theorem fma_zero_addend (z x y u : Dec) (hx : x.form = .finite) (hy : y.form = .finite)
    (hu : u.form = .zero) (p : Nat) :
    fma z x y u = mul (prologue z (umax (umax x.prec y.prec) u.prec)) x y ∧
      fmaSV z.mode p (ofDec x) (ofDec y) (ofDec u) = mulSV z.mode p (ofDec x) (ofDec y) := by
  constructor
  · rw [fma_eq_fmaK]
    simp [fmaK, opnd, hx, hy, hu]
  · rw [ofDec_finite hx, ofDec_finite hy, ofDec_zero hu]
    simp [fmaSV, mulExact, addSV, mulSV, roundSV]

/-- `x·y + (±Inf)` with finite factors whose exact product is within the exponent range. -/
theorem fma_inf_addend (z x y u : Dec) (hx : x.form = .finite) (hy : y.form = .finite)
    (hu : u.form = .inf) (p : Nat)
    (hfin : (umul { prologue z (umax (umax x.prec y.prec) u.prec) with
        neg := x.neg != y.neg, prec := MaxPrec } x y).form = .finite) :
    specMatch (fma z x y u) (fmaSV z.mode p (ofDec x) (ofDec y) (ofDec u)) := by
  have hspec : fmaSV z.mode p (ofDec x) (ofDec y) (ofDec u) = some (infRes u.neg) := by
    rw [ofDec_finite hx, ofDec_finite hy, ofDec_inf hu]
    simp [fmaSV, mulExact, addSV]
  rw [hspec, fma_eq_fmaK]
  simp only [opnd, Bool.false_eq_true, if_false]
  generalize prologue z (umax (umax x.prec y.prec) u.prec) = z' at *
  simp only [fmaK, hx, hy, hu, Bool.false_eq_true, if_false]
  simp only [beq_self_eq_true, Bool.and_true, Bool.and_self, if_true]
  have hne : ¬ ((Form.inf == Form.zero) = true) := by decide
  simp only [hne, if_false, finishF, Bool.false_eq_true]
  generalize hZ : ({ umul { z' with neg := x.neg != y.neg, prec := MaxPrec } x y with prec := z'.prec } : Dec) = Z0
  have hZf : Z0.form = .finite := by rw [← hZ]; exact hfin
  have h := add_alias Z0 Z0 u true false
  simp only [opnd, if_true, Bool.false_eq_true, if_false] at h
  rw [h]
  have := add_special Z0 Z0 u (Or.inr (by simp [hu])) (fun _ h => by simp [hu] at h)
    (fun h => by simp [hZf] at h)
  rw [ofDec_finite hZf, ofDec_inf hu] at this
  simpa [addSV] using this


/-! ### After an `ErrNaN` panic the receiver holds a valid `+0` -/

theorem add_nan_valid (z x y : Dec) (sx sy : Bool) (h : (add z x y sx sy).2 = .errNaN) :
    (add z x y sx sy).1.form = .zero ∧ (add z x y sx sy).1.neg = false ∧ (add z x y sx sy).1.acc = 0 := by
  revert h
  simp only [add]
  repeat' split
  all_goals simp [Exact]

theorem sub_nan_valid (z x y : Dec) (sx sy : Bool) (h : (sub z x y sx sy).2 = .errNaN) :
    (sub z x y sx sy).1.form = .zero ∧ (sub z x y sx sy).1.neg = false ∧ (sub z x y sx sy).1.acc = 0 := by
  revert h
  simp only [sub]
  repeat' split
  all_goals simp [Exact]

theorem mul_nan_valid (z x y : Dec) (sx sy : Bool) (h : (mul z x y sx sy).2 = .errNaN) :
    (mul z x y sx sy).1.form = .zero ∧ (mul z x y sx sy).1.neg = false ∧ (mul z x y sx sy).1.acc = 0 := by
  revert h
  simp only [mul]
  repeat' split
  all_goals simp [Exact]

theorem quo_nan_valid (z x y : Dec) (sx sy : Bool) (h : (quo z x y sx sy).2 = .errNaN) :
    (quo z x y sx sy).1.form = .zero ∧ (quo z x y sx sy).1.neg = false ∧ (quo z x y sx sy).1.acc = 0 := by
  revert h
  simp only [quo]
  repeat' split
  all_goals simp [Exact]

theorem fma_nan_valid (z x y u : Dec) (sx sy su : Bool) (h : (fma z x y u sx sy su).2 = .errNaN) :
    (fma z x y u sx sy su).1.form = .zero ∧ (fma z x y u sx sy su).1.neg = false ∧
      (fma z x y u sx sy su).1.acc = 0 := by
  revert h
  simp only [fma]
  repeat' split
  all_goals first
    | exact mul_nan_valid _ _ _ _ _
    | exact add_nan_valid _ _ _ _ _
    | simp [Exact]

/-! ### Sign rules -/

@[simp] theorem round_neg (z : Dec) (s : Bool) : (round z s).neg = z.neg := by
  simp only [round]
  repeat' split
  all_goals rfl

@[simp] theorem setExpAndRound_neg (z : Dec) (e : Int) (s : Bool) :
    (setExpAndRound z e s).neg = z.neg := by
  unfold setExpAndRound
  split
  · rfl
  · split
    · rfl
    · rw [round_neg]

@[simp] theorem setNormAndRound_neg (z : Dec) (M : Nat) (e : Int) (s : Bool) :
    (setNormAndRound z M e s).neg = z.neg := by
  simp only [setNormAndRound, setExpAndRound_neg]

@[simp] theorem umul_neg (z x y : Dec) : (umul z x y).neg = z.neg := by
  simp only [umul, setNormAndRound_neg]
@[simp] theorem uquo_neg (z x y : Dec) : (uquo z x y).neg = z.neg := by
  simp only [uquo, setNormAndRound_neg]

/-- The sign of a product is the XOR of the signs, for every class of operands (finite ones
    included), whenever the operation is valid. -/
theorem mul_sign (z x y : Dec) (h : (mul z x y).2 = .ok) : (mul z x y).1.neg = (x.neg != y.neg) := by
  revert h
  simp only [mul, opnd, Bool.false_eq_true, if_false]
  repeat' split
  all_goals simp

theorem quo_sign (z x y : Dec) (h : (quo z x y).2 = .ok) : (quo z x y).1.neg = (x.neg != y.neg) := by
  revert h
  simp only [quo, opnd, Bool.false_eq_true, if_false]
  repeat' split
  all_goals simp

theorem add_zero_zero (z x y : Dec) (hx : x.form = .zero) (hy : y.form = .zero) :
    (add z x y).2 = .ok ∧ (add z x y).1.form = .zero ∧ (add z x y).1.acc = 0 ∧
      (add z x y).1.neg = zeroSumSign z.mode x.neg y.neg := by
  rw [add_eq_addK]
  simp only [opnd, Bool.false_eq_true, if_false]
  have hmode := prologue_mode z (umax x.prec y.prec)
  generalize prologue z (umax x.prec y.prec) = z' at *
  simp [addK, hx, hy, hmode, zeroSumSign, Exact]
  cases x.neg <;> cases y.neg <;> simp

theorem sub_zero_zero (z x y : Dec) (hx : x.form = .zero) (hy : y.form = .zero) :
    (sub z x y).2 = .ok ∧ (sub z x y).1.form = .zero ∧ (sub z x y).1.acc = 0 ∧
      (sub z x y).1.neg = zeroSumSign z.mode x.neg (!y.neg) := by
  rw [sub_eq_subK]
  simp only [opnd, Bool.false_eq_true, if_false]
  have hmode := prologue_mode z (umax x.prec y.prec)
  generalize prologue z (umax x.prec y.prec) = z' at *
  simp [subK, hx, hy, hmode, zeroSumSign, Exact]
  cases x.neg <;> cases y.neg <;> simp


theorem specMatch_nan_iff {r : Dec × Outcome} {s : Option SRes} (h : specMatch r s) :
    r.2 = .errNaN ↔ s = none := by
  cases s with
  | none => exact ⟨fun _ => rfl, fun _ => h⟩
  | some v =>
    constructor
    · intro h'; have := h.1; rw [h'] at this; cases this
    · intro h'; cases h'

end Decimal
