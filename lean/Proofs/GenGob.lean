/-
  `GobDecode` of decimal_marsh.go REGENERATED (`Gen.Facts.GobDecode`) tied to the model (`Decimal.gobDecode`,
  DecimalModel/Gob.lean): empty payload, version, length checks, the attribute byte (`mode = b>>5 & 7`,
  `acc = (b>>3 & 3) - 1` in int8, `form = b>>1 & 3`, sign), their validation, the exponent as int32, every validation
  of the decoded mantissa (not empty, normalised top word, no word ≥ 10^19, digits within the precision), the order of
  the assignments, and the restoration of a non-zero receiver precision and mode through `SetPrec`.
-/
import DecimalModel.Gen.Facts
import DecimalModel.Gob
import Proofs.GenFacts

namespace Decimal.GenGob

open Decimal Decimal.GenFacts

theorem shr_and (b k m : Nat) : (b >>> k) &&& (2 ^ m - 1) = b / 2 ^ k % 2 ^ m := by
  rw [Nat.shiftRight_eq_div_pow, Nat.and_two_pow_sub_one_eq_mod]

theorem and_one (b : Nat) : b &&& 1 = b % 2 := by
  have := Nat.and_two_pow_sub_one_eq_mod b 1
  simpa using this

/-- decoded mantissa as the model reads it -/
def wsOf (buf : List Nat) : List Nat := setBytesWords (buf.drop 10)

theorem gobDecode_eq (z : Dec) (buf : List Nat)
    (hB : buf.getD 1 0 < 256)
    (hE : ofBE ((buf.drop 6).take 4) < 4294967296)
    (hL : (wsOf buf).length * 19 < 18446744073709551616)
    (hT : trailingZeros (natOf (wsOf buf)) ≤ (wsOf buf).length * 19) :
    let g := Gen.Facts.GobDecode buf.length (buf.headD 0) (buf.getD 1 0) (ofBE ((buf.drop 2).take 4))
      (ofBE ((buf.drop 6).take 4)) (wsOf buf).length ((wsOf buf).getLast?.getD 0) ((wsOf buf).any (· ≥ B)) (trailingZeros (natOf (wsOf buf)))
      z.prec z.mode.toNat z.acc z.form.toNat z.neg z.exp
    let z' : Dec :=
      { z with prec := g.zPrec, mode := modeOf g.zMode, acc := g.zAcc, form := formOf g.zForm, neg := g.zNeg, exp := g.zExp,
               mant := if buf.isEmpty then 0 else if g.zForm = 1 then natOf (wsOf buf) else z.mant,
               len := if buf.isEmpty then 0 else if g.zForm = 1 then (wsOf buf).length else z.len }
    gobDecode z buf =
      if g.outcome = 3 then none
      else if g.tail = 1 then some (setPrec z' z.prec) else some z' := by
  unfold gobDecode wsOf at *
  generalize buf.headD 0 = ver
  generalize buf.getD 1 0 = b at hB ⊢
  generalize ofBE (List.take 4 (List.drop 2 buf)) = precU
  generalize ofBE (List.take 4 (List.drop 6 buf)) = expU at hE ⊢
  generalize setBytesWords (List.drop 10 buf) = ws at hL hT ⊢
  intro g z'
  -- the attribute byte
  have hmode : (b >>> 5) &&& 7 = b / 32 % 8 := shr_and _ 5 3
  have hacc : (b >>> 3) &&& 3 = b / 8 % 4 := shr_and _ 3 2
  have hfm : (b >>> 1) &&& 3 = b / 2 % 4 := shr_and _ 1 2
  have hneg : (b &&& 1) = b % 2 := and_one _
  have hw8 : Gen.Facts.wrapI8 (Gen.Facts.wrapI8 ((b : Int) / 8 % 4) - 1) = (b : Int) / 8 % 4 - 1 := by
    unfold Gen.Facts.wrapI8; omega
  have hw32 : Gen.Facts.wrapI32 (expU : Int) =
      if 2147483648 ≤ expU then ((expU : Nat) : Int) - 4294967296 else ((expU : Nat) : Int) := by
    unfold Gen.Facts.wrapI32; split <;> omega
  have hmo : ∀ m : Nat, m < 8 → Mode.ofNat? m = if m ≤ 5 then some (modeOf m) else none := by
    intro m hm
    have : m = 0 ∨ m = 1 ∨ m = 2 ∨ m = 3 ∨ m = 4 ∨ m = 5 ∨ m = 6 ∨ m = 7 := by omega
    rcases this with h | h | h | h | h | h | h | h <;> subst h <;> rfl
  have hfo : ∀ f : Nat, f < 4 → Form.ofNat? f = if f ≤ 2 then some (formOf f) else none := by
    intro f hf
    have : f = 0 ∨ f = 1 ∨ f = 2 ∨ f = 3 := by omega
    rcases this with h | h | h | h <;> subst h <;> rfl
  have hdig : ((((Int.toNat ((ws.length : Int) % 18446744073709551616)) * 19) % 18446744073709551616 + 18446744073709551616
      - trailingZeros (natOf ws)) % 18446744073709551616) = ws.length * 19 - trailingZeros (natOf ws) := by
    omega
  have hm8 : b / 32 % 8 < 8 := by omega
  have hf4 : b / 2 % 4 < 4 := by omega
  have hmoI := hmo _ hm8
  have hfoI := hfo _ hf4
  by_cases hemp : buf = []
  · subst hemp
    simp [g, z', Gen.Facts.GobDecode]
    rfl
  · have hne : buf.isEmpty = false := by cases buf <;> simp_all
    have hl0 : ¬ ((buf.length : Int) = 0) := by
      have : buf.length ≠ 0 := fun h => hemp (List.eq_nil_of_length_eq_zero h)
      omega
    by_cases hv : ver = 1
    · by_cases h6 : buf.length < 6
      · have h6' : (buf.length : Int) < 6 := by omega
        simp [g, Gen.Facts.GobDecode, hemp, hne, hl0, hv, h6, h6']
      · have h6' : ¬ (buf.length : Int) < 6 := by omega
        by_cases hmode5 : b / 32 % 8 ≤ 5
        · by_cases hform2 : b / 2 % 4 ≤ 2
          · by_cases hacc1 : (1 : Int) < (b : Int) / 8 % 4 - 1
            · simp [g, Gen.Facts.GobDecode, hemp, hne, hl0, hv, h6, h6', hmode, hacc, hfm, hw8, hmoI, hfoI, hmode5, hform2, hacc1]
            · have hB10 : B / 10 = 1000000000000000000 := by decide
              have hmode5n : ¬ 5 < b / 32 % 8 := by omega
              have hbeq : (b % 2 == 1) = decide (b % 2 = 1) := by
                rcases Nat.mod_two_eq_zero_or_one b with h | h <;> simp [h]
              have hform2n : ¬ 2 < b / 2 % 4 := by omega
              have hDW : DW = 19 := rfl
              have hfm3 : b / 2 % 4 = 0 ∨ b / 2 % 4 = 1 ∨ b / 2 % 4 = 2 := by omega
              have hlen10 : ((buf.length : Int) < 10) ↔ buf.length < 10 := by omega
              have hwl : ((ws.length : Int) = 0) ↔ ws = [] := by
                constructor
                · intro h; exact List.eq_nil_of_length_eq_zero (by omega)
                · intro h; subst h; rfl
              rcases hfm3 with hf | hf | hf
              · by_cases hz0 : z.prec = 0 <;>
                  simp [g, z', Gen.Facts.GobDecode, hemp, hne, hl0, hv, h6, h6', hmode, hacc, hfm, hw8, hmoI, hfoI, hmode5, hmode5n, hform2, hform2n, hacc1, hf, hneg, hbeq, Form.ofNat?, hz0]
              · by_cases h10 : buf.length < 10
                · simp [g, z', Gen.Facts.GobDecode, hemp, hne, hl0, hv, h6, h6', hmode, hacc, hfm, hw8, hmoI, hfoI, hmode5, hmode5n, hform2, hform2n, hacc1, hf, hneg, hbeq, Form.ofNat?, h10, hlen10]
                · by_cases hws : ws = [] ∨ ws.getLast?.getD 0 < 1000000000000000000
                  · simp [g, z', Gen.Facts.GobDecode, hemp, hne, hl0, hv, h6, h6', hmode, hacc, hfm, hw8, hmoI, hfoI, hmode5, hmode5n, hform2, hform2n, hacc1, hf, hneg, hbeq, Form.ofNat?, h10, hlen10, hB10, hwl, hws]
                  · by_cases hbig : ∃ x, x ∈ ws ∧ B ≤ x
                    · simp [g, z', Gen.Facts.GobDecode, hemp, hne, hl0, hv, h6, h6', hmode, hacc, hfm, hw8, hmoI, hfoI, hmode5, hmode5n, hform2, hform2n, hacc1, hf, hneg, hbeq, Form.ofNat?, h10, hlen10, hB10, hwl, hws, hbig]
                    · by_cases hpr : precU < ws.length * 19 - trailingZeros (natOf ws)
                      · simp [g, z', Gen.Facts.GobDecode, hemp, hne, hl0, hv, h6, h6', hmode, hacc, hfm, hw8, hmoI, hfoI, hmode5, hmode5n, hform2, hform2n, hacc1, hf, hneg, hbeq, Form.ofNat?, h10, hlen10, hB10, hwl, hws, hbig, hdig, hDW, hpr]
                      · by_cases hz0 : z.prec = 0 <;>
                          simp [g, z', Gen.Facts.GobDecode, hemp, hne, hl0, hv, h6, h6', hmode, hacc, hfm, hw8, hmoI, hfoI, hmode5, hmode5n, hform2, hform2n, hacc1, hf, hneg, hbeq, Form.ofNat?, h10, hlen10, hB10, hwl, hws, hbig, hdig, hDW, hpr, hw32, hz0]
              · by_cases hz0 : z.prec = 0 <;>
                  simp [g, z', Gen.Facts.GobDecode, hemp, hne, hl0, hv, h6, h6', hmode, hacc, hfm, hw8, hmoI, hfoI, hmode5, hmode5n, hform2, hform2n, hacc1, hf, hneg, hbeq, Form.ofNat?, hz0]
          · have hform2' : b / 2 % 4 > 2 := by omega
            simp [g, Gen.Facts.GobDecode, hemp, hne, hl0, hv, h6, h6', hmode, hacc, hfm, hw8, hmoI, hfoI, hmode5, hform2, hform2']
        · have hmode5' : b / 32 % 8 > 5 := by omega
          simp [g, Gen.Facts.GobDecode, hemp, hne, hl0, hv, h6, h6', hmode, hacc, hfm, hw8, hmoI, hfoI, hmode5, hmode5']
    · simp [g, Gen.Facts.GobDecode, hemp, hne, hl0, hv]

/-! ### `GobEncode` -/

/-- the attribute byte of the model's `gobEncode`, over plain values -/
def hdrOf (mo : Mode) (f : Form) (a : Int) (n : Bool) : Nat :=
  (mo.toNat % 8) * 32 + ((a + 1).toNat % 4) * 8 + (f.toNat % 4) * 2 + (if n then 1 else 0)

theorem hdr_eq (mo : Mode) (f : Form) (a : Int) (n : Bool) (ha : a = -1 ∨ a = 0 ∨ a = 1) :
    (let b := ((((mo.toNat &&& 7) <<< 5) % 256) ||| (((Int.toNat (((Gen.Facts.wrapI8 (a + 1)) % 4) % 256)) <<< 3) % 256)) |||
      (((f.toNat &&& 3) <<< 1) % 256)
     if n then b ||| 1 else b) = hdrOf mo f a n := by
  rcases ha with h | h | h <;> subst h <;> cases mo <;> cases f <;> cases n <;> decide

/-- number of mantissa words the model's `gobEncode` writes -/
def nWords (prec len : Nat) : Nat :=
  let n0 := (prec + (DW - 1)) / DW
  if len < n0 then len else n0

/-- `GobEncode` as regenerated: buffer size, version byte, attribute byte (mode, accuracy + 1, form and sign packed
    with shifts and ors in byte arithmetic), precision field, and for finite values the exponent field as uint32
    and the index of the first mantissa word that is encoded — exactly the quantities of the model's `gobEncode`. -/
theorem gobEncode_eq (x : Dec) (hacc : x.acc = -1 ∨ x.acc = 0 ∨ x.acc = 1) (hprec : x.prec < 4294967296)
    (hlen : x.len < 1099511627776) :
    Gen.Facts.GobEncode false x.form.toNat x.prec x.len x.mode.toNat x.acc x.neg x.exp =
      { outcome := 0, tail := 0,
        mtrace := [(1, [if x.form = .finite then 6 + (4 + (nWords x.prec x.len : Int) * 8) else 6]), (2, [1]),
            (3, [(hdrOf x.mode x.form x.acc x.neg : Int)]), (4, [(x.prec : Int)])] ++
          (if x.form = .finite then [(5, [((x.exp % 4294967296).toNat : Int)]), (6, [(x.len : Int) - (nWords x.prec x.len : Int)])] else []) } := by
  have hb := hdr_eq x.mode x.form x.acc x.neg hacc
  simp only [] at hb
  have hn0 : Gen.Facts.wrapI64 (((x.prec : Int) + 18) % 18446744073709551616 / 19) = ((x.prec : Int) + 18) / 19 := by
    unfold Gen.Facts.wrapI64; omega
  unfold Gen.Facts.GobEncode
  have hft : (x.form.toNat = 1) = (x.form = .finite) := by cases x.form <;> simp [Form.toNat]
  have hbn := hb
  by_cases hf : x.form = .finite
  · by_cases hl : (x.len : Int) < ((x.prec : Int) + 18) / 19
    · have hl' : x.len < (x.prec + 18) / 19 := by omega
      have hnw : ((nWords x.prec x.len : Nat) : Int) = (x.len : Int) := by unfold nWords DW; simp [hl']
      have w1 : Gen.Facts.wrapI64 (6 + Gen.Facts.wrapI64 (4 + Gen.Facts.wrapI64 ((x.len : Int) * 8))) = 6 + (4 + (x.len : Int) * 8) := by
        unfold Gen.Facts.wrapI64; omega
      have w2 : Gen.Facts.wrapI64 ((x.len : Int) - (x.len : Int)) = (x.len : Int) - (x.len : Int) := by unfold Gen.Facts.wrapI64; omega
      have w0 : Gen.Facts.wrapI64 0 = 0 := by decide
      cases hn : x.neg <;> simp [hn, hf] at hbn <;> simp [hft, hf, hn0, hl, hnw, w0, w1, w2, hbn, hn]
    · have hl' : ¬ x.len < (x.prec + 18) / 19 := by omega
      have hnw : ((nWords x.prec x.len : Nat) : Int) = ((x.prec : Int) + 18) / 19 := by unfold nWords DW; simp [hl']
      have w1 : Gen.Facts.wrapI64 (6 + Gen.Facts.wrapI64 (4 + Gen.Facts.wrapI64 ((((x.prec : Int) + 18) / 19) * 8))) = 6 + (4 + (((x.prec : Int) + 18) / 19) * 8) := by
        unfold Gen.Facts.wrapI64; omega
      have w2 : Gen.Facts.wrapI64 ((x.len : Int) - (((x.prec : Int) + 18) / 19)) = (x.len : Int) - (((x.prec : Int) + 18) / 19) := by unfold Gen.Facts.wrapI64; omega
      have w0 : Gen.Facts.wrapI64 0 = 0 := by decide
      cases hn : x.neg <;> simp [hn, hf] at hbn <;> simp [hft, hf, hn0, hl, hnw, w0, w1, w2, hbn, hn]
  · cases hn : x.neg <;> simp [hn] at hbn <;> simp [hft, hf, hbn, hn]

end Decimal.GenGob
