/-
  Refinement of `round` / `setExpAndRound` / `dnormAndRound`: the word-level model
  (`DecimalModel/L0Decimal.lean`, `Decimal.W`) computes, through `abs`, exactly the L1 functions
  of `DecimalModel/Round.lean`, and never takes an index-panic branch.
-/
import Proofs.RefineLemmas
import Mathlib.Tactic.IntervalCases

set_option linter.unusedVariables false
namespace Decimal.W
open Decimal Decimal.L0 Decimal.Gen

/-! ### the two `round`s split into head and tail (definitional) -/

/-- the part of `W.round` after the truncation to `n` words. -/
def roundTail (z : WDec) (n rdigit sbit : Nat) : Except String WDec :=
  let ntz := n * c_DW - z.prec
  let lsd := pow10w ntz
  if rdigit != 0 || sbit != 0 then
    let inc := incDecision z.mode z.neg rdigit sbit (digit z.mant ntz)
    let z := { z with acc := makeAcc (inc != z.neg) }
    if inc then
      let (mant, c) := add10VW z.mant lsd
      let z := { z with mant := mant }
      if c != 0 then
        if z.exp ≥ MaxExp then .ok { z with form := .inf }
        else if n = 0 ∨ n - 1 ≥ z.mant.length then .error "index out of range"
        else clearLow { z with exp := z.exp + 1, mant := z.mant.set (n - 1) (c_DB / 10) } lsd
      else clearLow z lsd
    else clearLow z lsd
  else clearLow z lsd

theorem round_unfold (z : WDec) (sbit : Nat) :
    W.round z sbit =
      (let z := { z with acc := Exact }
       if z.form != .finite then .ok z else
       if z.mant.length * 19 ≤ z.prec then .ok z else
       let r := z.mant.length * 19 - z.prec - 1
       let rdigit := digit z.mant r
       let sb := (if sbit == 0 && (rdigit == 0 || z.mode == .ToNearestEven) then sticky z.mant r
                  else sbit) % 2
       let n := (z.prec + 18) / 19
       roundTail (if z.mant.length > n then { z with mant := z.mant.drop (z.mant.length - n) } else z)
         n rdigit sb) := rfl

/-- the part of `Decimal.round` after the truncation: `M1` is the truncated mantissa. -/
def roundTail1 (z : Dec) (n rdigit : Nat) (sbit : Bool) (M1 : Nat) : Dec :=
  let ntz := n * DW - z.prec
  let lsd := 10 ^ ntz
  if rdigit != 0 || sbit then
    let inc := roundInc z.mode z.neg rdigit sbit (digitAt M1 ntz % 2 == 1)
    let acc := makeAcc (inc != z.neg)
    if inc then
      let s := M1 + lsd
      if s / B ^ n != 0 then
        if z.exp ≥ MaxExp then
          { z with form := .inf, acc := acc, mant := s % B ^ n, len := n }
        else
          let M2 := (s % B ^ n) % B ^ (n - 1) + (B / 10) * B ^ (n - 1)
          { z with exp := z.exp + 1, acc := acc, mant := M2 - M2 % lsd, len := n }
      else
        { z with acc := acc, mant := s - s % lsd, len := n }
    else
      { z with acc := acc, mant := M1 - M1 % lsd, len := n }
  else
    { z with mant := M1 - M1 % lsd, len := n }

theorem round1_unfold (z : Dec) (sbit : Bool) :
    Decimal.round z sbit =
      (let z := { z with acc := Exact }
       if z.form != .finite then z else
       if z.len * 19 ≤ z.prec then z else
       let r := z.len * 19 - z.prec - 1
       let rdigit := digitAt z.mant r
       let sb := if !sbit && (rdigit == 0 || z.mode == .ToNearestEven) then stickyBelow z.mant r else sbit
       let n := (z.prec + 18) / 19
       roundTail1 z n rdigit sb (if z.len > n then z.mant / B ^ (z.len - n) else z.mant)) := rfl

/-! ### the pieces -/

theorem incDecision_eq (mode : Mode) (neg : Bool) (rdigit sb l : Nat) :
    incDecision mode neg rdigit sb l = roundInc mode neg rdigit (sb != 0) (l % 2 == 1) := by
  have h2 : (l % 2 != 0) = (l % 2 == 1) := by
    have : l % 2 = 0 ∨ l % 2 = 1 := by omega
    rcases this with h | h <;> simp [h]
  cases mode <;> simp only [incDecision, roundInc, h2]

/-- the sticky-bit preprocessing. -/
theorem sbit_eq (sbit rdigit : Nat) (mode : Mode) (st : Nat) (sB : Bool)
    (hs : sbit ≤ 1) (hst : st = if sB then 1 else 0) :
    (if sbit == 0 && (rdigit == 0 || mode == .ToNearestEven) then st else sbit) % 2 ≤ 1 ∧
    (((if sbit == 0 && (rdigit == 0 || mode == .ToNearestEven) then st else sbit) % 2 != 0)
      = if !(sbit != 0) && (rdigit == 0 || mode == .ToNearestEven) then sB else (sbit != 0)) := by
  subst hst
  refine ⟨by omega, ?_⟩
  interval_cases sbit <;> cases (rdigit == 0 || mode == .ToNearestEven) <;> cases sB <;> rfl

/-- result of an `add10VW` on `n` words: value mod `B^n` and the carry. -/
theorem add10VW_mod (x : List Nat) (y n : Nat) (hx : L0.WF x) (hy : y < 10000000000000000000)
    (hn : x.length = n) :
    natOf (add10VW x y).1 = (natOf x + y) % B ^ n ∧ (add10VW x y).2 = (natOf x + y) / B ^ n
      ∧ L0.WF (add10VW x y).1 ∧ (add10VW x y).1.length = n := by
  obtain ⟨h1, h2, h3, h4, h5⟩ := add10VW_spec x y hx hy
  have hlt := natOf_lt h2
  rw [h3, hn] at hlt
  rw [hn] at h1
  have hP := Bpow_pos n
  refine ⟨?_, ?_, h2, by rw [h3, hn]⟩
  · rw [← h1, Nat.add_mul_mod_self_right, Nat.mod_eq_of_lt hlt]
  · rw [← h1, Nat.add_mul_div_right _ _ hP, Nat.div_eq_of_lt hlt, Nat.zero_add]

theorem lsd_lt (k : Nat) (hk : k ≤ 18) : 10 ^ k < 10000000000000000000 := by
  have : 10 ^ k ≤ 10 ^ 18 := Nat.pow_le_pow_right (by omega) hk
  omega

/-! ### the tail -/

theorem roundTail_spec (z : WDec) (n rdigit sb : Nat) (hwf : L0.WF z.mant) (hlen : z.mant.length = n)
    (hn : 1 ≤ n) (hp : n * 19 - z.prec ≤ 18) :
    ∃ w', roundTail z n rdigit sb = .ok w'
      ∧ abs w' = roundTail1 (abs z) n rdigit (sb != 0) (natOf z.mant)
      ∧ L0.WF w'.mant ∧ w'.mant.length = n := by
  obtain ⟨form, neg, mant, exp, prec, mode, acc⟩ := z
  simp only at hwf hlen hp
  have hne : mant ≠ [] := by intro h; rw [h] at hlen; simp at hlen; omega
  unfold roundTail roundTail1
  dsimp only [abs, cDW, DW_eq]
  have hlsd : pow10w (n * 19 - prec) = 10 ^ (n * 19 - prec) := pow10w_eq _ (by omega)
  rw [hlsd]
  have hdvd : 10 ^ (n * 19 - prec) ∣ B := pow_dvd_B _ (by omega)
  have hlt := lsd_lt (n * 19 - prec) hp
  simp only [incDecision_eq, digit_spec mant hwf]
  generalize 10 ^ (n * 19 - prec) = lsd at *
  by_cases hc : (rdigit != 0 || sb != 0) = true
  · rw [if_pos hc, if_pos hc]
    generalize roundInc mode neg rdigit (sb != 0) (digitAt (natOf mant) (n * 19 - prec) % 2 == 1) = inc
    cases inc
    · -- no increment
      simp only [Bool.false_eq_true, if_false]
      obtain ⟨m', e1, e2, e3, e4⟩ := clearLow_spec
        ⟨form, neg, mant, exp, prec, mode, makeAcc (false != neg)⟩ lsd hne hwf hdvd
      refine ⟨_, e1, ?_, e4, by rw [e3]; exact hlen⟩
      simp only [e2, e3, hlen]
    · simp only [if_true]
      obtain ⟨a1, a2, a3, a4⟩ := add10VW_mod mant lsd n hwf hlt hlen
      rw [show add10VW mant lsd = ((add10VW mant lsd).1, (add10VW mant lsd).2) from rfl]
      simp only [a2]
      generalize (add10VW mant lsd).1 = x2 at a1 a3 a4
      by_cases hov : ((natOf mant + lsd) / B ^ n != 0) = true
      · rw [if_pos hov, if_pos hov]
        by_cases hmax : exp ≥ MaxExp
        · simp only [hmax, ↓reduceIte]
          exact ⟨_, rfl, by simp only [a1, a4], a3, a4⟩
        · simp only [hmax, ↓reduceIte]
          rw [if_neg (by omega)]
          have hB10 : c_DB / 10 < 10000000000000000000 := by decide
          have hset := natOf_set_top x2 a3 n (B / 10) a4 hn
          have hne2 : x2.set (n - 1) (c_DB / 10) ≠ [] := by
            intro h
            have := congrArg List.length h
            rw [List.length_set, a4] at this; simp at this; omega
          obtain ⟨m', e1, e2, e3, e4⟩ := clearLow_spec
            ⟨form, neg, x2.set (n - 1) (c_DB / 10), exp + 1, prec, mode, makeAcc (true != neg)⟩ lsd hne2
            (WF_set a3 _ _ hB10) hdvd
          refine ⟨_, e1, ?_, e4, by rw [e3, List.length_set]; exact a4⟩
          simp only [List.length_set] at e3
          simp only [e2, e3, a4, cDB, hset, a1]
      · rw [if_neg hov, if_neg hov]
        have hne2 : x2 ≠ [] := by intro h; rw [h] at a4; simp at a4; omega
        obtain ⟨m', e1, e2, e3, e4⟩ := clearLow_spec
          ⟨form, neg, x2, exp, prec, mode, makeAcc (true != neg)⟩ lsd hne2 a3 hdvd
        refine ⟨_, e1, ?_, e4, by rw [e3]; exact a4⟩
        have hz : (natOf mant + lsd) / B ^ n = 0 := by
          by_contra h; exact hov (bne_iff_ne.mpr h)
        have hs : (natOf mant + lsd) % B ^ n = natOf mant + lsd := by
          have := Nat.div_add_mod (natOf mant + lsd) (B ^ n)
          rw [hz, Nat.mul_zero, Nat.zero_add] at this
          exact this
        simp only [e2, e3, a4, a1, hs]
  · rw [if_neg hc, if_neg hc]
    obtain ⟨m', e1, e2, e3, e4⟩ := clearLow_spec
      ⟨form, neg, mant, exp, prec, mode, acc⟩ lsd hne hwf hdvd
    refine ⟨_, e1, ?_, e4, by rw [e3]; exact hlen⟩
    simp only [e2, e3, hlen]

/-! ### round -/

/-- what `round` needs of a finite receiver: words below `B`, and a non-zero precision unless
    the mantissa fits anyway (this is `roundGuard` of the L1 model). -/
def RoundPre (w : WDec) : Prop :=
  w.form = .finite → L0.WF w.mant ∧ (1 ≤ w.prec ∨ w.mant.length * 19 ≤ w.prec)

theorem round_refines (w : WDec) (sbit : Nat) (hs : sbit ≤ 1) (hw : RoundPre w) :
    ∃ w', W.round w sbit = .ok w' ∧ abs w' = Decimal.round (abs w) (sbit != 0)
      ∧ (L0.WF w.mant → L0.WF w'.mant) ∧ w'.mant.length ≤ w.mant.length := by
  obtain ⟨form, neg, mant, exp, prec, mode, acc⟩ := w
  rw [round_unfold, round1_unfold]
  dsimp only [abs]
  by_cases hf : (form != Form.finite) = true
  · rw [if_pos hf, if_pos hf]
    exact ⟨_, rfl, rfl, fun h => h, Nat.le_refl _⟩
  · rw [if_neg hf, if_neg hf]
    have hfin : form = .finite := by simpa using hf
    obtain ⟨hwf, hp⟩ := hw hfin
    simp only at hwf hp
    by_cases hfit : mant.length * 19 ≤ prec
    · rw [if_pos hfit, if_pos hfit]
      exact ⟨_, rfl, rfl, fun h => h, Nat.le_refl _⟩
    · rw [if_neg hfit, if_neg hfit]
      have hp1 : 1 ≤ prec := by omega
      have hn1 : 1 ≤ (prec + 18) / 19 := by omega
      have hnm : (prec + 18) / 19 ≤ mant.length := by omega
      have hr : (mant.length * 19 - prec - 1) / 19 < mant.length := by omega
      rw [digit_spec mant hwf]
      obtain ⟨hsb1, hsb2⟩ := sbit_eq sbit (digitAt (natOf mant) (mant.length * 19 - prec - 1)) mode
        (sticky mant (mant.length * 19 - prec - 1))
        (stickyBelow (natOf mant) (mant.length * 19 - prec - 1)) hs
        (sticky_spec mant hwf _ hr)
      rw [← hsb2]
      generalize (if sbit == 0 && (digitAt (natOf mant) (mant.length * 19 - prec - 1) == 0
        || mode == .ToNearestEven) then sticky mant (mant.length * 19 - prec - 1) else sbit) % 2 = sb at *
      generalize digitAt (natOf mant) (mant.length * 19 - prec - 1) = rdigit
      generalize hn : (prec + 18) / 19 = n at *
      by_cases hgt : mant.length > n
      · simp only [if_pos hgt]
        have hlen : (mant.drop (mant.length - n)).length = n := by rw [List.length_drop]; omega
        obtain ⟨w', e1, e2, e3, e4⟩ := roundTail_spec
          ⟨form, neg, mant.drop (mant.length - n), exp, prec, mode, Exact⟩ n rdigit sb
          (WF_drop hwf _) hlen hn1 (by simp only; omega)
        refine ⟨w', e1, ?_, fun _ => e3, by omega⟩
        show abs w' = _
        rw [e2]
        dsimp only [abs]
        rw [natOf_drop mant _ hwf (by omega)]
        rfl
      · simp only [if_neg hgt]
        have hlen : mant.length = n := by omega
        obtain ⟨w', e1, e2, e3, e4⟩ := roundTail_spec
          ⟨form, neg, mant, exp, prec, mode, Exact⟩ n rdigit sb hwf hlen hn1 (by simp only; omega)
        exact ⟨w', e1, e2, fun _ => e3, by omega⟩

/-- `round` never raises "index out of range" under its precondition. -/
theorem round_no_error (w : WDec) (sbit : Nat) (hs : sbit ≤ 1) (hw : RoundPre w) (e : String) :
    W.round w sbit ≠ .error e := by
  obtain ⟨w', h, _⟩ := round_refines w sbit hs hw
  rw [h]; intro h'; cases h'

/-! ### setExpAndRound -/

theorem setExpAndRound_refines (w : WDec) (exp : Int) (sbit : Nat) (hs : sbit ≤ 1)
    (hwf : L0.WF w.mant) (hp : 1 ≤ w.prec ∨ w.mant.length * 19 ≤ w.prec) :
    ∃ w', W.setExpAndRound w exp sbit = .ok w'
      ∧ abs w' = Decimal.setExpAndRound (abs w) exp (sbit != 0)
      ∧ L0.WF w'.mant ∧ w'.mant.length ≤ w.mant.length := by
  unfold W.setExpAndRound Decimal.setExpAndRound
  by_cases h1 : exp < MinExp
  · rw [if_pos h1, if_pos h1]; exact ⟨_, rfl, rfl, hwf, Nat.le_refl _⟩
  · rw [if_neg h1, if_neg h1]
    by_cases h2 : exp > MaxExp
    · rw [if_pos h2, if_pos h2]; exact ⟨_, rfl, rfl, hwf, Nat.le_refl _⟩
    · rw [if_neg h2, if_neg h2]
      obtain ⟨w', e1, e2, e3, e4⟩ := round_refines { w with form := .finite, exp := exp } sbit hs
        (fun _ => ⟨hwf, hp⟩)
      exact ⟨w', e1, e2, e3 hwf, e4⟩

/-! ### dnorm, then setExpAndRound: the common tail of uadd / usub / umul / uquo -/

/-- `z.mant` holds a normalised non-empty word vector of value `M`; then the word-level tail
    `z.setExpAndRound(e - dnorm(z.mant), sbit)` is the L1 `setNormAndRound z M (e − 19·len) sbit`. -/
theorem dnormAndRound_refines (w : WDec) (e : Int) (sbit : Nat) (hs : sbit ≤ 1)
    (hwf : L0.WF w.mant) (hn : Normalized w.mant) (hne : w.mant ≠ []) (hp : 1 ≤ w.prec) :
    ∃ w', W.dnormAndRound w e sbit = .ok w'
      ∧ abs w' = Decimal.setNormAndRound (abs w) (natOf w.mant)
          (e - ((w.mant.length * 19 : Nat) : Int)) (sbit != 0)
      ∧ L0.WF w'.mant := by
  obtain ⟨m', d1, d2, d3, d4⟩ := dnorm_spec w.mant hwf hn hne
  unfold W.dnormAndRound
  rw [d1]
  simp only
  obtain ⟨w', e1, e2, e3, e4⟩ := setExpAndRound_refines { w with mant := m' }
    (e - ((dnormShift (natOf w.mant) (nwords (natOf w.mant)) : Nat) : Int)) sbit hs d4 (Or.inl hp)
  refine ⟨w', e1, ?_, e3⟩
  rw [e2]
  unfold Decimal.setNormAndRound
  have hlen := length_eq_nwords w.mant hwf hn
  simp only [abs, d2, d3, ← hlen, DW_eq]
  congr 1
  omega

end Decimal.W
