/-
  Refinement of the public methods `Set`, `SetPrec`, `Add`, `Sub`, `Mul`, `Quo` (word level,
  `Decimal.W`, operands distinct from the receiver) to the L1 model, for all nine combinations of
  operand classes, and the bridge to the L1 notions `FinCanon` / `Dec.Canonical`.

  The finite results of `Add`/`Sub` are equal through `abs`; on an exact cancellation Go also
  empties the mantissa slice, which L1 does not record, so those two are stated up to `obsEq`
  (everything the API can observe: class, sign, precision, mode, accuracy and, for a finite value,
  mantissa, length and exponent).
-/
import Proofs.RefineArith
import Proofs.CanonInv
import Proofs.Canonical
import Proofs.Special

set_option linter.unusedVariables false
namespace Decimal.W
open Decimal Decimal.L0 Decimal.Gen

/-- A canonical word-level operand: if finite, a non-empty mantissa of words below `B` whose top
    digit is non-zero, a non-zero precision, an exponent in range. -/
def WCanon (x : WDec) : Prop :=
  x.form = .finite → Opnd x ∧ 1 ≤ x.prec ∧ MinExp ≤ x.exp ∧ x.exp ≤ MaxExp

theorem WCanon.finCanon {x : WDec} (h : WCanon x) (hf : x.form = .finite) : FinCanon (abs x) := by
  obtain ⟨ho, hp, h1, h2⟩ := h hf
  exact ⟨hf, ho.len_pos, ho.nd, hp, h1, h2⟩

/-- from the L1 invariant and the word bound. -/
theorem WCanon_of_canonical (w : WDec) (hwf : w.form = .finite → L0.WF w.mant)
    (hc : (abs w).Canonical) : WCanon w := by
  intro hf
  obtain ⟨a, b, c, d, e, -⟩ := hc.2.2 hf
  refine ⟨⟨hwf hf, ?_, ?_⟩, e, c, d⟩
  · intro h
    have : (abs w).len = 0 := by simp [abs, h]
    omega
  · simpa [abs, DW_eq] using b

theorem abs_prologue2 (z x y : WDec) :
    abs (prologue2 z x y)
      = (if (abs z).prec == 0 then { abs z with prec := umax (abs x).prec (abs y).prec } else abs z) := by
  unfold prologue2
  have e : (abs z).prec = z.prec := rfl
  rw [e]
  by_cases h : (z.prec == 0) = true
  · rw [if_pos h, if_pos h]; rfl
  · rw [if_neg h, if_neg h]

theorem abs_zeroSignFix (w : WDec) : abs (W.zeroSignFix w) = Decimal.zeroSignFix (abs w) := by
  unfold W.zeroSignFix Decimal.zeroSignFix
  have e1 : (abs w).form = w.form := rfl
  have e2 : (abs w).mode = w.mode := rfl
  have e3 : (abs w).acc = w.acc := rfl
  rw [e1, e2, e3]
  by_cases h : (w.form == .zero && w.mode == .ToNegativeInf && w.acc == Exact) = true
  · rw [if_pos h, if_pos h]; rfl
  · rw [if_neg h, if_neg h]

theorem zeroSignFix_mant (w : WDec) : (W.zeroSignFix w).mant = w.mant := by
  unfold W.zeroSignFix; split <;> rfl

theorem zeroSignFix_form (w : WDec) : (W.zeroSignFix w).form = w.form := by
  unfold W.zeroSignFix; split <;> rfl

theorem prologue2_prec_pos (z x y : WDec) (h : 1 ≤ x.prec ∨ 1 ≤ y.prec) (hz : z.prec = 0 ∨ 1 ≤ z.prec) :
    1 ≤ (prologue2 z x y).prec := by
  unfold prologue2 umax32
  by_cases h0 : (z.prec == 0) = true
  · rw [if_pos h0]; dsimp only; split <;> omega
  · rw [if_neg h0]
    have : z.prec ≠ 0 := by simpa using h0
    omega

theorem prologue2_fields (z x y : WDec) :
    (prologue2 z x y).form = z.form ∧ (prologue2 z x y).mant = z.mant ∧ (prologue2 z x y).mode = z.mode := by
  unfold prologue2; split <;> exact ⟨rfl, rfl, rfl⟩

/-! ### Set, SetPrec -/

/-- a rounded result that is finite came from a finite receiver, so its words are in range. -/
theorem round_result_wf (Z w' : WDec) (sb : Bool) (e2 : abs w' = Decimal.round (abs Z) sb)
    (e3 : L0.WF Z.mant → L0.WF w'.mant) (hZw : Z.form = .finite → L0.WF Z.mant) :
    w'.form = .finite → L0.WF w'.mant := by
  intro hf
  by_cases hZf : Z.form = .finite
  · exact e3 (hZw hZf)
  · exfalso
    have hne : (abs Z).form ≠ .finite := hZf
    have : (abs w').form = .finite := hf
    rw [e2, round_nonfinite _ _ hne] at this
    exact hZf this

theorem set_refines (z x : WDec) (same : Bool) (hz : z.form = .finite → L0.WF z.mant)
    (hx : x.form = .finite → L0.WF x.mant) :
    ∃ w', W.set z x same = .ok w' ∧ abs w' = Decimal.set (abs z) (abs x) same
      ∧ (w'.form = .finite → L0.WF w'.mant) := by
  unfold W.set Decimal.set
  dsimp only
  cases same
  · simp only [Bool.false_eq_true, if_false]
    -- the receiver after the copy
    have hcopy : ∃ Z : WDec,
        (if (x.form == .finite) = true then
            ({ form := x.form, neg := x.neg, mant := x.mant, exp := x.exp, prec := z.prec, mode := z.mode,
               acc := Exact } : WDec)
         else { form := x.form, neg := x.neg, mant := z.mant, exp := z.exp, prec := z.prec, mode := z.mode,
                acc := Exact }) = Z
        ∧ abs Z = (if ((abs x).form == .finite) = true then
            ({ form := (abs x).form, neg := (abs x).neg, mant := (abs x).mant, len := (abs x).len,
               exp := (abs x).exp, prec := (abs z).prec, mode := (abs z).mode, acc := Exact } : Dec)
          else { form := (abs x).form, neg := (abs x).neg, mant := (abs z).mant, len := (abs z).len,
                 exp := (abs z).exp, prec := (abs z).prec, mode := (abs z).mode, acc := Exact })
        ∧ (Z.form = .finite → L0.WF Z.mant) ∧ Z.prec = z.prec := by
      have ex : (abs x).form = x.form := rfl
      rw [ex]
      by_cases hf : (x.form == .finite) = true
      · rw [if_pos hf, if_pos hf]
        exact ⟨_, rfl, rfl, fun _ => hx (by simpa using hf), rfl⟩
      · rw [if_neg hf, if_neg hf]
        exact ⟨_, rfl, rfl, fun h => absurd (by simpa using h) hf, rfl⟩
    obtain ⟨Z, hZ, hZa, hZw, hZp⟩ := hcopy
    rw [hZ]
    have hL : (if ((abs x).form == .finite) = true then
            ({ form := (abs x).form, neg := (abs x).neg, mant := (abs x).mant, len := (abs x).len,
               exp := (abs x).exp, prec := (abs z).prec, mode := (abs z).mode, acc := Exact } : Dec)
          else { form := (abs x).form, neg := (abs x).neg, mant := (abs z).mant, len := (abs z).len,
                 exp := (abs z).exp, prec := (abs z).prec, mode := (abs z).mode, acc := Exact }) = abs Z := hZa.symm
    rw [hL]
    have hp : (abs Z).prec = Z.prec := rfl
    have hxp : (abs x).prec = x.prec := rfl
    rw [hp, hxp]
    by_cases h0 : (Z.prec == 0) = true
    · rw [if_pos h0, if_pos h0]
      exact ⟨_, rfl, rfl, hZw⟩
    · rw [if_neg h0, if_neg h0]
      by_cases hlt : Z.prec < x.prec
      · rw [if_pos hlt, if_pos hlt]
        have hp1 : 1 ≤ Z.prec := by
          have : Z.prec ≠ 0 := by simpa using h0
          omega
        obtain ⟨w', e1, e2, e3, e4⟩ := round_refines Z 0 (by omega) (fun h => ⟨hZw h, Or.inl hp1⟩)
        exact ⟨w', e1, e2, round_result_wf Z w' _ e2 e3 hZw⟩
      · rw [if_neg hlt, if_neg hlt]
        exact ⟨_, rfl, rfl, hZw⟩
  · simp only [if_true]
    exact ⟨_, rfl, rfl, hz⟩

theorem setPrec_refines (z : WDec) (prec : Nat) (hz : z.form = .finite → L0.WF z.mant) :
    ∃ w', W.setPrec z prec = .ok w' ∧ abs w' = Decimal.setPrec (abs z) prec
      ∧ (w'.form = .finite → L0.WF w'.mant) := by
  unfold W.setPrec Decimal.setPrec
  dsimp only
  have ef : (abs z).form = z.form := rfl
  have ep : (abs z).prec = z.prec := rfl
  rw [ef, ep]
  by_cases h0 : (prec == 0) = true
  · rw [if_pos h0, if_pos h0]
    by_cases hf : (z.form == .finite) = true
    · rw [if_pos hf, if_pos hf]
      exact ⟨_, rfl, rfl, fun h => by cases h⟩
    · rw [if_neg hf, if_neg hf]
      exact ⟨_, rfl, rfl, hz⟩
  · rw [if_neg h0, if_neg h0]
    have hp0 : prec ≠ 0 := by simpa using h0
    have hp1 : 1 ≤ (if prec > MaxPrec then MaxPrec else prec) := by
      split
      · decide
      · omega
    generalize (if prec > MaxPrec then MaxPrec else prec) = p at hp1
    by_cases hlt : p < z.prec
    · rw [if_pos hlt, if_pos hlt]
      obtain ⟨Zp, hZp⟩ : ∃ Zp : WDec, Zp = { z with acc := Exact, prec := p } := ⟨_, rfl⟩
      have hZw : Zp.form = .finite → L0.WF Zp.mant := by rw [hZp]; exact hz
      obtain ⟨w', e1, e2, e3, e4⟩ := round_refines Zp 0 (by omega)
        (fun h => ⟨hZw h, Or.inl (by rw [hZp]; exact hp1)⟩)
      rw [hZp] at e1
      refine ⟨w', e1, ?_, round_result_wf Zp w' _ e2 e3 hZw⟩
      rw [e2, hZp]
      rfl
    · rw [if_neg hlt, if_neg hlt]
      exact ⟨_, rfl, rfl, hz⟩

/-! ### the finite–finite core of Add / Sub -/

theorem obsEq_zero_variant {a b : Dec} (h : a = { b with mant := 0, len := 0 }) (hz : a.form = .zero) :
    obsEq a b := by
  subst h
  exact ⟨rfl, rfl, rfl, rfl, rfl, fun hf => by simp only at hf hz; rw [hz] at hf; cases hf⟩

/-- `usub` up to `obsEq`. -/
theorem usub_obs (z x y : WDec) (hx : Opnd x) (hy : Opnd y) (hp : 1 ≤ z.prec)
    (hg : usubGuard (abs x) (abs y) = true) :
    ∃ w', W.usub z x y = .ok w' ∧ L0.WF w'.mant ∧ obsEq (abs w') (Decimal.usub (abs z) (abs x) (abs y)) := by
  obtain ⟨w', e1, e2, e3⟩ := usub_refines z x y hx hy hp hg
  refine ⟨w', e1, e2, ?_⟩
  rcases e3 with h | ⟨-, hf, -, h⟩
  · exact obsEq.of_eq h
  · exact obsEq_zero_variant h hf

/-- the `if x.neg == yneg { uadd } else if ucmp > 0 { usub } else { neg = !neg; usub(y,x) }` block
    (`addSide = true` for Add, `false` for Sub where the test is `x.neg != yneg`). -/
theorem addsub_core (Z x y : WDec) (c : Bool) (hx : WCanon x) (hy : WCanon y)
    (hfx : x.form = .finite) (hfy : y.form = .finite) (hp : 1 ≤ Z.prec) :
    ∃ w', (if c = true then W.uadd Z x y
           else if W.ucmp x y > 0 then W.usub Z x y
           else W.usub { Z with neg := !Z.neg } y x) = .ok w'
      ∧ L0.WF w'.mant
      ∧ obsEq (abs w') (if c = true then Decimal.uadd (abs Z) (abs x) (abs y)
           else if Decimal.ucmp (abs x) (abs y) > 0 then Decimal.usub (abs Z) (abs x) (abs y)
           else Decimal.usub { abs Z with neg := !(abs Z).neg } (abs y) (abs x)) := by
  obtain ⟨ox, -⟩ := hx hfx
  obtain ⟨oy, -⟩ := hy hfy
  have cx := hx.finCanon hfx
  have cy := hy.finCanon hfy
  by_cases hc : c = true
  · rw [if_pos hc, if_pos hc]
    obtain ⟨w', e1, e2, e3⟩ := uadd_refines Z x y ox oy hp
    exact ⟨w', e1, e3, obsEq.of_eq e2⟩
  · rw [if_neg hc, if_neg hc, ucmp_refines x y ox.wf oy.wf]
    by_cases hu : Decimal.ucmp (abs x) (abs y) > 0
    · rw [if_pos hu, if_pos hu]
      exact usub_obs Z x y ox oy hp (usubGuard_of_ucmp_pos cx cy hu)
    · rw [if_neg hu, if_neg hu]
      exact usub_obs { Z with neg := !Z.neg } y x oy ox hp (usubGuard_of_ucmp_not_pos cx cy hu)

/-! ### Add, Sub -/

theorem withOutcome_ok (r : Except String WDec) (o : Outcome) (w : WDec) (h : r = .ok w) :
    withOutcome r o = .ok (w, o) := by subst h; rfl

theorem add_refines (z x y : WDec) (hx : WCanon x) (hy : WCanon y)
    (hz : z.form = .finite → L0.WF z.mant) :
    ∃ w', W.add z x y = .ok (w', (Decimal.add (abs z) (abs x) (abs y)).2)
      ∧ obsEq (abs w') (Decimal.add (abs z) (abs x) (abs y)).1
      ∧ (w'.form = .finite → L0.WF w'.mant) := by
  unfold W.add Decimal.add
  simp only [opnd, Bool.false_eq_true, if_false]
  rw [← abs_prologue2]
  obtain ⟨hZf, hZm, hZmode⟩ := prologue2_fields z x y
  have hZw : (prologue2 z x y).form = .finite → L0.WF (prologue2 z x y).mant := by
    rw [hZf, hZm]; exact hz
  have hprec : x.form = .finite ∨ y.form = .finite → 1 ≤ (prologue2 z x y).prec := by
    intro h
    apply prologue2_prec_pos
    · rcases h with h | h
      · exact Or.inl (hx h).2.1
      · exact Or.inr (hy h).2.1
    · omega
  generalize prologue2 z x y = Z at *
  have ax : (abs x).form = x.form := rfl
  have ay : (abs y).form = y.form := rfl
  have nx : (abs x).neg = x.neg := rfl
  have ny : (abs y).neg = y.neg := rfl
  have mZ : (abs Z).mode = Z.mode := rfl
  rw [ax, ay, nx, ny, mZ]
  by_cases hff : (x.form == .finite && y.form == .finite) = true
  · simp only [hff, if_true]
    have hfx : x.form = .finite := by simp at hff; exact hff.1
    have hfy : y.form = .finite := by simp at hff; exact hff.2
    obtain ⟨w', e1, e2, e3⟩ := addsub_core { Z with neg := x.neg } x y (x.neg == y.neg) hx hy hfx hfy
      (hprec (Or.inl hfx))
    rw [e1]
    refine ⟨_, rfl, ?_, fun _ => by rw [zeroSignFix_mant]; exact e2⟩
    rw [abs_zeroSignFix]
    exact zeroSignFix_obs e3
  · simp only [hff, Bool.false_eq_true, if_false]
    by_cases hii : (x.form == .inf && y.form == .inf && x.neg != y.neg) = true
    · simp only [hii, if_true]
      exact ⟨_, rfl, obsEq.refl _, fun h => by cases h⟩
    · simp only [hii, Bool.false_eq_true, if_false]
      by_cases hzz : (x.form == .zero && y.form == .zero) = true
      · simp only [hzz, if_true]
        exact ⟨_, rfl, obsEq.refl _, fun h => by cases h⟩
      · simp only [hzz, Bool.false_eq_true, if_false]
        by_cases hxi : (x.form == .inf || y.form == .zero) = true
        · simp only [hxi, if_true]
          obtain ⟨w', e1, e2, e3⟩ := set_refines Z x false hZw (fun h => (hx h).1.wf)
          exact ⟨w', withOutcome_ok _ _ _ e1, obsEq.of_eq e2, e3⟩
        · simp only [hxi, Bool.false_eq_true, if_false]
          obtain ⟨w', e1, e2, e3⟩ := set_refines Z y false hZw (fun h => (hy h).1.wf)
          exact ⟨w', withOutcome_ok _ _ _ e1, obsEq.of_eq e2, e3⟩

theorem sub_refines (z x y : WDec) (hx : WCanon x) (hy : WCanon y)
    (hz : z.form = .finite → L0.WF z.mant) :
    ∃ w', W.sub z x y = .ok (w', (Decimal.sub (abs z) (abs x) (abs y)).2)
      ∧ obsEq (abs w') (Decimal.sub (abs z) (abs x) (abs y)).1
      ∧ (w'.form = .finite → L0.WF w'.mant) := by
  unfold W.sub Decimal.sub
  simp only [opnd, Bool.false_eq_true, if_false]
  rw [← abs_prologue2]
  obtain ⟨hZf, hZm, hZmode⟩ := prologue2_fields z x y
  have hZw : (prologue2 z x y).form = .finite → L0.WF (prologue2 z x y).mant := by
    rw [hZf, hZm]; exact hz
  have hprec : x.form = .finite ∨ y.form = .finite → 1 ≤ (prologue2 z x y).prec := by
    intro h
    apply prologue2_prec_pos
    · rcases h with h | h
      · exact Or.inl (hx h).2.1
      · exact Or.inr (hy h).2.1
    · omega
  generalize prologue2 z x y = Z at *
  have ax : (abs x).form = x.form := rfl
  have ay : (abs y).form = y.form := rfl
  have nx : (abs x).neg = x.neg := rfl
  have ny : (abs y).neg = y.neg := rfl
  have mZ : (abs Z).mode = Z.mode := rfl
  rw [ax, ay, nx, ny, mZ]
  by_cases hff : (x.form == .finite && y.form == .finite) = true
  · simp only [hff, if_true]
    have hfx : x.form = .finite := by simp at hff; exact hff.1
    have hfy : y.form = .finite := by simp at hff; exact hff.2
    obtain ⟨w', e1, e2, e3⟩ := addsub_core { Z with neg := x.neg } x y (x.neg != y.neg) hx hy hfx hfy
      (hprec (Or.inl hfx))
    rw [e1]
    refine ⟨_, rfl, ?_, fun _ => by rw [zeroSignFix_mant]; exact e2⟩
    rw [abs_zeroSignFix]
    exact zeroSignFix_obs e3
  · simp only [hff, Bool.false_eq_true, if_false]
    by_cases hii : (x.form == .inf && y.form == .inf && x.neg == y.neg) = true
    · simp only [hii, if_true]
      exact ⟨_, rfl, obsEq.refl _, fun h => by cases h⟩
    · simp only [hii, Bool.false_eq_true, if_false]
      by_cases hzz : (x.form == .zero && y.form == .zero) = true
      · simp only [hzz, if_true]
        exact ⟨_, rfl, obsEq.refl _, fun h => by cases h⟩
      · simp only [hzz, Bool.false_eq_true, if_false]
        by_cases hxi : (x.form == .inf || y.form == .zero) = true
        · simp only [hxi, if_true]
          obtain ⟨w', e1, e2, e3⟩ := set_refines Z x false hZw (fun h => (hx h).1.wf)
          exact ⟨w', withOutcome_ok _ _ _ e1, obsEq.of_eq e2, e3⟩
        · simp only [hxi, Bool.false_eq_true, if_false]
          -- ±0 − y, x − ±Inf: copy y, flip the sign, round
          have hcopy : ∃ Y : WDec,
              ({ (if (y.form == .finite) = true then
                  ({ form := y.form, neg := Z.neg, mant := y.mant, exp := y.exp, prec := Z.prec, mode := Z.mode,
                     acc := Exact } : WDec)
                 else { form := y.form, neg := Z.neg, mant := Z.mant, exp := Z.exp, prec := Z.prec,
                        mode := Z.mode, acc := Exact }) with neg := !y.neg } : WDec) = Y
              ∧ abs Y = ({ (if ((abs y).form == .finite) = true then
                  ({ form := (abs y).form, neg := (abs Z).neg, mant := (abs y).mant, len := (abs y).len,
                     exp := (abs y).exp, prec := (abs Z).prec, mode := (abs Z).mode, acc := Exact } : Dec)
                 else { form := (abs y).form, neg := (abs Z).neg, mant := (abs Z).mant, len := (abs Z).len,
                        exp := (abs Z).exp, prec := (abs Z).prec, mode := (abs Z).mode, acc := Exact })
                 with neg := !(abs y).neg } : Dec)
              ∧ (Y.form = .finite → L0.WF Y.mant ∧ 1 ≤ Y.prec) := by
            rw [ay]
            by_cases hf : (y.form == .finite) = true
            · have hfy : y.form = .finite := by simpa using hf
              rw [if_pos hf, if_pos hf]
              exact ⟨_, rfl, rfl, fun _ => ⟨(hy hfy).1.wf, hprec (Or.inr hfy)⟩⟩
            · rw [if_neg hf, if_neg hf]
              exact ⟨_, rfl, rfl, fun h => absurd (by simpa using h) hf⟩
          obtain ⟨Y, hY, hYa, hYw⟩ := hcopy
          rw [hY]
          obtain ⟨w', e1, e2, e3, e4⟩ := round_refines Y 0 (by omega)
            (fun h => ⟨(hYw h).1, Or.inl (hYw h).2⟩)
          refine ⟨w', withOutcome_ok _ _ _ e1, ?_, ?_⟩
          · apply obsEq.of_eq
            rw [e2, hYa]
            rfl
          · exact round_result_wf Y w' _ e2 e3 (fun h => (hYw h).1)

/-! ### Mul, Quo -/

theorem mul_refines (z x y : WDec) (xyEq : Bool) (t : Thr) (hk : 1 ≤ t.kmul) (hks : 1 ≤ t.ksqr)
    (hx : WCanon x) (hy : WCanon y) (hxy : xyEq = true → x = y) :
    ∃ w', W.mul z x y xyEq t = .ok (w', (Decimal.mul (abs z) (abs x) (abs y)).2)
      ∧ abs w' = (Decimal.mul (abs z) (abs x) (abs y)).1
      ∧ (w'.form = .finite → x.form = .finite ∧ y.form = .finite ∧ L0.WF w'.mant) := by
  unfold W.mul Decimal.mul
  simp only [opnd, Bool.false_eq_true, if_false]
  rw [← abs_prologue2]
  have hprec : x.form = .finite → 1 ≤ (prologue2 z x y).prec := by
    intro h
    exact prologue2_prec_pos z x y (Or.inl (hx h).2.1) (by omega)
  generalize prologue2 z x y = Z at *
  have ax : (abs x).form = x.form := rfl
  have ay : (abs y).form = y.form := rfl
  have nx : (abs x).neg = x.neg := rfl
  have ny : (abs y).neg = y.neg := rfl
  rw [ax, ay, nx, ny]
  by_cases hff : (x.form == .finite && y.form == .finite) = true
  · simp only [hff, if_true]
    have hfx : x.form = .finite := by simp at hff; exact hff.1
    have hfy : y.form = .finite := by simp at hff; exact hff.2
    obtain ⟨w', e1, e2, e3⟩ := umul_refines { Z with neg := x.neg != y.neg } x y xyEq t hk hks
      (hx hfx).1 (hy hfy).1 hxy (hprec hfx)
    exact ⟨w', withOutcome_ok _ _ _ e1, e2, fun _ => ⟨hfx, hfy, e3⟩⟩
  · simp only [hff, Bool.false_eq_true, if_false]
    by_cases hnan : ((x.form == .zero && y.form == .inf) || (x.form == .inf && y.form == .zero)) = true
    · simp only [hnan, if_true]
      exact ⟨_, rfl, rfl, fun h => by cases h⟩
    · simp only [hnan, Bool.false_eq_true, if_false]
      by_cases hinf : (x.form == .inf || y.form == .inf) = true
      · simp only [hinf, if_true]
        exact ⟨_, rfl, rfl, fun h => by cases h⟩
      · simp only [hinf, Bool.false_eq_true, if_false]
        exact ⟨_, rfl, rfl, fun h => by cases h⟩

theorem quo_refines (z x y : WDec) (t : Thr) (hk : 1 ≤ t.kmul) (hd : 4 ≤ t.drec)
    (hx : WCanon x) (hy : WCanon y) :
    ∃ w', W.quo z x y t = .ok (w', (Decimal.quo (abs z) (abs x) (abs y)).2)
      ∧ abs w' = (Decimal.quo (abs z) (abs x) (abs y)).1
      ∧ (w'.form = .finite → x.form = .finite ∧ y.form = .finite ∧ L0.WF w'.mant) := by
  unfold W.quo Decimal.quo
  simp only [opnd, Bool.false_eq_true, if_false]
  rw [← abs_prologue2]
  have hprec : x.form = .finite → 1 ≤ (prologue2 z x y).prec := by
    intro h
    exact prologue2_prec_pos z x y (Or.inl (hx h).2.1) (by omega)
  generalize prologue2 z x y = Z at *
  have ax : (abs x).form = x.form := rfl
  have ay : (abs y).form = y.form := rfl
  have nx : (abs x).neg = x.neg := rfl
  have ny : (abs y).neg = y.neg := rfl
  rw [ax, ay, nx, ny]
  by_cases hff : (x.form == .finite && y.form == .finite) = true
  · simp only [hff, if_true]
    have hfx : x.form = .finite := by simp at hff; exact hff.1
    have hfy : y.form = .finite := by simp at hff; exact hff.2
    obtain ⟨w', e1, e2, e3⟩ := uquo_refines { Z with neg := x.neg != y.neg } x y t hk hd
      (hx hfx).1 (hy hfy).1 (hprec hfx)
    exact ⟨w', withOutcome_ok _ _ _ e1, e2, fun _ => ⟨hfx, hfy, e3⟩⟩
  · simp only [hff, Bool.false_eq_true, if_false]
    by_cases hnan : ((x.form == .zero && y.form == .zero) || (x.form == .inf && y.form == .inf)) = true
    · simp only [hnan, if_true]
      exact ⟨_, rfl, rfl, fun h => by cases h⟩
    · simp only [hnan, Bool.false_eq_true, if_false]
      by_cases hzero : (x.form == .zero || y.form == .inf) = true
      · simp only [hzero, if_true]
        exact ⟨_, rfl, rfl, fun h => by cases h⟩
      · simp only [hzero, Bool.false_eq_true, if_false]
        exact ⟨_, rfl, rfl, fun h => by cases h⟩

end Decimal.W
