/-
  Pure arithmetic of the block-quotient estimate of the recursive division
  (Burnikel–Ziegler, "Fast Recursive Division", Lemma 2; the comment in `divRecursiveStep`:
  "floor(u1/v1) >= floor(u/v); moreover the difference is at most 2 if len(v1) >= len(u/v)").

  `v = vh·P + vl`, `u = uh·P + ul` with `P = β^s`, `vl, ul < P`.
-/
import Mathlib.Tactic.Ring
import Mathlib.Tactic.Linarith

namespace Decimal.L0

/-- Lemma 2, first half: the estimate from the high parts is not below the true quotient. -/
theorem bz_lower (P vh vl uh ul : Nat) (hul : ul < P) (hvh : 0 < vh) :
    (uh * P + ul) / (vh * P + vl) ≤ uh / vh := by
  have hP : 0 < P := by omega
  have hv : 0 < vh * P + vl := by
    have := Nat.mul_pos hvh hP; omega
  rw [Nat.le_div_iff_mul_le hvh]
  have h1 := Nat.div_mul_le_self (uh * P + ul) (vh * P + vl)
  generalize (uh * P + ul) / (vh * P + vl) = q at *
  -- q·vh·P ≤ q·v ≤ u < (uh+1)·P
  have h2 : q * vh * P ≤ q * (vh * P + vl) := by
    have : q * (vh * P + vl) = q * vh * P + q * vl := by ring
    omega
  have h3 : q * vh * P < (uh + 1) * P := by
    have : (uh + 1) * P = uh * P + P := by ring
    omega
  have h4 : q * vh < uh + 1 := Nat.lt_of_mul_lt_mul_right h3
  omega

/-- the same in the form used by the loop invariant: with `uh = q̂·vh + rh`, `rh < vh`, the dividend is
    below `(q̂+1)·v`. -/
theorem bz_lt (P vh vl uh ul qh rh : Nat) (hul : ul < P) (hdiv : uh = qh * vh + rh) (hrh : rh < vh) :
    uh * P + ul < (qh + 1) * (vh * P + vl) := by
  have h1 : (uh + 1) * P ≤ ((qh + 1) * vh) * P := by
    apply Nat.mul_le_mul_right
    have : (qh + 1) * vh = qh * vh + vh := by ring
    omega
  have h2 : (qh + 1) * (vh * P + vl) = ((qh + 1) * vh) * P + (qh + 1) * vl := by ring
  have h3 : (uh + 1) * P = uh * P + P := by ring
  omega

/-- Lemma 2, second half, in the form used by the algorithm: if the estimate `q̂ = k + 2` is at most
    `2·vh + 2`, then `q̂ - 2` is not above the true quotient: `(q̂-2)·v ≤ u`. -/
theorem bz_two (P vh vl uh ul k rh : Nat) (hvl : vl < P) (hdiv : uh = (k + 2) * vh + rh)
    (hk : k ≤ 2 * vh) : k * (vh * P + vl) ≤ uh * P + ul := by
  have h1 : k * (vh * P + vl) ≤ (k * (vh + 1)) * P := by
    have e1 : k * (vh * P + vl) = k * vh * P + k * vl := by ring
    have e2 : (k * (vh + 1)) * P = k * vh * P + k * P := by ring
    have : k * vl ≤ k * P := Nat.mul_le_mul_left _ (by omega)
    omega
  have h2 : k * (vh + 1) ≤ uh := by
    have e1 : k * (vh + 1) = k * vh + k := by ring
    have e2 : (k + 2) * vh = k * vh + 2 * vh := by ring
    omega
  have h3 : (k * (vh + 1)) * P ≤ uh * P := Nat.mul_le_mul_right _ h2
  omega

/-- Lemma 2, second half, as a statement about quotients: for `v = vh·P + vl`, `u = uh·P + ul`,
    `vl < P`, if `⌊uh/vh⌋ ≤ 2·vh + 2` (in particular if `⌊uh/vh⌋ < β^L ≤ 2·vh`, i.e. the high part of
    the divisor has at least as many words as the quotient and its top word is ≥ β/2) then
    `⌊uh/vh⌋ ≤ ⌊u/v⌋ + 2`. -/
theorem bz_upper (P vh vl uh ul : Nat) (hvl : vl < P) (hvh : 0 < vh) (hq : uh / vh ≤ 2 * vh + 2) :
    uh / vh ≤ (uh * P + ul) / (vh * P + vl) + 2 := by
  have hP : 0 < P := by omega
  have hv : 0 < vh * P + vl := by
    have := Nat.mul_pos hvh hP; omega
  rcases Nat.lt_or_ge (uh / vh) 2 with h2 | h2
  · exact Nat.le_trans (Nat.le_of_lt h2) (Nat.le_add_left _ _)
  · obtain ⟨k, hk⟩ : ∃ k, uh / vh = k + 2 := ⟨uh / vh - 2, by omega⟩
    have hdm := Nat.div_add_mod' uh vh
    rw [hk] at hdm hq ⊢
    have := bz_two P vh vl uh ul k (uh % vh) hvl hdm.symm (by omega)
    have : k ≤ (uh * P + ul) / (vh * P + vl) := (Nat.le_div_iff_mul_le hv).mpr this
    omega

/-- word form: `vh ≥ β^L/2` and `uh < vh·β^L` (the quotient of the high parts has at most `L` words). -/
theorem bz_upper_words (β L P vh vl uh ul : Nat) (hvl : vl < P) (hvh : β ^ L ≤ 2 * vh)
    (hβ : 0 < β) (hq : uh < vh * β ^ L) :
    uh / vh ≤ (uh * P + ul) / (vh * P + vl) + 2 := by
  have hpos : 0 < β ^ L := Nat.pow_pos hβ
  have hvh0 : 0 < vh := by omega
  apply bz_upper P vh vl uh ul hvl hvh0
  have : uh / vh < β ^ L := Nat.div_lt_of_lt_mul hq
  omega

end Decimal.L0
