/-
  C04b — special values, without the rounding hypotheses.

  C04 `add_special` `sub_special` `fma_special` carry, for the sub-cases in which the Go code
  delegates to `Set` (`finite ± 0`, `0 + finite`, `(±0 product) + finite`) or to `round` on the
  negated copy (`0 − finite`), the agreement of that delegated rounding with `Spec.round` as
  hypotheses `hX hY hU`.  They are discharged here with `set_correct` / `round_correct'`
  (Proofs/ArithOps.lean, the lemmas behind C01 `set_correct` and the rounding core
  `round_correct`): the only assumption left is that a FINITE operand is canonical
  (`Canon`: normalised mantissa, exponent in range, no non-zero digit beyond its precision —
  what every operation leaves in its receiver, C08; for `0 − y` and for factors `FinCanon` suffices).

  Then, glued with the finite × finite theorems of C01 / C03, one statement per operation covers
  EVERY class of operand (`*_ieee`): the model result realises the specification result
  (`specMatch`: ErrNaN exactly for the invalid operations, otherwise class, sign, accuracy,
  exponent and digits), and the `*_nan_iff` statements lose their exclusions.

  FMA with finite factors keeps the two hypotheses of C03b `fma_correct` (`fma_ieee_partial`);
  the second is the recorded finding `fma-product-exponent-out-of-range`. C04's `hfin` of
  `fma_inf_addend_partial` ("the scratch product is finite") is derived from them
  (`fma_scratch_finite`).

  Proofs in `Proofs/ComposeSpecial.lean`.
-/
import Proofs.ComposeSpecial

namespace Decimal.C04b

open Decimal Spec

/-! ### The delegated roundings (the former hypotheses) -/

/-- `hX`, `hY` of `add_special`, `hX` of `sub_special`, `hU` of `fma_special`: `Set` of a canonical
    finite operand into the receiver after its precision prologue. -/
theorem set_prologue_agrees (z x : Dec) (P : Nat) (hx : Canon x) (hP : x.prec ≤ P) :
    agrees (set (prologue z P) x false)
      (Spec.round z.mode (prologue z P).prec x.neg (x.mant : Rat) (x.exp - (x.len * DW : Nat))) = true :=
  Decimal.set_prologue_agrees z x P hx hP

/-- `hY` of `sub_special`: for `±0 − y` the (repaired) code negates the copy, then rounds. -/
theorem round_negcopy_agrees (z y : Dec) (P : Nat) (hy : FinCanon y) (hP : y.prec ≤ P) :
    agrees (round { prologue z P with
        acc := Exact, form := .finite, neg := !y.neg, exp := y.exp, mant := y.mant, len := y.len } false)
      (Spec.round z.mode (prologue z P).prec (!y.neg) (y.mant : Rat) (y.exp - (y.len * DW : Nat))) = true :=
  Decimal.round_negcopy_agrees z y P hy hP

/-! ### At least one special operand -/

theorem add_special (z x y : Dec) (hnf : x.form ≠ .finite ∨ y.form ≠ .finite)
    (hx : x.form = .finite → Canon x) (hy : y.form = .finite → Canon y) :
    specMatch (add z x y)
      (addSV z.mode (prologue z (umax x.prec y.prec)).prec (ofDec x) (ofDec y)) :=
  Decimal.add_special_canon z x y hnf hx hy

theorem sub_special (z x y : Dec) (hnf : x.form ≠ .finite ∨ y.form ≠ .finite)
    (hx : x.form = .finite → Canon x) (hy : y.form = .finite → FinCanon y) :
    specMatch (sub z x y)
      (subSV z.mode (prologue z (umax x.prec y.prec)).prec (ofDec x) (ofDec y)) :=
  Decimal.sub_special_canon z x y hnf hx hy

/-- FMA with a zero or infinite factor. -/
theorem fma_special (z x y u : Dec) (hxy : x.form ≠ .finite ∨ y.form ≠ .finite)
    (hu : u.form = .finite → Canon u) :
    specMatch (fma z x y u)
      (fmaSV z.mode (prologue z (umax (umax x.prec y.prec) u.prec)).prec (ofDec x) (ofDec y) (ofDec u)) :=
  Decimal.fma_special_canon z x y u hxy hu

theorem add_nan_iff_special (z x y : Dec) (hnf : x.form ≠ .finite ∨ y.form ≠ .finite)
    (hx : x.form = .finite → Canon x) (hy : y.form = .finite → Canon y) :
    (add z x y).2 = .errNaN ↔
      addSV z.mode (prologue z (umax x.prec y.prec)).prec (ofDec x) (ofDec y) = none :=
  specMatch_nan_iff (add_special z x y hnf hx hy)

theorem sub_nan_iff_special (z x y : Dec) (hnf : x.form ≠ .finite ∨ y.form ≠ .finite)
    (hx : x.form = .finite → Canon x) (hy : y.form = .finite → FinCanon y) :
    (sub z x y).2 = .errNaN ↔
      subSV z.mode (prologue z (umax x.prec y.prec)).prec (ofDec x) (ofDec y) = none :=
  specMatch_nan_iff (sub_special z x y hnf hx hy)

theorem fma_nan_iff_special (z x y u : Dec) (hxy : x.form ≠ .finite ∨ y.form ≠ .finite)
    (hu : u.form = .finite → Canon u) :
    (fma z x y u).2 = .errNaN ↔
      fmaSV z.mode (prologue z (umax (umax x.prec y.prec) u.prec)).prec (ofDec x) (ofDec y) (ofDec u) = none :=
  specMatch_nan_iff (fma_special z x y u hxy hu)

/-! ### Every class of operand

  `effPrec2 z x y = if z.prec == 0 then umax x.prec y.prec else z.prec` is the receiver's
  precision after the prologue (`prologue_prec_eq`). -/

theorem prologue_prec_eq (z x y : Dec) : (prologue z (umax x.prec y.prec)).prec = effPrec2 z x y :=
  Decimal.prologue_prec_eq_effPrec2 z x y

theorem add_ieee (z x y : Dec) (hx : x.form = .finite → Canon x) (hy : y.form = .finite → Canon y) :
    specMatch (add z x y) (addSV z.mode (effPrec2 z x y) (ofDec x) (ofDec y)) :=
  Decimal.add_ieee z x y hx hy

theorem sub_ieee (z x y : Dec) (hx : x.form = .finite → Canon x) (hy : y.form = .finite → FinCanon y) :
    specMatch (sub z x y) (subSV z.mode (effPrec2 z x y) (ofDec x) (ofDec y)) :=
  Decimal.sub_ieee z x y hx hy

theorem mul_ieee (z x y : Dec) (hx : x.form = .finite → FinCanon x) (hy : y.form = .finite → FinCanon y) :
    specMatch (mul z x y) (mulSV z.mode (effPrec2 z x y) (ofDec x) (ofDec y)) :=
  Decimal.mul_ieee z x y hx hy

theorem quo_ieee (z x y : Dec) (hx : x.form = .finite → FinCanon x) (hy : y.form = .finite → FinCanon y) :
    specMatch (quo z x y) (quoSV z.mode (effPrec2 z x y) (ofDec x) (ofDec y)) :=
  Decimal.quo_ieee z x y hx hy

/-- ErrNaN exactly when IEEE says "invalid operation" — no class of operand excluded. -/
theorem add_nan_iff (z x y : Dec) (hx : x.form = .finite → Canon x) (hy : y.form = .finite → Canon y) :
    (add z x y).2 = .errNaN ↔ addSV z.mode (effPrec2 z x y) (ofDec x) (ofDec y) = none :=
  specMatch_nan_iff (add_ieee z x y hx hy)
theorem sub_nan_iff (z x y : Dec) (hx : x.form = .finite → Canon x) (hy : y.form = .finite → FinCanon y) :
    (sub z x y).2 = .errNaN ↔ subSV z.mode (effPrec2 z x y) (ofDec x) (ofDec y) = none :=
  specMatch_nan_iff (sub_ieee z x y hx hy)
theorem mul_nan_iff (z x y : Dec) (hx : x.form = .finite → FinCanon x) (hy : y.form = .finite → FinCanon y) :
    (mul z x y).2 = .errNaN ↔ mulSV z.mode (effPrec2 z x y) (ofDec x) (ofDec y) = none :=
  specMatch_nan_iff (mul_ieee z x y hx hy)
theorem quo_nan_iff (z x y : Dec) (hx : x.form = .finite → FinCanon x) (hy : y.form = .finite → FinCanon y) :
    (quo z x y).2 = .errNaN ↔ quoSV z.mode (effPrec2 z x y) (ofDec x) (ofDec y) = none :=
  specMatch_nan_iff (quo_ieee z x y hx hy)

/-- `hfin` of C04 `fma_inf_addend_partial` from the arithmetic hypotheses of C03b. -/
theorem fma_scratch_finite (z' x y : Dec) (hfit : ProdFits x y)
    (hmin : MinExp ≤ intExp x + intExp y + (ndigits (x.mant * y.mant) : Int))
    (hmax : intExp x + intExp y + (ndigits (x.mant * y.mant) : Int) ≤ MaxExp) :
    (umul { z' with neg := x.neg != y.neg, prec := MaxPrec } x y).form = .finite :=
  Decimal.fma_scratch_finite z' x y hfit hmin hmax

/-- FMA on every class of operand. PARTIAL only in this: for finite factors the two hypotheses of
    C03b `fma_correct` are kept — `ProdFits` (the exact product has at most `MaxPrec` significant
    digits, see C03b) and the product-exponent range, without which
    the statement is false in the model (C04 `fma_inf_addend_partial`). -/
theorem fma_ieee_partial (z x y u : Dec) (hx : x.form = .finite → FinCanon x)
    (hy : y.form = .finite → FinCanon y) (hu : u.form = .finite → Canon u)
    (hfit : x.form = .finite → y.form = .finite → ProdFits x y)
    (hmin : x.form = .finite → y.form = .finite →
      MinExp ≤ intExp x + intExp y + (ndigits (x.mant * y.mant) : Int))
    (hmax : x.form = .finite → y.form = .finite →
      intExp x + intExp y + (ndigits (x.mant * y.mant) : Int) ≤ MaxExp) :
    specMatch (fma z x y u) (fmaSV z.mode (effPrec3 z x y u) (ofDec x) (ofDec y) (ofDec u)) :=
  Decimal.fma_ieee_partial z x y u hx hy hu hfit hmin hmax

theorem fma_nan_iff_partial (z x y u : Dec) (hx : x.form = .finite → FinCanon x)
    (hy : y.form = .finite → FinCanon y) (hu : u.form = .finite → Canon u)
    (hfit : x.form = .finite → y.form = .finite → ProdFits x y)
    (hmin : x.form = .finite → y.form = .finite →
      MinExp ≤ intExp x + intExp y + (ndigits (x.mant * y.mant) : Int))
    (hmax : x.form = .finite → y.form = .finite →
      intExp x + intExp y + (ndigits (x.mant * y.mant) : Int) ≤ MaxExp) :
    (fma z x y u).2 = .errNaN ↔
      fmaSV z.mode (effPrec3 z x y u) (ofDec x) (ofDec y) (ofDec u) = none :=
  specMatch_nan_iff (fma_ieee_partial z x y u hx hy hu hfit hmin hmax)

/-! ### Non-vacuity: the formerly excluded sub-cases -/

/-- `123.45 + (−0)` into a receiver of precision 4 rounding up: `Set` rounds `x`. -/
example : specMatch (add C01.zEx C01.xEx { neg := true })
    (addSV .ToPositiveInf 4 (ofDec C01.xEx) (.zero true)) :=
  add_special C01.zEx C01.xEx { neg := true } (Or.inr (by decide)) (fun _ => C01.xEx_canon)
    (fun h => absurd h (by decide))
/-- `(+0) + (−0.00995)`. -/
example : specMatch (add C01.zEx {} C01.yEx) (addSV .ToPositiveInf 4 (.zero false) (ofDec C01.yEx)) :=
  add_special C01.zEx {} C01.yEx (Or.inl (by decide)) (fun h => absurd h (by decide))
    (fun _ => C01.yEx_canon)
/-- `(+0) − 123.45`: the negated copy is rounded (toward +∞ on a negative value). -/
example : specMatch (sub C01.zEx {} C01.xEx) (subSV .ToPositiveInf 4 (.zero false) (ofDec C01.xEx)) :=
  sub_special C01.zEx {} C01.xEx (Or.inl (by decide)) (fun h => absurd h (by decide))
    (fun _ => C01.xEx_canon.1)
/-- `(−0) × 123.45 + 1.5`. -/
example : specMatch (fma C01.zEx { neg := true } C01.xEx C03.uEx)
    (fmaSV .ToPositiveInf 4 (.zero true) (ofDec C01.xEx) (ofDec C03.uEx)) :=
  fma_special C01.zEx { neg := true } C01.xEx C03.uEx (Or.inl (by decide)) (fun _ => C03.uEx_canon)
/-- all classes: `(+Inf) + 123.45`, `123.45 − (−0.00995)`, `123.45 × 1.5 + (−Inf)`. -/
example : specMatch (add C01.zEx { form := .inf } C01.xEx)
    (addSV .ToPositiveInf 4 (.inf false) (ofDec C01.xEx)) :=
  add_ieee C01.zEx { form := .inf } C01.xEx (fun h => absurd h (by decide)) (fun _ => C01.xEx_canon)
example : specMatch (sub C01.zEx C01.xEx C01.yEx)
    (subSV .ToPositiveInf 4 (ofDec C01.xEx) (ofDec C01.yEx)) :=
  sub_ieee C01.zEx C01.xEx C01.yEx (fun _ => C01.xEx_canon) (fun _ => C01.yEx_canon.1)
example : specMatch (fma C01.zEx C01.xEx C01.yEx { form := .inf, neg := true })
    (fmaSV .ToPositiveInf 4 (ofDec C01.xEx) (ofDec C01.yEx) (.inf true)) :=
  fma_ieee_partial C01.zEx C01.xEx C01.yEx { form := .inf, neg := true }
    (fun _ => C01.xEx_canon.1) (fun _ => C01.yEx_canon.1) (fun h => absurd h (by decide))
    (fun _ _ => prodFits_of_prec C01.xEx_canon C01.yEx_canon (by decide))
    (fun _ _ => by rw [C03.prodEx_digits]; decide)
    (fun _ _ => by rw [C03.prodEx_digits]; decide)

#print axioms set_prologue_agrees
#print axioms round_negcopy_agrees
#print axioms add_special
#print axioms sub_special
#print axioms fma_special
#print axioms add_nan_iff_special
#print axioms sub_nan_iff_special
#print axioms fma_nan_iff_special
#print axioms add_ieee
#print axioms sub_ieee
#print axioms mul_ieee
#print axioms quo_ieee
#print axioms add_nan_iff
#print axioms sub_nan_iff
#print axioms mul_nan_iff
#print axioms quo_nan_iff
#print axioms fma_scratch_finite
#print axioms fma_ieee_partial
#print axioms fma_nan_iff_partial

end Decimal.C04b
