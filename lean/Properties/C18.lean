/-
  C18 — concurrent use: race freedom and non-interference for the memory discipline of the
  library (abstract model `DecimalModel/Pool.lean`).

  Model.  Addresses `Nat`, memory `Nat → Nat`; `Layout` = shared addresses (operands), private
  addresses of each goroutine (receiver, fresh allocations), pool addresses (`sync.Pool`);
  state = memory + `holder : Addr → Option Gid` + `written` ("the holder has written the pool
  address since it got it").  Events `rd g a v | wr g a v | get g a | put g a`.

  Premises (the predicate `Disciplined L s t`, scanning `t` left to right, plus `L.WF`):
    P1 (`Layout.WF`)  shared / private / pool address sets pairwise disjoint; private sets of
                      different goroutines disjoint.
    P2 (`wr g a v`)   only if `a` is private to `g` or `g` holds the pool address `a`.
    P3 (`rd g a v`)   only if `a` is shared, or private to `g`, or held by `g` and written by `g`
                      since its `get` (pool contents are garbage: "may not be zero");
                      and `v` is the current memory contents.
    P4 (`get g a`)    only if `a` is a pool address nobody holds;  (`put g a`) only if `g` holds `a`.
  That the Go code obeys P1–P4 (operands are only read, scratch space comes from the pool or
  from fresh allocation, pooled slices are overwritten before use) is established by the code
  audit and the race-detector runs, not here; the theorems say what follows from them.
-/
import Proofs.Pool

namespace Decimal.C18

open Decimal.Pool

/-- (1) Race freedom: two accesses by different goroutines to the same address, at least one
    of them a write, are always separated by a `put` of that address by the first goroutine
    followed by a `get` by the second. -/
theorem no_conflict {L : Layout} (hL : L.WF) (m : Addr → Nat) (t1 t2 t3 : List Ev) (e1 e2 : Ev)
    (hd : Disciplined L (State.init m) (t1 ++ e1 :: (t2 ++ e2 :: t3)))
    (ha1 : e1.isAccess = true) (ha2 : e2.isAccess = true) (haddr : e1.addr = e2.addr)
    (hgid : e1.gid ≠ e2.gid) (hw : e1.isWrite = true ∨ e2.isWrite = true) :
    ∃ u v w, t2 = u ++ .put e1.gid e1.addr :: (v ++ .get e2.gid e1.addr :: w) :=
  Decimal.Pool.no_conflict hL (good_init L m) t1 t2 t3 e1 e2 hd ha1 ha2 haddr hgid hw

/-- In particular conflicting accesses are never adjacent. -/
theorem no_adjacent_conflict {L : Layout} (hL : L.WF) (m : Addr → Nat) (t1 t3 : List Ev) (e1 e2 : Ev)
    (hd : Disciplined L (State.init m) (t1 ++ e1 :: e2 :: t3))
    (ha1 : e1.isAccess = true) (ha2 : e2.isAccess = true) (haddr : e1.addr = e2.addr)
    (hgid : e1.gid ≠ e2.gid) : e1.isWrite = false ∧ e2.isWrite = false := by
  have key : ¬ (e1.isWrite = true ∨ e2.isWrite = true) := by
    intro hw
    obtain ⟨u, v, w, h⟩ := no_conflict hL m t1 [] t3 e1 e2 hd ha1 ha2 haddr hgid hw
    cases u <;> cases h
  constructor
  · cases h : e1.isWrite
    · rfl
    · exact absurd (Or.inl h) key
  · cases h : e2.isWrite
    · rfl
    · exact absurd (Or.inr h) key

/-- (2) Every read by `g` returns the last value `g` itself wrote to that address or, if `g`
    never wrote it, the initial contents; a shared address is never written (so it is the initial
    value), and for a pool address it is always one of `g`'s own writes.  `lastWrite g a` does
    not look at the other goroutines' events (`lastWrite_ignores_others`). -/
theorem read_value_local {L : Layout} (hL : L.WF) (m : Addr → Nat) (pre post : List Ev) (g : Gid)
    (a : Addr) (v : Nat) (hd : Disciplined L (State.init m) (pre ++ .rd g a v :: post)) :
    v = (lastWrite g a pre).getD (m a) ∧
      (L.shared a = true → lastWrite g a pre = none) ∧
      (L.pool a = true → (lastWrite g a pre).isSome = true) :=
  Decimal.Pool.read_value_local hL m pre post g a v hd

theorem lastWrite_ignores_others (g : Gid) (a : Addr) (t : List Ev) :
    lastWrite g a (proj g t) = lastWrite g a t :=
  Decimal.Pool.lastWrite_proj g a t

/-- (3) Projecting a disciplined trace onto goroutine `g` gives a disciplined single-goroutine
    trace from the same initial memory *with the same read values* (they are part of the `rd`
    events and `Disciplined` checks them against the memory): `g` computes what it would
    compute running alone. -/
theorem interleaving_noninterference {L : Layout} (hL : L.WF) (m : Addr → Nat) (g : Gid)
    (t : List Ev) (hd : Disciplined L (State.init m) t) : Disciplined L (State.init m) (proj g t) :=
  Decimal.Pool.interleaving_noninterference hL m g t hd

/-! ### Non-vacuity: two goroutines, one shared operand, a pool buffer handed over -/

/-- address 0: shared operand; 1, 2: receivers of goroutines 1, 2; 10: a pooled buffer. -/
def L0 : Layout where
  shared a := a == 0
  priv g a := (g == 1 && a == 1) || (g == 2 && a == 2)
  pool a := a == 10

def m0 : Addr → Nat := fun a => if a = 0 then 7 else 0

def t0 : List Ev :=
  [.rd 1 0 7, .get 1 10, .wr 1 10 5, .rd 2 0 7, .rd 1 10 5, .wr 1 1 12, .put 1 10,
   .get 2 10, .wr 2 10 9, .rd 2 10 9, .wr 2 2 16, .put 2 10]

theorem L0_WF : L0.WF := by
  refine ⟨?_, ?_, ?_⟩
  · intro a h; simp only [L0, beq_iff_eq] at h; subst h; rfl
  · intro g a h
    simp only [L0, Bool.or_eq_true, Bool.and_eq_true, beq_iff_eq] at h
    rcases h with ⟨-, rfl⟩ | ⟨-, rfl⟩ <;> exact ⟨rfl, rfl⟩
  · intro g h a h1 h2
    simp only [L0, Bool.or_eq_true, Bool.and_eq_true, beq_iff_eq] at h1 h2
    rcases h1 with ⟨rfl, rfl⟩ | ⟨rfl, rfl⟩ <;> rcases h2 with ⟨rfl, h⟩ | ⟨rfl, h⟩ <;> first | rfl | cases h

theorem t0_disciplined : Disciplined L0 (State.init m0) t0 := by decide

example : Disciplined L0 (State.init m0) (proj 2 t0) :=
  interleaving_noninterference L0_WF m0 2 t0 t0_disciplined

-- the write of goroutine 1 and the write of goroutine 2 to the buffer are separated by put/get
example : ∃ u v w, [Ev.rd 2 0 7, .rd 1 10 5, .wr 1 1 12, .put 1 10, .get 2 10] =
    u ++ Ev.put 1 10 :: (v ++ Ev.get 2 10 :: w) :=
  no_conflict L0_WF m0 [.rd 1 0 7, .get 1 10] _ [.rd 2 10 9, .wr 2 2 16, .put 2 10]
    (.wr 1 10 5) (.wr 2 10 9) t0_disciplined rfl rfl rfl (by decide) (Or.inl rfl)

-- a trace that reads a pooled buffer before writing it is rejected
example : ¬ Disciplined L0 (State.init m0) [.get 1 10, .rd 1 10 0] := by decide

#print axioms no_conflict
#print axioms no_adjacent_conflict
#print axioms read_value_local
#print axioms lastWrite_ignores_others
#print axioms interleaving_noninterference
#print axioms t0_disciplined

end Decimal.C18
