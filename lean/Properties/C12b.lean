/-
  C12b — `Parse` on non-decimal bases, binary (`p`) exponents, fractional non-decimal mantissas and
  `_` separators (the parts of C12 beyond `C12.parse10_correct`).

  Model: `DecimalModel/Parse.lean` (follows decimal_conv.go `scan`/`pow2`/`Parse`, dec_conv.go
  `dec.scan`, stdlib.go `scanExponent`). Literals: `LitB` (Proofs/ScanBase.lean)

      [sign] [ '0' ('b'|'B'|'o'|'O'|'x'|'X') ] digits [ '.' digits ] [ ('e'|'E'|'p'|'P') [sign] digits ]

  digits of the mantissa base 2/8/10/16 (letters in either case), each optionally preceded by one `_`
  when the base argument is 0. Value `(-1)^sign × coef × b^-|fraction| × ebase^exponent`
  `= ± coef × 10^exp10 × 2^exp2` (`value_eq`).

  Results.
  * `parseB_eq`: `Parse` on a well-formed literal = the arithmetic tail `scanTail` of `Decimal.scan`
    on `(coef, exp10, exp2)`, and the detected base is the literal's.
  * `parseB_integer_correct`, `parseB_correct`: whenever `2^|exp2|` has at most `prec + 19` digits —
    in particular for every literal without binary scale (integers in base 2/8/16, `0x1.8p4`,
    `0b101e3`) — the stored value is the literal's exact value rounded ONCE (`Spec.round`), with
    truthful accuracy. (The working precision of `pow2` is `prec + 19` digits, its square `f` has
    `prec + 38`; all products are exact while the powers fit.)
  * `parseB_bound`: otherwise (`|exp2| ≤ 7·10^9`) the power of two used is `2^|exp2| · ρ` with
    `|ρ − 1| ≤ 10^-(prec+16)` and the result is the correct rounding of the literal's value with
    that perturbed power: a *double rounding*. FINDING (model and Go agree, see the `#eval`s at the
    end): the result can differ from the correctly rounded value, e.g.
    `2032879073410320813763974001631p67` (= 2.99999999999999999999999999999979…e50) parsed at
    precision 1 gives 3e50 under ToZero (accuracy reported Below), 4e50 under AwayFromZero;
    `1694065894508600678136645001359p67` (= 2.4999…e50) gives 3e50 under ToNearestEven.
  * as repaired (/repo 435b421, after the second finding below): a binary scale that takes the value out
    of the exponent range (the scaled-and-rounded value is ±Inf or ±0, or `pow2` itself overflowed) is
    the error `expOverflow`, like a decimal exponent out of range: `parseB_correct`, `parseB_bound`,
    `parseB_range_error`, `parseB_range_error_pow2` (every `8589934655 ≤ |exp2| < 2^70`, e.g.
    `1p9223372036854775807`).
  * rejection lemmas for the non-decimal grammar, each for all strings of its shape;
    `parse_accepts_iff`: the accepted language exactly.
-/
import Proofs.ScanBase3
import Proofs.ScanInv2
import Proofs.ParseScale2
import Proofs.Pow2Inf

namespace Decimal.C12b
open Decimal

/-! ### 1. literals and their value -/

/-- The exact value of a literal (magnitude): `coef × b^-|frac| × ebase^expW`. -/
noncomputable def value (l : LitB) : ℚ :=
  (l.coef : ℚ) * (l.b : ℚ) ^ (-(l.frac.length : Int)) * (l.ebase : ℚ) ^ l.expW

theorem ebase_mem (l : LitB) (base : Nat) (hwf : l.WF base) : l.ebase = 10 ∨ l.ebase = 2 := by
  unfold LitB.ebase
  cases hx : l.ex with
  | none => exact Or.inl rfl
  | some e =>
    obtain ⟨m, sg, ds⟩ := e
    have hex := hwf.ex
    rw [hx] at hex
    obtain ⟨eb, hm, hor⟩ := markerBase_of_ok hex.1
    simp only [hm, Option.getD_some]
    exact hor

/-- The value splits into a decimal and a binary scale: `coef × 10^exp10 × 2^exp2`, which is what
    `Decimal.scan` computes with (`exp2 = −|frac|·log2 b` + a `p` exponent; `exp10 = −|frac|` for a
    decimal mantissa + an `e` exponent). -/
theorem value_eq (l : LitB) (base : Nat) (hwf : l.WF base) :
    value l = (l.coef : ℚ) * (10 : ℚ) ^ l.exp10 * (2 : ℚ) ^ l.exp2 := by
  have h2 : (2 : ℚ) ≠ 0 := by norm_num
  have h10 : (10 : ℚ) ≠ 0 := by norm_num
  have h8 : (8 : ℚ) = 2 ^ (3 : Int) := by norm_num
  have h16 : (16 : ℚ) = 2 ^ (4 : Int) := by norm_num
  unfold value LitB.exp10 LitB.exp2
  generalize (l.frac.length : Int) = f
  generalize l.expW = w
  have hbpow : ((l.b : Nat) : ℚ) ^ (-f) = (10 : ℚ) ^ (if l.b = 10 then -f else 0) *
      (2 : ℚ) ^ (if l.b = 2 then -f else if l.b = 8 then -f * 3 else if l.b = 16 then -f * 4 else 0) := by
    rcases hwf.b_mem with hb | hb | hb | hb <;> rw [hb]
    · simp
    · have e : ((8 : Nat) : ℚ) = 2 ^ (3 : Int) := by norm_num
      rw [e, ← zpow_mul]
      simp only [show ¬ ((8 : Nat) = 10) by decide, show ¬ ((8 : Nat) = 2) by decide, if_false, if_true,
        zpow_zero, one_mul]
      congr 1; ring
    · simp
    · have e : ((16 : Nat) : ℚ) = 2 ^ (4 : Int) := by norm_num
      rw [e, ← zpow_mul]
      simp only [show ¬ ((16 : Nat) = 10) by decide, show ¬ ((16 : Nat) = 2) by decide,
        show ¬ ((16 : Nat) = 8) by decide, if_false, if_true, zpow_zero, one_mul]
      congr 1; ring
  have hepow : ((l.ebase : Nat) : ℚ) ^ w = (10 : ℚ) ^ (if l.ebase = 10 then w else 0) *
      (2 : ℚ) ^ (if l.ebase = 2 then w else 0) := by
    rcases ebase_mem l base hwf with he | he <;> rw [he] <;> simp
  rw [mul_assoc, hbpow, hepow, zpow_add₀ h10, zpow_add₀ h2]
  ring

/-! ### 2. `Parse` on a well-formed literal -/

/-- **Operational form.** For every literal well-formed for the base argument, `Parse` returns what
    the arithmetic tail of `Decimal.scan` computes from `(coef, exp10, exp2)`, together with the
    literal's mantissa base (2, 8, 10 or 16). -/
theorem parseB_eq (z : Dec) (l : LitB) (base : Nat) (hwf : l.WF base) :
    parse z l.render base = withBaseP l.b (scanTail z l.sign l.coef l.exp10 l.exp2) :=
  parse_litB z l base hwf

/-- a zero mantissa: a zero of the literal's sign, precision `p` (34 if 0), Exact — whatever the
    exponents. -/
theorem parseB_zero (z : Dec) (l : LitB) (base : Nat) (hwf : l.WF base) (hc : l.coef = 0) :
    parse z l.render base =
      .ok ({ z with neg := l.sign, prec := if z.prec = 0 then 34 else z.prec, acc := Exact, form := .zero }, l.b) := by
  rw [parseB_eq z l base hwf, hc, scanTail_zero]; rfl

/-- the decimal exponent of `coef × 10^exp10` outside `[MinExp, MaxExp]` is an error, whatever the binary
    scale (which is applied afterwards; see `parseB_range_error` for what it can do). -/
theorem parseB_overflow (z : Dec) (l : LitB) (base : Nat) (hwf : l.WF base) (hc : l.coef ≠ 0)
    (hr : (ndigits l.coef : Int) + l.exp10 < MinExp ∨ (ndigits l.coef : Int) + l.exp10 > MaxExp) :
    parse z l.render base = .error .expOverflow := by
  rw [parseB_eq z l base hwf, scanTail_overflow z l.sign l.coef l.exp10 l.exp2 hc hr]; rfl

theorem withBaseP_ite_err (b : Nat) (c : Prop) [Decidable c] (e : ScanErr) (r : Dec) :
    withBaseP b (if c then .error e else .ok r) = if c then .error e else .ok (r, b) := by
  by_cases h : c <;> simp [h, withBaseP]

theorem withBaseP_ite_ok (b : Nat) (c : Prop) [Decidable c] (e : ScanErr) (r : Dec) :
    withBaseP b (if c then .ok r else .error e) = if c then .ok (r, b) else .error e := by
  by_cases h : c <;> simp [h, withBaseP]

/-- **parseB_correct.** For every well-formed literal (any base argument 0, 2, 8, 10, 16; prefix or
    explicit base; fraction digits; `e` or `p` exponent; separators in base 0) with `coef ≠ 0`, decimal
    exponent in range, and binary scale `exp2` such that `2^|exp2|` has at most `p + 19` digits
    (`p` = the receiver's precision, 34 if 0) — always true when `exp2 = 0`:
    let `S` = the literal's exact value `± coef × 10^exp10 × 2^exp2` rounded ONCE to `p` digits in the
    receiver's mode. There is a state `r` that holds exactly `S` (same form, sign, accuracy, exponent,
    coefficient) with precision `p` and the receiver's mode, and `Parse` returns `r` with the literal's
    base — except that (as repaired) when a binary scale `exp2 ≠ 0` took the value out of the exponent
    range (`S` is ±Inf or ±0) it returns the error `expOverflow`. -/
theorem parseB_correct (z : Dec) (l : LitB) (base : Nat) (hwf : l.WF base) (hc : l.coef ≠ 0)
    (hlo : MinExp ≤ (ndigits l.coef : Int) + l.exp10) (hhi : (ndigits l.coef : Int) + l.exp10 ≤ MaxExp)
    (hprec : z.prec + 38 ≤ 2147483647)
    (hfit : ndigits (2 ^ l.exp2.natAbs) ≤ (if z.prec = 0 then 34 else z.prec) + 19) :
    ∃ r, Spec.agrees r (Spec.round z.mode (if z.prec = 0 then 34 else z.prec) l.sign
        ((l.coef : ℚ) * (2 : ℚ) ^ l.exp2) l.exp10) = true ∧
      r.prec = (if z.prec = 0 then 34 else z.prec) ∧ r.mode = z.mode ∧
      parse z l.render base =
        (if l.exp2 ≠ 0 ∧ (Spec.round z.mode (if z.prec = 0 then 34 else z.prec) l.sign
              ((l.coef : ℚ) * (2 : ℚ) ^ l.exp2) l.exp10).form ≠ .finite
         then .error .expOverflow else .ok (r, l.b)) := by
  obtain ⟨r, hag, hp, hm, hres⟩ := scanTail_exact z l.sign l.coef l.exp10 l.exp2 (Nat.pos_of_ne_zero hc) hlo hhi hprec hfit
  refine ⟨r, hag, hp, hm, ?_⟩
  rw [parseB_eq z l base hwf, hres, withBaseP_ite_err]

/-- **parseB_range_error** (exact regime). A binary scale that takes the correctly rounded value out of
    the exponent range is an error: if `exp2 ≠ 0` and the literal's value rounded once is ±Inf or ±0,
    `Parse` returns `expOverflow` (before the repair: ±Inf / ±0 flagged Exact, no error). -/
theorem parseB_range_error (z : Dec) (l : LitB) (base : Nat) (hwf : l.WF base) (hc : l.coef ≠ 0)
    (hlo : MinExp ≤ (ndigits l.coef : Int) + l.exp10) (hhi : (ndigits l.coef : Int) + l.exp10 ≤ MaxExp)
    (hprec : z.prec + 38 ≤ 2147483647)
    (hfit : ndigits (2 ^ l.exp2.natAbs) ≤ (if z.prec = 0 then 34 else z.prec) + 19)
    (he2 : l.exp2 ≠ 0)
    (hout : (Spec.round z.mode (if z.prec = 0 then 34 else z.prec) l.sign
              ((l.coef : ℚ) * (2 : ℚ) ^ l.exp2) l.exp10).form ≠ .finite) :
    parse z l.render base = .error .expOverflow := by
  obtain ⟨r, _, _, _, hres⟩ := parseB_correct z l base hwf hc hlo hhi hprec hfit
  rw [hres, if_pos ⟨he2, hout⟩]

/-- … and in range it is a value: the exact value rounded once (the statement of `parseB_correct` with
    the error case excluded). -/
theorem parseB_correct_ok (z : Dec) (l : LitB) (base : Nat) (hwf : l.WF base) (hc : l.coef ≠ 0)
    (hlo : MinExp ≤ (ndigits l.coef : Int) + l.exp10) (hhi : (ndigits l.coef : Int) + l.exp10 ≤ MaxExp)
    (hprec : z.prec + 38 ≤ 2147483647)
    (hfit : ndigits (2 ^ l.exp2.natAbs) ≤ (if z.prec = 0 then 34 else z.prec) + 19)
    (hin : l.exp2 = 0 ∨ (Spec.round z.mode (if z.prec = 0 then 34 else z.prec) l.sign
              ((l.coef : ℚ) * (2 : ℚ) ^ l.exp2) l.exp10).form = .finite) :
    ∃ d, parse z l.render base = .ok (d, l.b) ∧
      Spec.agrees d (Spec.round z.mode (if z.prec = 0 then 34 else z.prec) l.sign
        ((l.coef : ℚ) * (2 : ℚ) ^ l.exp2) l.exp10) = true ∧
      d.prec = (if z.prec = 0 then 34 else z.prec) ∧ d.mode = z.mode := by
  obtain ⟨r, hag, hp, hm, hres⟩ := parseB_correct z l base hwf hc hlo hhi hprec hfit
  refine ⟨r, ?_, hag, hp, hm⟩
  rw [hres, if_neg]
  rintro ⟨h1, h2⟩
  rcases hin with h | h
  · exact h1 h
  · exact h2 h

/-- **parseB_range_error_pow2.** A binary exponent so large that `pow2` itself overflows — every
    `8589934655 ≤ |exp2| < 2^70`, so every int64 `p` exponent beyond ±8589934655 up to ±(2^63 − 1) and
    beyond — is the error `expOverflow` (before the repair: `1p9223372036854775807` was +Inf, Exact,
    and `1p-9223372036854775807` was 0, Exact, without an error). -/
theorem parseB_range_error_pow2 (z : Dec) (l : LitB) (base : Nat) (hwf : l.WF base) (hc : l.coef ≠ 0)
    (hlo : MinExp ≤ (ndigits l.coef : Int) + l.exp10) (hhi : (ndigits l.coef : Int) + l.exp10 ≤ MaxExp)
    (hprec : z.prec + 38 ≤ 2147483647)
    (hk1 : 8589934655 ≤ l.exp2.natAbs) (hk2 : l.exp2.natAbs < 1180591620717411303424) :
    parse z l.render base = .error .expOverflow := by
  have hp := prec34_pos z
  have hinf := pow2_inf ((if z.prec = 0 then 34 else z.prec) + 19) l.exp2.natAbs (by omega)
    (by split <;> omega) hk1 hk2
  rw [parseB_eq z l base hwf,
    scanTail_pow2_inf z l.sign l.coef l.exp10 l.exp2 hc (by omega) hlo hhi (by rw [DW_eq]; exact hinf)]
  rfl

/-- … and the magnitude rounded is the literal's value: `value l = (coef × 2^exp2) × 10^exp10`. -/
theorem parseB_correct_value (l : LitB) (base : Nat) (hwf : l.WF base) :
    (l.coef : ℚ) * (2 : ℚ) ^ l.exp2 * (10 : ℚ) ^ l.exp10 = value l := by
  rw [value_eq l base hwf]; ring

/-- integer literals: no fraction, no exponent. -/
theorem exps_of_integer (l : LitB) (hfp : l.fp = none) (hex : l.ex = none) : l.exp10 = 0 ∧ l.exp2 = 0 := by
  unfold LitB.exp10 LitB.exp2 LitB.frac LitB.ebase LitB.expW
  rw [hfp, hex]
  simp

/-- **parseB_integer_correct.** An integer literal in base 2, 8, 16 (or 10) — prefix form with base
    argument 0 (`0b101`, `0o17`, `0xDEADbeef`, `0x_dead_beef`) or bare digits with the explicit base —
    is stored as its exact integer value rounded ONCE to the receiver's precision (34 if 0; the default
    is the same for every base) and mode, with truthful accuracy. -/
theorem parseB_integer_correct (z : Dec) (l : LitB) (base : Nat) (hwf : l.WF base)
    (hfp : l.fp = none) (hex : l.ex = none) (hc : l.coef ≠ 0) (hhi : (ndigits l.coef : Int) ≤ MaxExp) :
    ∃ d, parse z l.render base = .ok (d, l.b) ∧
      Spec.agrees d (Spec.round z.mode (if z.prec = 0 then 34 else z.prec) l.sign (l.coef : ℚ) 0) = true ∧
      d.prec = (if z.prec = 0 then 34 else z.prec) ∧ d.mode = z.mode := by
  obtain ⟨e10, e2⟩ := exps_of_integer l hfp hex
  have hnd := ndigits_pos (Nat.pos_of_ne_zero hc)
  obtain ⟨d, hd, hag, hp, hm⟩ := scanTail_round z l.sign l.coef 0 (Nat.pos_of_ne_zero hc)
    (by rw [MinExp_eq]; omega) (by omega)
  refine ⟨d, ?_, hag, hp, hm⟩
  rw [parseB_eq z l base hwf, e10, e2, hd]; rfl

/-- the coefficient of an integer literal is the base-`b` value of its digit bytes. -/
theorem coef_of_integer (l : LitB) (hfp : l.fp = none) : l.coef = valB l.b l.ip.bytes := by
  unfold LitB.coef LitB.frac; rw [hfp]; simp [UDigits.bytes]

/-- **`e` after a hexadecimal mantissa is a digit**: `0x1e5` is the integer 0x1e5 = 485, not 1×10^5.
    For all hexadecimal digit runs `ds1`, `ds2`: the coefficient of `0x ds1 e ds2` is the base-16 value
    of the whole run, and `parseB_integer_correct` applies. -/
theorem hex_e_is_digit (ds1 ds2 : List Nat) (h1 : IsDigitsB 16 ds1) (h2 : IsDigitsB 16 ds2) :
    let l : LitB := { b := 16, pfx := some 120, ip := plainU (ds1 ++ 101 :: ds2) }
    l.WF 0 ∧ l.render = 48 :: 120 :: (ds1 ++ 101 :: ds2) ∧ l.coef = valB 16 (ds1 ++ 101 :: ds2) ∧
      l.exp10 = 0 ∧ l.exp2 = 0 := by
  intro l
  have hd : IsDigitsB 16 (ds1 ++ 101 :: ds2) := by
    rw [IsDigitsB_append, IsDigitsB_cons]; exact ⟨h1, by decide, h2⟩
  have hpl := plainU_plain (ds1 ++ 101 :: ds2)
  have hne : plainU (ds1 ++ 101 :: ds2) ≠ [] := by
    cases ds1 <;> simp [plainU]
  refine ⟨⟨Or.inr ⟨rfl, (by decide : prefixBase 120 = some 16)⟩, ?_, ?_, ?_, trivial, ?_, ?_, ?_⟩, ?_, ?_, exps_of_integer l rfl rfl⟩
  · show IsDigitsB 16 (plainU (ds1 ++ 101 :: ds2)).bytes
    rw [plainU_bytes]; exact hd
  · exact IsDigitsB_nil 16
  · show plainU (ds1 ++ 101 :: ds2) ++ [] ≠ []
    rw [List.append_nil]; exact hne
  · intro h; exact absurd rfl h
  · intro h; cases h
  · trivial
  · show signBytes none ++ (renderPfx (some 120) ++ (renderMantU (plainU (ds1 ++ 101 :: ds2)) none ++ renderExpB none)) = _
    simp [signBytes, renderPfx, renderMantU, renderExpB, renderU_plain]
  · rw [coef_of_integer l rfl]
    show valB 16 (plainU (ds1 ++ 101 :: ds2)).bytes = _
    rw [plainU_bytes]

/-- **parseB_bound.** Beyond the exact regime (`0 < |exp2| ≤ 7·10^9`): the power of two delivered by
    `pow2` at `p + 19` digits is `2^|exp2| · ρ` with `|ρ − 1| ≤ 10^-(p+16)`. Let `S` = the value
    `coef × 10^exp10 × 2^|exp2| ρ` (resp. `÷`) rounded ONCE (`p` digits, receiver's mode). There is a state
    `r` holding exactly `S`, and `Parse` returns `r` when `S` is finite, the error `expOverflow` when it
    left the exponent range. The result is therefore within relative `10^-(p+16)` of a correctly
    rounded value, but it is not always THE correctly rounded value (double rounding: see the findings
    at the end of this file). -/
theorem parseB_bound (z : Dec) (l : LitB) (base : Nat) (hwf : l.WF base) (hc : l.coef ≠ 0)
    (hlo : MinExp ≤ (ndigits l.coef : Int) + l.exp10) (hhi : (ndigits l.coef : Int) + l.exp10 ≤ MaxExp)
    (hprec : z.prec + 38 ≤ 2147483647) (he2 : l.exp2 ≠ 0) (hk : l.exp2.natAbs ≤ 7000000000) :
    ∃ (r : Dec) (ρ : ℚ), 0 < ρ ∧
      |ρ - 1| ≤ 1 / (10 : ℚ) ^ ((if z.prec = 0 then 34 else z.prec) + 16) ∧
      Spec.agrees r (Spec.round z.mode (if z.prec = 0 then 34 else z.prec) l.sign
        (if l.exp2 < 0 then (l.coef : ℚ) / ((2 : ℚ) ^ l.exp2.natAbs * ρ)
         else (l.coef : ℚ) * ((2 : ℚ) ^ l.exp2.natAbs * ρ)) l.exp10) = true ∧
      r.prec = (if z.prec = 0 then 34 else z.prec) ∧ r.mode = z.mode ∧
      parse z l.render base =
        (if (Spec.round z.mode (if z.prec = 0 then 34 else z.prec) l.sign
              (if l.exp2 < 0 then (l.coef : ℚ) / ((2 : ℚ) ^ l.exp2.natAbs * ρ)
               else (l.coef : ℚ) * ((2 : ℚ) ^ l.exp2.natAbs * ρ)) l.exp10).form = .finite
         then .ok (r, l.b) else .error .expOverflow) := by
  obtain ⟨r, ρ, hρ, hb, hag, hp, hm, hres⟩ := scanTail_apx z l.sign l.coef l.exp10 l.exp2
    (Nat.pos_of_ne_zero hc) hlo hhi hprec he2 hk
  refine ⟨r, ρ, hρ, hb, hag, hp, hm, ?_⟩
  rw [parseB_eq z l base hwf, hres, withBaseP_ite_ok]

/-- `pow2` itself: exact while the power fits the working precision `P` … -/
theorem pow2_exact_when_fits (P n : Nat) (hP : 1 ≤ P) (hPm : P + 19 ≤ 2147483647) (hfit : ndigits (2 ^ n) ≤ P) :
    IsPow2 (pow2 P n) P n := pow2_of_fits P n hP hPm hfit

/-- … and within `70.5 × 10^(1−P)` (relative) in general. -/
theorem pow2_error_bound (P n : Nat) (hP : 20 ≤ P) (hPm : P + 19 ≤ 2147483647) (hn : n ≤ 7000000000) :
    ∃ ρ : ℚ, FinCanon (pow2 P n) ∧ (pow2 P n).neg = false ∧ decMag (pow2 P n) 0 = (2 : ℚ) ^ n * ρ ∧
      0 < ρ ∧ |ρ - 1| ≤ 141 * relU P := pow2_apx P n hP hPm hn

/-! ### 3. rejected inputs of the non-decimal grammar (every string of each shape) -/

/-- bytes left over after a complete literal whose value is accepted (`scanTail` returns a value: see
    `scanTail_ok`, `scanTail_isOk_iff`): `"0x1fg"`, `"0b102"`, `"0x1p5e3"`, `"0x1.8.2"`, `"0o17 "`. The
    conditions on `rest` only say that the scanner stops where the literal ends. -/
theorem reject_trailingB (z : Dec) (l : LitB) (base : Nat) (hwf : l.WF base) (rest : List Nat) (hrest : rest ≠ [])
    (hend : TailOkB (decide (base = 0)) l rest)
    (hnp : base = 0 → l.pfx = none → l.ex = none → NoPrefixLetterHead rest)
    (hok : ∃ d, scanTail z l.sign l.coef l.exp10 l.exp2 = .ok d) :
    parse z (l.render ++ rest) base = .error .trailing :=
  parse_trailingB z l base hwf rest hrest hend hnp hok

/-- **A digit ≥ the base after at least one valid digit** (`"0b102"`, `"0o78"`, base 2 `"12"`, base 8
    `"19"`, `"0x1g"`): the mantissa ends before it and the input is rejected as trailing garbage
    (provided the literal before it is accepted; otherwise its own error is reported). -/
theorem reject_digit_ge_base (z : Dec) (l : LitB) (base : Nat) (hwf : l.WF base) (hex : l.ex = none)
    (c : Nat) (rest : List Nat) (hc : digitVal c ≥ l.b) (hdot : c ≠ 46) (hus : c ≠ 95)
    (hmk : c ≠ 101 ∧ c ≠ 69 ∧ c ≠ 112 ∧ c ≠ 80)
    (hpl : base = 0 → l.pfx = none → c ≠ 98 ∧ c ≠ 66 ∧ c ≠ 111 ∧ c ≠ 79 ∧ c ≠ 120 ∧ c ≠ 88)
    (hok : ∃ d, scanTail z l.sign l.coef l.exp10 l.exp2 = .ok d) :
    parse z (l.render ++ c :: rest) base = .error .trailing := by
  apply reject_trailingB z l base hwf (c :: rest) (by simp) _ _ hok
  · unfold TailOkB; rw [hex]
    exact ⟨⟨hc, fun h => absurd h hus, fun h => absurd h hdot⟩, hmk⟩
  · intro h0 hp _; exact hpl h0 hp

/-- **No valid digit at all** after the optional sign / base prefix / point: `"0x"`, `"0b2"`, `"0o8"`,
    `"0x."`, `"0xg"`, base 2 `"2"`, base 8 `"9"`, base 16 `"g"`, base 16 `".p1"` … -/
theorem reject_noMantDigitsB (z : Dec) (sg : Option Bool) (base b : Nat) (pfx : Option Nat) (dot : Bool)
    (rest : List Nat)
    (hbase : (base = b ∧ pfx = none ∧ base ≠ 0) ∨ (base = 0 ∧ PfxOk pfx b))
    (hend : MantEndB b (decide (base = 0)) dot rest)
    (hsg : sg = none → pfx = none → dot = false → rest ≠ [] ∧ NoSignHead rest)
    (hinf : ¬ IsInfStr (signBytes sg ++ (renderPfx pfx ++ ((if dot then [46] else []) ++ rest)))) :
    parse z (signBytes sg ++ (renderPfx pfx ++ ((if dot then [46] else []) ++ rest))) base = .error .noDigits :=
  parse_noMantDigitsB z sg base b pfx dot rest hbase hend hsg hinf

/-- **A base prefix without digits** (base 0): `"0x"`, `"-0B"`, `"0o."`, `"0xg"`, `"0b2"`, `"0o8"`, `"0xp1"`. -/
theorem reject_prefix_noDigits (z : Dec) (sg : Option Bool) (c b : Nat) (hc : prefixBase c = some b) (dot : Bool)
    (rest : List Nat) (hend : MantEndB b true dot rest) :
    parse z (signBytes sg ++ (48 :: c :: ((if dot then [46] else []) ++ rest))) 0 = .error .noDigits :=
  parse_prefix_noDigits z sg c b hc dot rest hend

/-- **An exponent marker without digits**: `"0x1p"`, `"0b1p+"`, `"1.5p-"`, `"0x1px"`, `"0o7e"`. -/
theorem reject_exp_noDigitsB (z : Dec) (l : LitB) (base : Nat) (hwf : l.WF base) (hex : l.ex = none) (m : Nat)
    (hm : m = 112 ∨ m = 80 ∨ ((m = 101 ∨ m = 69) ∧ l.b ≠ 16)) (esg : Option Bool) (rest : List Nat)
    (hend : ExpEnd (decide (base = 0)) rest) (hsg : esg = none → NoSignHead rest) :
    parse z (l.render ++ m :: (signBytes esg ++ rest)) base = .error .noDigits :=
  parse_exp_noDigitsB z l base hwf hex m hm esg rest hend hsg

/-- **A binary (or decimal) exponent beyond int64.** -/
theorem reject_expRangeB (z : Dec) (l : LitB) (base : Nat) (hwf : l.WF base) (hex : l.ex = none) (m : Nat)
    (hm : m = 112 ∨ m = 80 ∨ ((m = 101 ∨ m = 69) ∧ l.b ≠ 16)) (esg : Option Bool) (ds : UDigits) (rest : List Nat)
    (hd : IsDigitsB 10 ds.bytes) (hh : ds.HeadPlain) (hsep : base ≠ 0 → ds.Plain)
    (hend : ExpEnd (decide (base = 0)) rest)
    (hbig : if signVal esg then valB 10 ds.bytes > 9223372036854775808 else valB 10 ds.bytes > 9223372036854775807) :
    parse z (l.render ++ m :: (signBytes esg ++ (renderU ds ++ rest))) base = .error .expRange :=
  parse_expRangeB z l base hwf hex m hm esg ds rest hd hh hsep hend hbig

/-- **`_` after the exponent digits** (base 0): `"0x1p5_"`, `"1e5_"`, `"0b1p-3_x"`. -/
theorem reject_exp_trailing_sep (z : Dec) (l : LitB) (hwf : l.WF 0) (hex : l.ex = none) (m : Nat)
    (hm : m = 112 ∨ m = 80 ∨ ((m = 101 ∨ m = 69) ∧ l.b ≠ 16)) (esg : Option Bool) (ds : UDigits) (rest : List Nat)
    (hd : IsDigitsB 10 ds.bytes) (hne : ds ≠ []) (hh : ds.HeadPlain) (hend : ExpEnd true rest)
    (hrange : if signVal esg then valB 10 ds.bytes ≤ 9223372036854775808 else valB 10 ds.bytes ≤ 9223372036854775807) :
    parse z (l.render ++ m :: (signBytes esg ++ (renderU ds ++ 95 :: rest))) 0 = .error .invalSep :=
  parse_exp_trailing_sep z l hwf hex m hm esg ds rest hd hne hh hend hrange

/-- **`_` directly after the exponent marker or sign** (base 0), whatever follows: always an error. -/
theorem reject_exp_leading_sep (z : Dec) (l : LitB) (hwf : l.WF 0) (hex : l.ex = none) (m : Nat)
    (hm : m = 112 ∨ m = 80 ∨ ((m = 101 ∨ m = 69) ∧ l.b ≠ 16)) (esg : Option Bool) (rest : List Nat) :
    ∃ e, parse z (l.render ++ m :: (signBytes esg ++ 95 :: rest)) 0 = .error e ∧
      (e = .noDigits ∨ e = .expRange ∨ e = .invalSep) :=
  parse_exp_leading_sep z l hwf hex m hm esg rest

/-- **`_` after the mantissa digits not followed by a digit** (base 0): `"0x1_"`, `"0x1__2"`,
    `"0b1_.1"`, `"0x1_p3"`, `"1_e5"`. -/
theorem reject_mant_sep_nondigit (z : Dec) (l : LitB) (hwf : l.WF 0) (hex : l.ex = none) (rest : List Nat)
    (hrest : match rest with | [] => True | c :: _ => digitVal c ≥ l.b) :
    parse z (l.render ++ 95 :: rest) 0 = .error .invalSep :=
  parse_mant_sep_nondigit z l hwf hex rest hrest

/-- **`_` directly after the point** (base 0), whatever follows: `"0x1._8"`, `"1._5"`. -/
theorem reject_sep_after_point (z : Dec) (l : LitB) (hwf : l.WF 0) (hex : l.ex = none) (hfp : l.fp = some [])
    (rest : List Nat) : parse z (l.render ++ 95 :: rest) 0 = .error .invalSep :=
  parse_sep_after_point z l hwf hex hfp rest

/-- an integer literal with an explicit base: bare digit bytes. -/
def intLit (sg : Option Bool) (b : Nat) (cs : List Nat) : LitB := { neg := sg, b := b, ip := plainU cs }

theorem intLit_wf (sg : Option Bool) (b : Nat) (cs : List Nat) (hb : b = 2 ∨ b = 8 ∨ b = 10 ∨ b = 16)
    (hd : IsDigitsB b cs) (hne : cs ≠ []) : (intLit sg b cs).WF b := by
  refine ⟨Or.inl ⟨rfl, rfl, hb⟩, ?_, IsDigitsB_nil b, ?_, trivial, ?_, ?_, trivial⟩
  · show IsDigitsB b (plainU cs).bytes
    rw [plainU_bytes]; exact hd
  · show plainU cs ++ [] ≠ []
    cases cs with
    | nil => exact absurd rfl hne
    | cons c cs => simp [plainU]
  · intro _
    exact ⟨plainU_plain cs, UDigits.Plain_nil, UDigits.Plain_nil⟩
  · intro _; exact (plainU_plain cs).head

theorem intLit_render (sg : Option Bool) (b : Nat) (cs : List Nat) : (intLit sg b cs).render = signBytes sg ++ cs := by
  show signBytes sg ++ (renderPfx none ++ (renderMantU (plainU cs) none ++ renderExpB none)) = _
  simp [renderPfx, renderMantU, renderExpB, renderU_plain]

theorem intLit_coef (sg : Option Bool) (b : Nat) (cs : List Nat) : (intLit sg b cs).coef = valB b cs := by
  rw [coef_of_integer _ rfl]
  show valB b (plainU cs).bytes = _
  rw [plainU_bytes]

/-- **`_` with an explicit base** is never a separator: `"1_0"` in base 2, 8, 10, 16 is rejected
    (after `"1"` the scanner stops at `_`), whatever follows. -/
theorem reject_sep_explicit_base (z : Dec) (sg : Option Bool) (b : Nat) (cs rest : List Nat)
    (hb : b = 2 ∨ b = 8 ∨ b = 10 ∨ b = 16) (hd : IsDigitsB b cs) (hne : cs ≠ [])
    (hrange : valB b cs = 0 ∨ (ndigits (valB b cs) : Int) ≤ MaxExp) :
    parse z (signBytes sg ++ (cs ++ 95 :: rest)) b = .error .trailing := by
  have hwf := intLit_wf sg b cs hb hd hne
  have h0 : b ≠ 0 := by omega
  have := reject_trailingB z (intLit sg b cs) b hwf (95 :: rest) (by simp)
    (by unfold TailOkB
        show MantEndB b (decide (b = 0)) false (95 :: rest) ∧ NoExpHead (95 :: rest)
        refine ⟨⟨?_, fun _ => by simp [h0], fun h => by omega⟩, by simp [NoExpHead]⟩
        rcases hb with h | h | h | h <;> rw [h] <;> decide)
    (fun h => absurd h h0)
    (by obtain ⟨e10, e2⟩ := exps_of_integer (intLit sg b cs) rfl rfl
        apply scanTail_ok
        rw [intLit_coef, e10]
        rcases hrange with h | h
        · exact Or.inl h
        · by_cases hz : valB b cs = 0
          · exact Or.inl hz
          · have := ndigits_pos (Nat.pos_of_ne_zero hz)
            exact Or.inr ⟨by rw [MinExp_eq]; omega, by omega, e2⟩)
  rw [intLit_render, List.append_assoc] at this
  exact this

/-- **An explicit base does not accept a base prefix**: with base 2, 8, 10 or 16, `"0x…"`, `"0X…"`,
    `"0o…"`, `"0O…"` (and `"0b…"`, `"0B…"` unless the base is 16, where `b` is a digit) are rejected:
    the mantissa is `0` and the letter is left over. -/
theorem reject_prefix_explicit_base (z : Dec) (sg : Option Bool) (b c : Nat) (rest : List Nat)
    (hb : b = 2 ∨ b = 8 ∨ b = 10 ∨ b = 16)
    (hc : c = 120 ∨ c = 88 ∨ c = 111 ∨ c = 79 ∨ ((c = 98 ∨ c = 66) ∧ b ≠ 16)) :
    parse z (signBytes sg ++ (48 :: c :: rest)) b = .error .trailing := by
  have hd : IsDigitsB b [48] := by
    intro x hx
    simp only [List.mem_singleton] at hx
    subst hx
    rcases hb with h | h | h | h <;> rw [h] <;> decide
  have hwf := intLit_wf sg b [48] hb hd (by simp)
  have h0 : b ≠ 0 := by omega
  have hcoef : (intLit sg b [48]).coef = 0 := by
    rw [intLit_coef, valB_cons, valB_nil]
    have : digitVal 48 = 0 := by decide
    rw [this]; simp
  have hdv : digitVal c ≥ b := by
    rcases hc with rfl | rfl | rfl | rfl | ⟨rfl | rfl, h16⟩ <;>
      rcases hb with h | h | h | h <;> first | exact absurd h h16 | (rw [h]; decide)
  have := reject_trailingB z (intLit sg b [48]) b hwf (c :: rest) (by simp)
    (by unfold TailOkB
        show MantEndB b (decide (b = 0)) false (c :: rest) ∧ NoExpHead (c :: rest)
        refine ⟨⟨hdv, fun _ => by simp [h0], fun h => ?_⟩, ?_⟩
        · rcases hc with rfl | rfl | rfl | rfl | ⟨rfl | rfl, _⟩ <;> omega
        · rcases hc with rfl | rfl | rfl | rfl | ⟨rfl | rfl, _⟩ <;> simp [NoExpHead])
    (fun h => absurd h h0) (scanTail_ok _ _ _ _ _ (Or.inl hcoef))
  rw [intLit_render, List.append_assoc] at this
  exact this

/-- **Only the six spellings `Inf inf +Inf +inf -Inf -inf` denote an infinity** (`C11b.parse_inf` accepts
    them in every base): every other input that starts, after the optional sign, with `i` or `I`
    (`"INF"`, `"Infinity"`, `"iNf"`, `"+INF"`, `"in"`, …) is rejected, in every base 0, 2, 8, 10, 16. -/
theorem reject_inf_variants (z : Dec) (sg : Option Bool) (c : Nat) (rest : List Nat) (base : Nat)
    (hc : c = 73 ∨ c = 105) (hbase : base = 0 ∨ base = 2 ∨ base = 8 ∨ base = 10 ∨ base = 16)
    (hinf : ¬ IsInfStr (signBytes sg ++ c :: rest)) :
    parse z (signBytes sg ++ c :: rest) base = .error .noDigits := by
  have hdv : digitVal c = 18 := by rcases hc with rfl | rfl <;> decide
  have hne : c ≠ 95 ∧ c ≠ 46 ∧ c ≠ 45 ∧ c ≠ 43 := by rcases hc with rfl | rfl <;> omega
  have key : ∀ b, b ≤ 16 → ((base = b ∧ (none : Option Nat) = none ∧ base ≠ 0) ∨ (base = 0 ∧ PfxOk none b)) →
      parse z (signBytes sg ++ c :: rest) base = .error .noDigits := by
    intro b hb16 hb
    have := reject_noMantDigitsB z sg base b none false (c :: rest) hb
      ⟨by rw [hdv]; omega, fun h => absurd h hne.1, fun h => absurd h hne.2.1⟩
      (fun _ _ _ => ⟨by simp, hne.2.2.1, hne.2.2.2⟩) (by simpa [renderPfx] using hinf)
    simpa [renderPfx] using this
  rcases hbase with h | h | h | h | h
  · exact key 10 (by omega) (Or.inr ⟨h, rfl⟩)
  · exact key 2 (by omega) (Or.inl ⟨h, rfl, by omega⟩)
  · exact key 8 (by omega) (Or.inl ⟨h, rfl, by omega⟩)
  · exact key 10 (by omega) (Or.inl ⟨h, rfl, by omega⟩)
  · exact key 16 (by omega) (Or.inl ⟨h, rfl, by omega⟩)

/-! ### 3b. the accepted language, exactly -/

/-- the six infinity spellings are accepted in every base: `z.SetInf(sign)`, reported base 0. -/
theorem parse_inf_forms (z : Dec) (s : List Nat) (base : Nat) (h : IsInfStr s) :
    parse z s base = .ok (setInf z (decide (s.head? = some 45)), 0) := by
  rcases h with rfl | rfl | rfl | rfl | rfl | rfl <;> rfl

/-- **Completeness.** Whatever `Parse` accepts (base argument 0, 2, 8, 10, 16) is an infinity spelling
    or the rendering of a literal well-formed for the base argument, whose mantissa base is the base
    `Parse` reports. -/
theorem parse_ok_is_literal (z : Dec) (s : List Nat) (base : Nat) (d : Dec) (b' : Nat)
    (hbase : base = 0 ∨ base = 2 ∨ base = 8 ∨ base = 10 ∨ base = 16)
    (h : parse z s base = .ok (d, b')) :
    IsInfStr s ∨ ∃ l : LitB, l.WF base ∧ l.render = s ∧ l.b = b' :=
  Decimal.parse_ok_is_literal z s base d b' hbase h

/-- **`Parse` accepts exactly the grammar**: an input is accepted iff it is one of the six infinity
    spellings, or the rendering of a well-formed literal whose mantissa is zero, or whose decimal exponent
    `ndigits coef + exp10` lies in `[MinExp, MaxExp]` and whose binary scale, if any, leaves the value
    finite (`scanScaled` = the receiver after `Mul`/`Quo` by `pow2`; its form is that of `Spec.round` of
    the scaled value: `parseB_correct`, `parseB_bound`, `parseB_range_error_pow2`). -/
theorem parse_accepts_iff (z : Dec) (s : List Nat) (base : Nat)
    (hbase : base = 0 ∨ base = 2 ∨ base = 8 ∨ base = 10 ∨ base = 16) :
    (∃ d b, parse z s base = .ok (d, b)) ↔
      (IsInfStr s ∨ ∃ l : LitB, l.WF base ∧ l.render = s ∧
        (l.coef = 0 ∨ (MinExp ≤ (ndigits l.coef : Int) + l.exp10 ∧ (ndigits l.coef : Int) + l.exp10 ≤ MaxExp ∧
          (l.exp2 = 0 ∨ (scanScaled z l.sign l.coef l.exp10 l.exp2).form = .finite)))) := by
  constructor
  · rintro ⟨d, b, h⟩
    rcases parse_ok_is_literal z s base d b hbase h with hi | ⟨l, hwf, hr, _⟩
    · exact Or.inl hi
    · right
      refine ⟨l, hwf, hr, ?_⟩
      apply (scanTail_isOk_iff z l.sign l.coef l.exp10 l.exp2).mp
      rw [← hr, parseB_eq z l base hwf] at h
      cases ht : scanTail z l.sign l.coef l.exp10 l.exp2 with
      | error e => rw [ht] at h; cases h
      | ok d' => exact ⟨d', rfl⟩
  · rintro (hi | ⟨l, hwf, hr, hrange⟩)
    · exact ⟨_, _, parse_inf_forms z s base hi⟩
    · obtain ⟨d, hd⟩ := (scanTail_isOk_iff z l.sign l.coef l.exp10 l.exp2).mpr hrange
      exact ⟨d, l.b, by rw [← hr, parseB_eq z l base hwf, hd]; rfl⟩

/-! ### 4. non-vacuity: concrete literals satisfying the hypotheses -/

/-- "0xDEADbeef" (mixed case), base argument 0. -/
private def litHex : LitB := { b := 16, pfx := some 120, ip := plainU [68, 69, 65, 68, 98, 101, 101, 102] }

private theorem litHex_wf : litHex.WF 0 :=
  ⟨Or.inr ⟨rfl, (by decide : prefixBase 120 = some 16)⟩, by decide, by decide, by decide, trivial,
    fun h => absurd rfl h, (fun h => by cases h), trivial⟩

example : litHex.render = "0xDEADbeef".toList.map chr := by decide
private theorem litHex_coef : litHex.coef = 3735928559 := by decide

/-- `Parse("0xDEADbeef", 0)` into a 5-digit ToZero receiver: 3735928559 rounded once (3.7359e9, Below). -/
example : ∃ d, parse { prec := 5, mode := .ToZero } ("0xDEADbeef".toList.map chr) 0 = .ok (d, 16) ∧
    Spec.agrees d (Spec.round .ToZero 5 false (3735928559 : ℚ) 0) = true ∧ d.prec = 5 := by
  have hnd : ndigits 3735928559 = 10 := ndigits_unique (by norm_num) (by norm_num) (by norm_num)
  obtain ⟨d, h1, h2, h3, _⟩ := parseB_integer_correct { prec := 5, mode := .ToZero } litHex 0 litHex_wf rfl rfl
    (by rw [litHex_coef]; omega) (by rw [litHex_coef, hnd, MaxExp_eq]; norm_num)
  refine ⟨d, h1, ?_, h3⟩
  rw [litHex_coef] at h2
  simpa [litHex, LitB.sign, signVal] using h2

/-- "1011" with the explicit base 2 = 11. -/
example : ∃ d, parse { prec := 1 } ("1011".toList.map chr) 2 = .ok (d, 2) ∧
    Spec.agrees d (Spec.round .ToNearestEven 1 false (11 : ℚ) 0) = true := by
  have hwf := intLit_wf none 2 [49, 48, 49, 49] (Or.inl rfl) (by decide) (by decide)
  have hc : (intLit none 2 [49, 48, 49, 49]).coef = 11 := by decide
  have hnd : ndigits 11 = 2 := ndigits_unique (by norm_num) (by norm_num) (by norm_num)
  obtain ⟨d, h1, h2, _, _⟩ := parseB_integer_correct { prec := 1 } (intLit none 2 [49, 48, 49, 49]) 2 hwf rfl rfl
    (by rw [hc]; omega) (by rw [hc, hnd, MaxExp_eq]; norm_num)
  refine ⟨d, ?_, ?_⟩
  · rw [intLit_render] at h1; exact h1
  · rw [hc] at h2; simpa [intLit, LitB.sign, signVal] using h2

/-- "-0x_1.8p-4" = −(0x18) × 2^(−4−4) = −0.09375: fraction digits, separator after the prefix,
    negative binary exponent; base argument 0. -/
private def litFrac : LitB :=
  { neg := some true, b := 16, pfx := some 120, ip := [(true, 49)], fp := some [(false, 56)],
    ex := some (112, some true, [(false, 52)]) }

private theorem litFrac_wf : litFrac.WF 0 :=
  ⟨Or.inr ⟨rfl, (by decide : prefixBase 120 = some 16)⟩, by decide, by decide, by decide,
    (by show (112 = 112 ∨ 112 = 80 ∨ ((112 = 101 ∨ 112 = 69) ∧ 16 ≠ 16)) ∧ IsDigitsB 10 (UDigits.bytes [(false, 52)]) ∧
          ([(false, 52)] : UDigits) ≠ [] ∧ UDigits.HeadPlain [(false, 52)] ∧ _
        decide),
    fun h => absurd rfl h, (fun h => by cases h), rfl⟩

example : litFrac.render = "-0x_1.8p-4".toList.map chr := by decide
private theorem litFrac_vals : litFrac.coef = 24 ∧ litFrac.exp10 = 0 ∧ litFrac.exp2 = -8 := by decide

example : ∃ d, parse { prec := 3 } ("-0x_1.8p-4".toList.map chr) 0 = .ok (d, 16) ∧
    Spec.agrees d (Spec.round .ToNearestEven 3 true ((24 : ℚ) * (2 : ℚ) ^ (-8 : Int)) 0) = true ∧ d.prec = 3 := by
  obtain ⟨hc, h10, h2⟩ := litFrac_vals
  have hnd : ndigits 24 = 2 := ndigits_unique (by norm_num) (by norm_num) (by norm_num)
  have hde : Spec.decExp ((24 : ℚ) * (2 : ℚ) ^ (-8 : Int)) = -1 :=
    decExp_unique (by norm_num) (-1) (by norm_num) (by norm_num)
  have hfin : (Spec.round .ToNearestEven 3 true ((24 : ℚ) * (2 : ℚ) ^ (-8 : Int)) 0).form = .finite :=
    round_form_finite _ _ _ _ _ (by rw [hde, MinExp_eq]; norm_num) (by rw [hde, MaxExp_eq]; norm_num)
  obtain ⟨d, e1, e2, e3, _⟩ := parseB_correct_ok { prec := 3 } litFrac 0 litFrac_wf (by rw [hc]; omega)
    (by rw [hc, h10, hnd, MinExp_eq]; norm_num) (by rw [hc, h10, hnd, MaxExp_eq]; norm_num) (by show 3 + 38 ≤ 2147483647; omega)
    (by rw [h2]; show ndigits (2 ^ 8) ≤ 3 + 19; rw [ndigits_le_iff]; norm_num)
    (Or.inr (by rw [hc, h10, h2]; simpa [litFrac, LitB.sign, signVal] using hfin))
  refine ⟨d, e1, ?_, e3⟩
  rw [hc, h10, h2] at e2
  simpa [litFrac, LitB.sign, signVal] using e2

/-- the value of "-0x_1.8p-4" is 24/256 = 0.09375. -/
example : value litFrac = 3 / 32 := by
  obtain ⟨hc, h10, h2⟩ := litFrac_vals
  rw [value_eq litFrac 0 litFrac_wf, hc, h10, h2]
  norm_num

/-- "0x1p-200" into a zero-value receiver (34 digits): `2^200` has 61 digits > 34 + 19, beyond the exact
    regime; `parseB_bound` applies. -/
private def litP200 : LitB :=
  { b := 16, pfx := some 120, ip := [(false, 49)], ex := some (112, some true, plainU [50, 48, 48]) }

private theorem litP200_wf : litP200.WF 0 :=
  ⟨Or.inr ⟨rfl, (by decide : prefixBase 120 = some 16)⟩, by decide, by decide, by decide,
    (by show (112 = 112 ∨ 112 = 80 ∨ ((112 = 101 ∨ 112 = 69) ∧ 16 ≠ 16)) ∧ IsDigitsB 10 (UDigits.bytes (plainU [50, 48, 48])) ∧
          (plainU [50, 48, 48] : UDigits) ≠ [] ∧ UDigits.HeadPlain (plainU [50, 48, 48]) ∧ _
        decide),
    fun h => absurd rfl h, (fun h => by cases h), trivial⟩

example : litP200.render = "0x1p-200".toList.map chr := by decide

example : ∃ (d : Dec) (ρ : ℚ), 0 < ρ ∧ |ρ - 1| ≤ 1 / (10 : ℚ) ^ 50 ∧
    Spec.agrees d (Spec.round .ToNearestEven 34 false ((1 : ℚ) / ((2 : ℚ) ^ 200 * ρ)) 0) = true ∧
    parse {} ("0x1p-200".toList.map chr) 0 =
      (if (Spec.round .ToNearestEven 34 false ((1 : ℚ) / ((2 : ℚ) ^ 200 * ρ)) 0).form = .finite
       then .ok (d, 16) else .error .expOverflow) := by
  have hv : litP200.coef = 1 ∧ litP200.exp10 = 0 ∧ litP200.exp2 = -200 := by decide
  obtain ⟨hc, h10, h2⟩ := hv
  have hnd : ndigits 1 = 1 := ndigits_one
  obtain ⟨d, ρ, e1, e2, e3, _, _, e6⟩ := parseB_bound {} litP200 0 litP200_wf (by rw [hc]; omega)
    (by rw [hc, h10, hnd, MinExp_eq]; norm_num) (by rw [hc, h10, hnd, MaxExp_eq]; norm_num) (by show 0 + 38 ≤ 2147483647; omega)
    (by rw [h2]; omega) (by rw [h2]; norm_num)
  have hr : litP200.render = "0x1p-200".toList.map chr := by decide
  rw [hc, h10, h2] at e3 e6
  rw [hr] at e6
  have hb : litP200.b = 16 := rfl
  have hs : litP200.sign = false := rfl
  rw [hb, hs] at e6
  rw [hs] at e3
  refine ⟨d, ρ, e1, by simpa using e2, by simpa using e3, ?_⟩
  simpa using e6

/-- "1p9223372036854775807" (base 10): `pow2` overflows; as repaired, an error (before: +Inf, Exact). -/
private def litHuge : LitB :=
  { b := 10, ip := [(false, 49)],
    ex := some (112, none, plainU [57,50,50,51,51,55,50,48,51,54,56,53,52,55,55,53,56,48,55]) }

private theorem litHuge_wf : litHuge.WF 10 :=
  ⟨Or.inl ⟨rfl, rfl, by omega⟩, by decide, by decide, by decide,
    (by show (112 = 112 ∨ 112 = 80 ∨ ((112 = 101 ∨ 112 = 69) ∧ 10 ≠ 16)) ∧
          IsDigitsB 10 (UDigits.bytes (plainU [57,50,50,51,51,55,50,48,51,54,56,53,52,55,55,53,56,48,55])) ∧
          (plainU [57,50,50,51,51,55,50,48,51,54,56,53,52,55,55,53,56,48,55] : UDigits) ≠ [] ∧
          UDigits.HeadPlain (plainU [57,50,50,51,51,55,50,48,51,54,56,53,52,55,55,53,56,48,55]) ∧ _
        decide),
    (fun _ => by decide), (fun _ => by decide), trivial⟩

example : litHuge.render = "1p9223372036854775807".toList.map chr := by decide

example (z : Dec) (hz : z.prec + 38 ≤ 2147483647) :
    parse z ("1p9223372036854775807".toList.map chr) 10 = .error .expOverflow := by
  have hv : litHuge.coef = 1 ∧ litHuge.exp10 = 0 ∧ litHuge.exp2 = 9223372036854775807 := by decide
  obtain ⟨hc, h10, h2⟩ := hv
  have hnd : ndigits 1 = 1 := ndigits_one
  have hr : litHuge.render = "1p9223372036854775807".toList.map chr := by decide
  rw [← hr]
  exact parseB_range_error_pow2 z litHuge 10 litHuge_wf (by rw [hc]; omega)
    (by rw [hc, h10, hnd, MinExp_eq]; norm_num) (by rw [hc, h10, hnd, MaxExp_eq]; norm_num) hz
    (by rw [h2]; norm_num) (by rw [h2]; norm_num)

/-- rejected strings. -/
private def litB10 : LitB := { b := 2, pfx := some 98, ip := plainU [49, 48] }   -- "0b10"
private theorem litB10_wf : litB10.WF 0 :=
  ⟨Or.inr ⟨rfl, (by decide : prefixBase 98 = some 2)⟩, by decide, by decide, by decide, trivial,
    fun h => absurd rfl h, (fun h => by cases h), trivial⟩

private def litX1 : LitB := { b := 16, pfx := some 120, ip := plainU [49] }      -- "0x1"
private theorem litX1_wf : litX1.WF 0 :=
  ⟨Or.inr ⟨rfl, (by decide : prefixBase 120 = some 16)⟩, by decide, by decide, by decide, trivial,
    fun h => absurd rfl h, (fun h => by cases h), trivial⟩

private def litX1dot : LitB := { b := 16, pfx := some 120, ip := plainU [49], fp := some [] }      -- "0x1."
private theorem litX1dot_wf : litX1dot.WF 0 :=
  ⟨Or.inr ⟨rfl, (by decide : prefixBase 120 = some 16)⟩, by decide, by decide, by decide, trivial,
    fun h => absurd rfl h, (fun h => by cases h), trivial⟩

example (z : Dec) : parse z ("0b102".toList.map chr) 0 = .error .trailing := by
  have hc : litB10.coef = 2 := by decide
  have hnd : ndigits 2 = 1 := ndigits_unique (by norm_num) (by norm_num) (by norm_num)
  obtain ⟨e10, _⟩ := exps_of_integer litB10 rfl rfl
  exact reject_digit_ge_base z litB10 0 litB10_wf rfl 50 [] (by decide) (by omega) (by omega) (by omega)
    (fun _ h => by cases h)
    (scanTail_ok _ _ _ _ _ (Or.inr (by
      obtain ⟨_, e2⟩ := exps_of_integer litB10 rfl rfl
      rw [hc, e10, hnd, MinExp_eq, MaxExp_eq]; exact ⟨by norm_num, by norm_num, e2⟩)))
example (z : Dec) : parse z ("0x".toList.map chr) 0 = .error .noDigits :=
  reject_prefix_noDigits z none 120 16 (by decide) false [] trivial
example (z : Dec) : parse z ("-0B.".toList.map chr) 0 = .error .noDigits :=
  reject_prefix_noDigits z (some true) 66 2 (by decide) true [] trivial
example (z : Dec) : parse z ("0o8".toList.map chr) 0 = .error .noDigits :=
  reject_prefix_noDigits z none 111 8 (by decide) false [56] ⟨by decide, by omega, by omega⟩
example (z : Dec) : parse z ("g".toList.map chr) 16 = .error .noDigits :=
  reject_noMantDigitsB z none 16 16 none false [103] (Or.inl ⟨rfl, rfl, by omega⟩) ⟨by decide, by simp, by omega⟩
    (fun _ _ _ => ⟨by simp, by simp [NoSignHead]⟩) (not_IsInfStr_short _ (by simp [signBytes, renderPfx]))
example (z : Dec) : parse z ("+INF".toList.map chr) 16 = .error .noDigits :=
  reject_inf_variants z (some false) 73 [78, 70] 16 (Or.inl rfl) (by omega) (by unfold IsInfStr; simp [signBytes])
example (z : Dec) : parse z ("infinity".toList.map chr) 0 = .error .noDigits :=
  reject_inf_variants z none 105 [110, 102, 105, 110, 105, 116, 121] 0 (Or.inr rfl) (by omega)
    (by unfold IsInfStr; simp [signBytes])
example (z : Dec) : parse z ("0x1p".toList.map chr) 0 = .error .noDigits :=
  reject_exp_noDigitsB z litX1 0 litX1_wf rfl 112 (Or.inl rfl) none [] trivial (fun _ => trivial)
example (z : Dec) : parse z ("0x1p+".toList.map chr) 0 = .error .noDigits :=
  reject_exp_noDigitsB z litX1 0 litX1_wf rfl 112 (Or.inl rfl) (some false) [] trivial (fun h => by cases h)
example (z : Dec) : parse z ("0x1p9223372036854775808".toList.map chr) 0 = .error .expRange :=
  reject_expRangeB z litX1 0 litX1_wf rfl 112 (Or.inl rfl) none
    (plainU [57,50,50,51,51,55,50,48,51,54,56,53,52,55,55,53,56,48,56]) [] (by decide) (by decide)
    (fun h => absurd rfl h) trivial (by decide)
example (z : Dec) : parse z ("0x1p5_".toList.map chr) 0 = .error .invalSep :=
  reject_exp_trailing_sep z litX1 litX1_wf rfl 112 (Or.inl rfl) none (plainU [53]) [] (by decide) (by decide)
    (by decide) trivial (by decide)
example (z : Dec) : parse z ("0x1__2".toList.map chr) 0 = .error .invalSep :=
  reject_mant_sep_nondigit z litX1 litX1_wf rfl [95, 50] (by decide)
example (z : Dec) : parse z ("0x1_p3".toList.map chr) 0 = .error .invalSep :=
  reject_mant_sep_nondigit z litX1 litX1_wf rfl [112, 51] (by decide)
example (z : Dec) : parse z ("0x1._8".toList.map chr) 0 = .error .invalSep :=
  reject_sep_after_point z litX1dot litX1dot_wf rfl rfl [56]
example (z : Dec) : parse z ("1_0".toList.map chr) 16 = .error .trailing :=
  reject_sep_explicit_base z none 16 [49] [48] (by omega) (by decide) (by decide)
    (Or.inr (by
      have h1 : valB 16 [49] = 1 := by decide
      rw [h1, ndigits_one, MaxExp_eq]; norm_num))
example (z : Dec) : parse z ("0x10".toList.map chr) 16 = .error .trailing :=
  reject_prefix_explicit_base z none 16 120 [49, 48] (by omega) (Or.inl rfl)
example (z : Dec) : parse z ("0b1".toList.map chr) 2 = .error .trailing :=
  reject_prefix_explicit_base z none 2 98 [49] (by omega) (Or.inr (Or.inr (Or.inr (Or.inr ⟨Or.inl rfl, by omega⟩))))

/-! ### 5. findings (model = Go on all of them; see the header) -/

private def showParse (s : String) (prec : Nat) (mode : Mode) (base : Nat) : String :=
  match parse { prec := prec, mode := mode } (s.toList.map Char.toNat) base with
  | .ok (d, b) => s!"{repr d.form} neg={d.neg} mant={d.mant} len={d.len} exp={d.exp} acc={d.acc} base={b}"
  | .error e => s!"error {repr e}"

-- double rounding through `pow2` (2^67 has 21 digits > 1 + 19): exact value 2.9999999999999999999999999999997…e50
#eval showParse "2032879073410320813763974001631p67" 1 .ToZero 10        -- 3e50, acc Below  (correct: 2e50)
#eval showParse "2032879073410320813763974001631p67" 1 .AwayFromZero 10  -- 4e50, acc Above  (correct: 3e50)
#eval showParse "1694065894508600678136645001359p67" 1 .ToNearestEven 10 -- 3e50            (correct: 2e50)
-- `pow2` overflows to +Inf although the literal is representable. Before the repair (/repo 435b421): +Inf / 0
-- with accuracy Exact and no error; as repaired: the error expOverflow
#eval showParse "0.0000000001p7133786270" 5 .ToNearestEven 10            -- value 8.4308e2147483639
#eval showParse "1000000000000p-7133786300" 5 .ToNearestEven 10          -- value ≈ 1.09e-2147483647
#eval showParse "1p9223372036854775807" 5 .ToNearestEven 10

#print axioms value_eq
#print axioms parseB_eq
#print axioms parseB_zero
#print axioms parseB_overflow
#print axioms parseB_correct
#print axioms parseB_correct_ok
#print axioms parseB_range_error
#print axioms parseB_range_error_pow2
#print axioms parseB_correct_value
#print axioms parseB_integer_correct
#print axioms hex_e_is_digit
#print axioms parseB_bound
#print axioms pow2_exact_when_fits
#print axioms pow2_error_bound
#print axioms reject_trailingB
#print axioms reject_digit_ge_base
#print axioms reject_noMantDigitsB
#print axioms reject_prefix_noDigits
#print axioms reject_exp_noDigitsB
#print axioms reject_expRangeB
#print axioms reject_exp_trailing_sep
#print axioms reject_exp_leading_sep
#print axioms reject_mant_sep_nondigit
#print axioms reject_sep_after_point
#print axioms reject_sep_explicit_base
#print axioms reject_prefix_explicit_base
#print axioms reject_inf_variants
#print axioms parse_inf_forms
#print axioms parse_ok_is_literal
#print axioms parse_accepts_iff

end Decimal.C12b
