/-
  C09 — precision and rounding mode are sticky (L1 model).

  Every public operation keeps the receiver's rounding mode, and keeps the receiver's
  precision unless it is 0, in which case the documented replacement is used (the largest
  operand precision for the arithmetic operations, the operand's precision for Set/Neg/Abs,
  34 for setBits64/SetInt).  `Copy`, `SetMantExp` and `MantExp` copy both attributes from
  their argument.  `SetPrec`/`SetMode` set exactly the requested attribute.

  The flags `sx sy su`/`same` say whether the operand *is* the receiver variable.  The model
  reads `x.prec` in the prologue also when `sx = true`; the general theorems below hold for
  every flag combination and every argument; the `_alias` corollaries instantiate the
  aliased operand with the receiver itself (which is what the Go call does).
-/
import Proofs.Attr

namespace Decimal.C09

open Decimal

/-! ### Add Sub Mul Quo FMA -/

theorem add_mode_sticky (z x y : Dec) (sx sy : Bool) : (add z x y sx sy).1.mode = z.mode :=
  Decimal.add_mode z x y sx sy
theorem sub_mode_sticky (z x y : Dec) (sx sy : Bool) : (sub z x y sx sy).1.mode = z.mode :=
  Decimal.sub_mode z x y sx sy
theorem mul_mode_sticky (z x y : Dec) (sx sy : Bool) : (mul z x y sx sy).1.mode = z.mode :=
  Decimal.mul_mode z x y sx sy
theorem quo_mode_sticky (z x y : Dec) (sx sy : Bool) : (quo z x y sx sy).1.mode = z.mode :=
  Decimal.quo_mode z x y sx sy
theorem fma_mode_sticky (z x y u : Dec) (sx sy su : Bool) :
    (fma z x y u sx sy su).1.mode = z.mode :=
  Decimal.fma_mode z x y u sx sy su

theorem add_prec_sticky (z x y : Dec) (sx sy : Bool) :
    (add z x y sx sy).1.prec = if z.prec = 0 then umax x.prec y.prec else z.prec :=
  Decimal.add_prec z x y sx sy
theorem sub_prec_sticky (z x y : Dec) (sx sy : Bool) :
    (sub z x y sx sy).1.prec = if z.prec = 0 then umax x.prec y.prec else z.prec :=
  Decimal.sub_prec z x y sx sy
theorem mul_prec_sticky (z x y : Dec) (sx sy : Bool) :
    (mul z x y sx sy).1.prec = if z.prec = 0 then umax x.prec y.prec else z.prec :=
  Decimal.mul_prec z x y sx sy
theorem quo_prec_sticky (z x y : Dec) (sx sy : Bool) :
    (quo z x y sx sy).1.prec = if z.prec = 0 then umax x.prec y.prec else z.prec :=
  Decimal.quo_prec z x y sx sy
theorem fma_prec_sticky (z x y u : Dec) (sx sy su : Bool) :
    (fma z x y u sx sy su).1.prec =
      if z.prec = 0 then umax (umax x.prec y.prec) u.prec else z.prec :=
  Decimal.fma_prec z x y u sx sy su

/-- The non-aliased instances, as asked for. -/
theorem add_prec_distinct (z x y : Dec) :
    (add z x y false false).1.prec = if z.prec = 0 then umax x.prec y.prec else z.prec :=
  Decimal.add_prec z x y false false

/-- `z.Add(z, y)`: the aliased operand is the receiver, so a zero precision becomes `y.prec`. -/
theorem add_prec_alias_x (z y : Dec) :
    (add z z y true false).1.prec = if z.prec = 0 then y.prec else z.prec := by
  rw [Decimal.add_prec]; split
  · next h => rw [h, umax_zero_left]
  · rfl
theorem add_prec_alias_y (z x : Dec) :
    (add z x z false true).1.prec = if z.prec = 0 then x.prec else z.prec := by
  rw [Decimal.add_prec]; split
  · next h => rw [h, umax_zero_right]
  · rfl
/-- `z.Add(z, z)` never changes the precision (a zero precision stays zero). -/
theorem add_prec_alias_xy (z : Dec) : (add z z z true true).1.prec = z.prec := by
  rw [Decimal.add_prec]; split
  · next h => rw [h, umax_zero_left]
  · rfl
theorem sub_prec_alias_x (z y : Dec) :
    (sub z z y true false).1.prec = if z.prec = 0 then y.prec else z.prec := by
  rw [Decimal.sub_prec]; split
  · next h => rw [h, umax_zero_left]
  · rfl
theorem sub_prec_alias_y (z x : Dec) :
    (sub z x z false true).1.prec = if z.prec = 0 then x.prec else z.prec := by
  rw [Decimal.sub_prec]; split
  · next h => rw [h, umax_zero_right]
  · rfl
theorem mul_prec_alias_x (z y : Dec) :
    (mul z z y true false).1.prec = if z.prec = 0 then y.prec else z.prec := by
  rw [Decimal.mul_prec]; split
  · next h => rw [h, umax_zero_left]
  · rfl
theorem mul_prec_alias_y (z x : Dec) :
    (mul z x z false true).1.prec = if z.prec = 0 then x.prec else z.prec := by
  rw [Decimal.mul_prec]; split
  · next h => rw [h, umax_zero_right]
  · rfl
theorem quo_prec_alias_x (z y : Dec) :
    (quo z z y true false).1.prec = if z.prec = 0 then y.prec else z.prec := by
  rw [Decimal.quo_prec]; split
  · next h => rw [h, umax_zero_left]
  · rfl
theorem quo_prec_alias_y (z x : Dec) :
    (quo z x z false true).1.prec = if z.prec = 0 then x.prec else z.prec := by
  rw [Decimal.quo_prec]; split
  · next h => rw [h, umax_zero_right]
  · rfl
/-- `z.FMA(x, y, z)`. -/
theorem fma_prec_alias_u (z x y : Dec) :
    (fma z x y z false false true).1.prec = if z.prec = 0 then umax x.prec y.prec else z.prec := by
  rw [Decimal.fma_prec]; split
  · next h => rw [h, umax_zero_right]
  · rfl

example : (add { prec := 0 } { prec := 5 } { prec := 7 }).1.prec = 7 := by decide
example : (add { prec := 3, mode := .ToZero } { prec := 5 } { prec := 7 }).1.prec = 3 := by decide
example : (fma { prec := 0, mode := .ToZero } { prec := 5 } { prec := 7 } { prec := 6 }).1.mode = .ToZero := by
  decide

/-! ### Set Neg Abs -/

theorem set_mode_sticky (z x : Dec) (same : Bool) : (set z x same).mode = z.mode :=
  Decimal.set_mode z x same
theorem set_prec_sticky (z x : Dec) (same : Bool) :
    (set z x same).prec = if same = false ∧ z.prec = 0 then x.prec else z.prec :=
  Decimal.set_prec z x same
theorem neg_mode_sticky (z x : Dec) (same : Bool) : (neg z x same).mode = z.mode :=
  Decimal.neg_mode z x same
theorem neg_prec_sticky (z x : Dec) (same : Bool) :
    (neg z x same).prec = if same = false ∧ z.prec = 0 then x.prec else z.prec :=
  Decimal.neg_prec z x same
theorem abs_mode_sticky (z x : Dec) (same : Bool) : (abs z x same).mode = z.mode :=
  Decimal.abs_mode z x same
theorem abs_prec_sticky (z x : Dec) (same : Bool) :
    (abs z x same).prec = if same = false ∧ z.prec = 0 then x.prec else z.prec :=
  Decimal.abs_prec z x same

example : (set { prec := 0 } { prec := 9 }).prec = 9 := by decide
example : (neg { prec := 4 } { prec := 9 }).prec = 4 := by decide

/-! ### SetPrec SetMode SetInf -/

theorem setPrec_mode_sticky (z : Dec) (p : Nat) : (setPrec z p).mode = z.mode :=
  Decimal.setPrec_mode z p
/-- `SetPrec(p)`: the precision becomes `min p MaxPrec` (0 stays 0). -/
theorem setPrec_prec (z : Dec) (p : Nat) :
    (setPrec z p).prec = if p = 0 then 0 else if p > MaxPrec then MaxPrec else p :=
  Decimal.setPrec_prec z p
theorem setMode_mode (z : Dec) (m : Mode) : (setMode z m).mode = m := rfl
theorem setMode_prec_sticky (z : Dec) (m : Mode) : (setMode z m).prec = z.prec := rfl
theorem setInf_mode_sticky (z : Dec) (s : Bool) : (setInf z s).mode = z.mode := rfl
theorem setInf_prec_sticky (z : Dec) (s : Bool) : (setInf z s).prec = z.prec := rfl

example : (setPrec { prec := 9, mode := .ToZero } 5).prec = 5 := by decide
example : (setPrec { prec := 9 } 5000000000).prec = MaxPrec := by decide

/-! ### setBits64 SetInt SetBitsExp -/

theorem setBits64_mode_sticky (z : Dec) (n : Bool) (x : Nat) (e : Int) :
    (setBits64 z n x e).mode = z.mode :=
  Decimal.setBits64_mode z n x e
theorem setBits64_prec_sticky (z : Dec) (n : Bool) (x : Nat) (e : Int) :
    (setBits64 z n x e).prec = if z.prec = 0 then DefaultPrec else z.prec :=
  Decimal.setBits64_prec z n x e
theorem setInt_mode_sticky (z : Dec) (x : Int) : (setInt z x).mode = z.mode :=
  Decimal.setInt_mode z x
theorem setInt_prec_sticky (z : Dec) (x : Int) (h : z.prec ≠ 0) : (setInt z x).prec = z.prec :=
  Decimal.setInt_prec_nonzero z x h
theorem setInt_prec_zero (z : Dec) (x : Int) (h : z.prec = 0) :
    (setInt z x).prec =
      if x = 0 then DefaultPrec
      else umax (if ndigits x.natAbs > MaxPrec then MaxPrec else ndigits x.natAbs) DefaultPrec :=
  Decimal.setInt_prec_zero z x h
theorem setBitsExp_mode_sticky (z : Dec) (M r : Nat) (e : Int) :
    (setBitsExp z M r e).mode = z.mode :=
  Decimal.setBitsExp_mode z M r e
theorem setBitsExp_prec_sticky (z : Dec) (M r : Nat) (e : Int) :
    (setBitsExp z M r e).prec = z.prec :=
  Decimal.setBitsExp_prec z M r e

example : (setBits64 { prec := 0 } false 0 0).prec = 34 := by decide
example : (setInt { prec := 7 } 0).prec = 7 := setInt_prec_sticky _ _ (by decide)

/-! ### Copy SetMantExp MantExp: both attributes are copied from the argument -/

theorem copy_prec (z x : Dec) (same : Bool) :
    (copy z x same).prec = if same then z.prec else x.prec :=
  Decimal.copy_prec z x same
theorem copy_mode (z x : Dec) (same : Bool) :
    (copy z x same).mode = if same then z.mode else x.mode :=
  Decimal.copy_mode z x same
theorem setMantExp_prec (z m : Dec) (e : Int) (same : Bool) :
    (setMantExp z m e same).prec = if same then z.prec else m.prec :=
  Decimal.setMantExp_prec z m e same
theorem setMantExp_mode (z m : Dec) (e : Int) (same : Bool) :
    (setMantExp z m e same).mode = if same then z.mode else m.mode :=
  Decimal.setMantExp_mode z m e same
/-- `x.MantExp(mant)`: the new state of `mant` has `x`'s attributes. -/
theorem mantExp_prec (x m : Dec) (same : Bool) :
    (mantExp x m same).2.prec = if same then m.prec else x.prec :=
  Decimal.mantExp_prec x m same
theorem mantExp_mode (x m : Dec) (same : Bool) :
    (mantExp x m same).2.mode = if same then m.mode else x.mode :=
  Decimal.mantExp_mode x m same

example : (copy { prec := 3 } { prec := 8, mode := .ToZero }).mode = .ToZero := by decide

#print axioms add_mode_sticky
#print axioms sub_mode_sticky
#print axioms mul_mode_sticky
#print axioms quo_mode_sticky
#print axioms fma_mode_sticky
#print axioms add_prec_sticky
#print axioms sub_prec_sticky
#print axioms mul_prec_sticky
#print axioms quo_prec_sticky
#print axioms fma_prec_sticky
#print axioms add_prec_alias_x
#print axioms fma_prec_alias_u
#print axioms set_prec_sticky
#print axioms neg_prec_sticky
#print axioms abs_prec_sticky
#print axioms setPrec_prec
#print axioms setPrec_mode_sticky
#print axioms setBits64_prec_sticky
#print axioms setInt_prec_sticky
#print axioms setInt_prec_zero
#print axioms setBitsExp_prec_sticky
#print axioms copy_prec
#print axioms setMantExp_prec
#print axioms setMantExp_mode
#print axioms mantExp_prec

end Decimal.C09
