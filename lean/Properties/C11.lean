/-
  C11 — Text output, shortest scientific form, and its round trip through `Parse`.

  Model: `DecimalModel/Text.lean` (`append`, `fmtE`, `toa`, `natDigits` = `Nat.repr`) and
  `DecimalModel/Parse.lean`. For a canonical finite `x` (`0 < mant`, `ndigits mant = 19·len`, exponent in
  `[MinExp, MaxExp]`) the text `x.Append(nil, 'e', -1)` is the literal `shortestLit x`
      [-] d [ . ddd ] e ± dd
  whose digits are those of the mantissa without its trailing zeros: exactly `minPrec x` of them.

  Proofs: Proofs/TextRT.lean (digits of `Nat.repr` read back give the number; shape of `fmtE`),
  Proofs/Scan.lean (`parse_lit`), Proofs/Round.lean (`setNormAndRound_eq_roundInt`).
-/
import Proofs.TextRT
import Mathlib.Tactic.NormNum

namespace Decimal.C11
open Decimal

/-- The decimal digits written by `Nat.repr` (`natDigits`), read back in base 10, give the number;
    they are digit bytes, and there are `ndigits n` of them. -/
theorem natDigits_readback (n : Nat) :
    (natDigits n).map Char.toNat = bytesOf (decDigits n) ∧ IsDigits (decDigits n) ∧ ofDigits (decDigits n) = n ∧
      (0 < n → (decDigits n).length = ndigits n) :=
  ⟨natDigits_bytes n, decDigits_isDigits n, ofDigits_decDigits n, fun h => decDigits_length h⟩

/--
  **text_shortest_digits.** The bytes of `append x 'e' (-1)` are the rendering of the well-formed
  literal `shortestLit x`; its mantissa has exactly `minPrec x` digits, the last of which is not 0
  (`coef % 10 ≠ 0`); its sign is `x`'s; and its value `coef × 10^exp10` is exactly `x`'s value
  `mant × 10^(exp − 19·len)`:  `coef × 10^(19·len − minPrec x) = mant` and `exp10 = exp − minPrec x`.
-/
theorem text_shortest_digits (x : Dec) (hf : x.form = .finite) (hM : 0 < x.mant)
    (hc : ndigits x.mant = 19 * x.len) (hlo : MinExp ≤ x.exp) (hhi : x.exp ≤ MaxExp) :
    (append x 'e' (-1)).map Char.toNat = (shortestLit x).render ∧
    (shortestLit x).WF ∧
    ((shortestLit x).ip ++ (shortestLit x).frac).length = minPrec x ∧
    (shortestLit x).coef % 10 ≠ 0 ∧
    (shortestLit x).sign = x.neg ∧
    (shortestLit x).coef * 10 ^ (19 * x.len - minPrec x) = x.mant ∧
    (shortestLit x).exp10 = x.exp - (minPrec x : Int) := by
  have hcp := oddPart_pos hM
  refine ⟨append_e_shortest x hf hM hc, shortestLit_wf x hlo hhi, ?_, ?_, shortestLit_sign x, ?_,
    shortestLit_exp10 x hf hM hc⟩
  · rw [shortestLit_digits, decDigits_length hcp, ndigits_oddPart x hf hc]
  · rw [shortestLit_coef]; exact (trailingZeros_spec hM).2
  · rw [shortestLit_coef]
    have h1 := (trailingZeros_spec hM).1
    have h2 := minPrec_finite_g x hf
    have h3 := ndigits_oddPart x hf hc
    have h4 := ndigits_pos hcp
    have h5 := ndigits_div_pow x.mant (trailingZeros x.mant)
    unfold oddPart at h3 h4 ⊢
    have : 19 * x.len - minPrec x = trailingZeros x.mant := by omega
    rw [this]; exact h1

/--
  **parse_text_roundtrip_e.** Parsing that text (base 10 or base 0) into a receiver whose precision
  (34 when 0) is at least `minPrec x` succeeds, detects base 10, and returns a finite Decimal with the
  sign, the exponent and the mantissa fraction of `x` (`0.mant` compared at a common length), accuracy
  Exact; precision and mode are the receiver's.
-/
theorem parse_text_roundtrip_e (z x : Dec) (base : Nat) (hbase : base = 10 ∨ base = 0)
    (hf : x.form = .finite) (hM : 0 < x.mant) (hc : ndigits x.mant = 19 * x.len)
    (hlo : MinExp ≤ x.exp) (hhi : x.exp ≤ MaxExp)
    (hp : minPrec x ≤ (if z.prec = 0 then 34 else z.prec)) :
    ∃ d, parse z ((append x 'e' (-1)).map Char.toNat) base = .ok (d, 10) ∧
      d.form = .finite ∧ d.neg = x.neg ∧ d.acc = Exact ∧ d.exp = x.exp ∧
      d.mant * 10 ^ (19 * x.len) = x.mant * 10 ^ (19 * d.len) ∧
      d.prec = (if z.prec = 0 then 34 else z.prec) ∧ d.mode = z.mode :=
  parse_shortest z x base hbase hf hM hc hlo hhi hp

/-! ### non-vacuity -/

/-- `-0.12345 × 10^-2`, one word. -/
private def x1 : Dec := { form := .finite, neg := true, mant := 1234500000000000000, len := 1, exp := -2, prec := 34 }

private theorem x1_canon : ndigits x1.mant = 19 * x1.len :=
  ndigits_unique (by norm_num [x1]) (by norm_num [x1]) (by norm_num [x1])

private theorem x1_minPrec : minPrec x1 = 5 := by
  have h : trailingZeros (12345 * 10 ^ 14) = 14 := trailingZeros_mul_pow_g (by norm_num) 14
  have e : x1.mant = 12345 * 10 ^ 14 := by norm_num [x1]
  rw [minPrec_finite_g x1 rfl, e, h]; rfl

-- #eval String.ofList (append x1 'e' (-1))   -- "-1.2345e-03"

example : (append x1 'e' (-1)).map Char.toNat = (shortestLit x1).render ∧
    ((shortestLit x1).ip ++ (shortestLit x1).frac).length = 5 := by
  have h := text_shortest_digits x1 rfl (by norm_num [x1]) x1_canon (by decide) (by decide)
  exact ⟨h.1, by rw [h.2.2.1, x1_minPrec]⟩

/-- read back into a 5-digit receiver (the minimum), any mode. -/
example (m : Mode) : ∃ d, parse { prec := 5, mode := m } ((append x1 'e' (-1)).map Char.toNat) 10 = .ok (d, 10) ∧
    d.form = .finite ∧ d.neg = true ∧ d.acc = Exact ∧ d.exp = -2 ∧
    d.mant * 10 ^ 19 = 1234500000000000000 * 10 ^ (19 * d.len) ∧ d.prec = 5 ∧ d.mode = m := by
  have h := parse_text_roundtrip_e { prec := 5, mode := m } x1 10 (Or.inl rfl) rfl (by norm_num [x1]) x1_canon
    (by decide) (by decide) (by rw [x1_minPrec]; simp)
  simpa [x1] using h

#print axioms natDigits_readback
#print axioms text_shortest_digits
#print axioms parse_text_roundtrip_e

end Decimal.C11
