/-
  C15: `SetFloat64` stores the exact value of the float64, rounded once to the receiver's
  precision (17 when it was 0) under the receiver's mode — value, sign and accuracy — and the
  binary specification `Spec/Binary.lean` used for `Float64`/`Float32` means what it says.

  Final statements only. Proofs: `Proofs/Binary.lean` (specification sanity),
  `Proofs/SetFloat64.lean` (`round_of_fits`, `pow2`, `SetFloat64`).

  Dependencies kept explicit: `setFloat64_correct` = `setFloat64_correct_of_pow2` applied to
  `pow2_exact`; the latter is proved in full (the whole square-and-multiply loop, every
  `n ≤ 1126`), so nothing is conditional.

  Side conditions that are necessary (counterexamples found by evaluation, see the examples at the
  end): `1 ≤ p` for the grid bound; `emin < emax` for the overflow threshold; after a carry the
  number of units is `2^p`, not `< 2^p`.
-/
import Proofs.Binary
import Proofs.SetFloat64
import Properties.C01
import Mathlib.Tactic.NormNum

namespace Decimal.C15
open Decimal Spec

/-! ### 1. Specification sanity: `floorLog2`, `nearestBin` -/

/-- `2^⌊log2 q⌋ ≤ q < 2^(⌊log2 q⌋+1)`. -/
theorem floorLog2_spec {q : ℚ} (hq : 0 < q) :
    pow2Rat (floorLog2 q) ≤ q ∧ q < pow2Rat (floorLog2 q + 1) :=
  Decimal.floorLog2_spec hq

/-- `pow2Rat` is the integer power of two. -/
theorem pow2Rat_eq (e : Int) : pow2Rat e = (2 : ℚ) ^ e := pow2Rat_eq_zpow e

section nearest
variable (p : Nat) (emin emax : Int) (q : ℚ)

/-- A finite result is a point of the format's grid: unit `2^u` with
    `u = max(⌊log2 q⌋, emin) − (p−1)`, at most `2^p` units (`= 2^p` only after a carry out of the top
    of the binade), at least `2^(p−1)` for a normal `q`, at most `2^(p−1)` for a subnormal one, and
    the value is below `2^emax`. -/
theorem nearestBin_grid (hq : 0 < q) (hp : 1 ≤ p) (h : (nearestBin p emin emax q).inf = false) :
    let r := nearestBin p emin emax q
    r.u = (if floorLog2 q < emin then emin else floorLog2 q) - ((p - 1 : Nat) : Int) ∧
    r.n ≤ 2 ^ p ∧ (emin ≤ floorLog2 q → 2 ^ (p - 1) ≤ r.n) ∧ (floorLog2 q < emin → r.n ≤ 2 ^ (p - 1)) ∧
    emin - ((p - 1 : Nat) : Int) ≤ r.u ∧ (r.n : ℚ) * pow2Rat r.u < pow2Rat emax := by
  intro r
  obtain ⟨a, b, c, d, e⟩ := Decimal.nearestBin_grid p emin emax q hq hp h
  rw [pow2Rat_eq_zpow, pow2Rat_eq_zpow]
  exact ⟨nearestBin_unit p emin emax q h, a, b, c, d, e⟩

/-- Nearest: the error is at most half a unit. -/
theorem nearestBin_nearest (hq : 0 < q) (h : (nearestBin p emin emax q).inf = false) :
    let r := nearestBin p emin emax q
    |q - (r.n : ℚ) * pow2Rat r.u| ≤ pow2Rat r.u / 2 := by
  intro r
  rw [pow2Rat_eq_zpow]
  exact Decimal.nearestBin_nearest p emin emax q hq h

/-- Ties go to the even number of units. -/
theorem nearestBin_tie_even (hq : 0 < q) (h : (nearestBin p emin emax q).inf = false)
    (htie : |q - ((nearestBin p emin emax q).n : ℚ) * pow2Rat (nearestBin p emin emax q).u|
      = pow2Rat (nearestBin p emin emax q).u / 2) :
    (nearestBin p emin emax q).n % 2 = 0 := by
  rw [pow2Rat_eq_zpow] at htie
  exact Decimal.nearestBin_tie_even p emin emax q hq h htie

/-- `acc` is the sign of (value − q). -/
theorem nearestBin_acc (hq : 0 < q) (h : (nearestBin p emin emax q).inf = false) :
    let r := nearestBin p emin emax q
    let v := (r.n : ℚ) * pow2Rat r.u
    (r.acc = 0 ↔ v = q) ∧ (r.acc = 1 ↔ q < v) ∧ (r.acc = -1 ↔ v < q) := by
  intro r v
  have := Decimal.nearestBin_acc p emin emax q hq h
  simp only [v, r, pow2Rat_eq_zpow]
  exact this

/-- Representable values are fixed points, with `acc = 0`. -/
theorem nearest_id_on_grid (hp : 1 ≤ p) (n0 : Nat) (u0 : Int) (hn0 : 0 < n0) (hn1 : n0 < 2 ^ p)
    (hu0 : emin - ((p - 1 : Nat) : Int) ≤ u0) (hq : q = (n0 : ℚ) * pow2Rat u0)
    (hmax : q < pow2Rat emax) :
    let r := nearestBin p emin emax q
    r.inf = false ∧ (r.n : ℚ) * pow2Rat r.u = q ∧ r.acc = 0 := by
  intro r
  rw [pow2Rat_eq_zpow] at hq hmax
  have := Decimal.nearest_id_on_grid p emin emax q hp n0 u0 hn0 hn1 hu0 hq hmax
  simp only [r, pow2Rat_eq_zpow]
  exact this

/-- Overflow, definitional form: the flag is raised iff the value rounded on the unbounded grid
    (`binValue`) reaches `2^emax`; an overflowed result has `n = 0`, `acc = +1`. -/
theorem nearestBin_inf_iff_value :
    (nearestBin p emin emax q).inf = true ↔ pow2Rat emax ≤ binValue p emin q := by
  rw [pow2Rat_eq_zpow]; exact Decimal.nearestBin_inf_iff_value p emin emax q

theorem nearestBin_inf_acc (h : (nearestBin p emin emax q).inf = true) :
    (nearestBin p emin emax q).acc = 1 ∧ (nearestBin p emin emax q).n = 0 :=
  Decimal.nearestBin_inf_acc p emin emax q h

/-- Overflow, IEEE form: exactly from the midpoint `2^emax − ½·2^(emax−p)` on. -/
theorem nearestBin_inf_iff (hq : 0 < q) (hp : 1 ≤ p) (hem : emin < emax) :
    (nearestBin p emin emax q).inf = true ↔ pow2Rat emax - pow2Rat (emax - (p : Int)) / 2 ≤ q := by
  rw [pow2Rat_eq_zpow, pow2Rat_eq_zpow]
  exact Decimal.nearestBin_inf_iff p emin emax q hq hp hem

end nearest

/-! ### 2. "fits ⇒ exact" and `pow2` -/

/-- A coefficient that fits the precision is returned unchanged, with `acc = Exact`. -/
theorem round_of_fits (mode : Mode) (p : Nat) (neg : Bool) (N : Nat) (k : Int) (hN : 0 < N)
    (hp : 1 ≤ p) (hfit : ndigits N ≤ p) (h1 : MinExp ≤ (ndigits N : Int) + k)
    (h2 : (ndigits N : Int) + k ≤ MaxExp) :
    Spec.round mode p neg (N : ℚ) k =
      { form := .finite, neg := neg, coef := N * 10 ^ (p - ndigits N),
        exp := (ndigits N : Int) + k, acc := Exact } :=
  Decimal.round_of_fits mode p neg N k hN hp hfit h1 h2

/-- `Spec.round` depends only on the magnitude `q × 10^k`. -/
theorem round_value_eq (mode : Mode) (p : Nat) (neg : Bool) (q q' : ℚ) (k k' : Int)
    (hq : 0 < q) (hq' : 0 < q') (h : q * (10 : ℚ) ^ k = q' * (10 : ℚ) ^ k') :
    Spec.round mode p neg q k = Spec.round mode p neg q' k' :=
  Decimal.round_value_eq mode p neg q q' k k' hq hq' h

/-- `pow2 800 n` holds exactly `2^n`, for every exponent `SetFloat64` needs (`n ≤ 1126`; both
    the `n < 64` fast path and the full square-and-multiply loop): finite, positive, canonical,
    accuracy `Exact`, precision 800, value `mant × 10^(exp − 19·len) = 2^n`. -/
theorem pow2_exact (n : Nat) (hn : n ≤ 1126) :
    let z := pow2 800 n
    z.form = .finite ∧ z.neg = false ∧ z.acc = Exact ∧ z.prec = 800 ∧ FinCanon z ∧ z.Canonical ∧
      (z.mant : ℚ) * (10 : ℚ) ^ (z.exp - ((z.len * 19 : Nat) : Int)) = (2 : ℚ) ^ n := by
  intro z
  obtain ⟨c, ng, ac, v, pr, can⟩ := pow2_isPow2 n hn
  refine ⟨c.form_eq, ng, ac, pr, c, can, ?_⟩
  rw [← v, decMag_zero, intExp_eq]

/-! ### 3. `SetFloat64` -/

/-- ±0 ↦ ±0 and ±Inf ↦ ±Inf with the sign bit, accuracy `Exact`; NaN ↦ `ErrNaN`, the receiver
    untouched apart from the precision prologue. -/
theorem setFloat64_special (z : Dec) (bits : Nat) :
    (f64E bits = 0 → f64F bits = 0 → setFloat64 z bits =
      ({ z with prec := f64Prec z, acc := Exact, neg := f64Neg bits, form := .zero }, .ok)) ∧
    (f64E bits = 2047 → f64F bits = 0 → setFloat64 z bits =
      ({ z with prec := f64Prec z, acc := Exact, neg := f64Neg bits, form := .inf }, .ok)) ∧
    (f64E bits = 2047 → f64F bits ≠ 0 → setFloat64 z bits = ({ z with prec := f64Prec z }, .errNaN)) :=
  ⟨setFloat64_zero z bits, setFloat64_inf z bits, setFloat64_nan z bits⟩

/-- Precision 17 iff it was 0, mode unchanged: every bit pattern. -/
theorem setFloat64_prec_mode (z : Dec) (bits : Nat) :
    (setFloat64 z bits).1.prec = (if z.prec == 0 then 17 else z.prec) ∧
      (setFloat64 z bits).1.mode = z.mode :=
  Decimal.setFloat64_prec_mode z bits

/-- The magnitude of the float, in the specification's vocabulary. -/
theorem float64Mag_eq (bits : Nat) :
    float64Mag bits =
      if bits / 2 ^ 52 % 2048 = 0 then ((bits % 2 ^ 52 : Nat) : ℚ) * pow2Rat (-1074)
      else ((2 ^ 52 + bits % 2 ^ 52 : Nat) : ℚ) * pow2Rat (((bits / 2 ^ 52 % 2048 : Nat) : Int) - 1075) :=
  rfl

/-- Finite non-zero float: the result agrees (value, sign, accuracy) with the exact value
    rounded once; relative to the exactness of `pow2` (hypothesis `hpow`). -/
theorem setFloat64_correct_of_pow2 (hpow : ∀ n, n ≤ 1126 → IsPow2 (pow2 800 n) 800 n)
    (z : Dec) (bits : Nat) (hE : f64E bits ≠ 2047) (hnz : ¬ (f64E bits = 0 ∧ f64F bits = 0)) :
    agrees (setFloat64 z bits).1
        (Spec.round z.mode (f64Prec z) (f64Neg bits) (float64Mag bits) 0) = true
      ∧ (setFloat64 z bits).2 = .ok ∧ (setFloat64 z bits).1.prec = f64Prec z
      ∧ (setFloat64 z bits).1.mode = z.mode :=
  Decimal.setFloat64_correct_of_pow2 hpow z bits hE hnz

/-- Unconditionally (`pow2_exact` discharges `hpow`). No hypothesis on the receiver at all. -/
theorem setFloat64_correct (z : Dec) (bits : Nat) (hE : f64E bits ≠ 2047)
    (hnz : ¬ (f64E bits = 0 ∧ f64F bits = 0)) :
    agrees (setFloat64 z bits).1
        (Spec.round z.mode (f64Prec z) (f64Neg bits) (float64Mag bits) 0) = true
      ∧ (setFloat64 z bits).2 = .ok ∧ (setFloat64 z bits).1.prec = f64Prec z
      ∧ (setFloat64 z bits).1.mode = z.mode :=
  Decimal.setFloat64_correct z bits hE hnz

/-- If the float's decimal expansion `N × 10^j` fits the precision, the stored value equals it and
    the accuracy is `Exact`. -/
theorem setFloat64_exact_when_fits (z : Dec) (bits : Nat) (hE : f64E bits ≠ 2047)
    (hnz : ¬ (f64E bits = 0 ∧ f64F bits = 0)) (N : Nat) (j : Int) (hN : 0 < N)
    (hv : float64Mag bits = (N : ℚ) * (10 : ℚ) ^ j) (hfit : ndigits N ≤ f64Prec z) :
    let r := (setFloat64 z bits).1
    r.form = .finite ∧ r.neg = f64Neg bits ∧ r.acc = Exact ∧
      (r.mant : ℚ) * (10 : ℚ) ^ (r.exp - ((r.len * 19 : Nat) : Int)) = float64Mag bits := by
  intro r
  obtain ⟨a, b, c, d⟩ := Decimal.setFloat64_exact_when_fits z bits hE hnz N j hN hv hfit
  refine ⟨a, b, c, ?_⟩
  rw [← d, decMag_zero, intExp_eq]

/-- Every finite non-zero float64 has a decimal expansion of at most 767 digits, so precision 767
    always stores it exactly. -/
theorem float64_expansion (bits : Nat) (hE : f64E bits ≠ 2047)
    (hnz : ¬ (f64E bits = 0 ∧ f64F bits = 0)) :
    ∃ (N : Nat) (j : Int), 0 < N ∧ ndigits N ≤ 767 ∧ -1074 ≤ j ∧ j ≤ 0 ∧
      float64Mag bits = (N : ℚ) * (10 : ℚ) ^ j :=
  float64Mag_expansion bits hE hnz

/-- The receiver stays canonical. -/
theorem setFloat64_canonical (z : Dec) (bits : Nat) (hz : z.Canonical) :
    (setFloat64 z bits).1.Canonical :=
  Decimal.setFloat64_canonical z bits hz

/-! ### Non-vacuity: every hypothesis is satisfiable, on concrete data -/

/-- `⌊log2 (5/3)⌋` brackets `5/3`. -/
example : pow2Rat (floorLog2 (5/3)) ≤ (5/3 : ℚ) ∧ (5/3 : ℚ) < pow2Rat (floorLog2 (5/3) + 1) :=
  floorLog2_spec (by norm_num)

/-- A toy format (3 bits, `emin = −2`, `emax = 3`): everything below `7.5` is finite. -/
theorem toy_finite (q : ℚ) (hq : 0 < q) (h : q < 15/2) : (nearestBin 3 (-2) 3 q).inf = false := by
  rw [Bool.eq_false_iff]
  intro hi
  have := (nearestBin_inf_iff 3 (-2) 3 q hq (by norm_num) (by norm_num)).mp hi
  simp only [pow2Rat_eq_zpow] at this
  norm_num at this
  linarith

example : (nearestBin 3 (-2) 3 (15/2)).inf = true :=
  (nearestBin_inf_iff 3 (-2) 3 (15/2) (by norm_num) (by norm_num) (by norm_num)).mpr
    (by simp only [pow2Rat_eq_zpow]; norm_num)

/-- `11/10` is not representable with 3 bits: all the finite-case theorems apply to it. -/
example : let r := nearestBin 3 (-2) 3 (11/10)
    r.n ≤ 2 ^ 3 ∧ |(11/10 : ℚ) - (r.n : ℚ) * pow2Rat r.u| ≤ pow2Rat r.u / 2 ∧ (r.acc = -1 ↔ (r.n : ℚ) * pow2Rat r.u < 11/10) := by
  have hq : (0 : ℚ) < 11/10 := by norm_num
  have h := toy_finite (11/10) hq (by norm_num)
  exact ⟨(nearestBin_grid 3 (-2) 3 (11/10) hq (by norm_num) h).2.1,
    nearestBin_nearest 3 (-2) 3 (11/10) hq h, (nearestBin_acc 3 (-2) 3 (11/10) hq h).2.2⟩

/-- A genuine tie: `9/8` lies midway between `4/4` and `5/4`; the even one is chosen. -/
example : (nearestBin 3 (-2) 3 (9/8)).n = 4 := by
  have hq : (0 : ℚ) < 9/8 := by norm_num
  have h := toy_finite (9/8) hq (by norm_num)
  have hfl : floorLog2 (9/8 : ℚ) = 0 := floorLog2_unique hq 0 (by norm_num) (by norm_num)
  have hu := (nearestBin_grid 3 (-2) 3 (9/8) hq (by norm_num) h).1
  have hn := nearestBin_nearest 3 (-2) 3 (9/8) hq h
  have hev := nearestBin_tie_even 3 (-2) 3 (9/8) hq h
  simp only [hfl] at hu
  have hu' : (nearestBin 3 (-2) 3 (9/8)).u = -2 := by rw [hu]; norm_num
  simp only [hu', pow2Rat_eq_zpow] at hn hev
  generalize (nearestBin 3 (-2) 3 (9/8)).n = n at *
  have h4 : (2 : ℚ) ^ (-2 : Int) = 1/4 := by norm_num
  rw [h4] at hn hev
  rw [abs_le] at hn
  have a : (4 : ℚ) ≤ n := by linarith [hn.2]
  have b : (n : ℚ) ≤ 5 := by linarith [hn.1]
  have a' : 4 ≤ n := by exact_mod_cast a
  have b' : n ≤ 5 := by exact_mod_cast b
  have hcase : n = 4 ∨ n = 5 := by omega
  have htie : |(9/8 : ℚ) - (n : ℚ) * (1/4)| = 1/4/2 := by
    rcases hcase with rfl | rfl <;> norm_num [abs_of_pos, abs_of_neg]
  have := hev htie
  omega

/-- binary64: `1.5 = 3 × 2^-1` is representable, hence returned as is. -/
example : let r := nearestBin 53 (-1022) 1024 ((3 : ℕ) * pow2Rat (-1))
    r.inf = false ∧ (r.n : ℚ) * pow2Rat r.u = (3 : ℕ) * pow2Rat (-1) ∧ r.acc = 0 :=
  nearest_id_on_grid 53 (-1022) 1024 _ (by norm_num) 3 (-1) (by norm_num) (by norm_num) (by norm_num) rfl
    (by
      rw [pow2Rat_eq_zpow, pow2Rat_eq_zpow]
      calc ((3 : ℕ) : ℚ) * (2 : ℚ) ^ (-1 : Int) < (2 : ℚ) ^ (1 : Int) := by norm_num
        _ ≤ (2 : ℚ) ^ (1024 : Int) := two_zpow_le (by norm_num))

/-- `12345` fits 10 digits. -/
example : Spec.round .ToZero 10 true (12345 : ℕ) (-3) =
    { form := .finite, neg := true, coef := 12345 * 10 ^ (10 - ndigits 12345),
      exp := (ndigits 12345 : Int) + (-3), acc := Exact } := by
  have hnd : ndigits 12345 = 5 := ndigits_unique (by norm_num) (by norm_num) (by norm_num)
  exact round_of_fits .ToZero 10 true 12345 (-3) (by norm_num) (by norm_num) (by rw [hnd]; norm_num)
    (by rw [hnd, MinExp_eq]; norm_num) (by rw [hnd, MaxExp_eq]; norm_num)

/-- The largest power `SetFloat64` asks for (smallest subnormals), and one on the fast path. -/
example : (pow2 800 1126).acc = Exact ∧
    ((pow2 800 1126).mant : ℚ) * (10 : ℚ) ^ ((pow2 800 1126).exp - (((pow2 800 1126).len * 19 : Nat) : Int))
      = (2 : ℚ) ^ 1126 :=
  let h := pow2_exact 1126 (by norm_num); ⟨h.2.2.1, h.2.2.2.2.2.2⟩
example : (pow2 800 10).form = .finite := (pow2_exact 10 (by norm_num)).1

/-- `0.1` (`0x3fb999999999999a`) into a fresh receiver (precision 17, nearest-even), the smallest
    subnormal into a 5-digit receiver rounding toward zero, the largest finite float. -/
example : agrees (setFloat64 {} 0x3fb999999999999a).1
    (Spec.round .ToNearestEven 17 false (float64Mag 0x3fb999999999999a) 0) = true :=
  (setFloat64_correct {} 0x3fb999999999999a (by decide) (by decide)).1
example : agrees (setFloat64 { prec := 5, mode := .ToZero } (2 ^ 63 + 1)).1
    (Spec.round .ToZero 5 true (float64Mag (2 ^ 63 + 1)) 0) = true :=
  (setFloat64_correct { prec := 5, mode := .ToZero } (2 ^ 63 + 1) (by decide) (by decide)).1
example : (setFloat64 { prec := 40 } 0x7fefffffffffffff).2 = .ok :=
  (setFloat64_correct { prec := 40 } 0x7fefffffffffffff (by decide) (by decide)).2.1

/-- `1.5 = 15 × 10^-1` fits every precision ≥ 2: stored exactly. -/
theorem mag_one_and_half : float64Mag 0x3ff8000000000000 = ((15 : ℕ) : ℚ) * (10 : ℚ) ^ (-1 : Int) := by
  rw [float64Mag_eq]
  simp only [pow2Rat_eq_zpow]
  norm_num

example : (setFloat64 { prec := 2 } 0x3ff8000000000000).1.acc = Exact := by
  have hnd : ndigits 15 = 2 := ndigits_unique (by norm_num) (by norm_num) (by norm_num)
  exact (setFloat64_exact_when_fits { prec := 2 } 0x3ff8000000000000 (by decide) (by decide) 15 (-1)
    (by norm_num) mag_one_and_half (by rw [hnd]; decide)).2.2.1

/-- Specials: `−0`, `+Inf`, a NaN. -/
example : (setFloat64 {} (2 ^ 63)).1.form = .zero ∧ (setFloat64 {} (2 ^ 63)).1.neg = true := by
  rw [(setFloat64_special {} (2 ^ 63)).1 (by decide) (by decide)]; exact ⟨rfl, by decide⟩
example : (setFloat64 {} 0x7ff0000000000000).1.form = .inf := by
  rw [(setFloat64_special {} 0x7ff0000000000000).2.1 (by decide) (by decide)]
example : (setFloat64 C01.xEx 0x7ff8000000000001) = ({ C01.xEx with prec := 5 }, .errNaN) :=
  (setFloat64_special C01.xEx 0x7ff8000000000001).2.2 (by decide) (by decide)
example : (setFloat64 {} 12345).1.prec = 17 := (setFloat64_prec_mode {} 12345).1

#print axioms floorLog2_spec
#print axioms nearestBin_grid
#print axioms nearestBin_nearest
#print axioms nearestBin_tie_even
#print axioms nearestBin_acc
#print axioms nearest_id_on_grid
#print axioms nearestBin_inf_iff_value
#print axioms nearestBin_inf_acc
#print axioms nearestBin_inf_iff
#print axioms round_of_fits
#print axioms round_value_eq
#print axioms pow2_exact
#print axioms setFloat64_special
#print axioms setFloat64_prec_mode
#print axioms setFloat64_correct_of_pow2
#print axioms setFloat64_correct
#print axioms setFloat64_exact_when_fits
#print axioms float64_expansion
#print axioms setFloat64_canonical

end Decimal.C15
