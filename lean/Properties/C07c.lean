/-
  C07c — the binary kernel `divWVW` of arith_amd64.s (REGENERATED from the assembly on every run,
  DecimalModel/Gen/AsmBig.lean).

      func divWVW(z []Word, xn Word, x []Word, y Word) (r Word)       /repo/arith_amd64.s:535

  It is the only routine of arith_amd64.s (the math/big-derived base-2^64 kernels) that non-test Go
  code of the package calls: `dec.setNat` runs `z[i] = divWVW(b, 0, b, _DB)` (in place, `xn = 0`,
  `y = 10^19`).  The translator (tools/gen: asm.go `genAsmBig`, main.go `usedBodyless`) selects the
  routines of that file by use, computed from the type-checked package; `asmBig_selection` pins the
  outcome, so that a library change that starts using another binary kernel breaks this module
  instead of silently adding an unproved routine.

  Shape (same as the tier-C theorems of C07 / C07b): for EVERY length, from ANY machine state whose
  argument frame describes the call and whose memory holds the operand, running the control-flow
  graph `Gen.AsmBig.program` from `divWVW_entry` terminates after `2n + 3` blocks, DIVQ raises no
  trap, the result slot receives the remainder and `z` the quotient words of the list-level model
  `Decimal.L0.divWVW` (DecimalModel/Radix.lean — the model of the portable twin `divWVW_g`,
  arith.go:210, a loop of `bits.Div`), every other memory word is unchanged.  Hypotheses: the words
  of `x` are 64-bit values, `xn < y` (the precondition of `bits.Div`; nothing is assumed about `y`
  beyond that), the vectors lie inside the address space, and `z` is `x` itself, or starts above `x`,
  or ends before `x` starts (the loop runs from the most significant word down).

  When the precondition fails (`xn ≥ y`, which includes `y = 0`) and there is at least one word, the
  first DIVQ raises #DE (`asm_divWVW_routine_traps`): Go turns it into the run-time panic "integer
  divide by zero" (`y = 0`) or "integer overflow" (`0 < y ≤ xn`); `divWVW_g` panics under the same
  condition inside `bits.Div`.  With no word at all no DIVQ is executed and `xn` is returned
  (`asm_divWVW_routine_empty`), exactly as the Go loop does.

  Arithmetic meaning through Proofs/Radix.lean (`divWVWrev_spec`, `divWVW_spec`):
  `q·y + r = xn·2^(64n) + x`, `r < y`, every quotient word fits 64 bits.

  Proofs: Proofs/AsmDivWVW.lean (block lemmas, induction over the runner, wrappers).
-/
import Proofs.AsmDivWVW
import Proofs.Radix

namespace Decimal.C07c
open Decimal Decimal.Gen Decimal.Asm Decimal.Gen.AsmBig

/-! ## what the translator selected -/

/-- exactly `divWVW` is translated from arith_amd64.s; the ten other TEXT routines of the file are
    passed over because no non-test Go code of the package refers to them -/
theorem asmBig_selection :
    routines = [("divWVW", Lbl.divWVW_entry)] ∧
    skipped = ["mulWW", "divWW", "addVV", "subVV", "addVW", "subVW", "shlVU", "shrVU", "mulAddVWW", "addMulVVW"] :=
  ⟨AsmBig.routines_eq, AsmBig.skipped_eq⟩

/-! ## memory level, every length -/

/-- `divWVW`: frame `(z, n, _, xn, x, n, _, y)`, ANY 64-bit words in `x`, `xn < y`. -/
theorem asm_divWVW_routine (s : St) (xs : List Nat) (xn y zp xp : Nat)
    (hf0 : s.frame.rd 0 = zp) (hf8 : s.frame.rd 8 = xs.length) (hf24 : s.frame.rd 24 = xn)
    (hf32 : s.frame.rd 32 = xp) (hf56 : s.frame.rd 56 = y)
    (hxs : ∀ x, x ∈ xs → x < 18446744073709551616) (hr : xn < y)
    (hxp : xp + 8 * xs.length ≤ 18446744073709551616) (hzp : zp + 8 * xs.length ≤ 18446744073709551616)
    (hal : xp ≤ zp ∨ zp + 8 * xs.length ≤ xp)
    (hmem : ∀ j, j < xs.length → s.mem.rd (xp + 8 * j) = xs.getD j 0) :
    ∃ s', Asm.run program (2 * xs.length + 3) Lbl.divWVW_entry s = some s' ∧
      s'.frame = s.frame.wr 64 (L0.divWVW xs xn y).2 ∧ s'.trap = s.trap ∧
      (∀ j, j < xs.length → s'.mem.rd (zp + 8 * j) = (L0.divWVW xs xn y).1.getD j 0) ∧
      (∀ a, (∀ j, j < xs.length → a ≠ zp + 8 * j) → s'.mem.rd a = s.mem.rd a) :=
  AsmBig.divWVW_correct s xs xn y zp xp hf0 hf8 hf24 hf32 hf56 hxs hr hxp hzp hal hmem

/-- `xn ≥ y` (in particular `y = 0`) and `len(z) ≥ 1`: the first DIVQ raises #DE. -/
theorem asm_divWVW_routine_traps (s : St) (n : Nat) (hf8 : s.frame.rd 8 = n) (hn0 : 0 < n)
    (hn : n < 9223372036854775808) (hge : s.frame.rd 56 ≤ s.frame.rd 24) :
    ∃ s', Asm.run program (2 * n + 3) Lbl.divWVW_entry s = some s' ∧ s'.trap = true :=
  AsmBig.divWVW_traps s n hf8 hn0 hn hge

/-- `len(z) = 0`: no division, `xn` is returned, memory untouched — whatever `y` and `xn`. -/
theorem asm_divWVW_routine_empty (s : St) (hf8 : s.frame.rd 8 = 0) :
    ∃ s', Asm.run program 3 Lbl.divWVW_entry s = some s' ∧
      s'.frame = s.frame.wr 64 (s.frame.rd 24) ∧ s'.trap = s.trap ∧ s'.mem = s.mem :=
  AsmBig.divWVW_empty s hf8

/-! ## Go-signature wrappers (DecimalModel/AsmRoutinesBig.lean) -/

/-- destination disjoint from the source: the assembly computes `L0.divWVW` -/
theorem asm_divWVW_eq (xs : List Nat) (xn y : Nat) (hxs : ∀ x, x ∈ xs → x < 18446744073709551616)
    (hr : xn < y) (hn : xs.length < 1000000000000000) :
    asm_divWVW xs xn y = some (L0.divWVW xs xn y) :=
  AsmBig.asm_divWVW_eq xs xn y hxs hr hn

/-- in place (`z = x`), as `dec.setNat` calls it -/
theorem asm_divWVW_inplace_eq (xs : List Nat) (xn y : Nat) (hxs : ∀ x, x ∈ xs → x < 18446744073709551616)
    (hr : xn < y) (hn : xs.length < 1000000000000000) :
    asm_divWVW_inplace xs xn y = some (L0.divWVW xs xn y) :=
  AsmBig.asm_divWVW_inplace_eq xs xn y hxs hr hn

/-- `xn ≥ y` with a non-empty vector: #DE, reported as `none` -/
theorem asm_divWVW_traps (xs : List Nat) (xn y : Nat) (hne : xs ≠ []) (hge : y ≤ xn)
    (hn : xs.length < 1000000000000000) : asm_divWVW xs xn y = none :=
  AsmBig.asm_divWVW_traps xs xn y hne hge hn

theorem asm_divWVW_inplace_traps (xs : List Nat) (xn y : Nat) (hne : xs ≠ []) (hge : y ≤ xn)
    (hn : xs.length < 1000000000000000) : asm_divWVW_inplace xs xn y = none :=
  AsmBig.asm_divWVW_inplace_traps xs xn y hne hge hn

/-- the empty vector: `xn` comes back, whatever `y` -/
theorem asm_divWVW_nil (xn y : Nat) : asm_divWVW [] xn y = some ([], xn) :=
  AsmBig.asm_divWVW_nil xn y

/-! ## arithmetic meaning -/

/-- `L0.divWVW` in arithmetic, any `xn < y ≤ 2^64`: `q·y + r = xn·W^n + x`, `r < y`, the quotient
    words fit 64 bits -/
theorem L0_divWVW_value (xs : List Nat) (xn y : Nat) (hxs : L0.WFbin xs) (hy : y ≤ 18446744073709551616)
    (hr : xn < y) :
    L0.binOf (L0.divWVW xs xn y).1 * y + (L0.divWVW xs xn y).2 = xn * W ^ xs.length + L0.binOf xs ∧
    (L0.divWVW xs xn y).2 < y ∧ L0.WFbin (L0.divWVW xs xn y).1 ∧ (L0.divWVW xs xn y).1.length = xs.length := by
  have h := L0.divWVWrev_spec xs.reverse y xn (L0.WFbin_reverse.mpr hxs) (by omega) hy hr
  simp only [List.reverse_reverse, List.length_reverse] at h
  exact h

/-- the assembly in arithmetic (destination disjoint or in place): for every length, every 64-bit
    word, every `xn < y`, it returns `q`, `r` with `q·y + r = xn·2^(64n) + x` and `r < y` -/
theorem asm_divWVW_value (xs : List Nat) (xn y : Nat) (hxs : ∀ x, x ∈ xs → x < 18446744073709551616)
    (hy : y ≤ 18446744073709551616) (hr : xn < y) (hn : xs.length < 1000000000000000) :
    ∃ q r, asm_divWVW xs xn y = some (q, r) ∧ asm_divWVW_inplace xs xn y = some (q, r) ∧
      L0.binOf q * y + r = xn * W ^ xs.length + L0.binOf xs ∧ r < y ∧
      (∀ w, w ∈ q → w < 18446744073709551616) ∧ q.length = xs.length := by
  obtain ⟨h1, h2, h3, h4⟩ := L0_divWVW_value xs xn y hxs hy hr
  exact ⟨(L0.divWVW xs xn y).1, (L0.divWVW xs xn y).2, asm_divWVW_eq xs xn y hxs hr hn,
    asm_divWVW_inplace_eq xs xn y hxs hr hn, h1, h2, h3, h4⟩

/-- one step of `dec.setNat`: `divWVW(b, 0, b, 10^19)` on the CPU replaces `b` by `b / 10^19` and
    returns `b mod 10^19` -/
theorem asm_divWVW_setNat_step (b : List Nat) (hb : ∀ x, x ∈ b → x < 18446744073709551616)
    (hn : b.length < 1000000000000000) :
    ∃ q r, asm_divWVW_inplace b 0 10000000000000000000 = some (q, r) ∧
      L0.binOf q = L0.binOf b / 10000000000000000000 ∧ r = L0.binOf b % 10000000000000000000 ∧
      (∀ w, w ∈ q → w < 18446744073709551616) ∧ q.length = b.length := by
  obtain ⟨h1, h2, h3, h4⟩ := L0.divWVW_spec b 10000000000000000000 hb (by omega) (by omega)
  exact ⟨(L0.divWVW b 0 10000000000000000000).1, (L0.divWVW b 0 10000000000000000000).2,
    asm_divWVW_inplace_eq b 0 10000000000000000000 hb (by omega) hn, h1, h2, h3, h4⟩

/-- the memory-level theorem instantiated on a concrete machine state: `divWVW(b, 0, b, 10^19)` in
    place on the three words of `2^128 + 5` -/
example : ∃ s', Asm.run program (2 * 3 + 3) Lbl.divWVW_entry
      (initState [.slice 0 3, .word 0, .slice 0 3, .word 10000000000000000000] [5, 0, 1]) = some s' ∧
    s'.frame.rd 64 = 3374607431768211461 ∧ s'.trap = false ∧ s'.mem.rd (heapBase + 8 * 2) = 0 ∧
    s'.mem.rd (heapBase + 8 * 1) = 1 := by
  obtain ⟨f0, f8, f24, f32, f56, ft⟩ := AsmBig.initState_frameBig 3 0 0 10000000000000000000 [5, 0, 1]
  obtain ⟨s', hrun, hfr, htrap, hz, -⟩ := asm_divWVW_routine _ [5, 0, 1] 0 10000000000000000000 _ _ f0 f8 f24 f32 f56
    (by decide) (by decide) (by decide) (by decide) (Or.inl (Nat.le_refl _)) (initState_x_inplace _ _)
  refine ⟨s', hrun, ?_, by rw [htrap, ft], ?_, ?_⟩
  · rw [hfr, Mem.rd_wr_eq]; decide
  · have := hz 2 (by decide)
    rw [Nat.mul_zero, Nat.add_zero] at this
    rw [this]; decide
  · have := hz 1 (by decide)
    rw [Nat.mul_zero, Nat.add_zero] at this
    rw [this]; decide

end Decimal.C07c

#print axioms Decimal.C07c.asmBig_selection
#print axioms Decimal.C07c.asm_divWVW_routine
#print axioms Decimal.C07c.asm_divWVW_routine_traps
#print axioms Decimal.C07c.asm_divWVW_routine_empty
#print axioms Decimal.C07c.asm_divWVW_eq
#print axioms Decimal.C07c.asm_divWVW_inplace_eq
#print axioms Decimal.C07c.asm_divWVW_traps
#print axioms Decimal.C07c.asm_divWVW_inplace_traps
#print axioms Decimal.C07c.asm_divWVW_nil
#print axioms Decimal.C07c.L0_divWVW_value
#print axioms Decimal.C07c.asm_divWVW_value
#print axioms Decimal.C07c.asm_divWVW_setNat_step
