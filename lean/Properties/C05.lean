/-
  C05 — `(*Decimal).Sqrt` (L1 model `Decimal.sqrt`, DecimalModel/Sqrt.lean) returns the correctly
  rounded square root (`Spec.sqrtSV`, DecimalModel/Spec/IEEE.lean).

  Final statements only; the proofs are in `Proofs/Sqrt.lean`.

  Vocabulary
    * `prologue z q = if z.prec == 0 then { z with prec := q } else z`, `opnd z x same = if same
      then z else x` (Proofs/Attr.lean, DecimalModel/Arith.lean).
    * `specRoot M kx p = (N, e, sticky)`: for the magnitude `M × 10^kx` the specification takes
      `o = kx mod 2`, `X = M·10^o·10^(2(p+1))`, `N = Nat.sqrt X`, `e = (kx − o)/2 − (p+1)`,
      `sticky = (N·N ≠ X)`, so that `√(M × 10^kx) = √X × 10^e`, and returns
      `roundInt mode p false N e sticky`  (`sqrtSV_fin`).
    * `sqrtSpecRes mode p x` = that `roundInt …` for `M = x.mant`, `kx = x.exp − 19·x.len`.
    * `Spec.agreesValue w r = Spec.agrees { w with acc := r.acc } r`: class, sign, exponent and
      digits, the accuracy ignored.

  Why "`roundInt mode p false N e sticky` is the real root rounded once" needs no real numbers
  (`sqrtSpec_bracket`): `N·N ≤ X < (N+1)·(N+1)` says that the real `√X` lies in `[N, N+1)`, and
  `N·N = X` iff `√X = N` iff `X` is a perfect square; `roundInt` is by definition (and by
  `roundInt_eq_spec`, Properties/RoundCore.lean, for every rational in that position) the single
  rounding of any magnitude in `[N, N+1) × 10^e` that equals `N × 10^e` iff `¬sticky` — all
  such magnitudes round alike as soon as `N` has `p+1` digits (`sqrtSpec_digits`).
  `sqrtSpec_eq_round` spells this out for a rational stand-in `q` of the root.

  What is proved: everything that was asked (nothing partial): 1 spec sanity, 2 midpoint lemma,
  3 candidate = scaled root of the specification, 4 main theorem, 5 specials / attributes /
  aliasing.  Observation (proved, `sqrt_correct`): on the finite path the model — like the Go
  code, whose final `SetMantExp` calls `round`, which resets `acc` — always reports `acc = Exact`,
  even for an inexact root; hence the main theorem is about `agreesValue`, not `agrees`.
-/
import Proofs.Sqrt
import Properties.RoundCore

namespace Decimal.C05

open Decimal Spec

/-! ## 1. Specification sanity -/

/-- `N = Nat.sqrt X` is the integer bracket of the real root: `√X ∈ [N, N+1)`, with `√X = N`
    (no sticky flag) exactly when `X` is a perfect square. -/
theorem sqrtSpec_bracket (X : Nat) :
    Nat.sqrt X * Nat.sqrt X ≤ X ∧ X < (Nat.sqrt X + 1) * (Nat.sqrt X + 1) ∧
      (Nat.sqrt X * Nat.sqrt X ≠ X ↔ ¬ ∃ r, r * r = X) :=
  ⟨(Decimal.sqrt_bracket X).1, (Decimal.sqrt_bracket X).2, Decimal.sqrt_sq_ne_iff X⟩

/-- The bracket determines `N`. -/
theorem sqrtSpec_unique (X a : Nat) (h1 : a * a ≤ X) (h2 : X < (a + 1) * (a + 1)) : Nat.sqrt X = a :=
  Decimal.sqrt_unique h1 h2

/-- `Spec.sqrtSV` on a non-negative finite magnitude `M × 10^kx` is `roundInt` of that bracket. -/
theorem sqrtSpec_unfold (mode : Mode) (p M : Nat) (kx : Int) :
    sqrtSV mode p (.fin false (M : Rat) kx) =
      some (roundInt mode p false (specRoot M kx p).1 (specRoot M kx p).2.1 (specRoot M kx p).2.2) :=
  Decimal.sqrtSV_fin mode p M kx

/-- The integer root the specification rounds has at least `p + 2 > p + 1` digits, so the sticky
    flag is meaningful (precondition of `roundInt`). -/
theorem sqrtSpec_digits (M : Nat) (kx : Int) (p : Nat) (hM : 0 < M) :
    p + 2 ≤ ndigits (specRoot M kx p).1 := by
  show p + 1 < ndigits (Nat.sqrt _)
  rw [lt_ndigits_iff]
  generalize (if kx % 2 != 0 then 1 else 0 : Nat) = o
  have h1 : 10 ^ (p + 1) * 10 ^ (p + 1) ≤ M * 10 ^ o * 10 ^ (2 * (p + 1)) := by
    have : 10 ^ (2 * (p + 1)) = 10 ^ (p + 1) * 10 ^ (p + 1) := by
      rw [← Nat.pow_add]; congr 1; omega
    rw [this]
    exact Nat.le_mul_of_pos_left _ (Nat.mul_pos hM (ten_pow_pos o))
  have h2 := Nat.lt_succ_sqrt (M * 10 ^ o * 10 ^ (2 * (p + 1)))
  have := Nat.mul_self_lt_mul_self_iff.mp (Nat.lt_of_le_of_lt h1 h2)
  omega

/-- The specification is the rational specification `Spec.round` of any rational `q` standing
    where the real root `√X` stands: `q = N` if `X` is a perfect square, `N < q < N + 1` otherwise. -/
theorem sqrtSpec_eq_round (mode : Mode) (p M : Nat) (kx : Int) (q : Rat) (hM : 0 < M) (hp : 1 ≤ p)
    (hq : if (specRoot M kx p).2.2 then
            ((specRoot M kx p).1 : Rat) < q ∧ q < ((specRoot M kx p).1 : Rat) + 1
          else q = ((specRoot M kx p).1 : Rat)) :
    sqrtSV mode p (.fin false (M : Rat) kx) = some (Spec.round mode p false q (specRoot M kx p).2.1) := by
  have hd := sqrtSpec_digits M kx p hM
  have hN : 0 < (specRoot M kx p).1 := by
    rcases Nat.eq_zero_or_pos (specRoot M kx p).1 with h | h
    · rw [h, ndigits_zero] at hd; omega
    · exact h
  rw [sqrtSpec_unfold, roundInt_eq_spec mode p false _ _ _ q hN hp (fun _ => by omega) hq]

/-! ## 2. The midpoint lemma -/

/-- Rounding the exact midpoint `N.5` of `(N, N+1)` (one more digit, no sticky flag) gives the same
    result — coefficient, exponent, accuracy, range handling — as rounding any value strictly
    inside (`sticky = true`), in all six modes and for both signs, provided `N` has at least
    `p + 1` digits.  (`0 < N` follows from the digit hypothesis.) -/
theorem midpoint_round (mode : Mode) (p : Nat) (neg : Bool) (N : Nat) (k : Int)
    (hnd : p + 1 ≤ ndigits N) :
    roundInt mode p neg (N * 10 + 5) (k - 1) false = roundInt mode p neg N k true :=
  Decimal.roundInt_midpoint mode p neg N k hnd

/-- The general fact behind it: `j` low digits can be dropped into the sticky flag as long as
    `p + 1` digits are kept. -/
theorem round_trunc (mode : Mode) (p : Nat) (neg : Bool) (N : Nat) (k : Int) (sb : Bool) (j : Nat)
    (hnd : p + 1 ≤ ndigits (N / 10 ^ j)) :
    roundInt mode p neg (N / 10 ^ j) (k + j) (sb || N % 10 ^ j != 0) = roundInt mode p neg N k sb :=
  Decimal.roundInt_trunc mode p neg N k sb j hnd

/-! ## 3. The candidate -/

/-- Scaling lemma: the floor of the root of `X·10^(2j)`, truncated by `10^j`, is the floor of the
    root of `X`. -/
theorem sqrt_scale_floor (X j : Nat) : Nat.sqrt (X * 10 ^ (2 * j)) / 10 ^ j = Nat.sqrt X :=
  Decimal.sqrt_mul_pow_div X j

/-- The matching sticky relation: the scaled root is exact (and ends in `j` zeros) iff the
    unscaled root is exact. -/
theorem sqrt_scale_exact (X j : Nat) :
    (Nat.sqrt (X * (10 ^ j * 10 ^ j)) * Nat.sqrt (X * (10 ^ j * 10 ^ j)) = X * (10 ^ j * 10 ^ j) ∧
        Nat.sqrt (X * (10 ^ j * 10 ^ j)) % 10 ^ j = 0) ↔ Nat.sqrt X * Nat.sqrt X = X :=
  Decimal.sqrt_mul_sq_exact X _ (ten_pow_pos j)

/--
  For a normalised mantissa (`ndigits M = 19·len`, `0 < len`), `ez ∈ {−1, 0, 1}`, `p1 ≥ 1`:
  with `se = [ez ≥ 1]`, `k = 2(p1 − se) + ez − 19·len`, and the rational `Y = M × 10^k` written
  `Mn / D` (`Mn = M·10^max(k,0)`, `D = 10^max(−k,0)`), the candidate `(c, se', inexact)`
  satisfies: `se' = se`; `c` has exactly `p1` digits; `c² ≤ Y < (c+1)²` (so `c = ⌊√Y⌋`);
  `inexact ↔ c² ≠ Y`.
-/
theorem sqrtCandidate_spec (M len : Nat) (ez : Int) (p1 : Nat) (hp1 : 1 ≤ p1) (hlen : 0 < len)
    (hM : ndigits M = len * 19) (hez : ez = 0 ∨ ez = 1 ∨ ez = -1) :
    let cand := sqrtCandidate M len ez p1
    let se : Int := if ez ≥ 1 then 1 else 0
    let k : Int := 2 * ((p1 : Int) - se) + ez - (len * 19 : Nat)
    let Mn := M * 10 ^ k.toNat
    let D := 10 ^ (-k).toNat
    cand.2.1 = se ∧ ndigits cand.1 = p1 ∧
      cand.1 * cand.1 * D ≤ Mn ∧ Mn < (cand.1 + 1) * (cand.1 + 1) * D ∧
      (cand.2.2 = true ↔ cand.1 * cand.1 * D ≠ Mn) :=
  Decimal.sqrtCandidate_bracket M len ez p1 hp1 hlen hM hez

/--
  Relation to the scale of the specification: for the operand `M × 10^(b − 19·len)` and precision
  `p`, with `(N, e, sticky) = specRoot M (b − 19·len) p` (the integer root, scale and flag that
  `Spec.sqrtSV` rounds), there is `j` such that the candidate at `p + 1` digits is
  `c = N / 10^j`, `inexact = sticky ∨ N mod 10^j ≠ 0`, and the exponents match:
  `e + j = se − (p+1) + b/2` (Go's truncating `b/2`).
-/
theorem sqrtCandidate_vs_spec (M len : Nat) (b : Int) (p : Nat) (hlen : 0 < len)
    (hM : ndigits M = len * 19) :
    let cand := sqrtCandidate M len (goMod2 b) (p + 1)
    let R := specRoot M (b - (len * 19 : Nat)) p
    ∃ j : Nat, cand.1 = R.1 / 10 ^ j ∧ cand.2.2 = (R.2.2 || R.1 % 10 ^ j != 0) ∧
      R.2.1 + j = cand.2.1 - ((p + 1 : Nat) : Int) + goDiv2 b :=
  Decimal.sqrtCandidate_vs_spec M len b p hlen hM

/-- Go's `b % 2`, `b / 2`. -/
theorem goMod2_goDiv2 (b : Int) :
    (goMod2 b = 0 ∨ goMod2 b = 1 ∨ goMod2 b = -1) ∧ b = 2 * goDiv2 b + goMod2 b ∧
      (0 ≤ b → 2 * goDiv2 b ≤ b) ∧ (b ≤ 0 → b ≤ 2 * goDiv2 b) :=
  Decimal.goMod2_goDiv2 b

/-! ## 4. Main theorem -/

/--
  For a canonical finite `x ≥ 0` and a receiver with effective precision `p ≥ 1`
  (distinct variables): `Sqrt` returns normally, the receiver holds the value
  `Spec.sqrtSV z.mode p x` (class, sign, exponent, all digits), its precision is `p`, its mode
  is unchanged, and its accuracy is `Exact` (whatever the specification's accuracy is).
-/
theorem sqrt_correct (z x : Dec) (p : Nat) (hpdef : p = if z.prec = 0 then x.prec else z.prec)
    (hp : 1 ≤ p) (hneg : x.neg = false) (hf : x.form = .finite) (hlen : 0 < x.len)
    (hnd : ndigits x.mant = x.len * 19) (hmin : MinExp ≤ x.exp) (hmax : x.exp ≤ MaxExp) :
    ∃ r, sqrtSV z.mode p (ofDec x) = some r ∧
      (sqrt z x).2 = .ok ∧ agreesValue (sqrt z x).1 r = true ∧
      (sqrt z x).1.prec = p ∧ (sqrt z x).1.mode = z.mode ∧ (sqrt z x).1.acc = Exact := by
  have hpp : (prologue z x.prec).prec = p := by rw [prologue_prec, hpdef]
  have h := Decimal.sqrt_correct_main z x hneg hf hlen hnd hmin hmax (by omega)
  rw [hpp] at h
  exact ⟨_, h⟩

/-- The same with the specification result named (`sqrtSpecRes`). -/
theorem sqrt_correct' (z x : Dec) (p : Nat) (hpdef : p = if z.prec = 0 then x.prec else z.prec)
    (hp : 1 ≤ p) (hneg : x.neg = false) (hf : x.form = .finite) (hlen : 0 < x.len)
    (hnd : ndigits x.mant = x.len * 19) (hmin : MinExp ≤ x.exp) (hmax : x.exp ≤ MaxExp) :
    sqrtSV z.mode p (ofDec x) = some (sqrtSpecRes z.mode p x) ∧
      (sqrt z x).2 = .ok ∧ agreesValue (sqrt z x).1 (sqrtSpecRes z.mode p x) = true ∧
      (sqrt z x).1.prec = p ∧ (sqrt z x).1.mode = z.mode ∧ (sqrt z x).1.acc = Exact := by
  have hpp : (prologue z x.prec).prec = p := by rw [prologue_prec, hpdef]
  have h := Decimal.sqrt_correct_main z x hneg hf hlen hnd hmin hmax (by omega)
  rw [hpp] at h
  exact h

/-- `z.Sqrt(z)` (aliased) for a canonical finite `z ≥ 0` with `z.prec ≥ 1`. -/
theorem sqrt_correct_alias (z : Dec) (hp : 1 ≤ z.prec) (hneg : z.neg = false) (hf : z.form = .finite)
    (hlen : 0 < z.len) (hnd : ndigits z.mant = z.len * 19) (hmin : MinExp ≤ z.exp)
    (hmax : z.exp ≤ MaxExp) :
    ∃ r, sqrtSV z.mode z.prec (ofDec z) = some r ∧
      (sqrt z z true).2 = .ok ∧ agreesValue (sqrt z z true).1 r = true ∧
      (sqrt z z true).1.prec = z.prec ∧ (sqrt z z true).1.mode = z.mode ∧
      (sqrt z z true).1.acc = Exact := by
  rw [Decimal.sqrt_alias_self]
  exact sqrt_correct z z z.prec (by split <;> omega) hp hneg hf hlen hnd hmin hmax

/-- An exact specification result (`acc = 0`: the root is representable in `p` digits, in
    particular `x` is a perfect square) does not depend on the rounding mode … -/
theorem sqrtSpec_exact_mode_indep (mode mode' : Mode) (p : Nat) (x : Dec)
    (h : (sqrtSpecRes mode p x).acc = 0) : sqrtSpecRes mode' p x = sqrtSpecRes mode p x :=
  Decimal.roundInt_exact_mode_indep mode mode' p false _ _ _ h

/-- … hence a receiver in *any* mode gets that exact root. -/
theorem sqrt_exact_every_mode (mode : Mode) (z x : Dec) (p : Nat)
    (hpdef : p = if z.prec = 0 then x.prec else z.prec)
    (hp : 1 ≤ p) (hneg : x.neg = false) (hf : x.form = .finite) (hlen : 0 < x.len)
    (hnd : ndigits x.mant = x.len * 19) (hmin : MinExp ≤ x.exp) (hmax : x.exp ≤ MaxExp)
    (hex : (sqrtSpecRes mode p x).acc = 0) :
    (sqrt z x).2 = .ok ∧ agrees (sqrt z x).1 (sqrtSpecRes mode p x) = true := by
  obtain ⟨-, hok, hv, -, -, hacc⟩ := sqrt_correct' z x p hpdef hp hneg hf hlen hnd hmin hmax
  rw [sqrtSpec_exact_mode_indep mode z.mode p x hex] at hv
  refine ⟨hok, ?_⟩
  have : ({ (sqrt z x).1 with acc := (sqrtSpecRes mode p x).acc } : Dec) = (sqrt z x).1 := by
    rw [hex, ← show (sqrt z x).1.acc = 0 from hacc]
  unfold agreesValue at hv
  rw [this] at hv
  exact hv

/-! ## 5. Special operands, attributes, aliasing -/

/-- `√±0 = ±0` (exact). -/
theorem sqrt_special_zero (z x : Dec) (h : x.form = .zero) :
    sqrt z x = ({ (prologue z x.prec) with acc := Exact, form := .zero, neg := x.neg }, .ok) :=
  Decimal.sqrt_zero z x false h

/-- `√+Inf = +Inf` (exact). -/
theorem sqrt_special_posInf (z x : Dec) (h : x.form = .inf) (hn : x.neg = false) :
    sqrt z x = ({ (prologue z x.prec) with acc := Exact, form := .inf, neg := false }, .ok) :=
  Decimal.sqrt_posInf z x false h hn

/-- A negative finite operand or `−Inf`: `ErrNaN`; the receiver is untouched apart from the
    precision prologue. -/
theorem sqrt_special_negative (z x : Dec) (h : x.form ≠ .zero) (hn : x.neg = true) :
    sqrt z x = (prologue z x.prec, .errNaN) :=
  Decimal.sqrt_negative z x false h hn

/-- All of these against the specification (`specMatch`: `none ↦ errNaN`, `some s ↦ ok ∧ agrees`,
    accuracy included). -/
theorem sqrt_special (z x : Dec) (p : Nat) (h : x.form ≠ .finite ∨ x.neg = true) :
    specMatch (sqrt z x) (sqrtSV z.mode p (ofDec x)) :=
  Decimal.sqrt_special_spec z x p h

/-- `Sqrt` panics exactly on a negative non-zero operand (any aliasing). -/
theorem sqrt_nan_iff (z x : Dec) (same : Bool) :
    (sqrt z x same).2 = .errNaN ↔
      ((opnd (prologue z x.prec) x same).form ≠ .zero ∧ (opnd (prologue z x.prec) x same).neg = true) :=
  Decimal.sqrt_nan_iff z x same

/-- The mode never changes; the precision is the effective one.  The side condition excludes
    only a finite operand of precision 0 together with a receiver of precision 0 (not a
    reachable Go state: then the result takes the candidate's precision, see the example below). -/
theorem sqrt_keeps_prec_mode (z x : Dec) (same : Bool)
    (h : z.prec ≠ 0 ∨ x.prec ≠ 0 ∨ (opnd z x same).form ≠ .finite) :
    (sqrt z x same).1.mode = z.mode ∧
      (sqrt z x same).1.prec = if z.prec = 0 then x.prec else z.prec :=
  ⟨Decimal.sqrt_mode z x same, Decimal.sqrt_prec z x same h⟩

theorem sqrt_keeps_mode (z x : Dec) (same : Bool) : (sqrt z x same).1.mode = z.mode :=
  Decimal.sqrt_mode z x same

/-- `z.Sqrt(z)` with the aliasing flag = passing a distinct variable holding `z`'s state. -/
theorem sqrt_alias (z : Dec) : sqrt z z true = sqrt z z false := Decimal.sqrt_alias_self z

theorem sqrt_alias_opnd (z x : Dec) (same : Bool) :
    sqrt z (opnd z x same) same = sqrt z (opnd z x same) false :=
  Decimal.sqrt_alias_opnd z x same

/-- With the flag set the argument is only read for its precision in the prologue. -/
theorem sqrt_alias_prologue (z x : Dec) : sqrt z x true = sqrt z (prologue z x.prec) false :=
  Decimal.sqrt_alias_prologue z x

/-! ## Non-vacuity -/

section Examples

private theorem nd19 (m : Nat) (h1 : 10 ^ 18 ≤ m) (h2 : m < 10 ^ 19) : ndigits m = 1 * 19 :=
  ndigits_unique h1 h2 (by omega)

-- 1. `⌊√200⌋ = 14`, inexact.
example : Nat.sqrt 200 = 14 ∧ Nat.sqrt 200 * Nat.sqrt 200 ≠ 200 ∧ ¬ ∃ r, r * r = 200 := by
  have h : Nat.sqrt 200 = 14 := sqrtSpec_unique 200 14 (by decide) (by decide)
  have h2 : Nat.sqrt 200 * Nat.sqrt 200 ≠ 200 := by rw [h]; decide
  exact ⟨h, h2, (sqrtSpec_bracket 200).2.2.mp h2⟩

-- 1. The specification of √2 at 5 digits is the rational specification on any `q` in (N, N+1).
example (q : Rat)
    (hq : if (specRoot 2 0 5).2.2 then ((specRoot 2 0 5).1 : Rat) < q ∧ q < ((specRoot 2 0 5).1 : Rat) + 1
          else q = ((specRoot 2 0 5).1 : Rat)) :
    sqrtSV .ToNearestEven 5 (.fin false ((2 : Nat) : Rat) 0)
      = some (Spec.round .ToNearestEven 5 false q (specRoot 2 0 5).2.1) :=
  sqrtSpec_eq_round _ 5 2 0 q (by decide) (by decide) hq

-- 2. `N = 14142` (5 digits), `p = 4`: the midpoint `141425` rounds like anything in (14142, 14143).
example (mode : Mode) (k : Int) :
    roundInt mode 4 false 141425 (k - 1) false = roundInt mode 4 false 14142 k true :=
  midpoint_round mode 4 false 14142 k
    (by rw [ndigits_unique (d := 5) (by decide) (by decide) (by decide)])

-- 2. The digit hypothesis is needed: `N = 1`, `p = 1` (ties-to-even: `1.5 ↦ 2`, but a one-digit
-- `N` "fits" and `roundInt` ignores the flag).
example : roundInt .ToNearestEven 1 false (1 * 10 + 5) (0 - 1) false
    ≠ roundInt .ToNearestEven 1 false 1 0 true := by
  have h15 : ndigits 15 = 2 := ndigits_unique (by decide) (by decide) (by decide)
  intro h
  have h2 := congrArg SRes.coef h
  simp [roundInt, h15, ndigits_one, MinExp, MaxExp, incrInt] at h2

-- 3. The candidate for `z = 0.2 × 10^1` at 6 digits.
example :
    let cand := sqrtCandidate 2000000000000000000 1 1 6
    cand.2.1 = 1 ∧ ndigits cand.1 = 6 :=
  let h := sqrtCandidate_spec 2000000000000000000 1 1 6 (by decide) (by decide)
    (nd19 _ (by decide) (by decide)) (Or.inr (Or.inl rfl))
  ⟨h.1, h.2.1⟩

-- 4. `√2` to 5 digits in any mode, receiver precision 0 taken from the operand.
example (mode : Mode) :
    let x : Dec := { form := .finite, mant := 2000000000000000000, len := 1, exp := 1, prec := 5 }
    let z : Dec := { mode := mode }
    ∃ r, sqrtSV mode 5 (ofDec x) = some r ∧
      (sqrt z x).2 = .ok ∧ agreesValue (sqrt z x).1 r = true ∧
      (sqrt z x).1.prec = 5 ∧ (sqrt z x).1.mode = mode ∧ (sqrt z x).1.acc = Exact :=
  sqrt_correct { mode := mode }
    { form := .finite, mant := 2000000000000000000, len := 1, exp := 1, prec := 5 } 5 rfl
    (by decide) rfl rfl (by decide) (nd19 _ (by decide) (by decide)) (by decide) (by decide)

-- 4. Aliased.
example :
    let z : Dec := { form := .finite, mant := 2000000000000000000, len := 1, exp := 1, prec := 5 }
    ∃ r, sqrtSV z.mode z.prec (ofDec z) = some r ∧
      (sqrt z z true).2 = .ok ∧ agreesValue (sqrt z z true).1 r = true ∧
      (sqrt z z true).1.prec = z.prec ∧ (sqrt z z true).1.mode = z.mode ∧
      (sqrt z z true).1.acc = Exact :=
  sqrt_correct_alias
    { form := .finite, mant := 2000000000000000000, len := 1, exp := 1, prec := 5 }
    (by decide) rfl rfl (by decide) (nd19 _ (by decide) (by decide)) (by decide) (by decide)

-- 4. A perfect square: `√144 = 12` is exact at 5 digits, so every mode returns it, accuracy
-- included (`agrees`, not only `agreesValue`).
private theorem ex144 (mode : Mode) :
    (sqrtSpecRes mode 5
      { form := .finite, mant := 1440000000000000000, len := 1, exp := 3, prec := 5 }).acc = 0 := by
  have hs : specRoot 1440000000000000000 ((3 : Int) - ((1 * 19 : Nat) : Int)) 5
      = (1200000000000000, -14, false) := by
    have hN : Nat.sqrt (1440000000000000000 * 10 ^ 0 * 10 ^ (2 * (5 + 1))) = 1200000000000000 :=
      sqrt_unique (by decide) (by decide)
    unfold specRoot
    have hpar : (((3 : Int) - ((1 * 19 : Nat) : Int)) % 2 != 0) = false := by decide
    simp only [hpar, Bool.false_eq_true, if_false, hN]
    decide
  unfold sqrtSpecRes
  simp only [hs]
  have hnd : ndigits 1200000000000000 = 16 := ndigits_unique (by decide) (by decide) (by decide)
  exact (roundInt_acc_of_exact mode 5 false 1200000000000000 (-14) (by rw [hnd]; decide)
    (by rw [hnd]; decide) (by rw [hnd]; decide) (by rw [hnd]; decide)).1

example (mode mode' : Mode) :
    let x : Dec := { form := .finite, mant := 1440000000000000000, len := 1, exp := 3, prec := 5 }
    let z : Dec := { mode := mode', prec := 5 }
    (sqrt z x).2 = .ok ∧ agrees (sqrt z x).1 (sqrtSpecRes mode 5 x) = true :=
  sqrt_exact_every_mode mode { mode := mode', prec := 5 }
    { form := .finite, mant := 1440000000000000000, len := 1, exp := 3, prec := 5 } 5 rfl
    (by decide) rfl rfl (by decide) (nd19 _ (by decide) (by decide)) (by decide) (by decide)
    (ex144 mode)

-- 5. Specials.
example (z : Dec) : (sqrt z { form := .zero, neg := true }).2 = .ok ∧
    (sqrt z { form := .zero, neg := true }).1.form = .zero ∧
    (sqrt z { form := .zero, neg := true }).1.neg = true := by
  rw [sqrt_special_zero z _ rfl]; exact ⟨rfl, rfl, rfl⟩
example (z : Dec) : (sqrt z { form := .inf, neg := true }).2 = .errNaN := by
  rw [sqrt_special_negative z _ (by decide) rfl]
example (z : Dec) :
    (sqrt z { form := .finite, neg := true, mant := 1000000000000000000, len := 1, exp := 1 }).2 = .errNaN := by
  rw [sqrt_special_negative z _ (by decide) rfl]
example (z : Dec) : specMatch (sqrt z { form := .inf }) (sqrtSV z.mode 7 (ofDec { form := .inf })) :=
  sqrt_special z _ 7 (Or.inl (by decide))

-- 5. `sqrt_keeps_prec_mode` needs its side condition: receiver and finite operand both of
-- precision 0 give a result of precision 1 or 2, not 0.
example :
    (sqrt {} { form := .finite, mant := 2000000000000000000, len := 1, exp := 1, prec := 0 }).1.prec ≠ 0 := by
  rw [sqrt_finite_eq _ _ rfl rfl, sqrtFin_prec_zero _ _ rfl]
  split <;> decide

end Examples

#print axioms sqrtSpec_bracket
#print axioms sqrtSpec_unique
#print axioms sqrtSpec_unfold
#print axioms sqrtSpec_digits
#print axioms sqrtSpec_eq_round
#print axioms midpoint_round
#print axioms round_trunc
#print axioms sqrt_scale_floor
#print axioms sqrt_scale_exact
#print axioms sqrtCandidate_spec
#print axioms sqrtCandidate_vs_spec
#print axioms goMod2_goDiv2
#print axioms sqrt_correct
#print axioms sqrt_correct'
#print axioms sqrt_correct_alias
#print axioms sqrtSpec_exact_mode_indep
#print axioms sqrt_exact_every_mode
#print axioms sqrt_special_zero
#print axioms sqrt_special_posInf
#print axioms sqrt_special_negative
#print axioms sqrt_special
#print axioms sqrt_nan_iff
#print axioms sqrt_keeps_prec_mode
#print axioms sqrt_keeps_mode
#print axioms sqrt_alias
#print axioms sqrt_alias_opnd
#print axioms sqrt_alias_prologue

end Decimal.C05
