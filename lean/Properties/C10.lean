/-
  C10 — results do not depend on aliasing nor on the receiver's old contents (L1 model).

  Vocabulary (defined in `Proofs/Attr.lean` and `Proofs/Alias.lean`):

  * `opnd z x sx = if sx then z else x` — the operand a Go call passes: the receiver variable
    itself when the flag is set, a distinct variable `x` otherwise.
  * `prologue z p = if z.prec == 0 then { z with prec := p } else z` — the receiver after the
    attribute prologue of Add/Sub/Mul/Quo/FMA (a zero precision is replaced by `p`, the largest
    operand precision).
  * `obsEq a b` — same `form neg prec mode acc` and, when finite, same `mant len exp`
    (`mant len exp` of a zero or an infinity are stale storage no Go client can read).
  * `valEq a b` — same `form neg` and, when finite, same `mant len exp` (attributes ignored).
  * `resEq r s` — `obsEq r.1 s.1 ∧ r.2 = s.2` for results `(state, Outcome)`.

  Part 1 (aliasing).  For Add/Sub/Mul/Quo/Set/Neg/Abs/Copy/SetMantExp/MantExp the receiver's
  new state is *equal* (not only `obsEq`) whether an operand that holds the receiver's state is
  flagged as being the receiver variable or as a distinct variable; for FMA it is `resEq`
  (plain equality is false: see the `example` after `fma_alias_indep`).

  Part 2 (old contents).  On distinct variables the result depends on the receiver only through
  `prec` and `mode`, up to `obsEq` (plain equality is false because of the stale fields: see the
  `example` after `add_old_contents`).
-/
import Proofs.Alias

namespace Decimal.C10

open Decimal

/-! ## Part 1: independence from aliasing -/

/-- `z.Add(x, y)` for every combination of aliasing flags: flagging the operands that are the
    receiver (`opnd z · true = z`) gives the same state as passing distinct variables holding
    the receiver's state. -/
theorem add_alias_indep (z x y : Dec) (sx sy : Bool) :
    add z (opnd z x sx) (opnd z y sy) sx sy = add z (opnd z x sx) (opnd z y sy) false false :=
  Decimal.add_alias z x y sx sy
theorem sub_alias_indep (z x y : Dec) (sx sy : Bool) :
    sub z (opnd z x sx) (opnd z y sy) sx sy = sub z (opnd z x sx) (opnd z y sy) false false :=
  Decimal.sub_alias z x y sx sy
theorem mul_alias_indep (z x y : Dec) (sx sy : Bool) :
    mul z (opnd z x sx) (opnd z y sy) sx sy = mul z (opnd z x sx) (opnd z y sy) false false :=
  Decimal.mul_alias z x y sx sy
theorem quo_alias_indep (z x y : Dec) (sx sy : Bool) :
    quo z (opnd z x sx) (opnd z y sy) sx sy = quo z (opnd z x sx) (opnd z y sy) false false :=
  Decimal.quo_alias z x y sx sy

/-- The same with the distinct variable holding the receiver's state *after* the prologue
    (the argument `x` passed with `sx = true` is only read for `x.prec` in the prologue). -/
theorem add_alias_x_prologue (z x y : Dec) :
    add z x y true false = add z (prologue z (umax x.prec y.prec)) y false false :=
  Decimal.add_alias_x' z x y
theorem add_alias_y_prologue (z x y : Dec) :
    add z x y false true = add z x (prologue z (umax x.prec y.prec)) false false :=
  Decimal.add_alias_y' z x y
theorem add_alias_xy_prologue (z x y : Dec) :
    add z x y true true =
      add z (prologue z (umax x.prec y.prec)) (prologue z (umax x.prec y.prec)) false false :=
  Decimal.add_alias_xy' z x y
theorem sub_alias_x_prologue (z x y : Dec) :
    sub z x y true false = sub z (prologue z (umax x.prec y.prec)) y false false :=
  Decimal.sub_alias_x' z x y
theorem sub_alias_y_prologue (z x y : Dec) :
    sub z x y false true = sub z x (prologue z (umax x.prec y.prec)) false false :=
  Decimal.sub_alias_y' z x y
theorem sub_alias_xy_prologue (z x y : Dec) :
    sub z x y true true =
      sub z (prologue z (umax x.prec y.prec)) (prologue z (umax x.prec y.prec)) false false :=
  Decimal.sub_alias_xy' z x y
theorem mul_alias_x_prologue (z x y : Dec) :
    mul z x y true false = mul z (prologue z (umax x.prec y.prec)) y false false :=
  Decimal.mul_alias_x' z x y
theorem mul_alias_y_prologue (z x y : Dec) :
    mul z x y false true = mul z x (prologue z (umax x.prec y.prec)) false false :=
  Decimal.mul_alias_y' z x y
theorem mul_alias_xy_prologue (z x y : Dec) :
    mul z x y true true =
      mul z (prologue z (umax x.prec y.prec)) (prologue z (umax x.prec y.prec)) false false :=
  Decimal.mul_alias_xy' z x y
theorem quo_alias_x_prologue (z x y : Dec) :
    quo z x y true false = quo z (prologue z (umax x.prec y.prec)) y false false :=
  Decimal.quo_alias_x' z x y
theorem quo_alias_y_prologue (z x y : Dec) :
    quo z x y false true = quo z x (prologue z (umax x.prec y.prec)) false false :=
  Decimal.quo_alias_y' z x y
theorem quo_alias_xy_prologue (z x y : Dec) :
    quo z x y true true =
      quo z (prologue z (umax x.prec y.prec)) (prologue z (umax x.prec y.prec)) false false :=
  Decimal.quo_alias_xy' z x y

example : add { prec := 3 } { prec := 3 } { form := .inf } true false =
    add { prec := 3 } { prec := 3 } { form := .inf } false false :=
  add_alias_indep { prec := 3 } {} { form := .inf } true false

/-- FMA, every combination of the three flags, up to stale storage. -/
theorem fma_alias_indep (z x y u : Dec) (sx sy su : Bool) :
    resEq (fma z (opnd z x sx) (opnd z y sy) (opnd z u su) sx sy su)
      (fma z (opnd z x sx) (opnd z y sy) (opnd z u su) false false false) :=
  Decimal.fma_alias z x y u sx sy su

/-
  Plain equality is false for `z.FMA(x, y, z)` (found with `#eval`; the finite product goes
  through the well-founded `ndigits`, so this is not a `decide`-able `example`):
    z = { form := .inf, prec := 5, mant := 5, len := 1 }
    x = { form := .finite, prec := 5, mant := 2000000000000000000, len := 1, exp := 1 }
    (fma z x x z false false true ).1 = { form := .inf, mant := 5, len := 1, exp := 0, prec := 5, .. }
    (fma z x x z false false false).1 = { form := .inf, mant := 4·10^37, len := 2, exp := 1, prec := 5, .. }
  Both are `+Inf` with `prec = 5`, `acc = 0`: only the stale `mant len exp` differ (with
  `su = true` the product is formed in a scratch Decimal, otherwise in the receiver).
-/
example : resEq (fma { form := .inf, prec := 5 } {} {} { form := .inf, prec := 5 } false false true)
    (fma { form := .inf, prec := 5 } {} {} { form := .inf, prec := 5 } false false false) :=
  fma_alias_indep { form := .inf, prec := 5 } {} {} {} false false true

theorem set_alias_indep (z : Dec) : set z z true = set z z false := (Decimal.set_self z).symm
theorem neg_alias_indep (z : Dec) : neg z z true = neg z z false := Decimal.neg_alias z
theorem abs_alias_indep (z : Dec) : abs z z true = abs z z false := Decimal.abs_alias z
theorem copy_alias_indep (z : Dec) : copy z z true = copy z z false := Decimal.copy_alias z
theorem setMantExp_alias_indep (z : Dec) (e : Int) :
    setMantExp z z e true = setMantExp z z e false :=
  Decimal.setMantExp_alias z e
theorem mantExp_alias_indep (x : Dec) : mantExp x x true = mantExp x x false :=
  Decimal.mantExp_alias x

example : set { form := .inf, prec := 3 } { form := .inf, prec := 3 } true =
    set { form := .inf, prec := 3 } { form := .inf, prec := 3 } false := set_alias_indep _

/-! ## Part 2: independence from the receiver's old contents -/

/-- `z.Add(x, y)` on distinct variables depends on `z` only through `z.prec` and `z.mode`. -/
theorem add_old_contents (z₁ z₂ x y : Dec) (hp : z₁.prec = z₂.prec) (hm : z₁.mode = z₂.mode) :
    resEq (add z₁ x y false false) (add z₂ x y false false) :=
  Decimal.add_congr hp hm (valEq.refl x) rfl (valEq.refl y) rfl
theorem sub_old_contents (z₁ z₂ x y : Dec) (hp : z₁.prec = z₂.prec) (hm : z₁.mode = z₂.mode) :
    resEq (sub z₁ x y false false) (sub z₂ x y false false) :=
  Decimal.sub_congr hp hm (valEq.refl x) rfl (valEq.refl y) rfl
theorem mul_old_contents (z₁ z₂ x y : Dec) (hp : z₁.prec = z₂.prec) (hm : z₁.mode = z₂.mode) :
    resEq (mul z₁ x y false false) (mul z₂ x y false false) :=
  Decimal.mul_congr hp hm (valEq.refl x) rfl (valEq.refl y) rfl
theorem quo_old_contents (z₁ z₂ x y : Dec) (hp : z₁.prec = z₂.prec) (hm : z₁.mode = z₂.mode) :
    resEq (quo z₁ x y false false) (quo z₂ x y false false) :=
  Decimal.quo_congr hp hm (valEq.refl x) rfl (valEq.refl y) rfl
theorem fma_old_contents (z₁ z₂ x y u : Dec) (hp : z₁.prec = z₂.prec) (hm : z₁.mode = z₂.mode) :
    resEq (fma z₁ x y u false false false) (fma z₂ x y u false false false) :=
  Decimal.fma_congr hp hm (valEq.refl x) rfl (valEq.refl y) rfl (valEq.refl u) rfl

/-- Non-vacuity, and why `obsEq` rather than `=`: an old mantissa survives as stale storage. -/
example : resEq (add { prec := 3, mant := 7, len := 1 } { form := .inf } {}) (add { prec := 3 } { form := .inf } {}) :=
  add_old_contents _ _ _ _ rfl rfl
example : (add { prec := 3, mant := 7, len := 1 } { form := .inf } {}).1.mant ≠
    (add { prec := 3 } { form := .inf } {}).1.mant := by decide

/-- Stronger: the operands too are read only through their value and precision. -/
theorem add_value_congr {z₁ z₂ x₁ x₂ y₁ y₂ : Dec} (hp : z₁.prec = z₂.prec) (hm : z₁.mode = z₂.mode)
    (hx : valEq x₁ x₂) (hxp : x₁.prec = x₂.prec) (hy : valEq y₁ y₂) (hyp : y₁.prec = y₂.prec) :
    resEq (add z₁ x₁ y₁ false false) (add z₂ x₂ y₂ false false) :=
  Decimal.add_congr hp hm hx hxp hy hyp
theorem sub_value_congr {z₁ z₂ x₁ x₂ y₁ y₂ : Dec} (hp : z₁.prec = z₂.prec) (hm : z₁.mode = z₂.mode)
    (hx : valEq x₁ x₂) (hxp : x₁.prec = x₂.prec) (hy : valEq y₁ y₂) (hyp : y₁.prec = y₂.prec) :
    resEq (sub z₁ x₁ y₁ false false) (sub z₂ x₂ y₂ false false) :=
  Decimal.sub_congr hp hm hx hxp hy hyp
theorem mul_value_congr {z₁ z₂ x₁ x₂ y₁ y₂ : Dec} (hp : z₁.prec = z₂.prec) (hm : z₁.mode = z₂.mode)
    (hx : valEq x₁ x₂) (hxp : x₁.prec = x₂.prec) (hy : valEq y₁ y₂) (hyp : y₁.prec = y₂.prec) :
    resEq (mul z₁ x₁ y₁ false false) (mul z₂ x₂ y₂ false false) :=
  Decimal.mul_congr hp hm hx hxp hy hyp
theorem quo_value_congr {z₁ z₂ x₁ x₂ y₁ y₂ : Dec} (hp : z₁.prec = z₂.prec) (hm : z₁.mode = z₂.mode)
    (hx : valEq x₁ x₂) (hxp : x₁.prec = x₂.prec) (hy : valEq y₁ y₂) (hyp : y₁.prec = y₂.prec) :
    resEq (quo z₁ x₁ y₁ false false) (quo z₂ x₂ y₂ false false) :=
  Decimal.quo_congr hp hm hx hxp hy hyp
theorem fma_value_congr {z₁ z₂ x₁ x₂ y₁ y₂ u₁ u₂ : Dec} (hp : z₁.prec = z₂.prec)
    (hm : z₁.mode = z₂.mode) (hx : valEq x₁ x₂) (hxp : x₁.prec = x₂.prec) (hy : valEq y₁ y₂)
    (hyp : y₁.prec = y₂.prec) (hu : valEq u₁ u₂) (hup : u₁.prec = u₂.prec) :
    resEq (fma z₁ x₁ y₁ u₁ false false false) (fma z₂ x₂ y₂ u₂ false false false) :=
  Decimal.fma_congr hp hm hx hxp hy hyp hu hup

theorem set_old_contents (z₁ z₂ x : Dec) (hp : z₁.prec = z₂.prec) (hm : z₁.mode = z₂.mode) :
    obsEq (set z₁ x false) (set z₂ x false) :=
  Decimal.set_obs hp hm (valEq.refl x) (fun _ => rfl) (by rw [hp])
theorem neg_old_contents (z₁ z₂ x : Dec) (hp : z₁.prec = z₂.prec) (hm : z₁.mode = z₂.mode) :
    obsEq (neg z₁ x false) (neg z₂ x false) :=
  Decimal.neg_obs hp hm (valEq.refl x) rfl
theorem abs_old_contents (z₁ z₂ x : Dec) (hp : z₁.prec = z₂.prec) (hm : z₁.mode = z₂.mode) :
    obsEq (abs z₁ x false) (abs z₂ x false) :=
  Decimal.abs_obs hp hm (valEq.refl x) rfl

/-- `Copy`, `SetMantExp`, `MantExp` overwrite the attributes too: nothing of the old receiver
    is observable. -/
theorem copy_old_contents (z₁ z₂ x : Dec) : obsEq (copy z₁ x false) (copy z₂ x false) :=
  Decimal.copy_obs z₁ z₂ x
theorem setMantExp_old_contents (z₁ z₂ x : Dec) (e : Int) :
    obsEq (setMantExp z₁ x e false) (setMantExp z₂ x e false) :=
  Decimal.setMantExp_obs z₁ z₂ x e
theorem mantExp_old_contents (x m₁ m₂ : Dec) :
    (mantExp x m₁ false).1 = (mantExp x m₂ false).1 ∧
      obsEq (mantExp x m₁ false).2 (mantExp x m₂ false).2 :=
  Decimal.mantExp_obs x m₁ m₂

example : obsEq (copy { mant := 9, len := 1, prec := 4 } { form := .inf, prec := 2 } false)
    (copy {} { form := .inf, prec := 2 } false) := copy_old_contents _ _ _

#print axioms add_alias_indep
#print axioms sub_alias_indep
#print axioms mul_alias_indep
#print axioms quo_alias_indep
#print axioms fma_alias_indep
#print axioms add_alias_x_prologue
#print axioms sub_alias_xy_prologue
#print axioms set_alias_indep
#print axioms copy_alias_indep
#print axioms setMantExp_alias_indep
#print axioms add_old_contents
#print axioms sub_old_contents
#print axioms mul_old_contents
#print axioms quo_old_contents
#print axioms fma_old_contents
#print axioms fma_value_congr
#print axioms set_old_contents
#print axioms neg_old_contents
#print axioms abs_old_contents
#print axioms copy_old_contents
#print axioms setMantExp_old_contents
#print axioms mantExp_old_contents

end Decimal.C10
