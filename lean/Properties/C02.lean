/-
  C02: the accuracy flag. For every arithmetic operation on canonical finite operands with a
  finite result, `acc` is the sign of (stored value − exact value): `Exact` iff the exact result
  is representable (and then it is the stored value), `Above`/`Below` iff the stored signed value
  is above/below the exact one. Derived from the sanity theorems of the specification
  `Spec.round` itself, which are re-exported here as well.

  Values are compared with a common power of ten factored out (`decVal z k`, `resMag r k p`), so
  that no power `10^(±2^31)` is ever formed.

  Final statements only; proofs in `Proofs/RoundProps.lean`, `Proofs/Accuracy.lean`.
-/
import Proofs.Accuracy
import Properties.C01
import Mathlib.Tactic.NormNum

namespace Decimal.C02
open Decimal Spec

/-! ### The specification `Spec.round` itself (`q > 0`, `p ≥ 1`, finite result)

  `resMag r k p = r.coef × 10^(r.exp − k − p)` is the result's magnitude, the exact magnitude being
  `q` (both with `10^k` factored out); `ulpOf q p = 10^(decExp q − p)`. -/

section
variable (mode : Mode) (p : Nat) (neg : Bool) (q : ℚ) (k : Int)
  (hq : 0 < q) (hp : 1 ≤ p) (hfin : (Spec.round mode p neg q k).form = .finite)
include hq hp hfin

theorem spec_coef_digits : ndigits (Spec.round mode p neg q k).coef = p :=
  round_coef_digits mode p neg q k hq hp hfin

theorem spec_sign : (Spec.round mode p neg q k).neg = neg := round_neg_n mode p neg q k hq hp hfin

theorem spec_acc_exact_iff :
    (Spec.round mode p neg q k).acc = Exact ↔ resMag (Spec.round mode p neg q k) k p = q :=
  round_acc_exact_iff mode p neg q k hq hp hfin

theorem spec_acc_above_iff :
    (Spec.round mode p neg q k).acc = Above ↔
      (if neg then resMag (Spec.round mode p neg q k) k p < q
       else q < resMag (Spec.round mode p neg q k) k p) :=
  round_acc_above_iff mode p neg q k hq hp hfin

theorem spec_acc_below_iff :
    (Spec.round mode p neg q k).acc = Below ↔
      (if neg then q < resMag (Spec.round mode p neg q k) k p
       else resMag (Spec.round mode p neg q k) k p < q) :=
  round_acc_below_iff mode p neg q k hq hp hfin

/-- The result is one of the two `p`-digit neighbours of the exact value. -/
theorem spec_faithful : |resMag (Spec.round mode p neg q k) k p - q| < ulpOf q p :=
  round_faithful mode p neg q k hq hp hfin

/-- Directed modes pick the neighbour on the documented side. -/
theorem spec_directed :
    (mode = .ToZero → resMag (Spec.round mode p neg q k) k p ≤ q) ∧
    (mode = .AwayFromZero → q ≤ resMag (Spec.round mode p neg q k) k p) ∧
    (mode = .ToNegativeInf →
      if neg then q ≤ resMag (Spec.round mode p neg q k) k p
      else resMag (Spec.round mode p neg q k) k p ≤ q) ∧
    (mode = .ToPositiveInf →
      if neg then resMag (Spec.round mode p neg q k) k p ≤ q
      else q ≤ resMag (Spec.round mode p neg q k) k p) :=
  round_directed mode p neg q k hq hp hfin

/-- Nearest modes: at most half an ulp. -/
theorem spec_nearest (hm : mode = .ToNearestEven ∨ mode = .ToNearestAway) :
    |resMag (Spec.round mode p neg q k) k p - q| ≤ ulpOf q p / 2 :=
  round_nearest mode p neg q k hq hp hfin hm

end

/-- Underflow / overflow of the specification. -/
theorem spec_special_acc (mode : Mode) (p : Nat) (neg : Bool) (q : ℚ) (k : Int) :
    ((Spec.round mode p neg q k).form = .zero →
        (Spec.round mode p neg q k).acc = makeAcc neg ∧ decExp q + k < MinExp) ∧
    ((Spec.round mode p neg q k).form = .inf → (Spec.round mode p neg q k).acc = makeAcc (!neg)) :=
  round_special_acc mode p neg q k

/-! ### The operations

  `decVal z k` = signed stored value of `z` with `10^k` factored out. -/

/-- `Add`: exact signed sum `v.s × 10^v.k`. -/
theorem add_acc (z x y : Dec) (hx : FinCanon x) (hy : FinCanon y)
    (hfin : (add z x y).1.form = .finite) :
    let v := (signedQ x.neg x.mant (intExp x)).add (signedQ y.neg y.mant (intExp y))
    ((add z x y).1.acc = Exact ↔ decVal (add z x y).1 v.k = v.s) ∧
    ((add z x y).1.acc = Above ↔ v.s < decVal (add z x y).1 v.k) ∧
    ((add z x y).1.acc = Below ↔ decVal (add z x y).1 v.k < v.s) :=
  acc_sign_of_agrees_roundSQ _ z.mode (effPrec2 z x y) _ _ (effPrec2_pos z hx hy)
    (Decimal.add_correct z x y hx hy).1 hfin

theorem sub_acc (z x y : Dec) (hx : FinCanon x) (hy : FinCanon y)
    (hfin : (sub z x y).1.form = .finite) :
    let v := (signedQ x.neg x.mant (intExp x)).add (signedQ (!y.neg) y.mant (intExp y))
    ((sub z x y).1.acc = Exact ↔ decVal (sub z x y).1 v.k = v.s) ∧
    ((sub z x y).1.acc = Above ↔ v.s < decVal (sub z x y).1 v.k) ∧
    ((sub z x y).1.acc = Below ↔ decVal (sub z x y).1 v.k < v.s) :=
  acc_sign_of_agrees_roundSQ _ z.mode (effPrec2 z x y) _ _ (effPrec2_pos z hx hy)
    (Decimal.sub_correct z x y hx hy).1 hfin

/-- `Mul`: exact signed product `±(x.mant · y.mant) × 10^(ex + ey)`. -/
theorem mul_acc (z x y : Dec) (hx : FinCanon x) (hy : FinCanon y)
    (hfin : (mul z x y).1.form = .finite) :
    let k := intExp x + intExp y
    let e : ℚ := if (x.neg != y.neg) then -((x.mant : ℚ) * y.mant) else (x.mant : ℚ) * y.mant
    ((mul z x y).1.acc = Exact ↔ decVal (mul z x y).1 k = e) ∧
    ((mul z x y).1.acc = Above ↔ e < decVal (mul z x y).1 k) ∧
    ((mul z x y).1.acc = Below ↔ decVal (mul z x y).1 k < e) :=
  acc_sign_of_agrees _ z.mode (effPrec2 z x y) _ _ _
    (mul_pos (by exact_mod_cast hx.mant_pos) (by exact_mod_cast hy.mant_pos))
    (effPrec2_pos z hx hy) (Decimal.mul_correct z x y hx hy).1 hfin

/-- `Quo`: exact signed quotient `±(x.mant / y.mant) × 10^(ex − ey)`. -/
theorem quo_acc (z x y : Dec) (hx : FinCanon x) (hy : FinCanon y)
    (hfin : (quo z x y).1.form = .finite) :
    let k := intExp x - intExp y
    let e : ℚ := if (x.neg != y.neg) then -((x.mant : ℚ) / y.mant) else (x.mant : ℚ) / y.mant
    ((quo z x y).1.acc = Exact ↔ decVal (quo z x y).1 k = e) ∧
    ((quo z x y).1.acc = Above ↔ e < decVal (quo z x y).1 k) ∧
    ((quo z x y).1.acc = Below ↔ decVal (quo z x y).1 k < e) :=
  acc_sign_of_agrees _ z.mode (effPrec2 z x y) _ _ _
    (div_pos (by exact_mod_cast hx.mant_pos) (by exact_mod_cast hy.mant_pos))
    (effPrec2_pos z hx hy) (Decimal.quo_correct z x y hx hy).1 hfin

/-- `Set`: the exact value is `x` itself. -/
theorem set_acc (z x : Dec) (hx : Canon x) (hfin : (set z x).form = .finite) :
    let k := intExp x
    let e : ℚ := if x.neg then -(x.mant : ℚ) else (x.mant : ℚ)
    ((set z x).acc = Exact ↔ decVal (set z x) k = e) ∧
    ((set z x).acc = Above ↔ e < decVal (set z x) k) ∧
    ((set z x).acc = Below ↔ decVal (set z x) k < e) :=
  acc_sign_of_agrees _ z.mode (effPrec1 z x) _ _ _ (by exact_mod_cast hx.1.mant_pos)
    (effPrec1_pos z hx.1.prec_pos) (Decimal.set_correct z x hx).1 hfin

/-! ### Non-vacuity: `123.45 × (−0.00995)` at 4 digits toward +∞ is finite and inexact -/

theorem mulEx_finite : (mul C01.zEx C01.xEx C01.yEx).1.form = .finite := by
  have hk : intExp C01.xEx + intExp C01.yEx = -37 := by decide
  have hq : (0 : ℚ) < ((C01.xEx.mant : ℚ) * (C01.yEx.mant : ℚ)) := by norm_num [C01.xEx, C01.yEx]
  have hd : decExp ((C01.xEx.mant : ℚ) * (C01.yEx.mant : ℚ)) = 38 :=
    decExp_unique hq 38 (by norm_num [C01.xEx, C01.yEx]) (by norm_num [C01.xEx, C01.yEx])
  have h := (Decimal.mul_correct C01.zEx C01.xEx C01.yEx C01.xEx_canon.1 C01.yEx_canon.1).1
  rw [agrees_iff] at h
  rw [h.1]
  apply round_form_finite
  · rw [hd, hk]; decide
  · rw [hd, hk]; decide

example :
    ((mul C01.zEx C01.xEx C01.yEx).1.acc = Exact ↔
      decVal (mul C01.zEx C01.xEx C01.yEx).1 (intExp C01.xEx + intExp C01.yEx)
        = (if (C01.xEx.neg != C01.yEx.neg) then -((C01.xEx.mant : ℚ) * C01.yEx.mant)
           else (C01.xEx.mant : ℚ) * C01.yEx.mant)) :=
  (mul_acc C01.zEx C01.xEx C01.yEx C01.xEx_canon.1 C01.yEx_canon.1 mulEx_finite).1

#print axioms spec_coef_digits
#print axioms spec_acc_exact_iff
#print axioms spec_acc_above_iff
#print axioms spec_acc_below_iff
#print axioms spec_faithful
#print axioms spec_directed
#print axioms spec_nearest
#print axioms spec_special_acc
#print axioms add_acc
#print axioms sub_acc
#print axioms mul_acc
#print axioms quo_acc
#print axioms set_acc

end Decimal.C02
