/-
  CGenK — the unsigned kernels `uadd`, `usub`, `umul`, `uquo` of decimal.go, REGENERATED from the source on
  every run, are the word-level model (supports C01, C02, C03, C06, C10).

  `tools/gen/facts.go` translates each kernel into `Gen.Facts.<kernel>`: the int64 exponent arithmetic with
  wrap-around, the `switch`/`if` structure, the shift and extension amounts, the exponent and the sticky bit
  handed to `setExpAndRound`, the cancellation exit of `usub`, and — as `mtrace` — the mantissa statements in
  execution order, each with its integer arguments (statement texts are matched literally; a statement the table
  does not list, or a listed one that no longer occurs, fails the generator).

  For each kernel `<k>G` re-assembles the kernel from the generated function by EXECUTING the trace over the L0
  operations, and `<k>_eq` proves `W.<k> = <k>G` for every value of the pointer tests (`same(z.mant, x.mant)`,
  `same(z.mant, y.mant)`, `x == y`). `W.<k>` is the word-level model that `C01W.*_refines` prove to refine the
  numeric model, which `C01.*_correct` prove correctly rounded; so the chain from the Go text of these four
  functions to "the exact result rounded once" consists of theorems only (the L0 operations and `round` themselves
  are tied by C06/C07 and by `CGen.round_eq`).

  Hypotheses = value ranges of the Go types: int32 exponents, slice lengths below 2^40, uint32 precision, and the
  decimal shift of `dnorm` at most 19 — which `dnorm_shift_le` proves for every mantissa with words below 10^19
  (`uadd_eq_wf` discharges it for well-formed operands). Proofs: `Proofs/GenKernels.lean`.
-/
import Proofs.GenKernels
import Proofs.GenConv
import Proofs.GenFma
import Proofs.GenGob

namespace Decimal.CGenK

open Decimal Decimal.W Decimal.L0 Decimal.GenKernels

/-- closed form of the regenerated `uadd` (branch, shift, exponent, sticky bit, mantissa statements) -/
theorem uadd_gen (xExp yExp : Int) (lenX lenY lenZ : Nat) (sameZX sameZY : Bool) (dn : Int)
    (hx : I32 xExp) (hy : I32 yExp) (hlx : Len lenX) (hly : Len lenY) (hlz : Len lenZ)
    (hdn : 0 ≤ dn ∧ dn ≤ 19) :
    let ex : Int := xExp - lenX * 19
    let ey : Int := yExp - lenY * 19
    Gen.Facts.uadd xExp lenX yExp lenY sameZX sameZY lenZ dn =
      { outcome := 0, tail := 1, arg := min ex ey + lenZ * 19 - dn, arg2 := 0,
        mtrace :=
          if ex < ey then (if sameZX then [(1, [ey - ex]), (2, [])] else [(3, [ey - ex]), (4, [])])
          else if ex > ey then (if sameZY then [(6, [ex - ey]), (7, [])] else [(8, [ex - ey]), (9, [])])
          else [(5, [])] } :=
  GenKernels.uadd_gen xExp yExp lenX lenY lenZ sameZX sameZY dn hx hy hlx hly hlz hdn

theorem uadd_eq (z x y : WDec) (sameZX sameZY : Bool)
    (hx : I32 x.exp) (hy : I32 y.exp) (hlx : Len x.mant.length) (hly : Len y.mant.length)
    (hlz : Len (uaddMant x y).length)
    (hs : ∀ m' s, W.dnorm (uaddMant x y) = .ok (m', s) → s ≤ 19) :
    W.uadd z x y = uaddG z x y sameZX sameZY :=
  GenKernels.uadd_eq z x y sameZX sameZY hx hy hlx hly hlz hs

theorem uadd_eq_wf (z x y : WDec) (sameZX sameZY : Bool)
    (hx : I32 x.exp) (hy : I32 y.exp) (hwx : L0.WF x.mant) (hwy : L0.WF y.mant)
    (hlx : Len x.mant.length) (hly : Len y.mant.length) (hlz : Len (uaddMant x y).length) :
    W.uadd z x y = uaddG z x y sameZX sameZY :=
  GenKernels.uadd_eq_wf z x y sameZX sameZY hx hy hwx hwy hlx hly hlz

theorem usub_eq (z x y : WDec) (sameZX sameZY : Bool)
    (hx : I32 x.exp) (hy : I32 y.exp) (hlx : Len x.mant.length) (hly : Len y.mant.length)
    (hlz : ∀ m, usubMant x y = .ok m → Len m.length)
    (hs : ∀ m m' s, usubMant x y = .ok m → W.dnorm m = .ok (m', s) → s ≤ 19) :
    W.usub z x y = usubG z x y sameZX sameZY :=
  GenKernels.usub_eq z x y sameZX sameZY hx hy hlx hly hlz hs

theorem umul_eq (z x y : WDec) (xIsY : Bool) (t : Thr) (hx : I32 x.exp) (hy : I32 y.exp)
    (hs : ∀ m' s, W.dnorm (if xIsY then L0.sqr t.bsqr t.ksqr t.kmul x.mant.length x.mant
        else L0.mul t.kmul (x.mant.length + y.mant.length + 1) x.mant y.mant) = .ok (m', s) → s ≤ 19) :
    W.umul z x y xIsY t = umulG z x y xIsY t :=
  GenKernels.umul_eq z x y xIsY t hx hy hs

/-- `umul_eq` for operands with words below the base and thresholds ≥ 1 (its hypothesis discharged by `mul_spec` / `sqr_spec`). -/
theorem umul_eq_wf (z x y : WDec) (xIsY : Bool) (t : Thr) (hx : I32 x.exp) (hy : I32 y.exp)
    (hwx : L0.WF x.mant) (hwy : L0.WF y.mant) (hk : 1 ≤ t.kmul) (hks : 1 ≤ t.ksqr) :
    W.umul z x y xIsY t = umulG z x y xIsY t :=
  GenKernels.umul_eq_wf z x y xIsY t hx hy hwx hwy hk hks

theorem uquo_eq (z x y : WDec) (t : Thr) (hp : z.prec < 4294967296) (hx : I32 x.exp) (hy : I32 y.exp)
    (hlx : Len x.mant.length) (hly : Len y.mant.length) (hla : Len (xadjOf z x y).length)
    (hlq : ∀ q r, divFull t.drec t.kmul (xadjOf z x y) y.mant = .ok (q, r) → Len q.length)
    (hs : ∀ q r m' s, divFull t.drec t.kmul (xadjOf z x y) y.mant = .ok (q, r) → W.dnorm q = .ok (m', s) → s ≤ 19) :
    W.uquo z x y t = uquoG z x y t :=
  GenKernels.uquo_eq z x y t hp hx hy hlx hly hla hlq hs

/-- the decimal shift of `dnorm` is at most 19 for every mantissa with words below the base -/
theorem dnorm_shift_le (m m' : List Nat) (s : Nat) (hw : L0.WF m) (h : W.dnorm m = .ok (m', s)) : s ≤ 19 :=
  GenKernels.dnorm_shift_le m m' s hw h

/-! ### `FMA` (regenerated, including the scratch Decimal that is the receiver or a fresh one) -/

/-- **fma_eq.** `FMA` as regenerated from decimal.go IS the model's `fma` (operands `x`, `y` distinct from the
    receiver; `su` = "u is the receiver", in which case the scratch Decimal is fresh; the mantissa-buffer test
    `alias(z.mant, u.mant)` can only hold together with it): the precision prologue over the three operands, the
    zero-addend shortcut into `Mul`, which object `z0` is and what it inherits, the product sign, the scratch
    precision MaxPrec around `umul` and its restoration, the NaN panic with the receiver left a valid zero, the
    infinite / zero product, and the operands of the final `Add`. `pre` is the state at the first opaque call, the
    return or the panic; `g` the state at the final `Add`, given the form and accuracy `umul` left. -/
theorem fma_eq (z x y u : Dec) (su a : Bool) (ha : (su || a) = su) (hu : su = true → u = z) :
    let pre := Gen.Facts.FMAPre su a x.form.toNat x.neg x.prec y.form.toNat y.neg y.prec u.form.toNat u.prec
      z.prec z.mode.toNat z.neg z.acc z.form.toNat
    let z1 : Dec := { z with prec := pre.zPrec, neg := pre.zNeg, acc := pre.zAcc, form := GenFacts.formOf pre.zForm }
    let z0 : Dec := GenFma.scratch pre.fresh z1 pre.z0_prec pre.z0_mode pre.z0_neg pre.z0_acc pre.z0_form
    let u' : Dec := if su then z1 else u
    let fin := fun (s : Dec) => if su then Decimal.add z1 s u' false true else Decimal.add s s u' true false
    Decimal.fma z x y u false false su =
      if pre.tail = 1 then Decimal.mul z1 x y
      else if pre.tail = 0 then (z1, GenFacts.outcomeOf pre.outcome)
      else if pre.tail = 2 then fin z0
      else
        let K := Decimal.umul z0 x y
        let g := Gen.Facts.FMA su a x.form.toNat x.neg x.prec y.form.toNat y.neg y.prec u.form.toNat u.prec
          K.form.toNat K.acc z.prec z.mode.toNat z.neg z.acc z.form.toNat
        fin { K with prec := if g.fresh then g.z0_prec else g.zPrec } :=
  GenFma.fma_eq z x y u su a ha hu

/-! ### `GobDecode` (regenerated validation and assignment logic) -/

/-- **gobDecode_eq.** `GobDecode` as regenerated from decimal_marsh.go IS the model's `gobDecode`, for every payload:
    empty payload (receiver reset), version byte, both length checks, the attribute byte (`mode = b>>5 & 7`,
    `acc = (b>>3 & 3) − 1` in int8, `form = b>>1 & 3`, sign bit) and its validation, the exponent field read as int32,
    each validation of the decoded mantissa (non-empty, top word ≥ 10^18, no word ≥ 10^19 — the range loop —, digit
    count minus trailing zeros within the transmitted precision, in wrapping uint64), "nothing is touched before
    everything is validated", the assignments, and a non-zero receiver precision and mode restored through
    `SetPrec`. `outcome = 3` is the error return. The hypotheses say that the payload consists of bytes and fits in
    memory, and that a number has no more trailing zeros than digits (`trailingZeros_lt_ndigits`). -/
theorem gobDecode_eq (z : Dec) (buf : List Nat)
    (hB : buf.getD 1 0 < 256)
    (hE : ofBE ((buf.drop 6).take 4) < 4294967296)
    (hL : (GenGob.wsOf buf).length * 19 < 18446744073709551616)
    (hT : trailingZeros (natOf (GenGob.wsOf buf)) ≤ (GenGob.wsOf buf).length * 19) :
    let g := Gen.Facts.GobDecode buf.length (buf.headD 0) (buf.getD 1 0) (ofBE ((buf.drop 2).take 4))
      (ofBE ((buf.drop 6).take 4)) (GenGob.wsOf buf).length ((GenGob.wsOf buf).getLast?.getD 0)
      ((GenGob.wsOf buf).any (· ≥ B)) (trailingZeros (natOf (GenGob.wsOf buf)))
      z.prec z.mode.toNat z.acc z.form.toNat z.neg z.exp
    let z' : Dec :=
      { z with prec := g.zPrec, mode := GenFacts.modeOf g.zMode, acc := g.zAcc, form := GenFacts.formOf g.zForm, neg := g.zNeg, exp := g.zExp,
               mant := if buf.isEmpty then 0 else if g.zForm = 1 then natOf (GenGob.wsOf buf) else z.mant,
               len := if buf.isEmpty then 0 else if g.zForm = 1 then (GenGob.wsOf buf).length else z.len }
    gobDecode z buf =
      if g.outcome = 3 then none
      else if g.tail = 1 then some (setPrec z' z.prec) else some z' :=
  GenGob.gobDecode_eq z buf hB hE hL hT

/-- **gobEncode_eq.** `GobEncode` as regenerated from decimal_marsh.go writes exactly the quantities of the model's
    `gobEncode`: the buffer size (6, or 6 + 4 + 8·n with n = min(len, ⌈prec/19⌉) words for a finite value), the version
    byte, the attribute byte (`mode&7 << 5 | (acc+1)&3 << 3 | form&3 << 1 | sign` in byte arithmetic — all 108 attribute
    combinations), the precision field, and for finite values the exponent as uint32 and the index of the first
    mantissa word encoded. -/
theorem gobEncode_eq (x : Dec) (hacc : x.acc = -1 ∨ x.acc = 0 ∨ x.acc = 1) (hprec : x.prec < 4294967296)
    (hlen : x.len < 1099511627776) :
    Gen.Facts.GobEncode false x.form.toNat x.prec x.len x.mode.toNat x.acc x.neg x.exp =
      { outcome := 0, tail := 0,
        mtrace := [(1, [if x.form = .finite then 6 + (4 + (GenGob.nWords x.prec x.len : Int) * 8) else 6]), (2, [1]),
            (3, [(GenGob.hdrOf x.mode x.form x.acc x.neg : Int)]), (4, [(x.prec : Int)])] ++
          (if x.form = .finite then [(5, [((x.exp % 4294967296).toNat : Int)]), (6, [(x.len : Int) - (GenGob.nWords x.prec x.len : Int)])] else []) } :=
  GenGob.gobEncode_eq x hacc hprec hlen

/-- the attribute byte and the word count used above are those of the model's `gobEncode` (definitional) -/
theorem gobEncode_header (x : Dec) :
    (gobEncode x).take 2 = [1, GenGob.hdrOf x.mode x.form x.acc x.neg] := by
  unfold gobEncode GenGob.hdrOf
  by_cases hf : x.form == .finite <;> simp [hf]

/-! ### `Sqrt`: prologue, NaN, special operands, exponent parity and halving -/

/-- `Sqrt` as regenerated from decimal_sqrt.go, with `x.MantExp(z)` instantiated by what it does: the ErrNaN panic
    for a negative non-zero operand and the early return for ±0 / +Inf leave exactly the model's receiver; for a
    finite positive operand the receiver's precision and mode are those of the prologue (restored after MantExp),
    the exponent handed to `sqrtInverse` is 0, 1 or −1 by the parity of `x.exp` (Go's truncated `%`), and `SetMantExp`
    re-attaches `x.exp / 2` (Go's truncated `/`) — `goMod2`, `goDiv2` of the model. -/
theorem sqrt_eq (z x : Dec) (hexp : -2147483648 ≤ x.exp ∧ x.exp ≤ 2147483647) :
    let g := Gen.Facts.Sqrt x.form.toNat x.neg x.prec x.exp x.prec x.mode.toNat x.acc x.form.toNat x.neg 0
      z.prec z.mode.toNat z.acc z.form.toNat z.neg z.exp
    let z1 : Dec := { z with prec := g.zPrec, acc := g.zAcc, form := GenFacts.formOf g.zForm, neg := g.zNeg }
    (¬ (x.form = .finite ∧ x.neg = false) → g.tail = 0 ∧ Decimal.sqrt z x false = (z1, GenFacts.outcomeOf g.outcome)) ∧
    (x.form = .finite ∧ x.neg = false →
      g.tail = 3 ∧ g.outcome = 0 ∧ g.zPrec = (if z.prec = 0 then x.prec else z.prec) ∧ GenFacts.modeOf g.zMode = z.mode ∧
      g.zExp = goMod2 x.exp ∧ g.arg = goDiv2 x.exp) :=
  GenConv.sqrt_eq z x hexp

/-! ### the saturating conversions (regenerated decision logic of `Int64`, `Uint64`, `Abs`) -/

/-- `Int64` as regenerated — the form switch, `exp <= 0`, `exp <= 20`, the 64-bit fit of the integer part, the
    `t&(1<<63) == 0 || (x.neg && t == 1<<63)` test, the negation in wrapping int64, the accuracy from
    `x.MinPrec() <= uint(x.exp)` and both saturation values — is the model's `toInt64`, for every x. -/
theorem int64_eq (x : Dec) (tv : Nat) (hexp : -2147483648 ≤ x.exp ∧ x.exp ≤ 2147483647)
    (ht : intMant x < 2 ^ 64 → tv = intMant x) :
    Gen.Facts.Int64 x.form.toNat x.neg x.exp (minPrec x) tv (decide (intMant x < 2 ^ 64)) = some (toInt64 x) :=
  GenConv.int64_eq x tv hexp ht

theorem uint64_eq (x : Dec) (rv : Nat) (hexp : -2147483648 ≤ x.exp ∧ x.exp ≤ 2147483647)
    (ht : intMant x < 2 ^ 64 → rv = intMant x) :
    Gen.Facts.Uint64 x.form.toNat x.neg x.exp (minPrec x) rv (decide (intMant x < 2 ^ 64)) = some (toUint64 x) :=
  GenConv.uint64_eq x rv hexp ht

theorem abs_eq (z x : Dec) (same : Bool) :
    Decimal.abs z x same =
      { Decimal.set z x same with neg := (Gen.Facts.Abs (Decimal.set z x same).neg z.neg).zNeg } :=
  GenConv.abs_eq z x same

/-- `MinPrec` as regenerated (wrapping uint arithmetic) is the model's `minPrec`. -/
theorem minPrec_eq (x : Dec) (hlen : x.len < 1099511627776) (htz : trailingZeros x.mant ≤ x.len * 19) :
    Gen.Facts.MinPrec x.form.toNat x.len (trailingZeros x.mant) = minPrec x :=
  GenConv.minPrec_eq x hlen htz

/-- `SetInt64(x)` hands `(x < 0, |x|, 0)` to `setBits64` for every int64, `math.MinInt64` included. -/
theorem setInt64_args (x : Int) (h1 : -9223372036854775808 ≤ x) (h2 : x ≤ 9223372036854775807) :
    Gen.Facts.SetInt64 x =
      { outcome := 0, tail := 1, args := [if x < 0 then 1 else 0, (x.natAbs : Int), 0] } :=
  GenConv.setInt64_args x h1 h2

theorem setUint64_args (x : Nat) :
    Gen.Facts.SetUint64 x = { outcome := 0, tail := 1, args := [0, (x : Int), 0] } :=
  GenConv.setUint64_args x

/-- `NewDecimal(x, exp)` hands `(x < 0, |x|, exp)` to `setBits64` of a fresh Decimal: the model's `newDecimal`
    (`setBits64` itself: `CGen.setBits64_eq`). -/
theorem newDecimal_args (x e : Int) (h1 : -9223372036854775808 ≤ x) (h2 : x ≤ 9223372036854775807) :
    Gen.Facts.NewDecimal x e =
      { outcome := 0, tail := 1, args := [if x < 0 then 1 else 0, (x.natAbs : Int), e] } :=
  GenConv.newDecimal_args x e h1 h2

/-! ### the hypotheses are satisfiable; the re-assembled kernels compute -/

private def xEx : WDec := { form := .finite, mant := [2500000000000000000, 1234567890123456789], exp := 3, prec := 40 }
private def yEx : WDec := { form := .finite, mant := [9990000000000000000], exp := -2, prec := 40 }
private def zEx : WDec := { prec := 25, mode := .ToNearestEven }

example : I32 xEx.exp ∧ I32 yEx.exp ∧ Len xEx.mant.length ∧ Len yEx.mant.length ∧ L0.WF xEx.mant ∧ L0.WF yEx.mant := by
  refine ⟨by unfold I32 xEx; decide, by unfold I32 yEx; decide, by unfold Len xEx; decide, by unfold Len yEx; decide, ?_, ?_⟩ <;>
    (intro w hw; simp [xEx, yEx] at hw; omega)

/-- every hypothesis of the four kernel theorems is met by the example operands (evaluated by `decide`) -/
example : W.uadd zEx xEx yEx = uaddG zEx xEx yEx false true :=
  uadd_eq zEx xEx yEx false true (by unfold I32 xEx; decide) (by unfold I32 yEx; decide) (by unfold Len xEx; decide)
    (by unfold Len yEx; decide) (by unfold Len; decide)
    (by
      intro m' s h
      have e : W.dnorm (uaddMant xEx yEx) = .ok ([2500000000000000000, 1234667790123456789], 0) := by decide
      rw [e] at h; cases h; decide)

example : W.usub zEx xEx yEx = usubG zEx xEx yEx true false :=
  usub_eq zEx xEx yEx true false (by unfold I32 xEx; decide) (by unfold I32 yEx; decide) (by unfold Len xEx; decide)
    (by unfold Len yEx; decide)
    (by
      intro m h
      have e : usubMant xEx yEx = .ok [2500000000000000000, 1234467990123456789] := by decide
      rw [e] at h; cases h; unfold Len; decide)
    (by
      intro m m' s h hd
      have e : usubMant xEx yEx = .ok [2500000000000000000, 1234467990123456789] := by decide
      rw [e] at h; cases h
      have e2 : W.dnorm [2500000000000000000, 1234467990123456789] = .ok ([2500000000000000000, 1234467990123456789], 0) := by decide
      rw [e2] at hd; cases hd; decide)

example : W.umul zEx xEx yEx false {} = umulG zEx xEx yEx false {} :=
  umul_eq_wf zEx xEx yEx false {} (by unfold I32 xEx; decide) (by unfold I32 yEx; decide)
    (by intro w hw; simp [xEx] at hw; omega) (by intro w hw; simp [yEx] at hw; omega) (by decide) (by decide)

example : W.uquo zEx xEx yEx {} = uquoG zEx xEx yEx {} :=
  uquo_eq zEx xEx yEx {} (by decide) (by unfold I32 xEx; decide) (by unfold I32 yEx; decide) (by unfold Len xEx; decide)
    (by unfold Len yEx; decide) (by unfold Len; decide)
    (by
      intro q r h
      have e : (divFull ({} : Thr).drec ({} : Thr).kmul (xadjOf zEx xEx yEx) yEx.mant).toOption.map (fun p => p.1.length) = some 2 := by decide
      rw [h] at e
      simp [Except.toOption] at e
      unfold Len; omega)
    (by
      intro q r m' s h hd
      have e : (divFull ({} : Thr).drec ({} : Thr).kmul (xadjOf zEx xEx yEx) yEx.mant).toOption.map (fun p => (W.dnorm p.1).toOption.map (fun t => t.2)) = some (some 0) := by decide
      rw [h] at e
      simp [Except.toOption, hd] at e
      omega)

private def same (a b : Except String WDec) : Bool := toString (repr a) == toString (repr b)

-- executed at build time (tests, not theorems): the re-assembled kernels return what the model returns
#eval same (uaddG zEx xEx yEx false false) (W.uadd zEx xEx yEx) && same (uaddG zEx yEx xEx true false) (W.uadd zEx yEx xEx)
#eval same (usubG zEx xEx yEx true false) (W.usub zEx xEx yEx) && same (usubG zEx xEx xEx false false) (W.usub zEx xEx xEx)
#eval same (umulG zEx xEx yEx false {}) (W.umul zEx xEx yEx false {}) && same (umulG zEx xEx xEx true {}) (W.umul zEx xEx xEx true {})
#eval same (uquoG zEx xEx yEx {}) (W.uquo zEx xEx yEx {}) && same (uquoG zEx yEx xEx {}) (W.uquo zEx yEx xEx {})
#eval (Gen.Facts.uadd 3 2 (-2) 1 false false 3 0).mtrace
#eval (Gen.Facts.uquo 25 3 2 (-2) 1 3 2 1 0).mtrace

#print axioms uadd_gen
#print axioms uadd_eq
#print axioms uadd_eq_wf
#print axioms usub_eq
#print axioms umul_eq
#print axioms umul_eq_wf
#print axioms uquo_eq
#print axioms dnorm_shift_le
#print axioms int64_eq
#print axioms uint64_eq
#print axioms abs_eq
#print axioms minPrec_eq
#print axioms fma_eq
#print axioms sqrt_eq
#print axioms gobDecode_eq
#print axioms gobEncode_eq
#print axioms gobEncode_header
#print axioms setInt64_args
#print axioms setUint64_args
#print axioms newDecimal_args

end Decimal.CGenK
