/-
  C03b — the first hypothesis of C03 `fma_correct`, `(x.len + y.len)·19 ≤ MaxPrec`.

  What it is for: `FMA` forms the product in a scratch Decimal whose precision is set to `MaxPrec`
  "to prevent rounding in umul"; the hypothesis makes the product fit, so that `umul` is exact.

  Can it be dropped?  No — not in the model.  `fmaS S` below is `fma` with scratch precision `S`
  (`fmaS_MaxPrec : fmaS MaxPrec = fma`, by `rfl`); `#eval` with `S = 3`:
      x = 205 (prec 3), y = 5, u = 0.00001, z.prec = 3, ToNearestEven
      fmaS 3  →  1020  Below     (205·5 = 1025 → scratch 102·10 (ties to even) → + u → 1020)
      fmaS 4, fma, Spec.fmaSV  →  1030  Above    (1025.00001 rounded once)
  i.e. as soon as the exact product has more significant digits than the scratch precision the
  result is rounded twice.  With `S = MaxPrec` this needs a product of more than 2^32 − 1
  significant digits: operands of ~1.8 GB — large but constructible (they were, see below).

  Can it be weakened?  Yes, to the weakest hypothesis under which the scratch product is exact:
      `ProdFits x y : 10^(ndigits (x.mant·y.mant) − MaxPrec) ∣ x.mant·y.mant`
  "the exact product has at most `MaxPrec` significant digits" (trailing zeros do not count).
  Then `umul` at `MaxPrec` only drops zero words (`roundTrim`), the product is still exact and
  `Add` rounds once: `fma_correct_fit`.  It follows from each of
      `(x.len + y.len)·19 ≤ MaxPrec`              (the old hypothesis: `prodFits_of_len`),
      `nwords (x.mant·y.mant)·19 ≤ MaxPrec`       (`prodFits_of_words`),
      `x.prec + y.prec ≤ MaxPrec` for canonical factors (`prodFits_of_prec`) — the natural one:
       it speaks of precisions, not of storage.

  FINDING made on the way (Go code run on 226 050 910/911-word operands, /repo as pinned+repaired):
  `(*Decimal).round` computes `m := uint32(len(z.mant)); digits := m * _DW` in uint32. For a
  mantissa of 226 050 911 words or more (≥ 2^32 digits; a value of precision > 4 294 967 290, e.g.
  `MaxPrec`, is stored in that many words) the product WRAPS, and `round` works with a wrong digit
  count:
      x = 0.1234567890123456789 held in 226 050 911 words (x.prec = MaxPrec);
      `z.SetPrec(5).Set(x)` = 0.12345 Exact     (want 0.12346 Above; with 226 050 910 words: correct);
      `z.FMA(x, y, u)`, z.prec = MaxPrec, x = 0.2000…05e2147483641 (226 050 910 words),
        y = 500001, u = 1e-2147483649: the result keeps all 4 294 967 296 digits of x·y + u with
        `Prec() = 4 294 967 295`, `Acc() = Exact` — neither the scratch `umul` nor `Add` rounded.
  The L1 model computes `digits` with unbounded naturals, so it is faithful to the Go code only for
  mantissas of fewer than 2^32 digits (`len·19 < 2^32`).  Under the old hypothesis and under
  `nwords (x.mant·y.mant)·19 ≤ MaxPrec` the scratch product is that short; under the bare
  `ProdFits` / `x.prec + y.prec ≤ MaxPrec` it may be a few words longer (trailing zero words) and
  the statement is then about the model only.  (Not an FMA issue: every operation that rounds a
  value of more than 4 294 967 290 digits is affected.)

  The second hypothesis (exponent of the exact product in range) is the recorded finding
  `fma-product-exponent-out-of-range`; it stays.

  Proofs in `Proofs/FmaFit.lean`.
-/
import Proofs.FmaFit
import Proofs.AddFar
import Properties.C01
import Properties.C03

namespace Decimal.C03b
open Decimal Spec

/-! ### `ProdFits` and what implies it -/

theorem prodFits_iff (x y : Dec) :
    ProdFits x y ↔ 10 ^ (ndigits (x.mant * y.mant) - MaxPrec) ∣ x.mant * y.mant := Iff.rfl

theorem prodFits_of_len (x y : Dec) (hx : FinCanon x) (hy : FinCanon y)
    (h : (x.len + y.len) * 19 ≤ MaxPrec) : ProdFits x y :=
  Decimal.prodFits_of_len hx hy h

theorem prodFits_of_words (x y : Dec) (h : nwords (x.mant * y.mant) * 19 ≤ MaxPrec) : ProdFits x y :=
  Decimal.prodFits_of_words h

theorem prodFits_of_prec (x y : Dec) (hx : Canon x) (hy : Canon y) (h : x.prec + y.prec ≤ MaxPrec) :
    ProdFits x y :=
  Decimal.prodFits_of_prec hx hy h

/-- What the scratch `umul` does under `ProdFits`: it only trims zero words. -/
theorem umul_scratch (z x y : Dec) (hfit : ProdFits x y)
    (hmin : MinExp ≤ intExp x + intExp y + (ndigits (x.mant * y.mant) : Int))
    (hmax : intExp x + intExp y + (ndigits (x.mant * y.mant) : Int) ≤ MaxExp) :
    umul ⟨z.form, x.neg != y.neg, z.mant, z.len, z.exp, MaxPrec, z.mode, z.acc⟩ x y
      = roundTrim (fmaRaw z x y) :=
  Decimal.umul_scratch z x y hfit hmin hmax

/-! ### FMA rounds once -/

theorem fma_correct_exact (z x y u : Dec) (hx : FinCanon x) (hy : FinCanon y) (hu : FinCanon u)
    (hfit : ProdFits x y)
    (hmin : MinExp ≤ intExp x + intExp y + (ndigits (x.mant * y.mant) : Int))
    (hmax : intExp x + intExp y + (ndigits (x.mant * y.mant) : Int) ≤ MaxExp) :
    ∃ r, Spec'.fmaSV z.mode (effPrec3 z x y u) (ofDec x) (ofDec y) (ofDec u) = some r
      ∧ agrees (fma z x y u).1 r = true ∧ (fma z x y u).2 = .ok
      ∧ (fma z x y u).1.prec = effPrec3 z x y u ∧ (fma z x y u).1.mode = z.mode := by
  rw [C01.ofDec_finite x hx.form_eq, C01.ofDec_finite y hy.form_eq, C01.ofDec_finite u hu.form_eq]
  exact ⟨_, rfl, Decimal.fma_correct_fit z x y u hx hy hu hfit hmin hmax⟩

/-- `FMA` against the specification the driver evaluates, under `ProdFits`. -/
theorem fma_correct (z x y u : Dec) (hx : FinCanon x) (hy : FinCanon y) (hu : FinCanon u)
    (hfit : ProdFits x y)
    (hmin : MinExp ≤ intExp x + intExp y + (ndigits (x.mant * y.mant) : Int))
    (hmax : intExp x + intExp y + (ndigits (x.mant * y.mant) : Int) ≤ MaxExp) :
    ∃ r, Spec.fmaSV z.mode (effPrec3 z x y u) (ofDec x) (ofDec y) (ofDec u) = some r
      ∧ agrees (fma z x y u).1 r = true ∧ (fma z x y u).2 = .ok
      ∧ (fma z x y u).1.prec = effPrec3 z x y u ∧ (fma z x y u).1.mode = z.mode := by
  rw [fmaSV_eq_exact _ _ (effPrec3_pos z hu) _ _ _ (intSV_ofDec x) (intSV_ofDec y) (intSV_ofDec u)]
  exact fma_correct_exact z x y u hx hy hu hfit hmin hmax

/-- The natural form: canonical factors whose precisions add up to at most `MaxPrec`. -/
theorem fma_correct_of_prec (z x y u : Dec) (hx : Canon x) (hy : Canon y) (hu : FinCanon u)
    (hprec : x.prec + y.prec ≤ MaxPrec)
    (hmin : MinExp ≤ intExp x + intExp y + (ndigits (x.mant * y.mant) : Int))
    (hmax : intExp x + intExp y + (ndigits (x.mant * y.mant) : Int) ≤ MaxExp) :
    ∃ r, Spec.fmaSV z.mode (effPrec3 z x y u) (ofDec x) (ofDec y) (ofDec u) = some r
      ∧ agrees (fma z x y u).1 r = true ∧ (fma z x y u).2 = .ok
      ∧ (fma z x y u).1.prec = effPrec3 z x y u ∧ (fma z x y u).1.mode = z.mode :=
  fma_correct z x y u hx.1 hy.1 hu (prodFits_of_prec x y hx hy hprec) hmin hmax

/-- The form that is also faithful to the Go code (scratch product shorter than 2^32 digits). -/
theorem fma_correct_of_words (z x y u : Dec) (hx : FinCanon x) (hy : FinCanon y) (hu : FinCanon u)
    (hw : nwords (x.mant * y.mant) * 19 ≤ MaxPrec)
    (hmin : MinExp ≤ intExp x + intExp y + (ndigits (x.mant * y.mant) : Int))
    (hmax : intExp x + intExp y + (ndigits (x.mant * y.mant) : Int) ≤ MaxExp) :
    ∃ r, Spec.fmaSV z.mode (effPrec3 z x y u) (ofDec x) (ofDec y) (ofDec u) = some r
      ∧ agrees (fma z x y u).1 r = true ∧ (fma z x y u).2 = .ok
      ∧ (fma z x y u).1.prec = effPrec3 z x y u ∧ (fma z x y u).1.mode = z.mode :=
  fma_correct z x y u hx hy hu (prodFits_of_words x y hw) hmin hmax

theorem fma_zero_sum_sign (z x y u : Dec) (hx : FinCanon x) (hy : FinCanon y) (hu : FinCanon u)
    (hfit : ProdFits x y)
    (hmin : MinExp ≤ intExp x + intExp y + (ndigits (x.mant * y.mant) : Int))
    (hmax : intExp x + intExp y + (ndigits (x.mant * y.mant) : Int) ≤ MaxExp)
    (hzero : ((signedQ (x.neg != y.neg) ((x.mant : ℚ) * (y.mant : ℚ)) (intExp x + intExp y)).add
      (signedQ u.neg u.mant (intExp u))).s = 0) :
    (fma z x y u).1.form = .zero ∧ (fma z x y u).1.acc = Exact
      ∧ (fma z x y u).1.neg = zeroSumSign z.mode (x.neg != y.neg) u.neg :=
  Decimal.fma_zero_sum_sign_fit z x y u hx hy hu hfit hmin hmax hzero

/-! ### The scaled-down model: the hypothesis cannot be dropped -/

theorem fmaS_MaxPrec (z x y u : Dec) (sx sy su : Bool) :
    fmaS MaxPrec z x y u sx sy su = fma z x y u sx sy su := rfl

/-- `205`, `5`, `0.00001`. -/
def xS : Dec := ⟨.finite, false, 2050000000000000000, 1, 3, 3, .ToNearestEven, 0⟩
def yS : Dec := ⟨.finite, false, 5000000000000000000, 1, 1, 1, .ToNearestEven, 0⟩
def uS : Dec := ⟨.finite, false, 1000000000000000000, 1, -4, 1, .ToNearestEven, 0⟩

-- scratch precision 3 < 4 significant digits of 1025: 1020 Below;  4, MaxPrec, specification: 1030 Above
/-- info: (1020000000000000000, 4, -1) -/
#guard_msgs in
#eval let r := (fmaS 3 { prec := 3 } xS yS uS).1; (r.mant, r.exp, r.acc)
/-- info: (1030000000000000000, 4, 1) -/
#guard_msgs in
#eval let r := (fmaS 4 { prec := 3 } xS yS uS).1; (r.mant, r.exp, r.acc)
/-- info: (1030000000000000000, 4, 1) -/
#guard_msgs in
#eval let r := (fma { prec := 3 } xS yS uS).1; (r.mant, r.exp, r.acc)
/-- info: some (103, 4, 1) -/
#guard_msgs in
#eval (fmaSV .ToNearestEven 3 (ofDec xS) (ofDec yS) (ofDec uS)).map fun r => (r.coef, r.exp, r.acc)

/-! ### Non-vacuity -/

example : ProdFits C01.xEx C01.yEx := prodFits_of_prec _ _ C01.xEx_canon C01.yEx_canon (by decide)

/-- `123.45 × (−0.00995) + 1.5`, the hypothesis discharged from the precisions `5 + 3 ≤ MaxPrec`. -/
example : ∃ r, Spec.fmaSV .ToPositiveInf 4 (ofDec C01.xEx) (ofDec C01.yEx) (ofDec C03.uEx) = some r
    ∧ agrees (fma C01.zEx C01.xEx C01.yEx C03.uEx).1 r = true :=
  let ⟨r, h1, h2, _⟩ := fma_correct_of_prec C01.zEx C01.xEx C01.yEx C03.uEx C01.xEx_canon C01.yEx_canon
    C03.uEx_canon.1 (by decide) (by rw [C03.prodEx_digits]; decide) (by rw [C03.prodEx_digits]; decide)
  ⟨r, h1, h2⟩

#print axioms prodFits_of_len
#print axioms prodFits_of_words
#print axioms prodFits_of_prec
#print axioms umul_scratch
#print axioms fma_correct_exact
#print axioms fma_correct
#print axioms fma_correct_of_prec
#print axioms fma_correct_of_words
#print axioms fma_zero_sum_sign
#print axioms fmaS_MaxPrec

end Decimal.C03b
