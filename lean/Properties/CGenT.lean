/-
  CGenT — `Append` of decimal_toa.go, REGENERATED from the source on every run, is the model's `append`
  (supports C13 and C11).

  `Gen.Facts.Append` (tools/gen/facts.go, translated with branch joining so that the code after an `if`/`switch` is not
  duplicated): which formatter is reached — `+Inf`/`-Inf`, `fmtB`, `fmtP`, `fmtE`, `fmtF`, or the `%!` fallback — with
  which scalar arguments, and as `mtrace` whether the operand is replaced by a rounded copy and how:
  `x.roundBelowQuantum(prec)` (rounding position at or above the leading digit, `'f'` only, finite x) or
  `new(Decimal).SetMode(x.mode).SetPrec(uint(rnd)).Set(x)` with `rnd = 1+prec`, `exp+prec` or `prec` (`prec = 0 → 1` for
  `g`), only when `rnd < digits`; the shortest precisions (`digits-1`, `max(digits-exp, 0)`, `digits`); the `%e`/`%f`
  decision of `g`/`G` (`eprec`, 6 for shortest, `exp-1 < -4 || exp-1 >= eprec`), the trimmed precisions, `fmt+'e'-'g'` in
  byte arithmetic. `x.MinPrec()` and `x.MantExp(nil)` are parameters, re-bound (`'`) after the statement that replaces x.

  `appendG` re-assembles `Append` from the generated function (the copy named by the trace, then the formatter named by
  `tail` on the captured arguments); `append_eq` proves `Decimal.append = appendG` for every x, format byte and precision
  in the int32 range whose digit counts and exponents (and those of the two possible rounded copies) fit the Go types.
  Proofs: `Proofs/GenText.lean` (case analysis on the format byte and the decisions, `simp`, `omega`).
-/
import Proofs.GenText
import Proofs.TrailingZeros

namespace Decimal.CGenT

open Decimal Decimal.GenText

theorem append_eq (x : Dec) (fmtc : Char) (prec : Int) (hp : -2147483648 ≤ prec ∧ prec ≤ 2147483647)
    (hx : Small x) (h2 : ∀ r, Small (set { mode := x.mode, prec := r } x)) :
    append x fmtc prec = appendG x fmtc prec :=
  GenText.append_eq x fmtc prec hp hx h2

/-- the hypotheses of `append_eq` are satisfiable: 0.5 with precision 1 (no copy of it needs rounding) -/
private def half : Dec := ⟨.finite, false, 5000000000000000000, 1, 0, 1, .ToNearestEven, 0⟩

private theorem tz_half : trailingZeros 5000000000000000000 = 18 := by
  have h : (5000000000000000000 : Nat) = 5 * 10 ^ 18 := by decide
  rw [h, trailingZeros_mul_pow (by decide : 0 < 5) 18, trailingZeros_of_mod_ne (by decide : 5 % 10 ≠ 0)]

example : Small half ∧ ∀ r, Small (set { mode := half.mode, prec := r } half) := by
  refine ⟨?_, ?_⟩
  · unfold Small minPrec ex half DW
    simp [tz_half]
  · intro r
    have hs : set { mode := half.mode, prec := r } half =
        { half with prec := if r = 0 then 1 else r, acc := Exact } := by
      unfold set half
      by_cases h0 : r = 0
      · subst h0; rfl
      · have h1 : ¬ r < 1 := by omega
        simp [h0, h1, Decimal.Exact]
    rw [hs]
    unfold Small minPrec ex half DW
    simp [tz_half]

/-- executed at build time (a test, not a theorem): the re-assembled `Append` prints what the model prints -/
private def xEx : Dec := ⟨.finite, true, 9950000000000000000, 1, -2, 5, .ToNearestEven, 0⟩
#eval [('e', (2 : Int)), ('f', 2), ('f', 0), ('g', -1), ('G', 3), ('p', 0), ('b', 0), ('x', 1), ('e', -1)].all
  (fun (c, p) => append xEx c p == appendG xEx c p)

#print axioms append_eq

end Decimal.CGenT
