/-
  C19 — the context state machine (package `context`, L2 model `step`/`run`).

  Vocabulary (Proofs/Context.lean):
    `Op.isCtxArith op`   — `op` is one of `cAdd cSub cMul cQuo cFma cSqrt cSet cNeg cAbs`;
    `Op.isCtxWrapped op` — the same without `cSet` (whose body is `apply (Copy …)`, see `ctx_set_result`);
    `Op.recv op`         — the receiver's variable index;
    `Op.under w op`      — the wrapped Decimal method as a function of the receiver's state
                           (operands read from `w`, aliasing flags from the indices);
    `Op.isErr op`        — `op = cErr`.
  `step w op = (w', outcome, errReturned)`.
-/
import Proofs.Context

namespace Decimal.C19

open Decimal

/-- A latched context turns every context operation into a no-op reporting success:
    variables and context unchanged. -/
theorem ctx_latch_noop (w : World) (op : Op) (hop : op.isCtxArith = true) (h : w.ctx.err = true) :
    step w op = (w, .ok, false) :=
  Decimal.ctx_latch_noop w op hop h

/-- Once latched, the error stays latched through any program that does not call `Err()`. -/
theorem ctx_err_monotone (w : World) (ops : List Op) (h : w.ctx.err = true)
    (hv : ∀ op ∈ ops, op.isErr = false) : (run w ops).ctx.err = true :=
  Decimal.ctx_err_monotone ops w h hv

/-- First error wins: after the first latched ErrNaN a whole sequence of context operations
    changes neither the variables nor the context. -/
theorem ctx_first_error_wins (w : World) (ops : List Op) (h : w.ctx.err = true)
    (hv : ∀ op ∈ ops, op.isCtxArith = true) : run w ops = w :=
  Decimal.ctx_first_error_wins ops w h hv

/-- `Err()` returns the latch, re-arms the context, leaves the variables alone; a second
    `Err()` returns false. -/
theorem ctx_Err_once (w : World) :
    (step w .cErr).2.2 = w.ctx.err ∧ (step w .cErr).1.ctx.err = false ∧
      (step (step w .cErr).1 .cErr).2.2 = false ∧ (step w .cErr).1.vars = w.vars :=
  Decimal.ctx_Err_once w

/-- A context operation never lets an ErrNaN panic reach the caller … -/
theorem ctx_no_panic_on_nan (w : World) (op : Op) (hop : op.isCtxArith = true) :
    (step w op).2.1 ≠ .errNaN :=
  Decimal.ctx_no_panic_on_nan w op hop

/-- … it latches it instead (and still stores what the method left in the receiver) … -/
theorem ctx_latches_nan (c : Ctx) (z z' : Dec) (op : Dec → Dec × Outcome) (h : c.err = false)
    (hop : op (c.apply z) = (z', .errNaN)) : c.guarded z op = (z', { c with err := true }, .ok) :=
  Decimal.guarded_latches c z z' op h hop

/-- … exactly when the wrapped method raised ErrNaN. -/
theorem ctx_latch_iff (w : World) (op : Op) (hop : op.isCtxWrapped = true) (h : w.ctx.err = false) :
    (step w op).1.ctx.err = true ↔ (op.under w (w.ctx.apply (w.get op.recv))).2 = .errNaN :=
  Decimal.ctx_latch_iff w op hop h

/-- Any other panic is re-raised unchanged and does not latch. -/
theorem ctx_other_panics_propagate (c : Ctx) (z z' : Dec) (m : String) (op : Dec → Dec × Outcome)
    (h : c.err = false) (hop : op (c.apply z) = (z', .panicOther m)) :
    c.guarded z op = (z', c, .panicOther m) :=
  Decimal.guarded_other_panic c z z' m op h hop

/-- In the L1 model the wrapped methods raise nothing but ErrNaN, so every context operation
    returns normally. -/
theorem ctx_ops_return_ok (w : World) (op : Op) (hop : op.isCtxArith = true) : (step w op).2.1 = .ok :=
  Decimal.ctx_ops_return_ok w op hop

/-- After a non-latched context operation the receiver carries the context's precision and
    mode (a context built by `New`/`SetPrec` has `1 ≤ prec ≤ MaxPrec`). -/
theorem ctx_apply_attrs (w : World) (op : Op) (hop : op.isCtxArith = true) (h : w.ctx.err = false)
    (hp1 : 1 ≤ w.ctx.prec) (hp2 : w.ctx.prec ≤ MaxPrec) (hz : op.recv < w.vars.length) :
    ((step w op).1.get op.recv).prec = w.ctx.prec ∧ ((step w op).1.get op.recv).mode = w.ctx.mode :=
  Decimal.ctx_apply_attrs w op hop h hp1 hp2 hz

/-- `New`/`SetPrec` do establish that range. -/
theorem ctxSetPrecVal_range (p : Nat) : 1 ≤ ctxSetPrecVal p ∧ ctxSetPrecVal p ≤ MaxPrec := by
  unfold ctxSetPrecVal
  have h34 : DefaultPrec = 34 := rfl
  have hM : MaxPrec = 4294967295 := rfl
  simp only [h34, hM]
  repeat' split
  all_goals simp_all
  all_goals omega

/-- What is stored is the wrapped method applied to the receiver with the context's attributes. -/
theorem ctx_step_result (w : World) (op : Op) (hop : op.isCtxWrapped = true) (h : w.ctx.err = false)
    (hz : op.recv < w.vars.length) :
    (step w op).1.get op.recv = (op.under w (w.ctx.apply (w.get op.recv))).1 :=
  Decimal.ctx_step_result w op hop h hz

/-- `ctx_rounds`: whatever the wrapped method guarantees for every receiver holding the
    context's precision and mode — take `Q d := Spec.agrees d r = true` with `r` the specification
    result at `ctx.prec`, `ctx.mode`, `hcorrect` being the C01 theorem of that method — holds
    for the stored result, whatever precision and mode the receiver had before. -/
theorem ctx_rounds (w : World) (op : Op) (hop : op.isCtxWrapped = true) (h : w.ctx.err = false)
    (hp1 : 1 ≤ w.ctx.prec) (hp2 : w.ctx.prec ≤ MaxPrec) (hz : op.recv < w.vars.length)
    (Q : Dec → Prop)
    (hcorrect : ∀ z' : Dec, z'.prec = w.ctx.prec → z'.mode = w.ctx.mode → Q (op.under w z').1) :
    Q ((step w op).1.get op.recv) :=
  Decimal.ctx_rounds w op hop h hp1 hp2 hz Q hcorrect

theorem ctx_set_result (w : World) (z x : Nat) (h : w.ctx.err = false) (hz : z < w.vars.length) :
    (step w (.cSet z x)).1.get z = w.ctx.apply (copy (w.get z) (w.get x) (x == z)) :=
  Decimal.ctx_set_result w z x h hz

/-- Unconditional form for a receiver distinct from the operands: observationally the result
    is what a fresh receiver `{prec := ctx.prec, mode := ctx.mode}` gets. -/
theorem ctx_add_fresh (w : World) (z x y : Nat) (h : w.ctx.err = false) (hp1 : 1 ≤ w.ctx.prec)
    (hp2 : w.ctx.prec ≤ MaxPrec) (hz : z < w.vars.length) (hx : x ≠ z) (hy : y ≠ z) :
    obsEq ((step w (.cAdd z x y)).1.get z)
      (add { prec := w.ctx.prec, mode := w.ctx.mode } (w.get x) (w.get y)).1 :=
  Decimal.ctx_add_fresh w z x y h hp1 hp2 hz hx hy
theorem ctx_sub_fresh (w : World) (z x y : Nat) (h : w.ctx.err = false) (hp1 : 1 ≤ w.ctx.prec)
    (hp2 : w.ctx.prec ≤ MaxPrec) (hz : z < w.vars.length) (hx : x ≠ z) (hy : y ≠ z) :
    obsEq ((step w (.cSub z x y)).1.get z)
      (sub { prec := w.ctx.prec, mode := w.ctx.mode } (w.get x) (w.get y)).1 :=
  Decimal.ctx_sub_fresh w z x y h hp1 hp2 hz hx hy
theorem ctx_mul_fresh (w : World) (z x y : Nat) (h : w.ctx.err = false) (hp1 : 1 ≤ w.ctx.prec)
    (hp2 : w.ctx.prec ≤ MaxPrec) (hz : z < w.vars.length) (hx : x ≠ z) (hy : y ≠ z) :
    obsEq ((step w (.cMul z x y)).1.get z)
      (mul { prec := w.ctx.prec, mode := w.ctx.mode } (w.get x) (w.get y)).1 :=
  Decimal.ctx_mul_fresh w z x y h hp1 hp2 hz hx hy
theorem ctx_quo_fresh (w : World) (z x y : Nat) (h : w.ctx.err = false) (hp1 : 1 ≤ w.ctx.prec)
    (hp2 : w.ctx.prec ≤ MaxPrec) (hz : z < w.vars.length) (hx : x ≠ z) (hy : y ≠ z) :
    obsEq ((step w (.cQuo z x y)).1.get z)
      (quo { prec := w.ctx.prec, mode := w.ctx.mode } (w.get x) (w.get y)).1 :=
  Decimal.ctx_quo_fresh w z x y h hp1 hp2 hz hx hy
theorem ctx_fma_fresh (w : World) (z x y u : Nat) (h : w.ctx.err = false) (hp1 : 1 ≤ w.ctx.prec)
    (hp2 : w.ctx.prec ≤ MaxPrec) (hz : z < w.vars.length) (hx : x ≠ z) (hy : y ≠ z) (hu : u ≠ z) :
    obsEq ((step w (.cFma z x y u)).1.get z)
      (fma { prec := w.ctx.prec, mode := w.ctx.mode } (w.get x) (w.get y) (w.get u)).1 :=
  Decimal.ctx_fma_fresh w z x y u h hp1 hp2 hz hx hy hu

/-! ### Non-vacuity: Inf − Inf latches, the next operation is skipped, `Err()` reports once -/

def w0 : World := { vars := [{}, { form := .inf }, { form := .inf }], ctx := { prec := 5 } }

example : (step w0 (.cSub 0 1 2)).1.ctx.err = true ∧ (step w0 (.cSub 0 1 2)).2.1 = .ok := by decide
example : (run w0 [.cSub 0 1 2, .cAdd 0 1 1]).get 0 = (run w0 [.cSub 0 1 2]).get 0 := by
  have h : (run w0 [.cSub 0 1 2]).ctx.err = true := by decide
  have := ctx_first_error_wins (run w0 [.cSub 0 1 2]) [.cAdd 0 1 1] h (by decide)
  show (run (run w0 [.cSub 0 1 2]) [.cAdd 0 1 1]).get 0 = _
  rw [this]
example : (step (run w0 [.cSub 0 1 2]) .cErr).2.2 = true ∧
    (step (step (run w0 [.cSub 0 1 2]) .cErr).1 .cErr).2.2 = false := by decide
example : ((step w0 (.cAdd 0 1 1)).1.get 0).prec = 5 :=
  (ctx_apply_attrs w0 (.cAdd 0 1 1) rfl rfl (by decide) (by decide) (by decide)).1

#print axioms ctx_latch_noop
#print axioms ctx_err_monotone
#print axioms ctx_first_error_wins
#print axioms ctx_Err_once
#print axioms ctx_no_panic_on_nan
#print axioms ctx_latches_nan
#print axioms ctx_latch_iff
#print axioms ctx_other_panics_propagate
#print axioms ctx_ops_return_ok
#print axioms ctx_apply_attrs
#print axioms ctxSetPrecVal_range
#print axioms ctx_step_result
#print axioms ctx_rounds
#print axioms ctx_set_result
#print axioms ctx_add_fresh
#print axioms ctx_fma_fresh

end Decimal.C19
