/-
  C11 (second part) / C12 (upper-case marker) — the shortest text in the formats `e E f g G`, `MarshalText`,
  and its round trip through `Parse` / `SetString` / `UnmarshalText`.

  Models: `DecimalModel/Text.lean` (`append`), `DecimalModel/Parse.lean` (`parse`),
  `DecimalModel/Marsh.lean` (`text`, `marshalText`, `unmarshalText`, `setString`: literal wrappers).
  Proofs: `Proofs/Scan2.lean` (scanner on literals written with `e` or `E`), `Proofs/TextRT2.lean`.

  For a canonical finite `x` (`0 < mant`, `ndigits mant = 19·len`) and `c ∈ {e, E, f, g, G}` the bytes of
  `x.Text(c, -1)` are the rendering of the structured literal `textLit x c`:
    * scientific layout  `[-] d [ . ddd ] (e|E) ± XX`   (`shortestLit x`)  for `e E`, and for `g G` when the
      exponent `x.exp − 1` of the first digit is `< −4` or `≥ 6`;
    * fixed-point layout `[-] ddd [ . ddd ]`            (`fixLit …`)        for `f`, and for `g G` otherwise.
  HOW DIGITS ARE COUNTED. The mantissa digit string `ip ++ fp` of the literal is
        `0…0 (textLead) ++ sig ++ 0…0 (textTrail)`
  where `sig` = the decimal digits of the mantissa without its trailing zeros: exactly `minPrec x` digits,
  first and last non-zero (`IsSigDigits`). The layout zeros exist in the fixed-point layout only:
  `textLead = 1 + (−x.exp)` when `x.exp ≤ 0` (the `0.` and the zeros after the point), else 0;
  `textTrail = x.exp − minPrec x` when that is positive (an integer ending in zeros), else 0.
  No exponent bound is needed for the fixed-point text (a value with `exp = 10^9` prints `10^9` characters;
  the theorems are about lists and hold as they are); the scientific text needs the written exponent to fit
  an int64, which `MinExp ≤ exp ≤ MaxExp` gives. Parsing back needs `MinExp ≤ exp ≤ MaxExp` (else `Parse`
  reports an exponent overflow) and a receiver precision `≥ minPrec x`, where A RECEIVER PRECISION OF 0 MEANS
  34 (`DefaultDecimalPrec`), NOT "unlimited": a 38-digit value read into a zero-precision receiver is rounded.
-/
import Proofs.TextRT2
import DecimalModel.Marsh
import Properties.RoundCore
import Mathlib.Tactic.NormNum

namespace Decimal.C11b
open Decimal

/-! ### 1. The parser on literals written with `E` (C12) -/

/--
  **parse10_correct_E.** Exactly `C12.parse10_correct` for a literal rendered with the upper-case marker
  (`Lit10.renderM 69`: `[sign] ip [. fp] [E [sign] digits]`): same value as with `e`.
-/
theorem parse10_correct_E (z : Dec) (l : Lit10) (hwf : l.WF) (base : Nat) (hbase : base = 10 ∨ base = 0)
    (hc : l.coef ≠ 0)
    (hlo : MinExp ≤ (ndigits l.coef : Int) + l.exp10) (hhi : (ndigits l.coef : Int) + l.exp10 ≤ MaxExp) :
    ∃ d, parse z (l.renderM 69) base = .ok (d, 10) ∧
      Spec.agrees d (Spec.round z.mode (if z.prec = 0 then 34 else z.prec) l.sign (l.coef : Rat) l.exp10) = true ∧
      d.prec = (if z.prec = 0 then 34 else z.prec) ∧ d.mode = z.mode ∧ d.neg = l.sign := by
  have hp := parse_litM z 69 isExpMarker_E l hwf base hbase
  have hr : ¬ ((ndigits l.coef : Int) + l.exp10 < MinExp ∨ (ndigits l.coef : Int) + l.exp10 > MaxExp) := by omega
  simp only [hc, hr, if_false] at hp
  refine ⟨_, hp, ?_⟩
  have hp1 : 1 ≤ (if z.prec = 0 then 34 else z.prec) := by split <;> omega
  exact round_correct { z with neg := l.sign, prec := if z.prec = 0 then 34 else z.prec } l.coef l.exp10 false
    (l.coef : Rat) (Nat.pos_of_ne_zero hc) hp1 (by intro h; cases h) (by simp)

/-- The three cases (zero / exponent overflow / value rounded once) in one equation, either marker:
    the result does not depend on the marker. `m = 101` is `Lit10.render` (`Lit10.renderM_e`). -/
theorem parse10_eq_marker (z : Dec) (m : Nat) (hm : m = 101 ∨ m = 69) (l : Lit10) (hwf : l.WF) (base : Nat)
    (hbase : base = 10 ∨ base = 0) :
    parse z (l.renderM m) base =
      (let p := if z.prec = 0 then 34 else z.prec
       let e10 : Int := (ndigits l.coef : Int) + l.exp10
       if l.coef = 0 then .ok ({ z with neg := l.sign, prec := p, acc := Exact, form := .zero }, 10)
       else if e10 < MinExp ∨ e10 > MaxExp then .error .expOverflow
       else .ok (setNormAndRound { z with neg := l.sign, prec := p } l.coef l.exp10 false, 10)) :=
  parse_litM z m hm l hwf base hbase

/-- `e` and `E` are read alike. -/
theorem parse_E_eq_e (z : Dec) (l : Lit10) (hwf : l.WF) (base : Nat) (hbase : base = 10 ∨ base = 0) :
    parse z (l.renderM 69) base = parse z l.render base := by
  rw [parse_litM z 69 isExpMarker_E l hwf base hbase, parse_lit z l hwf base hbase]

/-- an `E` without exponent digits is rejected like an `e` (`"1E"`, `"1E+"`, `"1.5E-x"`). -/
theorem reject_E_noDigits (z : Dec) (sg esg : Option Bool) (ip : List Nat) (fp : Option (List Nat))
    (rest : List Nat) (base : Nat) (hbase : base = 10 ∨ base = 0)
    (hip : IsDigits ip) (hfp : IsDigits (fp.getD [])) (hne : ip ++ fp.getD [] ≠ [])
    (hend : ExpEnd (decide (base = 0)) rest) (hsg : esg = none → NoSignHead rest) :
    parse z (signBytes sg ++ (renderMant ip fp ++ 69 :: (signBytes esg ++ rest))) base = .error .noDigits :=
  parse_exp_noDigitsM z 69 isExpMarker_E sg esg ip fp rest base hbase hip hfp hne hend hsg

/-! ### 2. The shortest text as a literal -/

/-- The literal `l` denotes `x`: same sign, and `coef × 10^exp10 = mant × 10^(exp − 19·len)` in ℚ. -/
def LitDenotes (l : Lit10) (x : Dec) : Prop :=
  l.sign = x.neg ∧ (l.coef : ℚ) * (10 : ℚ) ^ l.exp10 = (x.mant : ℚ) * (10 : ℚ) ^ (intExp x)

theorem denotes_of_coef (x : Dec) (C n a tz : Nat) (e10 : Int) (coef : Nat)
    (hmant : C * 10 ^ tz = x.mant) (hlen : n + tz = 19 * x.len)
    (hcoef : coef = C * 10 ^ a) (hexp : e10 = x.exp - (n : Int) - (a : Int)) :
    (coef : ℚ) * (10 : ℚ) ^ e10 = (x.mant : ℚ) * (10 : ℚ) ^ (intExp x) := by
  have h10 : (10 : ℚ) ≠ 0 := by norm_num
  rw [hcoef, ← hmant, hexp, intExp_eq]
  push_cast
  rw [mul_assoc, mul_assoc, ← zpow_natCast, ← zpow_natCast, ← zpow_add₀ h10, ← zpow_add₀ h10]
  congr 2
  omega

theorem textLit_denotes (x : Dec) (hf : x.form = .finite) (hM : 0 < x.mant)
    (hc : ndigits x.mant = 19 * x.len) (c : Char) : LitDenotes (textLit x c) x := by
  refine ⟨textLit_sign x c, ?_⟩
  have hcp := oddPart_pos hM
  have h1 := (trailingZeros_spec hM).1
  have h2 := minPrec_finite_g x hf
  have h3 := ndigits_oddPart x hf hc
  have h4 := ndigits_pos hcp
  have h5 := ndigits_div_pow x.mant (trailingZeros x.mant)
  have hlen : minPrec x + trailingZeros x.mant = 19 * x.len := by
    unfold oddPart at h3 h4; omega
  exact denotes_of_coef x (oddPart x.mant) (minPrec x) (textTrail x c) (trailingZeros x.mant) _ _ h1 hlen
    (textLit_coef x hf hM hc c) (textLit_exp10 x hf hM hc c)

/--
  **text_shortest** (all five formats). For a canonical finite `x` and `c ∈ {e, E, f, g, G}` — with
  `MinExp ≤ x.exp ≤ MaxExp` when the scientific layout is used, nothing otherwise —
  the bytes of `x.Text(c, -1)` are the rendering (marker `e`, or `E` for `E G`) of the well-formed literal
  `l = textLit x c`; the digit string of `l` is `sig` between `textLead` and `textTrail` layout zeros,
  `sig` being exactly `minPrec x` digits with non-zero first and last digit that read back as the mantissa
  without its trailing zeros; the integer part of `l` is the single digit `0` or starts with a non-zero
  digit; and `l` denotes exactly `x` (sign and value).
-/
theorem text_shortest (x : Dec) (hf : x.form = .finite) (hM : 0 < x.mant) (hc : ndigits x.mant = 19 * x.len)
    (c : Char) (hfmt : IsTextFmt c) (hr : UsesSci x c → MinExp ≤ x.exp ∧ x.exp ≤ MaxExp) :
    let l := textLit x c
    let sig := decDigits (oddPart x.mant)
    (text x c (-1)).map Char.toNat = l.renderM (markerByte c) ∧ l.WF ∧
    l.ip ++ l.frac = List.replicate (textLead x c) 0 ++ sig ++ List.replicate (textTrail x c) 0 ∧
    IsSigDigits x sig ∧
    (l.ip = [0] ∨ ∃ d tl, l.ip = d :: tl ∧ d ≠ 0) ∧
    LitDenotes l x :=
  ⟨text_bytes x hf hM hc c hfmt (-1) (by decide), textLit_wf x c hr, textLit_digits x hf hM hc c,
    sigDigits_spec x hf hM hc, textLit_ip_head x hM c, textLit_denotes x hf hM hc c⟩

/-- **text_shortest_E.** `x.Text('E', -1)` is `[-]d[.ddd]E±XX` (`shortestLit x` written with `E`):
    exactly `minPrec x` mantissa digits, no layout zeros. -/
theorem text_shortest_E (x : Dec) (hf : x.form = .finite) (hM : 0 < x.mant) (hc : ndigits x.mant = 19 * x.len)
    (hlo : MinExp ≤ x.exp) (hhi : x.exp ≤ MaxExp) :
    let l := shortestLit x
    (text x 'E' (-1)).map Char.toNat = l.renderM 69 ∧ l.WF ∧
    l.ip ++ l.frac = decDigits (oddPart x.mant) ∧ (l.ip ++ l.frac).length = minPrec x ∧
    IsSigDigits x (decDigits (oddPart x.mant)) ∧ (∃ d, l.ip = [d] ∧ d ≠ 0) ∧ LitDenotes l x := by
  have hs := sigDigits_spec x hf hM hc
  have hd := textLit_denotes x hf hM hc 'E'
  have hl : textLit x 'E' = shortestLit x := by unfold textLit; rw [if_pos (usesSci_E x)]
  rw [hl] at hd
  refine ⟨text_bytes_sci x hf hM hc 'E' (Or.inr rfl) (-1) (by decide), shortestLit_wf x hlo hhi,
    shortestLit_digits x, ?_, hs, ?_, hd⟩
  · rw [shortestLit_digits]; exact hs.2.1
  · exact sciLit_ip_head x.neg (oddPart x.mant) (x.exp - 1) (oddPart_pos hM)

/-- **text_shortest_f.** `x.Text('f', -1)` is `[-]ddd[.ddd]` (`fixLit`), for EVERY exponent: the
    `minPrec x` significant digits `sig`, preceded by `0.` and `−exp` zeros when `exp ≤ 0`
    (`fixLead`), followed by `exp − minPrec x` zeros when the value is an integer ending in zeros
    (`fixTrail`); there is a fraction part iff `exp < minPrec x`, and no exponent part. -/
theorem text_shortest_f (x : Dec) (hf : x.form = .finite) (hM : 0 < x.mant) (hc : ndigits x.mant = 19 * x.len) :
    let l := fixLit x.neg (oddPart x.mant) x.exp
    let sig := decDigits (oddPart x.mant)
    (text x 'f' (-1)).map Char.toNat = l.render ∧ l.WF ∧ l.ex = none ∧
    l.ip ++ l.frac = List.replicate (fixLead x.exp) 0 ++ sig ++ List.replicate (fixTrail (minPrec x) x.exp) 0 ∧
    IsSigDigits x sig ∧
    (l.ip = [0] ∨ ∃ d tl, l.ip = d :: tl ∧ d ≠ 0) ∧
    (l.fp.isSome ↔ x.exp < minPrec x) ∧
    LitDenotes l x := by
  have hd := textLit_denotes x hf hM hc 'f'
  have hl : textLit x 'f' = fixLit x.neg (oddPart x.mant) x.exp := by
    unfold textLit; rw [if_neg (not_usesSci_f x)]
  rw [hl] at hd
  have hlen := decDigits_oddPart_length x hf hM hc
  refine ⟨text_bytes_fix x hf hM hc (-1) (by decide), fixLit_wf _ _ _, rfl, ?_, sigDigits_spec x hf hM hc,
    fixLit_ip_head _ _ _ (oddPart_pos hM), ?_, hd⟩
  · rw [fixLit_digits, hlen]
  · unfold fixLit
    simp only [hlen]
    split
    · simp; omega
    · simp; omega

/-- **text_shortest_g / text_shortest_G.** `x.Text('g', -1)` (`'G'`) is the `%e` (`%E`) text when the
    exponent `X = x.exp − 1` of the first digit is `< −4` or `≥ 6`, and the `%f` text otherwise — in both
    cases a literal with exactly the `minPrec x` significant digits that denotes `x`. -/
theorem text_shortest_g (x : Dec) (hf : x.form = .finite) (hM : 0 < x.mant) (hc : ndigits x.mant = 19 * x.len)
    (c : Char) (hcg : c = 'g' ∨ c = 'G') (hlo : MinExp ≤ x.exp) (hhi : x.exp ≤ MaxExp) :
    let sci : Prop := x.exp - 1 < -4 ∨ x.exp - 1 ≥ 6
    let l := if sci then shortestLit x else fixLit x.neg (oddPart x.mant) x.exp
    let sig := decDigits (oddPart x.mant)
    text x c (-1) = (if sci then text x (if c = 'g' then 'e' else 'E') (-1) else text x 'f' (-1)) ∧
    (text x c (-1)).map Char.toNat = l.renderM (if c = 'g' then 101 else 69) ∧ l.WF ∧
    l.ip ++ l.frac = List.replicate (if sci then 0 else fixLead x.exp) 0 ++ sig ++
      List.replicate (if sci then 0 else fixTrail (minPrec x) x.exp) 0 ∧
    IsSigDigits x sig ∧ (l.ip = [0] ∨ ∃ d tl, l.ip = d :: tl ∧ d ≠ 0) ∧ LitDenotes l x := by
  intro sci l sig
  have hfmt : IsTextFmt c := by rcases hcg with rfl | rfl <;> unfold IsTextFmt <;> simp
  obtain ⟨h1, h2, h3, h4, h5, h6⟩ := text_shortest x hf hM hc c hfmt (fun _ => ⟨hlo, hhi⟩)
  have hiff := usesSci_g x c hcg
  have hl : textLit x c = l := by
    show textLit x c = if sci then shortestLit x else fixLit x.neg (oddPart x.mant) x.exp
    unfold textLit
    by_cases hs : sci
    · rw [if_pos hs, if_pos (hiff.mpr hs)]
    · rw [if_neg hs, if_neg (fun h => hs (hiff.mp h))]
  have hlead : textLead x c = if sci then 0 else fixLead x.exp := by
    unfold textLead
    by_cases hs : sci
    · rw [if_pos hs, if_pos (hiff.mpr hs)]
    · rw [if_neg hs, if_neg (fun h => hs (hiff.mp h))]
  have htrail : textTrail x c = if sci then 0 else fixTrail (minPrec x) x.exp := by
    unfold textTrail
    by_cases hs : sci
    · rw [if_pos hs, if_pos (hiff.mpr hs)]
    · rw [if_neg hs, if_neg (fun h => hs (hiff.mp h))]
  have hmk : markerByte c = if c = 'g' then 101 else 69 := by
    rcases hcg with rfl | rfl <;> rfl
  rw [hl, hmk] at h1
  rw [hl] at h2 h3 h5 h6
  rw [hlead, htrail] at h3
  exact ⟨append_g_shortest_eq x hf hM hc c hcg (-1) (by decide), h1, h2, h3, h4, h5, h6⟩

theorem text_shortest_G (x : Dec) (hf : x.form = .finite) (hM : 0 < x.mant) (hc : ndigits x.mant = 19 * x.len)
    (hlo : MinExp ≤ x.exp) (hhi : x.exp ≤ MaxExp) :
    let sci : Prop := x.exp - 1 < -4 ∨ x.exp - 1 ≥ 6
    let l := if sci then shortestLit x else fixLit x.neg (oddPart x.mant) x.exp
    let sig := decDigits (oddPart x.mant)
    text x 'G' (-1) = (if sci then text x 'E' (-1) else text x 'f' (-1)) ∧
    (text x 'G' (-1)).map Char.toNat = l.renderM 69 ∧ l.WF ∧
    l.ip ++ l.frac = List.replicate (if sci then 0 else fixLead x.exp) 0 ++ sig ++
      List.replicate (if sci then 0 else fixTrail (minPrec x) x.exp) 0 ∧
    IsSigDigits x sig ∧ (l.ip = [0] ∨ ∃ d tl, l.ip = d :: tl ∧ d ≠ 0) ∧ LitDenotes l x :=
  text_shortest_g x hf hM hc 'G' (Or.inr rfl) hlo hhi

/-! ### 3. The round trip -/

/-- The value read back, in ℚ. -/
theorem readBack_value (z x d : Dec) (h : ReadBack z x d) :
    d.neg = x.neg ∧ d.acc = Exact ∧
      (d.mant : ℚ) * (10 : ℚ) ^ (intExp d) = (x.mant : ℚ) * (10 : ℚ) ^ (intExp x) := by
  obtain ⟨_, h2, h3, h4, h5, _, _⟩ := h
  refine ⟨h2, h3, ?_⟩
  have h10 : (10 : ℚ) ≠ 0 := by norm_num
  have hq : (d.mant : ℚ) * (10 : ℚ) ^ (19 * x.len) = (x.mant : ℚ) * (10 : ℚ) ^ (19 * d.len) := by
    exact_mod_cast h5
  rw [intExp_eq, intExp_eq, h4]
  have e1 : (10 : ℚ) ^ (x.exp - ((d.len * 19 : Nat) : Int)) =
      (10 : ℚ) ^ (19 * x.len) * (10 : ℚ) ^ (x.exp - ((d.len * 19 : Nat) : Int) - ((19 * x.len : Nat) : Int)) := by
    rw [← zpow_natCast, ← zpow_add₀ h10]; congr 1; omega
  have e2 : (10 : ℚ) ^ (x.exp - ((x.len * 19 : Nat) : Int)) =
      (10 : ℚ) ^ (19 * d.len) * (10 : ℚ) ^ (x.exp - ((d.len * 19 : Nat) : Int) - ((19 * x.len : Nat) : Int)) := by
    rw [← zpow_natCast, ← zpow_add₀ h10]; congr 1; omega
  rw [e1, e2, ← mul_assoc, ← mul_assoc, hq]

/--
  **parse_text_roundtrip.** For a canonical finite `x` with `MinExp ≤ exp ≤ MaxExp`, every format
  `c ∈ {e, E, f, g, G}`, every negative precision (`-1` = shortest), base 10 or base 0, and every receiver `z`
  whose precision — 34 when it is 0 — is at least `minPrec x`: `Parse` succeeds, consumes the whole text,
  detects base 10, and returns `x` (sign, exponent, mantissa fraction) with accuracy Exact, with the
  receiver's precision (34 when 0) and mode.
-/
theorem parse_text_roundtrip (z x : Dec) (c : Char) (hfmt : IsTextFmt c) (p : Int) (hp : p < 0)
    (base : Nat) (hbase : base = 10 ∨ base = 0)
    (hf : x.form = .finite) (hM : 0 < x.mant) (hc : ndigits x.mant = 19 * x.len)
    (hlo : MinExp ≤ x.exp) (hhi : x.exp ≤ MaxExp)
    (hprec : minPrec x ≤ (if z.prec = 0 then 34 else z.prec)) :
    ∃ d, parse z ((text x c p).map Char.toNat) base = .ok (d, 10) ∧ ReadBack z x d :=
  parse_text_shortest z x c hfmt p hp base hbase hf hM hc hlo hhi hprec

/-- The whole text must be consumed: anything left over that does not continue the number gives `trailing`. -/
theorem parse_text_trailing (z x : Dec) (c : Char) (hfmt : IsTextFmt c) (p : Int) (hp : p < 0)
    (base : Nat) (hbase : base = 10 ∨ base = 0) (rest : List Nat) (hrest : rest ≠ [])
    (hf : x.form = .finite) (hM : 0 < x.mant) (hc : ndigits x.mant = 19 * x.len)
    (hlo : MinExp ≤ x.exp) (hhi : x.exp ≤ MaxExp)
    (hend : TailOk (decide (base = 0)) (textLit x c) rest) (hpl : NoPrefixLetterHead rest) :
    parse z ((text x c p).map Char.toNat ++ rest) base = .error .trailing :=
  Decimal.parse_text_trailing z x c hfmt p hp base hbase rest hrest hf hM hc hlo hhi hend hpl

/-! ### 4. ±0 and ±Inf -/

/-- The shortest text of a zero (whatever its exponent field): `[-]0e+00`, `[-]0E+00`, `[-]0`, `[-]0`, `[-]0`. -/
theorem text_zero (x : Dec) (hz : x.form = .zero) (p : Int) (hp : p < 0) :
    let sign : List Char := if x.neg = true then ['-'] else []
    text x 'e' p = sign ++ "0e+00".toList ∧ text x 'E' p = sign ++ "0E+00".toList ∧
    text x 'f' p = sign ++ "0".toList ∧ text x 'g' p = sign ++ "0".toList ∧ text x 'G' p = sign ++ "0".toList :=
  append_zero_shortest x hz p hp

/-- **±0 round-trips**: `Parse` (base 10 or 0) returns a zero of the same sign, Exact, with the receiver's
    precision (34 when 0) and mode — for any receiver. -/
theorem parse_text_zero (z x : Dec) (hz : x.form = .zero) (c : Char) (hfmt : IsTextFmt c) (p : Int) (hp : p < 0)
    (base : Nat) (hbase : base = 10 ∨ base = 0) :
    parse z ((text x c p).map Char.toNat) base =
      .ok ({ z with neg := x.neg, prec := if z.prec = 0 then 34 else z.prec, acc := Exact, form := .zero }, 10) :=
  Decimal.parse_text_zero z x hz c hfmt p hp base hbase

/-- The text of an infinity is `+Inf` / `-Inf` in every format and precision. -/
theorem text_inf (x : Dec) (hinf : x.form = .inf) (c : Char) (p : Int) :
    text x c p = if x.neg then "-Inf".toList else "+Inf".toList :=
  append_inf x c p hinf

/-- `Parse` accepts the six spellings `Inf inf +Inf +inf -Inf -inf` in any base, giving `z.SetInf(sign)` and
    reporting base 0. (Any other text without a leading mantissa digit is rejected: `C12.reject_noMantDigits`.) -/
theorem parse_inf (z : Dec) (base : Nat) :
    parse z ("Inf".toList.map Char.toNat) base = .ok (setInf z false, 0) ∧
    parse z ("inf".toList.map Char.toNat) base = .ok (setInf z false, 0) ∧
    parse z ("+Inf".toList.map Char.toNat) base = .ok (setInf z false, 0) ∧
    parse z ("+inf".toList.map Char.toNat) base = .ok (setInf z false, 0) ∧
    parse z ("-Inf".toList.map Char.toNat) base = .ok (setInf z true, 0) ∧
    parse z ("-inf".toList.map Char.toNat) base = .ok (setInf z true, 0) :=
  parse_inf_spellings z base

/-- **±Inf round-trips**: an infinity of the same sign, accuracy Exact; precision and mode are the
    receiver's own (`SetInf` does not touch them: a zero precision stays 0). -/
theorem parse_text_inf (z x : Dec) (hinf : x.form = .inf) (c : Char) (p : Int) (base : Nat) :
    parse z ((text x c p).map Char.toNat) base = .ok (setInf z x.neg, 0) ∧
      (setInf z x.neg).form = .inf ∧ (setInf z x.neg).neg = x.neg ∧ (setInf z x.neg).acc = Exact ∧
      (setInf z x.neg).prec = z.prec ∧ (setInf z x.neg).mode = z.mode :=
  ⟨Decimal.parse_text_inf z x hinf c p base, rfl, rfl, rfl, rfl, rfl⟩

/-! ### 5. `MarshalText`, `UnmarshalText`, `SetString` -/

/-- `MarshalText` is `Text('g', -1)`. -/
theorem marshalText_eq (x : Dec) : marshalText x = (text x 'g' (-1)).map Char.toNat := rfl

/-- `UnmarshalText` and `SetString` are `Parse` in base 0 (the whole text must be consumed). -/
theorem unmarshalText_eq (z : Dec) (s : List Nat) :
    unmarshalText z s = (parse z s 0).map Prod.fst ∧ setString z s = (parse z s 0).toOption.map Prod.fst := by
  unfold unmarshalText setString
  cases parse z s 0 with
  | ok r => exact ⟨rfl, rfl⟩
  | error e => exact ⟨rfl, rfl⟩

/-- **MarshalText / UnmarshalText / SetString round trip**, finite values. -/
theorem unmarshal_marshal (z x : Dec)
    (hf : x.form = .finite) (hM : 0 < x.mant) (hc : ndigits x.mant = 19 * x.len)
    (hlo : MinExp ≤ x.exp) (hhi : x.exp ≤ MaxExp)
    (hprec : minPrec x ≤ (if z.prec = 0 then 34 else z.prec)) :
    ∃ d, unmarshalText z (marshalText x) = .ok d ∧ setString z (marshalText x) = some d ∧ ReadBack z x d := by
  obtain ⟨d, h1, h2⟩ := parse_text_roundtrip z x 'g' (by unfold IsTextFmt; simp) (-1) (by decide) 0 (Or.inr rfl)
    hf hM hc hlo hhi hprec
  refine ⟨d, ?_, ?_, h2⟩
  · unfold unmarshalText; rw [marshalText_eq, h1]
  · unfold setString; rw [marshalText_eq, h1]

/-- … zeros. -/
theorem unmarshal_marshal_zero (z x : Dec) (hz : x.form = .zero) :
    let d : Dec := { z with neg := x.neg, prec := if z.prec = 0 then 34 else z.prec, acc := Exact, form := .zero }
    unmarshalText z (marshalText x) = .ok d ∧ setString z (marshalText x) = some d := by
  have h := parse_text_zero z x hz 'g' (by unfold IsTextFmt; simp) (-1) (by decide) 0 (Or.inr rfl)
  constructor
  · unfold unmarshalText; rw [marshalText_eq, h]
  · unfold setString; rw [marshalText_eq, h]

/-- … infinities. -/
theorem unmarshal_marshal_inf (z x : Dec) (hinf : x.form = .inf) :
    unmarshalText z (marshalText x) = .ok (setInf z x.neg) ∧ setString z (marshalText x) = some (setInf z x.neg) := by
  have h := (parse_text_inf z x hinf 'g' (-1) 0).1
  constructor
  · unfold unmarshalText; rw [marshalText_eq, h]
  · unfold setString; rw [marshalText_eq, h]

/-- `UnmarshalText` rejects a marshaled value followed by leftover bytes (e.g. a space or a newline). -/
theorem unmarshal_trailing (z x : Dec) (rest : List Nat) (hrest : rest ≠ [])
    (hf : x.form = .finite) (hM : 0 < x.mant) (hc : ndigits x.mant = 19 * x.len)
    (hlo : MinExp ≤ x.exp) (hhi : x.exp ≤ MaxExp)
    (hend : TailOk true (textLit x 'g') rest) (hpl : NoPrefixLetterHead rest) :
    unmarshalText z (marshalText x ++ rest) = .error .trailing ∧ setString z (marshalText x ++ rest) = none := by
  have h := parse_text_trailing z x 'g' (by unfold IsTextFmt; simp) (-1) (by decide) 0 (Or.inr rfl) rest hrest
    hf hM hc hlo hhi hend hpl
  constructor
  · unfold unmarshalText; rw [marshalText_eq, h]
  · unfold setString; rw [marshalText_eq, h]

/-! ### non-vacuity -/

/-- `-0.0012345` (`exp = -2`): `'f'` and `'g'` print `-0.0012345`, `'E'` prints `-1.2345E-03`. -/
private def x1 : Dec := { form := .finite, neg := true, mant := 1234500000000000000, len := 1, exp := -2, prec := 34 }
/-- `1234500` (`exp = 7`): `'f'` prints `1234500`, `'g'` prints `1.2345e+06`. -/
private def x2 : Dec := { form := .finite, mant := 1234500000000000000, len := 1, exp := 7, prec := 5 }

private theorem x1_canon : ndigits x1.mant = 19 * x1.len :=
  ndigits_unique (by norm_num [x1]) (by norm_num [x1]) (by norm_num [x1])
private theorem x2_canon : ndigits x2.mant = 19 * x2.len :=
  ndigits_unique (by norm_num [x2]) (by norm_num [x2]) (by norm_num [x2])

private theorem tz12345 : trailingZeros (12345 * 10 ^ 14) = 14 := trailingZeros_mul_pow_g (by norm_num) 14

private theorem x1_minPrec : minPrec x1 = 5 := by
  have e : x1.mant = 12345 * 10 ^ 14 := by norm_num [x1]
  rw [minPrec_finite_g x1 rfl, e, tz12345]; rfl
private theorem x2_minPrec : minPrec x2 = 5 := by
  have e : x2.mant = 12345 * 10 ^ 14 := by norm_num [x2]
  rw [minPrec_finite_g x2 rfl, e, tz12345]; rfl

-- #eval ['e','E','f','g','G'].map fun c => String.ofList (text x1 c (-1))
--   ["-1.2345e-03", "-1.2345E-03", "-0.0012345", "-0.0012345", "-0.0012345"]
-- #eval ['e','E','f','g','G'].map fun c => String.ofList (text x2 c (-1))
--   ["1.2345e+06", "1.2345E+06", "1234500", "1.2345e+06", "1.2345E+06"]

/-- `"1.5E-03"` and `"1.5e-03"` are read alike by every receiver. -/
example (z : Dec) : parse z ("1.5E-03".toList.map Char.toNat) 0 = parse z ("1.5e-03".toList.map Char.toNat) 0 :=
  parse_E_eq_e z { ip := [1], fp := some [5], ex := some (some true, [0, 3]) }
    ⟨by decide, by decide, by decide, by unfold ExpOk; decide⟩ 0 (Or.inr rfl)

/-- `"1.5E-03"` -/
example : ({ ip := [1], fp := some [5], ex := some (some true, [0, 3]) } : Lit10).renderM 69 =
    "1.5E-03".toList.map Char.toNat := by decide

example (z : Dec) : ∃ d, parse z ("1.5E-03".toList.map Char.toNat) 0 = .ok (d, 10) ∧
    Spec.agrees d (Spec.round z.mode (if z.prec = 0 then 34 else z.prec) false (15 : Rat) (-4)) = true := by
  have hnd : ndigits 15 = 2 := ndigits_unique (by norm_num) (by norm_num) (by norm_num)
  have hc : ({ ip := [1], fp := some [5], ex := some (some true, [0, 3]) } : Lit10).coef = 15 := by decide
  have he : ({ ip := [1], fp := some [5], ex := some (some true, [0, 3]) } : Lit10).exp10 = -4 := by decide
  obtain ⟨d, h1, h2, _⟩ := parse10_correct_E z { ip := [1], fp := some [5], ex := some (some true, [0, 3]) }
    ⟨by decide, by decide, by decide, by unfold ExpOk; decide⟩ 0 (Or.inr rfl)
    (by rw [hc]; omega) (by rw [hc, he, hnd]; decide) (by rw [hc, he, hnd]; decide)
  refine ⟨d, h1, ?_⟩
  rw [hc, he] at h2
  simpa [Lit10.sign, signVal] using h2

/-- the five formats of `x1`, read back (base 0) into a 5-digit receiver — the minimum — in any mode. -/
example (m : Mode) (c : Char) (hfmt : IsTextFmt c) :
    ∃ d, parse { prec := 5, mode := m } ((text x1 c (-1)).map Char.toNat) 0 = .ok (d, 10) ∧
      ReadBack { prec := 5, mode := m } x1 d :=
  parse_text_roundtrip { prec := 5, mode := m } x1 c hfmt (-1) (by decide) 0 (Or.inr rfl) rfl (by norm_num [x1])
    x1_canon (by decide) (by decide) (by rw [x1_minPrec]; simp)

/-- `x1` in `'f'`: `0.` + two zeros, then 5 digits: 3 layout zeros in front, none behind. -/
example : (fixLit x1.neg (oddPart x1.mant) x1.exp).ip ++ (fixLit x1.neg (oddPart x1.mant) x1.exp).frac =
    List.replicate 3 0 ++ decDigits (oddPart x1.mant) ++ List.replicate 0 0 := by
  have h := (text_shortest_f x1 rfl (by norm_num [x1]) x1_canon).2.2.2.1
  rw [x1_minPrec] at h
  exact h

/-- `x2` in `'f'`: an integer with `7 − 5 = 2` zeros after the significant digits. -/
example : (fixLit x2.neg (oddPart x2.mant) x2.exp).ip ++ (fixLit x2.neg (oddPart x2.mant) x2.exp).frac =
    List.replicate 0 0 ++ decDigits (oddPart x2.mant) ++ List.replicate 2 0 := by
  have h := (text_shortest_f x2 rfl (by norm_num [x2]) x2_canon).2.2.2.1
  rw [x2_minPrec] at h
  exact h

/-- `x2` in `'g'`: `exp − 1 = 6 ≥ 6`, scientific. -/
example : text x2 'g' (-1) = text x2 'e' (-1) := by
  have h := (text_shortest_g x2 rfl (by norm_num [x2]) x2_canon 'g' (Or.inl rfl) (by decide) (by decide)).1
  simpa [x2] using h

example (z : Dec) (hz : 5 ≤ z.prec) : ∃ d, unmarshalText z (marshalText x2) = .ok d ∧
    setString z (marshalText x2) = some d ∧ ReadBack z x2 d :=
  unmarshal_marshal z x2 rfl (by norm_num [x2]) x2_canon (by decide) (by decide)
    (by rw [x2_minPrec]; split <;> omega)

example (z : Dec) : unmarshalText z (marshalText { form := .zero, neg := true, exp := 77 }) =
    .ok { z with neg := true, prec := if z.prec = 0 then 34 else z.prec, acc := Exact, form := .zero } :=
  (unmarshal_marshal_zero z { form := .zero, neg := true, exp := 77 } rfl).1

example (z : Dec) : unmarshalText z (marshalText { form := .inf, neg := true }) = .ok (setInf z true) :=
  (unmarshal_marshal_inf z { form := .inf, neg := true } rfl).1

example : marshalText { form := .inf } = "+Inf".toList.map Char.toNat := rfl
example : marshalText { form := .zero, neg := true } = "-0".toList.map Char.toNat := by
  rw [marshalText_eq, (text_zero { form := .zero, neg := true } rfl (-1) (by decide)).2.2.2.1]; rfl

/-- a marshaled value followed by a newline is rejected. -/
example (z : Dec) : unmarshalText z (marshalText x2 ++ [10]) = .error .trailing :=
  (unmarshal_trailing z x2 [10] (by simp) rfl (by norm_num [x2]) x2_canon (by decide) (by decide)
    (by
      have hs : UsesSci x2 'g' := (usesSci_g x2 'g' (Or.inl rfl)).mpr (Or.inr (by decide))
      have : (textLit x2 'g').ex = (shortestLit x2).ex := by unfold textLit; rw [if_pos hs]
      unfold TailOk; rw [this]; simp [shortestLit, ExpEnd])
    (by simp [NoPrefixLetterHead])).1

#print axioms parse10_correct_E
#print axioms parse10_eq_marker
#print axioms parse_E_eq_e
#print axioms reject_E_noDigits
#print axioms text_shortest
#print axioms text_shortest_E
#print axioms text_shortest_f
#print axioms text_shortest_g
#print axioms text_shortest_G
#print axioms readBack_value
#print axioms parse_text_roundtrip
#print axioms parse_text_trailing
#print axioms text_zero
#print axioms parse_text_zero
#print axioms text_inf
#print axioms parse_inf
#print axioms parse_text_inf
#print axioms marshalText_eq
#print axioms unmarshalText_eq
#print axioms unmarshal_marshal
#print axioms unmarshal_marshal_zero
#print axioms unmarshal_marshal_inf
#print axioms unmarshal_trailing

end Decimal.C11b
