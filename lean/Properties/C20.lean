/-
  C20 — raw access (L1 model): `SetBitsExp`, `MantExp`, `SetMantExp`.

  Final statements only; the proofs are in `Proofs/Conv.lean`.

  * `setBitsExpFull z ws e` (`DecimalModel/Program.lean`) is `z.SetBitsExp(ws, e)` as repaired,
    including its precision prologue; `ws` is the raw little-endian word slice (leading — most
    significant — zero words and a non-normalised top word are allowed), its value is
    `natOf ws × 10^(e − 19·len(ws))`.
  * `roundTrim x` (`Proofs/Conv.lean`): `x` with the accuracy reset to `Exact` and the low words
    beyond the precision dropped (`mant / B^(len − n)`, `n = ⌈prec/19⌉` words) when
    `19·len > prec`; for a canonical `x` those words are zero (`roundTrim_value`).

  Counterexample to `setBitsExp_correct` without the hypothesis "every word `< B`" (found by
  `#eval`): `ws = [10^19]` (one word equal to `B`), `e = 0`, `z.prec = 3`: the model (like the
  Go code, which assumes decimal words) normalises the value `10^19` to two words while the raw
  slice has one, and the exponent correction `(len(ws) − len(norm)) × 19` is computed on a
  truncated difference: the model returns `0.1 × 10^-18` (`mant = 10^18, len = 1, exp = -18`)
  whereas `10^19 × 10^(0−19) = 1` rounds to `coef = 100, exp = 1`.  The hypothesis is therefore kept (it is the `dec` representation
  invariant).
-/
import Proofs.Conv
import Properties.RoundCore

namespace Decimal.C20

open Decimal Spec

/-- `z.SetBitsExp(ws, e)`: the slice's value rounded once to the receiver's precision — or, when
    that precision is 0, to `max(19·nwords, 34)` digits (capped at `MaxPrec`) —, `+0` for an
    all-zero (or empty) slice. -/
theorem setBitsExp_correct (z : Dec) (ws : List Nat) (e : Int) (hws : ∀ w ∈ ws, w < B) :
    let M := natOf ws
    let p := if z.prec = 0 then max (min (nwords M * 19) MaxPrec) 34 else z.prec
    let z' := setBitsExpFull z ws e
    agrees z' (roundSV z.mode p
        (if M = 0 then .zero false else .fin false (M : ℚ) (e - (19 * ws.length : Nat)))) = true ∧
      z'.mode = z.mode ∧ z'.prec = (if M = 0 then z.prec else p) := by
  by_cases hM : natOf ws = 0
  · have h := setBitsExpFull_zero z ws e hM
    simp only [hM, if_true, roundSV]
    exact ⟨h.1, h.2.2, h.2.1⟩
  · have h := setBitsExpFull_nonzero z ws e hws hM
    simp only [hM, if_false, roundSV]
    exact ⟨h.1, h.2.2.1, h.2.1⟩

/-- The non-zero case in full: sign `+`, precision and mode of the result. -/
theorem setBitsExp_nonzero (z : Dec) (ws : List Nat) (e : Int) (hws : ∀ w ∈ ws, w < B)
    (hM : natOf ws ≠ 0) :
    let M := natOf ws
    let p := if z.prec = 0 then max (min (nwords M * 19) MaxPrec) 34 else z.prec
    let z' := setBitsExpFull z ws e
    agrees z' (Spec.round z.mode p false (M : ℚ) (e - (19 * ws.length : Nat))) = true ∧
      z'.prec = p ∧ z'.mode = z.mode ∧ z'.neg = false :=
  setBitsExpFull_nonzero z ws e hws hM

/-- `exp = x.MantExp(mant)`: the exponent returned is `x.exp` for a finite `x` and 0 otherwise;
    `mant` becomes a copy of `x` (digits, sign, precision, mode, accuracy) with exponent 0 — for a
    zero or an infinity only the attributes, sign and form are copied. -/
theorem mantExp_spec (x m : Dec) :
    (mantExp x m).1 = (if x.form = .finite then x.exp else 0) ∧
      (x.form = .finite → (mantExp x m).2 = { x with exp := 0 }) ∧
      (x.form ≠ .finite → (mantExp x m).2 =
        { m with prec := x.prec, mode := x.mode, acc := x.acc, form := x.form, neg := x.neg }) :=
  ⟨mantExp_fst x m false, mantExp_snd_finite x m, mantExp_snd_special x m⟩

/-- `x.MantExp(x)` (the argument is the receiver itself): only the exponent is cleared. -/
theorem mantExp_same (x m : Dec) :
    (mantExp x m true).1 = (if x.form = .finite then x.exp else 0) ∧
      (mantExp x m true).2 = if m.form = .finite then { m with exp := 0 } else m :=
  ⟨mantExp_fst x m true, mantExp_snd_same x m⟩

/-- The dropped low words of a canonical value are zero. -/
theorem roundTrim_value (x : Dec) (hc : x.Canonical) (hf : x.form = .finite) :
    (roundTrim x).form = .finite ∧ (roundTrim x).neg = x.neg ∧ (roundTrim x).exp = x.exp ∧
      (roundTrim x).prec = x.prec ∧ (roundTrim x).mode = x.mode ∧ (roundTrim x).acc = Exact ∧
      (roundTrim x).len ≤ x.len ∧ (roundTrim x).mant * B ^ (x.len - (roundTrim x).len) = x.mant := by
  obtain ⟨a, b, c, d, e, f⟩ := roundTrim_fields x
  obtain ⟨g, h⟩ := roundTrim_mant (canonical_dvd hc hf)
  exact ⟨a.trans hf, b, c, d, e, f, g, h⟩

/-- `z.SetMantExp(m, e)` with `e = x.MantExp(m)` gives back `x`: same form, sign, exponent and
    digits (no rounding happens because `SetMantExp` copies the precision of `m`, which is
    `x`'s), same precision and mode; the accuracy of a finite result is `Exact`. -/
theorem setMantExp_mantExp (x z m : Dec) (hc : x.Canonical) :
    let r := setMantExp z (mantExp x m).2 (mantExp x m).1
    r.form = x.form ∧ r.neg = x.neg ∧ r.prec = x.prec ∧ r.mode = x.mode ∧
      (x.form = .finite → r = roundTrim x ∧ r.exp = x.exp ∧ r.acc = Exact ∧ r.len ≤ x.len ∧
        r.mant * B ^ (x.len - r.len) = x.mant ∧
        agrees r (roundSV x.mode x.prec (ofDec x)) = true) ∧
      (x.form ≠ .finite → r.acc = x.acc) := by
  by_cases hf : x.form = .finite
  · have h := setMantExp_mantExp_finite z m hc hf
    have hs := setMantExp_mantExp_agrees z m hc hf
    obtain ⟨a, b, c, d, e, f, g, i⟩ := roundTrim_value x hc hf
    intro r
    have hr : r = roundTrim x := h
    rw [← hr] at a b c d e f g i
    exact ⟨a.trans hf.symm, b, d, e, fun _ => ⟨hr, c, f, g, i, hs⟩, fun hn => absurd hf hn⟩
  · rw [setMantExp_mantExp_special x z m hf]
    exact ⟨rfl, rfl, rfl, rfl, fun h => absurd h hf, fun _ => rfl⟩

/-- `z.SetMantExp(m, e)` for a canonical finite `m`: the result is `±0` exactly when
    `m.exp + e < MinExp`, `±Inf` exactly when `m.exp + e > MaxExp` (with the accuracies of an
    underflow / overflow), and otherwise `m × 10^e` exactly. -/
theorem setMantExp_range (z m : Dec) (e : Int) (hc : m.Canonical) (hf : m.form = .finite) :
    let r := setMantExp z m e
    (r.form = .zero ↔ m.exp + e < MinExp) ∧ (r.form = .inf ↔ m.exp + e > MaxExp) ∧
      r.neg = m.neg ∧ r.prec = m.prec ∧ r.mode = m.mode ∧
      (r.form = .zero → r.acc = makeAcc m.neg) ∧ (r.form = .inf → r.acc = makeAcc (!m.neg)) ∧
      (r.form = .finite → r.exp = m.exp + e ∧ r.acc = Exact ∧ r.len ≤ m.len ∧
        r.mant * B ^ (m.len - r.len) = m.mant) := by
  have hd := canonical_dvd hc hf
  rw [setMantExp_finite z m e hf hd]
  by_cases h1 : m.exp + e < MinExp
  · have h2 : ¬ (m.exp + e > MaxExp) := by
      have : MinExp < MaxExp := by decide
      omega
    simp [h1, h2]
  · by_cases h2 : m.exp + e > MaxExp
    · simp [h1, h2]
    · simp only [h1, h2, if_false]
      have hd' : 10 ^ (({ m with exp := m.exp + e } : Dec).len * 19 - ({ m with exp := m.exp + e } : Dec).prec)
          ∣ ({ m with exp := m.exp + e } : Dec).mant := hd
      obtain ⟨a, b, c, d, e', f⟩ := roundTrim_fields { m with exp := m.exp + e }
      obtain ⟨g, i⟩ := roundTrim_mant hd'
      generalize roundTrim { m with exp := m.exp + e } = r at *
      simp only at a b c d e' f g i
      rw [hf] at a
      refine ⟨⟨fun h => ?_, fun h => h.elim⟩, ⟨fun h => ?_, fun h => h.elim⟩, b, d, e',
        fun h => ?_, fun h => ?_, fun _ => ⟨c, f, g, i⟩⟩
      all_goals (rw [a] at h; cases h)

/-! ## Non-vacuity -/

/-- `SetBitsExp([5, 0, 1234567890123456789, 0], -7)` on a receiver of precision 6: leading and
    trailing zero words, top word not normalised. -/
example :
    let z : Dec := { prec := 6, mode := .ToZero }
    let z' := setBitsExpFull z [5, 0, 1234567890123456789, 0] (-7)
    agrees z' (Spec.round .ToZero 6 false ((natOf [5, 0, 1234567890123456789, 0] : Nat) : ℚ)
      (-7 - (19 * 4 : Nat))) = true := by
  have hB : B = 10000000000000000000 := rfl
  have h := setBitsExp_nonzero { prec := 6, mode := .ToZero } [5, 0, 1234567890123456789, 0] (-7)
    (by
      intro w hw
      simp only [List.mem_cons, List.not_mem_nil, or_false] at hw
      rcases hw with h | h | h | h <;> rw [h, hB] <;> norm_num)
    (by simp only [natOf, hB]; norm_num)
  exact h.1

/-- `−123.45` with precision 5 held in two words (a low zero word): canonical. -/
def ex1 : Dec :=
  { form := .finite, neg := true, mant := 1234500000000000000 * B, len := 2, exp := 3, prec := 5,
    mode := .ToZero, acc := 1 }

theorem ex1_canonical : ex1.Canonical := by
  have hB : B = 10000000000000000000 := rfl
  refine ⟨by decide, Or.inr (Or.inr rfl), fun _ => ⟨by decide, ?_, by decide, by decide, by decide, ?_⟩⟩
  · exact ndigits_unique (by norm_num [ex1, DW, hB]) (by norm_num [ex1, DW, hB]) (by norm_num [ex1, hB])
  · right; norm_num [ex1, DW, hB]

example (z m : Dec) :
    (mantExp ex1 m).1 = 3 ∧ (mantExp ex1 m).2.exp = 0 ∧ (mantExp ex1 m).2.mant = ex1.mant ∧
      (setMantExp z (mantExp ex1 m).2 (mantExp ex1 m).1).exp = 3 ∧
      (setMantExp z (mantExp ex1 m).2 (mantExp ex1 m).1).neg = true := by
  have h1 := mantExp_spec ex1 m
  have h2 := setMantExp_mantExp ex1 z m ex1_canonical
  refine ⟨h1.1, ?_, ?_, (h2.2.2.2.2.1 rfl).2.1, h2.2.1⟩
  · rw [h1.2.1 rfl]
  · rw [h1.2.1 rfl]

/-- Underflow and overflow of `SetMantExp`. -/
example (z : Dec) :
    (setMantExp z ex1 (-2147483652)).form = .zero ∧ (setMantExp z ex1 2147483645).form = .inf ∧
      (setMantExp z ex1 2147483644).form = .finite := by
  have ha := setMantExp_range z ex1 (-2147483652) ex1_canonical rfl
  have hb := setMantExp_range z ex1 2147483645 ex1_canonical rfl
  have hc := setMantExp_range z ex1 2147483644 ex1_canonical rfl
  refine ⟨ha.1.mpr (by decide), hb.2.1.mpr (by decide), ?_⟩
  have n1 : ¬ ((setMantExp z ex1 2147483644).form = .zero) := fun h => absurd (hc.1.mp h) (by decide)
  have n2 : ¬ ((setMantExp z ex1 2147483644).form = .inf) := fun h => absurd (hc.2.1.mp h) (by decide)
  cases hform : (setMantExp z ex1 2147483644).form
  · exact absurd hform n1
  · rfl
  · exact absurd hform n2

#print axioms setBitsExp_correct
#print axioms setBitsExp_nonzero
#print axioms mantExp_spec
#print axioms mantExp_same
#print axioms roundTrim_value
#print axioms setMantExp_mantExp
#print axioms setMantExp_range

end Decimal.C20
