/-
  C06 — multiplication, squaring and division of `dec` (word-list level L0) are correct for ALL
  lengths, ALL tuning thresholds and any sufficient fuel; division (Knuth's Algorithm D in base
  10^19) never fails on valid operands.  Final statements only; proofs in `Proofs/`.
-/
import Proofs.Div
import Properties.C06Rec

namespace Decimal.C06
open Decimal Decimal.L0

/-- Karatsuba multiplication of equal-length operands: any threshold, any fuel. -/
theorem karatsuba_spec (thr fuel : Nat) (x y : List Nat) (hx : WF x) (hy : WF y)
    (hl : x.length = y.length) :
    natOf (karatsuba thr fuel x y) = natOf x * natOf y ∧ WF (karatsuba thr fuel x y)
      ∧ (karatsuba thr fuel x y).length = 2 * y.length :=
  L0.karatsuba_spec thr fuel x y hx hy hl

/-- `z.mul(x, y)`: the normalised product, for every Karatsuba threshold `thr ≥ 1` and every fuel
    above `len x + len y`. -/
theorem mul_spec (thr : Nat) (hthr : 1 ≤ thr) (fuel : Nat) (x y : List Nat) (hx : WF x) (hy : WF y)
    (hf : x.length + y.length < fuel) :
    natOf (mul thr fuel x y) = natOf x * natOf y ∧ WF (mul thr fuel x y)
      ∧ Normalized (mul thr fuel x y) :=
  L0.mul_spec thr hthr fuel x y hx hy hf

/-- The value of a product does not depend on the Karatsuba threshold (nor on the fuel). -/
theorem mul_threshold_indep (thr₁ thr₂ f₁ f₂ : Nat) (h₁ : 1 ≤ thr₁) (h₂ : 1 ≤ thr₂) (x y : List Nat)
    (hx : WF x) (hy : WF y) (hf₁ : x.length + y.length < f₁) (hf₂ : x.length + y.length < f₂) :
    natOf (mul thr₁ f₁ x y) = natOf (mul thr₂ f₂ x y) :=
  L0.mul_threshold_indep thr₁ thr₂ f₁ f₂ h₁ h₂ x y hx hy hf₁ hf₂

/-- … and since both results are normalised and well formed, they are equal as word lists. -/
theorem mul_threshold_indep_list (thr₁ thr₂ f₁ f₂ : Nat) (h₁ : 1 ≤ thr₁) (h₂ : 1 ≤ thr₂) (x y : List Nat)
    (hx : WF x) (hy : WF y) (hf₁ : x.length + y.length < f₁) (hf₂ : x.length + y.length < f₂) :
    mul thr₁ f₁ x y = mul thr₂ f₂ x y :=
  L0.mul_threshold_indep_list thr₁ thr₂ f₁ f₂ h₁ h₂ x y hx hy hf₁ hf₂

theorem basicSqr_spec (x : List Nat) (hx : WF x) :
    natOf (basicSqr x) = natOf x * natOf x ∧ WF (basicSqr x) ∧ (basicSqr x).length = 2 * x.length :=
  L0.basicSqr_spec x hx

theorem karatsubaSqr_spec (thr fuel : Nat) (x : List Nat) (hx : WF x) :
    natOf (karatsubaSqr thr fuel x) = natOf x * natOf x ∧ WF (karatsubaSqr thr fuel x)
      ∧ (karatsubaSqr thr fuel x).length = 2 * x.length :=
  L0.karatsubaSqr_spec thr fuel x hx

/-- `z.sqr(x)`: the normalised square for all thresholds (`kthr, mthr ≥ 1`, any `bthr`) and fuel
    `≥ len x`. -/
theorem sqr_spec (bthr kthr mthr : Nat) (hk : 1 ≤ kthr) (hm : 1 ≤ mthr) (fuel : Nat) (x : List Nat)
    (hx : WF x) (hf : x.length ≤ fuel) :
    natOf (sqr bthr kthr mthr fuel x) = natOf x * natOf x ∧ WF (sqr bthr kthr mthr fuel x)
      ∧ Normalized (sqr bthr kthr mthr fuel x) :=
  L0.sqr_spec bthr kthr mthr hk hm fuel x hx hf

/-- Squaring is independent of the three thresholds, and agrees with `mul`. -/
theorem sqr_threshold_indep (b₁ k₁ m₁ b₂ k₂ m₂ f₁ f₂ : Nat) (hk₁ : 1 ≤ k₁) (hm₁ : 1 ≤ m₁) (hk₂ : 1 ≤ k₂)
    (hm₂ : 1 ≤ m₂) (x : List Nat) (hx : WF x) (hf₁ : x.length ≤ f₁) (hf₂ : x.length ≤ f₂) :
    sqr b₁ k₁ m₁ f₁ x = sqr b₂ k₂ m₂ f₂ x := by
  obtain ⟨a1, a2, a3⟩ := L0.sqr_spec b₁ k₁ m₁ hk₁ hm₁ f₁ x hx hf₁
  obtain ⟨b1, b2, b3⟩ := L0.sqr_spec b₂ k₂ m₂ hk₂ hm₂ f₂ x hx hf₂
  exact L0.natOf_inj _ _ a2 b2 a3 b3 (by rw [a1, b1])

/-- `sqr x` and `mul x x` return the same word list. -/
theorem sqr_eq_mul (bthr kthr mthr thr f₁ f₂ : Nat) (hk : 1 ≤ kthr) (hm : 1 ≤ mthr) (ht : 1 ≤ thr)
    (x : List Nat) (hx : WF x) (hf₁ : x.length ≤ f₁) (hf₂ : x.length + x.length < f₂) :
    sqr bthr kthr mthr f₁ x = mul thr f₂ x x := by
  obtain ⟨a1, a2, a3⟩ := L0.sqr_spec bthr kthr mthr hk hm f₁ x hx hf₁
  obtain ⟨b1, b2, b3⟩ := L0.mul_spec thr ht f₂ x x hx hx hf₂
  exact L0.natOf_inj _ _ a2 b2 a3 b3 (by rw [a1, b1])

/-- `q.divBasic(u, v)` (Knuth D3–D7) for a normalised divisor: never "index out of range". -/
theorem divBasic_spec (u v : List Nat) (n m : Nat) (hn : 2 ≤ n) (hvl : v.length = n) (hv : WF v)
    (hu : WF u) (hul : u.length = m + n) (hnorm : 10000000000000000000 ≤ 2 * v.getD (n - 1) 0)
    (htop : natOf (u.drop m) < natOf v) :
    ∃ q r, divBasic m u v = .ok (q, r) ∧ r.length = m + n ∧ WF r ∧ q.length = m ∧ WF q
      ∧ natOf r < natOf v ∧ natOf q * natOf v + natOf r = natOf u :=
  L0.divBasic_spec u v n m hn hvl hv hu hul hnorm htop

/-- `z.div(z2, u, v)`, partial correctness. -/
theorem div_spec (u v q r : List Nat) (hu : WF u) (hv : WF v) (hnu : Normalized u) (hnv : Normalized v)
    (hne : v ≠ []) (h : div u v = .ok (q, r)) :
    natOf u = natOf q * natOf v + natOf r ∧ natOf r < natOf v :=
  L0.div_spec u v q r hu hv hnu hnv hne h

/-- `z.div(z2, u, v)`, total correctness: an `.ok` result always exists, it is the Euclidean
    quotient and remainder, normalised and well formed. -/
theorem div_total (u v : List Nat) (hu : WF u) (hv : WF v) (hnu : Normalized u) (hnv : Normalized v)
    (hne : v ≠ []) :
    ∃ q r, div u v = .ok (q, r) ∧ natOf u = natOf q * natOf v + natOf r ∧ natOf r < natOf v
      ∧ WF q ∧ WF r ∧ Normalized q ∧ Normalized r :=
  L0.div_total u v hu hv hnu hnv hne

/-- no error outcome ("division by zero", "index out of range") on valid operands. -/
theorem div_no_error (u v : List Nat) (hu : WF u) (hv : WF v) (hnu : Normalized u) (hnv : Normalized v)
    (hne : v ≠ []) (e : String) : div u v ≠ .error e :=
  L0.div_no_error u v hu hv hnu hnv hne e

/-- The quotient and remainder are THE Euclidean ones. -/
theorem div_eq_divmod (u v q r : List Nat) (hu : WF u) (hv : WF v) (hnu : Normalized u) (hnv : Normalized v)
    (hne : v ≠ []) (h : div u v = .ok (q, r)) :
    natOf q = natOf u / natOf v ∧ natOf r = natOf u % natOf v := by
  obtain ⟨h1, h2⟩ := L0.div_spec u v q r hu hv hnu hnv hne h
  have hpos : 0 < natOf v := by omega
  constructor
  · rw [h1, Nat.mul_comm, Nat.mul_add_div hpos, Nat.div_eq_of_lt h2, Nat.add_zero]
  · rw [h1, Nat.mul_comm, Nat.mul_add_mod, Nat.mod_eq_of_lt h2]

/-! ### Non-vacuity: the hypotheses are satisfiable on concrete operands (with carries) -/

private theorem wf4 : WF [9999999999999999999, 5, 0, 9999999999999999999] := by
  intro w hw; simp at hw; omega
private theorem wf3 : WF [9999999999999999999, 9999999999999999999, 7] := by
  intro w hw; simp at hw; omega
private theorem nm4 : Normalized [9999999999999999999, 5, 0, 9999999999999999999] := by
  simp [Normalized]
private theorem nm3 : Normalized [9999999999999999999, 9999999999999999999, 7] := by
  simp [Normalized]

example : natOf (karatsuba 2 8 [9999999999999999999, 5, 0, 9999999999999999999] [1, 2, 3, 4])
    = natOf [9999999999999999999, 5, 0, 9999999999999999999] * natOf [1, 2, 3, 4] :=
  (karatsuba_spec 2 8 [9999999999999999999, 5, 0, 9999999999999999999] [1, 2, 3, 4] wf4
    (by intro w hw; simp at hw; omega) rfl).1

example : natOf (mul 2 8 [9999999999999999999, 5, 0, 9999999999999999999]
      [9999999999999999999, 9999999999999999999, 7])
    = natOf [9999999999999999999, 5, 0, 9999999999999999999]
      * natOf [9999999999999999999, 9999999999999999999, 7] :=
  (mul_spec 2 (by omega) 8 _ _ wf4 wf3 (by decide)).1

example : mul 2 8 [9999999999999999999, 5, 0, 9999999999999999999]
      [9999999999999999999, 9999999999999999999, 7]
    = mul 30 100 [9999999999999999999, 5, 0, 9999999999999999999]
      [9999999999999999999, 9999999999999999999, 7] :=
  mul_threshold_indep_list 2 30 8 100 (by omega) (by omega) _ _ wf4 wf3 (by decide) (by decide)

example : natOf (sqr 1 2 2 4 [9999999999999999999, 5, 0, 9999999999999999999])
    = natOf [9999999999999999999, 5, 0, 9999999999999999999]
      * natOf [9999999999999999999, 5, 0, 9999999999999999999] :=
  (sqr_spec 1 2 2 (by omega) (by omega) 4 _ wf4 (by decide)).1

example : natOf (basicSqr [9999999999999999999, 5, 0, 9999999999999999999])
    = natOf [9999999999999999999, 5, 0, 9999999999999999999]
      * natOf [9999999999999999999, 5, 0, 9999999999999999999] :=
  (basicSqr_spec _ wf4).1

example : natOf (karatsubaSqr 2 3 [9999999999999999999, 5, 0, 9999999999999999999])
    = natOf [9999999999999999999, 5, 0, 9999999999999999999]
      * natOf [9999999999999999999, 5, 0, 9999999999999999999] :=
  (karatsubaSqr_spec 2 3 _ wf4).1

example : ∃ q r, div [9999999999999999999, 5, 0, 9999999999999999999]
      [9999999999999999999, 9999999999999999999, 7] = .ok (q, r)
    ∧ natOf [9999999999999999999, 5, 0, 9999999999999999999]
        = natOf q * natOf [9999999999999999999, 9999999999999999999, 7] + natOf r
    ∧ natOf r < natOf [9999999999999999999, 9999999999999999999, 7] := by
  obtain ⟨q, r, h1, h2, h3, _⟩ := div_total _ _ wf4 wf3 nm4 nm3 (by simp)
  exact ⟨q, r, h1, h2, h3⟩

example : div [9999999999999999999, 5, 0, 9999999999999999999]
    [9999999999999999999, 9999999999999999999, 7] ≠ .error "index out of range" :=
  div_no_error _ _ wf4 wf3 nm4 nm3 (by simp) _

#print axioms karatsuba_spec
#print axioms mul_spec
#print axioms mul_threshold_indep
#print axioms mul_threshold_indep_list
#print axioms basicSqr_spec
#print axioms karatsubaSqr_spec
#print axioms sqr_spec
#print axioms sqr_threshold_indep
#print axioms sqr_eq_mul
#print axioms divBasic_spec
#print axioms div_spec
#print axioms div_total
#print axioms div_no_error
#print axioms div_eq_divmod

/-! ### Recursive division (Burnikel–Ziegler; `divRecursive`, `divRecursiveStep`, divisors of at least
    `divRecursiveThreshold` = 100 words). Statements and proofs: `Properties/C06Rec.lean`, `Proofs/DivRec*.lean`;
    re-exported here so that the per-run audit of this module lists them with their axioms. -/

theorem bz_lower : type_of% @C06Rec.bz_lower := @C06Rec.bz_lower
theorem bz_upper : type_of% @C06Rec.bz_upper := @C06Rec.bz_upper
theorem bz_upper_words : type_of% @C06Rec.bz_upper_words := @C06Rec.bz_upper_words
theorem divBasic_gen : type_of% @C06Rec.divBasic_gen := @C06Rec.divBasic_gen
theorem divRecStep_total : type_of% @C06Rec.divRecStep_total := @C06Rec.divRecStep_total
theorem divRecStep_spec : type_of% @C06Rec.divRecStep_spec := @C06Rec.divRecStep_spec
theorem divRecStep_no_error : type_of% @C06Rec.divRecStep_no_error := @C06Rec.divRecStep_no_error
theorem divRecursive_total : type_of% @C06Rec.divRecursive_total := @C06Rec.divRecursive_total
theorem divLargeRec_total : type_of% @C06Rec.divLargeRec_total := @C06Rec.divLargeRec_total
theorem divLargeRec_spec : type_of% @C06Rec.divLargeRec_spec := @C06Rec.divLargeRec_spec
theorem divFull_total : type_of% @C06Rec.divFull_total := @C06Rec.divFull_total
theorem divFull_spec : type_of% @C06Rec.divFull_spec := @C06Rec.divFull_spec
theorem divFull_no_error : type_of% @C06Rec.divFull_no_error := @C06Rec.divFull_no_error
theorem divFull_eq_div : type_of% @C06Rec.divFull_eq_div := @C06Rec.divFull_eq_div
theorem divFull_production : type_of% @C06Rec.divFull_production := @C06Rec.divFull_production

end Decimal.C06
