/-
  C07b — the amd64 assembly (REGENERATED from dec_arith_amd64.s on every run,
  DecimalModel/Gen/Asm.lean), whole-routine theorems for the four routines that Properties/C07.lean
  left open:

      add10VW(z, x []Word, y Word) (c Word)      sub10VW(z, x []Word, y Word) (c Word)
      shl10VU(z, x []Word, s uint) (c Word)      shr10VU(z, x []Word, s uint) (c Word)

  including their tails `decCpy` / `decCpyInv` (early exit "carry = 0 → copy the rest", `s = 0`).

  Shape (same as the tier-C theorems of C07): for EVERY length `n < 2^60`, from ANY machine state
  whose argument frame describes the call and whose memory holds the operand, running the
  control-flow graph `program` from the routine's entry terminates within the stated number of
  blocks, raises no trap, puts the carry of the list-level kernel (`Decimal.L0.add10VW` … of
  DecimalModel/Vec.lean, themselves equal to arithmetic: Proofs/Vec.lean) into the result slot,
  writes exactly that kernel's result vector to `z` and leaves every other memory word unchanged.
  Overlap: `add10VW sub10VW shr10VU` (ascending) allow `z = x`, `z` anywhere below `x` (as `dec.shr`
  calls `shr10VU(z, x[m-n:], s)`), or `z` beyond the end of `x`; `shl10VU` (descending) allows `z = x`,
  `z` anywhere above `x` (as `dec.shl` calls `shl10VU(z[n-m:n], x, s)`), or `z` entirely before `x`.
  The shift routines need no bound on the words: they agree with the portable kernel on every
  64-bit word, for every shift `0 ≤ s ≤ 18`.

  Proofs: Proofs/AsmLoops2.lean (runner helpers, `Holds`/`Wrote`, decCpy, decCpyInv),
  Proofs/AsmLoopsAddVW.lean, AsmLoopsSubVW.lean, AsmLoopsShl.lean, AsmLoopsShr.lean (all by induction
  over the runner with the block lemmas of Proofs/AsmBlocks.lean — no block is unfolded again),
  Proofs/AsmWrappers2.lean (Go-signature wrappers).
-/
import Proofs.AsmWrappers2
import Proofs.Vec

namespace Decimal.C07b
open Decimal Decimal.Gen Decimal.Asm Decimal.Gen.Asm

/-! ## memory level, every length -/

/-- `add10VW`: frame `(z, n, _, x, n, _, y)`, words of `x` and `y` below `10^19`. -/
theorem asm_add10VW_routine (s : St) (xs : List Nat) (y zp xp : Nat)
    (hf0 : s.frame.rd 0 = zp) (hf8 : s.frame.rd 8 = xs.length) (hf24 : s.frame.rd 24 = xp)
    (hf48 : s.frame.rd 48 = y)
    (hxs : ∀ x, x ∈ xs → x < 10000000000000000000) (hy : y < 10000000000000000000)
    (hn : xs.length < 1152921504606846976)
    (hxp : xp + 8 * xs.length ≤ 18446744073709551616) (hzp : zp + 8 * xs.length ≤ 18446744073709551616)
    (hal : zp ≤ xp ∨ xp + 8 * xs.length ≤ zp)
    (hmem : ∀ j, j < xs.length → s.mem.rd (xp + 8 * j) = xs.getD j 0) :
    ∃ s', run program (xs.length + 7) Lbl.add10VW_entry s = some s' ∧
      s'.frame = s.frame.wr 56 (L0.add10VW xs y).2 ∧ s'.trap = s.trap ∧
      (∀ j, j < xs.length → s'.mem.rd (zp + 8 * j) = (L0.add10VW xs y).1.getD j 0) ∧
      (∀ a, (∀ j, j < xs.length → a ≠ zp + 8 * j) → s'.mem.rd a = s.mem.rd a) :=
  add10VW_correct s xs y zp xp hf0 hf8 hf24 hf48 hxs hy hn hxp hzp hal hmem

/-- `sub10VW`: frame `(z, n, _, x, n, _, y)`, words of `x` and `y` below `10^19`. -/
theorem asm_sub10VW_routine (s : St) (xs : List Nat) (y zp xp : Nat)
    (hf0 : s.frame.rd 0 = zp) (hf8 : s.frame.rd 8 = xs.length) (hf24 : s.frame.rd 24 = xp)
    (hf48 : s.frame.rd 48 = y)
    (hxs : ∀ x, x ∈ xs → x < 10000000000000000000) (hy : y < 10000000000000000000)
    (hn : xs.length < 1152921504606846976)
    (hxp : xp + 8 * xs.length ≤ 18446744073709551616) (hzp : zp + 8 * xs.length ≤ 18446744073709551616)
    (hal : zp ≤ xp ∨ xp + 8 * xs.length ≤ zp)
    (hmem : ∀ j, j < xs.length → s.mem.rd (xp + 8 * j) = xs.getD j 0) :
    ∃ s', run program (xs.length + 3) Lbl.sub10VW_entry s = some s' ∧
      s'.frame = s.frame.wr 56 (L0.sub10VW xs y).2 ∧ s'.trap = s.trap ∧
      (∀ j, j < xs.length → s'.mem.rd (zp + 8 * j) = (L0.sub10VW xs y).1.getD j 0) ∧
      (∀ a, (∀ j, j < xs.length → a ≠ zp + 8 * j) → s'.mem.rd a = s.mem.rd a) :=
  sub10VW_correct s xs y zp xp hf0 hf8 hf24 hf48 hxs hy hn hxp hzp hal hmem

/-- `shl10VU`: frame `(z, n, _, x, n, _, s)`, `0 ≤ s ≤ 18`, the table `pow10DivTab64` in memory where
    the symbol points (`TabAt`), ANY 64-bit words; `z` not below `x` or entirely before it. -/
theorem asm_shl10VU_routine (s : St) (xs : List Nat) (sh zp xp : Nat)
    (hf0 : s.frame.rd 0 = zp) (hf8 : s.frame.rd 8 = xs.length) (hf24 : s.frame.rd 24 = xp)
    (hf48 : s.frame.rd 48 = sh) (hsh : sh ≤ 18)
    (htab : TabAt s.mem (s.sym "pow10DivTab64")) (hbase : s.sym "pow10DivTab64" + 432 < 18446744073709551616)
    (hn : xs.length < 1152921504606846976)
    (hxp : xp + 8 * xs.length ≤ 18446744073709551616) (hzp : zp + 8 * xs.length ≤ 18446744073709551616)
    (hal : xp ≤ zp ∨ zp + 8 * xs.length ≤ xp)
    (hmem : ∀ j, j < xs.length → s.mem.rd (xp + 8 * j) = xs.getD j 0) :
    ∃ s', run program (xs.length + 8) Lbl.shl10VU_entry s = some s' ∧
      s'.frame = s.frame.wr 56 (L0.shl10VU xs sh).2 ∧ s'.trap = s.trap ∧
      (∀ j, j < xs.length → s'.mem.rd (zp + 8 * j) = (L0.shl10VU xs sh).1.getD j 0) ∧
      (∀ a, (∀ j, j < xs.length → a ≠ zp + 8 * j) → s'.mem.rd a = s.mem.rd a) :=
  shl10VU_correct s xs sh zp xp hf0 hf8 hf24 hf48 hsh htab hbase hn hxp hzp hal hmem

/-- `shr10VU`: as `shl10VU`, ascending: `z` not above `x` or beyond its end. -/
theorem asm_shr10VU_routine (s : St) (xs : List Nat) (sh zp xp : Nat)
    (hf0 : s.frame.rd 0 = zp) (hf8 : s.frame.rd 8 = xs.length) (hf24 : s.frame.rd 24 = xp)
    (hf48 : s.frame.rd 48 = sh) (hsh : sh ≤ 18)
    (htab : TabAt s.mem (s.sym "pow10DivTab64")) (hbase : s.sym "pow10DivTab64" + 432 < 18446744073709551616)
    (hn : xs.length < 1152921504606846976)
    (hxp : xp + 8 * xs.length ≤ 18446744073709551616) (hzp : zp + 8 * xs.length ≤ 18446744073709551616)
    (hal : zp ≤ xp ∨ xp + 8 * xs.length ≤ zp)
    (hmem : ∀ j, j < xs.length → s.mem.rd (xp + 8 * j) = xs.getD j 0) :
    ∃ s', run program (xs.length + 8) Lbl.shr10VU_entry s = some s' ∧
      s'.frame = s.frame.wr 56 (L0.shr10VU xs sh).2 ∧ s'.trap = s.trap ∧
      (∀ j, j < xs.length → s'.mem.rd (zp + 8 * j) = (L0.shr10VU xs sh).1.getD j 0) ∧
      (∀ a, (∀ j, j < xs.length → a ≠ zp + 8 * j) → s'.mem.rd a = s.mem.rd a) :=
  shr10VU_correct s xs sh zp xp hf0 hf8 hf24 hf48 hsh htab hbase hn hxp hzp hal hmem

/-- the library's overlapping call shape of `dec.shl`: `shl10VU(z[k:k+n], x, s)` with `z` and `x` the
    same array (`zp = xp + 8k`) is an instance -/
theorem asm_shl10VU_shifted_up (s : St) (xs : List Nat) (sh k xp : Nat)
    (hf0 : s.frame.rd 0 = xp + 8 * k) (hf8 : s.frame.rd 8 = xs.length) (hf24 : s.frame.rd 24 = xp)
    (hf48 : s.frame.rd 48 = sh) (hsh : sh ≤ 18)
    (htab : TabAt s.mem (s.sym "pow10DivTab64")) (hbase : s.sym "pow10DivTab64" + 432 < 18446744073709551616)
    (hn : xs.length < 1152921504606846976) (hzp : xp + 8 * k + 8 * xs.length ≤ 18446744073709551616)
    (hmem : ∀ j, j < xs.length → s.mem.rd (xp + 8 * j) = xs.getD j 0) :
    ∃ s', run program (xs.length + 8) Lbl.shl10VU_entry s = some s' ∧
      s'.frame = s.frame.wr 56 (L0.shl10VU xs sh).2 ∧ s'.trap = s.trap ∧
      (∀ j, j < xs.length → s'.mem.rd (xp + 8 * k + 8 * j) = (L0.shl10VU xs sh).1.getD j 0) ∧
      (∀ a, (∀ j, j < xs.length → a ≠ xp + 8 * k + 8 * j) → s'.mem.rd a = s.mem.rd a) :=
  shl10VU_correct s xs sh (xp + 8 * k) xp hf0 hf8 hf24 hf48 hsh htab hbase hn (by omega) hzp
    (Or.inl (by omega)) hmem

/-- the library's overlapping call shape of `dec.shr`: `shr10VU(z, x[k:], s)` with `z` and `x` the
    same array (`xp = zp + 8k`) is an instance -/
theorem asm_shr10VU_shifted_down (s : St) (xs : List Nat) (sh k zp : Nat)
    (hf0 : s.frame.rd 0 = zp) (hf8 : s.frame.rd 8 = xs.length) (hf24 : s.frame.rd 24 = zp + 8 * k)
    (hf48 : s.frame.rd 48 = sh) (hsh : sh ≤ 18)
    (htab : TabAt s.mem (s.sym "pow10DivTab64")) (hbase : s.sym "pow10DivTab64" + 432 < 18446744073709551616)
    (hn : xs.length < 1152921504606846976) (hxp : zp + 8 * k + 8 * xs.length ≤ 18446744073709551616)
    (hmem : ∀ j, j < xs.length → s.mem.rd (zp + 8 * k + 8 * j) = xs.getD j 0) :
    ∃ s', run program (xs.length + 8) Lbl.shr10VU_entry s = some s' ∧
      s'.frame = s.frame.wr 56 (L0.shr10VU xs sh).2 ∧ s'.trap = s.trap ∧
      (∀ j, j < xs.length → s'.mem.rd (zp + 8 * j) = (L0.shr10VU xs sh).1.getD j 0) ∧
      (∀ a, (∀ j, j < xs.length → a ≠ zp + 8 * j) → s'.mem.rd a = s.mem.rd a) :=
  shr10VU_correct s xs sh zp (zp + 8 * k) hf0 hf8 hf24 hf48 hsh htab hbase hn hxp (by omega)
    (Or.inl (by omega)) hmem

/-- the copy routines the four kernels tail-call, every length: `decCpy` (ascending, `z` not above
    `x`) and `decCpyInv` (descending, `z` not below `x`); `Holds`/`HoldsR`/`Wrote` are the memory
    predicates of Proofs/AsmLoops2.lean -/
theorem asm_decCpy_routine : type_of% @decCpy_run := @decCpy_run
theorem asm_decCpyInv_routine : type_of% @decCpyInv_run := @decCpyInv_run

/-! ## Go-signature wrappers (`callKernel`: ABI0 frame, heap, table image, runner, read-back) -/

theorem asm_add10VW_eq (xs : List Nat) (y : Nat) (hxs : ∀ x, x ∈ xs → x < 10000000000000000000)
    (hy : y < 10000000000000000000) (hn : xs.length < 1000000000000000) :
    asm_add10VW xs y = some (L0.add10VW xs y) := Asm.asm_add10VW_eq xs y hxs hy hn

theorem asm_sub10VW_eq (xs : List Nat) (y : Nat) (hxs : ∀ x, x ∈ xs → x < 10000000000000000000)
    (hy : y < 10000000000000000000) (hn : xs.length < 1000000000000000) :
    asm_sub10VW xs y = some (L0.sub10VW xs y) := Asm.asm_sub10VW_eq xs y hxs hy hn

theorem asm_shl10VU_eq (xs : List Nat) (sh : Nat) (hsh : sh ≤ 18) (hn : xs.length < 1000000000000000) :
    asm_shl10VU xs sh = some (L0.shl10VU xs sh) := Asm.asm_shl10VU_eq xs sh hsh hn

theorem asm_shr10VU_eq (xs : List Nat) (sh : Nat) (hsh : sh ≤ 18) (hn : xs.length < 1000000000000000) :
    asm_shr10VU xs sh = some (L0.shr10VU xs sh) := Asm.asm_shr10VU_eq xs sh hsh hn

/-- in place (`z = x`, heap = `x`) -/
theorem asm_add10VW_inplace_eq (xs : List Nat) (y : Nat) (hxs : ∀ x, x ∈ xs → x < 10000000000000000000)
    (hy : y < 10000000000000000000) (hn : xs.length < 1000000000000000) :
    asm_inplace .add10VW_entry xs [y] = some (L0.add10VW xs y) := Asm.asm_add10VW_inplace_eq xs y hxs hy hn

theorem asm_sub10VW_inplace_eq (xs : List Nat) (y : Nat) (hxs : ∀ x, x ∈ xs → x < 10000000000000000000)
    (hy : y < 10000000000000000000) (hn : xs.length < 1000000000000000) :
    asm_inplace .sub10VW_entry xs [y] = some (L0.sub10VW xs y) := Asm.asm_sub10VW_inplace_eq xs y hxs hy hn

theorem asm_shl10VU_inplace_eq (xs : List Nat) (sh : Nat) (hsh : sh ≤ 18) (hn : xs.length < 1000000000000000) :
    asm_inplace .shl10VU_entry xs [sh] = some (L0.shl10VU xs sh) := Asm.asm_shl10VU_inplace_eq xs sh hsh hn

theorem asm_shr10VU_inplace_eq (xs : List Nat) (sh : Nat) (hsh : sh ≤ 18) (hn : xs.length < 1000000000000000) :
    asm_inplace .shr10VU_entry xs [sh] = some (L0.shr10VU xs sh) := Asm.asm_shr10VU_inplace_eq xs sh hsh hn

/-! ## down to arithmetic (with the list-level theorems of Proofs/Vec.lean) -/

/-- the assembly `add10VW` adds: `z + c·B^n = x + y`, `z` well formed -/
theorem asm_add10VW_value (xs : List Nat) (y : Nat) (hxs : L0.WF xs) (hy : y < 10000000000000000000)
    (hn : xs.length < 1000000000000000) :
    ∃ z c, asm_add10VW xs y = some (z, c) ∧ natOf z + c * B ^ xs.length = natOf xs + y ∧ L0.WF z ∧
      z.length = xs.length :=
  ⟨_, _, Asm.asm_add10VW_eq xs y hxs hy hn, (L0.add10VW_spec xs y hxs hy).1, (L0.add10VW_spec xs y hxs hy).2.1,
    (L0.add10VW_spec xs y hxs hy).2.2.1⟩

/-- the assembly `sub10VW` subtracts: `z + y = x + c·B^n` -/
theorem asm_sub10VW_value (xs : List Nat) (y : Nat) (hxs : L0.WF xs) (hy : y < 10000000000000000000)
    (hn : xs.length < 1000000000000000) :
    ∃ z c, asm_sub10VW xs y = some (z, c) ∧ natOf z + y = natOf xs + c * B ^ xs.length ∧ L0.WF z ∧
      z.length = xs.length :=
  ⟨_, _, Asm.asm_sub10VW_eq xs y hxs hy hn, (L0.sub10VW_spec xs y hxs hy).1, (L0.sub10VW_spec xs y hxs hy).2.1,
    (L0.sub10VW_spec xs y hxs hy).2.2.1⟩

/-- the assembly `shl10VU` multiplies by `10^s`: `z + c·B^n = x·10^s` -/
theorem asm_shl10VU_value (xs : List Nat) (sh : Nat) (hxs : L0.WF xs) (hs0 : 0 < sh) (hs : sh < 19)
    (hn : xs.length < 1000000000000000) :
    ∃ z c, asm_shl10VU xs sh = some (z, c) ∧ natOf z + c * B ^ xs.length = natOf xs * 10 ^ sh ∧ L0.WF z ∧
      z.length = xs.length ∧ c < 10 ^ sh :=
  ⟨_, _, Asm.asm_shl10VU_eq xs sh (by omega) hn, (L0.shl10VU_spec xs sh hxs hs0 hs).1,
    (L0.shl10VU_spec xs sh hxs hs0 hs).2.1, (L0.shl10VU_spec xs sh hxs hs0 hs).2.2.1, (L0.shl10VU_spec xs sh hxs hs0 hs).2.2.2⟩

/-- the assembly `shr10VU` divides by `10^s`: `z·10^s + r = x`, the result word is `r·10^(19-s)` -/
theorem asm_shr10VU_value (xs : List Nat) (sh : Nat) (hxs : L0.WF xs) (hs0 : 0 < sh) (hs : sh < 19)
    (hn : xs.length < 1000000000000000) :
    ∃ z c r, asm_shr10VU xs sh = some (z, c) ∧ r < 10 ^ sh ∧ c = r * 10 ^ (19 - sh) ∧
      natOf z * 10 ^ sh + r = natOf xs ∧ L0.WF z ∧ z.length = xs.length := by
  obtain ⟨r, h1, h2, h3, h4, h5⟩ := L0.shr10VU_spec xs sh hxs hs0 hs
  exact ⟨_, _, r, Asm.asm_shr10VU_eq xs sh (by omega) hn, h1, h2, h3, h4, h5⟩

/-! ## non-vacuity: the hypotheses are satisfiable on concrete, non-trivial inputs -/

/-- a carry that runs through the first word and four rounds… of nines, dies in the 6th word (early
    exit + `decCpy` of the last word), destination disjoint -/
example : asm_add10VW [9999999999999999999, 9999999999999999999, 9999999999999999999, 9999999999999999999,
      9999999999999999999, 4, 7] 1 = some ([0, 0, 0, 0, 0, 5, 7], 0) := by
  rw [asm_add10VW_eq _ _ (by decide) (by decide) (by decide)]; decide

example : asm_inplace .sub10VW_entry [0, 0, 0, 0, 0, 4, 7] [2] = some ([9999999999999999998, 9999999999999999999,
      9999999999999999999, 9999999999999999999, 9999999999999999999, 3, 7], 0) := by
  rw [asm_sub10VW_inplace_eq _ _ (by decide) (by decide) (by decide)]; decide

example : asm_shl10VU [1234567890123456789, 9999999999999999999, 5] 7 =
    some (L0.shl10VU [1234567890123456789, 9999999999999999999, 5] 7) :=
  asm_shl10VU_eq _ _ (by decide) (by decide)

example : asm_inplace .shr10VU_entry [1234567890123456789, 9999999999999999999, 5] [18] =
    some (L0.shr10VU [1234567890123456789, 9999999999999999999, 5] 18) :=
  asm_shr10VU_inplace_eq _ _ (by decide) (by decide)

/-- the memory-level theorem instantiated on a concrete machine state: `add10VW` in place on 7 words -/
example : ∃ s', run program (7 + 7) Lbl.add10VW_entry
      (initState [.slice 0 7, .slice 0 7, .word 1] [9999999999999999999, 9999999999999999999,
        9999999999999999999, 9999999999999999999, 9999999999999999999, 4, 7]) = some s' ∧
    s'.frame.rd 56 = 0 ∧ s'.trap = false ∧ s'.mem.rd (heapBase + 8 * 5) = 5 := by
  obtain ⟨f0, f8, f24, f48, ft⟩ := initState_frame 7 0 1 [9999999999999999999, 9999999999999999999,
        9999999999999999999, 9999999999999999999, 9999999999999999999, 4, 7]
  obtain ⟨s', hrun, hfr, htrap, hz, -⟩ := asm_add10VW_routine _ [9999999999999999999, 9999999999999999999,
        9999999999999999999, 9999999999999999999, 9999999999999999999, 4, 7] 1 _ _ f0 f8 f24 f48
    (by decide) (by decide) (by decide) (by decide) (by decide) (Or.inl (Nat.le_refl _))
    (initState_x_inplace _ _)
  refine ⟨s', hrun, ?_, by rw [htrap, ft], ?_⟩
  · rw [hfr, Mem.rd_wr_eq]; decide
  · have := hz 5 (by decide)
    rw [Nat.mul_zero, Nat.add_zero] at this
    rw [this]; decide

end Decimal.C07b

#print axioms Decimal.C07b.asm_add10VW_routine
#print axioms Decimal.C07b.asm_sub10VW_routine
#print axioms Decimal.C07b.asm_shl10VU_routine
#print axioms Decimal.C07b.asm_shr10VU_routine
#print axioms Decimal.C07b.asm_shl10VU_shifted_up
#print axioms Decimal.C07b.asm_shr10VU_shifted_down
#print axioms Decimal.C07b.asm_decCpy_routine
#print axioms Decimal.C07b.asm_decCpyInv_routine
#print axioms Decimal.C07b.asm_add10VW_eq
#print axioms Decimal.C07b.asm_sub10VW_eq
#print axioms Decimal.C07b.asm_shl10VU_eq
#print axioms Decimal.C07b.asm_shr10VU_eq
#print axioms Decimal.C07b.asm_add10VW_inplace_eq
#print axioms Decimal.C07b.asm_sub10VW_inplace_eq
#print axioms Decimal.C07b.asm_shl10VU_inplace_eq
#print axioms Decimal.C07b.asm_shr10VU_inplace_eq
#print axioms Decimal.C07b.asm_add10VW_value
#print axioms Decimal.C07b.asm_sub10VW_value
#print axioms Decimal.C07b.asm_shl10VU_value
#print axioms Decimal.C07b.asm_shr10VU_value
