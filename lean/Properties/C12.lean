/-
  C12 — `Parse` / `Scan`: a well-formed decimal literal is read as its exact value rounded once;
  every other input of the shapes below is rejected with an error (never a value, never a panic).

  Model: `DecimalModel/Parse.lean` (`scanDigits`, `scanMant`, `scanExpDigits`, `scanExponent`,
  `scanDec`, `parse`) on byte lists. Literals: `Lit10` (Proofs/Scan.lean),
      [sign] ip [ '.' fp ] [ 'e' [sign] digits ]
  with value `(-1)^sign × coef × 10^exp10`, `coef` = the digits of `ip ++ fp` read in base 10,
  `exp10` = written exponent − |fp|.

  Proofs: Proofs/Scan.lean (scanner) and Properties/RoundCore.lean (`round_correct`, the common
  rounding tail = `Spec.round`).
-/
import Proofs.Scan
import Properties.RoundCore

namespace Decimal.C12
open Decimal

/-! ### 1. scanner arithmetic -/

/-- A run of decimal digit bytes is consumed entirely by the base-10 mantissa loop (with or without
    separator recognition): value extended by the Horner value, count by the length, `prev = '0'`;
    `dp`, `fracOk`, `invalSep` unchanged. What follows is scanned from that state. -/
theorem scanDigits_digits (sep : Bool) (ds : List Nat) (hd : IsDigits ds) (rest : List Nat) (st : ScanSt) :
    scanDigits 10 sep (bytesOf ds ++ rest) st =
      scanDigits 10 sep rest { st with prev := if ds = [] then st.prev else 48,
                                       count := st.count + ds.length,
                                       val := st.val * 10 ^ ds.length + ofDigits ds } :=
  scanDigits_bytes sep ds hd rest st

/-- … in particular, on digits only, from any state. -/
theorem scanDigits_digits_only (sep : Bool) (ds : List Nat) (hd : IsDigits ds) (st : ScanSt) :
    scanDigits 10 sep (bytesOf ds) st =
      ({ st with prev := if ds = [] then st.prev else 48, count := st.count + ds.length,
                 val := st.val * 10 ^ ds.length + ofDigits ds }, []) :=
  scanDigits_bytes_end sep ds hd st

/-- Digits, one '.', digits, then nothing or a stopping byte: the loop returns the value of all the
    digits, their number, the position of the point, and hands the rest back. -/
theorem scanDigits_with_point (sep : Bool) (ip fp rest : List Nat) (hip : IsDigits ip) (hfp : IsDigits fp)
    (hend : MantEnd sep true rest) :
    ∃ pv, pv ≠ 95 ∧
      scanDigits 10 sep (bytesOf ip ++ 46 :: bytesOf fp ++ rest) {} =
        ({ val := ofDigits (ip ++ fp), count := ip.length + fp.length, dp := some ip.length,
           fracOk := false, prev := pv, invalSep := false }, rest) := by
  have := scanDigits_mant sep ip (some fp) rest hip hfp hend
  simpa [renderMant] using this

/-- A byte that is not a digit of the base (nor a usable '.' / '_') stops the loop and is returned. -/
theorem scanDigits_stops (b : Nat) (sep : Bool) (ch : Nat) (rest : List Nat) (st : ScanSt)
    (hdot : ch = 46 → st.fracOk = false) (hus : ch = 95 → sep = false) (hd : digitVal ch ≥ b) :
    scanDigits b sep (ch :: rest) st = (st, ch :: rest) :=
  scanDigits_stop b sep ch rest st hdot hus hd

/-- The exponent digit loop on a run of digit bytes. -/
theorem scanExpDigits_digits (sep : Bool) (ds : List Nat) (hd : IsDigits ds) (rest : List Nat)
    (v : Nat) (has : Bool) (prev : Nat) (inval : Bool) :
    scanExpDigits sep (bytesOf ds ++ rest) (v, has, prev, inval) =
      scanExpDigits sep rest (v * 10 ^ ds.length + ofDigits ds, has || !ds.isEmpty,
                              (if ds = [] then prev else 48), inval) :=
  scanExpDigits_bytes sep ds hd rest v has prev inval

theorem scanExpDigits_stops (sep : Bool) (ch : Nat) (rest : List Nat) (st : Nat × Bool × Nat × Bool)
    (hd : ¬ (48 ≤ ch ∧ ch ≤ 57)) (hus : ch = 95 → sep = false) :
    scanExpDigits sep (ch :: rest) st = (st, ch :: rest) :=
  scanExpDigits_stop sep ch rest st hd hus

/-- `scanMant` / `scanExponent` on the two halves of a literal. -/
theorem scanMant_literal (base : Nat) (ip : List Nat) (fp : Option (List Nat)) (rest : List Nat)
    (hip : IsDigits ip) (hfp : IsDigits (fp.getD [])) (hne : ip ++ fp.getD [] ≠ [])
    (hend : MantEnd (decide (base = 0)) fp.isSome rest)
    (hbase : base = 10 ∨ (base = 0 ∧ NoPrefixLetterHead rest)) :
    scanMant base (renderMant ip fp ++ rest) = .ok (ofDigits (ip ++ fp.getD []), 10, fcountOf ip fp, rest) :=
  scanMant_mant base ip fp rest hip hfp hne hend hbase

theorem scanExponent_literal (sepOk : Bool) (ex : Option (Option Bool × List Nat)) (rest : List Nat)
    (hex : ExpOk ex) (hend : ExpTailOk sepOk ex rest) :
    scanExponent sepOk (renderExp ex ++ rest) = .ok (expVal ex, 10, rest) :=
  scanExponent_lit sepOk ex rest hex hend

/-! ### 2. well-formed literals -/

/--
  **parse10_correct.** For every well-formed literal `l` with coefficient `c ≠ 0` and exponent `k`
  whose decimal exponent `ndigits c + k` lies in `[MinExp, MaxExp]`, every receiver `z`
  (`p` = its precision, 34 when that is 0) and base 10 or 0:
  `Parse` succeeds, detects base 10, and the result is the exact value `±c × 10^k` rounded once to
  `p` digits in `z`'s mode (same form, sign, accuracy, exponent, coefficient), with precision `p`
  and `z`'s mode.
-/
theorem parse10_correct (z : Dec) (l : Lit10) (hwf : l.WF) (base : Nat) (hbase : base = 10 ∨ base = 0)
    (hc : l.coef ≠ 0)
    (hlo : MinExp ≤ (ndigits l.coef : Int) + l.exp10) (hhi : (ndigits l.coef : Int) + l.exp10 ≤ MaxExp) :
    ∃ d, parse z l.render base = .ok (d, 10) ∧
      Spec.agrees d (Spec.round z.mode (if z.prec = 0 then 34 else z.prec) l.sign (l.coef : Rat) l.exp10) = true ∧
      d.prec = (if z.prec = 0 then 34 else z.prec) ∧ d.mode = z.mode ∧ d.neg = l.sign := by
  have hp := parse_lit z l hwf base hbase
  have hr : ¬ ((ndigits l.coef : Int) + l.exp10 < MinExp ∨ (ndigits l.coef : Int) + l.exp10 > MaxExp) := by omega
  simp only [hc, hr, if_false] at hp
  refine ⟨_, hp, ?_⟩
  have hp1 : 1 ≤ (if z.prec = 0 then 34 else z.prec) := by split <;> omega
  exact round_correct { z with neg := l.sign, prec := if z.prec = 0 then 34 else z.prec } l.coef l.exp10 false
    (l.coef : Rat) (Nat.pos_of_ne_zero hc) hp1 (by intro h; cases h) (by simp)

/-- A zero coefficient gives a zero of the literal's sign, precision `p`, accuracy Exact — whatever
    the (int64) exponent. -/
theorem parse10_zero (z : Dec) (l : Lit10) (hwf : l.WF) (base : Nat) (hbase : base = 10 ∨ base = 0)
    (hc : l.coef = 0) :
    parse z l.render base =
      .ok ({ z with neg := l.sign, prec := if z.prec = 0 then 34 else z.prec, acc := Exact, form := .zero }, 10) := by
  have hp := parse_lit z l hwf base hbase
  simpa only [hc, if_true] using hp

/-- A non-zero value whose decimal exponent is outside `[MinExp, MaxExp]` is an error. -/
theorem parse10_overflow (z : Dec) (l : Lit10) (hwf : l.WF) (base : Nat) (hbase : base = 10 ∨ base = 0)
    (hc : l.coef ≠ 0)
    (hr : (ndigits l.coef : Int) + l.exp10 < MinExp ∨ (ndigits l.coef : Int) + l.exp10 > MaxExp) :
    parse z l.render base = .error .expOverflow := by
  have hp := parse_lit z l hwf base hbase
  simpa only [hc, hr, if_false, if_true] using hp

/-- The three cases in one equation (`setNormAndRound` = the common rounding tail of C-core). -/
theorem parse10_eq (z : Dec) (l : Lit10) (hwf : l.WF) (base : Nat) (hbase : base = 10 ∨ base = 0) :
    parse z l.render base =
      (let p := if z.prec = 0 then 34 else z.prec
       let e10 : Int := (ndigits l.coef : Int) + l.exp10
       if l.coef = 0 then .ok ({ z with neg := l.sign, prec := p, acc := Exact, form := .zero }, 10)
       else if e10 < MinExp ∨ e10 > MaxExp then .error .expOverflow
       else .ok (setNormAndRound { z with neg := l.sign, prec := p } l.coef l.exp10 false, 10)) :=
  parse_lit z l hwf base hbase

/-! ### 3. rejected inputs (every string of the given shape) -/

/-- the empty input. -/
theorem reject_empty (z : Dec) (base : Nat) : parse z [] base = .error .eof := parse_nil z base

/-- a lone sign, any base. -/
theorem reject_lone_sign (z : Dec) (sg : Bool) (base : Nat) :
    parse z (signBytes (some sg)) base = .error .noDigits := parse_lone_sign z sg base

/-- no mantissa digit: `[sign] ['.'] rest` where `rest` is empty or starts with a byte that is not a
    decimal digit (nor, in base 0, a '_'; nor a second sign directly after nothing). The four
    infinity spellings are the only strings of this shape that are accepted. -/
theorem reject_noMantDigits (z : Dec) (sg : Option Bool) (dot : Bool) (rest : List Nat) (base : Nat)
    (hbase : base = 10 ∨ base = 0)
    (hend : MantEnd (decide (base = 0)) dot rest)
    (hsg : sg = none → dot = false → rest ≠ [] ∧ NoSignHead rest)
    (hinf : ¬ IsInfStr (signBytes sg ++ ((if dot then [46] else []) ++ rest))) :
    parse z (signBytes sg ++ ((if dot then [46] else []) ++ rest)) base = .error .noDigits :=
  parse_noMantDigits z sg dot rest base hbase hend hsg hinf

/-- `"."`, `"+."`, `"-."`, `".e5"`, `".x"` … -/
theorem reject_point_only (z : Dec) (sg : Option Bool) (rest : List Nat) (base : Nat)
    (hbase : base = 10 ∨ base = 0) (hend : MantEnd (decide (base = 0)) true rest) :
    parse z (signBytes sg ++ 46 :: rest) base = .error .noDigits := by
  have := parse_noMantDigits z sg true rest base hbase hend (by intro _ h; cases h)
    (not_IsInfStr_of_mem _ 46 (by simp) (by omega))
  simpa using this

/-- `"e…"`, `"+e…"`: an exponent marker where the mantissa should be, whatever follows. -/
theorem reject_exp_only (z : Dec) (sg : Option Bool) (rest : List Nat) (base : Nat)
    (hbase : base = 10 ∨ base = 0) :
    parse z (signBytes sg ++ 101 :: rest) base = .error .noDigits := by
  have := parse_noMantDigits z sg false (101 :: rest) base hbase ⟨by decide, by omega, by omega⟩
    (by intro _ _; exact ⟨by simp, by simp [NoSignHead]⟩)
    (not_IsInfStr_of_mem _ 101 (by simp) (by omega))
  simpa using this

/-- base 0: a mantissa ending in '_' (`"1_"`, `"1.5_"`, `"1_e5"`). -/
theorem reject_trailing_sep (z : Dec) (sg : Option Bool) (ip : List Nat) (fp : Option (List Nat)) (rest : List Nat)
    (hip : IsDigits ip) (hfp : IsDigits (fp.getD [])) (hne : ip ++ fp.getD [] ≠ [])
    (hend : MantEnd true fp.isSome rest) :
    parse z (signBytes sg ++ (renderMant ip fp ++ 95 :: rest)) 0 = .error .invalSep :=
  parse_trailing_sep z sg ip fp rest hip hfp hne hend

/-- base 0: `"__"` after at least one digit, whatever follows. -/
theorem reject_double_sep (z : Dec) (sg : Option Bool) (ds rest : List Nat) (hd : IsDigits ds) (hne : ds ≠ []) :
    parse z (signBytes sg ++ (bytesOf ds ++ 95 :: 95 :: rest)) 0 = .error .invalSep :=
  parse_double_sep z sg ds rest hd hne

/-- an exponent marker without digits: `"1e"`, `"1e+"`, `"1.5e-"`, `"1ex"`. -/
theorem reject_exp_noDigits (z : Dec) (sg esg : Option Bool) (ip : List Nat) (fp : Option (List Nat))
    (rest : List Nat) (base : Nat) (hbase : base = 10 ∨ base = 0)
    (hip : IsDigits ip) (hfp : IsDigits (fp.getD [])) (hne : ip ++ fp.getD [] ≠ [])
    (hend : ExpEnd (decide (base = 0)) rest) (hsg : esg = none → NoSignHead rest) :
    parse z (signBytes sg ++ (renderMant ip fp ++ 101 :: (signBytes esg ++ rest))) base = .error .noDigits :=
  parse_exp_noDigits z sg esg ip fp rest base hbase hip hfp hne hend hsg

/-- `∀ ds, parse z (ds ++ "e") 10` is an error (the instance asked for). -/
theorem reject_digits_e (z : Dec) (ds : List Nat) (hd : IsDigits ds) (hne : ds ≠ []) :
    parse z (bytesOf ds ++ [101]) 10 = .error .noDigits := by
  have := parse_exp_noDigits z none none ds none [] 10 (Or.inl rfl) hd IsDigits_nil (by simpa using hne)
    (by simp [ExpEnd]) (by intro _; simp [NoSignHead])
  simpa [renderMant, signBytes] using this

/-- an exponent beyond int64. -/
theorem reject_expRange (z : Dec) (sg esg : Option Bool) (ip : List Nat) (fp : Option (List Nat))
    (ds rest : List Nat) (base : Nat) (hbase : base = 10 ∨ base = 0)
    (hip : IsDigits ip) (hfp : IsDigits (fp.getD [])) (hne : ip ++ fp.getD [] ≠ [])
    (hd : IsDigits ds) (hend : ExpEnd (decide (base = 0)) rest)
    (hbig : if signVal esg then ofDigits ds > 9223372036854775808 else ofDigits ds > 9223372036854775807) :
    parse z (signBytes sg ++ (renderMant ip fp ++ 101 :: (signBytes esg ++ (bytesOf ds ++ rest)))) base
      = .error .expRange :=
  parse_expRange z sg esg ip fp ds rest base hbase hip hfp hne hd hend hbig

/-- bytes left over after a complete literal (zero, or in range). -/
theorem reject_trailing (z : Dec) (l : Lit10) (hwf : l.WF) (base : Nat) (rest : List Nat) (hrest : rest ≠ [])
    (hbase : base = 10 ∨ (base = 0 ∧ NoBasePrefix (l.body ++ rest)))
    (hend : TailOk (decide (base = 0)) l rest)
    (hrange : l.coef = 0 ∨ (MinExp ≤ (ndigits l.coef : Int) + l.exp10 ∧ (ndigits l.coef : Int) + l.exp10 ≤ MaxExp)) :
    parse z (l.render ++ rest) base = .error .trailing :=
  parse_trailing z l hwf base rest hrest hbase hend hrange

/-- `Parse` is a total function into `Except ScanErr (Dec × Nat)`: a value or an error, nothing else.
    (There is no panic outcome in the model. The Go `Parse` panics only for an invalid *base*
    argument — documented, not in {0, 2, 8, 10, 16} — which is outside the model's domain; all
    model functions are structurally recursive on the input, so termination is checked by Lean.) -/
theorem parse_total (z : Dec) (s : List Nat) (base : Nat) :
    (∃ d b, parse z s base = .ok (d, b)) ∨ (∃ e, parse z s base = .error e) :=
  Decimal.parse_total z s base

/-! ### non-vacuity -/

/-- "-12.50e-03" -/
private def lit1 : Lit10 := { neg := some true, ip := [1, 2], fp := some [5, 0], ex := some (some true, [0, 3]) }

private theorem lit1_wf : lit1.WF :=
  ⟨by decide, by decide, by decide, by show ExpOk (some (some true, [0, 3])); unfold ExpOk; decide⟩

example : lit1.render = "-12.50e-03".toList.map chr := by decide
example : lit1.value = (1250, -5) := by decide

/-- `Parse("-12.50e-03")` into a 3-digit ToNearestEven receiver is `−1250 × 10^-5` rounded once. -/
example : ∃ d, parse { prec := 3 } ("-12.50e-03".toList.map chr) 10 = .ok (d, 10) ∧
    Spec.agrees d (Spec.round .ToNearestEven 3 true (1250 : Rat) (-5)) = true ∧ d.prec = 3 := by
  have hnd : ndigits 1250 = 4 := ndigits_unique (by norm_num) (by norm_num) (by norm_num)
  have hc : lit1.coef = 1250 := by decide
  have he : lit1.exp10 = -5 := by decide
  obtain ⟨d, h1, h2, h3, _⟩ := parse10_correct { prec := 3 } lit1 lit1_wf 10 (Or.inl rfl)
    (by rw [hc]; omega) (by rw [hc, he, hnd]; decide) (by rw [hc, he, hnd]; decide)
  refine ⟨d, h1, ?_, h3⟩
  rw [hc, he] at h2
  simpa [lit1, Lit10.sign, signVal] using h2

/-- "0.000e99": zero. -/
example : parse { prec := 7, mode := .ToZero } ("+0.000e99".toList.map chr) 0
    = .ok ({ prec := 7, mode := .ToZero, neg := false, acc := Exact, form := .zero }, 10) :=
  parse10_zero { prec := 7, mode := .ToZero }
    { neg := some false, ip := [0], fp := some [0, 0, 0], ex := some (none, [9, 9]) }
    ⟨by decide, by decide, by decide, by unfold ExpOk; decide⟩ 0 (Or.inr rfl) (by decide)

/-- "1e2147483647": decimal exponent 2147483648 > MaxExp. -/
example (z : Dec) : parse z ("1e2147483647".toList.map chr) 10 = .error .expOverflow := by
  have hnd : ndigits 1 = 1 := ndigits_one
  have := parse10_overflow z { ip := [1], ex := some (none, [2, 1, 4, 7, 4, 8, 3, 6, 4, 7]) }
    ⟨by decide, by decide, by decide, by unfold ExpOk; decide⟩ 10 (Or.inl rfl) (by decide)
    (by right
        have hc : ({ ip := [1], ex := some (none, [2, 1, 4, 7, 4, 8, 3, 6, 4, 7]) } : Lit10).coef = 1 := by decide
        have he : ({ ip := [1], ex := some (none, [2, 1, 4, 7, 4, 8, 3, 6, 4, 7]) } : Lit10).exp10 = 2147483647 := by decide
        rw [hc, he, hnd]; decide)
  exact this

example (z : Dec) : parse z (".".toList.map chr) 10 = .error .noDigits :=
  reject_point_only z none [] 10 (Or.inl rfl) trivial
example (z : Dec) : parse z ("e5".toList.map chr) 10 = .error .noDigits :=
  reject_exp_only z none [53] 10 (Or.inl rfl)
example (z : Dec) : parse z ("12_".toList.map chr) 0 = .error .invalSep :=
  reject_trailing_sep z none [1, 2] none [] (by decide) (by decide) (by decide) trivial
example (z : Dec) : parse z ("1__2".toList.map chr) 0 = .error .invalSep :=
  reject_double_sep z none [1] [50] (by decide) (by decide)
example (z : Dec) : parse z ("1e+".toList.map chr) 10 = .error .noDigits :=
  reject_exp_noDigits z none (some false) [1] none [] 10 (Or.inl rfl) (by decide) (by decide) (by decide) trivial
    (by intro h; cases h)
example (z : Dec) : parse z ("1e9223372036854775808".toList.map chr) 10 = .error .expRange :=
  reject_expRange z none none [1] none [9,2,2,3,3,7,2,0,3,6,8,5,4,7,7,5,8,0,8] [] 10 (Or.inl rfl)
    (by decide) (by decide) (by decide) (by decide) trivial (by decide)
example (z : Dec) : parse z ("1.5x".toList.map chr) 10 = .error .trailing :=
  reject_trailing z { ip := [1], fp := some [5] } ⟨by decide, by decide, by decide, trivial⟩ 10 [120] (by decide)
    (Or.inl rfl) (by unfold TailOk; exact ⟨⟨by decide, by decide, by decide⟩, by unfold NoExpHead; decide⟩)
    (Or.inr (by
      have hc : ({ ip := [1], fp := some [5] } : Lit10).coef = 15 := by decide
      have he : ({ ip := [1], fp := some [5] } : Lit10).exp10 = -1 := by decide
      have hnd : ndigits 15 = 2 := ndigits_unique (by norm_num) (by norm_num) (by norm_num)
      rw [hc, he, hnd]; decide))

#print axioms scanDigits_digits
#print axioms scanDigits_digits_only
#print axioms scanDigits_with_point
#print axioms scanDigits_stops
#print axioms scanExpDigits_digits
#print axioms scanExpDigits_stops
#print axioms scanMant_literal
#print axioms scanExponent_literal
#print axioms parse10_correct
#print axioms parse10_zero
#print axioms parse10_overflow
#print axioms parse10_eq
#print axioms reject_empty
#print axioms reject_lone_sign
#print axioms reject_noMantDigits
#print axioms reject_point_only
#print axioms reject_exp_only
#print axioms reject_trailing_sep
#print axioms reject_double_sep
#print axioms reject_exp_noDigits
#print axioms reject_digits_e
#print axioms reject_expRange
#print axioms reject_trailing
#print axioms parse_total

end Decimal.C12
