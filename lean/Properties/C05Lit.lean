/-
  C05 (literal) — the Newton iteration and the two correction loops of `sqrtInverse`
  (decimal_sqrt.go), modelled statement by statement (`Decimal.sqrtLit`, DecimalModel/SqrtLit.lean),
  against the abstract model `Decimal.sqrt` (DecimalModel/Sqrt.lean), which takes the candidate
  `s` from `Nat.sqrt`.  Proofs: Proofs/SqrtLitBase.lean, SqrtLitLoops.lean, SqrtLitNeg.lean, SqrtLit.lean,
  SqrtLitTerm.lean, SqrtLitFinal.lean, SqrtLitNewton.lean.

  Vocabulary
    * `WorkX x`: `x` is the operand of `sqrtInverse`: finite, canonical mantissa, `x.neg = false`,
      `x.exp ∈ {−1, 0, 1}` (`0.01 ≤ x < 10`).
    * `Rep p1 s c e`: the Decimal `s` is finite, positive, canonical, of precision `p1`, mode ToZero,
      exponent `e`, and holds the `p1`-digit float `c × 10^(e − p1)` (`10^(p1−1) ≤ c < 10^p1`).
      `RepZ p1 s`: `s` is a zero of precision `p1`, mode ToZero, whose stale exponent gives a finite
      first `ulp` with `ulp² ≤ 0.01` (`s.exp = 0` for the zero that `Mul` leaves in a fresh Decimal).
      `Inv1 p1 s := RepZ p1 s ∨ ∃ c e, Rep p1 s c e` (any start of loop 1).
    * `fval p1 c e = c × 10^(e − p1)` (ℚ), `sqLE p1 x c e := fval² ≤ value of x` (“`s² ≤ x`”),
      `frank p1 c e = e·10^p1 + c` (the rank of a float: strictly monotone in its value).
    * `RootF p1 x c0 e0`: `(c0, e0)` is the `p1`-digit float with `s² ≤ x < (s+ulp)²`.
    * `DecEquiv a b`: equal states up to the number of low zero words of the mantissa (what the
      driver's `sameState` compares).  Strict equality of the two models is FALSE in general: when
      `s = x·t` is already the exact root the Go code keeps the (possibly shorter) word vector of
      the product, the abstract model always builds `⌈prec/19⌉` words; the values are equal.
    * `PosMant d`: a finite `d` has a non-zero mantissa.  `SeedOK p t0`: the seed is zero or positive
      finite with a normalised mantissa and `MinExp + p + 3 ≤ t0.exp ≤ MaxExp − 2`.
    * `NewtonGoodT t0 zw` (only for totality): every result `t` of the Newton loop gives an
      `s = x·t` that is not negative, not infinite and, if finite, has an `ulp` that does not underflow
      (`MinExp + p + 1 ≤ s.exp + 1`).  It follows from `t` being zero or positive finite with
      `MinExp + p + 3 ≤ t.exp ≤ MaxExp − 2` (`litS_of_t`).
    * `NRep p1 s c e`: like `Rep` for a negative `s`; `BadS p1 s`: `s` is `±∞` or negative finite.

  What is proved
    (a) `loops_partial_correct`: from ANY start (`Inv1`), if the two loops exit, `s` is the candidate
        of `sqrtCandidate`; decade crossings in both directions are covered.
    (b) `loop1_terminates`, `loop2_terminates`, `loop2_terminates_from_zero`: explicit fuel bounds
        `rank(s) − rank(root)` and `rank(root) − rank(s) + 1`.
    (c) `sqrtLit_equiv_sqrt`: whenever `sqrtLit` returns, it returns what `sqrt` returns (outcome equal,
        states `DecEquiv`), for every receiver, aliasing flag, fuel and EVERY seed `t0` (any value, any
        sign, any form) with `PosMant t0`, `t0.prec ≥ 2` — no hypothesis on the Newton loop: when its
        result makes `s = x·t` negative or infinite the correction loops never exit (`loops_never_exit`)
        and `sqrtLit` returns `none`;
        `sqrtLit_correct`: hence the correctly rounded root of the specification;
        `sqrtLit_total`: a fuel exists, under `NewtonGoodT`, `t0.prec ≥ 3`.
        `newton_never_panics`: the Newton loop never raises ErrNaN and leaves a canonical (or zero or
        infinite) `t`, whatever the seed.  `*_noNewton`: for `prec + 2 ≤ t0.prec` (Go: `prec ≤ 15`)
        the Newton hypotheses are discharged (`SeedOK`).
    (c') `newton_keeps_positive`: with a seed within ≈ 20 % of `1/√x` (`x·t0² ∈ [1/2, 3/2]`, precision
        ≥ 10) every Newton pass keeps `t` positive finite with `x·t² ∈ [1/2, 3/2]` (error analysis of the
        five roundings), hence `sqrtLit_goodSeed`: for such a seed a fuel exists and the result is the
        correctly rounded root — no hypothesis left on the Newton loop.
    For bad seeds totality is FALSE: with `x = 1`, `prec = 20`, seed `2` (`x·t0² = 4 > 3`) the Newton pass
    gives `t = −1`, `s` is negative and loop 1 never exits (`loops_never_exit`; `#eval` in the report).
    `PV d v`: `d` is positive finite canonical of value `v : ℚ`; `magVal d` is the value of `d`.
    Precision hypotheses: `2·prec + 4 ≤ MaxPrec` (above it `sq`'s precision `2·s.prec + 2` is clipped by
    `SetPrec` and `s²` would be rounded); totality needs `prec + 1 ≤ 2^30` (a zero `s` needs
    `ulp = 10^(1−2·s.prec)` not to underflow).
-/
import Proofs.SqrtLitFinal
import Proofs.SqrtLitNewton
import Properties.C05

namespace Decimal.C05Lit

open Decimal Spec

/-! ## (a) Partial correctness of the correction loops -/

/-- Whatever the starting `s` (zero or any positive `p1`-digit float, any decade), if loop 1 exits
    with `fuel f1` and loop 2 then exits with fuel `f2`, no operation panicked and `s` is the float
    with `s² ≤ x < (s+ulp)²`: the candidate of `sqrtCandidate`. -/
theorem loops_partial_correct : type_of% @Decimal.loops_partial_correct := @Decimal.loops_partial_correct

/-- The bracket determines the float (decades included). -/
theorem bracket_unique : type_of% @Decimal.bracket_unique := @Decimal.bracket_unique

/-- Loop 1 alone: exits with `s² ≤ x` (or the zero it started from). -/
theorem loop1_spec : type_of% @Decimal.corrLoop1_spec := @Decimal.corrLoop1_spec

/-- Loop 2 alone: exits with the bracket. -/
theorem loop2_spec : type_of% @Decimal.corrLoop2_spec := @Decimal.corrLoop2_spec

/-- One pass of loop 1: `s − ulp` is the predecessor float; below `10^(p1−1)` it is
    `(10^p1 − 10, e − 1)`: going down from `1.00` by `0.01` gives `0.990`. -/
theorem loop1_step : type_of% @Decimal.sub_ulp_rep := @Decimal.sub_ulp_rep

/-- One pass of loop 2: `s + ulp` is the successor float; `9.99 + 0.01 = 10.0`. -/
theorem loop2_step : type_of% @Decimal.add_ulp_rep := @Decimal.add_ulp_rep

/-! ## (b) Termination with explicit bounds -/

/-- Loop 1 from the float `(c, e)` exits within `rank(c, e) − rank(root)` passes (`c − c0` when
    `s` is in the decade of the root). -/
theorem loop1_terminates : type_of% @Decimal.corrLoop1_total := @Decimal.corrLoop1_total

/-- Loop 2 from the float `(c, e)` with `s² ≤ x` exits within `rank(root) − rank(c, e) + 1` passes,
    provided `ulp` does not underflow (`MinExp + p1 ≤ e + 1`). -/
theorem loop2_terminates : type_of% @Decimal.corrLoop2_total := @Decimal.corrLoop2_total

/-- Loop 2 from a zero: one more pass. -/
theorem loop2_terminates_from_zero : type_of% @Decimal.corrLoop2_total_zero := @Decimal.corrLoop2_total_zero

/-- More fuel does not change the result. -/
theorem loop1_fuel_mono : type_of% @Decimal.corrLoop1_mono := @Decimal.corrLoop1_mono
theorem loop2_fuel_mono : type_of% @Decimal.corrLoop2_mono := @Decimal.corrLoop2_mono

/-- The predecessor / successor steps move the rank by at least one. -/
theorem rank_pred : type_of% @Decimal.frank_pred := @Decimal.frank_pred
theorem rank_succ : type_of% @Decimal.frank_succ := @Decimal.frank_succ

/-! ## (c) The literal `Sqrt` -/

/-- The Newton loop never panics, and its `t` is zero, infinite, or finite with a non-zero
    mantissa — for every seed with `t0.prec ≥ 2` and every `prec ≤ 2^31 + 1`. -/
theorem newton_never_panics : type_of% @Decimal.newtonLoop_spec := @Decimal.newtonLoop_spec

/-- One Newton pass: no panic, canonical `t`, precision `2·t.prec − 2`. -/
theorem newton_step : type_of% @Decimal.newtonStep_spec := @Decimal.newtonStep_spec

/-- The Newton loop terminates within `prec − t.prec` passes when `t.prec ≥ 3`. -/
theorem newton_terminates : type_of% @Decimal.newtonLoop_total := @Decimal.newtonLoop_total

/-- `sqrtLit` against `sqrt`: same outcome, same state up to low zero words. -/
theorem sqrtLit_equiv_sqrt : type_of% @Decimal.sqrtLit_equiv_sqrt_main := @Decimal.sqrtLit_equiv_sqrt_main

/-- A fuel exists (and every larger one works). -/
theorem sqrtLit_total : type_of% @Decimal.sqrtLit_total_main := @Decimal.sqrtLit_total_main

/-- From a negative or infinite `s` the two loops never exit. -/
theorem loops_never_exit : type_of% @Decimal.loops_bad_none := @Decimal.loops_bad_none

/-- `s = x·t` is a zero, a positive float, or one of those states, whatever `t`. -/
theorem litS_class : type_of% @Decimal.litS_class := @Decimal.litS_class

/-- The Newton hypothesis of the totality theorem from the Newton result `t` itself. -/
theorem litS_of_t : type_of% @Decimal.litS_of_t := @Decimal.litS_of_t

/-- … and discharged when the seed is already precise enough. -/
theorem newtonGood_of_noIter : type_of% @Decimal.newtonGood_of_noIter := @Decimal.newtonGood_of_noIter

/-- The canonical operand hypotheses of `sqrt_correct` give the working operand. -/
theorem workX_of_canonical (z x : Dec) (hneg : x.neg = false) (hf : x.form = .finite) (hlen : 0 < x.len)
    (hnd : ndigits x.mant = x.len * 19) (hp : 1 ≤ (prologue z x.prec).prec) :
    WorkX (sqrtWorkOf z x false) ∧ (sqrtWorkOf z x false).prec = (prologue z x.prec).prec := by
  unfold sqrtWorkOf
  have hw := sqrtWork_eq (prologue z x.prec) x false
  simp only [opnd, Bool.false_eq_true, if_false] at hw ⊢
  rw [hw hf]
  obtain ⟨g1, -, -, -⟩ := Decimal.goMod2_goDiv2 x.exp
  exact ⟨⟨⟨hf, hlen, hnd, hp, by simp only [MinExp]; omega, by simp only [MaxExp]; omega⟩, hneg,
    by simp only; omega⟩, rfl⟩

/--
  For a canonical finite `x ≥ 0`, a receiver with effective precision `p ≥ 1` (`2p + 4 ≤ MaxPrec`,
  distinct variables), any seed and any fuel for which the literal model returns: it returns
  normally, the receiver holds the value `Spec.sqrtSV z.mode p x` (class, sign, exponent, digits),
  precision `p`, mode unchanged, accuracy `Exact` (as the abstract model: `sqrt_correct`).
-/
theorem sqrtLit_correct (fuel : Nat) (t0 z x : Dec) (p : Nat) (res : Dec × Outcome)
    (hpdef : p = if z.prec = 0 then x.prec else z.prec) (hp : 1 ≤ p) (hp2 : 2 * p + 4 ≤ MaxPrec)
    (hneg : x.neg = false) (hf : x.form = .finite) (hlen : 0 < x.len)
    (hnd : ndigits x.mant = x.len * 19) (hmin : MinExp ≤ x.exp) (hmax : x.exp ≤ MaxExp)
    (ht0 : PosMant t0) (ht0p : 2 ≤ t0.prec) (hres : sqrtLit fuel t0 z x = some res) :
    ∃ r, sqrtSV z.mode p (ofDec x) = some r ∧
      res.2 = .ok ∧ agreesValue res.1 r = true ∧
      res.1.prec = p ∧ res.1.mode = z.mode ∧ res.1.acc = Exact := by
  have hpp : (prologue z x.prec).prec = p := by rw [prologue_prec, hpdef]
  obtain ⟨r, h1, h2, h3, h4, h5, h6⟩ := C05.sqrt_correct z x p hpdef hp hneg hf hlen hnd hmin hmax
  obtain ⟨e1, e2⟩ := sqrtLit_equiv_sqrt fuel t0 z x false res
    (fun _ _ => by
      simp only [opnd, Bool.false_eq_true, if_false]
      exact ⟨hlen, hnd, hmin, hmax, by rw [hpp]; exact hp, by rw [hpp]; exact hp2⟩)
    ht0 ht0p hres
  have hv := agreesValue_of_equiv e2 h3
  obtain ⟨-, -, d3, d4, d5, -⟩ := e2
  exact ⟨r, h1, by rw [e1, h2], hv, by rw [d3, h4], by rw [d4, h5], by rw [d5, h6]⟩

/-- A fuel exists, without any hypothesis on the Newton loop, when the seed is already precise
    enough (`p + 2 ≤ t0.prec`; the Go seed has 17 digits, so this is `p ≤ 15`) — for EVERY seed value
    (`SeedOK`: zero, or positive finite with an exponent away from the range limits). -/
theorem sqrtLit_total_noNewton (t0 z x : Dec) (p : Nat)
    (hpdef : p = if z.prec = 0 then x.prec else z.prec) (hp : 1 ≤ p) (hp2 : p + 2 ≤ t0.prec)
    (hp3 : p + 1 ≤ 1073741824)
    (hneg : x.neg = false) (hf : x.form = .finite) (hlen : 0 < x.len)
    (hnd : ndigits x.mant = x.len * 19) (hmin : MinExp ≤ x.exp) (hmax : x.exp ≤ MaxExp)
    (hs : SeedOK p t0) :
    ∃ N, ∀ fuel, N ≤ fuel → ∃ res, sqrtLit fuel t0 z x = some res := by
  have hpp : (prologue z x.prec).prec = p := by rw [prologue_prec, hpdef]
  obtain ⟨hW, hWp⟩ := workX_of_canonical z x hneg hf hlen hnd (by rw [hpp]; exact hp)
  have g := newtonGood_of_noIter t0 (sqrtWorkOf z x false) p (by rw [hWp, hpp]) hW hp hp2 (by omega) hs
  exact sqrtLit_total t0 z x false
    (fun _ _ => by
      simp only [opnd, Bool.false_eq_true, if_false]
      exact ⟨hlen, hnd, hmin, hmax, by rw [hpp]; exact hp, by rw [hpp]; exact hp3, g⟩)
    hs.posMant (by omega)


/-! ## (c') The Newton loop with a reasonable seed -/

/-- One pass: no panic, `t` positive finite canonical, precision `2·t.prec − 2`, `x·t² ∈ [1/2, 3/2]`
    again. -/
theorem newton_step_positive : type_of% @Decimal.newtonStep_pos := @Decimal.newtonStep_pos

/-- The loop. -/
theorem newton_keeps_positive : type_of% @Decimal.newtonLoop_pos := @Decimal.newtonLoop_pos

/-- The Newton hypothesis of `sqrtLit_total` from the seed. -/
theorem newtonGoodT_of_seed : type_of% @Decimal.newtonGoodT_of_seed := @Decimal.newtonGoodT_of_seed

/-- Relative error of one rounded multiplication / of `3 − u`. -/
theorem mul_rel_err : type_of% @Decimal.mulK_pos_err := @Decimal.mulK_pos_err
theorem sub_three_rel_err : type_of% @Decimal.subK_three_err := @Decimal.subK_three_err

/--
  The literal `Sqrt` end to end: for a canonical finite `x ≥ 0`, an effective precision
  `1 ≤ p < 2^30`, and ANY positive finite canonical seed `t0` of precision ≥ 10 with
  `1/2 ≤ x'·t0² ≤ 3/2` (`x'` the working operand, `0.01 ≤ x' < 10`): there is a fuel from which on
  `sqrtLit` returns, and what it returns is the correctly rounded root.
-/
theorem sqrtLit_goodSeed (t0 z x : Dec) (p : Nat) (T0 : ℚ)
    (hpdef : p = if z.prec = 0 then x.prec else z.prec) (hp : 1 ≤ p) (hp3 : p + 1 ≤ 1073741824)
    (hneg : x.neg = false) (hf : x.form = .finite) (hlen : 0 < x.len)
    (hnd : ndigits x.mant = x.len * 19) (hmin : MinExp ≤ x.exp) (hmax : x.exp ≤ MaxExp)
    (ht0 : PV t0 T0) (ht0p : 10 ≤ t0.prec)
    (hs1 : 1 / 2 ≤ magVal (sqrtWorkOf z x false) * (T0 * T0))
    (hs2 : magVal (sqrtWorkOf z x false) * (T0 * T0) ≤ 3 / 2) :
    ∃ N, ∀ fuel, N ≤ fuel → ∃ res r, sqrtLit fuel t0 z x = some res ∧
      sqrtSV z.mode p (ofDec x) = some r ∧ res.2 = .ok ∧ agreesValue res.1 r = true ∧
      res.1.prec = p ∧ res.1.mode = z.mode ∧ res.1.acc = Exact := by
  have hpp : (prologue z x.prec).prec = p := by rw [prologue_prec, hpdef]
  have hMP : MaxPrec = 4294967295 := rfl
  obtain ⟨hW, hWp⟩ := workX_of_canonical z x hneg hf hlen hnd (by rw [hpp]; exact hp)
  have g := newtonGoodT_of_seed t0 (sqrtWorkOf z x false) p T0 (by rw [hWp, hpp]) hW hp hp3 ht0 ht0p hs1 hs2
  obtain ⟨N, hN⟩ := sqrtLit_total t0 z x false
    (fun _ _ => by
      simp only [opnd, Bool.false_eq_true, if_false]
      exact ⟨hlen, hnd, hmin, hmax, by rw [hpp]; exact hp, by rw [hpp]; exact hp3, g⟩)
    (fun _ => ht0.fin.mant_pos) (by omega)
  refine ⟨N, fun fuel hfuel => ?_⟩
  obtain ⟨res, hres⟩ := hN fuel hfuel
  obtain ⟨r, h⟩ := sqrtLit_correct fuel t0 z x p res hpdef hp (by omega) hneg hf hlen hnd hmin hmax
    (fun _ => ht0.fin.mant_pos) (by omega) hres
  exact ⟨res, r, hres, h⟩

/-- The value of the working operand: `x.mant × 10^(b mod 2 − 19·len)` (Go's truncating `%`). -/
theorem magVal_sqrtWorkOf (z x : Dec) (hf : x.form = .finite) :
    magVal (sqrtWorkOf z x false) = qval x.mant (goMod2 x.exp - ((x.len * 19 : Nat) : Int)) := by
  unfold sqrtWorkOf
  have hw := sqrtWork_eq (prologue z x.prec) x false
  simp only [opnd, Bool.false_eq_true, if_false] at hw ⊢
  rw [hw hf]
  rfl

/-! ## Non-vacuity -/

section Examples

private theorem nd19 (m : Nat) (h1 : 10 ^ 18 ≤ m) (h2 : m < 10 ^ 19) : ndigits m = 1 * 19 :=
  ndigits_unique h1 h2 (by omega)

/-- `x = 2` (working operand: `0.2 × 10^1`). -/
private def x2 : Dec := { form := .finite, mant := 2000000000000000000, len := 1, exp := 1, prec := 5 }

/-- The seed `0.70710678118654752` (17 digits). -/
private def seed2 : Dec :=
  { form := .finite, mant := 7071067811865475200, len := 1, exp := 0, prec := 17 }

private theorem workX_x2 : WorkX x2 :=
  ⟨⟨rfl, by decide, nd19 _ (by decide) (by decide), by decide, by decide, by decide⟩, rfl, Or.inr (Or.inr rfl)⟩

private theorem seedOK_seed2 : SeedOK 5 seed2 :=
  ⟨rfl, by decide, fun _ => by decide, fun _ => nd19 _ (by decide) (by decide), fun _ => by decide⟩

-- (a) the float `1.41421` (`c = 141421`, `e = 1`, 6 digits) is a legitimate start of loop 1.
example : ∃ s : Dec, Rep 6 s 141421 1 := by
  refine ⟨{ form := .finite, mant := 1414210000000000000, len := 1, exp := 1, prec := 6, mode := .ToZero }, ?_⟩
  refine ⟨⟨rfl, by decide, nd19 _ (by decide) (by decide), by decide, by decide, by decide⟩, rfl, rfl, rfl, rfl, ?_,
    by decide, by decide⟩
  unfold magVal
  rw [qval_eq_iff]
  decide

-- (a)/(b) the root float of `x = 2` at 6 digits exists (it is `1.41421`).
example : RootF 6 x2 (sqrtCandidate x2.mant x2.len x2.exp 6).1 (sqrtCandidate x2.mant x2.len x2.exp 6).2.1 :=
  rootF_candidate workX_x2 (by decide)

-- (c) `√2` to 5 digits with the 17-digit seed, any mode, any fuel: correctly rounded.
example (mode : Mode) (fuel : Nat) (res : Dec × Outcome)
    (h : sqrtLit fuel seed2 { mode := mode } x2 = some res) :
    ∃ r, sqrtSV mode 5 (ofDec x2) = some r ∧ res.2 = .ok ∧ agreesValue res.1 r = true ∧
      res.1.prec = 5 ∧ res.1.mode = mode ∧ res.1.acc = Exact :=
  sqrtLit_correct fuel seed2 { mode := mode } x2 5 res rfl (by decide) (by decide) rfl rfl
    (by decide) (nd19 _ (by decide) (by decide)) (by decide) (by decide) seedOK_seed2.posMant (by decide) h

-- (c) … and some fuel suffices.
example (mode : Mode) : ∃ N, ∀ fuel, N ≤ fuel → ∃ res, sqrtLit fuel seed2 { mode := mode } x2 = some res :=
  sqrtLit_total_noNewton seed2 { mode := mode } x2 5 rfl (by decide) (by decide) (by decide) rfl rfl
    (by decide) (nd19 _ (by decide) (by decide)) (by decide) (by decide) seedOK_seed2

-- (c') `√2` to 20 digits (one Newton pass) with the 17-digit seed: a fuel exists and the result is
-- the correctly rounded root.
private theorem pv_seed2 : PV seed2 (qval 7071067811865475200 (-19)) :=
  ⟨⟨rfl, by decide, nd19 _ (by decide) (by decide), by decide, by decide, by decide⟩, rfl, rfl⟩

example (mode : Mode) :
    ∃ N, ∀ fuel, N ≤ fuel → ∃ res r, sqrtLit fuel seed2 { mode := mode, prec := 20 } x2 = some res ∧
      sqrtSV mode 20 (ofDec x2) = some r ∧ res.2 = .ok ∧ agreesValue res.1 r = true ∧
      res.1.prec = 20 ∧ res.1.mode = mode ∧ res.1.acc = Exact := by
  have hX : magVal (sqrtWorkOf { mode := mode, prec := 20 } x2 false) = 2 := by
    rw [magVal_sqrtWorkOf _ _ rfl]
    have : goMod2 x2.exp = 1 := by decide
    rw [this]
    simp only [qval, x2]
    norm_num
  have hT : qval 7071067811865475200 (-19) = 7071067811865475200 / 10 ^ 19 := by
    simp only [qval]; norm_num
  refine sqrtLit_goodSeed seed2 { mode := mode, prec := 20 } x2 20 _ rfl (by decide) (by decide) rfl rfl
    (by decide) (nd19 _ (by decide) (by decide)) (by decide) (by decide) pv_seed2 (by decide) ?_ ?_
  · rw [hX, hT]; norm_num
  · rw [hX, hT]; norm_num

end Examples

#print axioms loops_partial_correct
#print axioms bracket_unique
#print axioms loop1_spec
#print axioms loop2_spec
#print axioms loop1_step
#print axioms loop2_step
#print axioms loop1_terminates
#print axioms loop2_terminates
#print axioms loop2_terminates_from_zero
#print axioms loop1_fuel_mono
#print axioms loop2_fuel_mono
#print axioms rank_pred
#print axioms rank_succ
#print axioms newton_never_panics
#print axioms newton_step
#print axioms newton_terminates
#print axioms sqrtLit_equiv_sqrt
#print axioms sqrtLit_total
#print axioms loops_never_exit
#print axioms litS_class
#print axioms litS_of_t
#print axioms newtonGood_of_noIter
#print axioms workX_of_canonical
#print axioms sqrtLit_correct
#print axioms sqrtLit_total_noNewton
#print axioms newton_step_positive
#print axioms newton_keeps_positive
#print axioms newtonGoodT_of_seed
#print axioms mul_rel_err
#print axioms sub_three_rel_err
#print axioms sqrtLit_goodSeed
#print axioms magVal_sqrtWorkOf

end Decimal.C05Lit
