/-
  C14 — integer conversions (L1 model): `Int`, `Int64`, `Uint64`, `IsInt`, `MinPrec` read a
  canonical value as the documentation says, and `SetInt64` / `SetUint64` / `NewDecimal` / `SetInt`
  store the integer rounded once (exactly, when the precision is chosen by the setter).

  Final statements only; the proofs are in `Proofs/Conv.lean` (and `Proofs/TrailingZeros.lean`).

  Vocabulary
  * `x.Canonical` (`DecimalModel/Program.lean`): `prec ≤ MaxPrec`, `acc ∈ {-1,0,1}` and, for a
    finite `x`: `1 ≤ len`, `ndigits mant = 19·len`, `MinExp ≤ exp ≤ MaxExp`, `1 ≤ prec`, the digits
    beyond `prec` are zero.  The value of a finite `x` is `(-1)^neg × mant × 10^(exp − 19·len)`.
  * `truncNat x : Nat` (`Proofs/Conv.lean`) is `0` when `x.exp ≤ 0` (then `|x| < 1`) and `intMant x`
    otherwise, i.e. `mant × 10^(exp−19·len)` or `mant / 10^(19·len−exp)`: it is `⌊|x|⌋`
    (`truncNat_floor` below, over `Rat`).  `truncInt x = ± truncNat x` (sign of `x`).
  * `intAcc x = if isInt x then Exact else makeAcc x.neg` (`makeAcc true = Above`,
    `makeAcc false = Below`).

  All statements were evaluated with `#eval` on grids of concrete values before being proved
  (sizes are recorded in `Proofs/Conv.lean`); no counterexample was found, so they are proved as
  requested.
-/
import Proofs.Conv
import Properties.RoundCore

namespace Decimal.C14

open Decimal Spec

/-! ## Reading: `intMant`, `MinPrec`, `IsInt` -/

/-- `x.intMant()` for `0 < x.exp`: the mantissa scaled to the units digit, which is `⌊|x|⌋`
    and has exactly `x.exp` digits. -/
theorem intMant_spec (x : Dec) (hc : x.Canonical) (hf : x.form = .finite) (he : 0 < x.exp) :
    intMant x =
        (if ((x.len * 19 : Nat) : Int) ≤ x.exp then x.mant * 10 ^ (x.exp - (x.len * 19 : Nat)).toNat
         else x.mant / 10 ^ ((x.len * 19 : Nat) - x.exp).toNat) ∧
      ((x.mant : ℚ) * pow10Rat (x.exp - (x.len * 19 : Nat))).floor = (intMant x : Int) ∧
      ndigits (intMant x) = x.exp.toNat := by
  refine ⟨?_, ?_, ndigits_intMant hc hf he⟩
  · split
    · rename_i h; exact intMant_of_le x h
    · rename_i h; exact intMant_of_lt x (by omega)
  · have := truncNat_eq_floor hc hf
    rwa [truncNat_finite x hf, if_neg (by omega)] at this

/-- `MinPrec` = number of mantissa digits minus the number of trailing decimal zeros
    (`trailingZeros M` is the exponent of the largest power of ten dividing `M`). -/
theorem minPrec_spec (x : Dec) (hc : x.Canonical) (hf : x.form = .finite) :
    minPrec x = x.len * 19 - trailingZeros x.mant ∧
      10 ^ trailingZeros x.mant ∣ x.mant ∧ ¬ 10 ^ (trailingZeros x.mant + 1) ∣ x.mant ∧
      1 ≤ minPrec x ∧ minPrec x ≤ x.prec := by
  refine ⟨minPrec_finite x hf, pow_trailingZeros_dvd_e _, ?_, minPrec_pos hc hf, minPrec_le_prec hc hf⟩
  rw [pow_dvd_iff_le_trailingZeros (canonical_mant_pos hc hf)]
  omega

/-- Equivalently: `MinPrec` is the least precision that holds the mantissa exactly. -/
theorem minPrec_le_iff (x : Dec) (hc : x.Canonical) (hf : x.form = .finite) (p : Nat) :
    minPrec x ≤ p ↔ x.mant % 10 ^ (x.len * 19 - p) = 0 :=
  Decimal.minPrec_le_iff x hf (canonical_mant_pos hc hf) p

theorem minPrec_special (x : Dec) (hf : x.form ≠ .finite) : minPrec x = 0 := by
  simp [minPrec, hf]

/-- `IsInt` ⇔ the exact value `mant × 10^(exp − 19·len)` is an integer. -/
theorem isInt_iff (x : Dec) (hc : x.Canonical) (hf : x.form = .finite) :
    isInt x = true ↔
      (if x.exp ≤ 0 then False
       else if ((x.len * 19 : Nat) : Int) ≤ x.exp then True
       else x.mant % 10 ^ ((x.len * 19 : Nat) - x.exp).toNat = 0) := by
  rw [Decimal.isInt_iff hc hf]
  by_cases h0 : x.exp ≤ 0
  · simp only [h0, if_true, iff_false, not_and]
    intro h; omega
  · by_cases h1 : ((x.len * 19 : Nat) : Int) ≤ x.exp
    · have : (((x.len * 19 : Nat) : Int) - x.exp).toNat = 0 := by omega
      simp only [h0, h1, if_true, if_false, this, Nat.pow_zero, Nat.mod_one, and_true, iff_true]
      omega
    · simp only [h0, h1, if_false, and_iff_right_iff_imp]
      intro _; omega

/-- The same over `Rat`: `IsInt` ⇔ the truncation equals the value. -/
theorem isInt_iff_value (x : Dec) (hc : x.Canonical) (hf : x.form = .finite) :
    isInt x = true ↔ (truncNat x : ℚ) = (x.mant : ℚ) * pow10Rat (x.exp - (x.len * 19 : Nat)) :=
  isInt_iff_exact hc hf

theorem isInt_zero (x : Dec) (hf : x.form = .zero) : isInt x = true := Decimal.isInt_zero hf
theorem isInt_inf (x : Dec) (hf : x.form = .inf) : isInt x = false := Decimal.isInt_inf hf

/-- `truncNat x = ⌊|x|⌋` over `Rat`, for every canonical finite `x` (also when `x.exp ≤ 0`). -/
theorem truncNat_floor (x : Dec) (hc : x.Canonical) (hf : x.form = .finite) :
    ((x.mant : ℚ) * pow10Rat (x.exp - (x.len * 19 : Nat))).floor = (truncNat x : Int) :=
  truncNat_eq_floor hc hf

/-! ## `Int`, `Int64`, `Uint64` -/

/-- `x.Int(nil)`: truncation toward zero; Exact iff `x.IsInt()`, else Below for `x > 0` and
    Above for `x < 0`. -/
theorem toInt_trunc (x : Dec) (hc : x.Canonical) (hf : x.form ≠ .inf) :
    toInt x = (some (truncInt x), intAcc x) := by
  cases hx : x.form
  · rw [toInt_zero x hx]
    simp [truncInt, intAcc, truncNat_zero x hx, Decimal.isInt_zero hx]
  · exact toInt_finite hc hx
  · exact absurd hx hf

theorem toInt_inf (x : Dec) (hf : x.form = .inf) : toInt x = (none, makeAcc x.neg) :=
  Decimal.toInt_inf x hf

/-- Accuracy of `Int`: `Exact` exactly for integers. -/
theorem toInt_acc_exact_iff (x : Dec) (hc : x.Canonical) (hf : x.form ≠ .inf) :
    (toInt x).2 = Exact ↔ isInt x = true := by
  rw [toInt_trunc x hc hf]
  unfold intAcc
  cases isInt x <;> cases x.neg <;> simp [makeAcc, Exact, Above, Below]

/-- `x.Int64()`: the truncation when it fits `int64`, otherwise `(MinInt64, Above)` for a
    negative and `(MaxInt64, Below)` for a positive `x`. -/
theorem toInt64_sat (x : Dec) (hc : x.Canonical) (hf : x.form ≠ .inf) :
    toInt64 x =
      if -9223372036854775808 ≤ truncInt x ∧ truncInt x ≤ 9223372036854775807 then
        (truncInt x, intAcc x)
      else if x.neg then (-9223372036854775808, Above) else (9223372036854775807, Below) := by
  cases hx : x.form
  · simp [toInt64, hx, truncInt, intAcc, truncNat_zero x hx, Decimal.isInt_zero hx]
  · exact toInt64_finite hc hx
  · exact absurd hx hf

theorem toInt64_inf (x : Dec) (hf : x.form = .inf) :
    toInt64 x = if x.neg then (-9223372036854775808, Above) else (9223372036854775807, Below) := by
  simp [toInt64, hf]

/-- `x.Uint64()`: `(0, Above)` for a negative finite `x`; the truncation when it fits `uint64`;
    `(MaxUint64, Below)` above. -/
theorem toUint64_sat (x : Dec) (hc : x.Canonical) (hf : x.form = .finite) :
    toUint64 x =
      if x.neg then (0, Above)
      else if truncNat x ≤ 18446744073709551615 then (truncNat x, intAcc x)
      else (18446744073709551615, Below) :=
  toUint64_finite hc hf

theorem toUint64_zero (x : Dec) (hf : x.form = .zero) : toUint64 x = (0, Exact) := by
  simp [toUint64, hf]

theorem toUint64_inf (x : Dec) (hf : x.form = .inf) :
    toUint64 x = if x.neg then (0, Above) else (18446744073709551615, Below) := by
  simp [toUint64, hf]

/-- Link with the executable specification: `Int` returns `Spec.truncSV` of the exact value. -/
theorem toInt_truncSV (x : Dec) (hc : x.Canonical) :
    match truncSV (ofDec x) with
    | none => toInt x = (none, makeAcc x.neg)
    | some (n, f, exact) =>
      toInt x = (some (if n then -(f : Int) else f), if exact then Exact else makeAcc n) := by
  cases hx : x.form
  · rw [truncSV_ofDec_zero hx]
    simp [toInt_zero x hx]
  · rw [truncSV_ofDec_finite hc hx]
    exact toInt_finite hc hx
  · rw [truncSV_ofDec_inf hx]
    exact Decimal.toInt_inf x hx

theorem truncSV_ofDec (x : Dec) (hc : x.Canonical) (hf : x.form = .finite) :
    truncSV (ofDec x) = some (x.neg, truncNat x, isInt x) :=
  truncSV_ofDec_finite hc hf

/-! ## Setters -/

/-- `z.setBits64(neg, v, e)` (the body of `SetInt64`, `SetUint64` with `e = 0`, and of
    `NewDecimal(x, e)`) for `v ≠ 0`: the value `±v × 10^e` rounded once to the receiver's precision
    (34 if it was 0) under the receiver's mode. -/
theorem setBits64_correct (z : Dec) (neg : Bool) (v : Nat) (e : Int) (hv : 0 < v) :
    let p := if z.prec = 0 then 34 else z.prec
    let z' := setBits64 z neg v e
    agrees z' (Spec.round z.mode p neg (v : ℚ) e) = true ∧ z'.prec = p ∧ z'.mode = z.mode ∧ z'.neg = neg :=
  setBits64_pos z neg v e hv

theorem setBits64_zero (z : Dec) (neg : Bool) (e : Int) :
    let p := if z.prec = 0 then 34 else z.prec
    let z' := setBits64 z neg 0 e
    agrees z' (zeroRes neg) = true ∧ z'.prec = p ∧ z'.mode = z.mode :=
  Decimal.setBits64_zero z neg e

/-- `NewDecimal(x, e)`, `x ≠ 0`: `x × 10^e` rounded to 34 digits, to nearest even. -/
theorem newDecimal_correct (x : Int) (e : Int) (hx : x ≠ 0) :
    let z' := newDecimal x e
    agrees z' (Spec.round .ToNearestEven 34 (decide (x < 0)) (x.natAbs : ℚ) e) = true ∧
      z'.prec = 34 ∧ z'.mode = .ToNearestEven := by
  have h := setBits64_pos {} (decide (x < 0)) x.natAbs e (Int.natAbs_pos.mpr hx)
  exact ⟨h.1, h.2.1, h.2.2.1⟩

/-- `z.SetInt(x)`, `x ≠ 0`: `x` rounded once to the receiver's precision, or to
    `max(ndigits |x|, 34)` digits (capped at `MaxPrec`) when that precision is 0. -/
theorem setInt_correct (z : Dec) (x : Int) (hx : x ≠ 0) :
    let p := if z.prec = 0 then max (min (ndigits x.natAbs) MaxPrec) 34 else z.prec
    let z' := setInt z x
    agrees z' (Spec.round z.mode p (decide (x < 0)) (x.natAbs : ℚ) 0) = true ∧
      z'.prec = p ∧ z'.mode = z.mode ∧ z'.neg = decide (x < 0) :=
  setInt_nonzero z x hx

/-- With precision 0 the value is stored exactly: `0.mant × 10^exp = |x|`, accuracy `Exact`.
    (`ndigits |x| ≤ MaxExp`: otherwise `x` is out of the exponent range and becomes an infinity.) -/
theorem setInt_exact (z : Dec) (x : Int) (hx : x ≠ 0) (hp : z.prec = 0)
    (hnd : (ndigits x.natAbs : Int) ≤ MaxExp) :
    let z' := setInt z x
    z'.prec = max (ndigits x.natAbs) 34 ∧ z'.form = .finite ∧ z'.acc = Exact ∧
      z'.neg = decide (x < 0) ∧ z'.exp = ndigits x.natAbs ∧
      z'.mant * 10 ^ ndigits x.natAbs = x.natAbs * 10 ^ (z'.len * 19) :=
  Decimal.setInt_exact z x hx hp hnd

theorem setInt_zero (z : Dec) :
    let z' := setInt z 0
    agrees z' (zeroRes false) = true ∧ z'.prec = (if z.prec = 0 then 34 else z.prec) ∧ z'.mode = z.mode :=
  Decimal.setInt_zero z

/-! ## Non-vacuity -/

/-- `−123.45` with precision 5: `mant = 1234500000000000000`, one word, `exp = 3`. -/
def ex1 : Dec :=
  { form := .finite, neg := true, mant := 1234500000000000000, len := 1, exp := 3, prec := 5 }

theorem ex1_canonical : ex1.Canonical := by
  refine ⟨by decide, Or.inr (Or.inl rfl), fun _ => ⟨by decide, ?_, by decide, by decide, by decide, ?_⟩⟩
  · exact ndigits_unique (by norm_num [ex1, DW]) (by norm_num [ex1, DW]) (by norm_num [ex1])
  · right; norm_num [ex1, DW]

/-- `12 × 10^19` (an integer beyond `uint64`) with precision 2. -/
def ex2 : Dec :=
  { form := .finite, neg := false, mant := 1200000000000000000, len := 1, exp := 21, prec := 2 }

theorem ex2_canonical : ex2.Canonical := by
  refine ⟨by decide, Or.inr (Or.inl rfl), fun _ => ⟨by decide, ?_, by decide, by decide, by decide, ?_⟩⟩
  · exact ndigits_unique (by norm_num [ex2, DW]) (by norm_num [ex2, DW]) (by norm_num [ex2])
  · right; norm_num [ex2, DW]

theorem ex1_intMant : intMant ex1 = 123 := by
  rw [(intMant_spec ex1 ex1_canonical rfl (by decide)).1]; decide

theorem ex2_intMant : intMant ex2 = 120000000000000000000 := by
  rw [(intMant_spec ex2 ex2_canonical rfl (by decide)).1]; decide

theorem ex1_isInt : isInt ex1 = false := by
  rw [← Bool.not_eq_true, isInt_iff ex1 ex1_canonical rfl]; decide

theorem ex2_isInt : isInt ex2 = true := by
  rw [isInt_iff ex2 ex2_canonical rfl]; decide

example : intMant ex1 = 123 ∧ ndigits (intMant ex1) = 3 :=
  ⟨ex1_intMant, (intMant_spec ex1 ex1_canonical rfl (by decide)).2.2⟩

example : minPrec ex1 ≤ 5 ∧ ¬ minPrec ex1 ≤ 4 := by
  rw [minPrec_le_iff ex1 ex1_canonical rfl, minPrec_le_iff ex1 ex1_canonical rfl]
  decide

theorem ex1_truncNat : truncNat ex1 = 123 := by
  rw [truncNat_finite ex1 rfl, ex1_intMant]; rfl

theorem ex2_truncNat : truncNat ex2 = 120000000000000000000 := by
  rw [truncNat_finite ex2 rfl, ex2_intMant]; rfl

/-- `Int(−123.45) = (−123, Above)`. -/
example : toInt ex1 = (some (-123), Above) := by
  rw [toInt_trunc ex1 ex1_canonical (by decide)]
  unfold truncInt intAcc
  rw [ex1_truncNat, ex1_isInt]; rfl

/-- `Int64(−123.45) = (−123, Above)`; `Uint64(−123.45) = (0, Above)`;
    `Int64(12·10^19) = (MaxInt64, Below)`, `Uint64(12·10^19) = (MaxUint64, Below)`. -/
example : toInt64 ex1 = (-123, Above) ∧ toUint64 ex1 = (0, Above) ∧
    toInt64 ex2 = (9223372036854775807, Below) ∧ toUint64 ex2 = (18446744073709551615, Below) := by
  refine ⟨?_, ?_, ?_, ?_⟩
  · rw [toInt64_sat ex1 ex1_canonical (by decide)]
    unfold truncInt intAcc
    rw [ex1_truncNat, ex1_isInt]; rfl
  · rw [toUint64_sat ex1 ex1_canonical rfl]; rfl
  · rw [toInt64_sat ex2 ex2_canonical (by decide)]
    unfold truncInt
    rw [ex2_truncNat]; rfl
  · rw [toUint64_sat ex2 ex2_canonical rfl, ex2_truncNat]; rfl

example : truncSV (ofDec ex1) = some (true, 123, false) := by
  rw [truncSV_ofDec ex1 ex1_canonical rfl, ex1_truncNat, ex1_isInt]; rfl

/-- `SetInt64(-1234565)` on a receiver of precision 6, mode ToNearestEven. -/
example :
    let z : Dec := { prec := 6 }
    agrees (setBits64 z true 1234565 0) (Spec.round .ToNearestEven 6 true (1234565 : ℚ) 0) = true :=
  (setBits64_correct { prec := 6 } true 1234565 0 (by norm_num)).1

/-- `new(Decimal).SetInt(-1234565)`: precision 34, stored exactly. -/
example : (setInt {} (-1234565)).prec = 34 ∧ (setInt {} (-1234565)).acc = Exact ∧
    (setInt {} (-1234565)).neg = true := by
  have hnd : ndigits 1234565 = 7 := ndigits_unique (by norm_num) (by norm_num) (by norm_num)
  have h := setInt_exact {} (-1234565) (by norm_num) rfl
    (by show ((ndigits 1234565 : Nat) : Int) ≤ MaxExp; rw [hnd]; decide)
  refine ⟨?_, h.2.2.1, ?_⟩
  · have := h.1
    rw [show (-1234565 : Int).natAbs = 1234565 from rfl, hnd] at this
    exact this
  · exact h.2.2.2.1

#print axioms intMant_spec
#print axioms minPrec_spec
#print axioms minPrec_le_iff
#print axioms isInt_iff
#print axioms isInt_iff_value
#print axioms truncNat_floor
#print axioms toInt_trunc
#print axioms toInt_acc_exact_iff
#print axioms toInt64_sat
#print axioms toUint64_sat
#print axioms toInt_truncSV
#print axioms truncSV_ofDec
#print axioms setBits64_correct
#print axioms setBits64_zero
#print axioms newDecimal_correct
#print axioms setInt_correct
#print axioms setInt_exact
#print axioms setInt_zero

end Decimal.C14
