/-
  C-core: the L1 model of the common rounding tail (`setNormAndRound` = `norm`, `dnorm`,
  `setExpAndRound`, `round`) returns the exact magnitude rounded once.

  Final statements only; the proofs are in `Proofs/Round.lean` (model = integer specification
  `Spec.roundInt`) and `Proofs/RoundSpec.lean` (`Spec.roundInt` = rational specification
  `Spec.round`).
-/
import Proofs.Round
import Proofs.RoundSpec
import Mathlib.Tactic.NormNum

namespace Decimal

/--
  Let the exact magnitude be `q × 10^e` with `q = M` (when `sb = false`) or `M < q < M + 1`
  (when `sb = true`, in which case `M` carries at least one digit more than the precision).
  Then `setNormAndRound z M e sb` holds exactly `Spec.round z.mode z.prec z.neg q e`:
  the same form (zero / finite / infinite), sign, accuracy, exponent and coefficient; precision,
  mode and sign of `z` are unchanged.
-/
theorem round_correct (z : Dec) (M : Nat) (e : Int) (sb : Bool) (q : Rat)
    (hM : 0 < M) (hp : 1 ≤ z.prec) (hsb : sb = true → z.prec + 1 ≤ ndigits M)
    (hq : if sb then (M : Rat) < q ∧ q < (M : Rat) + 1 else q = (M : Rat)) :
    let z' := setNormAndRound z M e sb
    Spec.agrees z' (Spec.round z.mode z.prec z.neg q e) = true
      ∧ z'.prec = z.prec ∧ z'.mode = z.mode ∧ z'.neg = z.neg := by
  have h := setNormAndRound_eq_roundInt z M e sb hM hp hsb
  rw [roundInt_eq_round z.mode z.prec z.neg M e sb q hM hp hsb hq] at h
  exact h

/-- The two halves, re-exported. -/
theorem model_eq_roundInt (z : Dec) (M : Nat) (e : Int) (sb : Bool)
    (hM : 0 < M) (hp : 1 ≤ z.prec) (hsb : sb = true → z.prec + 1 ≤ ndigits M) :
    let z' := setNormAndRound z M e sb
    Spec.agrees z' (Spec.roundInt z.mode z.prec z.neg M e sb) = true
      ∧ z'.prec = z.prec ∧ z'.mode = z.mode ∧ z'.neg = z.neg :=
  setNormAndRound_eq_roundInt z M e sb hM hp hsb

theorem roundInt_eq_spec (mode : Mode) (p : Nat) (neg : Bool) (N : Nat) (k : Int) (sb : Bool) (q : Rat)
    (hN : 0 < N) (hp : 1 ≤ p) (hsb : sb = true → p + 1 ≤ ndigits N)
    (hq : if sb then (N : Rat) < q ∧ q < (N : Rat) + 1 else q = (N : Rat)) :
    Spec.roundInt mode p neg N k sb = Spec.round mode p neg q k :=
  roundInt_eq_round mode p neg N k sb q hN hp hsb hq

/--
  Non-vacuity: a 7-digit quotient `1234565` with a non-zero remainder (`q = 1234565 + 1/3`),
  rounded to 6 digits to nearest-even at scale `10^-3`, negative sign: all hypotheses hold.
-/
example :
    let z : Dec := { prec := 6, mode := .ToNearestEven, neg := true }
    let z' := setNormAndRound z 1234565 (-3) true
    Spec.agrees z' (Spec.round .ToNearestEven 6 true ((1234565 : Rat) + 1 / 3) (-3)) = true
      ∧ z'.prec = 6 ∧ z'.mode = .ToNearestEven ∧ z'.neg = true := by
  have hnd : ndigits 1234565 = 7 := ndigits_unique (by norm_num) (by norm_num) (by norm_num)
  exact round_correct { prec := 6, mode := .ToNearestEven, neg := true } 1234565 (-3) true
    ((1234565 : Rat) + 1 / 3) (by norm_num) (by norm_num) (by intro _; rw [hnd])
    (by norm_num)

#print axioms round_correct
#print axioms model_eq_roundInt
#print axioms roundInt_eq_spec

end Decimal
