/-
  C17 — Gob serialisation (`decimal_marsh.go`, model `DecimalModel/Gob.lean`).

  (a) `gob_roundtrip` / `gob_roundtrip_eq` / `gob_roundtrip_words` / `gob_roundtrip_exact`:
      for a canonical `x` (`Dec.Canonical`, DecimalModel/Program.lean) decoding `gobEncode x` into
      a fresh receiver succeeds and returns `decoded x`: all attributes (form, sign, precision,
      mode, accuracy), and for a finite `x` the exponent and the mantissa value.  Only the top
      `min len ⌈prec/19⌉` mantissa words travel; the dropped low words are zero for a canonical
      value, so `x'.mant · B^(len − len') = x.mant` exactly.
  (b) `gob_decode_safe`: on a fresh receiver every ACCEPTED byte string yields a canonical value
      (`gob_decode_empty`: the empty string yields the zero value).  The entries must be bytes:
      the model's buffers are `List Nat`, and `[1, 0, 256, 0, 0, 0]` is accepted with
      `prec = 2^32 > MaxPrec` (see the `example` at the end).  The case `z.prec ≠ 0` (the result
      is additionally rounded by `setPrec`) is not covered here.
  (c) `gob_decode_total`: `gobDecode` is a total function into `Option Dec`.
  (d) concrete instances at the end (`x0`), `#print axioms` for every theorem.

  Building blocks: Proofs/GobRT.lean (namespace `Decimal.GobRT`).
-/
import Proofs.GobRT
import DecimalModel.Program
import Mathlib.Tactic.NormNum

namespace Decimal.C17

open Decimal Decimal.GobRT

/-! ## shape of the encoder output -/

/-- number of mantissa words transmitted by `gobEncode` -/
def sentWords (x : Dec) : Nat := min x.len ((x.prec + 18) / 19)

theorem gobEncode_nonfinite (x : Dec) (h : x.form ≠ .finite) :
    gobEncode x = 1 :: gobAttr x.mode x.acc x.form x.neg :: be32 x.prec := by
  have hb : (x.form == Form.finite) = false := by simpa using h
  unfold gobEncode
  simp only [hb, Bool.false_eq_true, if_false]
  rfl

theorem gobEncode_finite (x : Dec) (h : x.form = .finite) :
    gobEncode x = 1 :: gobAttr x.mode x.acc x.form x.neg ::
      (be32 x.prec ++ (be32 (x.exp % 4294967296).toNat ++
        ((((wordsOfLen x.mant x.len).drop (x.len - sentWords x)).reverse.map be64).flatten))) := by
  have hb : (x.form == Form.finite) = true := by simp [h]
  have hn : (if x.len < (x.prec + (DW - 1)) / DW then x.len else (x.prec + (DW - 1)) / DW) = sentWords x := by
    show (if x.len < (x.prec + 18) / 19 then x.len else (x.prec + 18) / 19) = min x.len ((x.prec + 18) / 19)
    split <;> omega
  unfold gobEncode
  simp only [hb, if_true, hn]
  simp [gobAttr]

/-! ## (a) round trip -/

theorem buf_facts (b p e : Nat) (R : List Nat) :
    (1 :: b :: (be32 p ++ (be32 e ++ R))).headD 0 = 1 ∧
    (1 :: b :: (be32 p ++ (be32 e ++ R))).getD 1 0 = b ∧
    ((1 :: b :: (be32 p ++ (be32 e ++ R))).drop 2).take 4 = be32 p ∧
    ((1 :: b :: (be32 p ++ (be32 e ++ R))).drop 6).take 4 = be32 e ∧
    (1 :: b :: (be32 p ++ (be32 e ++ R))).drop 10 = R ∧
    10 ≤ (1 :: b :: (be32 p ++ (be32 e ++ R))).length := by
  refine ⟨rfl, rfl, rfl, rfl, rfl, ?_⟩
  simp [be32]

/-- The value `gobDecode {}` returns on `gobEncode x`: `x` itself, except that for a finite `x` only
    the top `sentWords x` words are transmitted (the dropped low words are zero), and for a
    non-finite `x` the (unobservable) mantissa/exponent fields are not transmitted at all. -/
def decoded (x : Dec) : Dec :=
  if x.form = .finite then
    { x with mant := x.mant / B ^ (x.len - sentWords x), len := sentWords x }
  else { x with mant := 0, len := 0, exp := 0 }

theorem gob_roundtrip_eq (x : Dec) (hc : x.Canonical) :
    gobDecode {} (gobEncode x) = some (decoded x) := by
  obtain ⟨hprec, hacc, hfin⟩ := hc
  have hp32 : x.prec < 2 ^ 32 := by unfold MaxPrec at hprec; omega
  have haccle : ((gobAttr x.mode x.acc x.form x.neg / 8 % 4 : Nat) : Int) - 1 ≤ 1 := by
    rw [gobAttr_acc _ _ _ _ hacc]
    rcases hacc with h | h | h <;> rw [h] <;> decide
  by_cases hf : x.form = .finite
  · obtain ⟨hl, hd, hemin, hemax, hp1, hcl⟩ := hfin hf
    have hd' : ndigits x.mant = x.len * 19 := hd
    have hcl' : x.len * 19 ≤ x.prec ∨ x.mant % 10 ^ (x.len * 19 - x.prec) = 0 := hcl
    obtain ⟨hn1, hn2, hdrop, hlast, hnat, hmul, htz⟩ :=
      gob_payload x.mant x.len x.prec (sentWords x) hl hd' hp1 hcl' rfl
    rw [gobEncode_finite x hf, hdrop]
    generalize hM' : x.mant / B ^ (x.len - sentWords x) = M' at *
    generalize hn : sentWords x = n at *
    have hB64 : B < 2 ^ 64 := by rw [B_eq]; norm_num
    have hB10 : 0 < B / 10 := by rw [gob_B_div_ten]; positivity
    have hset : setBytesWords (((wordsOfLen M' n).reverse.map be64).flatten) = wordsOfLen M' n :=
      setBytesWords_spec _ (fun w hw => lt_trans (wordsOfLen_lt _ _ w hw) hB64) (Or.inr (by omega))
    obtain ⟨f1, f2, f3, f4, f5, f6⟩ := buf_facts (gobAttr x.mode x.acc x.form x.neg) x.prec
      (x.exp % 4294967296).toNat (((wordsOfLen M' n).reverse.map be64).flatten)
    generalize (1 :: gobAttr x.mode x.acc x.form x.neg :: (be32 x.prec ++ (be32 (x.exp % 4294967296).toNat ++
      (((wordsOfLen M' n).reverse.map be64).flatten)))) = buf at *
    have key := gobDecode_finite_eq {} buf x.mode rfl f1 f6
      (by rw [f2]; exact gobAttr_mode _ _ _ _)
      (by rw [f2, gobAttr_form, hf])
      (by rw [f2]; exact haccle)
      (by rw [f5, hset, wordsOfLen_length]; omega)
      (by rw [f5, hset]; exact hlast)
      (by rw [f5, hset]; exact wordsOfLen_lt _ _)
      (by rw [f5, hset, f3, hnat, wordsOfLen_length, ofBE_be32 _ hp32]; exact htz)
    rw [key, f2, f3, f4, f5, hset, hnat, wordsOfLen_length, gobAttr_acc _ _ _ _ hacc, gobAttr_neg,
      ofBE_be32 _ hp32, ofBE_be32 _ (gob_exp_lt _), gob_exp_roundtrip _ hemin hemax, decoded, if_pos hf,
      hn, hM', hf]
  · rw [gobEncode_nonfinite x hf]
    have key := gobDecode_nonfinite_eq {} (1 :: gobAttr x.mode x.acc x.form x.neg :: be32 x.prec)
      x.mode x.form rfl rfl (by simp [be32])
      (show Mode.ofNat? (gobAttr x.mode x.acc x.form x.neg / 32 % 8) = _ from gobAttr_mode _ _ _ _)
      (show Form.ofNat? (gobAttr x.mode x.acc x.form x.neg / 2 % 4) = _ from gobAttr_form _ _ _ _)
      haccle hf
    rw [key]
    show some { ({} : Dec) with
        mode := x.mode, acc := ((gobAttr x.mode x.acc x.form x.neg / 8 % 4 : Nat) : Int) - 1,
        form := x.form, neg := (gobAttr x.mode x.acc x.form x.neg % 2 == 1),
        prec := ofBE (be32 x.prec) } = _
    rw [gobAttr_acc _ _ _ _ hacc, gobAttr_neg, ofBE_be32 _ hp32, decoded, if_neg hf]

/-- The transmitted mantissa of a canonical finite value: the dropped low words are zero. -/
theorem decoded_finite (x : Dec) (hc : x.Canonical) (hf : x.form = .finite) :
    (decoded x).len = min x.len ((x.prec + 18) / 19) ∧ 1 ≤ (decoded x).len ∧ (decoded x).len ≤ x.len ∧
    (decoded x).mant = x.mant / B ^ (x.len - (decoded x).len) ∧
    (decoded x).mant * B ^ (x.len - (decoded x).len) = x.mant := by
  obtain ⟨_, _, hfin⟩ := hc
  obtain ⟨hl, hd, _, _, hp1, hcl⟩ := hfin hf
  obtain ⟨hn1, hn2, _, _, _, hmul, _⟩ :=
    gob_payload x.mant x.len x.prec (sentWords x) hl hd hp1 hcl rfl
  unfold decoded
  rw [if_pos hf]
  exact ⟨rfl, hn1, hn2, rfl, hmul⟩

/-- **C17 (a)** `GobDecode(GobEncode(x))` on a fresh receiver succeeds and reproduces every
    attribute of a canonical `x`; for a finite `x` also the exponent and the mantissa *value*
    (the mantissa vector may be shorter: see `gob_roundtrip_words`). -/
theorem gob_roundtrip (x : Dec) (hc : x.Canonical) :
    ∃ x', gobDecode {} (gobEncode x) = some x' ∧
      x'.form = x.form ∧ x'.neg = x.neg ∧ x'.prec = x.prec ∧ x'.mode = x.mode ∧ x'.acc = x.acc ∧
      (x.form = .finite → x'.exp = x.exp ∧ x'.len ≤ x.len ∧
         x'.mant * B ^ (x.len - x'.len) = x.mant * B ^ (x'.len - x.len)) := by
  refine ⟨decoded x, gob_roundtrip_eq x hc, ?_⟩
  by_cases hf : x.form = .finite
  · obtain ⟨_, _, h3, _, h5⟩ := decoded_finite x hc hf
    have h0 : (decoded x).len - x.len = 0 := by omega
    refine ⟨?_, ?_, ?_, ?_, ?_, fun _ => ⟨?_, h3, ?_⟩⟩
    all_goals first
      | (rw [h0, pow_zero, Nat.mul_one]; exact h5)
      | simp [decoded, hf]
  · refine ⟨?_, ?_, ?_, ?_, ?_, fun h => absurd h hf⟩ <;> simp [decoded, hf]

/-- **C17 (a), mantissa words.** Low zero words beyond the precision are not transmitted:
    the decoded vector has `min len ⌈prec/19⌉` words and holds `mant / B^(dropped words)`,
    an exact division. -/
theorem gob_roundtrip_words (x : Dec) (hc : x.Canonical) (hf : x.form = .finite) :
    ∃ x', gobDecode {} (gobEncode x) = some x' ∧
      x'.len = min x.len ((x.prec + 18) / 19) ∧ 1 ≤ x'.len ∧
      x'.mant = x.mant / B ^ (x.len - x'.len) ∧
      x'.mant * B ^ (x.len - x'.len) = x.mant := by
  obtain ⟨h1, h2, _, h4, h5⟩ := decoded_finite x hc hf
  exact ⟨decoded x, gob_roundtrip_eq x hc, h1, h2, h4, h5⟩

/-- **C17 (a), exact form.** When the precision covers the whole mantissa vector
    (`len ≤ ⌈prec/19⌉`, the normal state of a value produced by the library) a finite value is
    reproduced field for field. -/
theorem gob_roundtrip_exact (x : Dec) (hc : x.Canonical) (hf : x.form = .finite)
    (hlen : x.len ≤ (x.prec + 18) / 19) : gobDecode {} (gobEncode x) = some x := by
  rw [gob_roundtrip_eq x hc, decoded, if_pos hf]
  have : sentWords x = x.len := by simp only [sentWords]; omega
  rw [this, Nat.sub_self, pow_zero, Nat.div_one]

/-! ## (b) every accepted payload yields a canonical value -/

theorem gob_decode_empty (z : Dec) : gobDecode z [] = some {} := rfl

theorem ofBE_take4_lt (buf : List Nat) (hb : ∀ b ∈ buf, b < 256) (k : Nat) :
    ofBE ((buf.drop k).take 4) < 2 ^ 32 := by
  have h1 := ofBE_lt_e ((buf.drop k).take 4)
    (fun b hb' => hb b (List.mem_of_mem_drop (List.mem_of_mem_take hb')))
  have h2 : ((buf.drop k).take 4).length ≤ 4 := by simp [List.length_take]
  calc _ < 256 ^ ((buf.drop k).take 4).length := h1
    _ ≤ 256 ^ 4 := Nat.pow_le_pow_right (by norm_num) h2
    _ = 2 ^ 32 := by norm_num

/-- **C17 (b)** On a fresh receiver (`z.prec = 0`) every accepted byte string yields a canonical
    value.  `hb` (the entries are bytes) is needed because the model's "bytes" are `Nat`s:
    `gobDecode {} [1, 0, 256, 0, 0, 0]` is accepted with `prec = 2^32 > MaxPrec`. -/
theorem gob_decode_safe (z z' : Dec) (buf : List Nat) (hb : ∀ b ∈ buf, b < 256)
    (hz : z.prec = 0) (h : gobDecode z buf = some z') : z'.Canonical := by
  have hprec := ofBE_take4_lt buf hb 2
  have hexp := ofBE_take4_lt buf hb 6
  have hacc3 : buf.getD 1 0 / 8 % 4 < 4 := Nat.mod_lt _ (by norm_num)
  rcases gobDecode_inv z z' buf hz h with ⟨_, rfl⟩ | ⟨mode, form, _, _, _, hacc, hcase⟩
  · exact ⟨by decide, Or.inr (Or.inl rfl), fun h => by cases h⟩
  · rcases hcase with ⟨hnf, rfl⟩ | ⟨rfl, _, h1, h2, h3, h4, rfl⟩
    · refine ⟨?_, ?_, fun h => absurd h hnf⟩
      · show ofBE _ ≤ MaxPrec
        unfold MaxPrec; omega
      · show ((buf.getD 1 0 / 8 % 4 : Nat) : Int) - 1 = -1 ∨ ((buf.getD 1 0 / 8 % 4 : Nat) : Int) - 1 = 0 ∨
            ((buf.getD 1 0 / 8 % 4 : Nat) : Int) - 1 = 1
        omega
    · obtain ⟨hpos, hnd⟩ := gob_ndigits_natOf _ h1 h2 h3
      have htz := trailingZeros_lt_ndigits hpos
      have h4' : (setBytesWords (buf.drop 10)).length * 19 -
          trailingZeros (natOf (setBytesWords (buf.drop 10))) ≤ ofBE ((buf.drop 2).take 4) := h4
      have hrange := gob_exp_range_e _ hexp
      refine ⟨?_, ?_, fun _ => ⟨?_, hnd, hrange.1, hrange.2, ?_, ?_⟩⟩
      · show ofBE _ ≤ MaxPrec
        unfold MaxPrec; omega
      · show ((buf.getD 1 0 / 8 % 4 : Nat) : Int) - 1 = -1 ∨ ((buf.getD 1 0 / 8 % 4 : Nat) : Int) - 1 = 0 ∨
            ((buf.getD 1 0 / 8 % 4 : Nat) : Int) - 1 = 1
        omega
      · show 1 ≤ (setBytesWords (buf.drop 10)).length
        omega
      · show 1 ≤ ofBE ((buf.drop 2).take 4)
        omega
      · show (setBytesWords (buf.drop 10)).length * 19 ≤ ofBE ((buf.drop 2).take 4) ∨
          natOf (setBytesWords (buf.drop 10)) %
            10 ^ ((setBytesWords (buf.drop 10)).length * 19 - ofBE ((buf.drop 2).take 4)) = 0
        right
        exact (mod_pow_eq_zero_iff_le_trailingZeros hpos _).2 (by omega)

/-! ## (c) totality -/

/-- **C17 (c)** `gobDecode` is a total Lean function into `Option Dec` (no `partial`, no panic
    outcome): totality holds by construction; every input is either rejected (`none`: Go returns
    an error and leaves the receiver untouched) or accepted. -/
theorem gob_decode_total (z : Dec) (buf : List Nat) :
    gobDecode z buf = none ∨ ∃ z', gobDecode z buf = some z' := by
  cases gobDecode z buf with
  | none => exact Or.inl rfl
  | some z' => exact Or.inr ⟨z', rfl⟩

/-! ## the encoder writes bytes; the round trip lands on a canonical value -/

theorem gobEncode_bytes (x : Dec) : ∀ b ∈ gobEncode x, b < 256 := by
  intro b hb
  have hattr := gobAttr_lt x.mode x.acc x.form x.neg
  by_cases hf : x.form = .finite
  · rw [gobEncode_finite x hf] at hb
    simp only [List.mem_cons, List.mem_append, List.mem_flatten, List.mem_map] at hb
    rcases hb with rfl | rfl | hb | hb | ⟨l, ⟨w, _, rfl⟩, hb⟩
    · norm_num
    · exact hattr
    · exact be32_lt _ b hb
    · exact be32_lt _ b hb
    · exact be64_lt _ b hb
  · rw [gobEncode_nonfinite x hf] at hb
    simp only [List.mem_cons] at hb
    rcases hb with rfl | rfl | hb
    · norm_num
    · exact hattr
    · exact be32_lt _ b hb

/-- The value received after a round trip is canonical again. -/
theorem gob_roundtrip_canonical (x : Dec) (hc : x.Canonical) : (decoded x).Canonical :=
  gob_decode_safe {} (decoded x) (gobEncode x) (gobEncode_bytes x) rfl (gob_roundtrip_eq x hc)

/-! ## (d) non-vacuity -/

/-- `-1.2345e-4` with a two-word mantissa whose low word is zero, precision 5. -/
def x0 : Dec :=
  { form := .finite, neg := true, mant := 1234500000000000000 * B, len := 2, exp := -3, prec := 5,
    mode := .ToZero, acc := 1 }

theorem x0_canonical : x0.Canonical := by
  have hm : x0.mant = 12345 * 10 ^ 33 := by show 1234500000000000000 * B = _; rw [B_eq]; norm_num
  refine ⟨by decide, Or.inr (Or.inr rfl), fun _ => ⟨by decide, ?_, by decide, by decide, by decide, Or.inr ?_⟩⟩
  · rw [hm]; show ndigits (12345 * 10 ^ 33) = 38
    exact ndigits_unique (by norm_num) (by norm_num) (by norm_num)
  · rw [hm]; show 12345 * 10 ^ 33 % 10 ^ (2 * 19 - 5) = 0; norm_num

/-- the wire image of `x0`: one mantissa word only (the low zero word is not sent) -/
example : gobEncode x0 =
    [1, 83, 0, 0, 0, 5, 255, 255, 255, 253, 17, 33, 211, 53, 151, 56, 64, 0] := by decide

/-- (a) on `x0`: the decoded value, computed through the theorem -/
example : gobDecode {} (gobEncode x0) =
    some { x0 with mant := 1234500000000000000, len := 1 } := by
  rw [gob_roundtrip_eq x0 x0_canonical]
  have hs : sentWords x0 = 1 := by decide
  have hm : x0.mant / B ^ (x0.len - 1) = 1234500000000000000 := by
    show 1234500000000000000 * B / B ^ 1 = _
    rw [pow_one, Nat.mul_div_cancel _ gob_B_pos]
  simp only [decoded, hs, hm]
  rfl

/-- (a) the statement as given, instantiated: hypothesis satisfiable, conclusion non-trivial -/
example : ∃ x', gobDecode {} (gobEncode x0) = some x' ∧ x'.form = .finite ∧ x'.neg = true ∧
    x'.prec = 5 ∧ x'.mode = .ToZero ∧ x'.acc = 1 ∧ x'.exp = -3 ∧ x'.len ≤ 2 := by
  obtain ⟨x', h, h1, h2, h3, h4, h5, h6⟩ := gob_roundtrip x0 x0_canonical
  obtain ⟨h7, h8, _⟩ := h6 rfl
  exact ⟨x', h, h1, h2, h3, h4, h5, h7, h8⟩

/-- (a) non-finite values: `-Inf` with precision 7 -/
example : gobDecode {} (gobEncode { form := .inf, neg := true, prec := 7, mode := .AwayFromZero }) =
    some { form := .inf, neg := true, prec := 7, mode := .AwayFromZero } :=
  gob_roundtrip_eq _ ⟨by decide, Or.inr (Or.inl rfl), fun h => by cases h⟩

/-- (b) on a concrete accepted payload -/
example : ∃ z', gobDecode {} [1, 83, 0, 0, 0, 5, 255, 255, 255, 253, 17, 33, 211, 53, 151, 56, 64, 0]
    = some z' ∧ z'.Canonical := by
  have henc : gobEncode x0 =
      [1, 83, 0, 0, 0, 5, 255, 255, 255, 253, 17, 33, 211, 53, 151, 56, 64, 0] := by decide
  have h := gob_roundtrip_eq x0 x0_canonical
  rw [henc] at h
  exact ⟨_, h, gob_decode_safe {} _ _ (by decide) rfl h⟩

/-- (b) the byte hypothesis cannot be dropped: a "byte" 256 in the precision field is accepted and
    gives `prec = 2^32 = MaxPrec + 1` (the Go code works on `[]byte`, where this cannot happen). -/
example : gobDecode {} [1, 0, 256, 0, 0, 0] = some { prec := 4294967296, acc := -1 } := by rfl
example : ¬ ({ prec := 4294967296, acc := -1 } : Dec).Canonical := fun h => by
  have := h.1; revert this; decide

/-- (c) both alternatives occur -/
example : gobDecode {} [2, 0, 0, 0, 0, 0] = none := by rfl           -- wrong version
example : gobDecode {} [1, 2, 0, 0, 0, 9] = none := by rfl           -- finite, truncated
example : gobDecode {} [1, 24, 0, 0, 0, 9] = none := by rfl          -- accuracy field 3
example : gobDecode {} [1, 192, 0, 0, 0, 9] = none := by rfl         -- rounding mode 6
example : gobDecode {} [1, 12, 0, 0, 0, 9] = some { form := .inf, prec := 9 } := by rfl

end Decimal.C17

#print axioms Decimal.C17.gob_roundtrip_eq
#print axioms Decimal.C17.gob_roundtrip
#print axioms Decimal.C17.gob_roundtrip_words
#print axioms Decimal.C17.gob_roundtrip_exact
#print axioms Decimal.C17.gob_roundtrip_canonical
#print axioms Decimal.C17.gobEncode_bytes
#print axioms Decimal.C17.gob_decode_empty
#print axioms Decimal.C17.gob_decode_safe
#print axioms Decimal.C17.gob_decode_total
#print axioms Decimal.C17.x0_canonical
