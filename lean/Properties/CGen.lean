/-
  CGen — the hand-written model agrees with the constants and decision logic REGENERATED from
  decimal.go / stdlib.go on every run (supports C01, C02, C04, C16, C20).

  `tools/gen/facts.go` parses the Go package (go/parser + go/types), looks the declarations up BY
  NAME and writes `DecimalModel/Gen/Facts.lean`:
    * constants MaxExp MinExp MaxPrec DefaultDecimalPrec _W _DW _DB _DMax DigitsPerWord DecimalBase,
      the RoundingMode / form / Accuracy values and their declaration order, the thresholds;
    * pure functions makeAcc umax32 addExp ord Sign Signbit IsInf IsZero IsInt Acc Mode Prec Cmp;
    * from `(*Decimal).round`: the `switch z.mode` increment decision (`incDecision`, with
      `z.mant.digit(ntz)&1 != 0` as the parameter `odd`; `none` = the `panic("unreachable")`
      default) and every other test / index of that function (`roundEarlyOut roundFits roundDigits
      roundR roundNeedSticky roundN roundNtz roundInexact roundAccAbove roundExpOverflow`);
    * the scalar part of the stateful methods setExpAndRound SetMode SetInf SetPrec Set Copy Neg
      setBits64 SetMantExp SetBitsExp (with the exponent expression handed to `addExp`) Mul Quo Add
      Sub (precision prologue, sign logic, special-value dispatch with the NaN panics, which
      kernel is called and with what receiver, exact-zero sign fix-up), the mantissa kernels
      (`umul uquo uadd usub round`, `dec.set`) being opaque.
  A declaration that is missing or has a shape the translator does not understand makes the
  generator fail (`gen facts: FAILED …`, no Facts.lean is left behind).

  Every theorem below is an equation between a generated definition and the model's definition
  for ALL arguments (the few hypotheses are the Go value ranges of `uint32`/`int32` fields), so a
  one-token change of the Go source — a comparison operator, a constant, the order of an
  enumeration, a swapped case — breaks the build of this module. Proofs: `Proofs/GenFacts.lean`
  (core Lean only: `decide`, `rfl`, `omega`, case analysis).

  Encodings: `Form.toNat` / `Mode.toNat` (also used by the driver's line protocol,
  Driver/Proto.lean) are the Go values of `form` / `RoundingMode`; accuracies are the integers
  -1, 0, 1; `formOf`, `modeOf` decode a code totally; `outcomeOf` maps 0/1/other to
  ok / errNaN / another panic.

  Not covered: operands aliasing the receiver (`sx`/`sy` of the model; see Proofs/Alias.lean),
  FMA, the conversions; the mantissa kernels themselves (C01/C06 theorems).
-/
import Proofs.GenFacts

namespace Decimal.CGen

open Decimal Decimal.GenFacts

/-! ### Constants and enumerations -/

theorem maxExp_eq : Gen.Facts.MaxExp = Decimal.MaxExp := GenFacts.maxExp_eq
theorem minExp_eq : Gen.Facts.MinExp = Decimal.MinExp := GenFacts.minExp_eq
theorem maxPrec_eq : Gen.Facts.MaxPrec = Decimal.MaxPrec := GenFacts.maxPrec_eq
theorem defaultPrec_eq : Gen.Facts.DefaultDecimalPrec = Decimal.DefaultPrec := GenFacts.defaultPrec_eq
theorem dw_eq : Gen.Facts.DW = Decimal.DW := GenFacts.dw_eq
theorem db_eq : Gen.Facts.DB = Decimal.B := GenFacts.db_eq
theorem dmax_eq : Gen.Facts.DMax = Decimal.B - 1 := GenFacts.dmax_eq
theorem wordBits_eq : Gen.Facts.W = 64 := GenFacts.wordBits_eq
theorem exported_eq : Gen.Facts.DigitsPerWord = Decimal.DW ∧ Gen.Facts.DecimalBase = Decimal.B :=
  ⟨GenFacts.digitsPerWord_eq, GenFacts.decimalBase_eq⟩

/-- Both generators (Facts.lean, and Tables.lean used by the L0 model) read the same values. -/
theorem tables_consistent :
    (Gen.Facts.MaxExp = (Gen.c_MaxExp : Int)) ∧ Gen.Facts.MinExp = Gen.c_MinExp ∧
    Gen.Facts.MaxPrec = Gen.c_MaxPrec ∧ Gen.Facts.DefaultDecimalPrec = Gen.c_DefaultDecimalPrec ∧
    Gen.Facts.W = Gen.c_W ∧ Gen.Facts.DW = Gen.c_DW ∧ Gen.Facts.DB = Gen.c_DB ∧ Gen.Facts.DMax = Gen.c_DMax ∧
    Gen.Facts.divRecursiveThreshold = Gen.c_divRecursiveThreshold ∧
    Gen.Facts.decKaratsubaThreshold = Gen.v_decKaratsubaThreshold ∧
    Gen.Facts.decBasicSqrThreshold = Gen.v_decBasicSqrThreshold ∧
    Gen.Facts.decKaratsubaSqrThreshold = Gen.v_decKaratsubaSqrThreshold := GenFacts.tables_consistent

/-- The Go value of each rounding mode is the code of the model's constructor (and of the protocol). -/
theorem modeCode_eq :
    Mode.toNat .ToNearestEven = Gen.Facts.ToNearestEven ∧ Mode.toNat .ToNearestAway = Gen.Facts.ToNearestAway ∧
    Mode.toNat .ToZero = Gen.Facts.ToZero ∧ Mode.toNat .AwayFromZero = Gen.Facts.AwayFromZero ∧
    Mode.toNat .ToNegativeInf = Gen.Facts.ToNegativeInf ∧ Mode.toNat .ToPositiveInf = Gen.Facts.ToPositiveInf :=
  GenFacts.modeCode_eq

theorem modeDecode_eq :
    Mode.ofNat? Gen.Facts.ToNearestEven = some .ToNearestEven ∧ Mode.ofNat? Gen.Facts.ToNearestAway = some .ToNearestAway ∧
    Mode.ofNat? Gen.Facts.ToZero = some .ToZero ∧ Mode.ofNat? Gen.Facts.AwayFromZero = some .AwayFromZero ∧
    Mode.ofNat? Gen.Facts.ToNegativeInf = some .ToNegativeInf ∧ Mode.ofNat? Gen.Facts.ToPositiveInf = some .ToPositiveInf :=
  GenFacts.modeDecode_eq

theorem formCode_eq :
    Form.toNat .zero = Gen.Facts.zero ∧ Form.toNat .finite = Gen.Facts.finite ∧ Form.toNat .inf = Gen.Facts.inf :=
  GenFacts.formCode_eq

theorem formDecode_eq :
    Form.ofNat? Gen.Facts.zero = some .zero ∧ Form.ofNat? Gen.Facts.finite = some .finite ∧
    Form.ofNat? Gen.Facts.inf = some .inf := GenFacts.formDecode_eq

theorem accValues_eq :
    Gen.Facts.Below = Decimal.Below ∧ Gen.Facts.Exact = Decimal.Exact ∧ Gen.Facts.Above = Decimal.Above :=
  GenFacts.accValues_eq

theorem enumOrder_eq :
    Gen.Facts.roundingModeOrder =
      ["ToNearestEven", "ToNearestAway", "ToZero", "AwayFromZero", "ToNegativeInf", "ToPositiveInf"] ∧
    Gen.Facts.formOrder = ["zero", "finite", "inf"] ∧
    Gen.Facts.accuracyOrder = ["Below", "Exact", "Above"] := GenFacts.enumOrder_eq

/-! ### Pure functions -/

theorem makeAcc_eq (above : Bool) : Gen.Facts.makeAcc above = Decimal.makeAcc above := GenFacts.makeAcc_eq above
theorem umax32_eq (x y : Nat) : Gen.Facts.umax32 x y = Decimal.umax x y := GenFacts.umax32_eq x y

/-- C20: the generated `addExp` (int64 wrap-around, then the two saturation tests) is `addExpSat`. -/
theorem addExp_eq (a b : Int) : Gen.Facts.addExp a b = Decimal.addExpSat a b := GenFacts.addExp_eq a b

/-- C16: the class ordering used by `Cmp`. -/
theorem ord_eq (x : Dec) : Gen.Facts.ord x.form.toNat x.neg = Decimal.ord x := GenFacts.ord_eq x

/-- C16: `Cmp`, its two `ucmp` calls being parameters. -/
theorem cmp_eq (x y : Dec) :
    Gen.Facts.Cmp x.form.toNat x.neg y.form.toNat y.neg (Decimal.ucmp x y) (Decimal.ucmp y x) = Decimal.cmp x y :=
  GenFacts.cmp_eq x y

/-- `Sign` is what the driver's `sign` step expects, and `Cmp` against zero. -/
theorem sign_eq (x : Dec) :
    Gen.Facts.Sign x.form.toNat x.neg = (match x.form with | .zero => 0 | _ => if x.neg then -1 else 1) :=
  GenFacts.sign_eq x
theorem sign_eq_cmp_zero (x : Dec) : Gen.Facts.Sign x.form.toNat x.neg = Decimal.cmp x {} :=
  GenFacts.sign_eq_cmp_zero x
theorem signbit_eq (x : Dec) : Gen.Facts.Signbit x.neg = x.neg := GenFacts.signbit_eq x
theorem isInf_eq (x : Dec) : Gen.Facts.IsInf x.form.toNat = (x.form == .inf) := GenFacts.isInf_eq x
theorem isZero_eq (x : Dec) : Gen.Facts.IsZero x.form.toNat = (x.form == .zero) := GenFacts.isZero_eq x
theorem isInt_eq (x : Dec) (he1 : Decimal.MinExp ≤ x.exp) (he2 : x.exp ≤ Decimal.MaxExp) :
    Gen.Facts.IsInt x.form.toNat x.exp x.prec (Decimal.minPrec x) = Decimal.isInt x := GenFacts.isInt_eq x he1 he2
theorem getters_eq (x : Dec) :
    Gen.Facts.Acc x.acc = x.acc ∧ Gen.Facts.Mode x.mode.toNat = x.mode.toNat ∧ Gen.Facts.Prec x.prec = x.prec :=
  ⟨rfl, rfl, rfl⟩

/-! ### `round` (C01, C02) -/

/-- The increment decision of `round`, for all modes, signs, rounding digits, sticky words and
    parities: the model's `roundInc`; the `panic("unreachable")` default is never taken. -/
theorem incDecision_eq (mode : Mode) (neg : Bool) (rdigit sbit : Nat) (odd : Bool) :
    Gen.Facts.incDecision mode.toNat neg rdigit sbit odd =
      some (Decimal.roundInc mode neg rdigit (sbit != 0) odd) := GenFacts.incDecision_eq mode neg rdigit sbit odd

theorem incDecision_none_iff (m : Nat) (neg : Bool) (rdigit sbit : Nat) (odd : Bool) :
    Gen.Facts.incDecision m neg rdigit sbit odd = none ↔ 6 ≤ m := GenFacts.incDecision_none_iff m neg rdigit sbit odd

theorem roundInexact_eq (rdigit sbit : Nat) :
    Gen.Facts.roundInexact rdigit sbit = (rdigit != 0 || sbit != 0) := GenFacts.roundInexact_eq rdigit sbit

/-- C02: the accuracy after rounding is `makeAcc (inc != neg)`. -/
theorem roundAcc_eq (inc neg : Bool) :
    Gen.Facts.makeAcc (Gen.Facts.roundAccAbove inc neg) = Decimal.makeAcc (inc != neg) := by
  rw [GenFacts.roundAccAbove_eq, GenFacts.makeAcc_eq]

theorem roundNeedSticky_eq (sbit rdigit : Nat) (mode : Mode) :
    Gen.Facts.roundNeedSticky sbit rdigit mode.toNat =
      (!(sbit != 0) && (rdigit == 0 || mode == .ToNearestEven)) := GenFacts.roundNeedSticky_eq sbit rdigit mode

theorem roundExpOverflow_eq (e : Int) : Gen.Facts.roundExpOverflow e = decide (e ≥ Decimal.MaxExp) := rfl
theorem roundEarlyOut_eq (f : Form) : Gen.Facts.roundEarlyOut f.toNat = (f != .finite) := GenFacts.roundEarlyOut_eq f
theorem roundFits_eq (digits prec : Nat) : Gen.Facts.roundFits digits prec = decide (digits ≤ prec) := rfl

/-- The uint32 index arithmetic of `round` is the model's unbounded arithmetic below 2^32. -/
theorem roundIndices_eq (len prec : Nat) (hlen : len * 19 < 4294967296) (hprec : prec + 18 < 4294967296)
    (hlt : prec < len * 19) :
    Gen.Facts.roundDigits len = len * DW ∧
    Gen.Facts.roundR (len * DW) prec = len * DW - prec - 1 ∧
    Gen.Facts.roundN prec = (prec + (DW - 1)) / DW ∧
    Gen.Facts.roundNtz ((prec + (DW - 1)) / DW) prec = (prec + (DW - 1)) / DW * DW - prec :=
  ⟨GenFacts.roundDigits_eq _ hlen,
   GenFacts.roundR_eq _ _ (by unfold DW; omega) (by unfold DW; omega),
   GenFacts.roundN_eq _ hprec,
   GenFacts.roundNtz_eq _ _ (by unfold DW; omega) (by unfold DW; omega)⟩

/-- The model's `round` is the skeleton `roundG` in which EVERY test, index and constant is the
    regenerated one, for every state whose digit counts do not wrap in uint32. -/
theorem round_eq_roundG (z : Dec) (sbit : Bool) (hlen : z.len * 19 < 4294967296)
    (hprec : z.prec + 18 < 4294967296) : Decimal.round z sbit = roundG z sbit :=
  GenFacts.round_eq_roundG z sbit hlen hprec

/-- Underflow / overflow tests of `setExpAndRound` against MinExp / MaxExp. -/
theorem setExpAndRound_eq (z : Dec) (e : Int) (sbit : Bool) :
    let g := Gen.Facts.setExpAndRound e z.neg z.acc z.form.toNat z.exp
    let z' : Dec := { z with acc := g.acc, form := formOf g.form, exp := g.exp }
    g.outcome = 0 ∧ Decimal.setExpAndRound z e sbit = if g.tail = 1 then Decimal.round z' sbit else z' :=
  GenFacts.setExpAndRound_eq z e sbit

/-! ### Setters -/

theorem setMode_eq (z : Dec) (m : Mode) :
    let g := Gen.Facts.SetMode m.toNat z.mode.toNat z.acc
    g.outcome = 0 ∧ g.tail = 0 ∧ Decimal.setMode z m = { z with mode := modeOf g.mode, acc := g.acc } :=
  GenFacts.setMode_eq z m

theorem setInf_eq (z : Dec) (signbit : Bool) :
    let g := Gen.Facts.SetInf signbit z.acc z.form.toNat z.neg
    g.outcome = 0 ∧ g.tail = 0 ∧
      Decimal.setInf z signbit = { z with acc := g.acc, form := formOf g.form, neg := g.neg } :=
  GenFacts.setInf_eq z signbit

theorem setPrec_eq (z : Dec) (p : Nat) :
    let g := Gen.Facts.SetPrec p z.neg z.acc z.prec z.form.toNat
    let z' : Dec := { z with acc := g.acc, prec := g.prec, form := formOf g.form }
    g.outcome = 0 ∧ Decimal.setPrec z p = if g.tail = 1 then Decimal.round z' false else z' :=
  GenFacts.setPrec_eq z p

theorem set_eq (z x : Dec) :
    let g := Gen.Facts.Set true x.form.toNat x.neg x.exp x.prec z.acc z.form.toNat z.neg z.exp z.prec
    let z' : Dec := { z with acc := g.zAcc, form := formOf g.zForm, neg := g.zNeg, exp := g.zExp, prec := g.zPrec,
                             mant := if x.form == .finite then x.mant else z.mant,
                             len := if x.form == .finite then x.len else z.len }
    g.outcome = 0 ∧ Decimal.set z x false = if g.tail = 1 then Decimal.round z' false else z' :=
  GenFacts.set_eq z x

theorem set_same_eq (z x : Dec) :
    let g := Gen.Facts.Set false x.form.toNat x.neg x.exp x.prec z.acc z.form.toNat z.neg z.exp z.prec
    g.outcome = 0 ∧ g.tail = 0 ∧ Decimal.set z x true =
      { z with acc := g.zAcc, form := formOf g.zForm, neg := g.zNeg, exp := g.zExp, prec := g.zPrec } :=
  GenFacts.set_same_eq z x

/-! ### Arithmetic: prologue, signs, special values (C01, C04) -/

/-- `Mul` on all operand classes: result sign, `0 × Inf` NaN, infinities, zeros, else `umul`. -/
theorem mul_eq (z x y : Dec) :
    let g := Gen.Facts.Mul x.form.toNat x.neg x.prec y.form.toNat y.neg y.prec z.prec z.neg z.acc z.form.toNat
    let z' : Dec := { z with prec := g.zPrec, neg := g.zNeg, acc := g.zAcc, form := formOf g.zForm }
    Decimal.mul z x y = if g.tail = 1 then (Decimal.umul z' x y, .ok) else (z', outcomeOf g.outcome) :=
  GenFacts.mul_eq z x y

/-- `Quo` on all operand classes: `0/0`, `Inf/Inf` NaN, zeros, infinities, else `uquo`. -/
theorem quo_eq (z x y : Dec) :
    let g := Gen.Facts.Quo x.form.toNat x.neg x.prec y.form.toNat y.neg y.prec z.prec z.neg z.acc z.form.toNat
    let z' : Dec := { z with prec := g.zPrec, neg := g.zNeg, acc := g.zAcc, form := formOf g.zForm }
    Decimal.quo z x y = if g.tail = 1 then (Decimal.uquo z' x y, .ok) else (z', outcomeOf g.outcome) :=
  GenFacts.quo_eq z x y

/-- `Add` on all operand classes. `AddPre` is the receiver at the kernel call (tail 1 `uadd(x,y)`,
    2 `usub(x,y)`, 3 `usub(y,x)`, 4 `Set(x)`, 5 `Set(y)`), at the return or at the NaN panic;
    `Add` continues after the kernel (whose `form`, `acc`, `neg` are parameters) with the
    exact-zero sign fix-up. -/
theorem add_eq (z x y : Dec) :
    let pre := Gen.Facts.AddPre z.mode.toNat x.form.toNat x.neg x.prec y.form.toNat y.neg y.prec
      (Decimal.ucmp x y) z.prec z.neg z.acc z.form.toNat
    let z1 : Dec := { z with prec := pre.zPrec, neg := pre.zNeg, acc := pre.zAcc, form := formOf pre.zForm }
    Decimal.add z x y =
      if pre.tail = 0 then (z1, outcomeOf pre.outcome)
      else if pre.tail = 4 then (Decimal.set z1 x, .ok)
      else if pre.tail = 5 then (Decimal.set z1 y, .ok)
      else
        let K := addKernel pre.tail z1 x y
        let g := Gen.Facts.Add z.mode.toNat x.form.toNat x.neg x.prec y.form.toNat y.neg y.prec
          (Decimal.ucmp x y) K.form.toNat K.acc K.neg z.prec z.neg z.acc z.form.toNat
        ({ K with neg := g.zNeg }, outcomeOf g.outcome) :=
  GenFacts.add_eq z x y

/-- `Sub` on all operand classes (tail 6: the final `z.round(0)` with the receiver holding `−y`). -/
theorem sub_eq (z x y : Dec) :
    let pre := Gen.Facts.SubPre z.mode.toNat true x.form.toNat x.neg x.prec y.form.toNat y.neg y.prec y.exp
      (Decimal.ucmp x y) z.prec z.neg z.acc z.form.toNat z.exp
    let z1 : Dec := { z with prec := pre.zPrec, neg := pre.zNeg, acc := pre.zAcc, form := formOf pre.zForm,
                             exp := pre.zExp }
    Decimal.sub z x y =
      if pre.tail = 0 then (z1, outcomeOf pre.outcome)
      else if pre.tail = 4 then (Decimal.set z1 x, .ok)
      else if pre.tail = 6 then
        (Decimal.round { z1 with mant := if y.form == .finite then y.mant else z.mant,
                                 len := if y.form == .finite then y.len else z.len } false, .ok)
      else
        let K := addKernel pre.tail z1 x y
        let g := Gen.Facts.Sub z.mode.toNat true x.form.toNat x.neg x.prec y.form.toNat y.neg y.prec y.exp
          (Decimal.ucmp x y) K.form.toNat K.acc K.neg z.prec z.neg z.acc z.form.toNat z.exp
        ({ K with neg := g.zNeg }, outcomeOf g.outcome) :=
  GenFacts.sub_eq z x y

/-! ### `Copy`, `Neg` and the three `addExp` call sites (C20) -/

theorem copy_eq (z x : Dec) (same : Bool) :
    let g := Gen.Facts.Copy (!same) x.prec x.mode.toNat x.acc x.form.toNat x.neg x.exp
      z.prec z.mode.toNat z.acc z.form.toNat z.neg z.exp
    g.outcome = 0 ∧ g.tail = 0 ∧ Decimal.copy z x same =
      { z with prec := g.zPrec, mode := modeOf g.zMode, acc := g.zAcc, form := formOf g.zForm, neg := g.zNeg,
               exp := g.zExp,
               mant := if !same && x.form == .finite then x.mant else z.mant,
               len := if !same && x.form == .finite then x.len else z.len } :=
  GenFacts.copy_eq z x same

theorem neg_eq (z x : Dec) (same : Bool) :
    Decimal.neg z x same =
      { Decimal.set z x same with neg := (Gen.Facts.Neg (Decimal.set z x same).neg z.neg).zNeg } :=
  GenFacts.neg_eq z x same

/-- `setBits64` with the machine exponent arithmetic (`setBits64Sat`, equal to the L1 `setBits64`
    by C20b): `lenMant = len(z.mant)`, `dnorm = dnorm(z.mant)` after `setUint64`. -/
theorem setBits64_eq (z : Dec) (neg : Bool) (x : Nat) (exp : Int) :
    let g := Gen.Facts.setBits64 neg x exp (nwords x : Nat) (dnormShift x (nwords x) : Nat)
      z.prec z.acc z.neg z.form.toNat
    let z' : Dec := { z with prec := g.zPrec, acc := g.zAcc, neg := g.zNeg, form := formOf g.zForm }
    g.outcome = 0 ∧ Decimal.setBits64Sat z neg x exp =
      if g.tail = 1 then
        Decimal.setExpAndRound { z' with mant := x * 10 ^ dnormShift x (nwords x), len := nwords x } g.arg false
      else z' :=
  GenFacts.setBits64_eq z neg x exp

theorem setMantExp_eq (z mant : Dec) (exp : Int) (same : Bool) :
    let C := Decimal.copy z mant same
    let g := Gen.Facts.SetMantExp exp C.form.toNat C.exp z.form.toNat z.exp
    g.outcome = 0 ∧ g.zForm = C.form.toNat ∧ g.zExp = C.exp ∧
    Decimal.setMantExpSat z mant exp same =
      if g.tail = 1 then Decimal.setExpAndRound C g.arg false else C :=
  GenFacts.setMantExp_eq z mant exp same

theorem setBitsExp_eq (z : Dec) (words : List Nat) (e : Int)
    (hlen : nwords (natOf words) ≤ words.length) (hsz : words.length * 19 < 4611686018427387904) :
    let M := natOf words
    let len := nwords M
    let sh := dnormShift M len
    let g := Gen.Facts.SetBitsExp e (len : Nat) (words.length : Nat) (sh : Nat) z.neg z.prec z.acc z.form.toNat z.exp
    let z' : Dec := { z with neg := g.zNeg, prec := g.zPrec, acc := g.zAcc, form := formOf g.zForm, exp := g.zExp }
    g.outcome = 0 ∧ Decimal.setBitsExpFullSat z words e =
      if g.tail = 1 then Decimal.setExpAndRound { z' with mant := M * 10 ^ sh, len := len } g.arg false
      else { z' with mant := 0, len := 0 } :=
  GenFacts.setBitsExp_eq z words e hlen hsz

end Decimal.CGen
