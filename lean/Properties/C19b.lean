/-
  C19b — the context operations compute the correctly rounded result at the CONTEXT's precision
  and mode: C19 `ctx_rounds` (which takes "the wrapped method rounds correctly" as a hypothesis)
  composed with the theorems that discharge it — C01 `add_correct sub_correct mul_correct
  quo_correct neg_correct abs_correct setPrec_correct`, C03b `fma_correct`, C05 `sqrt_correct`.
  Nothing is assumed about the receiver: its old value, precision and mode are irrelevant.

  Final statements only; proofs in `Proofs/Compose.lean`.

  Vocabulary
    * `w.ctx.Valid`   : `1 ≤ w.ctx.prec ≤ MaxPrec` — what `context.New` / `SetPrec` establish
                        (`ctx_new_valid`, and C19 `ctxSetPrecVal_range`).
    * `w.ctx.err = false` : no ErrNaN is latched (otherwise the operation is a no-op, C19
                        `ctx_latch_noop`).
    * every theorem concludes, for `s := step w op`:
        the value stored in `z` agrees with the specification result at `ctx.mode`, `ctx.prec`;
        `z` has the context's precision and mode; the call returned normally; the context is
        unchanged (in particular nothing was latched); no other variable changed.
    * `ctx_*_correct`     : operands distinct from the receiver (as in C01).
    * `ctx_*_correct_gen` : ANY aliasing. `ctxOpnd w z i` is operand `i` as the wrapped method sees
      it: variable `i`, except that the receiver is read after `apply` gave it the context's
      precision and mode — i.e. ROUNDED to the context's precision when it had more digits.
      This is the documented caveat of package context ("rounding occurs *before* doing the
      operation, as a result, if z is also one of the arguments, this may lead to incorrect
      results"), made exact: the result is the single rounding of the operation applied to the
      pre-rounded receiver.  Concrete instance (model `#eval`, and the Go code run on the same
      input): ctx = (prec 2, ToNearestEven), z = 1.45 (prec 3), y = 0.001:
        `ctx.Add(z, z, y)` = 1.4 (Below)   [1.45 → 1.4, then 1.401 → 1.4]
        `ctx.Add(r, x, y)` with x = 1.45 in another variable = 1.5 (Above) = round(1.451).
      When the receiver's precision does not exceed the context's, `apply` does not round and the
      aliased call is correctly rounded too (`ctxOpnd_self_no_round`).
    * FMA keeps the two hypotheses of C03b `fma_correct`: `ProdFits` (the exact product has at most
      `MaxPrec` significant digits; implied by `(x.len + y.len)·19 ≤ MaxPrec` and, for canonical
      factors, by `x.prec + y.prec ≤ MaxPrec`: C03b `prodFits_of_len`, `prodFits_of_prec`) and the
      exact product's exponent in range (the recorded finding `fma-product-exponent-out-of-range`).
    * Sqrt: as in C05 the stored accuracy is always `Exact`, hence `agreesValue`.
-/
import Proofs.Compose

namespace Decimal.C19b

open Decimal Spec

theorem ctx_new_valid (p : Nat) (m : Mode) : (Ctx.new p m).Valid := Ctx.new_valid p m

/-! ### Add, Sub, Mul, Quo -/

/-- `ctx.Add(z, x, y)`, `x`, `y` canonical finite, neither being `z`. -/
theorem ctx_add_correct (w : World) (z x y : Nat) (h : w.ctx.err = false) (hc : w.ctx.Valid)
    (hz : z < w.vars.length) (hxz : x ≠ z) (hyz : y ≠ z)
    (hx : FinCanon (w.get x)) (hy : FinCanon (w.get y)) :
    ∃ r, Spec.addSV w.ctx.mode w.ctx.prec (ofDec (w.get x)) (ofDec (w.get y)) = some r ∧
      agrees ((step w (.cAdd z x y)).1.get z) r = true ∧
      ((step w (.cAdd z x y)).1.get z).prec = w.ctx.prec ∧
      ((step w (.cAdd z x y)).1.get z).mode = w.ctx.mode ∧
      (step w (.cAdd z x y)).2.1 = .ok ∧ (step w (.cAdd z x y)).1.ctx = w.ctx ∧
      ∀ i, i ≠ z → (step w (.cAdd z x y)).1.get i = w.get i :=
  Decimal.ctx_add_correct w z x y h hc hz hxz hyz hx hy

/-- Any aliasing. -/
theorem ctx_add_correct_gen (w : World) (z x y : Nat) (h : w.ctx.err = false) (hc : w.ctx.Valid)
    (hz : z < w.vars.length) (hx : FinCanon (ctxOpnd w z x)) (hy : FinCanon (ctxOpnd w z y)) :
    ∃ r, Spec.addSV w.ctx.mode w.ctx.prec (ofDec (ctxOpnd w z x)) (ofDec (ctxOpnd w z y)) = some r ∧
      agrees ((step w (.cAdd z x y)).1.get z) r = true ∧
      ((step w (.cAdd z x y)).1.get z).prec = w.ctx.prec ∧
      ((step w (.cAdd z x y)).1.get z).mode = w.ctx.mode ∧
      (step w (.cAdd z x y)).2.1 = .ok ∧ (step w (.cAdd z x y)).1.ctx = w.ctx ∧
      ∀ i, i ≠ z → (step w (.cAdd z x y)).1.get i = w.get i :=
  Decimal.ctx_add_correct_gen w z x y h hc hz hx hy

/-- `ctx.Sub(z, x, y)`, `x`, `y` canonical finite, neither being `z`. -/
theorem ctx_sub_correct (w : World) (z x y : Nat) (h : w.ctx.err = false) (hc : w.ctx.Valid)
    (hz : z < w.vars.length) (hxz : x ≠ z) (hyz : y ≠ z)
    (hx : FinCanon (w.get x)) (hy : FinCanon (w.get y)) :
    ∃ r, Spec.subSV w.ctx.mode w.ctx.prec (ofDec (w.get x)) (ofDec (w.get y)) = some r ∧
      agrees ((step w (.cSub z x y)).1.get z) r = true ∧
      ((step w (.cSub z x y)).1.get z).prec = w.ctx.prec ∧
      ((step w (.cSub z x y)).1.get z).mode = w.ctx.mode ∧
      (step w (.cSub z x y)).2.1 = .ok ∧ (step w (.cSub z x y)).1.ctx = w.ctx ∧
      ∀ i, i ≠ z → (step w (.cSub z x y)).1.get i = w.get i :=
  Decimal.ctx_sub_correct w z x y h hc hz hxz hyz hx hy

/-- Any aliasing. -/
theorem ctx_sub_correct_gen (w : World) (z x y : Nat) (h : w.ctx.err = false) (hc : w.ctx.Valid)
    (hz : z < w.vars.length) (hx : FinCanon (ctxOpnd w z x)) (hy : FinCanon (ctxOpnd w z y)) :
    ∃ r, Spec.subSV w.ctx.mode w.ctx.prec (ofDec (ctxOpnd w z x)) (ofDec (ctxOpnd w z y)) = some r ∧
      agrees ((step w (.cSub z x y)).1.get z) r = true ∧
      ((step w (.cSub z x y)).1.get z).prec = w.ctx.prec ∧
      ((step w (.cSub z x y)).1.get z).mode = w.ctx.mode ∧
      (step w (.cSub z x y)).2.1 = .ok ∧ (step w (.cSub z x y)).1.ctx = w.ctx ∧
      ∀ i, i ≠ z → (step w (.cSub z x y)).1.get i = w.get i :=
  Decimal.ctx_sub_correct_gen w z x y h hc hz hx hy

/-- `ctx.Mul(z, x, y)`, `x`, `y` canonical finite, neither being `z`. -/
theorem ctx_mul_correct (w : World) (z x y : Nat) (h : w.ctx.err = false) (hc : w.ctx.Valid)
    (hz : z < w.vars.length) (hxz : x ≠ z) (hyz : y ≠ z)
    (hx : FinCanon (w.get x)) (hy : FinCanon (w.get y)) :
    ∃ r, Spec.mulSV w.ctx.mode w.ctx.prec (ofDec (w.get x)) (ofDec (w.get y)) = some r ∧
      agrees ((step w (.cMul z x y)).1.get z) r = true ∧
      ((step w (.cMul z x y)).1.get z).prec = w.ctx.prec ∧
      ((step w (.cMul z x y)).1.get z).mode = w.ctx.mode ∧
      (step w (.cMul z x y)).2.1 = .ok ∧ (step w (.cMul z x y)).1.ctx = w.ctx ∧
      ∀ i, i ≠ z → (step w (.cMul z x y)).1.get i = w.get i :=
  Decimal.ctx_mul_correct w z x y h hc hz hxz hyz hx hy

/-- Any aliasing. -/
theorem ctx_mul_correct_gen (w : World) (z x y : Nat) (h : w.ctx.err = false) (hc : w.ctx.Valid)
    (hz : z < w.vars.length) (hx : FinCanon (ctxOpnd w z x)) (hy : FinCanon (ctxOpnd w z y)) :
    ∃ r, Spec.mulSV w.ctx.mode w.ctx.prec (ofDec (ctxOpnd w z x)) (ofDec (ctxOpnd w z y)) = some r ∧
      agrees ((step w (.cMul z x y)).1.get z) r = true ∧
      ((step w (.cMul z x y)).1.get z).prec = w.ctx.prec ∧
      ((step w (.cMul z x y)).1.get z).mode = w.ctx.mode ∧
      (step w (.cMul z x y)).2.1 = .ok ∧ (step w (.cMul z x y)).1.ctx = w.ctx ∧
      ∀ i, i ≠ z → (step w (.cMul z x y)).1.get i = w.get i :=
  Decimal.ctx_mul_correct_gen w z x y h hc hz hx hy

/-- `ctx.Quo(z, x, y)`, `x`, `y` canonical finite, neither being `z`. -/
theorem ctx_quo_correct (w : World) (z x y : Nat) (h : w.ctx.err = false) (hc : w.ctx.Valid)
    (hz : z < w.vars.length) (hxz : x ≠ z) (hyz : y ≠ z)
    (hx : FinCanon (w.get x)) (hy : FinCanon (w.get y)) :
    ∃ r, Spec.quoSV w.ctx.mode w.ctx.prec (ofDec (w.get x)) (ofDec (w.get y)) = some r ∧
      agrees ((step w (.cQuo z x y)).1.get z) r = true ∧
      ((step w (.cQuo z x y)).1.get z).prec = w.ctx.prec ∧
      ((step w (.cQuo z x y)).1.get z).mode = w.ctx.mode ∧
      (step w (.cQuo z x y)).2.1 = .ok ∧ (step w (.cQuo z x y)).1.ctx = w.ctx ∧
      ∀ i, i ≠ z → (step w (.cQuo z x y)).1.get i = w.get i :=
  Decimal.ctx_quo_correct w z x y h hc hz hxz hyz hx hy

/-- Any aliasing. -/
theorem ctx_quo_correct_gen (w : World) (z x y : Nat) (h : w.ctx.err = false) (hc : w.ctx.Valid)
    (hz : z < w.vars.length) (hx : FinCanon (ctxOpnd w z x)) (hy : FinCanon (ctxOpnd w z y)) :
    ∃ r, Spec.quoSV w.ctx.mode w.ctx.prec (ofDec (ctxOpnd w z x)) (ofDec (ctxOpnd w z y)) = some r ∧
      agrees ((step w (.cQuo z x y)).1.get z) r = true ∧
      ((step w (.cQuo z x y)).1.get z).prec = w.ctx.prec ∧
      ((step w (.cQuo z x y)).1.get z).mode = w.ctx.mode ∧
      (step w (.cQuo z x y)).2.1 = .ok ∧ (step w (.cQuo z x y)).1.ctx = w.ctx ∧
      ∀ i, i ≠ z → (step w (.cQuo z x y)).1.get i = w.get i :=
  Decimal.ctx_quo_correct_gen w z x y h hc hz hx hy

/-! ### FMA -/

/-- `ctx.FMA(z, x, y, u)`: `x·y + u` rounded ONCE at the context's precision and mode. -/
theorem ctx_fma_correct (w : World) (z x y u : Nat) (h : w.ctx.err = false) (hc : w.ctx.Valid)
    (hz : z < w.vars.length) (hxz : x ≠ z) (hyz : y ≠ z) (huz : u ≠ z)
    (hx : FinCanon (w.get x)) (hy : FinCanon (w.get y)) (hu : FinCanon (w.get u))
    (hfit : ProdFits (w.get x) (w.get y))
    (hmin : MinExp ≤ intExp (w.get x) + intExp (w.get y) +
      (ndigits ((w.get x).mant * (w.get y).mant) : Int))
    (hmax : intExp (w.get x) + intExp (w.get y) +
      (ndigits ((w.get x).mant * (w.get y).mant) : Int) ≤ MaxExp) :
    ∃ r, Spec.fmaSV w.ctx.mode w.ctx.prec (ofDec (w.get x)) (ofDec (w.get y)) (ofDec (w.get u)) = some r ∧
      agrees ((step w (.cFma z x y u)).1.get z) r = true ∧
      ((step w (.cFma z x y u)).1.get z).prec = w.ctx.prec ∧
      ((step w (.cFma z x y u)).1.get z).mode = w.ctx.mode ∧
      (step w (.cFma z x y u)).2.1 = .ok ∧ (step w (.cFma z x y u)).1.ctx = w.ctx ∧
      ∀ i, i ≠ z → (step w (.cFma z x y u)).1.get i = w.get i :=
  Decimal.ctx_fma_correct w z x y u h hc hz hxz hyz huz hx hy hu hfit hmin hmax

theorem ctx_fma_correct_gen (w : World) (z x y u : Nat) (h : w.ctx.err = false) (hc : w.ctx.Valid)
    (hz : z < w.vars.length) (hx : FinCanon (ctxOpnd w z x)) (hy : FinCanon (ctxOpnd w z y))
    (hu : FinCanon (ctxOpnd w z u))
    (hfit : ProdFits (ctxOpnd w z x) (ctxOpnd w z y))
    (hmin : MinExp ≤ intExp (ctxOpnd w z x) + intExp (ctxOpnd w z y) +
      (ndigits ((ctxOpnd w z x).mant * (ctxOpnd w z y).mant) : Int))
    (hmax : intExp (ctxOpnd w z x) + intExp (ctxOpnd w z y) +
      (ndigits ((ctxOpnd w z x).mant * (ctxOpnd w z y).mant) : Int) ≤ MaxExp) :
    ∃ r, Spec.fmaSV w.ctx.mode w.ctx.prec (ofDec (ctxOpnd w z x)) (ofDec (ctxOpnd w z y))
          (ofDec (ctxOpnd w z u)) = some r ∧
      agrees ((step w (.cFma z x y u)).1.get z) r = true ∧
      ((step w (.cFma z x y u)).1.get z).prec = w.ctx.prec ∧
      ((step w (.cFma z x y u)).1.get z).mode = w.ctx.mode ∧
      (step w (.cFma z x y u)).2.1 = .ok ∧ (step w (.cFma z x y u)).1.ctx = w.ctx ∧
      ∀ i, i ≠ z → (step w (.cFma z x y u)).1.get i = w.get i :=
  Decimal.ctx_fma_correct_gen w z x y u h hc hz hx hy hu hfit hmin hmax

/-! ### Sqrt -/

/-- `ctx.Sqrt(z, x)` for a canonical finite `x > 0`: the correctly rounded root. -/
theorem ctx_sqrt_correct (w : World) (z x : Nat) (h : w.ctx.err = false) (hc : w.ctx.Valid)
    (hz : z < w.vars.length) (hxz : x ≠ z) (hx : FinCanon (w.get x)) (hneg : (w.get x).neg = false) :
    ∃ r, Spec.sqrtSV w.ctx.mode w.ctx.prec (ofDec (w.get x)) = some r ∧
      agreesValue ((step w (.cSqrt z x)).1.get z) r = true ∧
      ((step w (.cSqrt z x)).1.get z).acc = Exact ∧
      ((step w (.cSqrt z x)).1.get z).prec = w.ctx.prec ∧
      ((step w (.cSqrt z x)).1.get z).mode = w.ctx.mode ∧
      (step w (.cSqrt z x)).2.1 = .ok ∧ (step w (.cSqrt z x)).1.ctx = w.ctx ∧
      ∀ i, i ≠ z → (step w (.cSqrt z x)).1.get i = w.get i :=
  Decimal.ctx_sqrt_correct w z x h hc hz hxz hx hneg

theorem ctx_sqrt_correct_gen (w : World) (z x : Nat) (h : w.ctx.err = false) (hc : w.ctx.Valid)
    (hz : z < w.vars.length) (hx : FinCanon (ctxOpnd w z x)) (hneg : (ctxOpnd w z x).neg = false) :
    ∃ r, Spec.sqrtSV w.ctx.mode w.ctx.prec (ofDec (ctxOpnd w z x)) = some r ∧
      agreesValue ((step w (.cSqrt z x)).1.get z) r = true ∧
      ((step w (.cSqrt z x)).1.get z).acc = Exact ∧
      ((step w (.cSqrt z x)).1.get z).prec = w.ctx.prec ∧
      ((step w (.cSqrt z x)).1.get z).mode = w.ctx.mode ∧
      (step w (.cSqrt z x)).2.1 = .ok ∧ (step w (.cSqrt z x)).1.ctx = w.ctx ∧
      ∀ i, i ≠ z → (step w (.cSqrt z x)).1.get i = w.get i :=
  Decimal.ctx_sqrt_correct_gen w z x h hc hz hx hneg

/-! ### Set, Neg, Abs

  These copy when no rounding is needed, so (as in C01) the operand must be canonical in the strong
  sense `Canon` (no non-zero digit beyond its own precision). -/

/-- `ctx.Set(z, x)`, any aliasing (`ctx.Set(z, z)` rounds `z` in place): `x` rounded once. -/
theorem ctx_set_correct (w : World) (z x : Nat) (h : w.ctx.err = false) (hc : w.ctx.Valid)
    (hz : z < w.vars.length) (hx : Canon (w.get x)) :
    agrees ((step w (.cSet z x)).1.get z) (roundSV w.ctx.mode w.ctx.prec (ofDec (w.get x))) = true ∧
      ((step w (.cSet z x)).1.get z).prec = w.ctx.prec ∧
      ((step w (.cSet z x)).1.get z).mode = w.ctx.mode ∧
      (step w (.cSet z x)).2.1 = .ok ∧ (step w (.cSet z x)).1.ctx = w.ctx ∧
      ∀ i, i ≠ z → (step w (.cSet z x)).1.get i = w.get i :=
  Decimal.ctx_set_correct w z x h hc hz hx

/-- `ctx.Neg(z, x)`: round, then flip the sign (the accuracy is that of the rounding of `x`). -/
theorem ctx_neg_correct (w : World) (z x : Nat) (h : w.ctx.err = false) (hc : w.ctx.Valid)
    (hz : z < w.vars.length) (hxz : x ≠ z) (hx : Canon (w.get x)) :
    agrees ((step w (.cNeg z x)).1.get z)
        { roundSV w.ctx.mode w.ctx.prec (ofDec (w.get x)) with
          neg := !(roundSV w.ctx.mode w.ctx.prec (ofDec (w.get x))).neg } = true ∧
      ((step w (.cNeg z x)).1.get z).prec = w.ctx.prec ∧
      ((step w (.cNeg z x)).1.get z).mode = w.ctx.mode ∧
      (step w (.cNeg z x)).2.1 = .ok ∧ (step w (.cNeg z x)).1.ctx = w.ctx ∧
      ∀ i, i ≠ z → (step w (.cNeg z x)).1.get i = w.get i :=
  Decimal.ctx_neg_correct w z x h hc hz hxz hx

theorem ctx_neg_correct_gen (w : World) (z x : Nat) (h : w.ctx.err = false) (hc : w.ctx.Valid)
    (hz : z < w.vars.length) (hx : Canon (ctxOpnd w z x)) :
    agrees ((step w (.cNeg z x)).1.get z)
        { roundSV w.ctx.mode w.ctx.prec (ofDec (ctxOpnd w z x)) with
          neg := !(roundSV w.ctx.mode w.ctx.prec (ofDec (ctxOpnd w z x))).neg } = true ∧
      ((step w (.cNeg z x)).1.get z).prec = w.ctx.prec ∧
      ((step w (.cNeg z x)).1.get z).mode = w.ctx.mode ∧
      (step w (.cNeg z x)).2.1 = .ok ∧ (step w (.cNeg z x)).1.ctx = w.ctx ∧
      ∀ i, i ≠ z → (step w (.cNeg z x)).1.get i = w.get i :=
  Decimal.ctx_neg_correct_gen w z x h hc hz hx

theorem ctx_abs_correct (w : World) (z x : Nat) (h : w.ctx.err = false) (hc : w.ctx.Valid)
    (hz : z < w.vars.length) (hxz : x ≠ z) (hx : Canon (w.get x)) :
    agrees ((step w (.cAbs z x)).1.get z)
        { roundSV w.ctx.mode w.ctx.prec (ofDec (w.get x)) with neg := false } = true ∧
      ((step w (.cAbs z x)).1.get z).prec = w.ctx.prec ∧
      ((step w (.cAbs z x)).1.get z).mode = w.ctx.mode ∧
      (step w (.cAbs z x)).2.1 = .ok ∧ (step w (.cAbs z x)).1.ctx = w.ctx ∧
      ∀ i, i ≠ z → (step w (.cAbs z x)).1.get i = w.get i :=
  Decimal.ctx_abs_correct w z x h hc hz hxz hx

theorem ctx_abs_correct_gen (w : World) (z x : Nat) (h : w.ctx.err = false) (hc : w.ctx.Valid)
    (hz : z < w.vars.length) (hx : Canon (ctxOpnd w z x)) :
    agrees ((step w (.cAbs z x)).1.get z)
        { roundSV w.ctx.mode w.ctx.prec (ofDec (ctxOpnd w z x)) with neg := false } = true ∧
      ((step w (.cAbs z x)).1.get z).prec = w.ctx.prec ∧
      ((step w (.cAbs z x)).1.get z).mode = w.ctx.mode ∧
      (step w (.cAbs z x)).2.1 = .ok ∧ (step w (.cAbs z x)).1.ctx = w.ctx ∧
      ∀ i, i ≠ z → (step w (.cAbs z x)).1.get i = w.get i :=
  Decimal.ctx_abs_correct_gen w z x h hc hz hx

/-! ### The receiver as an operand -/

/-- An operand that is not the receiver is the variable itself. -/
theorem ctxOpnd_other (w : World) (z i : Nat) (h : i ≠ z) : ctxOpnd w z i = w.get i :=
  Decimal.ctxOpnd_ne w h

/-- The receiver as an operand is the receiver after `apply`. -/
theorem ctxOpnd_self (w : World) (z : Nat) : ctxOpnd w z z = w.ctx.apply (w.get z) := by
  simp [ctxOpnd]

/-- `apply` is `SetMode` followed by `SetPrec` (which rounds iff the precision decreases). -/
theorem ctx_apply_eq (c : Ctx) (z : Dec) (hc : c.Valid) :
    c.apply z = setPrec (setMode z c.mode) c.prec :=
  Decimal.apply_eq_setPrec c z hc

/-- Receiver's precision ≤ context's: the aliased operand keeps its value, the aliased call is
    correctly rounded. -/
theorem ctxOpnd_self_no_round (w : World) (z : Nat) (hc : w.ctx.Valid)
    (hp : (w.get z).prec ≤ w.ctx.prec) (hx : FinCanon (w.get z)) :
    FinCanon (ctxOpnd w z z) ∧ ofDec (ctxOpnd w z z) = ofDec (w.get z) :=
  Decimal.ctxOpnd_self_no_round w z hc hp hx

/-- In a world of canonical variables (C08: every reachable world) each finite operand of a
    context operation is `Canon`, the pre-rounded receiver included. -/
theorem ctxOpnd_canon (w : World) (z i : Nat) (hz : (w.get z).Canonical) (hi : (w.get i).Canonical)
    (hf : (ctxOpnd w z i).form = .finite) : Canon (ctxOpnd w z i) :=
  Decimal.ctxOpnd_canon w z i hz hi hf

/-! ### Non-vacuity

  Variables: 0 = a receiver holding `−Inf` at precision 9 / `ToZero` (all of it irrelevant),
  1 = `123.45`, 2 = `−0.00995`, 3 = `1.5`; context `New(4, ToPositiveInf)`. -/

def wEx : World :=
  { vars := [{ form := .inf, neg := true, prec := 9, mode := .ToZero, acc := 1 }, C01.xEx, C01.yEx, C03.uEx],
    ctx := Ctx.new 4 .ToPositiveInf }

theorem wEx_valid : wEx.ctx.Valid := Ctx.new_valid 4 .ToPositiveInf

example : ∃ r, Spec.addSV .ToPositiveInf 4 (ofDec C01.xEx) (ofDec C01.yEx) = some r ∧
    agrees ((step wEx (.cAdd 0 1 2)).1.get 0) r = true ∧ ((step wEx (.cAdd 0 1 2)).1.get 0).prec = 4 :=
  let ⟨r, h1, h2, h3, _⟩ := ctx_add_correct wEx 0 1 2 rfl wEx_valid (by decide) (by decide) (by decide)
    C01.xEx_canon.1 C01.yEx_canon.1
  ⟨r, h1, h2, h3⟩
example : ∃ r, Spec.subSV .ToPositiveInf 4 (ofDec C01.xEx) (ofDec C01.yEx) = some r ∧
    agrees ((step wEx (.cSub 0 1 2)).1.get 0) r = true :=
  let ⟨r, h1, h2, _⟩ := ctx_sub_correct wEx 0 1 2 rfl wEx_valid (by decide) (by decide) (by decide)
    C01.xEx_canon.1 C01.yEx_canon.1
  ⟨r, h1, h2⟩
example : ∃ r, Spec.mulSV .ToPositiveInf 4 (ofDec C01.xEx) (ofDec C01.yEx) = some r ∧
    agrees ((step wEx (.cMul 0 1 2)).1.get 0) r = true :=
  let ⟨r, h1, h2, _⟩ := ctx_mul_correct wEx 0 1 2 rfl wEx_valid (by decide) (by decide) (by decide)
    C01.xEx_canon.1 C01.yEx_canon.1
  ⟨r, h1, h2⟩
example : ∃ r, Spec.quoSV .ToPositiveInf 4 (ofDec C01.xEx) (ofDec C01.yEx) = some r ∧
    agrees ((step wEx (.cQuo 0 1 2)).1.get 0) r = true :=
  let ⟨r, h1, h2, _⟩ := ctx_quo_correct wEx 0 1 2 rfl wEx_valid (by decide) (by decide) (by decide)
    C01.xEx_canon.1 C01.yEx_canon.1
  ⟨r, h1, h2⟩
example : ∃ r, Spec.fmaSV .ToPositiveInf 4 (ofDec C01.xEx) (ofDec C01.yEx) (ofDec C03.uEx) = some r ∧
    agrees ((step wEx (.cFma 0 1 2 3)).1.get 0) r = true :=
  let ⟨r, h1, h2, _⟩ := ctx_fma_correct wEx 0 1 2 3 rfl wEx_valid (by decide) (by decide) (by decide)
    (by decide) C01.xEx_canon.1 C01.yEx_canon.1 C03.uEx_canon.1
    (prodFits_of_prec C01.xEx_canon C01.yEx_canon (by decide))
    (by show MinExp ≤ intExp C01.xEx + intExp C01.yEx + (ndigits (C01.xEx.mant * C01.yEx.mant) : Int)
        rw [C03.prodEx_digits]; decide)
    (by show intExp C01.xEx + intExp C01.yEx + (ndigits (C01.xEx.mant * C01.yEx.mant) : Int) ≤ MaxExp
        rw [C03.prodEx_digits]; decide)
  ⟨r, h1, h2⟩
example : ∃ r, Spec.sqrtSV .ToPositiveInf 4 (ofDec C01.xEx) = some r ∧
    agreesValue ((step wEx (.cSqrt 0 1)).1.get 0) r = true :=
  let ⟨r, h1, h2, _⟩ := ctx_sqrt_correct wEx 0 1 rfl wEx_valid (by decide) (by decide) C01.xEx_canon.1 rfl
  ⟨r, h1, h2⟩
example : agrees ((step wEx (.cSet 0 1)).1.get 0) (roundSV .ToPositiveInf 4 (ofDec C01.xEx)) = true :=
  (ctx_set_correct wEx 0 1 rfl wEx_valid (by decide) C01.xEx_canon).1
/-- `ctx.Set(z, z)`: rounding in place. -/
example : agrees ((step wEx (.cSet 1 1)).1.get 1) (roundSV .ToPositiveInf 4 (ofDec C01.xEx)) = true :=
  (ctx_set_correct wEx 1 1 rfl wEx_valid (by decide) C01.xEx_canon).1
example : ((step wEx (.cNeg 0 2)).1.get 0).mode = .ToPositiveInf :=
  (ctx_neg_correct wEx 0 2 rfl wEx_valid (by decide) (by decide) C01.yEx_canon).2.2.1
example : ((step wEx (.cAbs 0 2)).1.get 0).prec = 4 :=
  (ctx_abs_correct wEx 0 2 rfl wEx_valid (by decide) (by decide) C01.yEx_canon).2.1
/-- Aliased and correctly rounded: `ctx.Add(u, u, x)` with `u.prec = 2 ≤ 4`. -/
example : ∃ r, Spec.addSV .ToPositiveInf 4 (ofDec C03.uEx) (ofDec C01.xEx) = some r ∧
    agrees ((step wEx (.cAdd 3 3 1)).1.get 3) r = true := by
  have hs := ctxOpnd_self_no_round wEx 3 wEx_valid (by decide) C03.uEx_canon.1
  have hx : ctxOpnd wEx 3 1 = C01.xEx := ctxOpnd_other wEx 3 1 (by decide)
  obtain ⟨r, h1, h2, -⟩ := ctx_add_correct_gen wEx 3 3 1 rfl wEx_valid (by decide) hs.1
    (by rw [hx]; exact C01.xEx_canon.1)
  rw [hs.2, hx] at h1
  exact ⟨r, h1, h2⟩

#print axioms ctx_new_valid
#print axioms ctx_add_correct
#print axioms ctx_add_correct_gen
#print axioms ctx_sub_correct
#print axioms ctx_sub_correct_gen
#print axioms ctx_mul_correct
#print axioms ctx_mul_correct_gen
#print axioms ctx_quo_correct
#print axioms ctx_quo_correct_gen
#print axioms ctx_fma_correct
#print axioms ctx_fma_correct_gen
#print axioms ctx_sqrt_correct
#print axioms ctx_sqrt_correct_gen
#print axioms ctx_neg_correct
#print axioms ctx_neg_correct_gen
#print axioms ctx_abs_correct
#print axioms ctx_abs_correct_gen
#print axioms ctx_set_correct
#print axioms ctxOpnd_other
#print axioms ctxOpnd_self
#print axioms ctx_apply_eq
#print axioms ctxOpnd_self_no_round
#print axioms ctxOpnd_canon

end Decimal.C19b
