/-
  C13 — Text output with an explicit precision (`Append` / `Text` for `e E f g G`) and `Format`
  (fmt verbs with flags, width and precision).

  Model: `DecimalModel/Text.lean` (`append`, `roundBelowQuantum`, `fmtE`, `fmtF`, `format`).
  Proofs: `Proofs/Format.lean`.

  With an explicit precision `Append` rounds a copy of `x` ONCE — to `p+1` significant digits for `%e`,
  to `x.exp + p` for `%f` (or, when that is `≤ 0`, to a multiple of the quantum `10^-p` through
  `roundBelowQuantum`), to `max p 1` for `%g` — under `x`'s own rounding mode, and then lays the digits
  out. The theorems below state the text in terms of the *specification's* rounding
  `r = Spec.roundSV x.mode n (ofDec x)` (`C01.set_correct`, `RoundCore.round_correct`): the digits are
  `natDigits r.coef` (`C11.natDigits_readback`: read back in base 10 they give `r.coef`), the exponent `r.exp`.

  Hypothesis `r.form = .finite` (no overflow past `MaxExp` when the rounding carries into a new decade)
  follows from `x.exp < MaxExp` (`roundSV_finite`). When it fails (`x.exp = MaxExp`, all kept digits 9,
  round up) the rounded copy is an infinity whose digits `toa` reports as empty: the model prints
  `0.00e+00` — see the remark at the end.
-/
import Proofs.Format
import Properties.C01
import Mathlib.Tactic.NormNum

namespace Decimal.C13
open Decimal Spec

/-! ### 4. `Format`: sign, padding, width -/

/--
  **format_flags.** For a supported verb, with `(f, prec)` the format and precision handed to `Append`:
  the text of `Append` is its sign (`-`, or `+` for `+Inf`) followed by a body that does not start with a
  sign character; `Format` writes the sign `-` for negative values, else for `+Inf` a `+` (a space under
  the ` ` flag without the `+` flag, as fmt does), else `+` under the `+` flag, else a space under the ` ` flag; the padding (to the width,
  if any) is zeros between sign and body under `0` without `-` for a non-infinite value, spaces on the
  right under `-`, spaces on the left otherwise; the result is at least `width` long, and `sign ++ body`
  when there is no width.
-/
theorem format_flags (x : Dec) (fl : FmtFlags) (verb : Char) (hv : okVerb verb = true) :
    let f := (fmtArgs fl verb).1
    let prec := (fmtArgs fl verb).2
    let sign : List Char :=
      if x.neg = true then ['-']
      else if x.form = .inf then (if fl.space = true ∧ fl.plus = false then [' '] else ['+'])
      else if fl.plus = true then ['+'] else if fl.space = true then [' '] else []
    let body := appendBody x f prec
    let pad : Nat := match fl.width with
      | some w => w - (sign.length + body.length)
      | none => 0
    (append x f prec = appendSign x ++ body ∧ HeadNotSign body) ∧
    format x fl verb =
      (if fl.zero = true ∧ fl.minus = false ∧ x.form ≠ .inf then sign ++ List.replicate pad '0' ++ body
       else if fl.minus = true then sign ++ body ++ List.replicate pad ' '
       else List.replicate pad ' ' ++ sign ++ body) ∧
    (∀ w, fl.width = some w → w ≤ (format x fl verb).length) ∧
    (fl.width = none → format x fl verb = sign ++ body) := by
  intro f prec sign body pad
  have hs : sign = fmtSignChars x fl := by
    show (if x.neg = true then ['-']
      else if x.form = .inf then (if fl.space = true ∧ fl.plus = false then [' '] else ['+'])
      else if fl.plus = true then ['+'] else if fl.space = true then [' '] else []) = fmtSignChars x fl
    unfold fmtSignChars
    simp only [beq_iff_eq, Bool.and_eq_true, Bool.not_eq_true']
  have hp : pad = fmtPad fl (fmtSignChars x fl) body := by rw [fmtPad_eq, ← hs]; rfl
  have hfe := format_eq x fl verb hv
  refine ⟨append_eq_sign_body x f prec (fmtArgs_known fl verb hv), ?_, ?_, ?_⟩
  · rw [hfe, hs, hp]
    unfold fmtLayout repeatChar
    by_cases h1 : (fl.zero && !fl.minus && x.form != .inf) = true
    · have h1' : fl.zero = true ∧ fl.minus = false ∧ x.form ≠ .inf := by
        simp only [Bool.and_eq_true, Bool.not_eq_true', bne_iff_ne, ne_eq] at h1
        exact ⟨h1.1.1, h1.1.2, h1.2⟩
      simp only [h1, if_true, if_pos h1']
      rfl
    · have h1' : ¬ (fl.zero = true ∧ fl.minus = false ∧ x.form ≠ .inf) := by
        intro ⟨a, b, c⟩
        apply h1
        simp only [Bool.and_eq_true, Bool.not_eq_true', bne_iff_ne, ne_eq]
        exact ⟨⟨a, b⟩, c⟩
      simp only [h1, Bool.false_eq_true, if_false, if_neg h1']
      rfl
  · intro w hw
    rw [hfe]; exact fmtLayout_width x fl _ _ w hw
  · intro hw
    rw [hfe, hs]; exact fmtLayout_noWidth x fl _ _ hw

/-- an unsupported verb: `%!v(*decimal.Decimal=…)` with the value in `%.10g`. -/
theorem format_badVerb (x : Dec) (fl : FmtFlags) (verb : Char) (hv : okVerb verb = false) :
    format x fl verb = "%!".toList ++ [verb] ++ "(*decimal.Decimal=".toList ++ append x 'g' 10 ++ [')'] :=
  Decimal.format_badVerb x fl verb hv

/-! ### 5. Special values -/

/-- **append_special (±Inf).** Every format and precision prints `+Inf` / `-Inf`. -/
theorem append_inf (x : Dec) (fmtc : Char) (prec : Int) (hinf : x.form = .inf) :
    append x fmtc prec = if x.neg then "-Inf".toList else "+Inf".toList :=
  Decimal.append_inf x fmtc prec hinf

/-- **append_special (±0).** Whatever the (meaningless) exponent field of the zero:
    `%e`/`%E` prints `[-]0.00…0e+00` with `p` zeros after the point (`[-]0e+00` for `p ≤ 0`, which includes
    the shortest form `p < 0`); `%f` prints `[-]0.00…0` (`[-]0` for `p ≤ 0`); `%g`/`%G` print `[-]0`. -/
theorem append_zero (x : Dec) (p : Int) (hz : x.form = .zero) :
    let sign : List Char := if x.neg = true then ['-'] else []
    let zeros : List Char := if p > 0 then '.' :: List.replicate p.toNat '0' else []
    append x 'e' p = sign ++ (['0'] ++ zeros ++ "e+00".toList) ∧
    append x 'E' p = sign ++ (['0'] ++ zeros ++ "E+00".toList) ∧
    append x 'f' p = sign ++ (['0'] ++ zeros) ∧
    append x 'g' p = sign ++ ['0'] ∧
    append x 'G' p = sign ++ ['0'] :=
  ⟨append_zero_e x 'e' p hz (Or.inl rfl), append_zero_e x 'E' p hz (Or.inr rfl), append_zero_f x p hz,
    append_zero_g x 'g' p hz (Or.inl rfl), append_zero_g x 'G' p hz (Or.inr rfl)⟩

/-! ### 1. `roundBelowQuantum` -/

/--
  **roundBelowQuantum_spec.** For a canonical finite `x` and `prec ≥ 0` with `x.exp + prec ≤ 0`
  (so `|x| < 10^x.exp ≤ 10^-prec`, third conjunct): the result is `±10^-prec` (`mant = 10^18`, `len = 1`,
  `exp = 1 − prec`) when rounding `|x|` to a multiple of the quantum `10^-prec` under `x.mode`, with `x`'s
  sign, goes up, and a zero of `x`'s sign otherwise. The decision, per mode — ToZero: never; AwayFromZero:
  always; ToNegativeInf: iff `x` is negative; ToPositiveInf: iff `x` is positive; ToNearestEven: iff
  `|x| > quantum/2` (a tie goes to the even multiple 0); ToNearestAway: iff `|x| ≥ quantum/2` — with
  `|x|` against `quantum/2` as the integer comparison `2·mant` against `10^a`,
  `a = −(x.exp + prec) + 19·len` (last two conjuncts: this *is* the rational comparison).
  No bound on `−x.exp − prec` is needed. The internal `Add` at precision 1 is discharged by
  `C01.add_correct_exact` (`Decimal.add_correct`) and `roundInt_eq_spec`.
-/
theorem roundBelowQuantum_spec (x : Dec) (prec : Int) (hx : FinCanon x) (hp : 0 ≤ prec)
    (hq : x.exp + prec ≤ 0) :
    let a : Nat := (-(x.exp + prec)).toNat + 19 * x.len
    let up : Prop := match x.mode with
      | .ToZero => False
      | .AwayFromZero => True
      | .ToNegativeInf => x.neg = true
      | .ToPositiveInf => x.neg = false
      | .ToNearestEven => 2 * x.mant > 10 ^ a
      | .ToNearestAway => 2 * x.mant ≥ 10 ^ a
    (up → roundBelowQuantum x prec =
      { form := .finite, neg := x.neg, mant := 10 ^ 18, len := 1, exp := 1 - prec, prec := DefaultPrec,
        mode := x.mode }) ∧
    (¬ up → roundBelowQuantum x prec = { form := .zero, neg := x.neg, prec := DefaultPrec, mode := x.mode }) ∧
    (x.mant : ℚ) * (10 : ℚ) ^ (intExp x) < (10 : ℚ) ^ (-prec) ∧
    (2 * x.mant > 10 ^ a ↔ (x.mant : ℚ) * (10 : ℚ) ^ (intExp x) > (10 : ℚ) ^ (-prec) / 2) ∧
    (2 * x.mant ≥ 10 ^ a ↔ (x.mant : ℚ) * (10 : ℚ) ^ (intExp x) ≥ (10 : ℚ) ^ (-prec) / 2) := by
  intro a up
  have heq := roundBelowQuantum_eq x prec hx hp hq
  have hup : quantumUp x prec = true ↔ up := by
    show upDecision x.mode x.neg x.mant (quantumGap x prec + 19 * x.len) = true ↔
      (match x.mode with
      | .ToZero => False
      | .AwayFromZero => True
      | .ToNegativeInf => x.neg = true
      | .ToPositiveInf => x.neg = false
      | .ToNearestEven => 2 * x.mant > 10 ^ a
      | .ToNearestAway => 2 * x.mant ≥ 10 ^ a)
    unfold upDecision
    cases x.mode <;> simp <;> rfl
  refine ⟨fun h => ?_, fun h => ?_, below_quantum x prec hx hq, (half_quantum_cmp x prec hq).1,
    (half_quantum_cmp x prec hq).2⟩
  · rw [heq, if_pos (hup.mpr h)]; rfl
  · have : ¬ quantumUp x prec = true := fun h' => h (hup.mp h')
    rw [heq, if_neg this]; rfl

/-! ### Rounding once; no overflow below `MaxExp` -/

/-- The finiteness hypothesis of the theorems below holds whenever `x.exp < MaxExp`. -/
theorem roundSV_finite (x : Dec) (hx : FinCanon x) (n : Nat) (hn : 1 ≤ n) (hlt : x.exp < MaxExp) :
    (roundSV x.mode n (ofDec x)).form = .finite :=
  roundSV_finite_of_exp_lt x hx n hn hlt

/--
  **rounded_copy.** The copy `Append` formats when it keeps `n ≥ 1` significant digits
  (`roundedCopy x n = if n < minPrec x then new(Decimal).SetMode(x.mode).SetPrec(n).Set(x) else x`) is `x`
  rounded once to `n` digits under `x`'s own mode (`C01.set_correct`): with `r` the specification's result,
  assumed finite, the copy is finite and normalised, has `r`'s sign and exponent, at most `n` significant
  digits, and these digits padded with zeros to `n` are `r.coef`.
-/
theorem rounded_copy (x : Dec) (hx : Canon x) (n : Nat) (hn : 1 ≤ n)
    (hfin : (roundSV x.mode n (ofDec x)).form = .finite) :
    let y := roundedCopy x n
    let r := roundSV x.mode n (ofDec x)
    y.form = .finite ∧ y.neg = x.neg ∧ r.neg = x.neg ∧ y.exp = r.exp ∧ 0 < y.mant ∧ ndigits y.mant = 19 * y.len ∧
      minPrec y ≤ n ∧ oddPart y.mant * 10 ^ (n - minPrec y) = r.coef ∧ ndigits r.coef = n :=
  roundedCopy_spec x hx n hn hfin

/-! ### 2. `%e` with an explicit precision -/

/--
  **append_e_digits.** For a canonical finite `x`, format `e` or `E`, explicit precision `p`: with
  `r = x` rounded once to `p+1` significant digits under `x`'s mode (finite), the text is
      `[-] d₀ [ . d₁…d_p ] e ± XX`
  where `d₀…d_p = natDigits r.coef` are exactly `p+1` digits (so exactly `p` after the point, and no point
  when `p = 0`), `±XX` is `r.exp − 1` written with at least two digits.  (`sciText D c e` =
  `[D.head] ++ (if 1 < |D| then '.' :: D.tail) ++ [c, ±] ++ (if |e| < 10 then "0") ++ natDigits |e|`.)
-/
theorem append_e_digits (x : Dec) (hx : Canon x) (c : Char) (hc : c = 'e' ∨ c = 'E') (p : Nat)
    (hfin : (roundSV x.mode (p + 1) (ofDec x)).form = .finite) :
    let r := roundSV x.mode (p + 1) (ofDec x)
    append x c p = (if x.neg = true then ['-'] else []) ++ sciText (natDigits r.coef) c (r.exp - 1) ∧
      (natDigits r.coef).length = p + 1 :=
  append_e_text x hx c hc p hfin

/-- The shape of `sciText` for a `(p+1)`-digit string: one digit, then `'.'` and `p` digits iff `p > 0`,
    the marker, a sign, and at least two exponent digits. -/
theorem sciText_shape (D : List Char) (c : Char) (e : Int) (p : Nat) (hD : D.length = p + 1) :
    ∃ d rest X, D = d :: rest ∧ rest.length = p ∧
      sciText D c e = [d] ++ (if p > 0 then '.' :: rest else []) ++ [c, if e < 0 then '-' else '+'] ++ X ∧
      2 ≤ X.length ∧ X = (if e.natAbs < 10 then ['0'] else []) ++ natDigits e.natAbs := by
  cases D with
  | nil => simp at hD
  | cons d rest =>
    have hr : rest.length = p := by simpa using hD
    refine ⟨d, rest, _, rfl, hr, ?_, ?_, rfl⟩
    · unfold sciText
      have : (1 < (d :: rest).length) = (p > 0) := by
        simp only [List.length_cons, hr]; exact propext (by omega)
      simp only [this, List.headD_cons, List.tail_cons, List.append_assoc]
    · by_cases h : e.natAbs < 10
      · have hl : 0 < (natDigits e.natAbs).length := by
          rw [natDigits_eq]; exact Nat.length_toDigits_pos
        simp only [h, if_true, List.length_append, List.length_cons, List.length_nil]; omega
      · have hl : (natDigits e.natAbs).length = ndigits e.natAbs := natDigits_length (by omega)
        have : 2 ≤ ndigits e.natAbs := by
          have := (lt_ndigits_iff e.natAbs 1).mpr (by omega); omega
        simp only [h, if_false, List.nil_append]; omega

/--
  **append_e_value.** The value denoted by the `%e` output, through the structured literals of
  `Proofs/Scan.lean` (`Lit10`: what `Parse` reads, `parse_lit`): the bytes of `append x 'e' p` are the
  rendering of the well-formed literal `sciLit x.neg r.coef (r.exp − 1)`, whose sign is `x`'s, whose
  mantissa digits read as a number are `r.coef`, and whose exponent (the written one minus the `p` fraction
  digits) is `r.exp − (p + 1)`: the text denotes `(−1)^neg × r.coef × 10^(r.exp − (p+1))`, which is the
  value of `r = Spec.roundSV x.mode (p+1) (ofDec x)`.
-/
theorem append_e_value (x : Dec) (hx : Canon x) (p : Nat)
    (hfin : (roundSV x.mode (p + 1) (ofDec x)).form = .finite) :
    let r := roundSV x.mode (p + 1) (ofDec x)
    let l := sciLit x.neg r.coef (r.exp - 1)
    (append x 'e' p).map Char.toNat = l.render ∧ l.WF ∧ l.sign = x.neg ∧ l.coef = r.coef ∧
      l.exp10 = r.exp - ((p : Int) + 1) ∧ ndigits r.coef = p + 1 ∧ r.neg = x.neg := by
  intro r l
  obtain ⟨h1, _⟩ := append_e_text x hx 'e' (Or.inl rfl) p hfin
  obtain ⟨k1, _, k2, k3, _, _, _, _, k9⟩ := roundedCopy_spec x hx (p + 1) (by omega) hfin
  have hcpos : 0 < r.coef := by
    rcases Nat.eq_zero_or_pos r.coef with h0 | h0
    · have : ndigits r.coef = p + 1 := k9
      rw [h0, ndigits_zero] at this; omega
    · exact h0
  have hrr : r = Spec.round x.mode (p + 1) x.neg (x.mant : ℚ) (intExp x) :=
    roundSV_ofDec_finite x hx.1.form_eq x.mode (p + 1)
  have hrange : MinExp ≤ r.exp ∧ r.exp ≤ MaxExp := by
    rw [hrr]; exact round_exp_range _ _ _ _ _ (by rw [← hrr]; exact hfin)
  have hMin : MinExp = -2147483648 := rfl
  have hMax : MaxExp = 2147483647 := rfl
  refine ⟨?_, sciLit_wf _ _ _ (by omega) (by omega), sciLit_sign _ _ _, sciLit_coef _ _ _, ?_, k9, k2⟩
  · rw [h1]; exact sciText_bytes x.neg r.coef (r.exp - 1)
  · rw [sciLit_exp10 _ _ _ hcpos]
    have : ndigits r.coef = p + 1 := k9
    rw [this]; push_cast; omega

/-! ### 3. `%f` with an explicit precision -/

/--
  **append_f_layout (at or above the quantum).** For a canonical finite `x` and `%.pf` with
  `n = x.exp + p ≥ 1` digits kept: with `r = x` rounded once to `n` significant digits under `x`'s mode
  (finite), `D = natDigits r.coef` read as `0.D × 10^r.exp`, the text is `[-] ip [ . fp ]` where the integer
  part `ip` is the digits of `D` at positions `0 … r.exp−1`, positions past the end of `D` being `0` (or the
  single `0` when `r.exp ≤ 0`), and — iff `p > 0` — a point and exactly `p` fraction digits, those of `D` at
  positions `r.exp … r.exp+p−1` (`0` for positions before the first digit or past the last).
-/
theorem append_f_layout (x : Dec) (hx : Canon x) (p n : Nat) (hn : x.exp + (p : Int) = n) (hn1 : 1 ≤ n)
    (hfin : (roundSV x.mode n (ofDec x)).form = .finite) :
    let r := roundSV x.mode n (ofDec x)
    let D := natDigits r.coef
    append x 'f' p = (if x.neg = true then ['-'] else []) ++
      ((if r.exp > 0 then (List.range r.exp.toNat).map (fun i => D.getD i '0') else ['0']) ++
       (if (p : Int) > 0 then
          '.' :: (List.range p).map (fun (i : Nat) =>
            if 0 ≤ r.exp + (i : Int) then D.getD (r.exp + (i : Int)).toNat '0' else '0')
        else [])) ∧
      D.length = n := by
  intro r D
  have h := append_f_text x hx p n hn hn1 hfin
  obtain ⟨_, _, _, _, _, _, _, _, k9⟩ := roundedCopy_spec x hx n hn1 hfin
  have hcpos : 0 < r.coef := by
    rcases Nat.eq_zero_or_pos r.coef with h0 | h0
    · have : ndigits r.coef = n := k9
      rw [h0, ndigits_zero] at this; omega
    · exact h0
  refine ⟨?_, ?_⟩
  · rw [h]; unfold fixText digitAtPos signChars
    simp only [Int.toNat_natCast]
    rfl
  · show (natDigits r.coef).length = n
    rw [natDigits_length hcpos]; exact k9

/--
  **append_f_layout (below the quantum).** For a canonical finite `x` and `%.pf` with `x.exp + p ≤ 0`
  (`|x| < 10^-p`): the digits are those of `roundBelowQuantum x p`: the text is `[-]0.00…0` (`p` zeros;
  `[-]0` when `p = 0`) or `[-]0.0…01` (`[-]1` when `p = 0`), the latter exactly when rounding `x` to a
  multiple of `10^-p` under `x`'s mode goes up (`quantumUp`, spelled out in `roundBelowQuantum_spec`).
-/
theorem append_f_below_quantum (x : Dec) (hx : FinCanon x) (p : Nat) (hq : x.exp + (p : Int) ≤ 0) :
    roundBelowQuantum x p = (if quantumUp x p then quantumDec x p else zeroDec x) ∧
    append x 'f' p = (if x.neg = true then ['-'] else []) ++
      (if quantumUp x p then (if p = 0 then ['1'] else ['0', '.'] ++ List.replicate (p - 1) '0' ++ ['1'])
       else ['0'] ++ (if p > 0 then '.' :: List.replicate p '0' else [])) :=
  ⟨roundBelowQuantum_eq x p hx (by omega) hq, append_f_below x hx p hq⟩

/-! ### 6. `%g`: the `%e` / `%f` choice -/

/--
  **append_g_choice.** For a canonical finite `x`, format `g` or `G`, explicit precision `p` (`P = max p 1`
  digits): with `r = x` rounded once to `P` digits under `x`'s mode (finite), `sig` its coefficient without
  trailing zeros, `digits = ndigits sig`, and `X = r.exp − 1` the exponent of the first digit of the ROUNDED
  value: the `%e` layout (marker `e` for `g`, `E` for `G`) is used iff `X < −4 ∨ X ≥ eprec`, where
  `eprec = digits` when `P > digits ∧ digits ≥ r.exp` and `eprec = P` otherwise; it shows the digits of
  `sig` (no trailing zeros). Otherwise the `%f` layout of the same digits with
  `max ((if P > r.exp then digits else P) − r.exp) 0` fraction digits is used.
-/
theorem append_g_choice (x : Dec) (hx : Canon x) (c : Char) (hc : c = 'g' ∨ c = 'G') (p : Nat)
    (hfin : (roundSV x.mode (if p = 0 then 1 else p) (ofDec x)).form = .finite) :
    let P : Nat := if p = 0 then 1 else p
    let r := roundSV x.mode P (ofDec x)
    let sig := oddPart r.coef
    let digits : Int := ndigits sig
    let X : Int := r.exp - 1
    let eprec : Int := if (P : Int) > digits ∧ digits ≥ r.exp then digits else P
    append x c p = (if x.neg = true then ['-'] else []) ++
      (if X < -4 ∨ X ≥ eprec then sciText (natDigits sig) (if c = 'g' then 'e' else 'E') X
       else fixText (natDigits sig) r.exp (max ((if (P : Int) > r.exp then digits else P) - r.exp) 0)) ∧
      (natDigits sig).length = digits ∧ sig % 10 ≠ 0 := by
  intro P r sig digits X eprec
  have h := append_g_text x hx c hc p hfin
  have hP1 : 1 ≤ P := by show 1 ≤ (if p = 0 then 1 else p); split <;> omega
  obtain ⟨_, _, _, _, _, _, _, _, k9⟩ := roundedCopy_spec x hx P hP1 hfin
  have hcpos : 0 < r.coef := by
    rcases Nat.eq_zero_or_pos r.coef with h0 | h0
    · have : ndigits r.coef = P := k9
      rw [h0, ndigits_zero] at this; omega
    · exact h0
  have hlen : (natDigits sig).length = ndigits sig := natDigits_length (oddPart_pos hcpos)
  refine ⟨?_, by show ((natDigits sig).length : Int) = ((ndigits sig : Nat) : Int); rw [hlen],
    (trailingZeros_spec hcpos).2⟩
  rw [h]
  unfold gText gUsesE signChars
  rw [hlen]
  congr 1
  by_cases hcond : X < -4 ∨ X ≥ eprec
  · have : (decide (r.exp - 1 < -4) || decide (r.exp - 1 ≥ eprec)) = true := by
      simp only [Bool.or_eq_true, decide_eq_true_eq]; exact hcond
    rw [if_pos hcond, if_pos this]
    congr 1
    by_cases hg : c = 'g' <;> simp [hg]
  · have : ¬ (decide (r.exp - 1 < -4) || decide (r.exp - 1 ≥ eprec)) = true := by
      simp only [Bool.or_eq_true, decide_eq_true_eq]; exact hcond
    rw [if_neg hcond, if_neg this]

/--
  **append_g_choice (shortest).** With a negative precision nothing is rounded, all `minPrec x` digits are
  shown, and the decision uses `eprec = 6`: `%e` iff `x.exp − 1 < −4 ∨ x.exp − 1 ≥ 6`; the `%f` layout has
  `max (minPrec x − x.exp) 0` fraction digits.
-/
theorem append_g_choice_shortest (x : Dec) (hx : FinCanon x) (c : Char) (hc : c = 'g' ∨ c = 'G')
    (p : Int) (hp : p < 0) :
    let O := natDigits (oddPart x.mant)
    let X : Int := x.exp - 1
    append x c p = (if x.neg = true then ['-'] else []) ++
      (if X < -4 ∨ X ≥ 6 then sciText O (if c = 'g' then 'e' else 'E') X
       else fixText O x.exp (max ((minPrec x : Int) - x.exp) 0)) ∧
      O.length = minPrec x := by
  intro O X
  have hnd : ndigits x.mant = 19 * x.len := by rw [hx.nd, Nat.mul_comm]
  have h := append_g_shortest x hx.form_eq hx.mant_pos hnd c hc p hp
  have hlen : O.length = minPrec x := by
    show (natDigits (oddPart x.mant)).length = _
    rw [natDigits_length (oddPart_pos hx.mant_pos), ndigits_oddPart x hx.form_eq hnd]
  refine ⟨?_, hlen⟩
  rw [h]
  unfold gText gUsesE signChars
  congr 1
  have hO : (natDigits (oddPart x.mant)).length = minPrec x := hlen
  rw [hO]
  have hmax : max ((if (minPrec x : Int) > x.exp then (minPrec x : Int) else (minPrec x : Int)) - x.exp) 0
      = max ((minPrec x : Int) - x.exp) 0 := by split <;> rfl
  rw [hmax]
  by_cases hcond : X < -4 ∨ X ≥ 6
  · have : (decide (x.exp - 1 < -4) || decide (x.exp - 1 ≥ 6)) = true := by
      simp only [Bool.or_eq_true, decide_eq_true_eq]; exact hcond
    rw [if_pos hcond, if_pos this]
    congr 1
    by_cases hg : c = 'g' <;> simp [hg]
  · have : ¬ (decide (x.exp - 1 < -4) || decide (x.exp - 1 ≥ 6)) = true := by
      simp only [Bool.or_eq_true, decide_eq_true_eq]; exact hcond
    rw [if_neg hcond, if_neg this]

/-! ### Non-vacuity: concrete operands

  `C01.xEx` = `123.45` (precision 5, ToNearestEven), `C01.yEx` = `−0.00995` (precision 3, ToNearestEven). -/

-- #eval String.ofList (format C01.xEx { width := some 12, zero := true, plus := true } 'f')   -- "+0123.450000"
-- #eval String.ofList (append C01.xEx 'e' 2)    -- "1.23e+02"
-- #eval String.ofList (append C01.xEx 'f' 1)    -- "123.4"   (ToNearestEven: 123.45 → 123.4)
-- #eval String.ofList (append C01.xEx 'g' 3)    -- "123"
-- #eval String.ofList (append C01.yEx 'f' 2)    -- "-0.01"
-- #eval String.ofList (append C01.yEx 'g' (-1)) -- "-0.00995"

/-- `%+012f` of `123.45`: sign `+`, zero padding between sign and digits, total length ≥ 12. -/
example :
    let fl : FmtFlags := { width := some 12, zero := true, plus := true }
    format C01.xEx fl 'f' =
        ['+'] ++ List.replicate (12 - (1 + (appendBody C01.xEx 'f' 6).length)) '0' ++ appendBody C01.xEx 'f' 6 ∧
      12 ≤ (format C01.xEx fl 'f').length := by
  intro fl
  obtain ⟨_, h2, h3, _⟩ := format_flags C01.xEx fl 'f' rfl
  exact ⟨h2, h3 12 rfl⟩

/-- `%-8.2e` of `−0.00995`: sign `-`, spaces on the right. -/
example :
    let fl : FmtFlags := { width := some 8, minus := true, zero := true, prec := some 2 }
    format C01.yEx fl 'e' =
      ['-'] ++ appendBody C01.yEx 'e' 2 ++ List.replicate (8 - (1 + (appendBody C01.yEx 'e' 2).length)) ' ' := by
  intro fl
  exact (format_flags C01.yEx fl 'e' rfl).2.1

example : append { form := .inf, neg := true } 'x' 3 = "-Inf".toList := append_inf _ _ _ rfl
example : append { form := .inf } 'f' (-1) = "+Inf".toList := append_inf _ _ _ rfl
example : append { form := .zero, neg := true, exp := 55 } 'e' 3 = "-0.000e+00".toList :=
  (append_zero { form := .zero, neg := true, exp := 55 } 3 rfl).1
example : append { form := .zero } 'f' 2 = "0.00".toList := (append_zero { form := .zero } 2 rfl).2.2.1
example : append { form := .zero, neg := true } 'g' 7 = "-0".toList :=
  (append_zero { form := .zero, neg := true } 7 rfl).2.2.2.1

/-- `−0.00995` to two places (nearest even): `2·mant = 1.99·10^19 > 10^19`, so `−0.01`. -/
example : roundBelowQuantum C01.yEx 2 =
    { form := .finite, neg := true, mant := 10 ^ 18, len := 1, exp := -1, prec := DefaultPrec, mode := .ToNearestEven } :=
  (roundBelowQuantum_spec C01.yEx 2 C01.yEx_canon.1 (by decide) (by decide)).1
    (by show 2 * 9950000000000000000 > 10 ^ 19; norm_num)

/-- a tie: `0.005` to two places is `0.00` to nearest even and `0.01` to nearest away. -/
private def tieEx (mode : Mode) : Dec := ⟨.finite, false, 5000000000000000000, 1, -2, 1, mode, 0⟩

private theorem tieEx_canon (mode : Mode) : FinCanon (tieEx mode) :=
  ⟨rfl, (by decide : 0 < 1), ndigits_unique (by norm_num [tieEx]) (by norm_num [tieEx]) (by norm_num [tieEx]),
    (by decide : 1 ≤ 1), (by decide : MinExp ≤ -2), (by decide : (-2 : Int) ≤ MaxExp)⟩

example : roundBelowQuantum (tieEx .ToNearestEven) 2 = { form := .zero, neg := false, prec := DefaultPrec } :=
  (roundBelowQuantum_spec (tieEx .ToNearestEven) 2 (tieEx_canon _) (by decide) (by decide)).2.1
    (by show ¬ (2 * 5000000000000000000 > 10 ^ 19); norm_num)

example : roundBelowQuantum (tieEx .ToNearestAway) 2 =
    { form := .finite, neg := false, mant := 10 ^ 18, len := 1, exp := -1, prec := DefaultPrec, mode := .ToNearestAway } :=
  (roundBelowQuantum_spec (tieEx .ToNearestAway) 2 (tieEx_canon _) (by decide) (by decide)).1
    (by show 2 * 5000000000000000000 ≥ 10 ^ 19; norm_num)

example : append (tieEx .ToNearestEven) 'f' 2 = "0.00".toList :=
  (append_f_below_quantum (tieEx .ToNearestEven) (tieEx_canon _) 2 (by decide)).2
example : append (tieEx .ToNearestAway) 'f' 2 = "0.01".toList :=
  (append_f_below_quantum (tieEx .ToNearestAway) (tieEx_canon _) 2 (by decide)).2
example : append C01.yEx 'f' 2 = "-0.01".toList :=
  (append_f_below_quantum C01.yEx C01.yEx_canon.1 2 (by decide)).2

private theorem xEx_fin (n : Nat) (hn : 1 ≤ n) : (roundSV C01.xEx.mode n (ofDec C01.xEx)).form = .finite :=
  roundSV_finite C01.xEx C01.xEx_canon.1 n hn (by decide)

/-- `%.2e` of `123.45`: three digits, those of `123.45` rounded to 3 digits. -/
example : append C01.xEx 'e' 2 =
      [] ++ sciText (natDigits (roundSV .ToNearestEven 3 (ofDec C01.xEx)).coef) 'e'
        ((roundSV .ToNearestEven 3 (ofDec C01.xEx)).exp - 1) ∧
    (natDigits (roundSV .ToNearestEven 3 (ofDec C01.xEx)).coef).length = 3 :=
  append_e_digits C01.xEx C01.xEx_canon 'e' (Or.inl rfl) 2 (xEx_fin 3 (by decide))

example : ∃ l : Lit10, (append C01.xEx 'e' 2).map Char.toNat = l.render ∧ l.WF ∧ l.sign = false ∧
    l.coef = (roundSV .ToNearestEven 3 (ofDec C01.xEx)).coef :=
  let ⟨h1, h2, h3, h4, _⟩ := append_e_value C01.xEx C01.xEx_canon 2 (xEx_fin 3 (by decide)); ⟨_, h1, h2, h3, h4⟩

/-- `%.1f` of `123.45`: `3 + 1 = 4` digits kept. -/
example : (natDigits (roundSV .ToNearestEven 4 (ofDec C01.xEx)).coef).length = 4 :=
  (append_f_layout C01.xEx C01.xEx_canon 1 4 (by decide) (by decide) (xEx_fin 4 (by decide))).2

/-- `%.3g` of `123.45`. -/
example : (oddPart (roundSV .ToNearestEven 3 (ofDec C01.xEx)).coef) % 10 ≠ 0 :=
  (append_g_choice C01.xEx C01.xEx_canon 'g' (Or.inl rfl) 3 (xEx_fin 3 (by decide))).2.2

example : (natDigits (oddPart C01.yEx.mant)).length = minPrec C01.yEx :=
  (append_g_choice_shortest C01.yEx C01.yEx_canon.1 'g' (Or.inl rfl) (-1) (by decide)).2

/-! ### Remark: the overflow edge (not covered: `r.form = .inf`)

  When `x.exp = MaxExp`, the kept digits are all 9 and the mode rounds up, the rounded copy made by
  `SetMode(x.mode).SetPrec(n).Set(x)` overflows to an infinity; `toa` reports no digits for a non-finite
  value, so the model — and the Go code, checked on the pinned tree — prints zeros:
  `Text('e', 2)` of `9.995e2147483646` is `0.00e+00`, `Text('g', 2)` is `0`.
  -- #eval String.ofList (append ⟨.finite, false, 9995000000000000000, 1, 2147483647, 4, .ToNearestEven, 0⟩ 'e' 2)  -- "0.00e+00"
-/

#print axioms format_flags
#print axioms format_badVerb
#print axioms append_inf
#print axioms append_zero
#print axioms roundBelowQuantum_spec
#print axioms roundSV_finite
#print axioms rounded_copy
#print axioms append_e_digits
#print axioms sciText_shape
#print axioms append_e_value
#print axioms append_f_layout
#print axioms append_f_below_quantum
#print axioms append_g_choice
#print axioms append_g_choice_shortest

end Decimal.C13
