/-
  C16 — `Cmp` is the order of the exact values (L1 model).

  `Canonical x` (Proofs/Cmp.lean), for a finite `x`:
      `0 < x.len ∧ 10^(19·x.len − 1) ≤ x.mant ∧ x.mant < 10^(19·x.len)`
  i.e. the mantissa vector is non-empty and its top word has a non-zero top digit
  (`ndigits x.mant = 19·x.len`); the value of `x` is `(−1)^neg · x.mant · 10^(x.exp − 19·x.len)`.

  Main theorem `cmp_spec`: for operands whose finite members are canonical,
  `cmp x y = Spec.cmpSV (Spec.ofDec x) (Spec.ofDec y)`, the specification's order
  `−Inf < negative finite < ±0 < positive finite < +Inf` with the finite magnitudes compared as
  exact rationals.  `ucmp_spec` is the same fact over integers (no `Rat`): `ucmp x y` is the
  three-way comparison of the two magnitudes scaled by the common factor
  `10^(19·x.len + 19·y.len − min x.exp y.exp)`.

  The order properties (`cmp_refl` … `cmp_lt_of_le_of_lt`) need no canonicity at all.
-/
import Proofs.Cmp
import Proofs.CmpSpec

namespace Decimal.C16

open Decimal Spec

/-- `Cmp` agrees with the order of the exact values. -/
theorem cmp_spec (x y : Dec) (cx : x.form = .finite → Canonical x)
    (cy : y.form = .finite → Canonical y) : cmp x y = cmpSV (ofDec x) (ofDec y) :=
  Decimal.cmp_eq_cmpSV x y cx cy

/-- The magnitude comparison of the specification is `ucmp`. -/
theorem ucmp_cmpMag (x y : Dec) (cx : Canonical x) (cy : Canonical y) :
    ucmp x y =
      cmpMag (x.mant : Rat) (x.exp - (x.len * DW : Nat)) (y.mant : Rat) (y.exp - (y.len * DW : Nat)) :=
  (Decimal.cmpMag_canonical x y cx cy).symm

/-- Integer form: `|x| = x.mant·10^(x.exp − 19·x.len)` against `|y|`, both multiplied by
    `10^(19·x.len + 19·y.len − min x.exp y.exp)` (`cmp3 a b = −1/0/1` for `a <,=,> b`). -/
theorem ucmp_spec (x y : Dec) (cx : Canonical x) (cy : Canonical y) :
    ucmp x y =
      cmp3 (x.mant * 10 ^ (DW * y.len + (x.exp - y.exp).toNat))
        (y.mant * 10 ^ (DW * x.len + (y.exp - x.exp).toNat)) :=
  Decimal.ucmp_spec x y cx cy

/-- A smaller exponent means a strictly smaller magnitude (cross-multiplied powers of ten;
    `d = y.exp − x.exp ≥ 1`). -/
theorem mag_lt_of_exp_lt (x y : Dec) (cx : Canonical x) (cy : Canonical y) (d : Nat) (hd : 1 ≤ d) :
    x.mant * 10 ^ (DW * y.len) < y.mant * 10 ^ (DW * x.len + d) :=
  Decimal.mag_lt_of_exp_lt cx cy d hd

/-- With equal exponents `ucmp` compares the mantissas padded to any common length. -/
theorem ucmp_padded (x y : Dec) (L : Nat) (hx : x.len ≤ L) (hy : y.len ≤ L) (he : x.exp = y.exp) :
    ucmp x y = cmp3 (x.mant * B ^ (L - x.len)) (y.mant * B ^ (L - y.len)) :=
  Decimal.ucmp_padded x y L hx hy he

-- 0.1e1 = 1 and 0.1000…e1 (two words): canonical, equal, `cmp = 0`.
example : Canonical { form := .finite, mant := 1000000000000000000, len := 1, exp := 1 } := by
  refine ⟨by decide, ?_, ?_⟩ <;> decide
example :
    cmp { form := .finite, mant := 1000000000000000000, len := 1, exp := 1 }
      { form := .finite, mant := 10000000000000000000000000000000000000, len := 2, exp := 1 } = 0 := by
  decide
example :
    cmp { form := .finite, mant := 1000000000000000000, len := 1, exp := 1 }
      { form := .finite, mant := 2000000000000000000, len := 1, exp := 1 } = -1 := by
  decide

-- `cmp_spec` instantiated on a canonical operand and a zero (hypotheses satisfiable).
example :
    cmp { form := .finite, mant := 1000000000000000000, len := 1, exp := 1 } {} =
      cmpSV (ofDec { form := .finite, mant := 1000000000000000000, len := 1, exp := 1 }) (ofDec {}) :=
  cmp_spec _ _ (fun _ => ⟨by decide, by decide, by decide⟩) (fun h => by cases h)

/-! ### Order properties (no canonicity needed) -/

theorem cmp_refl (x : Dec) : cmp x x = 0 := Decimal.cmp_refl x
theorem cmp_antisymm (x y : Dec) : cmp x y = - cmp y x := Decimal.cmp_antisymm x y
theorem cmp_range (x y : Dec) : cmp x y = -1 ∨ cmp x y = 0 ∨ cmp x y = 1 := Decimal.cmp_range x y
theorem cmp_le_trans (x y z : Dec) (h1 : cmp x y ≤ 0) (h2 : cmp y z ≤ 0) : cmp x z ≤ 0 :=
  Decimal.cmp_le_trans h1 h2
theorem cmp_eq_trans (x y z : Dec) (h1 : cmp x y = 0) (h2 : cmp y z = 0) : cmp x z = 0 :=
  Decimal.cmp_eq_trans h1 h2
theorem cmp_lt_of_lt_of_le (x y z : Dec) (h1 : cmp x y = -1) (h2 : cmp y z ≤ 0) : cmp x z = -1 :=
  Decimal.cmp_lt_of_lt_of_le h1 h2
theorem cmp_lt_of_le_of_lt (x y z : Dec) (h1 : cmp x y ≤ 0) (h2 : cmp y z = -1) : cmp x z = -1 :=
  Decimal.cmp_lt_of_le_of_lt h1 h2
/-- Strict transitivity. -/
theorem cmp_trans (x y z : Dec) (h1 : cmp x y = -1) (h2 : cmp y z = -1) : cmp x z = -1 :=
  Decimal.cmp_lt_of_lt_of_le h1 (by omega)

example : cmp { form := .inf, neg := true } {} = -1 ∧ cmp {} { form := .inf } = -1 := by decide

/-! ### Zeros, infinities, sign -/

/-- `−0 = +0`. -/
theorem cmp_zero_signs (x y : Dec) (hx : x.form = .zero) (hy : y.form = .zero) : cmp x y = 0 :=
  Decimal.cmp_zero_signs x y hx hy
theorem cmp_neg_inf_below (x y : Dec) (hx : x.form = .inf) (nx : x.neg = true)
    (hy : ¬(y.form = .inf ∧ y.neg = true)) : cmp x y = -1 :=
  Decimal.cmp_neg_inf_lt x y hx nx hy
theorem cmp_pos_inf_above (x y : Dec) (hy : y.form = .inf) (ny : y.neg = false)
    (hx : ¬(x.form = .inf ∧ x.neg = false)) : cmp x y = -1 :=
  Decimal.cmp_lt_pos_inf x y hy ny hx
theorem cmp_inf_inf (x y : Dec) (hx : x.form = .inf) (hy : y.form = .inf) (h : x.neg = y.neg) :
    cmp x y = 0 :=
  Decimal.cmp_inf_inf x y hx hy h
/-- Against a zero `cmp` is the sign of the other operand. -/
theorem cmp_zero_right (x y : Dec) (hy : y.form = .zero) :
    cmp x y = if x.form = .zero then 0 else if x.neg then -1 else 1 :=
  Decimal.cmp_zero_right x y hy
theorem cmp_zero_left (x y : Dec) (hx : x.form = .zero) :
    cmp x y = if y.form = .zero then 0 else if y.neg then 1 else -1 :=
  Decimal.cmp_zero_left x y hx

example : cmp { neg := true } {} = 0 := cmp_zero_signs _ _ rfl rfl

#print axioms cmp_spec
#print axioms ucmp_cmpMag
#print axioms ucmp_spec
#print axioms mag_lt_of_exp_lt
#print axioms ucmp_padded
#print axioms cmp_refl
#print axioms cmp_antisymm
#print axioms cmp_range
#print axioms cmp_le_trans
#print axioms cmp_eq_trans
#print axioms cmp_lt_of_lt_of_le
#print axioms cmp_lt_of_le_of_lt
#print axioms cmp_trans
#print axioms cmp_zero_signs
#print axioms cmp_neg_inf_below
#print axioms cmp_pos_inf_above
#print axioms cmp_inf_inf
#print axioms cmp_zero_right
#print axioms cmp_zero_left

end Decimal.C16
