/-
  C01W — the word-level (L0) model of decimal.go's arithmetic core REFINES the L1 model.

  `DecimalModel/L0Decimal.lean` (namespace `Decimal.W`) follows decimal.go statement by statement with
  the mantissa as a list of base-10^19 words and every `dec`-level call (`shl add sub mul sqr div`,
  `digit`, `sticky`, `add10VW`, `shl10VU`, `nlz10`, slicing, indexing) modelled by the L0 function
  that is proved against `natOf` in C06. The L1 model (`Round.lean`, `Arith.lean`) has the mantissa
  as ONE natural number and arithmetic in place of those calls; all of C01 is about L1.
  Here: through the abstraction `abs` (value of the words, number of words, other fields equal)

      abs (W.f …words…) = Decimal.f (abs …)          f ∈ round, setExpAndRound, uadd, umul, uquo, ucmp,
                                                         Set, SetPrec, Mul, Quo
      obsEq (abs (W.f …)) (Decimal.f (abs …))          f ∈ usub, Add, Sub   (see `usub_refines`)

  and the word-level function never fails (no index panic in `round`/`dnorm`, no "underflow" of
  `dec.sub`, no failure of `dec.div`), for operands whose mantissa is a non-empty list of words
  below 10^19 with a non-zero top digit.  Composed with C01: the WORDS left by the word-level
  `Add Sub Mul Quo` are the specification's result (`*_correct_words`).

  Final statements only; proofs in `Proofs/RefineLemmas.lean`, `RefineRound.lean`, `RefineArith.lean`,
  `RefineOps.lean`, `RefineBridge.lean`.
-/
import Proofs.RefineBridge
import Properties.C01

namespace Decimal.C01W
open Decimal Decimal.W

/-! ### the small dec.go functions transcribed in the W model -/

/-- `x.digit(i)` is the `i`-th decimal digit of the value, for every `i`. -/
theorem digit_spec (x : List Nat) (hx : L0.WF x) (i : Nat) : W.digit x i = digitAt (natOf x) i :=
  W.digit_spec x hx i

/-- `x.sticky(i)` for a position inside the vector. -/
theorem sticky_spec (x : List Nat) (hx : L0.WF x) (i : Nat) (hi : i / 19 < x.length) :
    W.sticky x i = if stickyBelow (natOf x) i then 1 else 0 :=
  W.sticky_spec x hx i hi

/-- `dnorm(m)` on a normalised non-empty vector: the shift is `19·len − ndigits`, the value is
    multiplied by `10^shift`, the length is kept (the dropped carry of `shl10VU` is zero). -/
theorem dnorm_spec (x : List Nat) (hx : L0.WF x) (hn : L0.Normalized x) (hne : x ≠ []) :
    ∃ m', W.dnorm x = .ok (m', dnormShift (natOf x) (nwords (natOf x)))
      ∧ natOf m' = natOf x * 10 ^ dnormShift (natOf x) (nwords (natOf x))
      ∧ m'.length = x.length ∧ L0.WF m' :=
  W.dnorm_spec x hx hn hne

/-- a normalised vector of words below `B` has exactly `nwords (value)` words. -/
theorem length_eq_nwords (x : List Nat) (hx : L0.WF x) (hn : L0.Normalized x) :
    x.length = nwords (natOf x) :=
  W.length_eq_nwords x hx hn

/-- "the top word's top digit is non-zero", on the word and on the value. -/
theorem nd_iff_top (x : List Nat) (hx : L0.WF x) (hne : x ≠ []) :
    ndigits (natOf x) = x.length * 19 ↔ 1000000000000000000 ≤ x.getD (x.length - 1) 0 :=
  W.nd_iff_top x hx hne

/-! ### round -/

/-- `round`: for a finite receiver with words below `B` and a non-zero precision (or a mantissa
    that fits anyway; with precision 0 Go indexes `z.mant[-1]`), and a sticky bit in {0,1}:
    no index panic, and the abstraction of the result is the L1 `round` of the abstraction. -/
theorem round_refines (w : WDec) (sbit : Nat) (hs : sbit ≤ 1) (hw : RoundPre w) :
    ∃ w', W.round w sbit = .ok w' ∧ W.abs w' = Decimal.round (W.abs w) (sbit != 0)
      ∧ (L0.WF w.mant → L0.WF w'.mant) ∧ w'.mant.length ≤ w.mant.length :=
  W.round_refines w sbit hs hw

theorem round_no_error (w : WDec) (sbit : Nat) (hs : sbit ≤ 1) (hw : RoundPre w) (e : String) :
    W.round w sbit ≠ .error e :=
  W.round_no_error w sbit hs hw e

theorem setExpAndRound_refines (w : WDec) (exp : Int) (sbit : Nat) (hs : sbit ≤ 1)
    (hwf : L0.WF w.mant) (hp : 1 ≤ w.prec ∨ w.mant.length * 19 ≤ w.prec) :
    ∃ w', W.setExpAndRound w exp sbit = .ok w'
      ∧ W.abs w' = Decimal.setExpAndRound (W.abs w) exp (sbit != 0)
      ∧ L0.WF w'.mant ∧ w'.mant.length ≤ w.mant.length :=
  W.setExpAndRound_refines w exp sbit hs hwf hp

/-- the common tail `z.setExpAndRound(e - dnorm(z.mant), sbit)` is the L1 `setNormAndRound`. -/
theorem dnormAndRound_refines (w : WDec) (e : Int) (sbit : Nat) (hs : sbit ≤ 1)
    (hwf : L0.WF w.mant) (hn : L0.Normalized w.mant) (hne : w.mant ≠ []) (hp : 1 ≤ w.prec) :
    ∃ w', W.dnormAndRound w e sbit = .ok w'
      ∧ W.abs w' = Decimal.setNormAndRound (W.abs w) (natOf w.mant)
          (e - ((w.mant.length * 19 : Nat) : Int)) (sbit != 0)
      ∧ L0.WF w'.mant :=
  W.dnormAndRound_refines w e sbit hs hwf hn hne hp

/-! ### umul, uadd, usub, ucmp, uquo -/

/-- `umul`, for every Karatsuba / squaring threshold ≥ 1; `xyEq` (the pointer test `x == y`,
    which selects `sqr`) may only be set for equal operands. -/
theorem umul_refines (z x y : WDec) (xyEq : Bool) (t : Thr) (hk : 1 ≤ t.kmul) (hks : 1 ≤ t.ksqr)
    (hx : Opnd x) (hy : Opnd y) (hxy : xyEq = true → x = y) (hp : 1 ≤ z.prec) :
    ∃ w', W.umul z x y xyEq t = .ok w' ∧ W.abs w' = Decimal.umul (W.abs z) (W.abs x) (W.abs y)
      ∧ L0.WF w'.mant :=
  W.umul_refines z x y xyEq t hk hks hx hy hxy hp

theorem uadd_refines (z x y : WDec) (hx : Opnd x) (hy : Opnd y) (hp : 1 ≤ z.prec) :
    ∃ w', W.uadd z x y = .ok w' ∧ W.abs w' = Decimal.uadd (W.abs z) (W.abs x) (W.abs y) ∧ L0.WF w'.mant :=
  W.uadd_refines z x y hx hy hp

/-- `usub` under the L1 guard (`|x| ≥ |y|`, which `Add`/`Sub` establish through `ucmp`): no
    "underflow"; the L1 result, except that on an exact cancellation Go has also emptied the
    mantissa slice, which L1 does not record (second disjunct: same state with `mant = 0, len = 0`). -/
theorem usub_refines (z x y : WDec) (hx : Opnd x) (hy : Opnd y) (hp : 1 ≤ z.prec)
    (hg : usubGuard (W.abs x) (W.abs y) = true) :
    ∃ w', W.usub z x y = .ok w' ∧ L0.WF w'.mant ∧
      (W.abs w' = Decimal.usub (W.abs z) (W.abs x) (W.abs y) ∨
        (w'.mant = [] ∧ w'.form = .zero ∧ w'.acc = Exact ∧
          W.abs w' = { Decimal.usub (W.abs z) (W.abs x) (W.abs y) with mant := 0, len := 0 })) :=
  W.usub_refines z x y hx hy hp hg

theorem usub_obs (z x y : WDec) (hx : Opnd x) (hy : Opnd y) (hp : 1 ≤ z.prec)
    (hg : usubGuard (W.abs x) (W.abs y) = true) :
    ∃ w', W.usub z x y = .ok w' ∧ L0.WF w'.mant ∧ obsEq (W.abs w') (Decimal.usub (W.abs z) (W.abs x) (W.abs y)) :=
  W.usub_obs z x y hx hy hp hg

/-- the word-by-word loop of `ucmp` (padding the shorter mantissa with low zero words). -/
theorem ucmp_refines (x y : WDec) (hx : L0.WF x.mant) (hy : L0.WF y.mant) :
    W.ucmp x y = Decimal.ucmp (W.abs x) (W.abs y) :=
  W.ucmp_refines x y hx hy

/-- `uquo`, through `dec.div` with both paths (basic and recursive), thresholds `drec ≥ 4`,
    `kmul ≥ 1`. -/
theorem uquo_refines (z x y : WDec) (t : Thr) (hk : 1 ≤ t.kmul) (hd : 4 ≤ t.drec)
    (hx : Opnd x) (hy : Opnd y) (hp : 1 ≤ z.prec) :
    ∃ w', W.uquo z x y t = .ok w' ∧ W.abs w' = Decimal.uquo (W.abs z) (W.abs x) (W.abs y) ∧ L0.WF w'.mant :=
  W.uquo_refines z x y t hk hd hx hy hp

/-! ### the public methods, all operand classes -/

theorem set_refines (z x : WDec) (same : Bool) (hz : z.form = .finite → L0.WF z.mant)
    (hx : x.form = .finite → L0.WF x.mant) :
    ∃ w', W.set z x same = .ok w' ∧ W.abs w' = Decimal.set (W.abs z) (W.abs x) same
      ∧ (w'.form = .finite → L0.WF w'.mant) :=
  W.set_refines z x same hz hx

theorem setPrec_refines (z : WDec) (prec : Nat) (hz : z.form = .finite → L0.WF z.mant) :
    ∃ w', W.setPrec z prec = .ok w' ∧ W.abs w' = Decimal.setPrec (W.abs z) prec
      ∧ (w'.form = .finite → L0.WF w'.mant) :=
  W.setPrec_refines z prec hz

theorem add_refines (z x y : WDec) (hx : WCanon x) (hy : WCanon y)
    (hz : z.form = .finite → L0.WF z.mant) :
    ∃ w', W.add z x y = .ok (w', (Decimal.add (W.abs z) (W.abs x) (W.abs y)).2)
      ∧ obsEq (W.abs w') (Decimal.add (W.abs z) (W.abs x) (W.abs y)).1
      ∧ (w'.form = .finite → L0.WF w'.mant) :=
  W.add_refines z x y hx hy hz

theorem sub_refines (z x y : WDec) (hx : WCanon x) (hy : WCanon y)
    (hz : z.form = .finite → L0.WF z.mant) :
    ∃ w', W.sub z x y = .ok (w', (Decimal.sub (W.abs z) (W.abs x) (W.abs y)).2)
      ∧ obsEq (W.abs w') (Decimal.sub (W.abs z) (W.abs x) (W.abs y)).1
      ∧ (w'.form = .finite → L0.WF w'.mant) :=
  W.sub_refines z x y hx hy hz

theorem mul_refines (z x y : WDec) (xyEq : Bool) (t : Thr) (hk : 1 ≤ t.kmul) (hks : 1 ≤ t.ksqr)
    (hx : WCanon x) (hy : WCanon y) (hxy : xyEq = true → x = y) :
    ∃ w', W.mul z x y xyEq t = .ok (w', (Decimal.mul (W.abs z) (W.abs x) (W.abs y)).2)
      ∧ W.abs w' = (Decimal.mul (W.abs z) (W.abs x) (W.abs y)).1
      ∧ (w'.form = .finite → x.form = .finite ∧ y.form = .finite ∧ L0.WF w'.mant) :=
  W.mul_refines z x y xyEq t hk hks hx hy hxy

theorem quo_refines (z x y : WDec) (t : Thr) (hk : 1 ≤ t.kmul) (hd : 4 ≤ t.drec)
    (hx : WCanon x) (hy : WCanon y) :
    ∃ w', W.quo z x y t = .ok (w', (Decimal.quo (W.abs z) (W.abs x) (W.abs y)).2)
      ∧ W.abs w' = (Decimal.quo (W.abs z) (W.abs x) (W.abs y)).1
      ∧ (w'.form = .finite → x.form = .finite ∧ y.form = .finite ∧ L0.WF w'.mant) :=
  W.quo_refines z x y t hk hd hx hy

/-! ### L1 states as word lists; the word-level invariant -/

theorem abs_ofDec (d : Dec) (h : d.mant < B ^ d.len) : W.abs (W.ofDec d) = d := W.abs_ofDec d h

theorem WInv_ofDec (d : Dec) (h : d.Canonical) : WInv (W.ofDec d) := W.WInv_ofDec d h

theorem add_inv (z x y : WDec) (hz : WInv z) (hx : WInv x) (hy : WInv y) :
    ∃ w' o, W.add z x y = .ok (w', o) ∧ WInv w' := W.add_inv z x y hz hx hy
theorem sub_inv (z x y : WDec) (hz : WInv z) (hx : WInv x) (hy : WInv y) :
    ∃ w' o, W.sub z x y = .ok (w', o) ∧ WInv w' := W.sub_inv z x y hz hx hy
theorem mul_inv (z x y : WDec) (xyEq : Bool) (t : Thr) (hk : 1 ≤ t.kmul) (hks : 1 ≤ t.ksqr)
    (hxy : xyEq = true → x = y) (hz : WInv z) (hx : WInv x) (hy : WInv y) :
    ∃ w' o, W.mul z x y xyEq t = .ok (w', o) ∧ WInv w' := W.mul_inv z x y xyEq t hk hks hxy hz hx hy
theorem quo_inv (z x y : WDec) (t : Thr) (hk : 1 ≤ t.kmul) (hd : 4 ≤ t.drec)
    (hz : WInv z) (hx : WInv x) (hy : WInv y) :
    ∃ w' o, W.quo z x y t = .ok (w', o) ∧ WInv w' := W.quo_inv z x y t hk hd hz hx hy
theorem set_inv (z x : WDec) (hz : WInv z) (hx : WInv x) :
    ∃ w', W.set z x = .ok w' ∧ WInv w' := W.set_inv z x hz hx
theorem setPrec_inv (z : WDec) (prec : Nat) (hz : WInv z) :
    ∃ w', W.setPrec z prec = .ok w' ∧ WInv w' := W.setPrec_inv z prec hz

/-! ### composed with C01: the words are the specification's result

  For finite canonical word-level operands, `W.Add/Sub/Mul/Quo` return normally, and the state they
  leave — read through `abs` — is the exact result rounded once to the effective precision under
  the receiver's mode: value, sign and accuracy (`Spec.agrees`), precision and mode. -/

theorem mul_correct_words (z x y : WDec) (xyEq : Bool) (t : Thr) (hk : 1 ≤ t.kmul) (hks : 1 ≤ t.ksqr)
    (hxy : xyEq = true → x = y) (hx : WCanon x) (hy : WCanon y)
    (hfx : x.form = .finite) (hfy : y.form = .finite) :
    ∃ w' r, W.mul z x y xyEq t = .ok (w', .ok)
      ∧ Spec.mulSV z.mode (effPrec2 (W.abs z) (W.abs x) (W.abs y)) (Spec.ofDec (W.abs x)) (Spec.ofDec (W.abs y)) = some r
      ∧ Spec.agrees (W.abs w') r = true
      ∧ w'.prec = effPrec2 (W.abs z) (W.abs x) (W.abs y) ∧ w'.mode = z.mode
      ∧ (w'.form = .finite → L0.WF w'.mant) := by
  obtain ⟨w', e1, e2, e3⟩ := W.mul_refines z x y xyEq t hk hks hx hy hxy
  obtain ⟨r, h1, h2, h3, h4, h5⟩ := C01.mul_correct (W.abs z) (W.abs x) (W.abs y) (hx.finCanon hfx) (hy.finCanon hfy)
  rw [h3] at e1
  refine ⟨w', r, e1, h1, by rw [e2]; exact h2, ?_, ?_, fun h => (e3 h).2.2⟩
  · show (W.abs w').prec = _; rw [e2]; exact h4
  · show (W.abs w').mode = _; rw [e2]; exact h5

theorem quo_correct_words (z x y : WDec) (t : Thr) (hk : 1 ≤ t.kmul) (hd : 4 ≤ t.drec)
    (hx : WCanon x) (hy : WCanon y) (hfx : x.form = .finite) (hfy : y.form = .finite) :
    ∃ w' r, W.quo z x y t = .ok (w', .ok)
      ∧ Spec.quoSV z.mode (effPrec2 (W.abs z) (W.abs x) (W.abs y)) (Spec.ofDec (W.abs x)) (Spec.ofDec (W.abs y)) = some r
      ∧ Spec.agrees (W.abs w') r = true
      ∧ w'.prec = effPrec2 (W.abs z) (W.abs x) (W.abs y) ∧ w'.mode = z.mode
      ∧ (w'.form = .finite → L0.WF w'.mant) := by
  obtain ⟨w', e1, e2, e3⟩ := W.quo_refines z x y t hk hd hx hy
  obtain ⟨r, h1, h2, h3, h4, h5⟩ := C01.quo_correct (W.abs z) (W.abs x) (W.abs y) (hx.finCanon hfx) (hy.finCanon hfy)
  rw [h3] at e1
  refine ⟨w', r, e1, h1, by rw [e2]; exact h2, ?_, ?_, fun h => (e3 h).2.2⟩
  · show (W.abs w').prec = _; rw [e2]; exact h4
  · show (W.abs w').mode = _; rw [e2]; exact h5

theorem add_correct_words (z x y : WDec) (hx : WCanon x) (hy : WCanon y)
    (hfx : x.form = .finite) (hfy : y.form = .finite) (hz : z.form = .finite → L0.WF z.mant) :
    ∃ w' r, W.add z x y = .ok (w', .ok)
      ∧ Spec.addSV z.mode (effPrec2 (W.abs z) (W.abs x) (W.abs y)) (Spec.ofDec (W.abs x)) (Spec.ofDec (W.abs y)) = some r
      ∧ Spec.agrees (W.abs w') r = true
      ∧ w'.prec = effPrec2 (W.abs z) (W.abs x) (W.abs y) ∧ w'.mode = z.mode
      ∧ (w'.form = .finite → L0.WF w'.mant) := by
  obtain ⟨w', e1, e2, e3⟩ := W.add_refines z x y hx hy hz
  obtain ⟨r, h1, h2, h3, h4, h5⟩ := C01.add_correct (W.abs z) (W.abs x) (W.abs y) (hx.finCanon hfx) (hy.finCanon hfy)
  rw [h3] at e1
  refine ⟨w', r, e1, h1, by rw [agrees_obsEq r e2]; exact h2, ?_, ?_, e3⟩
  · exact e2.2.2.1.trans h4
  · exact e2.2.2.2.1.trans h5

theorem sub_correct_words (z x y : WDec) (hx : WCanon x) (hy : WCanon y)
    (hfx : x.form = .finite) (hfy : y.form = .finite) (hz : z.form = .finite → L0.WF z.mant) :
    ∃ w' r, W.sub z x y = .ok (w', .ok)
      ∧ Spec.subSV z.mode (effPrec2 (W.abs z) (W.abs x) (W.abs y)) (Spec.ofDec (W.abs x)) (Spec.ofDec (W.abs y)) = some r
      ∧ Spec.agrees (W.abs w') r = true
      ∧ w'.prec = effPrec2 (W.abs z) (W.abs x) (W.abs y) ∧ w'.mode = z.mode
      ∧ (w'.form = .finite → L0.WF w'.mant) := by
  obtain ⟨w', e1, e2, e3⟩ := W.sub_refines z x y hx hy hz
  obtain ⟨r, h1, h2, h3, h4, h5⟩ := C01.sub_correct (W.abs z) (W.abs x) (W.abs y) (hx.finCanon hfx) (hy.finCanon hfy)
  rw [h3] at e1
  refine ⟨w', r, e1, h1, by rw [agrees_obsEq r e2]; exact h2, ?_, ?_, e3⟩
  · exact e2.2.2.1.trans h4
  · exact e2.2.2.2.1.trans h5

/-! ### Non-vacuity: concrete word-level operands -/

/-- `123.45` with precision 5, one word. -/
def xW : WDec := ⟨.finite, false, [1234500000000000000], 3, 5, .ToNearestEven, 0⟩
/-- `−0.00995…` with precision 25, two words (the low word full of nines). -/
def yW : WDec := ⟨.finite, true, [9999990000000000000, 9950000000000000000], -2, 25, .ToNearestEven, 0⟩
/-- a receiver with precision 4, rounding toward +∞. -/
def zW : WDec := { prec := 4, mode := .ToPositiveInf }
/-- all nines at the top of the exponent range: rounding carries out of the top word. -/
def nW : WDec := ⟨.finite, true, [9999999999999999999, 9999999999999999999], 2147483647, 7, .AwayFromZero, 0⟩

theorem xW_wf : L0.WF xW.mant := by intro w hw; simp [xW] at hw; omega
theorem yW_wf : L0.WF yW.mant := by intro w hw; simp [yW] at hw; omega
theorem nW_wf : L0.WF nW.mant := by intro w hw; simp [nW] at hw; omega

theorem xW_opnd : Opnd xW :=
  ⟨xW_wf, by simp [xW], (W.nd_iff_top _ xW_wf (by simp [xW])).mpr (by simp [xW])⟩
theorem yW_opnd : Opnd yW :=
  ⟨yW_wf, by simp [yW], (W.nd_iff_top _ yW_wf (by simp [yW])).mpr (by simp [yW])⟩

theorem xW_canon : WCanon xW := fun _ => ⟨xW_opnd, by decide, by decide, by decide⟩
theorem yW_canon : WCanon yW := fun _ => ⟨yW_opnd, by decide, by decide, by decide⟩

example : ∃ w', W.round nW 1 = .ok w' ∧ W.abs w' = Decimal.round (W.abs nW) true :=
  let ⟨w', h1, h2, _⟩ := round_refines nW 1 (by decide) (fun _ => ⟨nW_wf, Or.inl (by decide)⟩); ⟨w', h1, h2⟩
example : ∃ w', W.round yW 0 = .ok w' ∧ W.abs w' = Decimal.round (W.abs yW) false :=
  let ⟨w', h1, h2, _⟩ := round_refines yW 0 (by decide) (fun _ => ⟨yW_wf, Or.inl (by decide)⟩); ⟨w', h1, h2⟩
example : ∃ w', W.umul zW xW yW false {} = .ok w' ∧ W.abs w' = Decimal.umul (W.abs zW) (W.abs xW) (W.abs yW) :=
  let ⟨w', h1, h2, _⟩ := umul_refines zW xW yW false {} (by decide) (by decide) xW_opnd yW_opnd
    (by intro h; cases h) (by decide); ⟨w', h1, h2⟩
example : ∃ w', W.umul zW yW yW true {} = .ok w' ∧ W.abs w' = Decimal.umul (W.abs zW) (W.abs yW) (W.abs yW) :=
  let ⟨w', h1, h2, _⟩ := umul_refines zW yW yW true {} (by decide) (by decide) yW_opnd yW_opnd
    (fun _ => rfl) (by decide); ⟨w', h1, h2⟩
example : ∃ w', W.uadd zW xW yW = .ok w' ∧ W.abs w' = Decimal.uadd (W.abs zW) (W.abs xW) (W.abs yW) :=
  let ⟨w', h1, h2, _⟩ := uadd_refines zW xW yW xW_opnd yW_opnd (by decide); ⟨w', h1, h2⟩
example : W.ucmp xW yW = Decimal.ucmp (W.abs xW) (W.abs yW) := ucmp_refines xW yW xW_wf yW_wf
example : ∃ w', W.usub zW xW xW = .ok w' ∧ obsEq (W.abs w') (Decimal.usub (W.abs zW) (W.abs xW) (W.abs xW)) :=
  let ⟨w', h1, _, h2⟩ := usub_obs zW xW xW xW_opnd xW_opnd (by decide)
    (by rw [usubGuard_eq, decide_eq_true_eq]); ⟨w', h1, h2⟩
example : ∃ w', W.uquo zW xW yW {} = .ok w' ∧ W.abs w' = Decimal.uquo (W.abs zW) (W.abs xW) (W.abs yW) :=
  let ⟨w', h1, h2, _⟩ := uquo_refines zW xW yW {} (by decide) (by decide) xW_opnd yW_opnd (by decide)
  ⟨w', h1, h2⟩
example : ∃ w' r, W.add zW xW yW = .ok (w', .ok)
    ∧ Spec.addSV .ToPositiveInf 4 (Spec.ofDec (W.abs xW)) (Spec.ofDec (W.abs yW)) = some r
    ∧ Spec.agrees (W.abs w') r = true :=
  let ⟨w', r, h1, h2, h3, _⟩ := add_correct_words zW xW yW xW_canon yW_canon rfl rfl (fun h => by cases h)
  ⟨w', r, h1, h2, h3⟩
example : ∃ w' r, W.quo zW xW yW {} = .ok (w', .ok)
    ∧ Spec.quoSV .ToPositiveInf 4 (Spec.ofDec (W.abs xW)) (Spec.ofDec (W.abs yW)) = some r
    ∧ Spec.agrees (W.abs w') r = true :=
  let ⟨w', r, h1, h2, h3, _⟩ := quo_correct_words zW xW yW {} (by decide) (by decide) xW_canon yW_canon rfl rfl
  ⟨w', r, h1, h2, h3⟩

#print axioms digit_spec
#print axioms sticky_spec
#print axioms dnorm_spec
#print axioms length_eq_nwords
#print axioms nd_iff_top
#print axioms round_refines
#print axioms round_no_error
#print axioms setExpAndRound_refines
#print axioms dnormAndRound_refines
#print axioms umul_refines
#print axioms uadd_refines
#print axioms usub_refines
#print axioms usub_obs
#print axioms ucmp_refines
#print axioms uquo_refines
#print axioms set_refines
#print axioms setPrec_refines
#print axioms add_refines
#print axioms sub_refines
#print axioms mul_refines
#print axioms quo_refines
#print axioms abs_ofDec
#print axioms WInv_ofDec
#print axioms add_inv
#print axioms sub_inv
#print axioms mul_inv
#print axioms quo_inv
#print axioms set_inv
#print axioms setPrec_inv
#print axioms mul_correct_words
#print axioms quo_correct_words
#print axioms add_correct_words
#print axioms sub_correct_words

end Decimal.C01W
