/-
  C14c — `math/big.Rat` conversions (L1 model, `DecimalModel/Rat.lean`): `SetRat` stores the
  rational rounded ONCE to the receiver's precision and mode, with a truthful accuracy, and `Rat`
  returns the exact value.

  Final statements only; the proofs are in `Proofs/Rat.lean`.

  `setRat z a b` models `z.SetRat(x)` for `x = a/b` (`a = x.Num()`, `b = x.Denom()`; `big.Rat`
  keeps `b > 0`, `gcd(a,b) = 1`, and `x.IsInt()` iff `b = 1`; `setRatQ z x` is the same on a core
  `Rat`, which is normalised in the same way). It is the Go code verbatim on top of the L1 models
  of `SetInt` and `Quo`: two zero-value scratch Decimals receive numerator and denominator, the
  receiver's precision, if 0, becomes the larger of their precisions, and `Quo` divides.

  Hypotheses of `setRat_correct`
  * `a ≠ 0`: `SetRat(0)` is `SetInt(0)`, see `setRat_zero`.
  * `ndigits |a| ≤ MaxExp` and `ndigits b ≤ MaxExp` (`MaxExp = 2^31 − 1`): numerator and
    denominator have fewer than 2^31 decimal digits (≈ 7.13 · 10^9 bits, 0.9 GB each). Within that
    bound the two scratch `SetInt` calls are exact (their precision is `max(ndigits, 34)`), so the
    only rounding is the one of `Quo`. Beyond it the scratch Decimal overflows the exponent range
    and becomes an infinity, and the result is wrong although `a/b` may be representable
    (`setRat_huge_num`, `setRat_huge_den`, `setRat_huge_both` below: an `Exact` infinity, an
    `Exact` zero, an `ErrNaN` panic). Such integers are not realistically reachable, so the main
    theorem keeps its name.

  `toRat x` models `x.Rat(nil)` with unbounded integers. The Go code computes the shift counts
  `allDigits − x.exp` in `int32`: `toRatGuard x` says that this does not wrap. FINDING (confirmed
  by running the Go code): when it wraps, i.e. `19·len − exp > 2^31 − 1` (finite values below
  about `10^−2147483629`, e.g. `1e-2147483630`, which `Parse` accepts), `Rat` panics with
  `makeslice: len out of range` instead of returning the 0.9 GB denominator it returns for
  `1e-2147483629`. `rat_exact` therefore carries the guard as a hypothesis (the model itself
  satisfies the equation without it: `Decimal.toRat_finite`).
-/
import Proofs.Rat
import Properties.C14

namespace Decimal.C14c

open Decimal Spec

/-! ## `SetRat` -/

/-- `z.SetRat(a/b)`, `a ≠ 0`, `b > 0` (integer branch `b = 1` included): the receiver holds `a/b`
    rounded once to `p` digits under the receiver's mode — value, sign and accuracy — where `p` is
    the receiver's precision or, if that is 0, the larger of the precisions `max(ndigits, 34)` that
    `SetInt` gives to the numerator's and the denominator's Decimal. No panic. -/
theorem setRat_correct (z : Dec) (a : Int) (b : Nat) (ha : a ≠ 0) (hb : 0 < b)
    (hna : (ndigits a.natAbs : Int) ≤ MaxExp) (hnb : (ndigits b : Int) ≤ MaxExp) :
    let p := if z.prec = 0 then max (max (ndigits a.natAbs) 34) (max (ndigits b) 34) else z.prec
    let r := setRat z a b
    agrees r.1 (Spec.round z.mode p (decide (a < 0)) ((a.natAbs : ℚ) / (b : ℚ)) 0) = true ∧
      r.2 = .ok ∧ r.1.prec = p ∧ r.1.mode = z.mode ∧ r.1.neg = decide (a < 0) :=
  setRat_round z a b ha hb hna hnb

/-- The precision above is literally `umax32(a.prec, b.prec)` of the two scratch Decimals. -/
theorem setRat_prec (z : Dec) (a : Int) (b : Nat) (ha : a ≠ 0) (hb : 0 < b)
    (hna : (ndigits a.natAbs : Int) ≤ MaxExp) (hnb : (ndigits b : Int) ≤ MaxExp) :
    setRatPrec z a b =
      if z.prec = 0 then max (max (ndigits a.natAbs) 34) (max (ndigits b) 34) else z.prec := by
  obtain ⟨-, -, pa, -⟩ := setInt_fresh a ha hna
  obtain ⟨-, -, pb, -⟩ := setInt_fresh (b : Int) (by omega) (by rw [Int.natAbs_natCast]; exact hnb)
  rw [Int.natAbs_natCast] at pb
  unfold setRatPrec
  rw [pa, pb, umax_eq_max]
  by_cases hp : z.prec = 0 <;> simp [hp]

/-- The same on a normalised rational `x ≠ 0`: `|x|` rounded once, sign of `x`. -/
theorem setRatQ_correct (z : Dec) (x : ℚ) (hx : x ≠ 0)
    (hn : (ndigits x.num.natAbs : Int) ≤ MaxExp) (hd : (ndigits x.den : Int) ≤ MaxExp) :
    let p := if z.prec = 0 then max (max (ndigits x.num.natAbs) 34) (max (ndigits x.den) 34) else z.prec
    let r := setRatQ z x
    agrees r.1 (Spec.round z.mode p (decide (x < 0)) |x| 0) = true ∧
      r.2 = .ok ∧ r.1.prec = p ∧ r.1.mode = z.mode ∧ r.1.neg = decide (x < 0) :=
  setRatQ_round z x hx hn hd

/-- An integer (`b = 1`) goes through `SetInt` (C14 `setInt_correct`, `setInt_exact`), whatever
    its size. -/
theorem setRat_int (z : Dec) (a : Int) : setRat z a 1 = (setInt z a, .ok) := rfl

/-- `SetRat(0)` (`0 = 0/1`): `+0`, `Exact`; the precision is kept, or 34 if it was 0. -/
theorem setRat_zero (z : Dec) :
    let r := setRat z 0 1
    agrees r.1 (zeroRes false) = true ∧ r.2 = .ok ∧
      r.1.prec = (if z.prec = 0 then 34 else z.prec) ∧ r.1.mode = z.mode :=
  setRat_zero_int z

theorem setRatQ_zero (z : Dec) : setRatQ z 0 = setRat z 0 1 := rfl

/-! ### Beyond the digit bound (findings about integers of ≥ 2^31 digits, from the model) -/

/-- A numerator of more than `MaxExp` digits over an ordinary denominator `b ≥ 2`: `±Inf` flagged
    `Exact` (e.g. `10^MaxExp / 3 = 0.33… × 10^MaxExp` is representable). -/
theorem setRat_huge_num (z : Dec) (a : Int) (b : Nat) (ha : a ≠ 0) (hb : 0 < b) (hb1 : b ≠ 1)
    (hna : MaxExp < (ndigits a.natAbs : Int)) (hnb : (ndigits b : Int) ≤ MaxExp) :
    (setRat z a b).1.form = .inf ∧ (setRat z a b).1.acc = Exact ∧
      (setRat z a b).1.neg = decide (a < 0) ∧ (setRat z a b).2 = .ok :=
  Decimal.setRat_huge_num z a b ha hb hb1 hna hnb

/-- A denominator of more than `MaxExp` digits: `±0` flagged `Exact` (e.g. `1 / 10^MaxExp` is
    representable). -/
theorem setRat_huge_den (z : Dec) (a : Int) (b : Nat) (ha : a ≠ 0)
    (hna : (ndigits a.natAbs : Int) ≤ MaxExp) (hnb : MaxExp < (ndigits b : Int)) :
    (setRat z a b).1.form = .zero ∧ (setRat z a b).1.acc = Exact ∧
      (setRat z a b).1.neg = decide (a < 0) ∧ (setRat z a b).2 = .ok :=
  Decimal.setRat_huge_den z a b ha hna hnb

/-- Both of more than `MaxExp` digits: `Quo(Inf, Inf)` panics with `ErrNaN`. -/
theorem setRat_huge_both (z : Dec) (a : Int) (b : Nat)
    (hna : MaxExp < (ndigits a.natAbs : Int)) (hnb : MaxExp < (ndigits b : Int)) :
    (setRat z a b).2 = .errNaN :=
  Decimal.setRat_huge_both z a b hna hnb

/-! ## `Rat` -/

/-- `x.Rat(nil)` of a finite `x`: the exact value `(−1)^neg × mant × 10^(exp − 19·len)`,
    accuracy `Exact`. (`hg`: the `int32` shift counts of the Go code do not wrap; see the header.) -/
theorem rat_exact (x : Dec) (hf : x.form = .finite) (_hg : toRatGuard x = true) :
    toRat x =
      (some ((if x.neg then -1 else 1) * (x.mant : ℚ) * pow10Rat (x.exp - (x.len * 19 : Nat))), Exact) :=
  toRat_finite x hf

/-- The guard holds for every canonical finite `x` whose mantissa has at most `2^31 − 1` digits
    and whose exponent is at least `19·len − (2^31 − 1)`. -/
theorem toRatGuard_iff (x : Dec) (hf : x.form = .finite) :
    toRatGuard x = true ↔
      ((x.len * 19 : Nat) : Int) ≤ 2147483647 ∧ ((x.len * 19 : Nat) : Int) - x.exp ≤ 2147483647 :=
  Decimal.toRatGuard_iff x hf

theorem rat_zero (x : Dec) (hf : x.form = .zero) : toRat x = (some 0, Exact) := toRat_zero x hf

/-- `Rat` of an infinity: `nil`, `Below` for `+Inf` and `Above` for `−Inf`. -/
theorem rat_inf (x : Dec) (hf : x.form = .inf) : toRat x = (none, makeAcc x.neg) := toRat_inf x hf

/-- Round trip: `SetRat(x.Rat())` into a receiver of precision `p ≥ 1` is `|x|` rounded once to `p`
    digits — `Rat` loses nothing. -/
theorem setRatQ_rat (z x : Dec) (hf : x.form = .finite) (hm : 0 < x.mant) (v : ℚ)
    (hv : toRat x = (some v, Exact))
    (hn : (ndigits v.num.natAbs : Int) ≤ MaxExp) (hd : (ndigits v.den : Int) ≤ MaxExp) :
    let p := if z.prec = 0 then max (max (ndigits v.num.natAbs) 34) (max (ndigits v.den) 34) else z.prec
    agrees (setRatQ z v).1
        (Spec.round z.mode p x.neg ((x.mant : ℚ) * pow10Rat (x.exp - (x.len * 19 : Nat))) 0) = true := by
  have h10 : (0 : ℚ) < pow10Rat (x.exp - (x.len * 19 : Nat)) := by
    rw [pow10Rat_eq_zpow]; exact zpow_pos (by norm_num) _
  have hpos : (0 : ℚ) < (x.mant : ℚ) * pow10Rat (x.exp - (x.len * 19 : Nat)) :=
    mul_pos (by exact_mod_cast hm) h10
  rw [toRat_finite x hf] at hv
  have hv' : v = (if x.neg then -1 else 1) * (x.mant : ℚ) * pow10Rat (x.exp - (x.len * 19 : Nat)) := by
    have := congrArg Prod.fst hv
    simp only [Option.some.injEq] at this
    exact this.symm
  have hv0 : v ≠ 0 := by
    rw [hv', mul_assoc]
    exact mul_ne_zero (by split <;> norm_num) (ne_of_gt hpos)
  have h := (setRatQ_round z v hv0 hn hd).1
  have habs : |v| = (x.mant : ℚ) * pow10Rat (x.exp - (x.len * 19 : Nat)) := by
    rw [hv', mul_assoc, abs_mul, abs_of_pos hpos]
    cases x.neg <;> simp
  have hneg : decide (v < 0) = x.neg := by
    rw [hv', mul_assoc]
    cases x.neg
    · simp only [Bool.false_eq_true, if_false, one_mul, decide_eq_false_iff_not, not_lt]
      exact le_of_lt hpos
    · simp only [if_true, neg_mul, one_mul, decide_eq_true_eq, Left.neg_neg_iff]
      exact hpos
  rw [habs, hneg] at h
  exact h

/-! ## Non-vacuity -/

theorem ndigits_three : ndigits 3 = 1 := ndigits_unique (by norm_num) (by norm_num) (by norm_num)

/-- `SetRat(−1/3)` into a receiver of precision 5: `−1/3` rounded once to 5 digits, to nearest
    even (`−0.33333`, `Above`). -/
example :
    agrees (setRat { prec := 5 } (-1) 3).1 (Spec.round .ToNearestEven 5 true ((1 : ℚ) / 3) 0) = true ∧
      (setRat { prec := 5 } (-1) 3).2 = .ok ∧ (setRat { prec := 5 } (-1) 3).1.prec = 5 := by
  have h := setRat_correct { prec := 5 } (-1) 3 (by decide) (by decide)
    (by rw [show (-1 : Int).natAbs = 1 from rfl, ndigits_one]; decide) (by rw [ndigits_three]; decide)
  refine ⟨?_, h.2.1, h.2.2.1⟩
  simpa using h.1

/-- `new(Decimal).SetRat(1/3)`: precision 34 = `max(max(1,34), max(1,34))`, mode `ToNearestEven`. -/
example : (setRat {} 1 3).1.prec = 34 ∧ (setRat {} 1 3).1.mode = .ToNearestEven ∧
    (setRat {} 1 3).1.neg = false := by
  have h := setRat_correct {} 1 3 (by decide) (by decide)
    (by rw [show (1 : Int).natAbs = 1 from rfl, ndigits_one]; decide) (by rw [ndigits_three]; decide)
  refine ⟨?_, h.2.2.2.1, h.2.2.2.2⟩
  have := h.2.2.1
  simpa [ndigits_one, ndigits_three] using this

/-- The tie `1/8 = 0.125` at precision 2 under every mode of the receiver (statement instance). -/
example (m : Mode) :
    agrees (setRat { prec := 2, mode := m } 1 8).1 (Spec.round m 2 false ((1 : ℚ) / 8) 0) = true := by
  have h8 : ndigits 8 = 1 := ndigits_unique (by norm_num) (by norm_num) (by norm_num)
  have h := setRat_correct { prec := 2, mode := m } 1 8 (by decide) (by decide)
    (by rw [show (1 : Int).natAbs = 1 from rfl, ndigits_one]; decide) (by rw [h8]; decide)
  simpa using h.1

/-- `Rat(−123.45) = (−2469/20, Exact)` (`C14.ex1`: mantissa `1234500000000000000`, one word,
    exponent 3). -/
example : toRat C14.ex1 = (some (-2469 / 20), Exact) := by
  rw [rat_exact C14.ex1 rfl (by decide), pow10Rat_eq_zpow]
  norm_num [C14.ex1]

example : toRat { form := .zero, neg := true } = (some 0, Exact) := rat_zero _ rfl
example : toRat { form := .inf, neg := true } = (none, Above) := rat_inf _ rfl

/-- The guard fails exactly from `19·len − exp = 2^31` on: `1e-2147483629` (exp `−2147483628`)
    passes, `1e-2147483630` does not. -/
example :
    toRatGuard { form := .finite, mant := 1000000000000000000, len := 1, exp := -2147483628 } = true ∧
    toRatGuard { form := .finite, mant := 1000000000000000000, len := 1, exp := -2147483629 } = false := by
  decide

#print axioms setRat_correct
#print axioms setRat_prec
#print axioms setRatQ_correct
#print axioms setRat_int
#print axioms setRat_zero
#print axioms setRatQ_zero
#print axioms setRat_huge_num
#print axioms setRat_huge_den
#print axioms setRat_huge_both
#print axioms rat_exact
#print axioms toRatGuard_iff
#print axioms rat_zero
#print axioms rat_inf
#print axioms setRatQ_rat

end Decimal.C14c
