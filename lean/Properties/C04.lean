/-
  C04 — IEEE-754 special values (L1 model against the specification `Spec.addSV` …).

  `specMatch r s?` (Proofs/Special.lean) says that the model result `r : Dec × Outcome` realises
  the specification result `s? : Option SRes`:
      `none`   ↦ `r.2 = .errNaN`                          (invalid operation: Go panics with ErrNaN)
      `some s` ↦ `r.2 = .ok ∧ Spec.agrees r.1 s = true`   (class, sign, accuracy, value)
  so that (`*_nan_iff`) the outcome is `.errNaN` exactly when the specification returns `none`.

  All statements are for distinct variables (`sx = sy = su = false`, the default); aliasing is
  removed by C10.  `mode = z.mode`; the precision is the effective one,
  `p = (prologue z (umax x.prec y.prec)).prec` (`prologue z q = if z.prec == 0 then {z with prec := q} else z`).

  What is *not* proved here (the `_partial` theorems exclude it, the un-suffixed `add_special`
  `sub_special` `fma_special` take it as a hypothesis about the single delegated call):
    * `finite ± 0`, `0 ± finite`, `(±0 product) + finite`: the Go code delegates to `Set`
      (or, for `0 − y`, to `round` on the negated copy), which *rounds* the finite operand; its
      agreement with `Spec.round` is the rounding claim (C01/C03), not a special-value fact.
    * FMA with finite factors: `u = ±0` is literally `Mul` (`fma_zero_addend`); `u = ±Inf` is proved
      only when the exact product is within the exponent range (`fma_inf_addend_partial`).
      Outside it the model DISAGREES with the specification (see the final report / comment
      below): `x·y` overflowing to `+Inf` plus `u = −Inf` panics with ErrNaN, IEEE says `−Inf`.
-/
import Proofs.Special

namespace Decimal.C04

open Decimal Spec

/-! ### Add, Sub -/

/-- Add with at least one special operand; `hX`/`hY`: the delegated `Set` of the finite
    operand (cases `finite + ±0`, `±0 + finite`) agrees with `Spec.round`. -/
theorem add_special (z x y : Dec) (hnf : x.form ≠ .finite ∨ y.form ≠ .finite)
    (hX : x.form = .finite → y.form = .zero →
      agrees (set (prologue z (umax x.prec y.prec)) x false)
        (Spec.round z.mode (prologue z (umax x.prec y.prec)).prec x.neg (x.mant : Rat)
          (x.exp - (x.len * DW : Nat))) = true)
    (hY : x.form = .zero → y.form = .finite →
      agrees (set (prologue z (umax x.prec y.prec)) y false)
        (Spec.round z.mode (prologue z (umax x.prec y.prec)).prec y.neg (y.mant : Rat)
          (y.exp - (y.len * DW : Nat))) = true) :
    specMatch (add z x y)
      (addSV z.mode (prologue z (umax x.prec y.prec)).prec (ofDec x) (ofDec y)) :=
  Decimal.add_special z x y hnf hX hY

/-- Excluded: exactly one operand finite and the other a zero (rounding of the finite one). -/
theorem add_special_partial (z x y : Dec) (hnf : x.form ≠ .finite ∨ y.form ≠ .finite)
    (hex₁ : ¬(x.form = .finite ∧ y.form = .zero)) (hex₂ : ¬(x.form = .zero ∧ y.form = .finite)) :
    specMatch (add z x y)
      (addSV z.mode (prologue z (umax x.prec y.prec)).prec (ofDec x) (ofDec y)) :=
  Decimal.add_special z x y hnf (fun a b => absurd ⟨a, b⟩ hex₁) (fun a b => absurd ⟨a, b⟩ hex₂)

theorem add_nan_iff_partial (z x y : Dec) (hnf : x.form ≠ .finite ∨ y.form ≠ .finite)
    (hex₁ : ¬(x.form = .finite ∧ y.form = .zero)) (hex₂ : ¬(x.form = .zero ∧ y.form = .finite)) :
    (add z x y).2 = .errNaN ↔
      addSV z.mode (prologue z (umax x.prec y.prec)).prec (ofDec x) (ofDec y) = none :=
  specMatch_nan_iff (add_special_partial z x y hnf hex₁ hex₂)

/-- Sub; `hY`: for `±0 − y` the Go code copies `y` with the sign flipped and calls `round`. -/
theorem sub_special (z x y : Dec) (hnf : x.form ≠ .finite ∨ y.form ≠ .finite)
    (hX : x.form = .finite → y.form = .zero →
      agrees (set (prologue z (umax x.prec y.prec)) x false)
        (Spec.round z.mode (prologue z (umax x.prec y.prec)).prec x.neg (x.mant : Rat)
          (x.exp - (x.len * DW : Nat))) = true)
    (hY : x.form = .zero → y.form = .finite →
      agrees (round { prologue z (umax x.prec y.prec) with
          acc := Exact, form := .finite, neg := !y.neg, exp := y.exp, mant := y.mant, len := y.len } false)
        (Spec.round z.mode (prologue z (umax x.prec y.prec)).prec (!y.neg) (y.mant : Rat)
          (y.exp - (y.len * DW : Nat))) = true) :
    specMatch (sub z x y)
      (subSV z.mode (prologue z (umax x.prec y.prec)).prec (ofDec x) (ofDec y)) :=
  Decimal.sub_special z x y hnf hX hY

theorem sub_special_partial (z x y : Dec) (hnf : x.form ≠ .finite ∨ y.form ≠ .finite)
    (hex₁ : ¬(x.form = .finite ∧ y.form = .zero)) (hex₂ : ¬(x.form = .zero ∧ y.form = .finite)) :
    specMatch (sub z x y)
      (subSV z.mode (prologue z (umax x.prec y.prec)).prec (ofDec x) (ofDec y)) :=
  Decimal.sub_special z x y hnf (fun a b => absurd ⟨a, b⟩ hex₁) (fun a b => absurd ⟨a, b⟩ hex₂)

theorem sub_nan_iff_partial (z x y : Dec) (hnf : x.form ≠ .finite ∨ y.form ≠ .finite)
    (hex₁ : ¬(x.form = .finite ∧ y.form = .zero)) (hex₂ : ¬(x.form = .zero ∧ y.form = .finite)) :
    (sub z x y).2 = .errNaN ↔
      subSV z.mode (prologue z (umax x.prec y.prec)).prec (ofDec x) (ofDec y) = none :=
  specMatch_nan_iff (sub_special_partial z x y hnf hex₁ hex₂)

-- (+Inf) + (−Inf): invalid in both;  (+Inf) − (−Inf) = +Inf in both.
example : specMatch (add { prec := 3 } { form := .inf } { form := .inf, neg := true }) none :=
  add_special_partial { prec := 3 } { form := .inf } { form := .inf, neg := true }
    (Or.inl (by decide)) (by decide) (by decide)
example : specMatch (sub { prec := 3 } { form := .inf } { form := .inf, neg := true })
    (some (infRes false)) :=
  sub_special_partial { prec := 3 } { form := .inf } { form := .inf, neg := true }
    (Or.inl (by decide)) (by decide) (by decide)

/-! ### Mul, Quo: no rounding is involved, nothing excluded -/

theorem mul_special (z x y : Dec) (hnf : x.form ≠ .finite ∨ y.form ≠ .finite) :
    specMatch (mul z x y)
      (mulSV z.mode (prologue z (umax x.prec y.prec)).prec (ofDec x) (ofDec y)) :=
  Decimal.mul_special z x y hnf

theorem quo_special (z x y : Dec) (hnf : x.form ≠ .finite ∨ y.form ≠ .finite) :
    specMatch (quo z x y)
      (quoSV z.mode (prologue z (umax x.prec y.prec)).prec (ofDec x) (ofDec y)) :=
  Decimal.quo_special z x y hnf

theorem mul_nan_iff (z x y : Dec) (hnf : x.form ≠ .finite ∨ y.form ≠ .finite) :
    (mul z x y).2 = .errNaN ↔
      mulSV z.mode (prologue z (umax x.prec y.prec)).prec (ofDec x) (ofDec y) = none :=
  specMatch_nan_iff (mul_special z x y hnf)

theorem quo_nan_iff (z x y : Dec) (hnf : x.form ≠ .finite ∨ y.form ≠ .finite) :
    (quo z x y).2 = .errNaN ↔
      quoSV z.mode (prologue z (umax x.prec y.prec)).prec (ofDec x) (ofDec y) = none :=
  specMatch_nan_iff (quo_special z x y hnf)

example : specMatch (mul { prec := 3 } {} { form := .inf }) none :=
  mul_special { prec := 3 } {} { form := .inf } (Or.inl (by decide))
example : specMatch (quo { prec := 3 } { form := .finite, mant := 1000000000000000000, len := 1 } { neg := true })
    (some (infRes true)) :=
  quo_special { prec := 3 } { form := .finite, mant := 1000000000000000000, len := 1 } { neg := true }
    (Or.inr (by decide))

/-! ### FMA -/

/-- FMA with a zero or infinite factor; `hU`: for a zero product and a finite `u` the final
    `Add` delegates to `Set(u)`, assumed to agree with `Spec.round`. -/
theorem fma_special (z x y u : Dec) (hxy : x.form ≠ .finite ∨ y.form ≠ .finite)
    (hU : x.form ≠ .inf → y.form ≠ .inf → u.form = .finite →
      agrees (set (prologue z (umax (umax x.prec y.prec) u.prec)) u false)
        (Spec.round z.mode (prologue z (umax (umax x.prec y.prec) u.prec)).prec u.neg (u.mant : Rat)
          (u.exp - (u.len * DW : Nat))) = true) :
    specMatch (fma z x y u)
      (fmaSV z.mode (prologue z (umax (umax x.prec y.prec) u.prec)).prec (ofDec x) (ofDec y) (ofDec u)) :=
  Decimal.fma_special z x y u hxy hU

/-- Excluded: finite factors (see below), and zero product with a finite addend. -/
theorem fma_special_partial (z x y u : Dec) (hxy : x.form ≠ .finite ∨ y.form ≠ .finite)
    (hex : ¬(x.form ≠ .inf ∧ y.form ≠ .inf ∧ u.form = .finite)) :
    specMatch (fma z x y u)
      (fmaSV z.mode (prologue z (umax (umax x.prec y.prec) u.prec)).prec (ofDec x) (ofDec y) (ofDec u)) :=
  Decimal.fma_special z x y u hxy (fun a b c => absurd ⟨a, b, c⟩ hex)

theorem fma_nan_iff_partial (z x y u : Dec) (hxy : x.form ≠ .finite ∨ y.form ≠ .finite)
    (hex : ¬(x.form ≠ .inf ∧ y.form ≠ .inf ∧ u.form = .finite)) :
    (fma z x y u).2 = .errNaN ↔
      fmaSV z.mode (prologue z (umax (umax x.prec y.prec) u.prec)).prec (ofDec x) (ofDec y) (ofDec u) = none :=
  specMatch_nan_iff (fma_special_partial z x y u hxy hex)

/-- Finite factors, `u = ±0`: FMA *is* Mul, in the model and in the specification. -/
theorem fma_zero_addend (z x y u : Dec) (hx : x.form = .finite) (hy : y.form = .finite)
    (hu : u.form = .zero) (p : Nat) :
    fma z x y u = mul (prologue z (umax (umax x.prec y.prec) u.prec)) x y ∧
      fmaSV z.mode p (ofDec x) (ofDec y) (ofDec u) = mulSV z.mode p (ofDec x) (ofDec y) :=
  Decimal.fma_zero_addend z x y u hx hy hu p

/-- Finite factors, `u = ±Inf`: proved only when the exact product (formed at `MaxPrec`) stays
    finite.  Without `hfin` the statement is FALSE in the model:
      x = y = 0.1e2147483647 (`mant = 10^18, len = 1, exp = MaxExp`), u = −Inf, z.prec = 5:
      `fma z x y u = (+0, .errNaN)` but `fmaSV … = some (−Inf)`. -/
theorem fma_inf_addend_partial (z x y u : Dec) (hx : x.form = .finite) (hy : y.form = .finite)
    (hu : u.form = .inf) (p : Nat)
    (hfin : (umul { prologue z (umax (umax x.prec y.prec) u.prec) with
        neg := x.neg != y.neg, prec := MaxPrec } x y).form = .finite) :
    specMatch (fma z x y u) (fmaSV z.mode p (ofDec x) (ofDec y) (ofDec u)) :=
  Decimal.fma_inf_addend z x y u hx hy hu p hfin

-- 0 × Inf + u: invalid in both;  Inf × (−Inf) + (+Inf): invalid;  Inf × Inf + 0 = +Inf.
example : specMatch (fma { prec := 3 } {} { form := .inf } {}) none :=
  fma_special_partial { prec := 3 } {} { form := .inf } {} (Or.inl (by decide)) (by decide)
example : specMatch (fma { prec := 3 } { form := .inf } { form := .inf } {}) (some (infRes false)) :=
  fma_special_partial { prec := 3 } { form := .inf } { form := .inf } {} (Or.inl (by decide)) (by decide)

/-! ### After an ErrNaN panic the receiver is a valid `+0` (every aliasing combination) -/

theorem add_nan_leaves_valid (z x y : Dec) (sx sy : Bool) (h : (add z x y sx sy).2 = .errNaN) :
    (add z x y sx sy).1.form = .zero ∧ (add z x y sx sy).1.neg = false ∧ (add z x y sx sy).1.acc = 0 :=
  Decimal.add_nan_valid z x y sx sy h
theorem sub_nan_leaves_valid (z x y : Dec) (sx sy : Bool) (h : (sub z x y sx sy).2 = .errNaN) :
    (sub z x y sx sy).1.form = .zero ∧ (sub z x y sx sy).1.neg = false ∧ (sub z x y sx sy).1.acc = 0 :=
  Decimal.sub_nan_valid z x y sx sy h
theorem mul_nan_leaves_valid (z x y : Dec) (sx sy : Bool) (h : (mul z x y sx sy).2 = .errNaN) :
    (mul z x y sx sy).1.form = .zero ∧ (mul z x y sx sy).1.neg = false ∧ (mul z x y sx sy).1.acc = 0 :=
  Decimal.mul_nan_valid z x y sx sy h
theorem quo_nan_leaves_valid (z x y : Dec) (sx sy : Bool) (h : (quo z x y sx sy).2 = .errNaN) :
    (quo z x y sx sy).1.form = .zero ∧ (quo z x y sx sy).1.neg = false ∧ (quo z x y sx sy).1.acc = 0 :=
  Decimal.quo_nan_valid z x y sx sy h
theorem fma_nan_leaves_valid (z x y u : Dec) (sx sy su : Bool)
    (h : (fma z x y u sx sy su).2 = .errNaN) :
    (fma z x y u sx sy su).1.form = .zero ∧ (fma z x y u sx sy su).1.neg = false ∧
      (fma z x y u sx sy su).1.acc = 0 :=
  Decimal.fma_nan_valid z x y u sx sy su h

example : (quo { form := .inf, neg := true, acc := 1, prec := 3 } {} {}).2 = .errNaN := by decide
example : (quo { form := .inf, neg := true, acc := 1, prec := 3 } {} {}).1.form = .zero :=
  (quo_nan_leaves_valid _ _ _ _ _ (by decide)).1

/-! ### Sign rules, stand-alone on the model -/

/-- Product sign = XOR of the operand signs for every class combination that is not NaN
    (finite × finite included, whatever the rounding does). -/
theorem mul_sign_xor (z x y : Dec) (h : (mul z x y).2 = .ok) : (mul z x y).1.neg = (x.neg != y.neg) :=
  Decimal.mul_sign z x y h
theorem quo_sign_xor (z x y : Dec) (h : (quo z x y).2 = .ok) : (quo z x y).1.neg = (x.neg != y.neg) :=
  Decimal.quo_sign z x y h

/-- `(±0) + (±0)`: an exact zero whose sign is the IEEE `zeroSumSign`. -/
theorem add_zero_zero (z x y : Dec) (hx : x.form = .zero) (hy : y.form = .zero) :
    (add z x y).2 = .ok ∧ (add z x y).1.form = .zero ∧ (add z x y).1.acc = 0 ∧
      (add z x y).1.neg = zeroSumSign z.mode x.neg y.neg :=
  Decimal.add_zero_zero z x y hx hy
theorem sub_zero_zero (z x y : Dec) (hx : x.form = .zero) (hy : y.form = .zero) :
    (sub z x y).2 = .ok ∧ (sub z x y).1.form = .zero ∧ (sub z x y).1.acc = 0 ∧
      (sub z x y).1.neg = zeroSumSign z.mode x.neg (!y.neg) :=
  Decimal.sub_zero_zero z x y hx hy

/-- `(−0) + (−0) = −0` in every rounding mode. -/
theorem add_neg_zeros (z x y : Dec) (hx : x.form = .zero) (hy : y.form = .zero)
    (nx : x.neg = true) (ny : y.neg = true) :
    (add z x y).1.form = .zero ∧ (add z x y).1.neg = true := by
  obtain ⟨-, h2, -, h4⟩ := Decimal.add_zero_zero z x y hx hy
  exact ⟨h2, by rw [h4, nx, ny]; rfl⟩

/-- `(+0) + (−0) = +0`, except `−0` under `ToNegativeInf` (either order). -/
theorem add_opposite_zeros (z x y : Dec) (hx : x.form = .zero) (hy : y.form = .zero)
    (hne : x.neg ≠ y.neg) :
    (add z x y).1.form = .zero ∧ (add z x y).1.neg = decide (z.mode = .ToNegativeInf) := by
  obtain ⟨-, h2, -, h4⟩ := Decimal.add_zero_zero z x y hx hy
  refine ⟨h2, ?_⟩
  rw [h4]; unfold zeroSumSign
  have : (x.neg == y.neg) = false := by simpa using hne
  rw [this]; cases z.mode <;> rfl

example : (add { mode := .ToNegativeInf } {} { neg := true }).1.neg = true := by decide
example : (add { mode := .ToNearestEven } {} { neg := true }).1.neg = false := by decide
example : (add {} { neg := true } { neg := true }).1.neg = true := by decide

#print axioms add_special
#print axioms add_special_partial
#print axioms add_nan_iff_partial
#print axioms sub_special
#print axioms sub_special_partial
#print axioms sub_nan_iff_partial
#print axioms mul_special
#print axioms quo_special
#print axioms mul_nan_iff
#print axioms quo_nan_iff
#print axioms fma_special
#print axioms fma_special_partial
#print axioms fma_nan_iff_partial
#print axioms fma_zero_addend
#print axioms fma_inf_addend_partial
#print axioms add_nan_leaves_valid
#print axioms sub_nan_leaves_valid
#print axioms mul_nan_leaves_valid
#print axioms quo_nan_leaves_valid
#print axioms fma_nan_leaves_valid
#print axioms mul_sign_xor
#print axioms quo_sign_xor
#print axioms add_zero_zero
#print axioms sub_zero_zero
#print axioms add_neg_zeros
#print axioms add_opposite_zeros

end Decimal.C04
