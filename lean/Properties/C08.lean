/-
  C08 — every reachable Decimal is canonical.

  `Dec.Canonical z` (DecimalModel/Program.lean):
      `z.prec ≤ MaxPrec ∧ z.acc ∈ {−1, 0, 1} ∧
       (z.form = .finite → 1 ≤ z.len ∧ ndigits z.mant = z.len·19 ∧ MinExp ≤ z.exp ≤ MaxExp ∧ 1 ≤ z.prec ∧
          (z.len·19 ≤ z.prec ∨ z.mant % 10^(z.len·19 − z.prec) = 0))`
  i.e. a finite value has a non-empty normalised mantissa, an exponent in range, a non-zero
  precision, and no non-zero digit beyond its precision.

  `round_canonical` is the core; one preservation theorem per L1 operation (for EVERY combination
  of aliasing flags and without any side condition: a finite canonical operand has `prec ≥ 1`, the
  prologue takes the maximum, so the effective precision is ≥ 1 whenever a finite result is
  rounded); `gobDecode_canonical` (the decoder validates its input; bytes must be `< 256`);
  `step_canonical` / `reachable_canonical` over programs (L2, `run`), all aliasing shapes
  included because `step` takes variable indices; `canonical_unique`.

  `Op.Valid` only constrains Gob payloads to be byte strings (`∀ b ∈ bytes, b < 256`).
-/
import Proofs.CanonInv

namespace Decimal.C08

open Decimal

/-! ### The rounding core -/

theorem round_canonical (z : Dec) (sb : Bool) (hf : z.form = .finite) (hl : 1 ≤ z.len)
    (hnd : ndigits z.mant = z.len * 19) (hp1 : 1 ≤ z.prec) (hp2 : z.prec ≤ MaxPrec)
    (he1 : MinExp ≤ z.exp) (he2 : z.exp ≤ MaxExp) : (round z sb).Canonical :=
  Decimal.round_canonical z sb hf hl hnd hp1 hp2 he1 he2

theorem setExpAndRound_canonical (z : Dec) (e : Int) (sb : Bool) (hl : 1 ≤ z.len)
    (hnd : ndigits z.mant = z.len * 19) (hp1 : 1 ≤ z.prec) (hp2 : z.prec ≤ MaxPrec) :
    (setExpAndRound z e sb).Canonical :=
  Decimal.setExpAndRound_canonical z e sb hl hnd hp1 hp2

theorem setNormAndRound_canonical (z : Dec) (M : Nat) (e : Int) (sb : Bool) (hM : 0 < M)
    (hp1 : 1 ≤ z.prec) (hp2 : z.prec ≤ MaxPrec) : (setNormAndRound z M e sb).Canonical :=
  Decimal.setNormAndRound_canonical z M e sb hM hp1 hp2

/-- The quotient computed by `uquo` is never zero (so its result is normalised). -/
theorem uquo_canonical (z x y : Dec) (hxl : 1 ≤ x.len) (hxn : ndigits x.mant = x.len * 19)
    (hxp : 0 < x.mant) (hyl : 1 ≤ y.len) (hyn : ndigits y.mant = y.len * 19) (hyp : 0 < y.mant)
    (hp1 : 1 ≤ z.prec) (hp2 : z.prec ≤ MaxPrec) : (uquo z x y).Canonical :=
  Decimal.uquo_canonical z x y hxl hxn hxp hyl hyn hyp hp1 hp2

/-! ### One preservation theorem per operation (every aliasing combination) -/

theorem add_canonical (z x y : Dec) (sx sy : Bool) (hz : z.Canonical) (hx : x.Canonical)
    (hy : y.Canonical) : (add z x y sx sy).1.Canonical := Decimal.add_canonical z x y sx sy hz hx hy
theorem sub_canonical (z x y : Dec) (sx sy : Bool) (hz : z.Canonical) (hx : x.Canonical)
    (hy : y.Canonical) : (sub z x y sx sy).1.Canonical := Decimal.sub_canonical z x y sx sy hz hx hy
theorem mul_canonical (z x y : Dec) (sx sy : Bool) (hz : z.Canonical) (hx : x.Canonical)
    (hy : y.Canonical) : (mul z x y sx sy).1.Canonical := Decimal.mul_canonical z x y sx sy hz hx hy
theorem quo_canonical (z x y : Dec) (sx sy : Bool) (hz : z.Canonical) (hx : x.Canonical)
    (hy : y.Canonical) : (quo z x y sx sy).1.Canonical := Decimal.quo_canonical z x y sx sy hz hx hy
theorem fma_canonical (z x y u : Dec) (sx sy su : Bool) (hz : z.Canonical) (hx : x.Canonical)
    (hy : y.Canonical) (hu : u.Canonical) : (fma z x y u sx sy su).1.Canonical :=
  Decimal.fma_canonical z x y u sx sy su hz hx hy hu
theorem sqrt_canonical (z x : Dec) (same : Bool) (hz : z.Canonical) (hx : x.Canonical) :
    (sqrt z x same).1.Canonical := Decimal.sqrt_canonical z x same hz hx
theorem set_canonical (z x : Dec) (same : Bool) (hz : z.Canonical) (hx : x.Canonical) :
    (set z x same).Canonical := Decimal.set_canonical' z x same hz hx
theorem neg_canonical (z x : Dec) (same : Bool) (hz : z.Canonical) (hx : x.Canonical) :
    (neg z x same).Canonical := Decimal.neg_canonical z x same hz hx
theorem abs_canonical (z x : Dec) (same : Bool) (hz : z.Canonical) (hx : x.Canonical) :
    (abs z x same).Canonical := Decimal.abs_canonical z x same hz hx
theorem copy_canonical (z x : Dec) (same : Bool) (hz : z.Canonical) (hx : x.Canonical) :
    (copy z x same).Canonical := Decimal.copy_canonical z x same hz hx
theorem setPrec_canonical (z : Dec) (p : Nat) (hz : z.Canonical) : (setPrec z p).Canonical :=
  Decimal.setPrec_canonical z p hz
theorem setMode_canonical (z : Dec) (m : Mode) (hz : z.Canonical) : (setMode z m).Canonical :=
  Decimal.setMode_canonical z m hz
theorem setInf_canonical (z : Dec) (s : Bool) (hz : z.Canonical) : (setInf z s).Canonical :=
  Decimal.setInf_canonical z s hz
theorem setBits64_canonical (z : Dec) (n : Bool) (v : Nat) (e : Int) (hz : z.Canonical) :
    (setBits64 z n v e).Canonical := Decimal.setBits64_canonical z n v e hz
theorem setInt_canonical (z : Dec) (v : Int) (hz : z.Canonical) : (setInt z v).Canonical :=
  Decimal.setInt_canonical z v hz
theorem setBitsExpFull_canonical (z : Dec) (ws : List Nat) (e : Int) (hz : z.Canonical) :
    (setBitsExpFull z ws e).Canonical := Decimal.setBitsExpFull_canonical z ws e hz
theorem setMantExp_canonical (z m : Dec) (e : Int) (same : Bool) (hz : z.Canonical) (hm : m.Canonical) :
    (setMantExp z m e same).Canonical := Decimal.setMantExp_canonical z m e same hz hm
theorem mantExp_canonical (x m : Dec) (same : Bool) (hx : x.Canonical) (hm : m.Canonical) :
    (mantExp x m same).2.Canonical := Decimal.mantExp_canonical x m same hx hm

/-- Any payload accepted by `GobDecode` yields a canonical value — whatever the receiver held. -/
theorem gobDecode_canonical (z : Dec) (buf : List Nat) (d : Dec) (hb : ∀ b ∈ buf, b < 256)
    (h : gobDecode z buf = some d) : d.Canonical := Decimal.gobDecode_canonical z buf d hb h

/-! ### Context wrappers -/

theorem ctx_apply_canonical (c : Ctx) (z : Dec) (hz : z.Canonical) : (c.apply z).Canonical :=
  Decimal.ctx_apply_canonical c z hz
theorem ctx_guarded_canonical (c : Ctx) (z : Dec) (op : Dec → Dec × Outcome) (hz : z.Canonical)
    (hop : ∀ w : Dec, w.Canonical → (op w).1.Canonical) : (c.guarded z op).1.Canonical :=
  Decimal.guarded_canonical c z op hz hop
theorem ctx_plain_canonical (c : Ctx) (z : Dec) (op : Dec → Dec) (hz : z.Canonical)
    (hop : ∀ w : Dec, w.Canonical → (op w).Canonical) : (c.plain z op).Canonical :=
  Decimal.plain_canonical c z op hz hop

/-! ### Programs -/

theorem step_canonical (w : World) (op : Op) (hw : ∀ d ∈ w.vars, d.Canonical) (hv : op.Valid) :
    ∀ d ∈ (step w op).1.vars, d.Canonical := Decimal.step_canonical w op hw hv

/-- C08. -/
theorem reachable_canonical (w : World) (ops : List Op) (hw : ∀ d ∈ w.vars, d.Canonical)
    (hv : ∀ op ∈ ops, op.Valid) : ∀ d ∈ (run w ops).vars, d.Canonical :=
  Decimal.reachable_canonical ops w hw hv

theorem canonical_unique (x y : Dec) (hx : x.form = .finite) (hy : y.form = .finite)
    (hn : x.neg = y.neg) (hc : cmp x y = 0) :
    x.exp = y.exp ∧ x.mant * B ^ (y.len - x.len) = y.mant * B ^ (x.len - y.len) :=
  Decimal.canonical_unique x y hx hy hn hc

/-! ### Non-vacuity -/

/-- A finite canonical value: 1 = 0.1000…e1, precision 5. -/
theorem one_canonical :
    Dec.Canonical { form := .finite, mant := 1000000000000000000, len := 1, exp := 1, prec := 5 } := by
  refine ⟨by decide, Or.inr (Or.inl rfl), fun _ => ⟨by decide, ?_, by decide, by decide, by decide, Or.inr (by decide)⟩⟩
  exact ndigits_unique (d := 19) (by decide) (by decide) (by decide)

example : ∀ d ∈ (run { vars := [{ form := .finite, mant := 1000000000000000000, len := 1, exp := 1, prec := 5 }, {}] }
    [.mul 1 0 0, .add 0 0 1, .cQuo 1 0 1, .gobDecode 0 [1, 2, 3]]).vars, d.Canonical :=
  reachable_canonical _ _
    (by
      intro d hd
      simp only [List.mem_cons, List.mem_nil_iff, or_false] at hd
      rcases hd with rfl | rfl
      · exact one_canonical
      · exact default_canonical)
    (by
      intro op hop
      simp only [List.mem_cons, List.mem_nil_iff, or_false] at hop
      rcases hop with rfl | rfl | rfl | rfl
      · trivial
      · trivial
      · trivial
      · intro b hb
        simp only [List.mem_cons, List.mem_nil_iff, or_false] at hb
        rcases hb with rfl | rfl | rfl <;> decide)

#print axioms round_canonical
#print axioms setExpAndRound_canonical
#print axioms setNormAndRound_canonical
#print axioms uquo_canonical
#print axioms add_canonical
#print axioms sub_canonical
#print axioms mul_canonical
#print axioms quo_canonical
#print axioms fma_canonical
#print axioms sqrt_canonical
#print axioms set_canonical
#print axioms setPrec_canonical
#print axioms setInt_canonical
#print axioms setBitsExpFull_canonical
#print axioms setMantExp_canonical
#print axioms mantExp_canonical
#print axioms gobDecode_canonical
#print axioms step_canonical
#print axioms reachable_canonical
#print axioms canonical_unique

end Decimal.C08
