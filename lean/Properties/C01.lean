/-
  C01: on canonical finite operands, `Add Sub Mul Quo Set Neg Abs SetPrec` leave in the receiver
  exactly the specification result: the exact value rounded once to the receiver's (effective)
  precision under the receiver's mode — value, sign and accuracy (`Spec.agrees`) — and the
  receiver's precision and mode are as documented.

  Final statements only; proofs in `Proofs/Canonical.lean`, `Proofs/Arith.lean`,
  `Proofs/ArithOps.lean`.

  Sums are proved against the *plain* exact sum `Spec'.addSV` (`SQ.add`) — `add_correct_exact`,
  `sub_correct_exact`. `Spec.addSV`, which the driver evaluates, uses the executable shortcut
  `SQ.addForRound` for far-apart exponents; `addForRound_sound` (Proofs/AddFar.lean) proves that
  the shortcut does not change the rounded result for integer coefficients, hence `add_correct`,
  `sub_correct` against `Spec.addSV` / `Spec.subSV` themselves.

  Operands are distinct from the receiver (`sx = sy = false`); the aliased variants follow
  from C10.
-/
import Proofs.ArithOps
import Proofs.AddFar
import Mathlib.Tactic.NormNum

namespace Decimal.C01
open Decimal Spec

/-- The value of a finite Decimal, as the specification sees it. -/
theorem ofDec_finite (x : Dec) (h : x.form = .finite) :
    ofDec x = .fin x.neg (x.mant : Rat) (intExp x) := by
  unfold ofDec; rw [h]; rfl

/-! ### Add, Sub -/

theorem add_correct_exact (z x y : Dec) (hx : FinCanon x) (hy : FinCanon y) :
    ∃ r, Spec'.addSV z.mode (effPrec2 z x y) (ofDec x) (ofDec y) = some r
      ∧ agrees (add z x y).1 r = true ∧ (add z x y).2 = .ok
      ∧ (add z x y).1.prec = effPrec2 z x y ∧ (add z x y).1.mode = z.mode := by
  rw [ofDec_finite x hx.form_eq, ofDec_finite y hy.form_eq]
  exact ⟨_, rfl, Decimal.add_correct z x y hx hy⟩

theorem sub_correct_exact (z x y : Dec) (hx : FinCanon x) (hy : FinCanon y) :
    ∃ r, Spec'.subSV z.mode (effPrec2 z x y) (ofDec x) (ofDec y) = some r
      ∧ agrees (sub z x y).1 r = true ∧ (sub z x y).2 = .ok
      ∧ (sub z x y).1.prec = effPrec2 z x y ∧ (sub z x y).1.mode = z.mode := by
  rw [ofDec_finite x hx.form_eq, ofDec_finite y hy.form_eq]
  exact ⟨_, rfl, Decimal.sub_correct z x y hx hy⟩

/-- The far-operand shortcut of the executable specification is sound. -/
theorem addForRound_sound (mode : Mode) (p : Nat) (a b : SQ) (zn : Bool) (hp : 1 ≤ p)
    (ha : ∃ n : Int, a.s = n) (hb : ∃ n : Int, b.s = n) :
    roundSQ mode p (SQ.addForRound p a b) zn = roundSQ mode p (a.add b) zn :=
  Decimal.addForRound_sound mode p a b zn hp ha hb

/-- `Add` against the specification the driver evaluates. -/
theorem add_correct (z x y : Dec) (hx : FinCanon x) (hy : FinCanon y) :
    ∃ r, Spec.addSV z.mode (effPrec2 z x y) (ofDec x) (ofDec y) = some r
      ∧ agrees (add z x y).1 r = true ∧ (add z x y).2 = .ok
      ∧ (add z x y).1.prec = effPrec2 z x y ∧ (add z x y).1.mode = z.mode := by
  rw [addSV_eq_exact _ _ (effPrec2_pos z hx hy) _ _ (intSV_ofDec x) (intSV_ofDec y)]
  exact add_correct_exact z x y hx hy

theorem sub_correct (z x y : Dec) (hx : FinCanon x) (hy : FinCanon y) :
    ∃ r, Spec.subSV z.mode (effPrec2 z x y) (ofDec x) (ofDec y) = some r
      ∧ agrees (sub z x y).1 r = true ∧ (sub z x y).2 = .ok
      ∧ (sub z x y).1.prec = effPrec2 z x y ∧ (sub z x y).1.mode = z.mode := by
  rw [subSV_eq_exact _ _ (effPrec2_pos z hx hy) _ _ (intSV_ofDec x) (intSV_ofDec y)]
  exact sub_correct_exact z x y hx hy

/-- Exact cancellation: `x + (−x)` is `+0`, `−0` under `ToNegativeInf`, with accuracy `Exact`. -/
theorem add_cancel (z x y : Dec) (hx : FinCanon x) (hy : FinCanon y)
    (hs : y.neg = !x.neg) (hm : alignL x y = alignL y x) :
    (add z x y).1.form = .zero ∧ (add z x y).1.neg = (z.mode == .ToNegativeInf)
      ∧ (add z x y).1.acc = Exact := by
  obtain ⟨h, _⟩ := Decimal.add_correct z x y hx hy
  have h0 : ((SQ.mk (x.mant : ℚ) (intExp x)).add ⟨-(y.mant : ℚ), intExp y⟩).s = 0 := by
    rw [SQ_add_eq]
    have a := alignL_cast x y
    have b := alignL_cast y x
    rw [hm] at a
    simp only
    linarith
  rw [hs, addExact_diff_eq _ _ _ _ _ _ _ h0, agrees_iff] at h
  exact ⟨h.1, h.2.1, h.2.2.1⟩

/-! ### Mul, Quo -/

theorem mul_correct (z x y : Dec) (hx : FinCanon x) (hy : FinCanon y) :
    ∃ r, Spec.mulSV z.mode (effPrec2 z x y) (ofDec x) (ofDec y) = some r
      ∧ agrees (mul z x y).1 r = true ∧ (mul z x y).2 = .ok
      ∧ (mul z x y).1.prec = effPrec2 z x y ∧ (mul z x y).1.mode = z.mode := by
  rw [ofDec_finite x hx.form_eq, ofDec_finite y hy.form_eq]
  exact ⟨_, rfl, Decimal.mul_correct z x y hx hy⟩

theorem quo_correct (z x y : Dec) (hx : FinCanon x) (hy : FinCanon y) :
    ∃ r, Spec.quoSV z.mode (effPrec2 z x y) (ofDec x) (ofDec y) = some r
      ∧ agrees (quo z x y).1 r = true ∧ (quo z x y).2 = .ok
      ∧ (quo z x y).1.prec = effPrec2 z x y ∧ (quo z x y).1.mode = z.mode := by
  rw [ofDec_finite x hx.form_eq, ofDec_finite y hy.form_eq]
  exact ⟨_, rfl, Decimal.quo_correct z x y hx hy⟩

/-! ### Set, Neg, Abs, SetPrec

  These copy the operand when no rounding is needed, so they need the operand to be canonical in
  the strong sense (`Canon`: no non-zero digit beyond its own precision). -/

theorem set_correct (z x : Dec) (hx : Canon x) :
    agrees (set z x) (roundSV z.mode (effPrec1 z x) (ofDec x)) = true
      ∧ (set z x).prec = effPrec1 z x ∧ (set z x).mode = z.mode := by
  rw [ofDec_finite x hx.1.form_eq]
  exact Decimal.set_correct z x hx

/-- `Neg`: round, then change the sign (the accuracy is that of the rounding of `x`). -/
theorem neg_correct (z x : Dec) (hx : Canon x) :
    agrees (neg z x) { roundSV z.mode (effPrec1 z x) (ofDec x) with
        neg := !(roundSV z.mode (effPrec1 z x) (ofDec x)).neg } = true
      ∧ (neg z x).prec = effPrec1 z x ∧ (neg z x).mode = z.mode := by
  rw [ofDec_finite x hx.1.form_eq]
  exact Decimal.neg_correct z x hx

theorem abs_correct (z x : Dec) (hx : Canon x) :
    agrees (abs z x) { roundSV z.mode (effPrec1 z x) (ofDec x) with neg := false } = true
      ∧ (abs z x).prec = effPrec1 z x ∧ (abs z x).mode = z.mode := by
  rw [ofDec_finite x hx.1.form_eq]
  exact Decimal.abs_correct z x hx

theorem setPrec_correct (z : Dec) (hz : Canon z) (prec : Nat) (hprec : 1 ≤ prec) :
    agrees (setPrec z prec) (roundSV z.mode (clampPrec prec) (ofDec z)) = true
      ∧ (setPrec z prec).prec = clampPrec prec ∧ (setPrec z prec).mode = z.mode := by
  rw [ofDec_finite z hz.1.form_eq]
  exact Decimal.setPrec_correct z hz prec hprec

/-- `SetPrec(0)` of a finite value: a zero of the same sign, flagged inexact. -/
theorem setPrec_zero (z : Dec) (hf : z.form = .finite) :
    setPrec z 0 = { z with acc := makeAcc z.neg, form := .zero, prec := 0 } :=
  Decimal.setPrec_zero z hf

/-! ### Setters (re-exported by C14 / C20)

  `svOfNat`-style values: a non-zero natural `M` scaled by a power of ten. -/

theorem setBits64_correct (z : Dec) (neg : Bool) (x : Nat) (exp : Int) (hx : 0 < x) :
    let p := if z.prec == 0 then DefaultPrec else z.prec
    agrees (setBits64 z neg x exp) (roundSV z.mode p (.fin neg (x : Rat) exp)) = true
      ∧ (setBits64 z neg x exp).prec = p ∧ (setBits64 z neg x exp).mode = z.mode :=
  Decimal.setBits64_correct z neg x exp hx

theorem setBits64_zero_a (z : Dec) (neg : Bool) (exp : Int) :
    setBits64 z neg 0 exp =
      { z with prec := if z.prec == 0 then DefaultPrec else z.prec, acc := Exact, neg := neg,
               form := .zero } :=
  Decimal.setBits64_zero_a z neg exp

theorem setInt_correct (z : Dec) (x : Int) (hx : x ≠ 0) :
    let p := setIntPrec z x.natAbs
    agrees (setInt z x) (roundSV z.mode p (.fin (decide (x < 0)) (x.natAbs : Rat) 0)) = true
      ∧ (setInt z x).prec = p ∧ (setInt z x).mode = z.mode :=
  Decimal.setInt_correct z x hx

/-- The raw slice has `rawLen` words and value `M ≠ 0` (so `M < B^rawLen`); the receiver's
    precision is already non-zero (the caller's prologue sets it). -/
theorem setBitsExp_correct (z : Dec) (M rawLen : Nat) (exp : Int) (hM : 0 < M)
    (hraw : M < B ^ rawLen) (hp : 1 ≤ z.prec) :
    agrees (setBitsExp z M rawLen exp)
        (roundSV z.mode z.prec (.fin false (M : Rat) (exp - ((rawLen * 19 : Nat) : Int)))) = true
      ∧ (setBitsExp z M rawLen exp).prec = z.prec ∧ (setBitsExp z M rawLen exp).mode = z.mode :=
  Decimal.setBitsExp_correct z M rawLen exp hM hraw hp

/-- `SetMantExp` takes precision and mode from `mant`. -/
theorem setMantExp_correct (z m : Dec) (exp : Int) (hm : FinCanon m) :
    agrees (setMantExp z m exp)
        (roundSV m.mode m.prec (.fin m.neg (m.mant : Rat) (intExp m + exp))) = true
      ∧ (setMantExp z m exp).prec = m.prec ∧ (setMantExp z m exp).mode = m.mode :=
  Decimal.setMantExp_correct z m exp hm

/-! ### Non-vacuity: concrete canonical operands -/

/-- `123.45` with precision 5. -/
def xEx : Dec := ⟨.finite, false, 1234500000000000000, 1, 3, 5, .ToNearestEven, 0⟩
/-- `−0.00995` with precision 3. -/
def yEx : Dec := ⟨.finite, true, 9950000000000000000, 1, -2, 3, .ToNearestEven, 0⟩
/-- A receiver with precision 4, rounding toward +∞. -/
def zEx : Dec := { prec := 4, mode := .ToPositiveInf }

theorem xEx_canon : Canon xEx :=
  ⟨⟨rfl, by decide, ndigits_unique (by norm_num [xEx]) (by norm_num [xEx]) (by norm_num [xEx]),
    by decide, by decide, by decide⟩, ⟨12345, by norm_num [xEx]⟩⟩

theorem yEx_canon : Canon yEx :=
  ⟨⟨rfl, by decide, ndigits_unique (by norm_num [yEx]) (by norm_num [yEx]) (by norm_num [yEx]),
    by decide, by decide, by decide⟩, ⟨995, by norm_num [yEx]⟩⟩

example : ∃ r, Spec.addSV .ToPositiveInf 4 (ofDec xEx) (ofDec yEx) = some r
    ∧ agrees (add zEx xEx yEx).1 r = true :=
  let ⟨r, h1, h2, _⟩ := add_correct zEx xEx yEx xEx_canon.1 yEx_canon.1; ⟨r, h1, h2⟩
example : ∃ r, Spec.subSV .ToPositiveInf 4 (ofDec xEx) (ofDec yEx) = some r
    ∧ agrees (sub zEx xEx yEx).1 r = true :=
  let ⟨r, h1, h2, _⟩ := sub_correct zEx xEx yEx xEx_canon.1 yEx_canon.1; ⟨r, h1, h2⟩
example : ∃ r, Spec.mulSV .ToPositiveInf 4 (ofDec xEx) (ofDec yEx) = some r
    ∧ agrees (mul zEx xEx yEx).1 r = true :=
  let ⟨r, h1, h2, _⟩ := mul_correct zEx xEx yEx xEx_canon.1 yEx_canon.1; ⟨r, h1, h2⟩
example : ∃ r, Spec.quoSV .ToPositiveInf 4 (ofDec xEx) (ofDec yEx) = some r
    ∧ agrees (quo zEx xEx yEx).1 r = true :=
  let ⟨r, h1, h2, _⟩ := quo_correct zEx xEx yEx xEx_canon.1 yEx_canon.1; ⟨r, h1, h2⟩
example : agrees (set zEx xEx) (roundSV .ToPositiveInf 4 (ofDec xEx)) = true :=
  (set_correct zEx xEx xEx_canon).1
example : (neg zEx yEx).prec = 3 ∨ (neg zEx yEx).prec = 4 := Or.inr (neg_correct zEx yEx yEx_canon).2.1
example : (abs zEx yEx).mode = .ToPositiveInf := (abs_correct zEx yEx yEx_canon).2.2
example : agrees (setPrec xEx 2) (roundSV .ToNearestEven 2 (ofDec xEx)) = true :=
  (setPrec_correct xEx xEx_canon 2 (by decide)).1
/-- exact cancellation is reachable: `x + (−x)`. -/
example : (add zEx xEx { xEx with neg := true }).1.form = .zero :=
  (add_cancel zEx xEx { xEx with neg := true } xEx_canon.1 xEx_canon.1 rfl rfl).1

example : agrees (setBits64 {} true 12345 (-2)) (roundSV .ToNearestEven DefaultPrec (.fin true 12345 (-2))) = true :=
  (setBits64_correct {} true 12345 (-2) (by decide)).1
example : agrees (setInt { prec := 3 } (-98765)) (roundSV .ToNearestEven 3 (.fin true 98765 0)) = true :=
  (setInt_correct { prec := 3 } (-98765) (by decide)).1
example : agrees (setBitsExp { prec := 3 } 98765 2 7)
    (roundSV .ToNearestEven 3 (.fin false 98765 (7 - ((2 * 19 : Nat) : Int)))) = true :=
  (setBitsExp_correct { prec := 3 } 98765 2 7 (by decide) (by decide) (by decide)).1
example : (setMantExp zEx xEx 10).prec = 5 := (setMantExp_correct zEx xEx 10 xEx_canon.1).2.1

#print axioms setBits64_correct
#print axioms setInt_correct
#print axioms setBitsExp_correct
#print axioms setMantExp_correct
#print axioms addForRound_sound
#print axioms add_correct_exact
#print axioms sub_correct_exact
#print axioms add_correct
#print axioms sub_correct
#print axioms add_cancel
#print axioms mul_correct
#print axioms quo_correct
#print axioms set_correct
#print axioms neg_correct
#print axioms abs_correct
#print axioms setPrec_correct

end Decimal.C01
