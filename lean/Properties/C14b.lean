/-
  C14b — the radix-conversion loops under `SetInt` / `Int` / `Rat`: `dec.setNat` (base 2^64 → base
  10^19) and `decToNat` (base 10^19 → base 2^64), with the float64 length estimates of their
  destinations, and the word-level `SetInt` / `Int` built on them (model: DecimalModel/Radix.lean).

  Final statements only; proofs in Proofs/Radix.lean (loops), Proofs/RadixEst.lean, RadixEstA.lean,
  RadixEstD.lean (estimates), Proofs/RadixInt.lean (composition, refinement to L1).

  Vocabulary
  * `binOf x` / `natOf x`: value of a little-endian vector of base-2^64 / base-10^19 words;
    `WFbin x` / `WF x`: every word below 2^64 / 10^19; `Normalized x`: no leading zero word.
  * A destination (`z.make(n)`, `makeNat(z, n)`: NOT cleared by Go) is a list of the requested length
    with arbitrary initial words: the receiver `z` of `setNat`, `mkBuf n junk` elsewhere.  All
    statements hold FOR EVERY initial contents, and `*_any_buffer` say the result does not depend
    on them: every word of the result has been written by the loops.
  * `setIntWords bits` / `decToNatWords digits`: the Go length estimates, the float64 product
    modelled bit-exactly (`roundF64`; compared with Go on 60 263 arguments).

  Ranges.  The estimates go through `float64` and ARE NOT sufficient for all arguments:
  `SetInt`'s estimate is one word short for the bit lengths 1137446633, 1840432505, 2274893266,
  2626386202, 3060846963, 3412339899, 3680865010, 3763832835, 4115325771, 4198293596 (exhaustive
  search of 1 … 2^32−1 against a 128-bit fixed-point log10 2, ambiguous cases resolved with 80-digit
  arithmetic): e.g. `bits = 1137446633`: `float64(bits)*log10_2` rounds to exactly
  342405555 = 19·18021345 although `2^1137446633 − 1` has 342405556 digits, so `SetInt` of such an
  integer (142 MB) silently drops the leading digit (`setNat_truncates` below: a short destination
  yields the value modulo `B^len`, no panic).  No digit count below 2^32 makes `decToNat`'s estimate
  fail (same search).  `setIntWords_fails` / `setNat_setInt_wrong`
  prove the first failure inside Lean.  The positive theorems cover bit lengths ≤ 2^24 = 16 777 216
  (5 050 445 digits) and digit counts ≤ 5 050 000 (every theorem with such a hypothesis inherits
  the restriction from the two `*_suffices_partial`), by kernel evaluation of a monotone lower bound of the estimates
  at the 278 528 resp. 262 144 places where the destination length changes, against the certified
  inequalities `2^6107016 ≤ 10^1838395` and `10^1936274 ≤ 2^6432163`.
-/
import Proofs.RadixInt
import Proofs.RadixEstFail
import Properties.C14

namespace Decimal.C14b
open Decimal Decimal.L0 Decimal.Gen Spec

/-! ## `divWVW_g`, `setNat` -/

/-- `divWVW_g(z, 0, x, y)`: quotient and remainder of the base-2^64 number by the word `y`; every
    quotient word fits a machine word (`bits.Div` does not panic). -/
theorem divWVW_spec (x : List Nat) (y : Nat) (hx : WFbin x) (hy0 : 0 < y)
    (hy : y ≤ 18446744073709551616) :
    binOf (divWVW x 0 y).1 = binOf x / y ∧ (divWVW x 0 y).2 = binOf x % y
      ∧ WFbin (divWVW x 0 y).1 ∧ (divWVW x 0 y).1.length = x.length :=
  L0.divWVW_spec x y hx hy0 hy

/-- `z.setNat(x)` for every vector of machine words `x` and EVERY destination `z` that is long
    enough for the value: a well-formed normalised decimal vector with the same value. -/
theorem setNat_spec (z x : List Nat) (hx : WFbin x) (hfit : binOf x < B ^ z.length) :
    natOf (setNat z x) = binOf x ∧ WF (setNat z x) ∧ Normalized (setNat z x) :=
  ⟨setNat_fits z x hx hfit, (setNat_value z x hx).2⟩

/-- whatever the length of the destination: the value modulo `B^len(z)` (a destination that is too
    short TRUNCATES silently; there is no index out of range in `setNat`). -/
theorem setNat_truncates (z x : List Nat) (hx : WFbin x) :
    natOf (setNat z x) = binOf x % B ^ z.length ∧ WF (setNat z x) ∧ Normalized (setNat z x) :=
  setNat_value z x hx

/-- closed form: the `len(z)` low decimal words of the value, normalised — `z`'s words do not occur. -/
theorem setNat_eq (z x : List Nat) (hx : WFbin x) :
    setNat z x = norm (W.toWords (binOf x) z.length) :=
  L0.setNat_eq z x hx

theorem setNat_any_buffer (z z' x : List Nat) (hx : WFbin x) (hl : z.length = z'.length) :
    setNat z x = setNat z' x :=
  setNat_buf z z' x hx hl

/-! ## the length estimates -/

/-- float64 rounding to nearest loses at most a relative 2^-53. -/
theorem roundF64_ge (P : Nat) : (2 ^ 53 - 1) * P ≤ 2 ^ 53 * roundF64 P := L0.roundF64_ge P

/-- `SetInt`'s estimate `(uint32(math.Ceil(float64(bits)*log10_2)) + 18) / 19` suffices for every
    value below `2^bits`, for `bits ≤ 2^24`.
    PARTIAL in the range only: the statement is FALSE at `bits = 1137446633` (`setIntWords_fails`);
    for `2^24 < bits < 1137446633` it holds according to the exhaustive search described above but
    is not proved here. -/
theorem setIntWords_suffices_partial (bits : Nat) (h : bits ≤ 16777216) :
    2 ^ bits ≤ B ^ setIntWords bits :=
  L0.setIntWords_suffices bits h

/-- the estimate does NOT suffice at `bits = 1137446633`: 18021345 words, but `2^bits > B^18021345`. -/
theorem setIntWords_fails :
    setIntWords 1137446633 = 18021345 ∧ B ^ setIntWords 1137446633 < 2 ^ 1137446633 :=
  ⟨L0.setIntWords_1137446633, L0.setIntWords_fails⟩

/-- and `SetInt`'s conversion of every integer of that bit length at or above `10^342405555`
    (`2^1137446633 − 1` is one: `L0.setNat_setInt_wrong_witness`) returns LESS than the integer. -/
theorem setNat_setInt_wrong (junk : Nat → Nat) (x : List Nat) (hx : WFbin x)
    (hb : bitLen (binOf x) = 1137446633) (hbig : B ^ 18021345 ≤ binOf x) :
    natOf (setNat (mkBuf (setIntWords (bitLen (binOf x))) junk) x) < binOf x :=
  L0.setNat_setInt_wrong junk x hx hb hbig

/-- `decToNat`'s estimate `(int(float64(digits)*log2_10) + 64) / 64` suffices for every value below
    `10^digits`, for `digits ≤ 5 050 000`.
    PARTIAL in the range only: for `5 050 000 < digits < 2^32` the exhaustive search found no
    failure (the float64 constant errs by less than half an ulp of the product, so rounding to
    nearest always recovers the multiple of 64), not proved here. -/
theorem decToNatWords_suffices_partial (d : Nat) (h : d ≤ 5050000) : 10 ^ d ≤ W ^ decToNatWords d :=
  L0.decToNatWords_suffices d h

/-- `x.digits()` bounds the value, normalised or not. -/
theorem natOf_lt_pow_digits (x : List Nat) (hx : WF x) : natOf x < 10 ^ digits x :=
  L0.natOf_lt_pow_digits x hx

/-- `setNat` as `SetInt` calls it — destination of the estimated length with arbitrary contents —
    for every integer of at most 2^24 bits. -/
theorem setNat_setInt_spec (junk : Nat → Nat) (x : List Nat) (hx : WFbin x)
    (hb : bitLen (binOf x) ≤ 16777216) :
    natOf (setNat (mkBuf (setIntWords (bitLen (binOf x))) junk) x) = binOf x
      ∧ WF (setNat (mkBuf (setIntWords (bitLen (binOf x))) junk) x)
      ∧ Normalized (setNat (mkBuf (setIntWords (bitLen (binOf x))) junk) x) :=
  setNat_setInt junk x hx hb

/-! ## `decToNat` -/

/-- `decToNat(z, x)` for every decimal vector of at most 5 050 000 digits and EVERY initial
    contents of the destination: machine words with the same value; no leading zero word when `x`
    has none (for two words and more, also when `x` has some). -/
theorem decToNat_spec (junk : Nat → Nat) (x : List Nat) (hx : WF x) (hd : digits x ≤ 5050000) :
    binOf (decToNat junk x) = natOf x ∧ WFbin (decToNat junk x)
      ∧ (Normalized x → Normalized (decToNat junk x)) :=
  decToNat_value junk x hx hd

/-- closed form for two words and more (no bound on the size): the estimated number of low binary
    words of the value, normalised. -/
theorem decToNat_eq (junk : Nat → Nat) (x : List Nat) (hx : WF x) (hl : 2 ≤ x.length) :
    decToNat junk x = norm (toWordsBin (natOf x) (decToNatWords (digits x))) :=
  L0.decToNat_eq junk x hx hl

theorem decToNat_any_buffer (j1 j2 : Nat → Nat) (x : List Nat) (hx : WF x) :
    decToNat j1 x = decToNat j2 x :=
  decToNat_junk j1 j2 x hx

/-- the two conversions are inverse to each other on the covered sizes. -/
theorem setNat_decToNat (junk junk' : Nat → Nat) (x : List Nat) (hx : WF x) (hd : digits x ≤ 5050000)
    (hb : bitLen (natOf x) ≤ 16777216) :
    natOf (setNat (mkBuf (setIntWords (bitLen (natOf x))) junk') (decToNat junk x)) = natOf x := by
  obtain ⟨h1, h2, -⟩ := decToNat_value junk x hx hd
  have := (setNat_setInt junk' (decToNat junk x) h2 (by rw [h1]; exact hb)).1
  rw [h1] at this
  exact this

/-! ## word-level `SetInt` and `Int` -/

/-- `setInt_words`: the word-level `SetInt` (bit length, estimate, `make`, `setNat`, precision
    from `nlz10`, `dnorm`, `round`) does not panic and leaves the state of the L1 `setInt`:
    `x.Bits()` any machine words of at most 2^24 bits, `neg = (x.Sign() < 0)`. -/
theorem setInt_words (z : W.WDec) (junk : Nat → Nat) (neg : Bool) (x : List Nat) (hx : WFbin x)
    (hb : bitLen (binOf x) ≤ 16777216) (hneg : binOf x = 0 → neg = false) :
    ∃ w', W.setInt z junk neg x = .ok w'
      ∧ W.abs w' = Decimal.setInt (W.abs z) (if neg then -(binOf x : Int) else (binOf x : Int))
      ∧ (w'.form = .finite → WF w'.mant) :=
  W.setInt_refines z junk neg x hx hb hneg

/-- composed with `C14.setInt_correct`: the WORDS left by `SetInt` are the integer rounded once to
    the receiver's precision (or to `max(ndigits, 34)` digits when that precision is 0) under the
    receiver's mode, with a truthful accuracy. -/
theorem setInt_words_correct (z : W.WDec) (junk : Nat → Nat) (neg : Bool) (x : List Nat)
    (hx : WFbin x) (hb : bitLen (binOf x) ≤ 16777216) (h0 : binOf x ≠ 0) :
    let p := if z.prec = 0 then max (min (ndigits (binOf x)) MaxPrec) 34 else z.prec
    ∃ w', W.setInt z junk neg x = .ok w'
      ∧ agrees (W.abs w') (Spec.round z.mode p neg (binOf x : ℚ) 0) = true
      ∧ w'.prec = p ∧ w'.mode = z.mode ∧ w'.neg = neg ∧ (w'.form = .finite → WF w'.mant) := by
  intro p
  obtain ⟨w', e1, e2, e3⟩ := W.setInt_refines z junk neg x hx hb (fun h => absurd h h0)
  have hX : (if neg then -(binOf x : Int) else (binOf x : Int)) ≠ 0 := by
    cases neg <;> simp <;> omega
  have hXneg : decide ((if neg then -(binOf x : Int) else (binOf x : Int)) < 0) = neg := by
    cases neg <;> simp
    omega
  have hXabs : (if neg then -(binOf x : Int) else (binOf x : Int)).natAbs = binOf x := by
    cases neg <;> simp
  have h := C14.setInt_correct (W.abs z) _ hX
  simp only [hXneg, hXabs] at h
  rw [← e2] at h
  exact ⟨w', e1, h.1, h.2.1, h.2.2.1, h.2.2.2, e3⟩

/-- `x.intMant()` on words is the L1 `intMant`. -/
theorem intMant_words (x : W.WDec) (hx : W.Opnd x) :
    natOf (W.intMant x) = Decimal.intMant (W.abs x) ∧ WF (W.intMant x) ∧ Normalized (W.intMant x) :=
  W.intMant_refines x hx

/-- `x.Int(z)` for a finite `x ≥ 1` with at most 5 050 000 integer digits: the words handed to
    `z.SetBits` are `⌊|x|⌋` in base 2^64, normalised, whatever `z.Bits()` contained
    (`truncNat (abs x) = ⌊|x|⌋`: `C14.truncNat_floor`). -/
theorem intWords_spec (x : W.WDec) (junk : Nat → Nat) (hx : W.WInv x) (hf : x.form = .finite)
    (he : 0 < x.exp) (hmax : x.exp ≤ 5050000) :
    binOf (W.intWords x junk) = truncNat (W.abs x) ∧ WFbin (W.intWords x junk)
      ∧ Normalized (W.intWords x junk) :=
  W.intWords_refines x junk hx hf he hmax

/-! ## Non-vacuity and concrete values -/

/-- `2^64 + 5` from two binary words into a junk-filled two-word destination. -/
example : setNat [7, 7] [5, 1] = [8446744073709551621, 1] := by decide

example : WFbin [5, 1] ∧ binOf [5, 1] < B ^ [7, 7].length := by
  refine ⟨?_, by decide⟩
  intro w hw
  simp at hw
  omega

/-- a destination one word short: the top word is lost, no panic. -/
example : setNat [7] [5, 1] = [8446744073709551621] := by decide

/-- `10^19 + 3 = [3, 1]` in base 10^19 is `[10000000000000000003]` in base 2^64. -/
example : decToNat (fun _ => 99) [3, 1] = [10000000000000000003] := by decide

example : WF [3, 1] ∧ digits [3, 1] ≤ 5050000 := by
  refine ⟨?_, by decide⟩
  intro w hw
  simp at hw
  omega

/-- the estimates at small sizes. -/
example : setIntWords 64 = 2 ∧ setIntWords 63 = 1 ∧ decToNatWords 20 = 2 ∧ decToNatWords 38 = 2 := by
  decide

/-- the smallest bit length below 2^32 at which `SetInt`'s estimate is one word short
    (`2^1137446633` has 342405556 = 19·18021345 + 1 digits). -/
example : setIntPrec 1137446633 = 342405555 ∧ setIntWords 1137446633 = 18021345
    ∧ 19 * 18021345 = 342405555 := by decide

/-- `SetInt(-(2^64+5))` on a receiver of precision 5, mode ToNearestEven: does not panic, and its
    words are the rounded integer. -/
example : ∃ w', W.setInt { prec := 5 } (fun _ => 99) true [5, 1] = .ok w'
    ∧ agrees (W.abs w') (Spec.round .ToNearestEven 5 true ((binOf [5, 1] : Nat) : ℚ) 0) = true := by
  have hx : WFbin [5, 1] := by
    intro w hw
    simp at hw
    omega
  obtain ⟨w', h1, h2, -⟩ := setInt_words_correct { prec := 5 } (fun _ => 99) true [5, 1] hx
    (by decide) (by decide)
  exact ⟨w', h1, h2⟩

#print axioms divWVW_spec
#print axioms setNat_spec
#print axioms setNat_truncates
#print axioms setNat_eq
#print axioms setNat_any_buffer
#print axioms roundF64_ge
#print axioms setIntWords_suffices_partial
#print axioms setIntWords_fails
#print axioms setNat_setInt_wrong
#print axioms decToNatWords_suffices_partial
#print axioms natOf_lt_pow_digits
#print axioms setNat_setInt_spec
#print axioms decToNat_spec
#print axioms decToNat_eq
#print axioms decToNat_any_buffer
#print axioms setNat_decToNat
#print axioms setInt_words
#print axioms setInt_words_correct
#print axioms intMant_words
#print axioms intWords_spec

end Decimal.C14b
