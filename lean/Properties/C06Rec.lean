/-
  C06Rec — the recursive division of `dec` (`divRecursive` / `divRecursiveStep`, Burnikel–Ziegler
  style, taken by `divLarge` for divisors of at least `divRecursiveThreshold` words), word-list level
  L0, model `DecimalModel/DivRec.lean` of the code AS IT IS NOW (final block shift `s = B-1`).

  For every recursion threshold `thr ≥ 4` (for `thr < 4` the Go recursion does not terminate) and
  every Karatsuba threshold `kthr ≥ 1`: total correctness — quotient and remainder of the Euclidean
  division, well formed and normalised, and NO failure: none of the three `panic("impossible")`, no
  slice/index panic, no lost carry, enough `temps` entries (`2·bits.Len(len v)`), enough fuel.
  Final statements only; proofs in `Proofs/DivRecArith.lean`, `Proofs/DivRecLeaf.lean`,
  `Proofs/DivRec.lean`.
-/
import Proofs.DivRec

namespace Decimal.C06Rec
open Decimal Decimal.L0

/-! ### Burnikel–Ziegler Lemma 2 (pure arithmetic): `v = vh·P + vl`, `u = uh·P + ul` -/

/-- the estimate from the high parts is not below the true quotient. -/
theorem bz_lower (P vh vl uh ul : Nat) (hul : ul < P) (hvh : 0 < vh) :
    (uh * P + ul) / (vh * P + vl) ≤ uh / vh :=
  L0.bz_lower P vh vl uh ul hul hvh

/-- … and exceeds it by at most 2 as soon as `⌊uh/vh⌋ ≤ 2·vh + 2`. -/
theorem bz_upper (P vh vl uh ul : Nat) (hvl : vl < P) (hvh : 0 < vh) (hq : uh / vh ≤ 2 * vh + 2) :
    uh / vh ≤ (uh * P + ul) / (vh * P + vl) + 2 :=
  L0.bz_upper P vh vl uh ul hvl hvh hq

/-- word form ("the difference is at most 2 if len(v1) >= len(u/v)"): `vh ≥ β^L/2` (an `L`-word high
    part with top word ≥ β/2) and `uh < vh·β^L` (the quotient of the high parts has at most `L` words). -/
theorem bz_upper_words (β L P vh vl uh ul : Nat) (hvl : vl < P) (hvh : β ^ L ≤ 2 * vh)
    (hβ : 0 < β) (hq : uh < vh * β ^ L) :
    uh / vh ≤ (uh * P + ul) / (vh * P + vl) + 2 :=
  L0.bz_upper_words β L P vh vl uh ul hvl hvh hβ hq

/-! ### the leaf -/

/-- `divBasic` as `divRecursiveStep` calls it: any destination that can hold the quotient, the top
    `len v` words of the dividend possibly ≥ v. -/
theorem divBasic_gen (u v : List Nat) (n m qlen : Nat) (hn : 2 ≤ n) (hvl : v.length = n) (hv : WF v)
    (hu : WF u) (hul : u.length = m + n) (hnorm : 10000000000000000000 ≤ 2 * v.getD (n - 1) 0)
    (hfit : natOf u < natOf v * B ^ qlen) (hmq : m ≤ qlen) :
    ∃ q r, divBasic qlen u v = .ok (q, r) ∧ r.length = m + n ∧ WF r ∧ q.length = qlen ∧ WF q
      ∧ natOf r < natOf v ∧ natOf q * natOf v + natOf r = natOf u :=
  L0.divBasic_gen u v n m qlen hn hvl hv hu hul hnorm hfit hmq

/-! ### divRecursiveStep -/

/-- TOTAL correctness of `divRecursiveStep` at any depth: divisor whose normal form has ≥ 2 words
    and top word ≥ B/2, destination of `zlen` words that can hold the quotient
    (`∃ w, w·B^(n-1) ≤ v ∧ u < w·B^(n-1+zlen)`; `w` is the scaling factor at the top level, 1 below),
    fuel above `len v`, `(len v - 3)·2^depth < 2^rd` (`rd = len(temps)`). -/
theorem divRecStep_total (thr kthr rd : Nat) (hthr : 4 ≤ thr) (hk : 1 ≤ kthr)
    (fuel depth k zlen : Nat) (u0 v0 : List Nat) (hu : WF u0) (hv : WF v0) (hn : 2 ≤ (norm v0).length)
    (hnorm : 10000000000000000000 ≤ 2 * (norm v0).getD ((norm v0).length - 1) 0)
    (hfits : ∃ w, w * B ^ ((norm v0).length - 1) ≤ natOf v0
      ∧ natOf u0 < w * B ^ ((norm v0).length - 1 + zlen))
    (hfuel : (norm v0).length < fuel) (hdepth : ((norm v0).length - 3) * 2 ^ depth < 2 ^ rd) :
    ∃ z u' k', divRecStep thr kthr rd fuel depth k zlen u0 v0 = .ok (z, u', k')
      ∧ natOf u0 = natOf z * natOf v0 + natOf u' ∧ natOf u' < natOf v0 ∧ WF z ∧ WF u'
      ∧ z.length = zlen ∧ u'.length = u0.length :=
  L0.divRecStep_total thr kthr rd hthr hk fuel depth k zlen u0 v0 hu hv hn hnorm hfits hfuel hdepth

/-- (a) PARTIAL correctness: IF the step returns `.ok (z, u', k')` THEN `u = z·v + u'` and `u' < v`. -/
theorem divRecStep_spec (thr kthr rd : Nat) (hthr : 4 ≤ thr) (hk : 1 ≤ kthr)
    (fuel depth k zlen : Nat) (u0 v0 z u' : List Nat) (k' : Nat) (hu : WF u0) (hv : WF v0)
    (hn : 2 ≤ (norm v0).length)
    (hnorm : 10000000000000000000 ≤ 2 * (norm v0).getD ((norm v0).length - 1) 0)
    (hfits : ∃ w, w * B ^ ((norm v0).length - 1) ≤ natOf v0
      ∧ natOf u0 < w * B ^ ((norm v0).length - 1 + zlen))
    (hfuel : (norm v0).length < fuel) (hdepth : ((norm v0).length - 3) * 2 ^ depth < 2 ^ rd)
    (h : divRecStep thr kthr rd fuel depth k zlen u0 v0 = .ok (z, u', k')) :
    natOf u0 = natOf z * natOf v0 + natOf u' ∧ natOf u' < natOf v0 ∧ WF z ∧ WF u'
      ∧ z.length = zlen ∧ u'.length = u0.length :=
  L0.divRecStep_spec thr kthr rd hthr hk fuel depth k zlen u0 v0 z u' k' hu hv hn hnorm hfits hfuel hdepth h

/-- (b) NO "impossible" (and no other failure). -/
theorem divRecStep_no_error (thr kthr rd : Nat) (hthr : 4 ≤ thr) (hk : 1 ≤ kthr)
    (fuel depth k zlen : Nat) (u0 v0 : List Nat) (hu : WF u0) (hv : WF v0)
    (hn : 2 ≤ (norm v0).length)
    (hnorm : 10000000000000000000 ≤ 2 * (norm v0).getD ((norm v0).length - 1) 0)
    (hfits : ∃ w, w * B ^ ((norm v0).length - 1) ≤ natOf v0
      ∧ natOf u0 < w * B ^ ((norm v0).length - 1 + zlen))
    (hfuel : (norm v0).length < fuel) (hdepth : ((norm v0).length - 3) * 2 ^ depth < 2 ^ rd) (e : String) :
    divRecStep thr kthr rd fuel depth k zlen u0 v0 ≠ .error e :=
  L0.divRecStep_no_error thr kthr rd hthr hk fuel depth k zlen u0 v0 hu hv hn hnorm hfits hfuel hdepth e

/-! ### divRecursive, divLargeRec, divFull -/

theorem divRecursive_total (thr kthr zlen : Nat) (hthr : 4 ≤ thr) (hk : 1 ≤ kthr) (u v : List Nat)
    (hu : WF u) (hv : WF v) (hn : 2 ≤ v.length)
    (hnorm : 10000000000000000000 ≤ 2 * v.getD (v.length - 1) 0)
    (hfits : ∃ w, w * B ^ (v.length - 1) ≤ natOf v ∧ natOf u < w * B ^ (v.length - 1 + zlen)) :
    ∃ z r, divRecursive thr kthr zlen u v = .ok (z, r)
      ∧ natOf u = natOf z * natOf v + natOf r ∧ natOf r < natOf v ∧ WF z ∧ WF r
      ∧ z.length = zlen ∧ r.length = u.length :=
  L0.divRecursive_total thr kthr zlen hthr hk u v hu hv hn hnorm hfits

/-- `divLarge` with both paths, under `divLarge`'s preconditions. -/
theorem divLargeRec_total (thr kthr : Nat) (hthr : 4 ≤ thr) (hk : 1 ≤ kthr) (uIn vIn : List Nat)
    (hu : WF uIn) (hv : WF vIn) (hnv : Normalized vIn) (hn : 2 ≤ vIn.length)
    (hmn : vIn.length ≤ uIn.length) :
    ∃ q r, divLargeRec thr kthr uIn vIn = .ok (q, r) ∧ natOf uIn = natOf q * natOf vIn + natOf r
      ∧ natOf r < natOf vIn ∧ WF q ∧ WF r ∧ Normalized q ∧ Normalized r :=
  L0.divLargeRec_total thr kthr hthr hk uIn vIn hu hv hnv hn hmn

theorem divLargeRec_spec (thr kthr : Nat) (hthr : 4 ≤ thr) (hk : 1 ≤ kthr) (uIn vIn q r : List Nat)
    (hu : WF uIn) (hv : WF vIn) (hnv : Normalized vIn) (hn : 2 ≤ vIn.length)
    (hmn : vIn.length ≤ uIn.length) (h : divLargeRec thr kthr uIn vIn = .ok (q, r)) :
    natOf uIn = natOf q * natOf vIn + natOf r ∧ natOf r < natOf vIn ∧ WF q ∧ WF r ∧ Normalized q
      ∧ Normalized r :=
  L0.divLargeRec_spec thr kthr hthr hk uIn vIn q r hu hv hnv hn hmn h

/-- `dec.div` with the recursive path: total correctness on all valid operands. -/
theorem divFull_total (thr kthr : Nat) (hthr : 4 ≤ thr) (hk : 1 ≤ kthr) (u v : List Nat)
    (hu : WF u) (hv : WF v) (hnu : Normalized u) (hnv : Normalized v) (hne : v ≠ []) :
    ∃ q r, divFull thr kthr u v = .ok (q, r) ∧ natOf u = natOf q * natOf v + natOf r ∧ natOf r < natOf v
      ∧ WF q ∧ WF r ∧ Normalized q ∧ Normalized r :=
  L0.divFull_total thr kthr hthr hk u v hu hv hnu hnv hne

theorem divFull_spec (thr kthr : Nat) (hthr : 4 ≤ thr) (hk : 1 ≤ kthr) (u v q r : List Nat)
    (hu : WF u) (hv : WF v) (hnu : Normalized u) (hnv : Normalized v) (hne : v ≠ [])
    (h : divFull thr kthr u v = .ok (q, r)) :
    natOf u = natOf q * natOf v + natOf r ∧ natOf r < natOf v ∧ WF q ∧ WF r ∧ Normalized q
      ∧ Normalized r :=
  L0.divFull_spec thr kthr hthr hk u v q r hu hv hnu hnv hne h

theorem divFull_no_error (thr kthr : Nat) (hthr : 4 ≤ thr) (hk : 1 ≤ kthr) (u v : List Nat)
    (hu : WF u) (hv : WF v) (hnu : Normalized u) (hnv : Normalized v) (hne : v ≠ []) (e : String) :
    divFull thr kthr u v ≠ .error e :=
  L0.divFull_no_error thr kthr hthr hk u v hu hv hnu hnv hne e

/-- the recursive path returns exactly the word lists of the basic path, whatever the thresholds. -/
theorem divFull_eq_div (thr kthr : Nat) (hthr : 4 ≤ thr) (hk : 1 ≤ kthr) (u v : List Nat)
    (hu : WF u) (hv : WF v) (hnu : Normalized u) (hnv : Normalized v) (hne : v ≠ []) :
    divFull thr kthr u v = div u v :=
  L0.divFull_eq_div thr kthr hthr hk u v hu hv hnu hnv hne

/-- production thresholds (`divRecursiveThreshold = 100`, `decKaratsubaThreshold = 30`). -/
theorem divFull_production (u v : List Nat) (hu : WF u) (hv : WF v) (hnu : Normalized u)
    (hnv : Normalized v) (hne : v ≠ []) :
    ∃ q r, divFull 100 30 u v = .ok (q, r) ∧ natOf u = natOf q * natOf v + natOf r ∧ natOf r < natOf v
      ∧ WF q ∧ WF r ∧ Normalized q ∧ Normalized r :=
  L0.divFull_total 100 30 (by omega) (by omega) u v hu hv hnu hnv hne

end Decimal.C06Rec
