/-
  C20b — int64 saturation of the exponent arithmetic of the repaired code.

  C20 said "int64 saturation of the repaired code: run only (unbounded integers in the model)".
  `DecimalModel/SatInt.lean` now models `addExp` (decimal.go, repair commit 871f791) literally on
  int64 values (`addExpSat`, wrap-around `wrap64` then the two saturation tests), and its three
  call sites with the machine arithmetic:
      `setBits64Sat`   — `setBits64`   (SetInt64, SetUint64, NewDecimal, …)
      `setMantExpSat`  — `SetMantExp`
      `setBitsExpSat`  — `SetBitsExp`  (`setBitsExpFullSat` with its precision prologue).
  Each call site performs ONE `addExp` (there is no chain of saturating additions); its second
  argument is computed with ordinary wrapping int64 `* −`, modelled by `wrap64` after each
  operation and proved not to wrap.

  Results: for all int64 arguments `addExpSat a b` is the exact sum clamped to the int64 range,
  hence equal to it when it is representable and on the same side of `[MinExp, MaxExp]` always;
  `setExpAndRound` cannot tell them apart; the three machine-arithmetic functions are EQUAL to
  the L1 functions, so every L1 theorem (C01 `setBits64_correct` `setMantExp_correct`, C20
  `setBitsExp_correct` `setMantExp_range` `setMantExp_mantExp`, C08 canonicity, …) transfers by
  rewriting; the main ones are restated below.

  Validation (`#eval`, before proving): `addExpSat` = clamp(a+b) on a 40×40 grid of int64 edge
  values (1600 cases, 0 differences), the same 1600 rows fed to the verbatim Go `addExp`: 0
  differences; `setBits64Sat`/`setMantExpSat`/`setBitsExpFullSat` against the L1 functions on
  3280 + 2296 + 1148 argument combinations around the int64/int32 edges: 0 differences.

  Proofs in `Proofs/SatInt.lean`.
-/
import Proofs.SatInt
import Properties.C01
import Properties.C20

namespace Decimal.C20b

open Decimal Spec

/-! ### `addExp` -/

/-- `addExp(a, b)` is the exact sum clamped to `[MinInt64, MaxInt64]`. -/
theorem addExpSat_eq_clamp (a b : Int) (ha : isInt64 a) (hb : isInt64 b) :
    addExpSat a b =
      if a + b < MinInt64 then MinInt64 else if a + b > MaxInt64 then MaxInt64 else a + b :=
  Decimal.addExpSat_eq_clamp ha hb

/-- It is the exact sum whenever that is an int64 … -/
theorem addExpSat_exact (a b : Int) (ha : isInt64 a) (hb : isInt64 b) (h : isInt64 (a + b)) :
    addExpSat a b = a + b :=
  Decimal.addExpSat_exact ha hb h

/-- … and lands on the same side of `[MinExp, MaxExp]` as the exact sum in every case. -/
theorem addExpSat_same_side (a b : Int) (ha : isInt64 a) (hb : isInt64 b) :
    (addExpSat a b < MinExp ↔ a + b < MinExp) ∧ (addExpSat a b > MaxExp ↔ a + b > MaxExp) ∧
      (MinExp ≤ a + b → a + b ≤ MaxExp → addExpSat a b = a + b) ∧ isInt64 (addExpSat a b) :=
  ⟨addExpSat_lt_MinExp_iff ha hb, addExpSat_gt_MaxExp_iff ha hb, addExpSat_in_range ha hb,
    addExpSat_isInt64 ha hb⟩

/-- `setExpAndRound` gives the same state for the saturated and for the exact sum. -/
theorem setExpAndRound_addExpSat (z : Dec) (a b : Int) (ha : isInt64 a) (hb : isInt64 b) (sb : Bool) :
    setExpAndRound z (addExpSat a b) sb = setExpAndRound z (a + b) sb :=
  Decimal.setExpAndRound_addExpSat z ha hb sb

/-! ### The three call sites: machine arithmetic = unbounded arithmetic -/

/-- `SetMantExp` (any aliasing): `exp` a Go `int`; `z.exp`, `mant.exp` are int32 fields (any int64
    will do). -/
theorem setMantExp_sat_eq (z mant : Dec) (exp : Int) (same : Bool) (hexp : isInt64 exp)
    (hz : isInt64 z.exp) (hm : isInt64 mant.exp) :
    setMantExpSat z mant exp same = setMantExp z mant exp same :=
  Decimal.setMantExp_sat_eq z mant exp same hexp hz hm

/-- `setBits64`: `x` a uint64, `exp` an int64. -/
theorem setBits64_sat_eq (z : Dec) (neg : Bool) (x : Nat) (exp : Int) (hexp : isInt64 exp)
    (hx : x < 2 ^ 64) : setBits64Sat z neg x exp = setBits64 z neg x exp :=
  Decimal.setBits64_sat_eq z neg x exp hexp hx

/-- `SetBitsExp`: the raw slice (`rawLen` words, value `M < B^rawLen`) has fewer than `2^62`
    digits — true of any Go slice. -/
theorem setBitsExp_sat_eq (z : Dec) (M rawLen : Nat) (exp : Int) (hexp : isInt64 exp)
    (hraw : M < B ^ rawLen) (hlen : rawLen * 19 < 2 ^ 62) :
    setBitsExpSat z M rawLen exp = setBitsExp z M rawLen exp :=
  Decimal.setBitsExp_sat_eq z M rawLen exp hexp hraw hlen

theorem setBitsExpFull_sat_eq (z : Dec) (ws : List Nat) (e : Int) (hexp : isInt64 e)
    (hws : ∀ w ∈ ws, w < B) (hlen : ws.length * 19 < 2 ^ 62) :
    setBitsExpFullSat z ws e = setBitsExpFull z ws e :=
  Decimal.setBitsExpFull_sat_eq z ws e hexp hws hlen

/-! ### Transferred statements -/

/-- C01 `setMantExp_correct` for the machine-arithmetic model. -/
theorem setMantExpSat_correct (z m : Dec) (exp : Int) (hm : FinCanon m) (hexp : isInt64 exp)
    (hz : isInt64 z.exp) :
    agrees (setMantExpSat z m exp)
        (roundSV m.mode m.prec (.fin m.neg (m.mant : Rat) (intExp m + exp))) = true
      ∧ (setMantExpSat z m exp).prec = m.prec ∧ (setMantExpSat z m exp).mode = m.mode := by
  have hme : isInt64 m.exp := by
    have h1 := hm.exp_ge
    have h2 := hm.exp_le
    unfold MinExp at h1
    unfold MaxExp at h2
    unfold isInt64 MinInt64 MaxInt64
    omega
  rw [setMantExp_sat_eq z m exp false hexp hz hme]
  exact C01.setMantExp_correct z m exp hm

/-- C20 `setMantExp_range`: underflow / overflow of `SetMantExp` exactly when the EXACT sum of the
    exponents leaves the range — also for `e` near the int64 bounds, where the unrepaired
    wrapping sum landed on the wrong side. -/
theorem setMantExpSat_range (z m : Dec) (e : Int) (hc : m.Canonical) (hf : m.form = .finite)
    (he : isInt64 e) (hz : isInt64 z.exp) :
    let r := setMantExpSat z m e
    (r.form = .zero ↔ m.exp + e < MinExp) ∧ (r.form = .inf ↔ m.exp + e > MaxExp) ∧
      r.neg = m.neg ∧ r.prec = m.prec ∧ r.mode = m.mode ∧
      (r.form = .zero → r.acc = makeAcc m.neg) ∧ (r.form = .inf → r.acc = makeAcc (!m.neg)) ∧
      (r.form = .finite → r.exp = m.exp + e ∧ r.acc = Exact ∧ r.len ≤ m.len ∧
        r.mant * B ^ (m.len - r.len) = m.mant) := by
  have hme : isInt64 m.exp := by
    obtain ⟨-, -, h1, h2, -⟩ := hc.fin_e hf
    unfold MinExp at h1
    unfold MaxExp at h2
    unfold isInt64 MinInt64 MaxInt64
    omega
  rw [setMantExp_sat_eq z m e false he hz hme]
  exact C20.setMantExp_range z m e hc hf

/-- C01 `setBits64_correct`. -/
theorem setBits64Sat_correct (z : Dec) (neg : Bool) (x : Nat) (exp : Int) (hx : 0 < x)
    (hx64 : x < 2 ^ 64) (hexp : isInt64 exp) :
    let p := if z.prec == 0 then DefaultPrec else z.prec
    agrees (setBits64Sat z neg x exp) (roundSV z.mode p (.fin neg (x : Rat) exp)) = true
      ∧ (setBits64Sat z neg x exp).prec = p ∧ (setBits64Sat z neg x exp).mode = z.mode := by
  rw [setBits64_sat_eq z neg x exp hexp hx64]
  exact C01.setBits64_correct z neg x exp hx

/-- C20 `setBitsExp_correct`. -/
theorem setBitsExpSat_correct (z : Dec) (ws : List Nat) (e : Int) (hws : ∀ w ∈ ws, w < B)
    (he : isInt64 e) (hlen : ws.length * 19 < 2 ^ 62) :
    let M := natOf ws
    let p := if z.prec = 0 then max (min (nwords M * 19) MaxPrec) 34 else z.prec
    let z' := setBitsExpFullSat z ws e
    agrees z' (roundSV z.mode p
        (if M = 0 then .zero false else .fin false (M : ℚ) (e - (19 * ws.length : Nat)))) = true ∧
      z'.mode = z.mode ∧ z'.prec = (if M = 0 then z.prec else p) := by
  rw [setBitsExpFull_sat_eq z ws e he hws hlen]
  exact C20.setBitsExp_correct z ws e hws

/-! ### Non-vacuity -/

-- saturation happens, in both directions, where the plain int64 sum wraps to the other side
example : addExpSat MaxInt64 20 = MaxInt64 ∧ wrap64 (MaxInt64 + 20) < MinExp := by decide
example : addExpSat MinInt64 (-5) = MinInt64 ∧ wrap64 (MinInt64 + (-5)) > MaxExp := by decide
example : addExpSat 7 (-2147483655) = -2147483648 := by decide
example : isInt64 MaxInt64 ∧ isInt64 20 ∧ ¬ isInt64 (MaxInt64 + 20) := by decide

/-- `NewDecimal(12345, MaxInt64)` overflows to `+Inf` (the wrapping sum would underflow to 0). -/
example : (setBits64Sat { prec := 3 } false 12345 MaxInt64).form = .inf := by
  rw [setBits64_sat_eq _ _ _ _ (by decide) (by norm_num)]
  have h := C01.setBits64_correct { prec := 3 } false 12345 MaxInt64 (by decide)
  have hs : setBits64 { prec := 3 } false 12345 MaxInt64 =
      setNormAndRound { prec := 3, acc := Exact, neg := false, form := .finite } 12345 MaxInt64 false := rfl
  rw [hs]
  unfold setNormAndRound setExpAndRound
  have h1 : ¬ (MaxInt64 + ((nwords 12345 * DW : Nat) : Int) - ((dnormShift 12345 (nwords 12345) : Nat) : Int) < MinExp) := by
    have := dnormShift_lt 12345
    unfold MaxInt64 MinExp; omega
  have h2 : MaxInt64 + ((nwords 12345 * DW : Nat) : Int) - ((dnormShift 12345 (nwords 12345) : Nat) : Int) > MaxExp := by
    have := dnormShift_lt 12345
    unfold MaxInt64 MaxExp; omega
  simp only [h1, h2, if_false, if_true]

/-- `SetMantExp(−123.45, MinInt64)` underflows to `−0`, Above. -/
example (z : Dec) (hz : isInt64 z.exp) :
    (setMantExpSat z C20.ex1 MinInt64).form = .zero ∧ (setMantExpSat z C20.ex1 MinInt64).neg = true := by
  have h := setMantExpSat_range z C20.ex1 MinInt64 C20.ex1_canonical rfl (by decide) hz
  exact ⟨h.1.mpr (by decide), h.2.2.1⟩

example : agrees (setBits64Sat {} true 12345 (-2))
    (roundSV .ToNearestEven DefaultPrec (.fin true 12345 (-2))) = true :=
  (setBits64Sat_correct {} true 12345 (-2) (by decide) (by norm_num) (by decide)).1

example : (setMantExpSat C01.zEx C01.xEx 10).prec = 5 :=
  (setMantExpSat_correct C01.zEx C01.xEx 10 C01.xEx_canon.1 (by decide) (by decide)).2.1

#print axioms addExpSat_eq_clamp
#print axioms addExpSat_exact
#print axioms addExpSat_same_side
#print axioms setExpAndRound_addExpSat
#print axioms setMantExp_sat_eq
#print axioms setBits64_sat_eq
#print axioms setBitsExp_sat_eq
#print axioms setBitsExpFull_sat_eq
#print axioms setMantExpSat_correct
#print axioms setMantExpSat_range
#print axioms setBits64Sat_correct
#print axioms setBitsExpSat_correct

end Decimal.C20b
