/-
  C03: `FMA` (as repaired) on canonical finite operands returns `x·y + u` rounded ONCE.

  Hypotheses, both explicit:
    * `(x.len + y.len) · 19 ≤ MaxPrec`: the scratch precision `MaxPrec` holds the full product, so
      the intermediate `umul` is exact;
    * the exact product's decimal exponent `ndigits (x.mant·y.mant) + ex + ey` lies in
      `[MinExp, MaxExp]`: otherwise the intermediate product is flushed to 0 / ±Inf although the
      sum need not leave the range (recorded known finding `fma-product-exponent-out-of-range`).

  Proved against the plain exact sum (`Spec'.fmaSV`, `SQ.add`: `fma_correct_exact`) and, through
  `addForRound_sound`, against `Spec.fmaSV` itself (`fma_correct`).
  Operands distinct from the receiver (`sx = sy = su = false`).
  Final statements only; proofs in `Proofs/Fma.lean`.
-/
import Proofs.Fma
import Proofs.AddFar
import Properties.C01
import Mathlib.Tactic.NormNum

namespace Decimal.C03
open Decimal Spec

theorem fma_correct_exact (z x y u : Dec) (hx : FinCanon x) (hy : FinCanon y) (hu : FinCanon u)
    (hlen : (x.len + y.len) * 19 ≤ MaxPrec)
    (hmin : MinExp ≤ intExp x + intExp y + (ndigits (x.mant * y.mant) : Int))
    (hmax : intExp x + intExp y + (ndigits (x.mant * y.mant) : Int) ≤ MaxExp) :
    ∃ r, Spec'.fmaSV z.mode (effPrec3 z x y u) (ofDec x) (ofDec y) (ofDec u) = some r
      ∧ agrees (fma z x y u).1 r = true ∧ (fma z x y u).2 = .ok
      ∧ (fma z x y u).1.prec = effPrec3 z x y u ∧ (fma z x y u).1.mode = z.mode := by
  rw [C01.ofDec_finite x hx.form_eq, C01.ofDec_finite y hy.form_eq, C01.ofDec_finite u hu.form_eq]
  exact ⟨_, rfl, Decimal.fma_correct z x y u hx hy hu hlen hmin hmax⟩

/-- `FMA` against the specification the driver evaluates. -/
theorem fma_correct (z x y u : Dec) (hx : FinCanon x) (hy : FinCanon y) (hu : FinCanon u)
    (hlen : (x.len + y.len) * 19 ≤ MaxPrec)
    (hmin : MinExp ≤ intExp x + intExp y + (ndigits (x.mant * y.mant) : Int))
    (hmax : intExp x + intExp y + (ndigits (x.mant * y.mant) : Int) ≤ MaxExp) :
    ∃ r, Spec.fmaSV z.mode (effPrec3 z x y u) (ofDec x) (ofDec y) (ofDec u) = some r
      ∧ agrees (fma z x y u).1 r = true ∧ (fma z x y u).2 = .ok
      ∧ (fma z x y u).1.prec = effPrec3 z x y u ∧ (fma z x y u).1.mode = z.mode := by
  rw [fmaSV_eq_exact _ _ (effPrec3_pos z hu) _ _ _ (intSV_ofDec x) (intSV_ofDec y) (intSV_ofDec u)]
  exact fma_correct_exact z x y u hx hy hu hlen hmin hmax

/-- Exact cancellation `x·y + u = 0`: a zero with the IEEE sign of an exact zero sum
    (`+0`; `−0` under `ToNegativeInf`; the common sign when both addends have the same sign —
    impossible here since the sum of two non-zero values of like sign is not zero), `Exact`. -/
theorem fma_zero_sum_sign (z x y u : Dec) (hx : FinCanon x) (hy : FinCanon y) (hu : FinCanon u)
    (hlen : (x.len + y.len) * 19 ≤ MaxPrec)
    (hmin : MinExp ≤ intExp x + intExp y + (ndigits (x.mant * y.mant) : Int))
    (hmax : intExp x + intExp y + (ndigits (x.mant * y.mant) : Int) ≤ MaxExp)
    (hzero : ((signedQ (x.neg != y.neg) ((x.mant : ℚ) * (y.mant : ℚ)) (intExp x + intExp y)).add
      (signedQ u.neg u.mant (intExp u))).s = 0) :
    (fma z x y u).1.form = .zero ∧ (fma z x y u).1.acc = Exact
      ∧ (fma z x y u).1.neg = zeroSumSign z.mode (x.neg != y.neg) u.neg :=
  Decimal.fma_zero_sum_sign z x y u hx hy hu hlen hmin hmax hzero

/-! ### Non-vacuity: `123.45 × (−0.00995) + 1.5` -/

/-- `1.5` with precision 2. -/
def uEx : Dec := ⟨.finite, false, 1500000000000000000, 1, 1, 2, .ToNearestEven, 0⟩

theorem uEx_canon : Canon uEx :=
  ⟨⟨rfl, by decide, ndigits_unique (by norm_num [uEx]) (by norm_num [uEx]) (by norm_num [uEx]),
    by decide, by decide, by decide⟩, ⟨15, by norm_num [uEx]⟩⟩

theorem prodEx_digits : ndigits (C01.xEx.mant * C01.yEx.mant) = 38 :=
  ndigits_unique (by norm_num [C01.xEx, C01.yEx]) (by norm_num [C01.xEx, C01.yEx])
    (by norm_num [C01.xEx, C01.yEx])

example : ∃ r, Spec.fmaSV .ToPositiveInf 4 (ofDec C01.xEx) (ofDec C01.yEx) (ofDec uEx) = some r
    ∧ agrees (fma C01.zEx C01.xEx C01.yEx uEx).1 r = true :=
  let ⟨r, h1, h2, _⟩ := fma_correct C01.zEx C01.xEx C01.yEx uEx C01.xEx_canon.1 C01.yEx_canon.1
    uEx_canon.1 (by decide) (by rw [prodEx_digits]; decide) (by rw [prodEx_digits]; decide)
  ⟨r, h1, h2⟩

#print axioms fma_correct_exact
#print axioms fma_correct
#print axioms fma_zero_sum_sign

end Decimal.C03
