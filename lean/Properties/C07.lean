/-
  C07 — the kernels equal their mathematical definition.

  Part (a), portable Go side: the word functions below are REGENERATED from /repo on every run
  (DecimalModel/Gen/WordOps.lean, Gen/Tables.lean); these theorems are therefore re-checked against
  what the Go source says now. `W = 2^64`, decimal base `10^19`.
  Part (b), assembly side: see Properties/C07Asm.lean (when present).
-/
import Proofs.GenWordOps
import Proofs.GenTables
import Proofs.Asm
import Proofs.AsmBlocks
import Proofs.AsmLoops
import Proofs.AsmWrappers

namespace Decimal.C07
open Decimal.Gen

/-- `div10W_g`: Granlund–Montgomery division of a double word by 10^19, all inputs. -/
theorem div10W_g_correct (n1 n0 : Nat) (h1 : n1 < 10000000000000000000) (h0 : n0 < W) :
    div10W_g n1 n0 = ((n1 * W + n0) / 10000000000000000000, (n1 * W + n0) % 10000000000000000000) :=
  div10W_g_spec n1 n0 h1 h0

theorem mul10WW_g_correct (x y : Nat) (hx : x < 10000000000000000000) (hy : y < 10000000000000000000) :
    mul10WW_g x y = (x * y / 10000000000000000000, x * y % 10000000000000000000) :=
  mul10WW_g_spec x y hx hy

theorem div10WW_g_correct (u1 u0 v : Nat) (hu1 : u1 < v) (hu0 : u0 < 10000000000000000000) (hv : v ≤ 10000000000000000000) :
    div10WW_g u1 u0 v = ((u1 * 10000000000000000000 + u0) / v, (u1 * 10000000000000000000 + u0) % v) :=
  div10WW_g_spec u1 u0 v hu1 hu0 hv

theorem add10WWW_g_correct (x y c : Nat) (hx : x < 10000000000000000000) (hy : y < 10000000000000000000) (hc : c ≤ 1) :
    (add10WWW_g x y c).1 + (add10WWW_g x y c).2 * 10000000000000000000 = x + y + c
      ∧ (add10WWW_g x y c).1 < 10000000000000000000 ∧ (add10WWW_g x y c).2 ≤ 1 :=
  add10WWW_g_spec x y c hx hy hc

theorem sub10WWW_g_correct (x y b : Nat) (hx : x < 10000000000000000000) (hy : y < 10000000000000000000) (hb : b ≤ 1) :
    (sub10WWW_g x y b).1 + y + b = x + (sub10WWW_g x y b).2 * 10000000000000000000
      ∧ (sub10WWW_g x y b).1 < 10000000000000000000 ∧ (sub10WWW_g x y b).2 ≤ 1 :=
  sub10WWW_g_spec x y b hx hy hb

/-- Every row of `pow10DivTab64` divides every 64-bit word by its power of ten exactly
    (the table the shift kernels, Go and assembly, are driven by). -/
theorem magic_rows_correct (n : Nat) (hn : n < 18446744073709551616) :
    pow10DivTab64.length = 18 ∧
    magic_div magicRow1 n = (n / 10 ^ 1, n % 10 ^ 1) ∧ magic_div magicRow2 n = (n / 10 ^ 2, n % 10 ^ 2) ∧
    magic_div magicRow3 n = (n / 10 ^ 3, n % 10 ^ 3) ∧ magic_div magicRow4 n = (n / 10 ^ 4, n % 10 ^ 4) ∧
    magic_div magicRow5 n = (n / 10 ^ 5, n % 10 ^ 5) ∧ magic_div magicRow6 n = (n / 10 ^ 6, n % 10 ^ 6) ∧
    magic_div magicRow7 n = (n / 10 ^ 7, n % 10 ^ 7) ∧ magic_div magicRow8 n = (n / 10 ^ 8, n % 10 ^ 8) ∧
    magic_div magicRow9 n = (n / 10 ^ 9, n % 10 ^ 9) ∧ magic_div magicRow10 n = (n / 10 ^ 10, n % 10 ^ 10) ∧
    magic_div magicRow11 n = (n / 10 ^ 11, n % 10 ^ 11) ∧ magic_div magicRow12 n = (n / 10 ^ 12, n % 10 ^ 12) ∧
    magic_div magicRow13 n = (n / 10 ^ 13, n % 10 ^ 13) ∧ magic_div magicRow14 n = (n / 10 ^ 14, n % 10 ^ 14) ∧
    magic_div magicRow15 n = (n / 10 ^ 15, n % 10 ^ 15) ∧ magic_div magicRow16 n = (n / 10 ^ 16, n % 10 ^ 16) ∧
    magic_div magicRow17 n = (n / 10 ^ 17, n % 10 ^ 17) ∧ magic_div magicRow18 n = (n / 10 ^ 18, n % 10 ^ 18) :=
  ⟨pow10DivTab64_len_ok, magicRow1_ok n hn, magicRow2_ok n hn, magicRow3_ok n hn, magicRow4_ok n hn, magicRow5_ok n hn,
   magicRow6_ok n hn, magicRow7_ok n hn, magicRow8_ok n hn, magicRow9_ok n hn, magicRow10_ok n hn, magicRow11_ok n hn,
   magicRow12_ok n hn, magicRow13_ok n hn, magicRow14_ok n hn, magicRow15_ok n hn, magicRow16_ok n hn, magicRow17_ok n hn,
   magicRow18_ok n hn⟩

/-- `decDigits64` (table-driven) is the number of decimal digits. -/
theorem decDigits64_correct (x : Nat) (hx : x < W) (h0 : 0 < x) :
    10 ^ (decDigits64 x - 1) ≤ x ∧ x < 10 ^ decDigits64 x := decDigits64_spec x hx h0

theorem nlz10_correct (x : Nat) (hx : x < 10000000000000000000) : nlz10 x + decDigits64 x = 19 := nlz10_spec x hx

theorem trailingZeroDigits_correct (n : Nat) (h0 : 0 < n) (hn : n < W) :
    n % 10 ^ trailingZeroDigits n = 0 ∧ n / 10 ^ trailingZeroDigits n % 10 ≠ 0 := trailingZeroDigits_spec n h0 hn

theorem tables_correct : pow10tab = (List.range 20).map (10 ^ ·) ∧ pow5tab = (List.range 28).map (5 ^ ·) ∧
    c_DB = 10 ^ 19 ∧ c_DW = 19 ∧ c_W = 64 := ⟨pow10tab_ok, pow5tab_ok, consts_ok.2.2.1, consts_ok.2.1, consts_ok.1⟩

-- non-vacuity: concrete instances satisfy the hypotheses
example : div10W_g 9999999999999999999 18446744073709551615 = (18446744073709551615, 9999999999999999999) := by decide

open Decimal.Asm Decimal.Gen.Asm

/-! ## Part (b): the amd64 assembly, REGENERATED from dec_arith_amd64.s on every run
(DecimalModel/Gen/Asm.lean: one SSA let-chain per basic block; DecimalModel/AsmSem.lean: the
machine state and the block runner; DecimalModel/AsmRoutines.lean: Go-signature wrappers).
Statements are in Proofs/Asm.lean (tier A), Proofs/AsmBlocks.lean (tier B, 74 block lemmas: every
block of every routine, incl. the 4x-unrolled bodies = four Go word steps, the table row fetch with
the 16-bit load + RORW, the copy loops), Proofs/AsmLoops.lean (tier C). -/

/-- `·div10W` = the mathematical definition, all inputs in the precondition. -/
theorem asm_div10W_correct (n1 n0 : Nat) (h1 : n1 < 10000000000000000000) (h0 : n0 < W) :
    asm_div10W n1 n0 = some ((n1 * W + n0) / 10000000000000000000, (n1 * W + n0) % 10000000000000000000) :=
  asm_div10W_spec n1 n0 h1 h0

theorem asm_mul10WW_correct (x y : Nat) (hx : x < 10000000000000000000) (hy : y < 10000000000000000000) :
    asm_mul10WW x y = some (x * y / 10000000000000000000, x * y % 10000000000000000000) :=
  asm_mul10WW_spec x y hx hy

/-- assembly = regenerated portable Go kernel (statement (c) of the property) -/
theorem asm_div10W_eq_portable (n1 n0 : Nat) (h1 : n1 < 10000000000000000000) (h0 : n0 < W) :
    asm_div10W n1 n0 = some (div10W_g n1 n0) := asm_div10W_eq_go n1 n0 h1 h0

theorem asm_mul10WW_eq_portable (x y : Nat) (hx : x < 10000000000000000000) (hy : y < 10000000000000000000) :
    asm_mul10WW x y = some (mul10WW_g x y) := asm_mul10WW_eq_go x y hx hy

theorem asm_div10WW_correct : type_of% @asm_div10WW_spec := @asm_div10WW_spec
theorem asm_div10WW_eq_portable : type_of% @asm_div10WW_eq_go := @asm_div10WW_eq_go

/-- Whole-routine theorems, every length n < 2^60, memory level: the routine terminates, writes the
    specified words to z, returns the carry in the frame, leaves all other memory and the trap flag
    unchanged; the destination may be the source itself or lie below it (`zp ≤ xp ∨ xp + 8n ≤ zp`). -/
theorem asm_add10VV_routine : type_of% @add10VV_correct := @add10VV_correct
theorem asm_sub10VV_routine : type_of% @sub10VV_correct := @sub10VV_correct
theorem asm_mulAdd10VWW_routine : type_of% @mulAdd10VWW_correct := @mulAdd10VWW_correct
theorem asm_addMul10VVW_routine : type_of% @addMul10VVW_correct := @addMul10VVW_correct
theorem asm_div10VWW_routine : type_of% @div10VWW_correct := @div10VWW_correct
/-- the value computed by those routines is the arithmetic one -/
theorem asm_addVV_value : type_of% @addVV_value := @addVV_value
theorem asm_subVV_value : type_of% @subVV_value := @subVV_value
theorem asm_mulAddVWW_value : type_of% @mulAddVWW_value := @mulAddVWW_value
theorem asm_addMulVVW_value : type_of% @addMulVVW_value := @addMulVVW_value
theorem asm_divMS_value : type_of% @divMS_value := @divMS_value
/-- wrapper level (Go signature) for mulAdd10VWW -/
theorem asm_mulAdd10VWW_wrapper : type_of% @asm_mulAdd10VWW_spec := @asm_mulAdd10VWW_spec

/- The whole-routine theorems for add10VW, sub10VW, shl10VU, shr10VU (with their decCpy/decCpyInv tails)
   are in Properties/C07b.lean (Proofs/AsmLoops2, AsmLoopsAddVW, AsmLoopsSubVW, AsmLoopsShl, AsmLoopsShr, AsmWrappers2). -/

end Decimal.C07
