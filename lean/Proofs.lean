import Proofs.GenWordOps
import Proofs.GenTables
import Proofs.Basic
import Proofs.Round
import Proofs.RoundSpec
