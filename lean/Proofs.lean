import Proofs.GenWordOps
import Proofs.GenTables
