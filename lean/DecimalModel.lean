import DecimalModel.Basic
import DecimalModel.Round
import DecimalModel.Arith
import DecimalModel.Sqrt
import DecimalModel.Context
import DecimalModel.Spec.Round
import DecimalModel.Spec.IEEE
import DecimalModel.Spec.RoundInt
