import DecimalModel.Basic
import DecimalModel.Round
import DecimalModel.Arith
import DecimalModel.Spec.Round
import DecimalModel.Spec.IEEE
