#!/bin/bash
# Build everything the checks need, offline, from files on disk.
set -e
cd "$(dirname "$0")"
export GOFLAGS=-mod=mod GOPROXY=off GOSUMDB=off GOTOOLCHAIN=local
mkdir -p build evidence replays
if [ -d tools/gen ]; then
  (cd tools/gen && go build -o ../../build/gen . && ../../build/gen -repo "${VERIF_REPO:-/repo}" -out ../../lean/DecimalModel/Gen)
fi
(cd lean && lake build)
(cd harness && go build -o ../build/apiharness ./api)
if [ -d harness/kern ]; then (cd harness && go build -tags verif -o ../build/kernharness ./kern); fi
echo setup done
