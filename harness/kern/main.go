//go:build verif

// kernharness: exercises the word/vector kernels (assembly and portable Go), the dec operations
// under chosen tuning thresholds, pool poisoning and concurrent read-only sharing, through the
// hooks compiled into the package with -tags verif.
package main

import (
	"bufio"
	"flag"
	"fmt"
	"math/big"
	"math/rand"
	"os"
	"runtime"
	"strconv"
	"strings"
	"sync"

	"github.com/db47h/decimal"
)

type Word = decimal.Word

const B = 10000000000000000000

var edgeWords = []Word{0, 1, 2, 9, 10, 5, B / 2, B/2 - 1, B/2 + 1, B - 1, B - 2, B / 10, B/10 - 1, 1000000000, 999999999,
	1844674407370955161, 8446744073709551615, 4999999999999999999, 5000000000000000001}

type gen struct{ r *rand.Rand }

func (g *gen) word() Word {
	switch g.r.Intn(4) {
	case 0:
		return edgeWords[g.r.Intn(len(edgeWords))]
	case 1:
		// 10^k or 10^k ± 1
		p := Word(1)
		for i := g.r.Intn(19); i > 0; i-- {
			p *= 10
		}
		switch g.r.Intn(3) {
		case 0:
			return p
		case 1:
			return p - 1
		default:
			if p+1 < B {
				return p + 1
			}
			return p
		}
	default:
		return Word(g.r.Uint64() % B)
	}
}

func (g *gen) vec(n int) []Word {
	v := make([]Word, n)
	mode := g.r.Intn(6)
	for i := range v {
		switch mode {
		case 0:
			v[i] = B - 1
		case 1:
			v[i] = 0
		case 2:
			if g.r.Intn(3) == 0 {
				v[i] = B - 1
			} else if g.r.Intn(2) == 0 {
				v[i] = 0
			} else {
				v[i] = g.word()
			}
		default:
			v[i] = g.word()
		}
	}
	return v
}

// carryVec: words mostly B-1 or 1 (long carry chains in sums of partial products), top word non-zero
func (g *gen) carryVec(n int) []Word {
	v := make([]Word, n)
	style := g.r.Intn(4)
	for i := range v {
		switch style {
		case 0:
			v[i] = B - 1
		case 1: // one B-1 word below a run of ones (or the reverse)
			v[i] = 1
		default:
			switch k := g.r.Intn(20); {
			case k < 12:
				v[i] = B - 1
			case k < 15:
				v[i] = 1
			case k < 17:
				v[i] = 0
			case k < 18:
				v[i] = B - 2
			default:
				v[i] = g.word()
			}
		}
	}
	if style == 1 && n > 0 {
		if g.r.Intn(2) == 0 {
			v[0] = B - 1
		} else {
			v[g.r.Intn(n)] = B - 1
		}
	}
	if n > 0 && v[n-1] == 0 {
		v[n-1] = 1
	}
	return v
}

// normalised non-empty vector (top word non-zero)
func (g *gen) nvec(n int) []Word {
	v := g.vec(n)
	if n > 0 && v[n-1] == 0 {
		v[n-1] = 1 + Word(g.r.Uint64()%(B-1))
	}
	return v
}

func ws(w []Word) string {
	if len(w) == 0 {
		return "-"
	}
	var sb strings.Builder
	for i, x := range w {
		if i > 0 {
			sb.WriteByte(',')
		}
		sb.WriteString(strconv.FormatUint(uint64(x), 10))
	}
	return sb.String()
}

func (g *gen) length(max int) int {
	switch g.r.Intn(10) {
	case 0:
		return 0
	case 1, 2, 3, 4:
		return g.r.Intn(10)
	case 5, 6, 7:
		return g.r.Intn(24)
	default:
		return g.r.Intn(max + 1)
	}
}

// ---------------------------------------------------------------- word kernels

func genWW(g *gen, w *bufio.Writer, n int) {
	names := []string{"mul10WW", "div10WW", "div10W", "add10WWW", "sub10WWW", "mulAddWWW", "decDigits", "nlz10", "trailingZeroDigits"}
	for i := 0; i < n; i++ {
		name := names[g.r.Intn(len(names))]
		a, b, c := g.word(), g.word(), g.word()
		switch name {
		case "div10WW":
			// precondition a < c
			if c == 0 {
				c = 1
			}
			a = a % c
		case "div10W":
			b = Word(g.r.Uint64())
			if g.r.Intn(3) == 0 {
				b = []Word{0, 1<<63 - 1, 1 << 63, 1<<64 - 1, B, B - 1}[g.r.Intn(6)]
			}
		case "add10WWW", "sub10WWW":
			c = Word(g.r.Intn(2))
		case "mulAddWWW":
			a, b, c = Word(g.r.Uint64()), Word(g.r.Uint64()), Word(g.r.Uint64())
		case "decDigits":
			a = Word(g.r.Uint64() >> uint(g.r.Intn(64)))
			if g.r.Intn(3) == 0 {
				a = g.word()
			}
			b, c = 0, 0
		case "nlz10":
			b, c = 0, 0
		case "trailingZeroDigits":
			if a == 0 {
				a = 1
			}
			// many trailing zeros
			for k := g.r.Intn(19); k > 0 && a < B/10; k-- {
				a *= 10
			}
			b, c = 0, 0
		}
		a1, a2 := decimal.VerifWW(name, false, a, b, c)
		p1, p2 := decimal.VerifWW(name, true, a, b, c)
		fmt.Fprintf(w, "K ww %s %d %d %d | %d %d | %d %d\n", name, a, b, c, a1, a2, p1, p2)
	}
}

// ---------------------------------------------------------------- vector kernels

// runVec runs a kernel with the destination arranged according to shape:
//
//	sep     z is a separate buffer
//	inplace z is x itself
//	up      z overlaps x, starting k words above x's start (only shl10VU: high to low)
//	down    z overlaps x, starting k words below x's start (only shr10VU: low to high)
func runVec(name string, pure bool, shape string, k int, x, y []Word, s, r Word) ([]Word, Word) {
	n := len(x)
	xc := append([]Word(nil), x...)
	yc := append([]Word(nil), y...)
	var z []Word
	switch shape {
	case "sep":
		z = make([]Word, n)
		for i := range z {
			z[i] = 0xDEADBEEFDEADBEEF
		}
		if name == "addMul10VVW" {
			copy(z, yc)
		}
	case "inplace":
		z = xc
		if name == "addMul10VVW" {
			z = yc // the accumulator; x stays separate
		}
	case "up": // dec.shl in place: the destination starts k words above the source
		buf := make([]Word, n+k)
		copy(buf, x)
		xc = buf[0:n]
		z = buf[k : k+n]
	case "down": // dec.shr in place: the destination starts k words below the source
		buf := make([]Word, n+k)
		copy(buf[k:], x)
		xc = buf[k : k+n]
		z = buf[0:n]
	}
	var c Word
	panicked := false
	func() {
		defer func() {
			if e := recover(); e != nil {
				panicked = true
				fmt.Fprintf(os.Stderr, "kernel %s (pure=%v) panicked: %v\n", name, pure, e)
			}
		}()
		c = decimal.VerifVec(name, pure, z, xc, yc, s, r)
	}()
	if panicked {
		// reported through the transcript as an impossible result (no words, carry = all ones)
		return nil, ^Word(0)
	}
	return append([]Word(nil), z...), c
}

func genVec(g *gen, w *bufio.Writer, n int, maxLen int) {
	names := []string{"add10VV", "sub10VV", "add10VW", "sub10VW", "shl10VU", "shr10VU", "mulAdd10VWW", "addMul10VVW", "div10VWW", "divWVW"}
	for i := 0; i < n; i++ {
		name := names[g.r.Intn(len(names))]
		l := g.length(maxLen)
		x := g.vec(l)
		y := g.vec(l)
		var s, r Word
		switch name {
		case "divWVW": // binary words (any 64-bit value); divisor 10^19 as dec.setNat uses it, and others
			s = []Word{B, B, B, 1, 2, 10, 1 << 63, 1<<63 + 1, ^Word(0), Word(g.r.Uint64()) | 1}[g.r.Intn(10)]
			for j := range x {
				switch g.r.Intn(8) {
				case 0:
					x[j] = s
				case 1:
					x[j] = s - 1
				case 2:
					x[j] = ^Word(0)
				case 3:
					x[j] = 0
				case 4:
					x[j] = s + 1
				default:
					x[j] = Word(g.r.Uint64())
				}
			}
			if l > 0 && g.r.Intn(3) == 0 {
				x[l-1] = s // most significant word equal to the divisor
			}
			r = 0
			if g.r.Intn(3) == 0 {
				r = Word(g.r.Uint64()) % s
			}
		case "add10VW", "sub10VW":
			s = g.word()
			if g.r.Intn(2) == 0 {
				s = Word(g.r.Intn(2))
			}
			if name == "sub10VW" && g.r.Intn(3) == 0 {
				// long borrow chains
				for j := range x {
					if j < l-1 || g.r.Intn(2) == 0 {
						x[j] = 0
					}
				}
			}
			if name == "add10VW" && g.r.Intn(3) == 0 {
				for j := range x {
					if j < l-1 || g.r.Intn(2) == 0 {
						x[j] = B - 1
					}
				}
			}
		case "shl10VU", "shr10VU":
			s = Word(g.r.Intn(19))
		case "mulAdd10VWW":
			s, r = g.word(), g.word()
		case "addMul10VVW":
			s = g.word()
		case "div10VWW":
			s = g.word()
			if s == 0 {
				s = 1
			}
			r = g.word() % s
		}
		shape := "sep"
		k := 0
		switch g.r.Intn(4) {
		case 0:
			shape = "inplace"
		case 1:
			if name == "shl10VU" {
				shape, k = "up", 1+g.r.Intn(3)
			} else if name == "shr10VU" {
				shape, k = "down", 1+g.r.Intn(3)
			}
		}
		za, ca := runVec(name, false, shape, k, x, y, s, r)
		zp, cp := runVec(name, true, shape, k, x, y, s, r)
		second := y
		if name != "add10VV" && name != "sub10VV" && name != "addMul10VVW" {
			second = nil
		}
		fmt.Fprintf(w, "K vec %s %d %d %s | %s | %s | %s %d | %s %d\n", name, s, r, shape, ws(x), ws(second), ws(za), ca, ws(zp), cp)
	}
}

// ---------------------------------------------------------------- dec operations

func runDec(op string, z, x, y []Word, s uint) ([]Word, []Word, string) {
	q, r, msg := decimal.VerifDec(op, z, x, y, s)
	if msg == "" {
		msg = "-"
	}
	msg = strings.Map(func(c rune) rune {
		if c == '|' || c == '\n' {
			return '/'
		}
		return c
	}, msg)
	return q, r, msg
}

// receiver buffers: nil, stale contents of various capacities, or aliasing an operand
func (g *gen) recv(x, y []Word) []Word {
	switch g.r.Intn(5) {
	case 0:
		return nil
	case 1:
		return x
	case 2:
		if len(y) > 0 {
			return y
		}
		return nil
	default:
		z := make([]Word, g.r.Intn(8), 8+g.r.Intn(200))
		full := z[:cap(z)]
		for i := range full {
			full[i] = Word(g.r.Uint64())
		}
		return z
	}
}

func genDec(g *gen, w *bufio.Writer, n int, maxLen int, ops []string, poison bool) {
	decimal.VerifPoolPoison(poison)
	for i := 0; i < n; i++ {
		op := ops[g.r.Intn(len(ops))]
		// thresholds: small so that recursion is reached by small operands; sometimes the defaults
		kt, bt, st := 2+g.r.Intn(39), 1+g.r.Intn(60), 1+g.r.Intn(60)
		if g.r.Intn(4) == 0 {
			kt, bt, st = 30, 10, 50
		}
		if st < bt && g.r.Intn(2) == 0 {
			bt, st = st, bt
		}
		ok, ob, os_ := decimal.VerifSetThresholds(kt, bt, st)
		lx := 1 + g.length(maxLen)
		ly := 1 + g.length(maxLen)
		var x, y []Word
		var s uint
		switch op {
		case "mul":
			x, y = g.nvec(lx), g.nvec(ly)
			if g.r.Intn(3) == 0 {
				ly = lx
				y = g.nvec(ly)
			}
			if g.r.Intn(3) == 0 {
				// carry chains: partial products whose carry-out meets runs of B-1 words in the accumulator
				if g.r.Intn(2) == 0 {
					lx, ly = 2+g.r.Intn(maxLen+60), 2+g.r.Intn(maxLen+60)
				}
				x, y = g.carryVec(lx), g.carryVec(ly)
			}
		case "sqr":
			x = g.nvec(lx)
			if g.r.Intn(3) == 0 {
				x = g.carryVec(lx)
			}
		case "div":
			if g.r.Intn(4) == 0 {
				ly = 100 + g.r.Intn(maxLen+1)
			}
			y = g.nvec(ly)
			lx = ly + g.r.Intn(ly+4)
			x = g.nvec(lx)
			switch g.r.Intn(5) {
			case 0: // q̂ over-estimates: top words of u equal top words of v, second word of v extreme
				if ly >= 2 && lx >= ly {
					copy(x[lx-ly:], y)
					if g.r.Intn(2) == 0 {
						y[ly-2] = B - 1
					} else {
						y[ly-2] = 0
					}
					x[lx-1] = y[ly-1]
				}
			case 1: // divisor top word just above B/2 or tiny (large normalisation factor)
				y[ly-1] = []Word{B / 2, B/2 + 1, 1, 2, B - 1, B / 10}[g.r.Intn(6)]
			case 2: // exact multiple
				q, _, _ := runDec("mul", nil, g.nvec(1+g.r.Intn(8)), y, 0)
				x = q
			}
		case "divW":
			x = g.nvec(lx)
			s = uint(g.word())
			if s == 0 {
				s = 1
			}
		case "shl", "shr":
			x = g.nvec(lx)
			s = uint(g.r.Intn(80))
			if g.r.Intn(4) == 0 {
				s = uint(19 * g.r.Intn(5))
			}
		case "add":
			x, y = g.nvec(lx), g.nvec(ly)
			if g.r.Intn(3) == 0 && lx >= 2 {
				// operands of different lengths whose carry ripples through every remaining word of the longer one
				// (all B-1 above the shorter operand) and out of the top: the sum needs a new top word
				ly = 1 + g.r.Intn(lx-1)
				x = g.nvec(lx)
				for k := ly; k < lx; k++ {
					x[k] = B - 1
				}
				// y = B^ly - x_low: the low parts sum to exactly B^ly
				if x[0] == 0 {
					x[0] = 1 + Word(g.r.Uint64()%(B-1))
				}
				x[ly-1] %= B - 1 // keeps y's top word non-zero
				if ly == 1 && x[0] == 0 {
					x[0] = 7
				}
				y = make([]Word, ly)
				y[0] = B - x[0]
				for k := 1; k < ly; k++ {
					y[k] = B - 1 - x[k]
				}
				if g.r.Intn(2) == 0 {
					x, y = y, x
				}
			}
		case "sub":
			x, y = g.nvec(lx), g.nvec(ly)
			if len(y) > len(x) {
				x, y = y, x
			}
			if len(x) == len(y) {
				// ensure x >= y
				for k := len(x) - 1; k >= 0; k-- {
					if x[k] < y[k] {
						x, y = y, x
						break
					} else if x[k] > y[k] {
						break
					}
				}
			}
		case "mulAddWW":
			x = g.nvec(lx)
			s = uint(g.word())
		}
		xin := append([]Word(nil), x...)
		yin := append([]Word(nil), y...)
		z := g.recv(x, y)
		if op == "div" && len(z) > 0 && (&z[0] == &x[0]) {
			z = nil // div's contract: the quotient receiver must not alias u's storage when z2 is nil
		}
		q, r, msg := runDec(op, z, x, y, s)
		qs, rs := ws(q), ws(r)
		fmt.Fprintf(w, "K dec %s %d %d %d %d | %s | %s | %s | %s | %s\n", op, kt, bt, st, s, ws(xin), ws(yin), qs, rs, msg)
		decimal.VerifSetThresholds(ok, ob, os_)
	}
	if poison {
		errs, outstanding := decimal.VerifPoolErrors()
		for _, e := range errs {
			fmt.Fprintf(w, "K pool error %s | | \n", e)
		}
		_ = outstanding
	}
	decimal.VerifPoolPoison(false)
}

// ---------------------------------------------------------------- concurrency (support for C18)

// genShared runs the same operations concurrently in k goroutines on shared operands and checks
// that every goroutine obtains the sequential result and that no operand changed.
func genShared(g *gen, w *bufio.Writer, rounds int) {
	for it := 0; it < rounds; it++ {
		nops := 6
		type opnd struct{ d *decimal.Decimal }
		mk := func(words int) *decimal.Decimal {
			v := g.nvec(words)
			if v[len(v)-1] < B/10 {
				v[len(v)-1] += B / 10
			}
			if words >= 100 {
				v[len(v)-1] = B/10 + Word(g.r.Uint64()%(B/3)) // leading digit 1..4
			}
			d := new(decimal.Decimal).SetPrec(uint(19 * (words + 2)))
			d.SetBitsExp(v, int64(g.r.Intn(40)-20))
			return d
		}
		xs := make([]*decimal.Decimal, nops)
		for i := range xs {
			xs[i] = mk(1 + g.r.Intn(70))
		}
		if it%2 == 0 {
			// long division on the recursive path: divisor of >= 100 words whose top word needs a
			// normalisation factor > 1, dividend about twice as long
			xs[3] = mk(100 + g.r.Intn(60))
			xs[2] = mk(200 + g.r.Intn(120))
			// squaring above the Karatsuba threshold with a length that is not p<<i, p <= 50
			xs[1] = mk([]int{51, 75, 101, 131, 203}[g.r.Intn(5)])
		}
		snap := make([]string, nops)
		for i, x := range xs {
			m, e := x.BitsExp()
			snap[i] = fmt.Sprint(ws(m[:cap(m)]), e, x.Prec(), x.Mode(), x.Acc(), x.Signbit())
		}
		prec := uint(1 + g.r.Intn(600))
		compute := func() string {
			var sb strings.Builder
			z := new(decimal.Decimal).SetPrec(prec)
			z.Mul(xs[0], xs[1])
			sb.WriteString(z.Text('p', 0))
			z.Quo(xs[2], xs[3])
			sb.WriteString(z.Text('p', 0))
			z.Mul(xs[1], xs[1])
			sb.WriteString(z.Text('p', 0))
			z.Add(xs[4], xs[5])
			sb.WriteString(z.Text('p', 0))
			z.Sqrt(new(decimal.Decimal).Abs(xs[1]))
			sb.WriteString(z.Text('p', 0))
			z.FMA(xs[0], xs[2], xs[4])
			sb.WriteString(z.Text('p', 0))
			sb.WriteString(strconv.Itoa(xs[0].Cmp(xs[1])))
			sb.WriteString(xs[3].Text('e', 30))
			b, _ := xs[5].GobEncode()
			sb.WriteString(fmt.Sprintf("%x", b))
			i, _ := xs[2].Int(nil)
			sb.WriteString(i.String())
			return sb.String()
		}
		want := compute()
		// conversions of DIFFERENT shared operands in flight at the same time (each goroutine walks the operands in
		// its own order): explicit-precision formatting (a rounded scratch copy), fmt verbs, and parsing the text back
		item := func(i int) (r string) {
			defer func() {
				if e := recover(); e != nil {
					r = fmt.Sprint("panic: ", e)
				}
			}()
			x := xs[i]
			var sb strings.Builder
			sb.WriteString(x.Text('e', 12))
			sb.WriteString(x.Text('g', 5))
			sb.WriteString(x.Text('f', 3))
			sb.WriteString(fmt.Sprintf("%.7e|%12.4g|%v", x, x, x))
			t := x.Text('e', -1)
			if y, _, err := new(decimal.Decimal).SetPrec(x.Prec()).Parse(t, 10); err != nil || y.Cmp(x) != 0 {
				sb.WriteString("|parse differs")
			}
			if y, ok := new(decimal.Decimal).SetPrec(x.Prec()).SetString(x.Text('g', -1)); !ok || y.Cmp(x) != 0 {
				sb.WriteString("|setstring differs")
			}
			y := new(decimal.Decimal).SetPrec(x.Prec())
			if b, err := x.MarshalText(); err != nil || y.UnmarshalText(b) != nil || y.Cmp(x) != 0 {
				sb.WriteString("|unmarshal differs")
			}
			return sb.String()
		}
		wantItem := make([]string, nops)
		for i := range xs {
			wantItem[i] = item(i)
		}
		k := []int{2, 4, 8, 16}[g.r.Intn(4)]
		res := make([]string, k)
		itemsOK := make([]bool, k)
		var wg sync.WaitGroup
		for j := 0; j < k; j++ {
			wg.Add(1)
			go func(j int) {
				defer wg.Done()
				if j%3 == 0 {
					runtime.Gosched()
				}
				res[j] = compute()
				ok := true
				for rep := 0; rep < 12; rep++ {
					for i := range xs {
						ii := (i + j + rep) % nops
						if item(ii) != wantItem[ii] {
							ok = false
						}
						if (i+j)%2 == 0 {
							runtime.Gosched()
						}
					}
				}
				itemsOK[j] = ok
			}(j)
		}
		wg.Wait()
		okAll := true
		for j := range res {
			if res[j] != want || !itemsOK[j] {
				okAll = false
			}
		}
		for i, x := range xs {
			m, e := x.BitsExp()
			if snap[i] != fmt.Sprint(ws(m[:cap(m)]), e, x.Prec(), x.Mode(), x.Acc(), x.Signbit()) {
				okAll = false
			}
		}
		if okAll {
			fmt.Fprintf(w, "K shared ok %d | | \n", k)
		} else {
			fmt.Fprintf(w, "K shared differs %d goroutines prec=%d | | \n", k, prec)
		}
	}
}

func main() {
	prop := flag.String("prop", "C07", "generator: ww vec dec decpoison shared")
	seed := flag.Int64("seed", 1, "PRNG seed")
	n := flag.Int("n", 1000, "cases")
	tier := flag.String("tier", "quick", "quick|thorough")
	outPath := flag.String("out", "", "output file")
	replay := flag.String("replay", "", "re-execute the K lines of this file")
	flag.Parse()
	var w *bufio.Writer
	if *outPath == "" {
		w = bufio.NewWriterSize(os.Stdout, 1<<20)
	} else {
		f, err := os.Create(*outPath)
		if err != nil {
			fmt.Fprintln(os.Stderr, err)
			os.Exit(2)
		}
		defer f.Close()
		w = bufio.NewWriterSize(f, 1<<20)
	}
	defer w.Flush()
	g := &gen{r: rand.New(rand.NewSource(*seed))}
	maxLen := 70
	if *tier == "thorough" {
		maxLen = 400
	}
	if *replay != "" {
		doReplay(*replay, w)
		return
	}
	fmt.Fprintf(w, "# kern prop=%s seed=%d n=%d tier=%s\n", *prop, *seed, *n, *tier)
	switch *prop {
	case "ww":
		genWW(g, w, *n)
	case "vec":
		genVec(g, w, *n, maxLen)
	case "dec":
		genDec(g, w, *n, maxLen, []string{"mul", "sqr", "div", "div", "divW", "shl", "shr", "add", "sub", "mulAddWW"}, false)
	case "muldiv":
		genDec(g, w, *n, maxLen, []string{"mul", "sqr", "div", "div"}, false)
	case "divrec":
		genDivRec(g, w, *n)
	case "decpoison":
		genDec(g, w, *n, maxLen, []string{"mul", "sqr", "div", "div", "divW"}, true)
	case "shared":
		genShared(g, w, *n)
	default:
		fmt.Fprintln(os.Stderr, "unknown generator", *prop)
		os.Exit(2)
	}
}

func pw(s string) []Word {
	s = strings.TrimSpace(s)
	if s == "-" || s == "" {
		return nil
	}
	parts := strings.Split(s, ",")
	w := make([]Word, len(parts))
	for i, p := range parts {
		v, err := strconv.ParseUint(strings.TrimSpace(p), 10, 64)
		if err != nil {
			panic("bad word " + p)
		}
		w[i] = Word(v)
	}
	return w
}

func pu(s string) uint64 {
	v, err := strconv.ParseUint(strings.TrimSpace(s), 10, 64)
	if err != nil {
		panic("bad number " + s)
	}
	return v
}

// doReplay re-executes kernel cases: only the inputs of each K line are used.
func doReplay(path string, w *bufio.Writer) {
	f, err := os.Open(path)
	if err != nil {
		fmt.Fprintln(os.Stderr, err)
		os.Exit(2)
	}
	defer f.Close()
	sc := bufio.NewScanner(f)
	sc.Buffer(make([]byte, 1<<20), 1<<28)
	for sc.Scan() {
		line := sc.Text()
		if !strings.HasPrefix(line, "K ") {
			continue
		}
		parts := strings.Split(line[2:], "|")
		hd := strings.Fields(parts[0])
		switch hd[0] {
		case "ww":
			a, b, c := Word(pu(hd[2])), Word(pu(hd[3])), Word(pu(hd[4]))
			a1, a2 := decimal.VerifWW(hd[1], false, a, b, c)
			p1, p2 := decimal.VerifWW(hd[1], true, a, b, c)
			fmt.Fprintf(w, "K ww %s %d %d %d | %d %d | %d %d\n", hd[1], a, b, c, a1, a2, p1, p2)
		case "vec":
			name, s, r, shape := hd[1], Word(pu(hd[2])), Word(pu(hd[3])), hd[4]
			x, y := pw(parts[1]), pw(parts[2])
			k := 1
			za, ca := runVec(name, false, shape, k, x, y, s, r)
			zp, cp := runVec(name, true, shape, k, x, y, s, r)
			fmt.Fprintf(w, "K vec %s %d %d %s | %s | %s | %s %d | %s %d\n", name, s, r, shape, ws(x), ws(y), ws(za), ca, ws(zp), cp)
		case "dec":
			op := hd[1]
			kt, bt, st, s := int(pu(hd[2])), int(pu(hd[3])), int(pu(hd[4])), uint(pu(hd[5]))
			x, y := pw(parts[1]), pw(parts[2])
			ok, ob, os_ := decimal.VerifSetThresholds(kt, bt, st)
			q, r, msg := runDec(op, nil, append([]Word(nil), x...), append([]Word(nil), y...), s)
			decimal.VerifSetThresholds(ok, ob, os_)
			fmt.Fprintf(w, "K dec %s %d %d %d %d | %s | %s | %s | %s | %s\n", op, kt, bt, st, s, ws(x), ws(y), ws(q), ws(r), msg)
		}
	}
}

// genDivRec stresses the recursive division (divisors of at least divRecursiveThreshold = 100
// words): lengths around the block boundaries (len(u)-len(v) vs len(v)/2), adversarial words,
// near-equal leading parts, exact multiples.
func genDivRec(g *gen, w *bufio.Writer, n int) {
	for i := 0; i < n; i++ {
		ly := 100 + g.r.Intn(260)
		if g.r.Intn(4) == 0 {
			ly = 100 + g.r.Intn(40)
		}
		hb := ly / 2
		var lx int
		switch g.r.Intn(6) {
		case 0:
			lx = ly + hb // m == B: only the final block
		case 1:
			lx = ly + hb + 1
		case 2:
			lx = ly + hb - 1
		case 3:
			lx = ly + 2*hb + g.r.Intn(3) - 1
		case 4:
			lx = ly + g.r.Intn(ly+2)
		default:
			lx = ly + g.r.Intn(3*hb+2)
		}
		y := g.nvec(ly)
		x := g.nvec(lx)
		switch g.r.Intn(7) {
		case 0: // leading parts equal
			k := 1 + g.r.Intn(ly)
			copy(x[lx-k:], y[ly-k:])
		case 1: // divisor with extreme words
			for j := range y {
				if g.r.Intn(3) == 0 {
					y[j] = []Word{0, B - 1, 1, B / 2}[g.r.Intn(4)]
				}
			}
			if y[ly-1] == 0 {
				y[ly-1] = 1
			}
		case 3: // all low divisor words maximal: the part of v dropped by the block estimate is as large as it can be
			for j := 0; j < ly-1; j++ {
				y[j] = B - 1
				if g.r.Intn(40) == 0 {
					y[j] = Word(g.r.Uint64() % B)
				}
			}
			y[ly-1] = []Word{B / 2, B/2 + 1, B - 1, B / 10, 1, 2, 5000000000000000000}[g.r.Intn(7)]
		case 2: // exact multiple
			q := g.nvec(1 + g.r.Intn(hb+3))
			p, _, _ := runDec("mul", nil, q, y, 0)
			x = p
		case 4, 5: // maximal partial remainders: x = (Q*y - d)*B^k + low, so that the remainder handed to the next
			// block agrees with the divisor in its leading words (the next block quotient is as large as it can be)
			ql := []int{hb, hb - 1, hb + 1, ly / 4, 1 + g.r.Intn(hb+2)}[g.r.Intn(5)]
			if ql < 1 {
				ql = 1
			}
			k := []int{ly / 4, hb / 2, hb, 1 + g.r.Intn(hb+1), ly/4 + 1, ly/4 - 1}[g.r.Intn(6)]
			if k < 1 {
				k = 1
			}
			qv := g.nvec(ql)
			if g.r.Intn(2) == 0 { // a round quotient: one significant word
				for j := 0; j < ql-1; j++ {
					qv[j] = 0
				}
			}
			bq, by := wordsToBig(qv), wordsToBig(y)
			t := new(big.Int).Mul(bq, by)
			t.Sub(t, big.NewInt(int64(1+g.r.Intn(3))))
			if t.Sign() > 0 {
				sh := new(big.Int).Exp(new(big.Int).SetUint64(B), big.NewInt(int64(k)), nil)
				t.Mul(t, sh)
				t.Add(t, wordsToBig(g.vec(k)))
				x = bigToWords(t)
			}
		}
		xin := append([]Word(nil), x...)
		yin := append([]Word(nil), y...)
		q, r, msg := runDec("div", nil, x, y, 0)
		fmt.Fprintf(w, "K dec div 30 10 50 0 | %s | %s | %s | %s | %s\n", ws(xin), ws(yin), ws(q), ws(r), msg)
	}
}

func wordsToBig(w []Word) *big.Int {
	r := new(big.Int)
	b := new(big.Int).SetUint64(B)
	for i := len(w) - 1; i >= 0; i-- {
		r.Mul(r, b)
		r.Add(r, new(big.Int).SetUint64(uint64(w[i])))
	}
	return r
}

func bigToWords(v *big.Int) []Word {
	var out []Word
	b := new(big.Int).SetUint64(B)
	t := new(big.Int).Set(v)
	m := new(big.Int)
	for t.Sign() > 0 {
		t.DivMod(t, b, m)
		out = append(out, Word(m.Uint64()))
	}
	return out
}
