module verif/harness

go 1.21

require github.com/db47h/decimal v0.0.0

replace github.com/db47h/decimal => /repo
